/-
Lemmas.DescViews — helper lemmas for C36 (core Lean only): binary search over a sorted range list,
the sort of `lazyInit`, the `CheckValid` loop, first-wins tables, name counting,
`AppendFullName` / `FullName.Name` / `FullName.Parent`.
-/
import PbVerif.Model.DescViews
namespace Model.DescViews

/-! ### binary search -/

theorem split_at (ls : List Rng) (i : Nat) (h : i < ls.length) :
    ls = ls.take i ++ ls[i] :: ls.drop (i + 1) := by
  rw [← List.drop_eq_getElem_cons h, List.take_append_drop]

theorem bsearch_sound (e : Rng → Int) (n : Int) (ls : List Rng) :
    bsearch e n ls = true → ∃ r ∈ ls, r.start ≤ n ∧ n ≤ e r := by
  fun_induction bsearch e n ls with
  | case1 ls h i r hlt ih =>
    intro hb; obtain ⟨x, hx, hin⟩ := ih hb
    exact ⟨x, List.mem_of_mem_take hx, hin⟩
  | case2 ls h i r hlt hgt ih =>
    intro hb; obtain ⟨x, hx, hin⟩ := ih hb
    exact ⟨x, List.mem_of_mem_drop hx, hin⟩
  | case3 ls h i r hlt hgt =>
    intro _; exact ⟨r, List.getElem_mem _, by omega, by omega⟩
  | case4 ls h => intro hb; exact absurd hb (by simp)

theorem bsearch_complete (e : Rng → Int) (n : Int) (ls : List Rng)
    (hs : ls.Pairwise (fun a b => e a < b.start)) (hv : ∀ r ∈ ls, r.start ≤ e r) :
    (∃ r ∈ ls, r.start ≤ n ∧ n ≤ e r) → bsearch e n ls = true := by
  fun_induction bsearch e n ls with
  | case1 ls h i r hlt ih =>
    rintro ⟨x, hx, h1, h2⟩
    have hsplit := split_at ls i (by omega)
    rw [hsplit] at hs hx
    rw [List.pairwise_append] at hs
    obtain ⟨hs1, hs2, hs3⟩ := hs
    apply ih hs1 (fun r hr => hv r (List.mem_of_mem_take hr))
    rcases List.mem_append.1 hx with hx | hx
    · exact ⟨x, hx, h1, h2⟩
    · exfalso
      rcases List.mem_cons.1 hx with hx | hx
      · have hx : x = r := hx
        rw [hx] at h1; omega
      · have h3 : e r < x.start := (List.pairwise_cons.1 hs2).1 x hx
        have h4 : r.start ≤ e r := hv r (List.getElem_mem _)
        omega
  | case2 ls h i r hlt hgt ih =>
    rintro ⟨x, hx, h1, h2⟩
    have hsplit := split_at ls i (by omega)
    rw [hsplit] at hs hx
    rw [List.pairwise_append] at hs
    obtain ⟨hs1, hs2, hs3⟩ := hs
    apply ih (List.pairwise_cons.1 hs2).2 (fun r hr => hv r (List.mem_of_mem_drop hr))
    rcases List.mem_append.1 hx with hx | hx
    · exfalso
      have h3 : e x < r.start := hs3 x hx r (List.mem_cons_self)
      have h4 := hv x (List.mem_of_mem_take hx)
      omega
    · rcases List.mem_cons.1 hx with hx | hx
      · exfalso
        have hx : x = r := hx
        rw [hx] at h2; omega
      · exact ⟨x, hx, h1, h2⟩
  | case3 ls h i r hlt hgt => intro _; rfl
  | case4 ls h =>
    rintro ⟨x, hx, _⟩
    have : ls = [] := List.eq_nil_of_length_eq_zero (by omega)
    subst this; cases hx

/-! ### the sort of `lazyInit` -/

/-- What `CheckValid` accepts, stated on the list as listed (any order): every range is non-empty
(`Start() <= End()`) and any two are disjoint. -/
def NonOverlapping (e : Rng → Int) (rs : List Rng) : Prop :=
  (∀ r ∈ rs, r.start ≤ e r) ∧ rs.Pairwise (fun a b => e a < b.start ∨ e b < a.start)

/-- The invariant of the sorted copy that the binary search relies on. -/
def SortedNonOverlapping (e : Rng → Int) (ls : List Rng) : Prop :=
  ls.Pairwise (fun a b => e a < b.start) ∧ ∀ r ∈ ls, r.start ≤ e r

theorem sortByStart_perm (rs : List Rng) : (sortByStart rs).Perm rs := List.mergeSort_perm _ _

theorem sortByStart_sorted (rs : List Rng) :
    (sortByStart rs).Pairwise (fun a b => a.start ≤ b.start) := by
  have := List.pairwise_mergeSort (le := fun (a b : Rng) => decide (a.start ≤ b.start))
    (fun a b c hab hbc => by simp only [decide_eq_true_eq] at *; omega)
    (fun a b => by simp only [Bool.or_eq_true, decide_eq_true_eq]; omega) rs
  simpa [sortByStart] using this

theorem sorted_of_nonOverlapping (e : Rng → Int) (rs : List Rng) (h : NonOverlapping e rs) :
    SortedNonOverlapping e (sortByStart rs) := by
  have hp := sortByStart_perm rs
  have hv : ∀ r ∈ sortByStart rs, r.start ≤ e r := fun r hr => h.1 r (hp.mem_iff.1 hr)
  refine ⟨?_, hv⟩
  have h2 : (sortByStart rs).Pairwise (fun a b => e a < b.start ∨ e b < a.start) :=
    (hp.pairwise_iff (fun {a b} hab => by omega)).2 h.2
  have h3 := (sortByStart_sorted rs).and h2
  refine List.Pairwise.imp_of_mem ?_ h3
  intro a b ha hb hab
  have := hv b hb
  omega

/-- Conversely the invariant of the sorted copy gives disjointness of the list as listed. -/
theorem nonOverlapping_of_sorted (e : Rng → Int) (rs : List Rng)
    (h : SortedNonOverlapping e (sortByStart rs)) : NonOverlapping e rs := by
  have hp := sortByStart_perm rs
  refine ⟨fun r hr => h.2 r (hp.mem_iff.2 hr), ?_⟩
  refine (hp.pairwise_iff (fun {a b} hab => by omega)).1 ?_
  exact h.1.imp (fun hab => Or.inl hab)

/-- With pairwise distinct starts there is exactly one way to sort by start: whatever algorithm
`sort.Slice` uses, its result is `sortByStart rs`. -/
theorem sortByStart_unique (rs ls : List Rng) (hp : ls.Perm rs)
    (hs : ls.Pairwise (fun a b => a.start ≤ b.start))
    (hd : rs.Pairwise (fun a b => a.start ≠ b.start)) : ls = sortByStart rs := by
  have hp2 : ls.Perm (sortByStart rs) := hp.trans (sortByStart_perm rs).symm
  have hd' : ls.Pairwise (fun a b => a.start ≠ b.start) :=
    (hp.pairwise_iff (fun {a b} hab => Ne.symm hab)).2 hd
  have hs' : ls.Pairwise (fun a b => a.start < b.start) :=
    (hs.and hd').imp (fun h => by omega)
  have ht : (sortByStart rs).Pairwise (fun a b => a.start < b.start) := by
    have hd'' : (sortByStart rs).Pairwise (fun a b => a.start ≠ b.start) :=
      ((sortByStart_perm rs).pairwise_iff (fun {a b} hab => Ne.symm hab)).2 hd
    exact ((sortByStart_sorted rs).and hd'').imp (fun h => by omega)
  exact hp2.eq_of_pairwise (le := fun a b => a.start < b.start)
    (fun a b _ _ h1 h2 => by omega) hs' ht

/-! ### `CheckValid` -/

def prevOk (e : Rng → Int) (prev : Option Rng) (r : Rng) : Bool :=
  match prev with | none => true | some rp => decide (e rp < r.start)

theorem checkLoop_cons (e : Rng → Int) (ok : Int → Bool) (okR : Rng → Bool) (prev : Option Rng) (r : Rng) (rest : List Rng) :
    checkLoop e ok okR prev (r :: rest) =
      (ok r.start && (ok (e r) && (okR r && (prevOk e prev r && checkLoop e ok okR (some r) rest)))) := by
  simp only [checkLoop, prevOk]
  cases ok r.start <;> cases ok (e r) <;> cases okR r <;> cases prev <;> simp
  congr 1; simp only [← decide_not, Int.not_le]

theorem checkLoop_iff (e : Rng → Int) (ok : Int → Bool) (okR : Rng → Bool) (prev : Option Rng) (ls : List Rng)
    (hok : ∀ r ∈ ls, okR r = true → r.start ≤ e r) :
    checkLoop e ok okR prev ls = true ↔
      (∀ r ∈ ls, ok r.start = true ∧ ok (e r) = true ∧ okR r = true) ∧
      ls.Pairwise (fun a b => e a < b.start) ∧
      (∀ rp, prev = some rp → ∀ r ∈ ls, e rp < r.start) := by
  induction ls generalizing prev with
  | nil => simp [checkLoop]
  | cons r rest ih =>
    rw [checkLoop_cons]
    have ih := fun prev => ih prev (fun x hx => hok x (List.mem_cons_of_mem _ hx))
    simp only [Bool.and_eq_true, ih (some r)]
    constructor
    · rintro ⟨h1, h2, h3, h4, ha, hb, hc⟩
      have hc' := hc r rfl
      have h3' := hok r List.mem_cons_self h3
      refine ⟨?_, List.pairwise_cons.2 ⟨hc', hb⟩, ?_⟩
      · intro x hx
        rcases List.mem_cons.1 hx with hx | hx
        · subst hx; exact ⟨h1, h2, h3⟩
        · exact ha x hx
      · intro rp hrp x hx
        subst hrp
        simp only [prevOk, decide_eq_true_eq] at h4
        rcases List.mem_cons.1 hx with hx | hx
        · subst hx; exact h4
        · have := hc' x hx; omega
    · rintro ⟨ha, hb, hc⟩
      obtain ⟨h1, h2, h3⟩ := ha r List.mem_cons_self
      have hb' := List.pairwise_cons.1 hb
      refine ⟨h1, h2, h3, ?_, fun x hx => ha x (List.mem_cons_of_mem _ hx), hb'.2,
          fun rp hrp x hx => by cases hrp; exact hb'.1 x hx⟩
      cases prev with
      | none => rfl
      | some rp => simpa [prevOk] using hc rp rfl r List.mem_cons_self

/-! ### tables -/

section tables
variable {α κ : Type} [DecidableEq κ]

theorem foldl_setIfAbsent (ks : List κ) (m : Tbl κ Nat) (i : Nat) (k : κ) :
    (ks.foldl (fun m k => m.setIfAbsent k i) m).get k =
      (m.get k).or (if k ∈ ks then some i else none) := by
  induction ks generalizing m with
  | nil => simp
  | cons a as ih =>
    rw [List.foldl_cons, ih]
    unfold Tbl.setIfAbsent Tbl.set
    by_cases hka : k = a
    · subst hka
      cases hm : m.get k <;> simp [hm]
    · cases hma : m.get a <;> cases hm : m.get k <;> simp [hm, hka]

theorem buildFirstFrom_eq (keysOf : α → List κ) (i : Nat) (l : List α) (m : Tbl κ Nat) (k : κ) :
    (buildFirstFrom keysOf i l m).get k =
      (m.get k).or ((l.findIdx? (fun d => decide (k ∈ keysOf d))).map (· + i)) := by
  induction l generalizing i m with
  | nil => simp [buildFirstFrom]
  | cons d ds ih =>
    rw [buildFirstFrom, ih, foldl_setIfAbsent, List.findIdx?_cons]
    by_cases hk : k ∈ keysOf d
    · cases hm : m.get k <;> simp [hk]
    · cases hm : m.get k <;> simp [hk, Option.map_map, Function.comp_def, Nat.add_assoc, Nat.add_comm 1 i]

theorem byKeyFirst_eq (keysOf : α → List κ) (l : List α) (k : κ) :
    byKeyFirst keysOf l k = l.findIdx? (fun d => decide (k ∈ keysOf d)) := by
  unfold byKeyFirst buildFirst
  cases l with
  | nil => simp [Tbl.empty]
  | cons d ds => simp [buildFirstFrom_eq, Tbl.empty]

theorem byKeyFirst_some_iff (keysOf : α → List κ) (l : List α) (k : κ) (i : Nat) :
    byKeyFirst keysOf l k = some i ↔
      ∃ h : i < l.length, k ∈ keysOf l[i] ∧ ∀ j (hj : j < i), k ∉ keysOf (l[j]'(by omega)) := by
  rw [byKeyFirst_eq, List.findIdx?_eq_some_iff_getElem]
  simp

theorem byKeyFirst_none_iff (keysOf : α → List κ) (l : List α) (k : κ) :
    byKeyFirst keysOf l k = none ↔ ∀ d ∈ l, k ∉ keysOf d := by
  rw [byKeyFirst_eq, List.findIdx?_eq_none_iff]
  simp

end tables

/-! ### names, numbers -/

section names
variable {κ : Type} [DecidableEq κ]

theorem namesBuild_eq_count (l : List κ) (s : κ) : namesBuild l s = l.count s := by
  unfold namesBuild
  suffices h : ∀ (m : κ → Nat), (l.foldl (fun m s => fun s' => if s' = s then m s + 1 else m s') m) s = m s + l.count s by
    simpa using h (fun _ => 0)
  induction l with
  | nil => simp
  | cons a as ih =>
    intro m
    rw [List.foldl_cons, ih, List.count_cons]
    by_cases h : s = a
    · subst h; simp; omega
    · simp [h, Ne.symm h]

theorem namesHas_iff (l : List κ) (s : κ) : namesHas l s = true ↔ s ∈ l := by
  simp [namesHas, namesBuild_eq_count, List.count_pos_iff]

theorem namesCheckValid_iff (l : List κ) : namesCheckValid l = true ↔ l.Nodup := by
  simp only [namesCheckValid, namesBuild_eq_count, List.all_eq_true, Bool.not_eq_true', decide_eq_false_iff_not, Nat.not_lt]
  rw [List.nodup_iff_count]
  constructor
  · intro h a
    by_cases ha : a ∈ l
    · exact h a ha
    · rw [List.count_eq_zero.2 ha]; omega
  · intro h a _; exact h a

end names

theorem fieldNumbersHas_iff (l : List Int) (n : Int) : fieldNumbersHas l n = true ↔ n ∈ l := by
  unfold fieldNumbersHas
  suffices h : ∀ (m : Tbl Int Unit), ((l.foldl (fun (m : Tbl Int Unit) x => m.set x ()) m).get n).isSome = true ↔ (n ∈ l ∨ (m.get n).isSome = true) by
    simpa [Tbl.empty] using h Tbl.empty
  induction l with
  | nil => simp
  | cons a as ih =>
    intro m
    rw [List.foldl_cons, ih]
    by_cases h : n = a
    · simp [Tbl.set, h]
    · simp [Tbl.set, h]

theorem requiredNumbers_eq (fs : List FieldInfo) :
    requiredNumbers fs = (fs.filter (fun f => decide (f.card = Card.required))).map (·.number) := by
  unfold requiredNumbers
  suffices h : ∀ acc, fs.foldl (fun acc f => if f.card = Card.required then acc ++ [f.number] else acc) acc
      = acc ++ (fs.filter (fun f => decide (f.card = Card.required))).map (·.number) by
    simpa using h []
  induction fs with
  | nil => simp
  | cons f fs ih =>
    intro acc
    rw [List.foldl_cons, ih]
    by_cases h : f.card = Card.required <;> simp [h]

theorem oneofMembersFrom_eq (k : Nat) (j : Nat) (fs : List FieldInfo) (acc : List Nat) :
    oneofMembersFrom k j fs acc =
      acc ++ ((List.range fs.length).filter (fun i => decide ((fs[i]?).bind (·.oneof) = some k))).map (· + j) := by
  induction fs generalizing j acc with
  | nil => simp [oneofMembersFrom]
  | cons f fs ih =>
    rw [oneofMembersFrom, ih, List.length_cons, List.range_succ_eq_map]
    by_cases h : f.oneof = some k
    · simp [h, List.filter_map, Function.comp_def, List.map_map, Nat.add_assoc, Nat.add_comm 1 j]
    · simp [h, List.filter_map, Function.comp_def, List.map_map, Nat.add_assoc, Nat.add_comm 1 j]

/-! ### full names -/

/-- the readable form of `AppendFullName` -/
def joinName (pre name : Str) : Str := if pre = [] then name else pre ++ '.' :: name

theorem appendFullName_eq (pre name : Str) : appendFullName pre name = joinName pre name := by
  unfold appendFullName joinName
  cases pre with
  | nil => simp
  | cons c cs =>
    simp only [List.length_cons, List.length_append, Nat.succ_ne_zero, if_false,
      reduceCtorEq]
    have : cs.length + 1 + (name.length + 1) - (cs.length + 1 + 1 + name.length) = 0 := by omega
    rw [this]; rfl

theorem takeWhile_append_of_all {p : Char → Bool} (a b : List Char) (h : ∀ x ∈ a, p x = true) :
    (a ++ b).takeWhile p = a ++ b.takeWhile p := by
  induction a with
  | nil => rfl
  | cons x xs ih =>
    have hx := h x List.mem_cons_self
    simp only [List.cons_append, List.takeWhile_cons, hx, if_true]
    rw [ih (fun y hy => h y (List.mem_cons_of_mem _ hy))]

theorem dropWhile_append_of_all {p : Char → Bool} (a b : List Char) (h : ∀ x ∈ a, p x = true) :
    (a ++ b).dropWhile p = b.dropWhile p := by
  induction a with
  | nil => rfl
  | cons x xs ih =>
    have hx := h x List.mem_cons_self
    simp only [List.cons_append, List.dropWhile_cons, hx, if_true]
    exact ih (fun y hy => h y (List.mem_cons_of_mem _ hy))

theorem nameOf_join (pre name : Str) (h : '.' ∉ name) : nameOf (joinName pre name) = name := by
  have hall : ∀ x ∈ name.reverse, (decide (x ≠ '.')) = true := by
    intro x hx; simp only [ne_eq, decide_not, Bool.not_eq_eq_eq_not, Bool.not_true, decide_eq_false_iff_not]
    rintro rfl; exact h (List.mem_reverse.1 hx)
  unfold nameOf joinName
  split
  · have := takeWhile_append_of_all (p := fun c => decide (c ≠ '.')) name.reverse [] (by simpa using hall)
    simp only [List.append_nil, List.takeWhile_nil] at this
    rw [this, List.reverse_reverse]
  · rw [List.reverse_append, List.reverse_cons, List.append_assoc,
      takeWhile_append_of_all (p := fun c => decide (c ≠ '.')) _ _ hall]
    simp

theorem parentOf_join (pre name : Str) (h : '.' ∉ name) : parentOf (joinName pre name) = pre := by
  have hall : ∀ x ∈ name.reverse, (decide (x ≠ '.')) = true := by
    intro x hx; simp only [ne_eq, decide_not, Bool.not_eq_eq_eq_not, Bool.not_true, decide_eq_false_iff_not]
    rintro rfl; exact h (List.mem_reverse.1 hx)
  unfold parentOf joinName
  split
  · rename_i hp
    have := dropWhile_append_of_all (p := fun c => decide (c ≠ '.')) name.reverse [] hall
    simp only [List.append_nil, List.dropWhile_nil] at this
    rw [this, hp]; rfl
  · rw [List.reverse_append, List.reverse_cons, List.append_assoc,
      dropWhile_append_of_all (p := fun c => decide (c ≠ '.')) _ _ hall]
    simp

end Model.DescViews
