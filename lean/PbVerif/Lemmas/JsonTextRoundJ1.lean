import PbVerif.Lemmas.JsonTextRoundDefs
/-
JSON round trip, part 1: what decoding does with the rendering of ONE field
(`FSpec`: the decoded message gets exactly that field, normalised), for populated and for unpopulated fields.
-/
namespace JT
open Pb

variable (C : JCodec) (D : DOpts) (X : SchemaX)

/-- spec of one rendered value (a singular value or a list element) -/
def VSpec (fx : FieldX) (limit : Int) (v : Val) (jv : JV) : Prop :=
  jv.isNull = false ∧
  match v with
  | .msg m => fx.f.kind.isMessage = true ∧ dMsg C D X fx.f.sub limit jv = .ok (normMsg X fx.f.sub m)
  | sc => fx.f.kind.isMessage = false ∧ dScalar C D fx jv = .ok (some (normVal X fx sc))

/-- no other populated member of the field's (real) oneof -/
def NoOther (d : MsgX) (fx : FieldX) (acc : Fields) : Prop :=
  ∀ o, fx.f.oneof = some o → ∀ n fv, acc.get? n = some fv → n ≠ fx.f.num → ∀ f, d.pb.find n = some f → f.oneof ≠ some o

/-- spec of one rendered field: decoding it into a message that does not have the field yet sets exactly it -/
def FSpec (fx : FieldX) (limit : Int) (fv : FVal) (jv : JV) : Prop :=
  jv.isNull = false ∧
  ∀ mi acc, SortedFrom 0 acc → acc.get? fx.f.num = none → NoOther (X.msg mi) fx acc →
    dFieldVal C D X mi fx limit (.mk acc []) jv = .ok (.mk (acc.set fx.f.num (normFVal X fx fv)) [])

theorem clearOneofFor_id (d : MsgX) (fx : FieldX) (acc : Fields) (hs : SortedFrom 0 acc) (hno : NoOther d fx acc) :
    clearOneofFor d.pb fx.f acc = acc := by
  unfold clearOneofFor
  cases ho : fx.f.oneof with
  | none => rfl
  | some o =>
    simp only
    exact clearOneof_id d.pb o fx.f.num acc (fun n fv hg hne f hf => hno o ho n fv hg hne f hf) hs

/-- `m.Set(fd, v)` of a scalar into a message that does not have the field -/
theorem setSingular_fresh (d : MsgX) (fx : FieldX) (acc : Fields) (x : Val) (hs : SortedFrom 0 acc)
    (hno : NoOther d fx acc) (hz : ¬ (fx.f.card = .implicit ∧ x.isZero = true)) :
    setSingular d.pb fx.f acc x = acc.set fx.f.num (.one x) := by
  have hb : (fx.f.card = .implicit && x.isZero) = false := by
    cases h1 : x.isZero
    · simp
    · cases hc : fx.f.card <;> simp [h1]
      exact hz ⟨hc, h1⟩
  unfold setSingular
  cases ho : fx.f.oneof with
  | none => simp only [hb, Bool.false_eq_true, if_false]
  | some o =>
    simp only [hb, Bool.false_eq_true, if_false]
    rw [clearOneof_id d.pb o fx.f.num acc (fun n fv hg hne f hf => hno o ho n fv hg hne f hf) hs]

/-- the dispatch of `dFieldVal` for a non-repeated field -/
theorem dFieldVal_singular (mi : Nat) (fx : FieldX) (limit : Int) (m : Msg) (jv : JV)
    (hc1 : fx.f.card ≠ .repeated) (hc2 : fx.f.card ≠ .map) :
    dFieldVal C D X mi fx limit m jv =
      if fx.f.kind.isMessage then storeMsg (X.msg mi) m fx (dMsg C D X fx.f.sub limit jv)
      else storeScalar (X.msg mi) m fx (dScalar C D fx jv) := by
  unfold dFieldVal
  cases hc : fx.f.card <;> first | rfl | exact absurd hc hc1 | exact absurd hc hc2

theorem dFieldVal_repeated (mi : Nat) (fx : FieldX) (limit : Int) (m : Msg) (jv : JV) (hc : fx.f.card = .repeated) :
    dFieldVal C D X mi fx limit m jv = storeList m fx (dList C D X fx limit jv) := by
  unfold dFieldVal
  rw [hc]

theorem dFieldVal_map (mi : Nat) (fx : FieldX) (limit : Int) (m : Msg) (jv : JV) (hc : fx.f.card = .map) :
    dFieldVal C D X mi fx limit m jv = storeMap m fx (dMap C D X fx limit (curVals m.fields fx.f.num) jv) := by
  unfold dFieldVal
  rw [hc]

/-- a singular field -/
theorem FSpec_one (fx : FieldX) (limit : Int) (v : Val) (jv : JV)
    (hc1 : fx.f.card ≠ .repeated) (hc2 : fx.f.card ≠ .map) (hz : ¬ (fx.f.card = .implicit ∧ v.isZero = true))
    (hv : VSpec C D X fx limit v jv) : FSpec C D X fx limit (.one v) jv := by
  refine ⟨hv.1, ?_⟩
  intro mi acc hs hg hno
  rw [dFieldVal_singular C D X mi fx limit _ jv hc1 hc2]
  cases v with
  | msg m =>
    obtain ⟨_, hk, hd⟩ := hv
    simp only [hk, if_true, hd, storeMsg, normFVal, normVal, Msg.fields, Msg.unknown]
    rw [clearOneofFor_id (X.msg mi) fx acc hs hno]
  | num n =>
    obtain ⟨_, hk, hd⟩ := hv
    simp only [hk, Bool.false_eq_true, if_false, hd, storeScalar, normFVal, Msg.fields, Msg.unknown]
    rw [setSingular_fresh (X.msg mi) fx acc _ hs hno]
    intro ⟨hi, hzz⟩
    apply hz
    refine ⟨hi, ?_⟩
    simp only [normVal, Val.isZero, beq_iff_eq] at hzz ⊢
    unfold normNum at hzz
    cases hkk : fx.f.kind <;> simp only [hkk] at hzz <;> try exact hzz
    · split at hzz
      · simp [nan32] at hzz
      · exact hzz
    · split at hzz
      · simp [nan64] at hzz
      · exact hzz
  | bytes b =>
    obtain ⟨_, hk, hd⟩ := hv
    simp only [hk, Bool.false_eq_true, if_false, hd, storeScalar, normFVal, Msg.fields, Msg.unknown]
    rw [setSingular_fresh (X.msg mi) fx acc _ hs hno]
    simpa [normVal] using hz

end JT
