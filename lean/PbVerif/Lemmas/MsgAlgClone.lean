import PbVerif.Lemmas.MsgAlgMerge
/-
Merge preserves ascending field order; `clone` and merge of populated well-formed messages.
Core-only.
-/
namespace Pb
open Spec (Byte)

/-! ### ascending field numbers (the order `Fields.set` maintains) -/

def Fields.Sorted (fs : Fields) : Prop := fs.nums.Pairwise (· < ·)

theorem Fields.Sorted.nodup {fs : Fields} (h : fs.Sorted) : fs.nums.Nodup :=
  List.Pairwise.imp (fun hab => Nat.ne_of_lt hab) h

theorem Fields.mem_nums_set (fs : Fields) (k : Nat) (v : FVal) (j : Nat) :
    j ∈ (fs.set k v).nums ↔ j = k ∨ j ∈ fs.nums := by
  rw [← Fields.get?_isSome_iff, ← Fields.get?_isSome_iff, Fields.get?_set]
  by_cases h : k = j
  · simp [h]
  · simp only [h, if_false]
    constructor
    · exact Or.inr
    · rintro (e | e)
      · exact (h e.symm).elim
      · exact e

theorem Fields.sorted_set {fs : Fields} (h : fs.Sorted) (k : Nat) (v : FVal) : (fs.set k v).Sorted := by
  induction fs using Fields.ind with
  | nil => simp [Fields.Sorted, Fields.set, Fields.nums]
  | cons n x tl ih =>
    unfold Fields.Sorted at h ih ⊢
    simp only [Fields.nums, List.pairwise_cons] at h
    simp only [Fields.set]
    split
    · rename_i hk
      simp only [Fields.nums, List.pairwise_cons, List.mem_cons]
      refine ⟨?_, h⟩
      rintro a (rfl | ha)
      · exact hk
      · exact Nat.lt_trans hk (h.1 a ha)
    · split
      · simp only [Fields.nums, List.pairwise_cons]; exact h
      · rename_i h1 h2
        simp only [Fields.nums, List.pairwise_cons]
        refine ⟨?_, ih h.2⟩
        intro a ha
        rcases (Fields.mem_nums_set tl k v a).mp ha with rfl | ha
        · omega
        · exact h.1 a ha

theorem Fields.nums_erase_sublist (fs : Fields) (k : Nat) : (fs.erase k).nums.Sublist fs.nums := by
  induction fs using Fields.ind with
  | nil => exact List.Sublist.refl _
  | cons n x tl ih =>
    simp only [Fields.erase]
    split
    · exact List.Sublist.cons _ ih
    · exact List.Sublist.cons_cons _ ih

theorem Fields.nums_clearOneof_sublist (d : MsgD) (o keep : Nat) (fs : Fields) :
    (Fields.clearOneof d o keep fs).nums.Sublist fs.nums := by
  induction fs using Fields.ind with
  | nil => exact List.Sublist.refl _
  | cons n x tl ih =>
    rw [Fields.clearOneof_cons]
    split
    · exact List.Sublist.cons _ ih
    · exact List.Sublist.cons_cons _ ih

theorem sorted_clearFor {d : MsgD} {f : Field} {fs : Fields} (h : fs.Sorted) : (clearFor d f fs).Sorted := by
  unfold clearFor
  split
  · exact List.Pairwise.sublist (Fields.nums_clearOneof_sublist _ _ _ _) h
  · exact h

theorem sorted_mergeFVal (S : Schema) (d : MsgD) (f : Field) (dst : Fields) (fv : FVal)
    (h : dst.Sorted) : (mergeFVal S d f dst fv).Sorted := by
  cases fv with
  | many vs =>
    by_cases hc : f.card = .map
    · rw [mergeFVal_many_map S d f dst vs hc]
      split
      · exact h
      · exact Fields.sorted_set h _ _
    · rw [mergeFVal_many_list S d f dst vs hc, appendList_eq]
      split
      · exact h
      · exact Fields.sorted_set h _ _
  | one v =>
    rw [mergeFVal]
    cases v with
    | msg sm => rw [mergeVal_msg]; exact Fields.sorted_set (sorted_clearFor h) _ _
    | num n =>
      rw [mergeVal_scalar _ _ _ _ _ rfl, setSingular_eq]
      split
      · exact List.Pairwise.sublist (Fields.nums_erase_sublist _ _) (sorted_clearFor h)
      · exact Fields.sorted_set (sorted_clearFor h) _ _
    | bytes b =>
      rw [mergeVal_scalar _ _ _ _ _ rfl, setSingular_eq]
      split
      · exact List.Pairwise.sublist (Fields.nums_erase_sublist _ _) (sorted_clearFor h)
      · exact Fields.sorted_set (sorted_clearFor h) _ _

theorem sorted_mergeFields (S : Schema) (d : MsgD) (src : Fields) : ∀ (dst : Fields),
    dst.Sorted → (mergeFields S d dst src).Sorted := by
  induction src using Fields.ind with
  | nil => intro dst h; rw [mergeFields_nil]; exact h
  | cons n fv tl ih =>
    intro dst h
    rw [mergeFields_cons]
    apply ih
    unfold mergeField
    split
    · exact h
    · exact sorted_mergeFVal S d _ dst fv h

theorem Fields.sorted_nil : Fields.nil.Sorted := by simp [Fields.Sorted, Fields.nums]

/-! ### cloning one field value -/

/-- the value stored by `clone` for a populated field value -/
def cloneFVal (S : Schema) (f : Field) : FVal → FVal
  | .one (.msg sm) => .one (.msg (clone S f.sub sm))
  | .one v => .one v
  | .many vs =>
    if f.card = .map then .many (mergeMapVals S f.sub .nil vs) else .many (cloneVals S f vs)

theorem Fields.subAt_nil (n : Nat) : Fields.nil.subAt n = Msg.empty := rfl
theorem Fields.listAt_nil (n : Nat) : Fields.nil.listAt n = Vals.nil := rfl

theorem mapPut_not_nil (vs : Vals) (k : Val) (e : Msg) : (mapPut vs k e).isNil = false := by
  cases vs with
  | nil => rfl
  | cons v tl =>
    cases v with
    | msg old =>
      rw [mapPut]
      split
      · split <;> rfl
      · rfl
    | num n => rw [mapPut]; rfl; intro old h; cases h
    | bytes b => rw [mapPut]; rfl; intro old h; cases h

theorem mergeMapVals_cons_msg (S : Schema) (ei : Nat) (dst : Vals) (e : Msg) (tl : Vals) (k : Val)
    (hk : entryKey e = some k) :
    mergeMapVals S ei dst (.cons (.msg e) tl) =
      mergeMapVals S ei (mapPut dst k (clone S ei e)) tl := by
  rw [mergeMapVals, mergeMapVal]
  simp only [hk]
  rfl

theorem mergeMapVals_not_nil (S : Schema) (ei : Nat) (vs : Vals) : ∀ (dst : Vals),
    dst.isNil = false → (mergeMapVals S ei dst vs).isNil = false := by
  induction vs using Vals.ind with
  | nil => intro dst h; rw [mergeMapVals]; exact h
  | cons v tl ih =>
    intro dst h
    rw [mergeMapVals]
    apply ih
    cases v with
    | msg e =>
      rw [mergeMapVal]
      split
      · exact mapPut_not_nil _ _ _
      · exact h
    | num n => rw [mergeMapVal]; exact h; intro e h; cases h
    | bytes b => rw [mergeMapVal]; exact h; intro e h; cases h

theorem cloneVals_isNil (S : Schema) (f : Field) (vs : Vals) : (cloneVals S f vs).isNil = vs.isNil := by
  cases vs with
  | nil => rw [cloneVals]
  | cons v tl => rw [cloneVals]; rfl

/-- populated (the conditions under which merging the value into an empty destination stores it) -/
def popFVal (S : Schema) (f : Field) : FVal → Bool
  | .one v => !(f.card = .implicit && v.isZero)
  | .many vs => if f.card = .map then !(mergeMapVals S f.sub .nil vs).isNil else !vs.isNil

theorem get?_mergeFVal_nil (S : Schema) (d : MsgD) (f : Field) (fv : FVal)
    (hp : popFVal S f fv = true) :
    (mergeFVal S d f .nil fv).get? f.num = some (cloneFVal S f fv) := by
  cases fv with
  | many vs =>
    unfold popFVal at hp
    unfold cloneFVal
    by_cases hc : f.card = .map
    · simp only [hc, if_true, Bool.not_eq_true'] at hp ⊢
      rw [mergeFVal_many_map S d f _ vs hc, Fields.listAt_nil]
      simp only [hp, Bool.false_eq_true, if_false]
      rw [Fields.get?_set]; simp
    · simp only [hc, if_false, Bool.not_eq_true'] at hp ⊢
      rw [mergeFVal_many_list S d f _ vs hc, get?_appendList, cloneVals_isNil, hp,
        Fields.listAt_nil, Vals.nil_append]
      simp
  | one v =>
    unfold popFVal at hp
    simp only [Bool.not_eq_true'] at hp
    rw [mergeFVal]
    cases v with
    | msg sm =>
      rw [mergeVal_msg, Fields.get?_set]
      simp only [if_true, cloneFVal, Fields.subAt_nil]; rfl
    | num n =>
      rw [mergeVal_scalar _ _ _ _ _ rfl, get?_setSingular]
      simp only [if_true, hp, Bool.false_eq_true, if_false]; rfl
    | bytes b =>
      rw [mergeVal_scalar _ _ _ _ _ rfl, get?_setSingular]
      simp only [if_true, hp, Bool.false_eq_true, if_false]; rfl

end Pb
