import PbVerif.Lemmas.MsgAlgMerge
/-
Merge preserves ascending field order; `clone` and merge of populated well-formed messages.
Core-only.
-/
namespace Pb
open Spec (Byte)

/-! ### ascending field numbers (the order `Fields.set` maintains) -/

def Fields.Sorted (fs : Fields) : Prop := fs.nums.Pairwise (· < ·)

theorem Fields.Sorted.nodup {fs : Fields} (h : fs.Sorted) : fs.nums.Nodup :=
  List.Pairwise.imp (fun hab => Nat.ne_of_lt hab) h

theorem Fields.mem_nums_set (fs : Fields) (k : Nat) (v : FVal) (j : Nat) :
    j ∈ (fs.set k v).nums ↔ j = k ∨ j ∈ fs.nums := by
  rw [← Fields.get?_isSome_iff, ← Fields.get?_isSome_iff, Fields.get?_set]
  by_cases h : k = j
  · simp [h]
  · simp only [h, if_false]
    constructor
    · exact Or.inr
    · rintro (e | e)
      · exact (h e.symm).elim
      · exact e

theorem Fields.sorted_set {fs : Fields} (h : fs.Sorted) (k : Nat) (v : FVal) : (fs.set k v).Sorted := by
  induction fs using Fields.ind with
  | nil => simp [Fields.Sorted, Fields.set, Fields.nums]
  | cons n x tl ih =>
    unfold Fields.Sorted at h ih ⊢
    simp only [Fields.nums, List.pairwise_cons] at h
    simp only [Fields.set]
    split
    · rename_i hk
      simp only [Fields.nums, List.pairwise_cons, List.mem_cons]
      refine ⟨?_, h⟩
      rintro a (rfl | ha)
      · exact hk
      · exact Nat.lt_trans hk (h.1 a ha)
    · split
      · simp only [Fields.nums, List.pairwise_cons]; exact h
      · rename_i h1 h2
        simp only [Fields.nums, List.pairwise_cons]
        refine ⟨?_, ih h.2⟩
        intro a ha
        rcases (Fields.mem_nums_set tl k v a).mp ha with rfl | ha
        · omega
        · exact h.1 a ha

theorem Fields.nums_erase_sublist (fs : Fields) (k : Nat) : (fs.erase k).nums.Sublist fs.nums := by
  induction fs using Fields.ind with
  | nil => exact List.Sublist.refl _
  | cons n x tl ih =>
    simp only [Fields.erase]
    split
    · exact List.Sublist.cons _ ih
    · exact List.Sublist.cons_cons _ ih

theorem Fields.nums_clearOneof_sublist (d : MsgD) (o keep : Nat) (fs : Fields) :
    (Fields.clearOneof d o keep fs).nums.Sublist fs.nums := by
  induction fs using Fields.ind with
  | nil => exact List.Sublist.refl _
  | cons n x tl ih =>
    rw [Fields.clearOneof_cons]
    split
    · exact List.Sublist.cons _ ih
    · exact List.Sublist.cons_cons _ ih

theorem sorted_clearFor {d : MsgD} {f : Field} {fs : Fields} (h : fs.Sorted) : (clearFor d f fs).Sorted := by
  unfold clearFor
  split
  · exact List.Pairwise.sublist (Fields.nums_clearOneof_sublist _ _ _ _) h
  · exact h

theorem sorted_mergeFVal (S : Schema) (d : MsgD) (f : Field) (dst : Fields) (fv : FVal)
    (h : dst.Sorted) : (mergeFVal S d f dst fv).Sorted := by
  cases fv with
  | many vs =>
    by_cases hc : f.card = .map
    · rw [mergeFVal_many_map S d f dst vs hc]
      split
      · exact h
      · exact Fields.sorted_set h _ _
    · rw [mergeFVal_many_list S d f dst vs hc, appendList_eq]
      split
      · exact h
      · exact Fields.sorted_set h _ _
  | one v =>
    rw [mergeFVal]
    cases v with
    | msg sm => rw [mergeVal_msg]; exact Fields.sorted_set (sorted_clearFor h) _ _
    | num n =>
      rw [mergeVal_scalar _ _ _ _ _ rfl, setSingular_eq]
      split
      · exact List.Pairwise.sublist (Fields.nums_erase_sublist _ _) (sorted_clearFor h)
      · exact Fields.sorted_set (sorted_clearFor h) _ _
    | bytes b =>
      rw [mergeVal_scalar _ _ _ _ _ rfl, setSingular_eq]
      split
      · exact List.Pairwise.sublist (Fields.nums_erase_sublist _ _) (sorted_clearFor h)
      · exact Fields.sorted_set (sorted_clearFor h) _ _

theorem sorted_mergeFields (S : Schema) (d : MsgD) (src : Fields) : ∀ (dst : Fields),
    dst.Sorted → (mergeFields S d dst src).Sorted := by
  induction src using Fields.ind with
  | nil => intro dst h; rw [mergeFields_nil]; exact h
  | cons n fv tl ih =>
    intro dst h
    rw [mergeFields_cons]
    apply ih
    unfold mergeField
    split
    · exact h
    · exact sorted_mergeFVal S d _ dst fv h

theorem Fields.sorted_nil : Fields.nil.Sorted := by simp [Fields.Sorted, Fields.nums]

/-! ### cloning one field value -/

/-- the value stored by `clone` for a populated field value -/
def cloneFVal (S : Schema) (f : Field) : FVal → FVal
  | .one (.msg sm) => .one (.msg (clone S f.sub sm))
  | .one v => .one v
  | .many vs =>
    if f.card = .map then .many (mergeMapVals S f.sub .nil vs) else .many (cloneVals S f vs)

theorem Fields.subAt_nil (n : Nat) : Fields.nil.subAt n = Msg.empty := rfl
theorem Fields.listAt_nil (n : Nat) : Fields.nil.listAt n = Vals.nil := rfl

theorem mapPut_not_nil (vs : Vals) (k : Val) (e : Msg) : (mapPut vs k e).isNil = false := by
  cases vs with
  | nil => rfl
  | cons v tl =>
    cases v with
    | msg old =>
      rw [mapPut]
      split
      · split <;> rfl
      · rfl
    | num n => rw [mapPut]; rfl; intro old h; cases h
    | bytes b => rw [mapPut]; rfl; intro old h; cases h

theorem mergeMapVals_cons_msg (S : Schema) (ei : Nat) (dst : Vals) (e : Msg) (tl : Vals) (k : Val)
    (hk : entryKey e = some k) :
    mergeMapVals S ei dst (.cons (.msg e) tl) =
      mergeMapVals S ei (mapPut dst k (clone S ei e)) tl := by
  rw [mergeMapVals, mergeMapVal]
  simp only [hk]
  rfl

theorem mergeMapVals_not_nil (S : Schema) (ei : Nat) (vs : Vals) : ∀ (dst : Vals),
    dst.isNil = false → (mergeMapVals S ei dst vs).isNil = false := by
  induction vs using Vals.ind with
  | nil => intro dst h; rw [mergeMapVals]; exact h
  | cons v tl ih =>
    intro dst h
    rw [mergeMapVals]
    apply ih
    cases v with
    | msg e =>
      rw [mergeMapVal]
      split
      · exact mapPut_not_nil _ _ _
      · exact h
    | num n => rw [mergeMapVal]; exact h; intro e h; cases h
    | bytes b => rw [mergeMapVal]; exact h; intro e h; cases h

theorem cloneVals_isNil (S : Schema) (f : Field) (vs : Vals) : (cloneVals S f vs).isNil = vs.isNil := by
  cases vs with
  | nil => rw [cloneVals]
  | cons v tl => rw [cloneVals]; rfl

/-- populated (the conditions under which merging the value into an empty destination stores it) -/
def popFVal (S : Schema) (f : Field) : FVal → Bool
  | .one v => !(f.card = .implicit && v.isZero)
  | .many vs => if f.card = .map then !(mergeMapVals S f.sub .nil vs).isNil else !vs.isNil

theorem get?_mergeFVal_nil (S : Schema) (d : MsgD) (f : Field) (fv : FVal)
    (hp : popFVal S f fv = true) :
    (mergeFVal S d f .nil fv).get? f.num = some (cloneFVal S f fv) := by
  cases fv with
  | many vs =>
    unfold popFVal at hp
    unfold cloneFVal
    by_cases hc : f.card = .map
    · simp only [hc, if_true, Bool.not_eq_true'] at hp ⊢
      rw [mergeFVal_many_map S d f _ vs hc, Fields.listAt_nil]
      simp only [hp, Bool.false_eq_true, if_false]
      rw [Fields.get?_set]; simp
    · simp only [hc, if_false, Bool.not_eq_true'] at hp ⊢
      rw [mergeFVal_many_list S d f _ vs hc, get?_appendList, cloneVals_isNil, hp,
        Fields.listAt_nil, Vals.nil_append]
      simp
  | one v =>
    unfold popFVal at hp
    simp only [Bool.not_eq_true'] at hp
    rw [mergeFVal]
    cases v with
    | msg sm =>
      rw [mergeVal_msg, Fields.get?_set]
      simp only [if_true, cloneFVal, Fields.subAt_nil]; rfl
    | num n =>
      rw [mergeVal_scalar _ _ _ _ _ rfl, get?_setSingular]
      simp only [if_true, hp, Bool.false_eq_true, if_false]; rfl
    | bytes b =>
      rw [mergeVal_scalar _ _ _ _ _ rfl, get?_setSingular]
      simp only [if_true, hp, Bool.false_eq_true, if_false]; rfl

/-! ### cloning a field list -/

theorem mergeOK_of_pwfFields {S : Schema} {d : MsgD} {fs : Fields} (h : pwfFields S d fs = true) :
    mergeOK d fs = true := by
  induction fs using Fields.ind with
  | nil => rfl
  | cons n fv tl ih =>
    rw [pwfFields, Bool.and_eq_true, Bool.and_eq_true, Bool.and_eq_true] at h
    rw [mergeOK, Bool.and_eq_true, Bool.and_eq_true]
    exact ⟨⟨h.1.1.2, h.1.2⟩, ih h.2⟩

theorem pwfFields_get {S : Schema} {d : MsgD} {fs : Fields} (h : pwfFields S d fs = true)
    {n : Nat} {fv : FVal} (hg : fs.get? n = some fv) : ∃ f, d.find n = some f ∧ pwfFVal S f fv = true := by
  induction fs using Fields.ind with
  | nil => simp [Fields.get?] at hg
  | cons m x tl ih =>
    rw [pwfFields, Bool.and_eq_true, Bool.and_eq_true, Bool.and_eq_true] at h
    rw [Fields.get?_cons] at hg
    split at hg
    · rename_i hm; subst hm; cases hg
      have h1 := h.1.1.1
      split at h1
      · rename_i f hf; exact ⟨f, hf, h1⟩
      · cases h1
    · exact ih h.2 hg

theorem pwfEntries_cons_msg {S : Schema} {ei : Nat} {v : Val} {tl : Vals}
    (h : pwfEntries S ei (.cons v tl) = true) :
    ∃ e k, v = .msg e ∧ entryKey e = some k ∧ k.isKey = true ∧ lookupEntry tl k = none ∧
      pwfMsg S ei e = true ∧ pwfEntries S ei tl = true := by
  rw [pwfEntries, Bool.and_eq_true] at h
  have h1 := h.1
  cases v with
  | msg e =>
    rw [pwfEntry, Bool.and_eq_true] at h1
    have h2 := h1.1
    split at h2
    · rename_i k hk
      rw [Bool.and_eq_true] at h2
      refine ⟨e, k, rfl, hk, h2.1, ?_, h1.2, h.2⟩
      cases hl : lookupEntry tl k with
      | none => rfl
      | some _ => rw [hl] at h2; simp at h2
    · cases h2
  | num n => simp [pwfEntry] at h1
  | bytes b => simp [pwfEntry] at h1

theorem popFVal_of_pwf {S : Schema} {f : Field} {fv : FVal} (h : pwfFVal S f fv = true) :
    popFVal S f fv = true := by
  cases fv with
  | one v => rw [pwfFVal, Bool.and_eq_true] at h; exact h.2
  | many vs =>
    rw [pwfFVal, Bool.and_eq_true] at h
    simp only [popFVal]
    by_cases hm : f.card = .map
    · simp only [hm, if_true] at h ⊢
      cases vs with
      | nil => simp [Vals.isNil] at h
      | cons v tl =>
        obtain ⟨e, k, rfl, hk, _, _, _, _⟩ := pwfEntries_cons_msg h.2
        rw [mergeMapVals_cons_msg S _ _ e tl k hk, mergeMapVals_not_nil S _ tl _ (mapPut_not_nil _ _ _)]
        rfl
    · simp only [hm, if_false]
      exact h.1

/-- `clone` as a finite map: every populated declared field holds its cloned value -/
theorem get?_cloneFields (S : Schema) (d : MsgD) (fs : Fields) (h : pwfFields S d fs = true) (j : Nat) :
    (mergeFields S d .nil fs).get? j =
      match fs.get? j, d.find j with
      | some fv, some f => some (cloneFVal S f fv)
      | _, _ => none := by
  rw [mergeFields_get? S d fs .nil (mergeOK_of_pwfFields h) j]
  cases hg : fs.get? j with
  | none => simp [Fields.get?]
  | some fv =>
    obtain ⟨f, hf, hw⟩ := pwfFields_get h hg
    simp only [hf]
    have hn := MsgD.find_num hf
    have := get?_mergeFVal_nil S d f fv (popFVal_of_pwf hw)
    rw [hn] at this
    exact this

theorem nums_cloneFields_length (S : Schema) (d : MsgD) (fs : Fields) (h : pwfFields S d fs = true) :
    (mergeFields S d .nil fs).nums.length = fs.nums.length := by
  have hs := (sorted_mergeFields S d fs .nil Fields.sorted_nil).nodup
  have hn := wfFields_nodup (wf_of_pwfFields S fs d h)
  refine List.Perm.length_eq ((List.perm_ext_iff_of_nodup hs hn).mpr ?_)
  intro j
  rw [← Fields.get?_isSome_iff, ← Fields.get?_isSome_iff, get?_cloneFields S d fs h j]
  cases hg : fs.get? j with
  | none => simp
  | some fv =>
    obtain ⟨f, hf, _⟩ := pwfFields_get h hg
    simp [hf]

/-- cloning an entry message keeps its key -/
theorem entryKey_clone (S : Schema) (ei : Nat) (e : Msg) (k : Val) (h : pwfMsg S ei e = true)
    (hk : entryKey e = some k) (hs : k.isKey = true) : entryKey (clone S ei e) = some k := by
  cases e with
  | mk fs unk =>
    rw [pwfMsg] at h
    unfold clone
    rw [Msg.empty, mergeMsg_mk]
    simp only [entryKey] at hk ⊢
    rw [get?_cloneFields S _ fs h 1]
    split at hk
    · rename_i v hv
      cases hk
      obtain ⟨f, hf, _⟩ := pwfFields_get h hv
      simp only [hv, hf]
      cases k with
      | msg m => simp [Val.isKey] at hs
      | num n => rfl
      | bytes b => rfl
    · cases hk

/-! ### cloning a map -/

/-- every entry is a keyed message whose clone keeps the key, keys pairwise distinct -/
def EntriesOK (S : Schema) (ei : Nat) : Vals → Prop
  | .nil => True
  | .cons v tl => (∃ e k, v = .msg e ∧ entryKey e = some k ∧ k.isKey = true ∧
      entryKey (clone S ei e) = some k ∧ lookupEntry tl k = none) ∧ EntriesOK S ei tl

theorem entriesOK_of_pwf {S : Schema} {ei : Nat} {vs : Vals} (h : pwfEntries S ei vs = true) :
    EntriesOK S ei vs := by
  induction vs using Vals.ind with
  | nil => trivial
  | cons v tl ih =>
    obtain ⟨e, k, hv, hk, hs, hl, hw, htl⟩ := pwfEntries_cons_msg h
    exact ⟨⟨e, k, hv, hk, hs, entryKey_clone S ei e k hw hk hs, hl⟩, ih htl⟩

theorem lookupEntry_mergeMapVals (S : Schema) (ei : Nat) (vs : Vals) : ∀ (dst : Vals),
    EntriesOK S ei vs → ∀ k',
    lookupEntry (mergeMapVals S ei dst vs) k' =
      match lookupEntry vs k' with
      | some e => some (clone S ei e)
      | none => lookupEntry dst k' := by
  induction vs using Vals.ind with
  | nil => intro dst _ k'; rw [mergeMapVals]; simp [lookupEntry]
  | cons v tl ih =>
    intro dst h k'
    obtain ⟨⟨e, k, rfl, hk, hs, hck, hl⟩, htl⟩ := h
    rw [mergeMapVals_cons_msg S ei dst e tl k hk, ih _ htl k', lookupEntry_cons_msg]
    have hck' : entryHasKey (clone S ei e) k = true := (entryHasKey_iff _ _).mpr ⟨hck, hs⟩
    rw [lookupEntry_mapPut dst k _ hck' k']
    have hh : entryHasKey e k' = valBEq k' k := by unfold entryHasKey; rw [hk]
    rw [hh]
    by_cases hb : valBEq k' k = true
    · have := valBEq_eq hb
      subst this
      simp [hb, hl]
    · simp only [hb, Bool.false_eq_true, if_false]

theorem mapPut_length_of_none (vs : Vals) (k : Val) (e : Msg) (h : lookupEntry vs k = none) :
    (mapPut vs k e).toList.length = vs.toList.length + 1 := by
  induction vs using Vals.ind with
  | nil => rfl
  | cons v tl ih =>
    cases v with
    | msg old =>
      rw [lookupEntry_cons_msg] at h
      split at h
      · cases h
      · rename_i hne
        rw [mapPut]
        split
        · rename_i k0 hk0
          have hb : valBEq k k0 = false := by
            unfold entryHasKey at hne
            rw [hk0] at hne
            simpa using hne
          simp [hb, Vals.toList, ih h]
        · simp [Vals.toList, ih h]
    | num n =>
      rw [lookupEntry_cons_num] at h
      rw [mapPut]
      · simp [Vals.toList, ih h]
      · intro old hh; cases hh
    | bytes b =>
      rw [lookupEntry_cons_bytes] at h
      rw [mapPut]
      · simp [Vals.toList, ih h]
      · intro old hh; cases hh

theorem mergeMapVals_length (S : Schema) (ei : Nat) (vs : Vals) : ∀ (dst : Vals),
    EntriesOK S ei vs → (∀ k e, lookupEntry vs k = some e → lookupEntry dst k = none) →
    (mergeMapVals S ei dst vs).toList.length = dst.toList.length + vs.toList.length := by
  induction vs using Vals.ind with
  | nil => intro dst _ _; rw [mergeMapVals]; simp [Vals.toList]
  | cons v tl ih =>
    intro dst h hd
    obtain ⟨⟨e, k, rfl, hk, hs, hck, hl⟩, htl⟩ := h
    have hke : entryHasKey e k = true := (entryHasKey_iff _ _).mpr ⟨hk, hs⟩
    have hdk : lookupEntry dst k = none := hd k e (by rw [lookupEntry_cons_msg, hke]; rfl)
    rw [mergeMapVals_cons_msg S ei dst e tl k hk, ih _ htl, mapPut_length_of_none dst k _ hdk]
    · simp only [Vals.toList, List.length_cons]; omega
    · intro k' e' hl'
      have hck' : entryHasKey (clone S ei e) k = true := (entryHasKey_iff _ _).mpr ⟨hck, hs⟩
      rw [lookupEntry_mapPut dst k _ hck' k']
      by_cases hb : valBEq k' k = true
      · have := valBEq_eq hb
        subst this
        rw [hl] at hl'; cases hl'
      · simp only [hb, Bool.false_eq_true, if_false]
        apply hd k' e'
        rw [lookupEntry_cons_msg]
        have hh : entryHasKey e k' = valBEq k' k := by unfold entryHasKey; rw [hk]
        rw [hh]
        simp [hb, hl']

/-! ### `clone m = m` for messages stored in ascending field order -/

/-- ascending field numbers at every level of the value tree -/
def ascNums : List Nat → Bool
  | [] => true
  | [_] => true
  | a :: b :: t => decide (a < b) && ascNums (b :: t)

mutual
def sortedMsg : Msg → Bool
  | .mk fs _ => ascNums fs.nums && sortedFields fs
def sortedFields : Fields → Bool
  | .nil => true
  | .cons _ fv tl => sortedFVal fv && sortedFields tl
def sortedFVal : FVal → Bool
  | .one v => sortedVal v
  | .many vs => sortedVals vs
def sortedVal : Val → Bool
  | .msg m => sortedMsg m
  | _ => true
def sortedVals : Vals → Bool
  | .nil => true
  | .cons v tl => sortedVal v && sortedVals tl
end

theorem ascNums_pairwise : ∀ {l : List Nat}, ascNums l = true → l.Pairwise (· < ·)
  | [], _ => List.Pairwise.nil
  | [_], _ => by simp
  | a :: b :: t, h => by
    rw [ascNums, Bool.and_eq_true, decide_eq_true_eq] at h
    have ih0 := ascNums_pairwise h.2
    have ih := ih0
    rw [List.pairwise_cons] at ih ⊢
    refine ⟨?_, ih0⟩
    intro c hc
    rw [List.mem_cons] at hc
    rcases hc with rfl | hc
    · exact h.1
    · exact Nat.lt_trans h.1 (ih.1 c hc)

/-- two ascending field lists with the same lookups are the same list -/
theorem Fields.ext_sorted : ∀ {a b : Fields}, a.Sorted → b.Sorted → (∀ j, a.get? j = b.get? j) → a = b
  | .nil, .nil, _, _, _ => rfl
  | .nil, .cons m y t, _, _, h => by
    have := h m
    simp [Fields.get?] at this
  | .cons n x t, .nil, _, _, h => by
    have := h n
    simp [Fields.get?] at this
  | .cons n x t, .cons m y u, ha, hb, h => by
    unfold Fields.Sorted at ha hb
    simp only [Fields.nums, List.pairwise_cons] at ha hb
    have hnt : t.get? n = none := by
      cases hg : t.get? n with
      | none => rfl
      | some _ =>
        have := (Fields.get?_isSome_iff t n).mp (by rw [hg]; rfl)
        exact absurd (ha.1 n this) (Nat.lt_irrefl _)
    have hmu : u.get? m = none := by
      cases hg : u.get? m with
      | none => rfl
      | some _ =>
        have := (Fields.get?_isSome_iff u m).mp (by rw [hg]; rfl)
        exact absurd (hb.1 m this) (Nat.lt_irrefl _)
    have hnm : n = m := by
      have h1 := h n
      have h2 := h m
      simp only [Fields.get?_cons, if_true] at h1 h2
      by_cases e : n = m
      · exact e
      · have e' : ¬ m = n := fun x => e x.symm
        simp only [e, e', if_false] at h1 h2
        have hn : n ∈ u.nums := (Fields.get?_isSome_iff u n).mp (by rw [← h1]; rfl)
        have hm : m ∈ t.nums := (Fields.get?_isSome_iff t m).mp (by rw [h2]; rfl)
        have := hb.1 n hn
        have := ha.1 m hm
        omega
    subst hnm
    have hxy : x = y := by
      have := h n
      simpa [Fields.get?_cons] using this
    subst hxy
    have htu : t = u := by
      apply Fields.ext_sorted ha.2 hb.2
      intro j
      have := h j
      simp only [Fields.get?_cons] at this
      by_cases e : n = j
      · subst e; rw [hnt, hmu]
      · simpa [e] using this
    rw [htu]

theorem mapPut_of_none (vs : Vals) (k : Val) (e : Msg) (h : lookupEntry vs k = none) :
    mapPut vs k e = vs.append (.cons (.msg e) .nil) := by
  induction vs using Vals.ind with
  | nil => rfl
  | cons v tl ih =>
    cases v with
    | msg old =>
      rw [lookupEntry_cons_msg] at h
      split at h
      · cases h
      · rename_i hne
        rw [mapPut, Vals.append]
        split
        · rename_i k0 hk0
          have hb : valBEq k k0 = false := by
            unfold entryHasKey at hne
            rw [hk0] at hne
            simpa using hne
          simp [hb, ih h]
        · simp [ih h]
    | num n =>
      rw [lookupEntry_cons_num] at h
      rw [mapPut, Vals.append, ih h]
      intro old hh; cases hh
    | bytes b =>
      rw [lookupEntry_cons_bytes] at h
      rw [mapPut, Vals.append, ih h]
      intro old hh; cases hh

theorem Vals.append_cons_assoc (a : Vals) (v : Val) (b : Vals) :
    (a.append (.cons v .nil)).append b = a.append (.cons v b) := by
  induction a using Vals.ind with
  | nil => rfl
  | cons x t ih => simp only [Vals.append, ih]

theorem lookupEntry_append_single (a : Vals) (e : Msg) (k : Val) :
    lookupEntry (a.append (.cons (.msg e) .nil)) k =
      match lookupEntry a k with
      | some x => some x
      | none => if entryHasKey e k then some e else none := by
  induction a using Vals.ind with
  | nil => rw [Vals.append, lookupEntry_cons_msg]; simp [lookupEntry]
  | cons x t ih =>
    cases x with
    | msg old =>
      rw [Vals.append, lookupEntry_cons_msg, lookupEntry_cons_msg, ih]
      split <;> rfl
    | num n => rw [Vals.append, lookupEntry_cons_num, lookupEntry_cons_num, ih]
    | bytes b => rw [Vals.append, lookupEntry_cons_bytes, lookupEntry_cons_bytes, ih]

/-- when every entry is its own clone and keys are fresh, map merge appends the source entries -/
theorem mergeMapVals_eq_append (S : Schema) (ei : Nat) (vs : Vals) : ∀ (dst : Vals),
    EntriesOK S ei vs → (∀ e, Val.msg e ∈ vs.toList → clone S ei e = e) →
    (∀ k e, lookupEntry vs k = some e → lookupEntry dst k = none) →
    mergeMapVals S ei dst vs = dst.append vs := by
  induction vs using Vals.ind with
  | nil =>
    intro dst _ _ _
    rw [mergeMapVals]
    have : ∀ d : Vals, d = d.append .nil := by
      intro d
      induction d using Vals.ind with
      | nil => rfl
      | cons x t ih => rw [Vals.append, ← ih]
    exact this dst
  | cons v tl ih =>
    intro dst h hc hd
    obtain ⟨⟨e, k, rfl, hk, hs, hck, hl⟩, htl⟩ := h
    have hke : entryHasKey e k = true := (entryHasKey_iff _ _).mpr ⟨hk, hs⟩
    have hdk : lookupEntry dst k = none := hd k e (by rw [lookupEntry_cons_msg, hke]; rfl)
    have hce : clone S ei e = e := hc e (by simp [Vals.toList])
    rw [mergeMapVals_cons_msg S ei dst e tl k hk, hce, mapPut_of_none dst k e hdk,
      ih _ htl (fun e' he' => hc e' (by simp [Vals.toList, he'])), Vals.append_cons_assoc]
    intro k' e' hl'
    rw [lookupEntry_append_single]
    have hne : entryHasKey e k' = false := by
      cases hh : entryHasKey e k' with
      | false => rfl
      | true =>
        have := ((entryHasKey_iff _ _).mp hh).1
        rw [hk] at this
        cases this
        rw [hl] at hl'
        cases hl'
    have : lookupEntry dst k' = none := by
      apply hd k' e'
      rw [lookupEntry_cons_msg, hne]
      exact hl'
    rw [this, hne]
    rfl

end Pb
