import PbVerif.Lemmas.JsonTextRoundT2
import PbVerif.Lemmas.JsonTextRoundJM3
/-
Text round trip including populated MAP fields: the fragment `RepMsgTM`, one map entry through
`{key: k value: v}` / `unmarshalMapEntry`, and the field loop over the entries of one map field.
-/
namespace JT
open Pb

variable (ok32 : Nat → Bool)

mutual
def RepMsgTM (X : SchemaX) (mi : Nat) (limit : Int) : Msg → Prop
  | .mk fs _ =>
    1 ≤ limit ∧ (X.msg mi).wkt = false ∧ (X.msg mi).any = false ∧ OneofExcl (X.msg mi) fs ∧
      RepFieldsTM X (X.msg mi) 0 (limit - 1) fs
def RepFieldsTM (X : SchemaX) (d : MsgX) (lb : Nat) (limit : Int) : Fields → Prop
  | .nil => True
  | .cons num fv tl =>
    lb ≤ num ∧
    (match d.find num with
     | some fx => RepFValTM X fx limit fv
     | none => False) ∧
    RepFieldsTM X d (num + 1) limit tl
def RepFValTM (X : SchemaX) (fx : FieldX) (limit : Int) : FVal → Prop
  | .one v =>
    fx.f.card ≠ .repeated ∧ fx.f.card ≠ .map ∧ RepValTM X fx limit v ∧ ¬ (fx.f.card = .implicit ∧ v.isZero = true)
  | .many vs =>
    vs.isNil = false ∧
    ((fx.f.card = .repeated ∧ RepValsTM X fx limit vs) ∨
     -- a map field occurrence costs one level of the recursion limit (`unmarshalMap`)
     (fx.f.card = .map ∧ 1 ≤ limit ∧ RepEntriesTM X fx (limit - 1) vs))
def RepValTM (X : SchemaX) (fx : FieldX) (limit : Int) : Val → Prop
  | .msg m => fx.f.kind.isMessage = true ∧ RepMsgTM X fx.f.sub limit m
  | .num n => wfScalarT ok32 fx (.num n) = true
  | .bytes b => wfScalarT ok32 fx (.bytes b) = true
def RepValsTM (X : SchemaX) (fx : FieldX) (limit : Int) : Vals → Prop
  | .nil => True
  | .cons v tl => RepValTM X fx limit v ∧ RepValsTM X fx limit tl
def RepEntriesTM (X : SchemaX) (fx : FieldX) (limit : Int) : Vals → Prop
  | .nil => True
  | .cons e tl =>
    (match e with
     | .msg (.mk (.cons n1 (.one k) (.cons n2 (.one v) .nil)) _) =>
       n1 = 1 ∧ n2 = 2 ∧ lookupEntry tl k = none ∧
       (match (X.msg fx.f.sub).find 1, (X.msg fx.f.sub).find 2 with
        | some kf, some vf =>
          keyKindOK kf.f.kind = true ∧ wfScalarT ok32 kf k = true ∧ RepValTM X vf limit v
        | _, _ => False)
     | _ => False) ∧
    RepEntriesTM X fx limit tl
end

theorem RepFieldsTM.sorted {ok32 : Nat → Bool} {X : SchemaX} {d : MsgX} {limit : Int} :
    ∀ {lb : Nat} {fs : Fields}, RepFieldsTM ok32 X d lb limit fs → SortedFrom lb fs
  | _, .nil, _ => trivial
  | _, .cons _ _ _, ⟨h1, _, h3⟩ => ⟨h1, RepFieldsTM.sorted h3⟩

/-- sorting normalised entries = the entries of the sorted list (any payload type) -/
theorem sortVals_entries' {α : Type} (less : Val → Val → Bool) (nv : α → Val) (l : List (Val × α)) :
    sortVals less (Vals.ofList (l.map fun t => Val.msg (mkEntry t.1 (nv t.2)))) =
      entriesOf ((sortK less l).map fun t => (t.1, nv t.2)) := by
  unfold sortVals entriesOf
  rw [Vals.toList_ofList']
  simp only [List.map_map, Function.comp_def, entryKey_mkEntry, Option.getD_some]
  rw [sortK_map less (fun k (p : α) => Val.msg (mkEntry k (nv p))) l]
  simp only [List.map_map, Function.comp_def]

theorem normVal_keyT (X : SchemaX) (kf : FieldX) (k : Val) (hk : keyKindOK kf.f.kind = true)
    (hw : wfScalarT ok32 kf k = true) : normVal X kf k = k := by
  cases k with
  | msg m => simp [wfScalarT] at hw
  | bytes b => rfl
  | num n =>
    simp only [normVal, normNum]
    cases hkk : kf.f.kind <;> simp only [hkk, keyKindOK] at hk ⊢ <;> cases hk

variable (C : TCodec) (D : DOpts) (X : SchemaX)

/-- one printed map entry decodes to `mmap.Set(key, value)` -/
structure EntryOKT (fx : FieldX) (limit : Int) (k nv : Val) (tv : TV) : Prop where
  dec : ∀ cur, tdMap C D X fx limit cur tv = .ok (mapPut cur k (mkEntry k nv))

theorem sValue_ne_sKey : sValue ≠ sKey := by decide

/-- `{key: k value: v}` through `unmarshalMap` / `unmarshalMapEntry` -/
theorem entry_decodes (fx : FieldX) (limit : Int) (kf vf : FieldX) (h1 : (X.msg fx.f.sub).find 1 = some kf)
    (h2 : (X.msg fx.f.sub).find 2 = some vf) (hlim : 1 ≤ limit) (k v : Val) (kt : TTok) (vtv : TV)
    (hk : tdTok C kf kt = .ok k) (hv : VSpecT C D X vf (limit - 1) v vtv) :
    EntryOKT C D X fx limit k (normVal X vf v)
      (.msg (.cons (.ident sKey) true (.scalar kt) (.cons (.ident sValue) true vtv .nil))) := by
  refine ⟨fun cur => ?_⟩
  rw [tdMap]
  have hl : ¬ (limit - 1 < 0) := by omega
  simp only [hl, if_false]
  have hent : tdEntry C D X fx (limit - 1)
      (.cons (.ident sKey) true (.scalar kt) (.cons (.ident sValue) true vtv .nil)) {} = .ok (k, normVal X vf v) := by
    rw [tdEntry]
    have hh1 : tdEntryHead D (X.msg fx.f.sub) (limit - 1) (.ident sKey) true (.scalar kt) {} = .key kf := by
      simp [tdEntryHead, h1, h2]
    rw [hh1]
    simp only [tdScalar, hk]
    rw [tdEntry]
    cases v with
    | msg m =>
      obtain ⟨hkm, hd⟩ := hv
      have hh2 : tdEntryHead D (X.msg fx.f.sub) (limit - 1) (.ident sValue) true vtv { key := some k, val := none } =
          .valMsg vf := by
        simp [tdEntryHead, h1, h2, sValue_ne_sKey, hkm]
      rw [hh2]
      simp only [hd]
      rw [tdEntry]
      simp [h1, h2, normVal]
    | num n =>
      obtain ⟨hkm, t, rfl, hd⟩ := hv
      have hh2 : tdEntryHead D (X.msg fx.f.sub) (limit - 1) (.ident sValue) true (.scalar t) { key := some k, val := none } =
          .valScalar vf := by
        simp [tdEntryHead, h1, h2, sValue_ne_sKey, hkm]
      rw [hh2]
      simp only [tdScalar, hd]
      rw [tdEntry]
      simp [h1, h2]
    | bytes b =>
      obtain ⟨hkm, t, rfl, hd⟩ := hv
      have hh2 : tdEntryHead D (X.msg fx.f.sub) (limit - 1) (.ident sValue) true (.scalar t) { key := some k, val := none } =
          .valScalar vf := by
        simp [tdEntryHead, h1, h2, sValue_ne_sKey, hkm]
      rw [hh2]
      simp only [tdScalar, hd]
      rw [tdEntry]
      simp [h1, h2]
  rw [hent]

theorem tdFieldVal_map (mi : Nat) (fx : FieldX) (limit : Int) (m : Msg) (tv : TV) (hc : fx.f.card = .map) :
    tdFieldVal C D X mi fx limit m tv = storeMap m fx (tdMap C D X fx limit (curVals m.fields fx.f.num) tv) := by
  unfold tdFieldVal
  rw [hc]

/-- the entries of one map field, one `name: {…}` each, inserted into the map so far -/
theorem fold_entries_T (mi : Nat) (fx : FieldX) (limit : Int) (hc : fx.f.card = .map)
    (hr : resolveText X (X.msg mi) (fieldName fx) = .found fx) :
    ∀ (todo done : List (Val × Val × TV)),
      (∀ t ∈ todo, EntryOKT C D X fx limit t.1 t.2.1 t.2.2) →
      ((done ++ todo).map (·.1)).Pairwise (fun a b => valBEq b a = false) →
      ∀ (acc0 : Fields) (s : LoopSt), s.m = .mk acc0 [] →
        acc0.get? fx.f.num = (if done = [] then none else some (.many (entriesOf (done.map fun t => (t.1, t.2.1))))) →
        foldE (tdStep C D X mi limit) (todo.map fun t => (fieldName fx, true, t.2.2)) s =
          .ok ⟨s.sn, s.so, .mk (if todo = [] then acc0
            else acc0.set fx.f.num (.many (entriesOf ((done ++ todo).map fun t => (t.1, t.2.1))))) []⟩
  | [], done, _, _, acc0, s, hm, _ => by
    simp only [List.map_nil, foldE, if_true]
    rw [← hm]
  | t :: todo, done, hok, hpw, acc0, s, hm, hg => by
    obtain ⟨k, nv, tv⟩ := t
    have he := hok (k, nv, tv) (by simp)
    have hsing : isSingular fx = false := by simp [isSingular, hc]
    have hfree : ∀ p ∈ done.map (fun t => (t.1, t.2.1)), valBEq k p.1 = false := by
      intro p hp
      obtain ⟨q, hq, rfl⟩ := List.mem_map.mp hp
      simp only [List.map_append, List.map_cons] at hpw
      have h3 := (List.pairwise_append.mp hpw).2.2
      exact h3 q.1 (List.mem_map.mpr ⟨q, hq, rfl⟩) k (by simp)
    have hcur : curVals acc0 fx.f.num = entriesOf (done.map fun t => (t.1, t.2.1)) := by
      unfold curVals
      rw [hg]
      cases done with
      | nil => rfl
      | cons a b => simp
    simp only [List.map_cons, foldE]
    have hstep : tdStep C D X mi limit s (fieldName fx, true, tv) =
        .ok ⟨s.sn, s.so, .mk (acc0.set fx.f.num (.many (entriesOf ((done ++ [(k, nv, tv)]).map fun t => (t.1, t.2.1))))) []⟩ := by
      unfold tdStep
      simp only
      rw [tdHead_found_eq D X (X.msg mi) limit _ _ _ _ _ fx hr]
      simp only [hsing, Bool.false_eq_true, if_false, hc, reduceCtorEq, decide_false, Bool.false_and]
      rw [tdFieldVal_map C D X mi fx limit _ _ hc, hm]
      simp only [Msg.fields, Msg.unknown, hcur, he.dec, storeMap]
      rw [mapPut_entriesOf k nv _ hfree]
      have hnil : (entriesOf (done.map (fun t => (t.1, t.2.1)) ++ [(k, nv)])).isNil = false := by
        cases done <;> simp [entriesOf, Vals.ofList, Vals.isNil]
      simp [setMap, hnil]
    rw [hstep]
    simp only
    have ih := fold_entries_T mi fx limit hc hr todo (done ++ [(k, nv, tv)])
      (fun t ht => hok t (by simp [ht])) (by simpa using hpw)
      (acc0.set fx.f.num (.many (entriesOf ((done ++ [(k, nv, tv)]).map fun t => (t.1, t.2.1))))) ⟨s.sn, s.so, _⟩ rfl
      (by rw [get?_set]; simp)
    rw [ih]
    simp only [reduceCtorEq, if_false]
    congr 2
    cases todo with
    | nil => simp
    | cons a b =>
      simp only [reduceCtorEq, if_false]
      rw [set_set]
      simp

end JT
