import PbVerif.Model.Heap
/-
Lemmas about the abstract heap of C14: the view of a message depends on the store only at the
regions it reaches; decoding with copying coders never references the memory it decodes from unless
the alias flag allows it; merging references only the destination's memory, new allocations and
read-only string storage of the source.  Core Lean only.
-/
namespace Heap
open Gen.AliasFacts (Cls Kind Coder)

/-! ### references -/

theorem mem_reachFs {fs : Fields} {r : Region} : r ∈ reachFs fs ↔ ∃ m, (m, r) ∈ refsFs fs := by
  simp [reachFs]

theorem mem_mreachFs {fs : Fields} {r : Region} : r ∈ mreachFs fs ↔ (true, r) ∈ refsFs fs := by
  simp [mreachFs]

theorem mem_ireachFs {fs : Fields} {r : Region} : r ∈ ireachFs fs ↔ (false, r) ∈ refsFs fs := by
  simp [ireachFs]

theorem mem_reachable {t : Tree} {r : Region} : r ∈ reachable t ↔ ∃ m, (m, r) ∈ t.refs := by
  simp [reachable]

theorem mem_writable {t : Tree} {r : Region} : r ∈ writable t ↔ (true, r) ∈ t.refs := by
  simp [writable]

theorem mem_readOnly {t : Tree} {r : Region} : r ∈ readOnly t ↔ (false, r) ∈ t.refs := by
  simp [readOnly]

/-! ### the view depends on the store only at reachable regions -/

theorem read_congr {s s' : Store} {r : Region} (h : ∀ i, s r i = s' r i) (off len : Nat) :
    read s r off len = read s' r off len := by
  simp [read, h]

mutual
theorem viewFs_congr (s s' : Store) : ∀ (fs : Fields),
    (∀ m r, (m, r) ∈ refsFs fs → ∀ i, s r i = s' r i) → viewFs s fs = viewFs s' fs
  | .nil, _ => by simp [viewFs]
  | .cons n f rest, h => by
    simp only [viewFs]
    rw [viewF_congr s s' f (fun m r hm => h m r (by simp [refsFs, hm])),
        viewFs_congr s s' rest (fun m r hm => h m r (by simp [refsFs, hm]))]
theorem viewF_congr (s s' : Store) : ∀ (f : Field),
    (∀ m r, (m, r) ∈ refsF f → ∀ i, s r i = s' r i) → viewF s f = viewF s' f
  | .leaf c r off len, h => by
    simp only [viewF]
    rw [read_congr (h (isMutable c) r (by simp [refsF]))]
  | .sub buf fs, h => by
    simp only [viewF]
    exact viewFs_congr s s' fs (fun m r hm => h m r (by simp [refsF, hm]))
  | .list es, h => by
    simp only [viewF]
    exact viewFs_congr s s' es (fun m r hm => h m r (by simp [refsF, hm]))
  | .thunk buf off len ml w, h => by
    simp only [viewF]
    rw [read_congr (h false buf (by simp [refsF]))]
end

/-- a store that differs only at regions the message does not reach shows the same message -/
theorem view_congr (s s' : Store) (t : Tree) (rs : List Region)
    (hdisj : ∀ r ∈ rs, r ∉ reachable t) (h : agreeOutside rs s s') : view s' t = view s t := by
  unfold view
  symm
  apply viewFs_congr
  intro m r hm i
  apply h
  intro hr
  exact hdisj r hr (mem_reachable.mpr ⟨m, by simp [Tree.refs, hm]⟩)

/-! ### decoding -/

theorem place_ne_input {cls : Cls} {flag : Bool} {cur : Region} {e : Nat} {p : List Nat} {off : Nat}
    (hc : cls = .copy ∨ cls = .aliasOnlyUnderFlag) (hcur : flag = true → cur ≠ .input) :
    (place cls flag cur (.fresh e p) off).1 ≠ .input := by
  rcases hc with rfl | rfl
  · simp [place]
  · cases flag
    · simp [place]
    · simp only [place, if_true]; exact hcur rfl

theorem lazyEnter_ok {lb : Cls} {flag : Bool} {cur : Region} {e : Nat} {p : List Nat}
    (hlb : LazyOK lb) (hcur : flag = true → cur ≠ .input) :
    (lazyEnter lb flag cur (.fresh e p)).1 ≠ .input ∧
    ((lazyEnter lb flag cur (.fresh e p)).2.1 = true → (lazyEnter lb flag cur (.fresh e p)).2.2 ≠ .input) := by
  rcases hlb with rfl | rfl
  · simp only [lazyEnter]; exact ⟨by simp, hcur⟩
  · cases flag
    · simp [lazyEnter]
    · simp only [lazyEnter, if_true]; exact ⟨hcur rfl, fun _ => hcur rfl⟩

mutual
theorem decodeFs_no_input (lb : Cls) (e : Nat) (defer : Bool) (hlb : LazyOK lb) :
    ∀ (w : WFields) (flag : Bool) (cur : Region) (lbuf : Option Region) (p : List Nat),
    (∀ c ∈ wcodersFs w, DecOK c) → (flag = true → cur ≠ .input) → (∀ b, lbuf = some b → b ≠ .input) →
    ∀ m, (m, Region.input) ∉ refsFs (decodeFs lb e defer flag cur lbuf p w)
  | .nil, _, _, _, _, _, _, _, _ => by simp [decodeFs, refsFs]
  | .cons n f rest, flag, cur, lbuf, p, hc, hcur, hb, m => by
    simp only [decodeFs, refsFs, List.mem_append, not_or]
    exact ⟨decodeF_no_input lb e defer hlb f flag cur lbuf (n :: p) (fun c h => hc c (by simp [wcodersFs, h])) hcur hb m,
           decodeFs_no_input lb e defer hlb rest flag cur lbuf p (fun c h => hc c (by simp [wcodersFs, h])) hcur hb m⟩
theorem decodeF_no_input (lb : Cls) (e : Nat) (defer : Bool) (hlb : LazyOK lb) :
    ∀ (w : WField) (flag : Bool) (cur : Region) (lbuf : Option Region) (p : List Nat),
    (∀ c ∈ wcodersF w, DecOK c) → (flag = true → cur ≠ .input) → (∀ b, lbuf = some b → b ≠ .input) →
    ∀ m, (m, Region.input) ∉ refsF (decodeF lb e defer flag cur lbuf p w)
  | .leaf c off len, flag, cur, lbuf, p, hc, hcur, _, m => by
    have h := place_ne_input (off := off) (e := e) (p := p) (hc c (by simp [wcodersF])) hcur
    simp only [decodeF, refsF, List.mem_singleton, Prod.mk.injEq, not_and]
    intro _ heq
    exact h heq.symm
  | .list es, flag, cur, lbuf, p, hc, hcur, hb, m => by
    simp only [decodeF, refsF]
    exact decodeFs_no_input lb e defer hlb es flag cur lbuf (0 :: p) (fun c h => hc c (by simp [wcodersF, h])) hcur hb m
  | .sub msgLazy fieldLazy off len fs, flag, cur, lbuf, p, hc, hcur, hb, m => by
    have hc' : ∀ c ∈ wcodersFs fs, DecOK c := fun c h => hc c (by simp [wcodersF, h])
    have main : (m, Region.input) ∉ refsF (if msgLazy then
        .sub (some (lazyEnter lb flag cur (.fresh e (0 :: p))).1)
          (decodeFs lb e defer (lazyEnter lb flag cur (.fresh e (0 :: p))).2.1 (lazyEnter lb flag cur (.fresh e (0 :: p))).2.2
            (some (lazyEnter lb flag cur (.fresh e (0 :: p))).1) (1 :: p) fs)
      else .sub none (decodeFs lb e defer flag cur none (1 :: p) fs)) := by
      have hl := lazyEnter_ok (e := e) (p := 0 :: p) hlb hcur
      split
      · simp only [refsF, Option.toList, List.map_cons, List.map_nil, List.mem_append, List.mem_singleton,
          Prod.mk.injEq, not_or, not_and]
        refine ⟨fun _ h => hl.1 h.symm, ?_⟩
        exact decodeFs_no_input lb e defer hlb fs _ _ _ (1 :: p) hc' hl.2 (fun b h => by cases h; exact hl.1) m
      · simp only [refsF, Option.toList, List.map_nil, List.nil_append]
        exact decodeFs_no_input lb e defer hlb fs flag cur none (1 :: p) hc' hcur (fun b h => by cases h) m
    simp only [decodeF]
    split
    · rename_i _ _ b _
      simp only [refsF, List.mem_singleton, Prod.mk.injEq, not_and]
      intro _ h
      exact hb b rfl h.symm
    · exact main
end

mutual
/-- decoding invents no coders -/
theorem codersFs_decodeFs (lb : Cls) (e : Nat) (defer : Bool) : ∀ (flag : Bool) (cur : Region)
    (lbuf : Option Region) (p : List Nat) (w : WFields) (c : Coder),
    c ∈ codersFs (decodeFs lb e defer flag cur lbuf p w) → c ∈ wcodersFs w
  | _, _, _, _, .nil, c, h => by simp [decodeFs, codersFs] at h
  | flag, cur, lbuf, p, .cons n f rest, c, h => by
    simp only [decodeFs, codersFs, List.mem_append] at h
    simp only [wcodersFs, List.mem_append]
    rcases h with h | h
    · exact Or.inl (codersF_decodeF lb e defer flag cur lbuf (n :: p) f c h)
    · exact Or.inr (codersFs_decodeFs lb e defer flag cur lbuf p rest c h)
theorem codersF_decodeF (lb : Cls) (e : Nat) (defer : Bool) : ∀ (flag : Bool) (cur : Region)
    (lbuf : Option Region) (p : List Nat) (w : WField) (c : Coder),
    c ∈ codersF (decodeF lb e defer flag cur lbuf p w) → c ∈ wcodersF w
  | _, _, _, _, .leaf c' off len, c, h => by simpa [decodeF, codersF, wcodersF] using h
  | flag, cur, lbuf, p, .list es, c, h => by
    simp only [decodeF, codersF] at h
    simp only [wcodersF]
    exact codersFs_decodeFs lb e defer flag cur lbuf (0 :: p) es c h
  | flag, cur, lbuf, p, .sub ml fl off len fs, c, h => by
    simp only [decodeF] at h
    simp only [wcodersF]
    split at h
    · simpa [codersF] using h
    · split at h
      · simp only [codersF] at h
        exact codersFs_decodeFs lb e defer _ _ _ (1 :: p) fs c h
      · simp only [codersF] at h
        exact codersFs_decodeFs lb e defer _ _ _ (1 :: p) fs c h
end

/-! ### forcing lazy fields -/

mutual
theorem forceFs_no_input (lb : Cls) (e : Nat) (hlb : LazyOK lb) : ∀ (fs : Fields) (p : List Nat),
    (∀ c ∈ codersFs fs, DecOK c) → (∀ m, (m, Region.input) ∉ refsFs fs) →
    ∀ m, (m, Region.input) ∉ refsFs (forceFs lb e p fs)
  | .nil, _, _, _, _ => by simp [forceFs, refsFs]
  | .cons n f rest, p, hc, hin, m => by
    simp only [forceFs, refsFs, List.mem_append, not_or]
    exact ⟨forceF_no_input lb e hlb f (n :: p) (fun c h => hc c (by simp [codersFs, h]))
             (fun m h => hin m (by simp [refsFs, h])) m,
           forceFs_no_input lb e hlb rest p (fun c h => hc c (by simp [codersFs, h]))
             (fun m h => hin m (by simp [refsFs, h])) m⟩
theorem forceF_no_input (lb : Cls) (e : Nat) (hlb : LazyOK lb) : ∀ (f : Field) (p : List Nat),
    (∀ c ∈ codersF f, DecOK c) → (∀ m, (m, Region.input) ∉ refsF f) →
    ∀ m, (m, Region.input) ∉ refsF (forceF lb e p f)
  | .leaf c r off len, _, _, hin, m => by simpa [forceF] using hin m
  | .sub buf fs, p, hc, hin, m => by
    simp only [forceF, refsF, List.mem_append, not_or]
    refine ⟨fun h => hin m (by simp [refsF, h]), ?_⟩
    exact forceFs_no_input lb e hlb fs (1 :: p) (fun c h => hc c (by simp [codersF, h]))
      (fun m h => hin m (by simp [refsF, h])) m
  | .list es, p, hc, hin, m => by
    simp only [forceF, refsF]
    exact forceFs_no_input lb e hlb es (0 :: p) (fun c h => hc c (by simp [codersF, h]))
      (fun m h => hin m (by simp [refsF, h])) m
  | .thunk buf off len ml w, p, hc, hin, m => by
    simp only [forceF]
    refine decodeF_no_input lb e false hlb (.sub ml false off len w) true buf none p
      (fun c h => hc c (by simpa [codersF, wcodersF] using h)) (fun _ hb => hin false (by simp [refsF, hb]))
      (fun b h => by cases h) m
end

mutual
theorem decodeFs_noThunks (lb : Cls) (e : Nat) : ∀ (w : WFields) (flag : Bool) (cur : Region)
    (lbuf : Option Region) (p : List Nat), noThunksFs (decodeFs lb e false flag cur lbuf p w) = true
  | .nil, _, _, _, _ => by simp [decodeFs, noThunksFs]
  | .cons n f rest, flag, cur, lbuf, p => by
    simp only [decodeFs, noThunksFs, Bool.and_eq_true]
    exact ⟨decodeF_noThunks lb e f flag cur lbuf (n :: p), decodeFs_noThunks lb e rest flag cur lbuf p⟩
theorem decodeF_noThunks (lb : Cls) (e : Nat) : ∀ (w : WField) (flag : Bool) (cur : Region)
    (lbuf : Option Region) (p : List Nat), noThunksF (decodeF lb e false flag cur lbuf p w) = true
  | .leaf c off len, _, _, _, _ => by simp [decodeF, noThunksF]
  | .list es, flag, cur, lbuf, p => by
    simp only [decodeF, noThunksF]
    exact decodeFs_noThunks lb e es flag cur lbuf (0 :: p)
  | .sub ml fl off len fs, flag, cur, lbuf, p => by
    simp only [decodeF, Bool.false_and]
    split
    · simp only [noThunksF]
      exact decodeFs_noThunks lb e fs _ _ _ (1 :: p)
    · simp only [noThunksF]
      exact decodeFs_noThunks lb e fs _ _ _ (1 :: p)
end

mutual
theorem forceFs_noThunks (lb : Cls) (e : Nat) : ∀ (fs : Fields) (p : List Nat),
    noThunksFs (forceFs lb e p fs) = true
  | .nil, _ => by simp [forceFs, noThunksFs]
  | .cons n f rest, p => by
    simp only [forceFs, noThunksFs, Bool.and_eq_true]
    exact ⟨forceF_noThunks lb e f (n :: p), forceFs_noThunks lb e rest p⟩
theorem forceF_noThunks (lb : Cls) (e : Nat) : ∀ (f : Field) (p : List Nat),
    noThunksF (forceF lb e p f) = true
  | .leaf c r off len, _ => by simp [forceF, noThunksF]
  | .sub buf fs, p => by simp only [forceF, noThunksF]; exact forceFs_noThunks lb e fs (1 :: p)
  | .list es, p => by simp only [forceF, noThunksF]; exact forceFs_noThunks lb e es (0 :: p)
  | .thunk buf off len ml w, p => by
    simp only [forceF]
    exact decodeF_noThunks lb e (.sub ml false off len w) true buf none p
end

/-! ### decoding lazily and forcing afterwards builds the same heap as decoding eagerly -/

theorem lazyEnter_alias (flag : Bool) (cur fr : Region) :
    (lazyEnter .aliasOnlyUnderFlag flag cur fr).2.1 = true ∧
    (lazyEnter .aliasOnlyUnderFlag flag cur fr).2.2 = (lazyEnter .aliasOnlyUnderFlag flag cur fr).1 := by
  cases flag <;> simp [lazyEnter]

mutual
theorem forceFs_decodeFs (e : Nat) : ∀ (w : WFields) (flag : Bool) (cur : Region) (lbuf : Option Region) (p : List Nat),
    (∀ b, lbuf = some b → flag = true ∧ cur = b) →
    forceFs .aliasOnlyUnderFlag e p (decodeFs .aliasOnlyUnderFlag e true flag cur lbuf p w) =
      decodeFs .aliasOnlyUnderFlag e false flag cur lbuf p w
  | .nil, _, _, _, _, _ => by simp [decodeFs, forceFs]
  | .cons n f rest, flag, cur, lbuf, p, h => by
    simp only [decodeFs, forceFs]
    rw [forceF_decodeF e f flag cur lbuf (n :: p) h, forceFs_decodeFs e rest flag cur lbuf p h]
theorem forceF_decodeF (e : Nat) : ∀ (w : WField) (flag : Bool) (cur : Region) (lbuf : Option Region) (p : List Nat),
    (∀ b, lbuf = some b → flag = true ∧ cur = b) →
    forceF .aliasOnlyUnderFlag e p (decodeF .aliasOnlyUnderFlag e true flag cur lbuf p w) =
      decodeF .aliasOnlyUnderFlag e false flag cur lbuf p w
  | .leaf c off len, _, _, _, _, _ => by simp [decodeF, forceF]
  | .list es, flag, cur, lbuf, p, h => by
    simp only [decodeF, forceF]
    rw [forceFs_decodeFs e es flag cur lbuf (0 :: p) h]
  | .sub ml fl off len fs, flag, cur, lbuf, p, h => by
    have hl := lazyEnter_alias flag cur (.fresh e (0 :: p))
    cases lbuf with
    | none =>
      simp only [decodeF, Bool.true_and, Bool.false_and]
      cases fl <;> cases ml <;> simp only [forceF, if_true, if_false, Bool.false_eq_true]
      · rw [forceFs_decodeFs e fs _ _ _ (1 :: p) (fun b hb => by cases hb)]
      · rw [forceFs_decodeFs e fs _ _ _ (1 :: p) (fun b hb => by cases hb; exact hl)]
      · rw [forceFs_decodeFs e fs _ _ _ (1 :: p) (fun b hb => by cases hb)]
      · rw [forceFs_decodeFs e fs _ _ _ (1 :: p) (fun b hb => by cases hb; exact hl)]
    | some b =>
      obtain ⟨hf, hc⟩ := h b rfl
      subst hf; subst hc
      simp only [decodeF, Bool.true_and, Bool.false_and]
      cases fl
      · cases ml <;> simp only [forceF, if_true, if_false, Bool.false_eq_true]
        · rw [forceFs_decodeFs e fs _ _ _ (1 :: p) (fun b hb => by cases hb)]
        · rw [forceFs_decodeFs e fs _ _ _ (1 :: p) (fun b hb => by cases hb; exact hl)]
      · simp only [forceF, decodeF, Bool.false_and]
end

/-! ### merge -/

theorem refs_get : ∀ (fs : Fields) (k : Nat) (f : Field) (x : Bool × Region),
    fs.get? k = some f → x ∈ refsF f → x ∈ refsFs fs
  | .nil, _, _, _, h, _ => by simp [Fields.get?] at h
  | .cons n g rest, k, f, x, h, hx => by
    simp only [Fields.get?] at h
    split at h
    · cases h; simp [refsFs, hx]
    · simp [refsFs, refs_get rest k f x h hx]

theorem refs_set : ∀ (fs : Fields) (k : Nat) (v : Field) (x : Bool × Region),
    x ∈ refsFs (fs.set k v) → x ∈ refsFs fs ∨ x ∈ refsF v
  | .nil, k, v, x, h => by simpa [Fields.set, refsFs] using h
  | .cons n g rest, k, v, x, h => by
    simp only [Fields.set] at h
    split at h
    · simp only [refsFs, List.mem_append] at h ⊢
      rcases h with h | h
      · exact Or.inr h
      · exact Or.inl (Or.inr h)
    · simp only [refsFs, List.mem_append] at h ⊢
      rcases h with h | h
      · exact Or.inl (Or.inl h)
      · rcases refs_set rest k v x h with h | h
        · exact Or.inl (Or.inr h)
        · exact Or.inr h

theorem refs_append : ∀ (a b : Fields), refsFs (a.append b) = refsFs a ++ refsFs b
  | .nil, b => by simp [Fields.append, refsFs]
  | .cons n f rest, b => by simp [Fields.append, refsFs, refs_append rest b]

theorem mplace_cases {c : Coder} (h : MrgOK c) (r : Region) (e : Nat) (p : List Nat) (off : Nat) :
    (mplace c.mrg r (.fresh e p) off).1 = .fresh e p ∨
    (isMutable c = false ∧ (mplace c.mrg r (.fresh e p) off).1 = r) := by
  rcases h with h | ⟨hk, h⟩
  · left; simp [mplace, h]
  · right; simp [mplace, h, isMutable, hk]

mutual
/-- what a merged message references: what the destination referenced, allocations of this merge,
or read-only references of the source -/
theorem mergeFs_refs (e : Nat) : ∀ (src : Fields) (p : List Nat) (dst : Fields) (x : Bool × Region),
    noThunksFs src = true → (∀ c ∈ codersFs src, MrgOK c) → x ∈ refsFs (mergeFs e p dst src) →
    x ∈ refsFs dst ∨ (∃ q, x.2 = .fresh e q) ∨ (x.1 = false ∧ x ∈ refsFs src)
  | .nil, _, _, _, _, _, h => by simpa [mergeFs] using Or.inl h
  | .cons n sf rest, p, dst, x, hnt, hc, h => by
    simp only [noThunksFs, Bool.and_eq_true] at hnt
    simp only [mergeFs] at h
    rcases mergeFs_refs e rest p _ x hnt.2 (fun c hm => hc c (by simp [codersFs, hm])) h with h1 | h2 | h3
    · rcases refs_set _ _ _ _ h1 with h1 | h1
      · exact Or.inl h1
      · rcases mergeF_refs e sf (n :: p) (dst.get? n) x hnt.1 (fun c hm => hc c (by simp [codersFs, hm])) h1 with
          ⟨df, hd, hx⟩ | h2 | h3
        · exact Or.inl (refs_get dst n df x hd hx)
        · exact Or.inr (Or.inl h2)
        · exact Or.inr (Or.inr ⟨h3.1, by simp [refsFs, h3.2]⟩)
    · exact Or.inr (Or.inl h2)
    · exact Or.inr (Or.inr ⟨h3.1, by simp [refsFs, h3.2]⟩)
theorem mergeF_refs (e : Nat) : ∀ (sf : Field) (p : List Nat) (d : Option Field) (x : Bool × Region),
    noThunksF sf = true → (∀ c ∈ codersF sf, MrgOK c) → x ∈ refsF (mergeF e p d sf) →
    (∃ df, d = some df ∧ x ∈ refsF df) ∨ (∃ q, x.2 = .fresh e q) ∨ (x.1 = false ∧ x ∈ refsF sf)
  | .leaf c r off len, p, d, x, _, hc, h => by
    simp only [mergeF, refsF, List.mem_singleton] at h
    rcases mplace_cases (hc c (by simp [codersF])) r e p off with hm | ⟨hi, hm⟩
    · exact Or.inr (Or.inl ⟨p, by rw [h]; exact hm⟩)
    · refine Or.inr (Or.inr ⟨by rw [h]; exact hi, ?_⟩)
      rw [h, hm, hi]; simp [refsF, hi]
  | .sub buf sfs, p, d, x, hnt, hc, h => by
    simp only [noThunksF] at hnt
    have hc' : ∀ c ∈ codersFs sfs, MrgOK c := fun c hm => hc c (by simpa [codersF] using hm)
    simp only [mergeF] at h
    split at h
    · rename_i dbuf dfs
      simp only [refsF, List.mem_append] at h
      rcases h with h | h
      · exact Or.inl ⟨_, rfl, by simp [refsF, h]⟩
      · rcases mergeFs_refs e sfs (1 :: p) dfs x hnt hc' h with h1 | h2 | h3
        · exact Or.inl ⟨_, rfl, by simp [refsF, h1]⟩
        · exact Or.inr (Or.inl h2)
        · exact Or.inr (Or.inr ⟨h3.1, by simp [refsF, h3.2]⟩)
    · simp only [refsF, Option.toList, List.map_nil, List.nil_append] at h
      rcases mergeFs_refs e sfs (1 :: p) .nil x hnt hc' h with h1 | h2 | h3
      · simp [refsFs] at h1
      · exact Or.inr (Or.inl h2)
      · exact Or.inr (Or.inr ⟨h3.1, by simp [refsF, h3.2]⟩)
  | .list ses, p, d, x, hnt, hc, h => by
    simp only [noThunksF] at hnt
    have hc' : ∀ c ∈ codersFs ses, MrgOK c := fun c hm => hc c (by simpa [codersF] using hm)
    simp only [mergeF] at h
    split at h
    · rename_i des
      simp only [refsF, refs_append, List.mem_append] at h
      rcases h with h | h
      · exact Or.inl ⟨_, rfl, by simp [refsF, h]⟩
      · rcases mergeFs_refs e ses (0 :: p) .nil x hnt hc' h with h1 | h2 | h3
        · simp [refsFs] at h1
        · exact Or.inr (Or.inl h2)
        · exact Or.inr (Or.inr ⟨h3.1, by simp [refsF, h3.2]⟩)
    · simp only [refsF] at h
      rcases mergeFs_refs e ses (0 :: p) .nil x hnt hc' h with h1 | h2 | h3
      · simp [refsFs] at h1
      · exact Or.inr (Or.inl h2)
      · exact Or.inr (Or.inr ⟨h3.1, by simp [refsF, h3.2]⟩)
  | .thunk buf off len ml w, _, _, _, hnt, _, _ => by simp [noThunksF] at hnt
end

end Heap
