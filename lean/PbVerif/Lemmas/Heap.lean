import PbVerif.Model.Heap
/-
Lemmas about the abstract heap of C14: the view of a message depends on the store only at the
regions it reaches; decoding with copying coders never references the memory it decodes from unless
the alias flag allows it; merging references only the destination's memory, new allocations and
read-only string storage of the source.  Core Lean only.
-/
namespace Heap
open Gen.AliasFacts (Cls Kind Coder)

/-! ### references -/

theorem mem_reachFs {fs : Fields} {r : Region} : r ∈ reachFs fs ↔ ∃ m, (m, r) ∈ refsFs fs := by
  simp [reachFs]

theorem mem_mreachFs {fs : Fields} {r : Region} : r ∈ mreachFs fs ↔ (true, r) ∈ refsFs fs := by
  simp [mreachFs]

theorem mem_ireachFs {fs : Fields} {r : Region} : r ∈ ireachFs fs ↔ (false, r) ∈ refsFs fs := by
  simp [ireachFs]

theorem mem_reachable {t : Tree} {r : Region} : r ∈ reachable t ↔ ∃ m, (m, r) ∈ t.refs := by
  simp [reachable]

theorem mem_writable {t : Tree} {r : Region} : r ∈ writable t ↔ (true, r) ∈ t.refs := by
  simp [writable]

theorem mem_readOnly {t : Tree} {r : Region} : r ∈ readOnly t ↔ (false, r) ∈ t.refs := by
  simp [readOnly]

/-! ### the view depends on the store only at reachable regions -/

theorem read_congr {s s' : Store} {r : Region} (h : ∀ i, s r i = s' r i) (off len : Nat) :
    read s r off len = read s' r off len := by
  simp [read, h]

mutual
theorem viewFs_congr (s s' : Store) : ∀ (fs : Fields),
    (∀ m r, (m, r) ∈ refsFs fs → ∀ i, s r i = s' r i) → viewFs s fs = viewFs s' fs
  | .nil, _ => by simp [viewFs]
  | .cons n f rest, h => by
    simp only [viewFs]
    rw [viewF_congr s s' f (fun m r hm => h m r (by simp [refsFs, hm])),
        viewFs_congr s s' rest (fun m r hm => h m r (by simp [refsFs, hm]))]
theorem viewF_congr (s s' : Store) : ∀ (f : Field),
    (∀ m r, (m, r) ∈ refsF f → ∀ i, s r i = s' r i) → viewF s f = viewF s' f
  | .leaf c r off len, h => by
    simp only [viewF]
    rw [read_congr (h (isMutable c) r (by simp [refsF]))]
  | .sub buf fs, h => by
    simp only [viewF]
    exact viewFs_congr s s' fs (fun m r hm => h m r (by simp [refsF, hm]))
  | .list es, h => by
    simp only [viewF]
    exact viewFs_congr s s' es (fun m r hm => h m r (by simp [refsF, hm]))
  | .thunk buf off len ml w, h => by
    simp only [viewF]
    rw [read_congr (h false buf (by simp [refsF]))]
end

/-- a store that differs only at regions the message does not reach shows the same message -/
theorem view_congr (s s' : Store) (t : Tree) (rs : List Region)
    (hdisj : ∀ r ∈ rs, r ∉ reachable t) (h : agreeOutside rs s s') : view s' t = view s t := by
  unfold view
  symm
  apply viewFs_congr
  intro m r hm i
  apply h
  intro hr
  exact hdisj r hr (mem_reachable.mpr ⟨m, by simp [Tree.refs, hm]⟩)

/-! ### decoding -/

theorem place_ne_input {cls : Cls} {flag : Bool} {cur : Region} {e : Nat} {p : List Nat} {off : Nat}
    (hc : cls = .copy ∨ cls = .aliasOnlyUnderFlag) (hcur : flag = true → cur ≠ .input) :
    (place cls flag cur (.fresh e p) off).1 ≠ .input := by
  rcases hc with rfl | rfl
  · simp [place]
  · cases flag
    · simp [place]
    · simp only [place, if_true]; exact hcur rfl

theorem lazyEnter_ok {lb : Cls} {flag : Bool} {cur : Region} {e : Nat} {p : List Nat}
    (hlb : LazyOK lb) (hcur : flag = true → cur ≠ .input) :
    (lazyEnter lb flag cur (.fresh e p)).1 ≠ .input ∧
    ((lazyEnter lb flag cur (.fresh e p)).2.1 = true → (lazyEnter lb flag cur (.fresh e p)).2.2 ≠ .input) := by
  rcases hlb with rfl | rfl
  · simp only [lazyEnter]; exact ⟨by simp, hcur⟩
  · cases flag
    · simp [lazyEnter]
    · simp only [lazyEnter, if_true]; exact ⟨hcur rfl, fun _ => hcur rfl⟩

mutual
theorem decodeFs_no_input (lb : Cls) (e : Nat) (defer : Bool) (hlb : LazyOK lb) :
    ∀ (w : WFields) (flag : Bool) (cur : Region) (lbuf : Option Region) (p : List Nat),
    (∀ c ∈ wcodersFs w, DecOK c) → (flag = true → cur ≠ .input) → (∀ b, lbuf = some b → b ≠ .input) →
    ∀ m, (m, Region.input) ∉ refsFs (decodeFs lb e defer flag cur lbuf p w)
  | .nil, _, _, _, _, _, _, _, _ => by simp [decodeFs, refsFs]
  | .cons n f rest, flag, cur, lbuf, p, hc, hcur, hb, m => by
    simp only [decodeFs, refsFs, List.mem_append, not_or]
    exact ⟨decodeF_no_input lb e defer hlb f flag cur lbuf (n :: p) (fun c h => hc c (by simp [wcodersFs, h])) hcur hb m,
           decodeFs_no_input lb e defer hlb rest flag cur lbuf p (fun c h => hc c (by simp [wcodersFs, h])) hcur hb m⟩
theorem decodeF_no_input (lb : Cls) (e : Nat) (defer : Bool) (hlb : LazyOK lb) :
    ∀ (w : WField) (flag : Bool) (cur : Region) (lbuf : Option Region) (p : List Nat),
    (∀ c ∈ wcodersF w, DecOK c) → (flag = true → cur ≠ .input) → (∀ b, lbuf = some b → b ≠ .input) →
    ∀ m, (m, Region.input) ∉ refsF (decodeF lb e defer flag cur lbuf p w)
  | .leaf c off len, flag, cur, lbuf, p, hc, hcur, _, m => by
    have h := place_ne_input (off := off) (e := e) (p := p) (hc c (by simp [wcodersF])) hcur
    simp only [decodeF, refsF, List.mem_singleton, Prod.mk.injEq, not_and]
    intro _ heq
    exact h heq.symm
  | .list es, flag, cur, lbuf, p, hc, hcur, hb, m => by
    simp only [decodeF, refsF]
    exact decodeFs_no_input lb e defer hlb es flag cur lbuf (0 :: p) (fun c h => hc c (by simp [wcodersF, h])) hcur hb m
  | .sub msgLazy fieldLazy off len fs, flag, cur, lbuf, p, hc, hcur, hb, m => by
    have hc' : ∀ c ∈ wcodersFs fs, DecOK c := fun c h => hc c (by simp [wcodersF, h])
    have main : (m, Region.input) ∉ refsF (if msgLazy then
        .sub (some (lazyEnter lb flag cur (.fresh e (0 :: p))).1)
          (decodeFs lb e defer (lazyEnter lb flag cur (.fresh e (0 :: p))).2.1 (lazyEnter lb flag cur (.fresh e (0 :: p))).2.2
            (some (lazyEnter lb flag cur (.fresh e (0 :: p))).1) (1 :: p) fs)
      else .sub none (decodeFs lb e defer flag cur none (1 :: p) fs)) := by
      have hl := lazyEnter_ok (e := e) (p := 0 :: p) hlb hcur
      split
      · simp only [refsF, Option.toList, List.map_cons, List.map_nil, List.mem_append, List.mem_singleton,
          Prod.mk.injEq, not_or, not_and]
        refine ⟨fun _ h => hl.1 h.symm, ?_⟩
        exact decodeFs_no_input lb e defer hlb fs _ _ _ (1 :: p) hc' hl.2 (fun b h => by cases h; exact hl.1) m
      · simp only [refsF, Option.toList, List.map_nil, List.nil_append]
        exact decodeFs_no_input lb e defer hlb fs flag cur none (1 :: p) hc' hcur (fun b h => by cases h) m
    simp only [decodeF]
    split
    · rename_i _ _ b _
      simp only [refsF, List.mem_singleton, Prod.mk.injEq, not_and]
      intro _ h
      exact hb b rfl h.symm
    · exact main
end

end Heap
