import PbVerif.Model.FieldMask
/-
Helper lemmas for C44 (FieldMask path algebra).  Core Lean only.
-/
namespace Model.FieldMask

/-! ### bytes rotated so that '.' is least -/

/-- the sort key of a byte: `(b - '.')` as a number in `0 … 255` -/
def key (a : Byte) : Nat := (a - dot).toNat

theorem key_inj {a b : Byte} (h : key a = key b) : a = b := by
  unfold key dot at h; bv_omega

theorem key_dot : key dot = 0 := by decide

theorem key_eq_zero {a : Byte} (h : key a = 0) : a = dot := key_inj (h.trans key_dot.symm)

/-! ### lessPath -/

@[simp] theorem lessPath_nil_nil : lessPath [] [] = false := rfl
@[simp] theorem lessPath_nil_cons (b : Byte) (y : Path) : lessPath [] (b :: y) = true := rfl
@[simp] theorem lessPath_cons_nil (a : Byte) (x : Path) : lessPath (a :: x) [] = false := rfl
@[simp] theorem lessPath_nil_right (x : Path) : lessPath x [] = false := by cases x <;> rfl

theorem lessPath_cons_cons (a b : Byte) (x y : Path) :
    lessPath (a :: x) (b :: y) = if a = b then lessPath x y else decide (key a < key b) := by
  show (if a != b then (a - dot).ult (b - dot) else lessPath x y) = _
  by_cases h : a = b
  · simp [h]
  · have e : (a != b) = true := by simp [h]
    simp only [e, if_true, h, if_false, key, BitVec.ult]
    congr

theorem lessPath_irrefl (x : Path) : lessPath x x = false := by
  induction x with
  | nil => rfl
  | cons a x ih => simp [lessPath_cons_cons, ih]

theorem lessPath_asymm {x y : Path} (h : lessPath x y = true) : lessPath y x = false := by
  induction x generalizing y with
  | nil => cases y <;> simp_all
  | cons a x ih =>
    cases y with
    | nil => simp at h
    | cons b y =>
      rw [lessPath_cons_cons] at h ⊢
      by_cases hab : a = b
      · subst hab; simp only [if_true] at h ⊢; exact ih h
      · have hba : ¬ b = a := fun e => hab e.symm
        simp only [hab, hba, if_false, decide_eq_true_eq, decide_eq_false_iff_not] at h ⊢
        omega

theorem lessPath_trans {x y z : Path} (h1 : lessPath x y = true) (h2 : lessPath y z = true) :
    lessPath x z = true := by
  induction x generalizing y z with
  | nil =>
    cases z with
    | nil => simp at h2
    | cons c z => rfl
  | cons a x ih =>
    cases y with
    | nil => simp at h1
    | cons b y =>
      cases z with
      | nil => simp at h2
      | cons c z =>
        rw [lessPath_cons_cons] at h1 h2 ⊢
        by_cases hab : a = b
        · subst hab
          by_cases hac : a = c
          · subst hac; simp only [if_true] at h1 h2 ⊢; exact ih h1 h2
          · simp only [hac, if_false, if_true] at h1 h2 ⊢; exact h2
        · by_cases hbc : b = c
          · subst hbc; simp only [hab, if_false] at h1 ⊢; exact h1
          · simp only [hab, hbc, if_false, decide_eq_true_eq] at h1 h2
            have hac : ¬ a = c := by intro e; subst e; omega
            simp only [hac, if_false, decide_eq_true_eq]; omega

theorem lessPath_total {x y : Path} (h : x ≠ y) : lessPath x y = true ∨ lessPath y x = true := by
  induction x generalizing y with
  | nil =>
    cases y with
    | nil => exact absurd rfl h
    | cons b y => exact Or.inl rfl
  | cons a x ih =>
    cases y with
    | nil => exact Or.inr rfl
    | cons b y =>
      rw [lessPath_cons_cons, lessPath_cons_cons]
      by_cases hab : a = b
      · subst hab
        simp only [if_true]
        exact ih (fun e => h (by rw [e]))
      · have hba : ¬ b = a := fun e => hab e.symm
        simp only [hab, hba, if_false, decide_eq_true_eq]
        have : key a ≠ key b := fun e => hab (key_inj e)
        omega

/-! ### lePath: the comparator handed to the sort -/

theorem lePath_iff {x y : Path} : lePath x y = true ↔ x = y ∨ lessPath x y = true := by
  unfold lePath
  constructor
  · intro h
    by_cases e : x = y
    · exact Or.inl e
    · rcases lessPath_total e with h' | h'
      · exact Or.inr h'
      · simp [h'] at h
  · rintro (e | h)
    · subst e; simp [lessPath_irrefl]
    · simp [lessPath_asymm h]

theorem lePath_total (a b : Path) : (lePath a b || lePath b a) = true := by
  unfold lePath
  cases h : lessPath b a
  · simp
  · simp [lessPath_asymm h]

theorem lePath_trans (a b c : Path) (h1 : lePath a b = true) (h2 : lePath b c = true) :
    lePath a c = true := by
  rw [lePath_iff] at h1 h2 ⊢
  rcases h1 with e | h1
  · subst e; exact h2
  · rcases h2 with e | h2
    · subst e; exact Or.inr h1
    · exact Or.inr (lessPath_trans h1 h2)

theorem lePath_antisymm {a b : Path} (h1 : lePath a b = true) (h2 : lePath b a = true) : a = b := by
  rw [lePath_iff] at h1 h2
  rcases h1 with e | h1
  · exact e
  · rcases h2 with e | h2
    · exact e.symm
    · rw [lessPath_asymm h1] at h2; cases h2

/-! ### hasPathPrefix -/

theorem hasPathPrefix_nil (q : Path) : hasPathPrefix q [] = (q.isEmpty || q.head? == some dot) := by
  cases q <;> simp [hasPathPrefix]

@[simp] theorem hasPathPrefix_nil_cons (b : Byte) (p : Path) : hasPathPrefix [] (b :: p) = false := by
  simp [hasPathPrefix]

theorem hasPathPrefix_cons_cons (a b : Byte) (q p : Path) :
    hasPathPrefix (a :: q) (b :: p) = (a == b && hasPathPrefix q p) := by
  by_cases h : a = b
  · subst h; simp [hasPathPrefix, List.isPrefixOf]
  · have e1 : (a == b) = false := by simp [h]
    have e2 : (b == a) = false := by simp; exact fun e => h e.symm
    simp [hasPathPrefix, List.isPrefixOf, e1, e2]

/-- `hasPathPrefix q p` says: `q` is `p`, or `p` followed by `.` and anything. -/
theorem hasPathPrefix_iff {q p : Path} :
    hasPathPrefix q p = true ↔ q = p ∨ ∃ r, q = p ++ dot :: r := by
  induction p generalizing q with
  | nil =>
    rw [hasPathPrefix_nil]
    cases q with
    | nil => simp
    | cons a q => simp
  | cons b p ih =>
    cases q with
    | nil => simp
    | cons a q =>
      rw [hasPathPrefix_cons_cons]
      simp only [Bool.and_eq_true, beq_iff_eq, ih, List.cons.injEq, List.cons_append]
      constructor
      · rintro ⟨rfl, h | ⟨r, h⟩⟩
        · exact Or.inl ⟨rfl, h⟩
        · exact Or.inr ⟨r, rfl, h⟩
      · rintro (⟨rfl, h⟩ | ⟨r, rfl, h⟩)
        · exact ⟨rfl, Or.inl h⟩
        · exact ⟨rfl, Or.inr ⟨r, h⟩⟩

theorem hasPathPrefix_refl (p : Path) : hasPathPrefix p p = true :=
  hasPathPrefix_iff.2 (Or.inl rfl)

theorem hasPathPrefix_trans {q p r : Path} (h1 : hasPathPrefix q p = true)
    (h2 : hasPathPrefix p r = true) : hasPathPrefix q r = true := by
  rw [hasPathPrefix_iff] at h1 h2 ⊢
  rcases h1 with rfl | ⟨s, rfl⟩
  · exact h2
  · rcases h2 with rfl | ⟨t, rfl⟩
    · exact Or.inr ⟨s, rfl⟩
    · exact Or.inr ⟨t ++ dot :: s, by simp⟩

/-- a path-prefix is not greater in the `lessPath` order -/
theorem hasPathPrefix_le {q p : Path} (h : hasPathPrefix q p = true) :
    q = p ∨ lessPath p q = true := by
  induction p generalizing q with
  | nil =>
    cases q with
    | nil => exact Or.inl rfl
    | cons a q => exact Or.inr rfl
  | cons b p ih =>
    cases q with
    | nil => simp at h
    | cons a q =>
      rw [hasPathPrefix_cons_cons] at h
      simp only [Bool.and_eq_true, beq_iff_eq] at h
      obtain ⟨rfl, h⟩ := h
      rcases ih h with rfl | h'
      · exact Or.inl rfl
      · exact Or.inr (by rw [lessPath_cons_cons]; simpa using h')

theorem hasPathPrefix_antisymm {q p : Path} (h1 : hasPathPrefix q p = true)
    (h2 : hasPathPrefix p q = true) : q = p := by
  rcases hasPathPrefix_le h1 with e | l1
  · exact e
  · rcases hasPathPrefix_le h2 with e | l2
    · exact e.symm
    · rw [lessPath_asymm l1] at l2; cases l2

/-- the paths below `x` form an interval of the `lessPath` order that starts at `x`:
whatever lies between `x` and a path below `x` is itself below `x`.  This is what makes
"compare with the last kept path" enough in `normalizePaths`, and it is where `.` being the
least byte is used. -/
theorem hasPathPrefix_convex {x y z : Path} (hxy : lessPath x y = true) (hyz : lessPath y z = true)
    (hzx : hasPathPrefix z x = true) : hasPathPrefix y x = true := by
  induction x generalizing y z with
  | nil =>
    rw [hasPathPrefix_nil] at hzx ⊢
    cases z with
    | nil => simp at hyz
    | cons c z =>
      cases y with
      | nil => rfl
      | cons b y =>
        simp only [List.isEmpty_cons, List.head?_cons, Bool.false_or, beq_iff_eq,
          Option.some.injEq] at hzx ⊢
        subst hzx
        rw [lessPath_cons_cons] at hyz
        by_cases hb : b = dot
        · exact hb
        · simp only [hb, if_false, decide_eq_true_eq, key_dot] at hyz; omega
  | cons a x ih =>
    cases z with
    | nil => simp at hyz
    | cons c z =>
      rw [hasPathPrefix_cons_cons] at hzx
      simp only [Bool.and_eq_true, beq_iff_eq] at hzx
      obtain ⟨rfl, hzx⟩ := hzx
      cases y with
      | nil => simp at hxy
      | cons b y =>
        rw [lessPath_cons_cons] at hxy hyz
        rw [hasPathPrefix_cons_cons]
        by_cases hcb : c = b
        · subst hcb
          simp only [if_true] at hxy hyz
          simp only [beq_self_eq_true, Bool.true_and]
          exact ih hxy hyz hzx
        · have hbc : ¬ b = c := fun e => hcb e.symm
          simp only [hcb, hbc, if_false, decide_eq_true_eq] at hxy hyz
          omega

/-- two path-prefixes of the same path are comparable -/
theorem hasPathPrefix_comparable {q p1 p2 : Path} (h1 : hasPathPrefix q p1 = true)
    (h2 : hasPathPrefix q p2 = true) :
    hasPathPrefix p1 p2 = true ∨ hasPathPrefix p2 p1 = true := by
  induction q generalizing p1 p2 with
  | nil =>
    cases p1 with
    | nil => cases p2 with
      | nil => exact Or.inl rfl
      | cons b p2 => simp at h2
    | cons b p1 => simp at h1
  | cons a q ih =>
    cases p1 with
    | nil =>
      cases p2 with
      | nil => exact Or.inl rfl
      | cons b p2 =>
        right
        rw [hasPathPrefix_cons_cons] at h2
        rw [hasPathPrefix_nil] at h1 ⊢
        simp only [Bool.and_eq_true, beq_iff_eq] at h2
        obtain ⟨rfl, _⟩ := h2
        simpa using h1
    | cons b1 p1 =>
      cases p2 with
      | nil =>
        left
        rw [hasPathPrefix_cons_cons] at h1
        rw [hasPathPrefix_nil] at h2 ⊢
        simp only [Bool.and_eq_true, beq_iff_eq] at h1
        obtain ⟨rfl, _⟩ := h1
        simpa using h2
      | cons b2 p2 =>
        rw [hasPathPrefix_cons_cons] at h1 h2 ⊢
        rw [hasPathPrefix_cons_cons]
        simp only [Bool.and_eq_true, beq_iff_eq] at h1 h2 ⊢
        obtain ⟨rfl, h1⟩ := h1
        obtain ⟨rfl, h2⟩ := h2
        rcases ih h1 h2 with h | h
        · exact Or.inl ⟨rfl, h⟩
        · exact Or.inr ⟨rfl, h⟩

/-! ### the elision loop of normalizePaths -/

/-- `elide` with the accumulator factored out: `last` is the last kept path (`out[len(out)-1]`). -/
def elideAux : Option Path → List Path → List Path
  | _, [] => []
  | none, p :: rest => p :: elideAux (some p) rest
  | some l, p :: rest =>
    if hasPathPrefix p l then elideAux (some l) rest else p :: elideAux (some p) rest

theorem elide_eq (out rest : List Path) : elide out rest = out ++ elideAux out.getLast? rest := by
  induction rest generalizing out with
  | nil => simp [elide, elideAux]
  | cons p rest ih =>
    unfold elide
    cases hl : out.getLast? with
    | none =>
      simp only [elideAux]
      rw [ih]; simp
    | some l =>
      simp only [elideAux]
      split
      · rw [ih, hl]
      · rw [ih]; simp

theorem normalizePaths_eq (ps : List Path) : normalizePaths ps = elideAux none (sortPaths ps) := by
  simp [normalizePaths, elide_eq]

theorem elideAux_none (rest : List Path) :
    elideAux none rest = match rest with | [] => [] | p :: r => p :: elideAux (some p) r := by
  cases rest <;> rfl

/-- what `q` is covered by: some path of `P` is a path-prefix of `q` -/
def covers (P : List Path) (q : Path) : Prop := ∃ p ∈ P, hasPathPrefix q p = true

theorem covers_nil (q : Path) : ¬ covers [] q := by simp [covers]

theorem covers_cons {p : Path} {P : List Path} {q : Path} :
    covers (p :: P) q ↔ hasPathPrefix q p = true ∨ covers P q := by
  simp [covers]

theorem covers_append {P Q : List Path} {q : Path} : covers (P ++ Q) q ↔ covers P q ∨ covers Q q := by
  simp only [covers, List.mem_append]
  constructor
  · rintro ⟨p, hp | hp, h⟩
    · exact Or.inl ⟨p, hp, h⟩
    · exact Or.inr ⟨p, hp, h⟩
  · rintro (⟨p, hp, h⟩ | ⟨p, hp, h⟩)
    · exact ⟨p, Or.inl hp, h⟩
    · exact ⟨p, Or.inr hp, h⟩

theorem covers_of_perm {P Q : List Path} (h : P.Perm Q) (q : Path) : covers P q ↔ covers Q q := by
  simp only [covers, h.mem_iff]

theorem covers_mono {P Q : List Path} (h : ∀ p ∈ P, p ∈ Q) {q : Path} (c : covers P q) : covers Q q := by
  obtain ⟨p, hp, hq⟩ := c
  exact ⟨p, h p hp, hq⟩

/-- elision never changes what is covered (no sortedness needed): a dropped path lies below a kept one. -/
theorem covers_elideAux_some (l : Path) (rest : List Path) (q : Path) :
    covers (l :: elideAux (some l) rest) q ↔ covers (l :: rest) q := by
  induction rest generalizing l with
  | nil => simp [elideAux]
  | cons p rest ih =>
    simp only [elideAux]
    split
    next hp =>
      rw [ih l]
      simp only [covers_cons]
      constructor
      · rintro (h | h)
        · exact Or.inl h
        · exact Or.inr (Or.inr h)
      · rintro (h | h | h)
        · exact Or.inl h
        · exact Or.inl (hasPathPrefix_trans h hp)
        · exact Or.inr h
    next hp =>
      have := ih p
      simp only [covers_cons] at this ⊢
      rw [this]

theorem covers_elideAux_none (rest : List Path) (q : Path) :
    covers (elideAux none rest) q ↔ covers rest q := by
  cases rest with
  | nil => simp [elideAux]
  | cons p rest => simp only [elideAux]; exact covers_elideAux_some p rest q

/-- strictly increasing and no later element below an earlier one -/
def StrictChain (x y : Path) : Prop := lessPath x y = true ∧ hasPathPrefix y x = false

theorem elideAux_some_spec (l : Path) (rest : List Path)
    (hs : rest.Pairwise (fun a b => lePath a b = true)) (hl : ∀ p ∈ rest, lePath l p = true) :
    (∀ p ∈ elideAux (some l) rest, StrictChain l p) ∧
    (elideAux (some l) rest).Pairwise StrictChain := by
  induction rest generalizing l with
  | nil => simp [elideAux]
  | cons p rest ih =>
    rw [List.pairwise_cons] at hs
    simp only [elideAux]
    split
    next hp =>
      exact ih l hs.2 (fun x hx => hl x (List.mem_cons_of_mem _ hx))
    next hp =>
      have hp' : hasPathPrefix p l = false := by simpa using hp
      have hlp : lessPath l p = true := by
        rcases lePath_iff.1 (hl p List.mem_cons_self) with e | h
        · subst e; rw [hasPathPrefix_refl] at hp'; cases hp'
        · exact h
      obtain ⟨ih1, ih2⟩ := ih p hs.2 hs.1
      refine ⟨?_, List.pairwise_cons.2 ⟨ih1, ih2⟩⟩
      intro x hx
      rcases List.mem_cons.1 hx with rfl | hx
      · exact ⟨hlp, hp'⟩
      · obtain ⟨hpx, _⟩ := ih1 x hx
        refine ⟨lessPath_trans hlp hpx, ?_⟩
        cases hxl : hasPathPrefix x l with
        | false => rfl
        | true => rw [hasPathPrefix_convex hlp hpx hxl] at hp'; cases hp'

theorem elideAux_none_spec (rest : List Path)
    (hs : rest.Pairwise (fun a b => lePath a b = true)) :
    (elideAux none rest).Pairwise StrictChain := by
  cases rest with
  | nil => simp [elideAux]
  | cons p rest =>
    rw [List.pairwise_cons] at hs
    simp only [elideAux]
    obtain ⟨h1, h2⟩ := elideAux_some_spec p rest hs.2 hs.1
    exact List.pairwise_cons.2 ⟨h1, h2⟩

/-- on a strict chain the loop keeps everything -/
theorem elideAux_some_of_chain (l : Path) (rest : List Path)
    (h : (l :: rest).Pairwise StrictChain) : elideAux (some l) rest = rest := by
  induction rest generalizing l with
  | nil => rfl
  | cons p rest ih =>
    rw [List.pairwise_cons] at h
    have hp : hasPathPrefix p l = false := (h.1 p List.mem_cons_self).2
    simp only [elideAux, hp, Bool.false_eq_true, if_false]
    rw [ih p h.2]

theorem elideAux_none_of_chain (rest : List Path) (h : rest.Pairwise StrictChain) :
    elideAux none rest = rest := by
  cases rest with
  | nil => rfl
  | cons p rest => simp only [elideAux]; rw [elideAux_some_of_chain p rest h]

theorem sortPaths_perm (ps : List Path) : (sortPaths ps).Perm ps := List.mergeSort_perm ps lePath

theorem sortPaths_pairwise (ps : List Path) : (sortPaths ps).Pairwise (fun a b => lePath a b = true) :=
  List.pairwise_mergeSort lePath_trans lePath_total ps

theorem StrictChain.le {x y : Path} (h : StrictChain x y) : lePath x y = true :=
  lePath_iff.2 (Or.inr h.1)

/-! ### the two-index loop of Intersect -/

theorem intersectLoop_some (fuel : Nat) (l1 l2 : List Path) (hf : l1.length + l2.length ≤ fuel) :
    ∃ r, intersectLoop fuel l1 l2 = some r := by
  induction fuel generalizing l1 l2 with
  | zero =>
    cases l1 with
    | nil => exact ⟨[], by simp [intersectLoop]⟩
    | cons a l1 => simp at hf
  | succ fuel ih =>
    cases l1 with
    | nil => exact ⟨[], by simp [intersectLoop]⟩
    | cons s1 t1 =>
      cases l2 with
      | nil => exact ⟨[], by simp [intersectLoop]⟩
      | cons s2 t2 =>
        simp only [List.length_cons] at hf
        obtain ⟨r1, h1⟩ := ih t1 (s2 :: t2) (by simp only [List.length_cons]; omega)
        obtain ⟨r2, h2⟩ := ih (s1 :: t1) t2 (by simp only [List.length_cons]; omega)
        simp only [intersectLoop, h1, h2, Option.map_some]
        split
        · exact ⟨_, rfl⟩
        · split
          · exact ⟨_, rfl⟩
          · split
            · exact ⟨_, rfl⟩
            · split
              · exact ⟨_, rfl⟩
              · next n1 _ n3 n4 =>
                exfalso
                have hne : s1 ≠ s2 := by
                  intro e; subst e; exact n1 (hasPathPrefix_refl _)
                rcases lessPath_total hne with h | h
                · exact n3 h
                · exact n4 h

/-- head is `≤` everything in the tail (what a sorted list gives) -/
def HeadLe : List Path → Prop
  | [] => True
  | s :: t => (∀ p ∈ t, lePath s p = true) ∧ HeadLe t

theorem headLe_of_pairwise {l : List Path} (h : l.Pairwise (fun a b => lePath a b = true)) : HeadLe l := by
  induction l with
  | nil => trivial
  | cons s t ih =>
    rw [List.pairwise_cons] at h
    exact ⟨h.1, ih h.2⟩

/-- nothing is below both `s1` and an element of a sorted list that starts at an incomparable, greater `s2` -/
theorem not_covers_of_less {s1 s2 : Path} {t2 : List Path} {q : Path}
    (n1 : hasPathPrefix s1 s2 = false) (n2 : hasPathPrefix s2 s1 = false)
    (hlt : lessPath s1 s2 = true) (hs : ∀ p ∈ t2, lePath s2 p = true)
    (hq1 : hasPathPrefix q s1 = true) : ¬ covers (s2 :: t2) q := by
  rintro ⟨p, hp, hq2⟩
  rcases List.mem_cons.1 hp with rfl | hp
  · rcases hasPathPrefix_comparable hq1 hq2 with h | h
    · rw [h] at n1; cases n1
    · rw [h] at n2; cases n2
  · have hle := lePath_iff.1 (hs p hp)
    have hs1p : lessPath s1 p = true := by
      rcases hle with rfl | h
      · exact hlt
      · exact lessPath_trans hlt h
    rcases hasPathPrefix_comparable hq1 hq2 with h | h
    · -- s1 below p: then p ≤ s1, but s1 < p
      rcases hasPathPrefix_le h with e | h'
      · subst e; rw [lessPath_irrefl] at hs1p; cases hs1p
      · rw [lessPath_asymm hs1p] at h'; cases h'
    · -- p below s1: then s2 (between s1 and p) is below s1
      rcases hle with rfl | h'
      · rw [h] at n2; cases n2
      · rw [hasPathPrefix_convex hlt h' h] at n2; cases n2

theorem intersectLoop_covers (fuel : Nat) (l1 l2 r : List Path)
    (h1 : HeadLe l1) (h2 : HeadLe l2) (hr : intersectLoop fuel l1 l2 = some r) (q : Path) :
    covers r q ↔ covers l1 q ∧ covers l2 q := by
  induction fuel generalizing l1 l2 r with
  | zero =>
    cases l1 with
    | nil => simp [intersectLoop] at hr; subst hr; simp [covers]
    | cons s1 t1 =>
      cases l2 with
      | nil => simp [intersectLoop] at hr; subst hr; simp [covers]
      | cons s2 t2 => simp [intersectLoop] at hr
  | succ fuel ih =>
    cases l1 with
    | nil => simp [intersectLoop] at hr; subst hr; simp [covers]
    | cons s1 t1 =>
      cases l2 with
      | nil => simp [intersectLoop] at hr; subst hr; simp [covers]
      | cons s2 t2 =>
        simp only [intersectLoop] at hr
        split at hr
        next c1 =>
          -- s1 below s2: keep s1, advance i1
          cases hrec : intersectLoop fuel t1 (s2 :: t2) with
          | none => simp [hrec] at hr
          | some r' =>
            simp only [hrec, Option.map_some, Option.some.injEq] at hr
            subst hr
            have := ih t1 (s2 :: t2) r' h1.2 h2 hrec
            simp only [covers_cons] at this ⊢
            rw [this]
            constructor
            · rintro (h | ⟨h, h'⟩)
              · exact ⟨Or.inl h, Or.inl (hasPathPrefix_trans h c1)⟩
              · exact ⟨Or.inr h, h'⟩
            · rintro ⟨h | h, h'⟩
              · exact Or.inl h
              · exact Or.inr ⟨h, h'⟩
        next c1 =>
          split at hr
          next c2 =>
            cases hrec : intersectLoop fuel (s1 :: t1) t2 with
            | none => simp [hrec] at hr
            | some r' =>
              simp only [hrec, Option.map_some, Option.some.injEq] at hr
              subst hr
              have := ih (s1 :: t1) t2 r' h1 h2.2 hrec
              simp only [covers_cons] at this ⊢
              rw [this]
              constructor
              · rintro (h | ⟨h, h'⟩)
                · exact ⟨Or.inl (hasPathPrefix_trans h c2), Or.inl h⟩
                · exact ⟨h, Or.inr h'⟩
              · rintro ⟨h', h | h⟩
                · exact Or.inl h
                · exact Or.inr ⟨h', h⟩
          next c2 =>
            have n1 : hasPathPrefix s1 s2 = false := by simpa using c1
            have n2 : hasPathPrefix s2 s1 = false := by simpa using c2
            split at hr
            next c3 =>
              have := ih t1 (s2 :: t2) r h1.2 h2 hr
              rw [this]
              constructor
              · rintro ⟨h, h'⟩; exact ⟨covers_cons.2 (Or.inr h), h'⟩
              · rintro ⟨h, h'⟩
                rcases covers_cons.1 h with h | h
                · exact absurd h' (not_covers_of_less n1 n2 c3 h2.1 h)
                · exact ⟨h, h'⟩
            next c3 =>
              split at hr
              next c4 =>
                have := ih (s1 :: t1) t2 r h1 h2.2 hr
                rw [this]
                constructor
                · rintro ⟨h, h'⟩; exact ⟨h, covers_cons.2 (Or.inr h')⟩
                · rintro ⟨h, h'⟩
                  rcases covers_cons.1 h' with h' | h'
                  · exact absurd h (not_covers_of_less n2 n1 c4 h1.1 h')
                  · exact ⟨h, h'⟩
              next c4 => cases hr

/-! ### Union / Intersect plumbing -/

theorem foldl_append_eq (init : List Path) (ms : List (List Path)) :
    ms.foldl (fun out m => out ++ m) init = init ++ ms.flatten := by
  induction ms generalizing init with
  | nil => simp
  | cons m ms ih => simp [List.foldl_cons, ih, List.append_assoc]

theorem covers_flatten {ms : List (List Path)} {q : Path} :
    covers ms.flatten q ↔ ∃ m ∈ ms, covers m q := by
  induction ms with
  | nil => simp [covers]
  | cons m ms ih => simp [covers_append, ih]

theorem elideAux_sublist (last : Option Path) (rest : List Path) :
    (elideAux last rest).Sublist rest := by
  induction rest generalizing last with
  | nil => cases last <;> simp [elideAux]
  | cons p rest ih =>
    cases last with
    | none => simp only [elideAux]; exact (ih _).cons_cons _
    | some l =>
      simp only [elideAux]
      split
      · exact (ih _).cons _
      · exact (ih _).cons_cons _

/-! ### validity -/

theorem splitDots_ne_nil (p : Path) : splitDots p ≠ [] := by
  induction p with
  | nil => simp [splitDots]
  | cons b rest ih =>
    unfold splitDots
    split
    · simp
    · split <;> simp

/-- `strings.Join(fields, ".")` -/
def joinDots : List Path → Path
  | [] => []
  | [f] => f
  | f :: g :: fs => f ++ dot :: joinDots (g :: fs)

theorem splitDots_cons_dot (rest : Path) : splitDots (dot :: rest) = [] :: splitDots rest := by
  simp [splitDots]

theorem splitDots_cons_ne {b : Byte} (hb : b ≠ dot) (rest : Path) :
    ∃ f fs, splitDots rest = f :: fs ∧ splitDots (b :: rest) = (b :: f) :: fs := by
  cases h : splitDots rest with
  | nil => exact absurd h (splitDots_ne_nil rest)
  | cons f fs =>
    refine ⟨f, fs, rfl, ?_⟩
    have : (b == dot) = false := by simp [hb]
    simp [splitDots, this, h]

theorem joinDots_splitDots (p : Path) : joinDots (splitDots p) = p := by
  induction p with
  | nil => rfl
  | cons b rest ih =>
    by_cases hb : b = dot
    · subst hb
      rw [splitDots_cons_dot]
      cases h : splitDots rest with
      | nil => exact absurd h (splitDots_ne_nil rest)
      | cons f fs => rw [h] at ih; simp [joinDots, ih]
    · obtain ⟨f, fs, h1, h2⟩ := splitDots_cons_ne hb rest
      rw [h2]; rw [h1] at ih
      cases fs with
      | nil => simp only [joinDots] at ih ⊢; rw [ih]
      | cons g gs => simp only [joinDots, List.cons_append] at ih ⊢; rw [ih]

theorem splitDots_dotfree (p : Path) : ∀ f ∈ splitDots p, dot ∉ f := by
  induction p with
  | nil => simp [splitDots]
  | cons b rest ih =>
    by_cases hb : b = dot
    · subst hb
      rw [splitDots_cons_dot]
      intro f hf
      rcases List.mem_cons.1 hf with rfl | hf
      · simp
      · exact ih f hf
    · obtain ⟨f, fs, h1, h2⟩ := splitDots_cons_ne hb rest
      rw [h2]; rw [h1] at ih
      intro g hg
      rcases List.mem_cons.1 hg with rfl | hg
      · intro hm
        rcases List.mem_cons.1 hm with e | hm
        · exact hb e.symm
        · exact ih f List.mem_cons_self hm
      · exact ih g (List.mem_cons_of_mem _ hg)

theorem splitDots_dotfree_single {f : Path} (hf : dot ∉ f) : splitDots f = [f] := by
  induction f with
  | nil => rfl
  | cons b f ih =>
    have hb : b ≠ dot := fun e => hf (by simp [e])
    have hf' : dot ∉ f := fun h => hf (List.mem_cons_of_mem _ h)
    obtain ⟨g, gs, h1, h2⟩ := splitDots_cons_ne hb f
    rw [ih hf'] at h1
    simp only [List.cons.injEq] at h1
    rw [h2, ← h1.1, ← h1.2]

theorem splitDots_append_dot {f : Path} (hf : dot ∉ f) (rest : Path) :
    splitDots (f ++ dot :: rest) = f :: splitDots rest := by
  induction f with
  | nil => simp [splitDots_cons_dot]
  | cons b f ih =>
    have hb : b ≠ dot := fun e => hf (by simp [e])
    have hf' : dot ∉ f := fun h => hf (List.mem_cons_of_mem _ h)
    obtain ⟨g, gs, h1, h2⟩ := splitDots_cons_ne hb (f ++ dot :: rest)
    rw [ih hf'] at h1
    simp only [List.cons.injEq] at h1
    rw [List.cons_append, h2, ← h1.1, ← h1.2]

theorem splitDots_joinDots (cs : List Path) (hne : cs ≠ []) (hd : ∀ f ∈ cs, dot ∉ f) :
    splitDots (joinDots cs) = cs := by
  induction cs with
  | nil => exact absurd rfl hne
  | cons f fs ih =>
    cases fs with
    | nil => simp only [joinDots]; exact splitDots_dotfree_single (hd f List.mem_cons_self)
    | cons g gs =>
      simp only [joinDots]
      rw [splitDots_append_dot (hd f List.mem_cons_self)]
      rw [ih (by simp) (fun x hx => hd x (List.mem_cons_of_mem _ hx))]

/-- `ByName` under unique field names -/
theorem byName_eq_some_of_mem {md : MsgDef} (hnd : (md.map (·.name)).Nodup) {fd : Field}
    (hm : fd ∈ md) : byName md fd.name = some fd := by
  induction md with
  | nil => cases hm
  | cons g md ih =>
    simp only [List.map_cons, List.nodup_cons, List.mem_map, not_exists, not_and] at hnd
    unfold byName
    rw [List.find?_cons]
    rcases List.mem_cons.1 hm with rfl | hm
    · simp
    · have hne : ¬ g.name = fd.name := fun e => hnd.1 fd hm e.symm
      have : (g.name == fd.name) = false := by simp [hne]
      simp only [this]
      exact ih hnd.2 hm

theorem byName_some {md : MsgDef} {n : Path} {fd : Field} (h : byName md n = some fd) :
    fd ∈ md ∧ fd.name = n := by
  unfold byName at h
  exact ⟨List.mem_of_find?_eq_some h, by simpa using List.find?_some h⟩

theorem byName_none {md : MsgDef} {n : Path} : byName md n = none ↔ ∀ g ∈ md, g.name ≠ n := by
  unfold byName
  simp [List.find?_eq_none]

end Model.FieldMask
