import PbVerif.Model.FieldOrder
/-
Order facts about `LegacyFieldOrder` as extracted (`legacyLt`) and about the sorts of the coder tables.
-/
namespace Pb.FieldOrder

/-- `LegacyFieldOrder` in closed form -/
def legacyCanon (x y : CF) : Bool :=
  if x.ext != y.ext then x.ext && !y.ext
  else if x.inOneof != y.inOneof then !x.inOneof && y.inOneof
  else if x.inOneof && y.inOneof && x.oneof != y.oneof then Nat.blt x.oneofIdx y.oneofIdx
  else Nat.blt x.num y.num

/-- the extracted clause sequence is the canonical one: extensions, non-oneof before oneof, oneof index, number -/
theorem legacyLt_eq : legacyLt = legacyCanon := by
  funext x y
  simp only [legacyLt, Gen.FieldOrder.legacyClauses, lessBy, clause, legacyCanon]
  repeat' split
  all_goals first | rfl | simp_all

/-- sort key: extension fields first, then fields outside oneofs, then oneof members by oneof index; ties by number -/
def rank (x : CF) : Nat × Nat × Nat × Nat :=
  (if x.ext then 0 else 1, if x.inOneof then 1 else 0, x.oneofIdx, x.num)

def Lex4 (a b : Nat × Nat × Nat × Nat) : Prop :=
  a.1 < b.1 ∨ (a.1 = b.1 ∧ (a.2.1 < b.2.1 ∨ (a.2.1 = b.2.1 ∧ (a.2.2.1 < b.2.2.1 ∨ (a.2.2.1 = b.2.2.1 ∧ a.2.2.2 < b.2.2.2)))))

instance (a b) : Decidable (Lex4 a b) := by unfold Lex4; infer_instance

theorem legacyLt_iff (x y : CF) : legacyLt x y = true ↔ Lex4 (rank x) (rank y) := by
  rw [legacyLt_eq]
  rcases x with ⟨xn, xo, xe⟩
  rcases y with ⟨yn, yo, ye⟩
  cases xe <;> cases ye <;> cases xo <;> cases yo <;>
    simp [legacyCanon, rank, Lex4, CF.inOneof, CF.oneofIdx] <;> first | omega | (split <;> omega)

theorem rank_inj (x y : CF) (h : rank x = rank y) : x = y := by
  rcases x with ⟨xn, xo, xe⟩
  rcases y with ⟨yn, yo, ye⟩
  cases xe <;> cases ye <;> cases xo <;> cases yo <;> simp_all [rank, CF.inOneof, CF.oneofIdx]

/-- `a` is not after `b` -/
theorem notAfter_iff (x y : CF) : notAfter legacyLt x y = true ↔ ¬ Lex4 (rank y) (rank x) := by
  simp [notAfter, ← legacyLt_iff y x]

theorem legacy_trans (a b c : CF) : notAfter legacyLt a b = true → notAfter legacyLt b c = true → notAfter legacyLt a c = true := by
  simp only [notAfter_iff, Lex4]; omega

theorem legacy_total (a b : CF) : (notAfter legacyLt a b || notAfter legacyLt b a) = true := by
  simp only [Bool.or_eq_true, notAfter_iff, Lex4]; omega

theorem legacy_antisymm (a b : CF) : notAfter legacyLt a b = true → notAfter legacyLt b a = true → a = b := by
  simp only [notAfter_iff, Lex4]
  intro h1 h2
  apply rank_inj
  have : (rank a).1 = (rank b).1 ∧ (rank a).2.1 = (rank b).2.1 ∧ (rank a).2.2.1 = (rank b).2.2.1 ∧ (rank a).2.2.2 = (rank b).2.2.2 := by omega
  exact Prod.ext this.1 (Prod.ext this.2.1 (Prod.ext this.2.2.1 this.2.2.2))

theorem num_trans (a b c : CF) : notAfter numLt a b = true → notAfter numLt b c = true → notAfter numLt a c = true := by
  simp only [notAfter, numLt, Bool.not_eq_true', Bool.or_eq_true]
  repeat rw [Bool.eq_false_iff]
  simp only [ne_eq, Nat.blt_eq]; omega

theorem num_total (a b : CF) : (notAfter numLt a b || notAfter numLt b a) = true := by
  simp only [notAfter, numLt, Bool.not_eq_true', Bool.or_eq_true]
  repeat rw [Bool.eq_false_iff]
  simp only [ne_eq, Nat.blt_eq]; omega

theorem insertBy_perm (lt : CF → CF → Bool) (a : CF) : ∀ l, (insertBy lt a l).Perm (a :: l)
  | [] => List.Perm.refl _
  | b :: tl => by
    unfold insertBy; split
    · exact List.Perm.refl _
    · exact ((insertBy_perm lt a tl).cons b).trans (List.Perm.swap a b tl)

theorem sortBy_perm (lt : CF → CF → Bool) : ∀ l, (sortBy lt l).Perm l
  | [] => List.Perm.refl _
  | a :: tl => (insertBy_perm lt a _).trans ((sortBy_perm lt tl).cons a)

theorem insertBy_pairwise {lt : CF → CF → Bool}
    (trans : ∀ a b c, notAfter lt a b = true → notAfter lt b c = true → notAfter lt a c = true)
    (total : ∀ a b, (notAfter lt a b || notAfter lt b a) = true) (a : CF) :
    ∀ l, l.Pairwise (fun x y => notAfter lt x y = true) → (insertBy lt a l).Pairwise (fun x y => notAfter lt x y = true)
  | [], _ => by simp [insertBy]
  | b :: tl, h => by
    unfold insertBy
    have hb := List.pairwise_cons.mp h
    split
    · rename_i hab
      refine List.pairwise_cons.mpr ⟨?_, h⟩
      intro c hc
      rcases List.mem_cons.mp hc with rfl | hc
      · exact hab
      · exact trans a b c hab (hb.1 c hc)
    · rename_i hab
      have hba : notAfter lt b a = true := by
        have := total a b; simp only [Bool.or_eq_true] at this; rcases this with h' | h'
        · exact absurd h' hab
        · exact h'
      refine List.pairwise_cons.mpr ⟨?_, insertBy_pairwise trans total a tl hb.2⟩
      intro c hc
      rcases List.mem_cons.mp ((insertBy_perm lt a tl).subset hc) with rfl | hc
      · exact hba
      · exact hb.1 c hc

theorem sortBy_pairwise {lt : CF → CF → Bool}
    (trans : ∀ a b c, notAfter lt a b = true → notAfter lt b c = true → notAfter lt a c = true)
    (total : ∀ a b, (notAfter lt a b || notAfter lt b a) = true) :
    ∀ l, (sortBy lt l).Pairwise (fun x y => notAfter lt x y = true)
  | [] => List.Pairwise.nil
  | a :: tl => insertBy_pairwise trans total a _ (sortBy_pairwise trans total tl)

/-- `sortBy` meets the specification of a sort, for both comparators -/
theorem sortBy_legacy_isSortOf (l : List CF) : IsSortOf legacyLt l (sortBy legacyLt l) :=
  ⟨sortBy_perm _ l, sortBy_pairwise legacy_trans legacy_total l⟩

theorem sortBy_num_isSortOf (l : List CF) : IsSortOf numLt l (sortBy numLt l) :=
  ⟨sortBy_perm _ l, sortBy_pairwise num_trans num_total l⟩

/-- **the sorted permutation is unique**: any two results of sorting (permutations of) the same fields by
`LegacyFieldOrder` are equal — whatever algorithm `sort.Slice` runs, whatever order the input was in -/
theorem legacy_sort_unique {l r₁ r₂ : List CF} (h₁ : IsSortOf legacyLt l r₁) (h₂ : IsSortOf legacyLt l r₂) : r₁ = r₂ :=
  List.Perm.eq_of_pairwise (le := fun a b => notAfter legacyLt a b = true)
    (fun a b _ _ hab hba => legacy_antisymm a b hab hba) h₁.2 h₂.2 (h₁.1.trans h₂.1.symm)

/-- on declared fields outside oneofs `LegacyFieldOrder` is the order by number -/
theorem legacyLt_eq_numLt_of_plain (x y : CF) (hx : x.ext = false) (hy : y.ext = false)
    (hxo : x.oneof = none) (hyo : y.oneof = none) : legacyLt x y = numLt x y := by
  rw [legacyLt_eq]; simp [legacyCanon, numLt, hx, hy, hxo, hyo, CF.inOneof]

/-! ### bridge to the message model (`Model/MsgDet.lean`) -/

theorem blt_decide (a b : Nat) : Nat.blt a b = decide (a < b) := by
  rw [Bool.eq_iff_iff]; simp

theorem key_lemma (ea eb : Bool) (oa ob : Option Nat) (na nb : Nat) :
    legacyCanon ⟨na, oa, ea⟩ ⟨nb, ob, eb⟩ =
      (let a1 := if ea then 0 else 1; let a2 := (match oa with | some _ => 1 | none => 0); let a3 := (match oa with | some o => o | none => 0)
       let b1 := if eb then 0 else 1; let b2 := (match ob with | some _ => 1 | none => 0); let b3 := (match ob with | some o => o | none => 0)
       decide (a1 < b1) || (a1 == b1 && (decide (a2 < b2) || (a2 == b2 && (decide (a3 < b3) || (a3 == b3 && decide (na < nb))))))) := by
  cases ea <;> cases eb <;> cases oa <;> cases ob <;> simp [legacyCanon, CF.inOneof, CF.oneofIdx, blt_decide] <;>
    first | done | omega | (split <;> simp_all <;> omega) | trace_state

/-- `legacyLt` on the coder-table view of two declared fields is `Pb.legacyLess` on their numbers — the comparator
`detMsg` / `encodeDet` sort with -/
theorem legacyLt_eq_model (md : Pb.MsgD) (fa fb : Pb.Field)
    (ha : md.find fa.num = some fa) (hb : md.find fb.num = some fb) :
    legacyLt (ofField fa) (ofField fb) = Pb.legacyLess md fa.num fb.num := by
  rw [legacyLt_eq]
  unfold Pb.legacyLess Pb.legacyKey
  rw [ha, hb]
  exact key_lemma fa.ext fb.ext fa.oneof fb.oneof fa.num fb.num

theorem find_eq_of_mem : ∀ (fs : List Pb.Field), (fs.map (·.num)).Nodup → ∀ f ∈ fs, fs.find? (·.num == f.num) = some f
  | [], _, f, hf => by simp at hf
  | g :: tl, hn, f, hf => by
    have hn' : g.num ∉ tl.map (·.num) ∧ (tl.map (·.num)).Nodup := List.nodup_cons.mp hn
    rcases List.mem_cons.mp hf with rfl | hf
    · simp
    · have hne : g.num ≠ f.num := by
        intro e; exact hn'.1 (e ▸ List.mem_map_of_mem (f := fun x : Pb.Field => x.num) hf)
      simp [List.find?_cons, hne, find_eq_of_mem tl hn'.2 f hf]

end Pb.FieldOrder
