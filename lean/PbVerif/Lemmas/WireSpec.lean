import PbVerif.Model.WireSpec
import PbVerif.Model.Msg
/-
Round-trip and size lemmas for the wire primitives of `Model/WireSpec.lean`, for ALL values.
Core-only.  Used by Props/C03, Props/C04 and Lemmas/Msg*.lean.
-/
namespace Spec

/-! ### varint -/

theorem encVarint_lt {n : Nat} (h : n < 128) : encVarint n = [BitVec.ofNat 8 n] := by
  rw [encVarint]; simp [h]

theorem encVarint_ge {n : Nat} (h : ¬ n < 128) :
    encVarint n = BitVec.ofNat 8 (n % 128 + 128) :: encVarint (n / 128) := by
  rw [encVarint]; simp [h]

theorem encVarint_length_pos (n : Nat) : 0 < (encVarint n).length := by
  rw [encVarint]; split <;> simp

theorem encVarint_ne_nil (n : Nat) : encVarint n ≠ [] := by
  intro h; have := encVarint_length_pos n; simp [h] at this

theorem encVarint_append_ne_nil (n : Nat) (r : List Byte) : encVarint n ++ r ≠ [] := by
  simp [encVarint_ne_nil]

/-- `n < 128^(k+1)` is encoded in at most `k+1` bytes -/
theorem encVarint_length_le : ∀ (k n : Nat), n < 128 ^ (k + 1) → (encVarint n).length ≤ k + 1
  | 0, n, h => by
    have : n < 128 := by simpa using h
    rw [encVarint_lt this]; simp
  | k + 1, n, h => by
    by_cases h1 : n < 128
    · rw [encVarint_lt h1]; simp
    · rw [encVarint_ge h1]
      have : n / 128 < 128 ^ (k + 1) := by
        rw [Nat.div_lt_iff_lt_mul (by decide)]
        rw [Nat.pow_succ] at h; exact h
      have := encVarint_length_le k (n / 128) this
      simp only [List.length_cons]; omega

theorem encVarint_length_le_ten {n : Nat} (h : n < 2 ^ 64) : (encVarint n).length ≤ 10 := by
  apply encVarint_length_le 9 n
  have : (2:Nat) ^ 64 ≤ 128 ^ 10 := by decide
  omega

theorem sizeVarint_pos (n : Nat) : 1 ≤ sizeVarint n := encVarint_length_pos n
theorem sizeVarint_le_ten {n : Nat} (h : n < 2 ^ 64) : sizeVarint n ≤ 10 := encVarint_length_le_ten h

/-- the length of a varint depends only on `n / 128` -/
theorem encVarint_length_congr {a b : Nat} (h : a / 128 = b / 128) :
    (encVarint a).length = (encVarint b).length := by
  by_cases ha : a < 128
  · have hb : b < 128 := by omega
    rw [encVarint_lt ha, encVarint_lt hb]; simp
  · have hb : ¬ b < 128 := by omega
    rw [encVarint_ge ha, encVarint_ge hb, h]; simp

theorem decVarintAux_enc (n : Nat) : ∀ (i : Nat) (rest : List Byte), i ≤ 9 → n * 2 ^ (7 * i) < 2 ^ 64 →
    decVarintAux i (encVarint n ++ rest) = .ok (n * 2 ^ (7 * i), (encVarint n).length) := by
  induction n using Nat.strongRecOn with
  | _ n ih =>
    intro i rest hi hn
    by_cases h9 : i ≥ 9
    · have : i = 9 := by omega
      subst this
      have hn2 : n < 2 := by
        have : (2:Nat) ^ (7 * 9) = 9223372036854775808 := by decide
        rw [this] at hn; omega
      have hlt : n < 128 := by omega
      rw [encVarint_lt hlt]
      simp only [List.cons_append, List.nil_append, decVarintAux, ge_iff_le, Nat.le_refl, if_true,
        BitVec.toNat_ofNat, List.length_cons, List.length_nil]
      have : n % 2 ^ 8 = n := Nat.mod_eq_of_lt (by omega)
      rw [this]; simp [hn2]
    · by_cases hlt : n < 128
      · rw [encVarint_lt hlt]
        simp only [List.cons_append, List.nil_append, decVarintAux, h9, if_false,
          BitVec.toNat_ofNat, List.length_cons, List.length_nil]
        have : n % 2 ^ 8 = n := Nat.mod_eq_of_lt (by omega)
        rw [this]; simp [hlt]
      · rw [encVarint_ge hlt]
        simp only [List.cons_append, decVarintAux, h9, if_false, BitVec.toNat_ofNat, List.length_cons]
        have hb : (n % 128 + 128) % 2 ^ 8 = n % 128 + 128 := Nat.mod_eq_of_lt (by omega)
        rw [hb]
        have hnl : ¬ (n % 128 + 128 < 128) := by omega
        simp only [hnl, if_false]
        have hp : 2 ^ (7 * (i + 1)) = 128 * 2 ^ (7 * i) := by
          rw [Nat.mul_add, Nat.pow_add]; simp [Nat.mul_comm]
        have hdec : n = n % 128 + 128 * (n / 128) := (Nat.mod_add_div n 128).symm
        have hval : (n % 128 + 128 - 128) * 2 ^ (7 * i) + n / 128 * 2 ^ (7 * (i + 1)) = n * 2 ^ (7 * i) := by
          rw [hp, Nat.add_sub_cancel]
          conv => rhs; rw [hdec]
          rw [Nat.add_mul, Nat.mul_assoc, Nat.mul_comm (n / 128), Nat.mul_assoc, Nat.mul_comm (2 ^ (7 * i))]
        have hbound : n / 128 * 2 ^ (7 * (i + 1)) < 2 ^ 64 := by
          have : n / 128 * 2 ^ (7 * (i + 1)) ≤ n * 2 ^ (7 * i) := by
            rw [← hval]; exact Nat.le_add_left _ _
          omega
        rw [ih (n / 128) (by omega) (i + 1) rest (by omega) hbound]
        simp only [hval]

/-- `ConsumeVarint` inverts `AppendVarint` for every 64-bit value, whatever follows -/
theorem decVarint_enc {n : Nat} (h : n < 2 ^ 64) (rest : List Byte) :
    decVarint (encVarint n ++ rest) = .ok (n, (encVarint n).length) := by
  have := decVarintAux_enc n 0 rest (by omega) (by simpa using h)
  simpa [decVarint] using this

theorem encVarint_length_bounds {n : Nat} (h : n < 2 ^ 64) :
    1 ≤ (encVarint n).length ∧ (encVarint n).length ≤ 10 :=
  ⟨encVarint_length_pos n, encVarint_length_le_ten h⟩

/-! ### fixed width -/

theorem encFixed_length : ∀ (k v : Nat), (encFixed k v).length = k
  | 0, _ => rfl
  | k + 1, v => by simp [encFixed, encFixed_length k]

theorem leValue_encFixed : ∀ (k v : Nat), leValue (encFixed k v) = v % 256 ^ k
  | 0, v => by simp [encFixed, leValue, Nat.mod_one]
  | k + 1, v => by
    simp only [encFixed, leValue, BitVec.toNat_ofNat, leValue_encFixed k]
    have h1 : v % 256 % 2 ^ 8 = v % 256 := Nat.mod_eq_of_lt (by omega)
    rw [h1, Nat.pow_succ, Nat.mul_comm (256 ^ k) 256, Nat.mod_mul]

theorem decFixed_enc (k v : Nat) (rest : List Byte) :
    decFixed k (encFixed k v ++ rest) = .ok (v % 256 ^ k, k) := by
  have hl := encFixed_length k v
  unfold decFixed
  have : ¬ (encFixed k v ++ rest).length < k := by simp [hl]
  simp only [this, if_false]
  have ht : (encFixed k v ++ rest).take k = encFixed k v := by
    rw [List.take_append_of_le_length (by omega), List.take_of_length_le (by omega)]
  rw [ht, leValue_encFixed]

theorem decFixed4_enc {v : Nat} (h : v < 2 ^ 32) (rest : List Byte) :
    decFixed 4 (encFixed 4 v ++ rest) = .ok (v, 4) := by
  rw [decFixed_enc]; congr 2; exact Nat.mod_eq_of_lt (by simpa using h)

theorem decFixed8_enc {v : Nat} (h : v < 2 ^ 64) (rest : List Byte) :
    decFixed 8 (encFixed 8 v ++ rest) = .ok (v, 8) := by
  rw [decFixed_enc]; congr 2; exact Nat.mod_eq_of_lt (by simpa using h)

/-! ### tags -/

theorem encTag_lt {num typ : Nat} (h : num < 2 ^ 31) : encTag num typ < 2 ^ 64 := by
  unfold encTag; omega

/-- `ConsumeTag` inverts `AppendTag` for field numbers 1 … 2^31-1 (in particular 1 … 2^29-1) -/
theorem decTag_enc {num typ : Nat} (h1 : 1 ≤ num) (h2 : num < 2 ^ 31) (ht : typ < 8) (rest : List Byte) :
    decTag (encVarint (encTag num typ) ++ rest) = .ok (num, typ, (encVarint (encTag num typ)).length) := by
  unfold decTag
  rw [decVarint_enc (encTag_lt h2)]
  have hd : encTag num typ / 8 = num := by unfold encTag; omega
  have hm : encTag num typ % 8 = typ := by unfold encTag; omega
  simp only [hd, hm]
  have a : ¬ num > 2147483647 := by omega
  have b : ¬ num < 1 := by omega
  simp only [a, b, if_false]

/-- the tag of a field has the same length whatever the wire type -/
theorem tag_length (num t1 t2 : Nat) :
    (encVarint (encTag num t1)).length = (encVarint (encTag num t2)).length := by
  apply encVarint_length_congr; unfold encTag; omega

/-! ### length-delimited -/

theorem encBytes_length (p : List Byte) : (encBytes p).length = (encVarint p.length).length + p.length := by
  simp [encBytes]

theorem decBytes_enc' {p : List Byte} (h : p.length < 2 ^ 64) (rest : List Byte) :
    decBytes (encVarint p.length ++ (p ++ rest)) = .ok (p, (encVarint p.length).length + p.length) := by
  unfold decBytes
  rw [decVarint_enc h]
  simp only [List.drop_left']
  have : ¬ p.length > (p ++ rest).length := by simp
  simp only [this, if_false, List.take_left']

theorem decBytes_enc {p : List Byte} (h : p.length < 2 ^ 64) (rest : List Byte) :
    decBytes (encBytes p ++ rest) = .ok (p, (encBytes p).length) := by
  rw [encBytes_length]; unfold encBytes; rw [List.append_assoc]; exact decBytes_enc' h rest

/-! ### zigzag -/

theorem zigzagEnc_lt {x : Nat} (h : x < 2 ^ 64) : zigzagEnc x < 2 ^ 64 := by
  unfold zigzagEnc; split <;> omega

theorem zigzagDec_lt {u : Nat} (h : u < 2 ^ 64) : zigzagDec u < 2 ^ 64 := by
  unfold zigzagDec; split
  · omega
  · exact Nat.mod_lt _ (by decide)

theorem zigzagDec_enc {x : Nat} (h : x < 2 ^ 64) : zigzagDec (zigzagEnc x) = x := by
  unfold zigzagDec zigzagEnc; split <;> split <;> omega

theorem zigzagEnc_dec {u : Nat} (h : u < 2 ^ 64) : zigzagEnc (zigzagDec u) = u := by
  unfold zigzagDec zigzagEnc; split <;> split <;> omega

end Spec

/-! ### canonical numbers of a kind (`Model/Msg.lean`: `canonVarint`, `wireVarint`, `canonFixed32`) -/
namespace Pb
open Spec

/-- `n` is the canonical 64-bit form of a value of numeric kind `k`: bool 0/1; int32, sint32, enum,
sfixed32 sign-extended 32-bit values; uint32, fixed32, float 32-bit values; every other kind a
64-bit value. -/
def CanonNum (k : Kind) (n : Nat) : Prop :=
  match k with
  | .bool => n ≤ 1
  | .int32 | .sint32 | .enum | .sfixed32 => n < 2 ^ 31 ∨ (2 ^ 64 - 2 ^ 31 ≤ n ∧ n < 2 ^ 64)
  | .uint32 | .fixed32 | .float => n < 2 ^ 32
  | _ => n < 2 ^ 64

instance (k : Kind) (n : Nat) : Decidable (CanonNum k n) := by
  unfold CanonNum; cases k <;> infer_instance

theorem CanonNum.lt {k : Kind} {n : Nat} (h : CanonNum k n) : n < 2 ^ 64 := by
  unfold CanonNum at h; cases k <;> simp only at h <;> omega

theorem signExt32_of_canon {n : Nat} (h : n < 2 ^ 31 ∨ (2 ^ 64 - 2 ^ 31 ≤ n ∧ n < 2 ^ 64)) :
    signExt32 n = n := by
  unfold signExt32; simp only; split <;> omega

theorem signExt32_canon (v : Nat) :
    signExt32 v < 2 ^ 31 ∨ (2 ^ 64 - 2 ^ 31 ≤ signExt32 v ∧ signExt32 v < 2 ^ 64) := by
  unfold signExt32; simp only; split <;> omega

theorem signExt32_mod (v : Nat) : signExt32 (v % 2 ^ 32) = signExt32 v := by
  unfold signExt32; simp only [Nat.mod_mod]

theorem wireVarint_lt {k : Kind} {n : Nat} (h : CanonNum k n) : wireVarint k n < 2 ^ 64 := by
  have hn := h.lt
  cases k <;> simp only [wireVarint] <;> try exact hn
  · rw [signExt32_of_canon h]; exact zigzagEnc_lt hn
  · exact zigzagEnc_lt hn

/-- decoding the varint written for a canonical value gives the value back — every varint kind -/
theorem canonVarint_wire {k : Kind} {n : Nat} (hk : k.wireType = 0) (h : CanonNum k n) :
    canonVarint k (wireVarint k n) = n := by
  cases k <;> simp only [Kind.wireType] at hk <;> try omega
  all_goals simp only [canonVarint, wireVarint]
  · -- bool
    have h' : n ≤ 1 := h
    by_cases h0 : n = 0 <;> simp only [h0, if_true, if_false] <;> omega
  · exact signExt32_of_canon h
  · exact signExt32_of_canon h
  · -- sint32
    have hc : n < 2 ^ 31 ∨ (2 ^ 64 - 2 ^ 31 ≤ n ∧ n < 2 ^ 64) := h
    rw [signExt32_of_canon hc]
    have hz : zigzagEnc n % 2 ^ 32 = zigzagEnc n := by
      apply Nat.mod_eq_of_lt; unfold zigzagEnc; split <;> omega
    rw [hz, zigzagDec_enc h.lt, signExt32_of_canon hc]
  · -- uint32
    exact Nat.mod_eq_of_lt h
  · exact zigzagDec_enc h.lt

/-- the converse direction: what the decoder stores is canonical -/
theorem canonVarint_canon {k : Kind} {v : Nat} (hk : k.wireType = 0) (hv : v < 2 ^ 64) :
    CanonNum k (canonVarint k v) := by
  cases k <;> simp only [Kind.wireType] at hk <;> try omega
  all_goals simp only [canonVarint, CanonNum]
  · split <;> omega
  · exact signExt32_canon _
  · exact signExt32_canon _
  · exact signExt32_canon _
  · exact Nat.mod_lt _ (by decide)
  · exact hv
  · exact zigzagDec_lt hv
  · exact hv

theorem canonFixed32_wire {k : Kind} {n : Nat} (hk : k.wireType = 5) (h : CanonNum k n) :
    canonFixed32 k (n % 2 ^ 32) = n := by
  cases k <;> simp only [Kind.wireType] at hk <;> try omega
  all_goals simp only [canonFixed32]
  · rw [signExt32_mod]; exact signExt32_of_canon h
  · rw [Nat.mod_mod]; exact Nat.mod_eq_of_lt h
  · rw [Nat.mod_mod]; exact Nat.mod_eq_of_lt h

theorem canonFixed32_canon {k : Kind} (v : Nat) (hk : k.wireType = 5) : CanonNum k (canonFixed32 k v) := by
  cases k <;> simp only [Kind.wireType] at hk <;> try omega
  all_goals simp only [canonFixed32, CanonNum]
  · exact signExt32_canon _
  · exact Nat.mod_lt _ (by decide)
  · exact Nat.mod_lt _ (by decide)

theorem canonFixed64 {k : Kind} {n : Nat} (h : CanonNum k n) : n % 256 ^ 8 = n := by
  apply Nat.mod_eq_of_lt; have := h.lt; have e : (256:Nat) ^ 8 = 2 ^ 64 := by decide
  omega

end Pb
namespace Spec

/-! ### consumed lengths -/

theorem decVarintAux_len : ∀ (b : List Byte) (i v n : Nat), decVarintAux i b = .ok (v, n) → 1 ≤ n ∧ n ≤ b.length
  | [], i, v, n, h => by simp [decVarintAux] at h
  | x :: r, i, v, n, h => by
    unfold decVarintAux at h
    split at h
    · split at h
      · simp only [Except.ok.injEq, Prod.mk.injEq] at h; simp; omega
      · simp at h
    · split at h
      · simp only [Except.ok.injEq, Prod.mk.injEq] at h; simp; omega
      · split at h
        · rename_i v' n' heq
          have := decVarintAux_len r (i + 1) v' n' heq
          simp only [Except.ok.injEq, Prod.mk.injEq] at h; simp; omega
        · simp at h

theorem decVarint_len {b : List Byte} {v n : Nat} (h : decVarint b = .ok (v, n)) : 1 ≤ n ∧ n ≤ b.length :=
  decVarintAux_len b 0 v n h

theorem decTag_len {b : List Byte} {num typ n : Nat} (h : decTag b = .ok (num, typ, n)) :
    1 ≤ n ∧ n ≤ b.length := by
  unfold decTag at h
  split at h
  · simp at h
  · rename_i v n' heq
    simp only at h
    split at h
    · simp at h
    · split at h
      · simp at h
      · simp only [Except.ok.injEq, Prod.mk.injEq] at h
        have := decVarint_len heq; omega

/-! ### `ConsumeFieldValue` on the non-group wire types -/

theorem consumeFieldValue_varint (num : Nat) (b : List Byte) (depth : Int) :
    consumeFieldValue num 0 b depth = (decVarint b).map (·.2) := by
  simp only [consumeFieldValue, fuelFor, fieldValueLen]

theorem consumeFieldValue_fixed32 (num : Nat) (b : List Byte) (depth : Int) :
    consumeFieldValue num 5 b depth = (decFixed 4 b).map (·.2) := by
  simp only [consumeFieldValue, fuelFor, fieldValueLen]

theorem consumeFieldValue_fixed64 (num : Nat) (b : List Byte) (depth : Int) :
    consumeFieldValue num 1 b depth = (decFixed 8 b).map (·.2) := by
  simp only [consumeFieldValue, fuelFor, fieldValueLen]

theorem consumeFieldValue_bytes (num : Nat) (b : List Byte) (depth : Int) :
    consumeFieldValue num 2 b depth = (decBytes b).map (·.2) := by
  simp only [consumeFieldValue, fuelFor, fieldValueLen]

/-! ### a larger group-nesting budget accepts at least as much (same bytes, same result) -/

theorem fieldValueLen_depth_mono : ∀ (fuel : Nat),
    (∀ num typ b (d d' : Int) n, d ≤ d' → fieldValueLen fuel num typ b d = some (.ok n) →
        fieldValueLen fuel num typ b d' = some (.ok n)) ∧
    (∀ num b (d d' : Int) acc n, d ≤ d' → groupLen fuel num b d acc = some (.ok n) →
        groupLen fuel num b d' acc = some (.ok n))
  | 0 => by constructor <;> intros <;> simp_all [fieldValueLen, groupLen]
  | fuel + 1 => by
    have ih := fieldValueLen_depth_mono fuel
    constructor
    · intro num typ b d d' n hd h
      unfold fieldValueLen at h ⊢
      split at h <;> try exact h
      · rename_i heq; 
        split at h
        · simp at h
        · have : ¬ d' < 0 := by omega
          simp only [this, if_false]
          exact ih.2 _ _ _ _ _ _ hd h
    · intro num b d d' acc n hd h
      unfold groupLen at h ⊢
      split at h
      · exact h
      · rename_i num2 typ2 n2 heq
        simp only at h ⊢
        by_cases h4 : typ2 = 4
        · simp only [h4, if_true] at h ⊢; exact h
        · simp only [h4, if_false] at h ⊢
          split at h
          · simp at h
          · simp at h
          · rename_i m hm
            rw [ih.1 _ _ _ (d - 1) (d' - 1) _ (by omega) hm]
            exact ih.2 _ _ _ _ _ _ hd h

theorem consumeFieldValue_depth_mono {num typ : Nat} {b : List Byte} {d d' : Int} {n : Nat}
    (hd : d ≤ d') (h : consumeFieldValue num typ b d = .ok n) : consumeFieldValue num typ b d' = .ok n := by
  unfold consumeFieldValue at h ⊢
  split at h
  · rename_i r hr
    subst h
    rw [(fieldValueLen_depth_mono _).1 _ _ _ _ _ _ hd hr]
  · simp at h

end Spec
namespace Spec

/-! ### extension locality: a successful parse is unaffected by bytes appended to the buffer -/

theorem decVarintAux_ext : ∀ (b : List Byte) (i : Nat) (r : Nat × Nat) (t : List Byte),
    decVarintAux i b = .ok r → decVarintAux i (b ++ t) = .ok r
  | [], i, r, t, h => by simp [decVarintAux] at h
  | x :: b, i, r, t, h => by
    simp only [List.cons_append]
    unfold decVarintAux at h ⊢
    by_cases h9 : i ≥ 9
    · simp only [h9, if_true] at h ⊢; exact h
    · simp only [h9, if_false] at h ⊢
      by_cases hlt : x.toNat < 128
      · simp only [hlt, if_true] at h ⊢; exact h
      · simp only [hlt, if_false] at h ⊢
        split at h
        · rename_i v n heq
          rw [decVarintAux_ext b (i + 1) (v, n) t heq]; exact h
        · simp at h

theorem decVarint_ext {b : List Byte} {r : Nat × Nat} (t : List Byte) (h : decVarint b = .ok r) :
    decVarint (b ++ t) = .ok r := decVarintAux_ext b 0 r t h

theorem decTag_ext {b : List Byte} {r : Nat × Nat × Nat} (t : List Byte) (h : decTag b = .ok r) :
    decTag (b ++ t) = .ok r := by
  unfold decTag at h ⊢
  split at h
  · simp at h
  · rename_i v n heq
    rw [decVarint_ext t heq]; exact h

theorem decFixed_ext {k : Nat} {b : List Byte} {r : Nat × Nat} (t : List Byte) (h : decFixed k b = .ok r) :
    decFixed k (b ++ t) = .ok r := by
  unfold decFixed at h ⊢
  split at h
  · simp at h
  · rename_i hl
    have : ¬ (b ++ t).length < k := by simp only [List.length_append]; omega
    simp only [this, if_false]
    rw [List.take_append_of_le_length (by omega)]; exact h

theorem decBytes_ext {b : List Byte} {r : List Byte × Nat} (t : List Byte) (h : decBytes b = .ok r) :
    decBytes (b ++ t) = .ok r := by
  unfold decBytes at h ⊢
  split at h
  · simp at h
  · rename_i m n heq
    have hn := decVarint_len heq
    rw [decVarint_ext t heq]
    simp only at h ⊢
    split at h
    · simp at h
    · rename_i hm
      have hd : (b ++ t).drop n = b.drop n ++ t := List.drop_append_of_le_length hn.2
      rw [hd]
      have : ¬ m > (b.drop n ++ t).length := by simp only [List.length_append]; omega
      simp only [this, if_false]
      rw [List.take_append_of_le_length (by omega)]; exact h

theorem decFixed_len {k : Nat} {b : List Byte} {v n : Nat} (h : decFixed k b = .ok (v, n)) : n ≤ b.length := by
  unfold decFixed at h
  split at h
  · simp at h
  · simp only [Except.ok.injEq, Prod.mk.injEq] at h; omega

theorem decBytes_len {b : List Byte} {p : List Byte} {n : Nat} (h : decBytes b = .ok (p, n)) : n ≤ b.length := by
  unfold decBytes at h
  split at h
  · simp at h
  · rename_i m n' heq
    have hn := decVarint_len heq
    split at h
    · simp at h
    · rename_i hm
      simp only [Except.ok.injEq, Prod.mk.injEq] at h
      simp only [List.length_drop] at hm
      omega

/-- consumed lengths never exceed the buffer -/
theorem fieldValueLen_le : ∀ (fuel : Nat),
    (∀ num typ b (d : Int) n, fieldValueLen fuel num typ b d = some (.ok n) → n ≤ b.length) ∧
    (∀ num b (d : Int) acc n, groupLen fuel num b d acc = some (.ok n) → acc ≤ n ∧ n - acc ≤ b.length)
  | 0 => by constructor <;> intros <;> simp_all [fieldValueLen, groupLen]
  | fuel + 1 => by
    have ih := fieldValueLen_le fuel
    constructor
    · intro num typ b d n h
      unfold fieldValueLen at h
      split at h
      · simp only [Option.some.injEq] at h
        cases hd : decVarint b with
        | error e => simp [hd, Except.map] at h
        | ok r => obtain ⟨v, k⟩ := r; simp [hd, Except.map] at h; subst h; exact (decVarint_len hd).2
      · simp only [Option.some.injEq] at h
        cases hd : decFixed 4 b with
        | error e => simp [hd, Except.map] at h
        | ok r => obtain ⟨v, k⟩ := r; simp [hd, Except.map] at h; subst h; exact decFixed_len hd
      · simp only [Option.some.injEq] at h
        cases hd : decFixed 8 b with
        | error e => simp [hd, Except.map] at h
        | ok r => obtain ⟨v, k⟩ := r; simp [hd, Except.map] at h; subst h; exact decFixed_len hd
      · simp only [Option.some.injEq] at h
        cases hd : decBytes b with
        | error e => simp [hd, Except.map] at h
        | ok r => obtain ⟨v, k⟩ := r; simp [hd, Except.map] at h; subst h; exact decBytes_len hd
      · split at h
        · simp at h
        · have := ih.2 _ _ _ _ _ h; omega
      · simp at h
      · simp at h
    · intro num b d acc n h
      unfold groupLen at h
      split at h
      · simp at h
      · rename_i num2 typ2 n2 heq
        have htl := decTag_len heq
        simp only at h
        by_cases h4 : typ2 = 4
        · simp only [h4, if_true] at h
          split at h
          · simp at h
          · simp only [Option.some.injEq, Except.ok.injEq] at h; omega
        · simp only [h4, if_false] at h
          split at h
          · simp at h
          · simp at h
          · rename_i m hm
            have h1 := ih.1 _ _ _ _ _ hm
            have h2 := ih.2 _ _ _ _ _ h
            simp only [List.length_drop] at h1 h2
            omega

/-- more fuel, a larger nesting budget and appended bytes do not change a successful result -/
theorem fieldValueLen_mono : ∀ (fuel : Nat),
    (∀ num typ b (d : Int) n, fieldValueLen fuel num typ b d = some (.ok n) →
        ∀ fuel' (d' : Int) t, fuel ≤ fuel' → d ≤ d' → fieldValueLen fuel' num typ (b ++ t) d' = some (.ok n)) ∧
    (∀ num b (d : Int) acc n, groupLen fuel num b d acc = some (.ok n) →
        ∀ fuel' (d' : Int) t, fuel ≤ fuel' → d ≤ d' → groupLen fuel' num (b ++ t) d' acc = some (.ok n))
  | 0 => by constructor <;> intros <;> simp_all [fieldValueLen, groupLen]
  | fuel + 1 => by
    have ih := fieldValueLen_mono fuel
    constructor
    · intro num typ b d n h fuel' d' t hf hd
      cases fuel' with
      | zero => omega
      | succ fu' =>
      unfold fieldValueLen at h ⊢
      split at h
      · simp only [Option.some.injEq] at h ⊢
        cases hv : decVarint b with
        | error e => simp [hv, Except.map] at h
        | ok r => rw [decVarint_ext t hv]; rw [hv] at h; exact h
      · simp only [Option.some.injEq] at h ⊢
        cases hv : decFixed 4 b with
        | error e => simp [hv, Except.map] at h
        | ok r => rw [decFixed_ext t hv]; rw [hv] at h; exact h
      · simp only [Option.some.injEq] at h ⊢
        cases hv : decFixed 8 b with
        | error e => simp [hv, Except.map] at h
        | ok r => rw [decFixed_ext t hv]; rw [hv] at h; exact h
      · simp only [Option.some.injEq] at h ⊢
        cases hv : decBytes b with
        | error e => simp [hv, Except.map] at h
        | ok r => rw [decBytes_ext t hv]; rw [hv] at h; exact h
      · split at h
        · simp at h
        · have : ¬ d' < 0 := by omega
          simp only [this, if_false]
          exact ih.2 _ _ _ _ _ h fu' d' t (by omega) hd
      · simp at h
      · simp at h
    · intro num b d acc n h fuel' d' t hf hd
      cases fuel' with
      | zero => omega
      | succ fu' =>
      unfold groupLen at h ⊢
      split at h
      · simp at h
      · rename_i num2 typ2 n2 heq
        have htl := decTag_len heq
        rw [decTag_ext t heq]
        simp only at h ⊢
        by_cases h4 : typ2 = 4
        · simp only [h4, if_true] at h ⊢; exact h
        · simp only [h4, if_false] at h ⊢
          split at h
          · simp at h
          · simp at h
          · rename_i m hm
            have hml := (fieldValueLen_le fuel).1 _ _ _ _ _ hm
            have e1 : (b ++ t).drop n2 = b.drop n2 ++ t := List.drop_append_of_le_length htl.2
            rw [e1, ih.1 _ _ _ _ _ hm fu' (d' - 1) t (by omega) (by omega)]
            simp only
            have e2 : (b.drop n2 ++ t).drop m = (b.drop n2).drop m ++ t := List.drop_append_of_le_length hml
            rw [e2]
            exact ih.2 _ _ _ _ _ h fu' d' t (by omega) hd

/-! ### minimal varints do not end in a byte whose low seven bits are zero -/

theorem encVarint_last (n : Nat) (hn : n ≠ 0) :
    ∃ (init : List Byte) (x : Byte), encVarint n = init ++ [x] ∧ x.toNat % 128 ≠ 0 := by
  induction n using Nat.strongRecOn with
  | _ n ih =>
    by_cases h : n < 128
    · refine ⟨[], BitVec.ofNat 8 n, by rw [encVarint_lt h]; rfl, ?_⟩
      simp only [BitVec.toNat_ofNat]; omega
    · obtain ⟨init, x, he, hx⟩ := ih (n / 128) (by omega) (by omega)
      exact ⟨BitVec.ofNat 8 (n % 128 + 128) :: init, x, by rw [encVarint_ge h, he]; rfl, hx⟩

theorem stripZeros7_snoc (init : List Byte) (x : Byte) (hx : x.toNat % 128 ≠ 0) :
    stripZeros7 (init ++ [x]) = init ++ [x] := by
  unfold stripZeros7
  simp only [List.reverse_append, List.reverse_cons, List.reverse_nil, List.nil_append, List.singleton_append]
  rw [List.dropWhile_cons_of_neg (by simpa using hx)]
  simp

end Spec
namespace Spec

/-- decoded varints are 64-bit values -/
theorem decVarintAux_bound : ∀ (b : List Byte) (i v n : Nat), i ≤ 9 → decVarintAux i b = .ok (v, n) →
    v + 2 ^ (7 * i) ≤ 2 ^ 64
  | [], i, v, n, _, h => by simp [decVarintAux] at h
  | x :: b, i, v, n, hi, h => by
    unfold decVarintAux at h
    have hx := x.isLt
    by_cases h9 : i ≥ 9
    · have : i = 9 := by omega
      subst this
      simp only [h9, if_true] at h
      split at h
      · simp only [Except.ok.injEq, Prod.mk.injEq] at h
        have : (2:Nat) ^ (7 * 9) = 9223372036854775808 := by decide
        rw [this] at h ⊢; omega
      · simp at h
    · simp only [h9, if_false] at h
      have hp : 2 ^ (7 * (i + 1)) = 128 * 2 ^ (7 * i) := by
        rw [Nat.mul_add, Nat.pow_add]; simp [Nat.mul_comm]
      have hpb : 2 ^ (7 * (i + 1)) ≤ 2 ^ 63 := Nat.pow_le_pow_right (by omega) (by omega)
      have hpos : 0 < 2 ^ (7 * i) := Nat.pow_pos (by omega)
      generalize 2 ^ (7 * i) = p at *
      split at h
      · rename_i hlt
        simp only [Except.ok.injEq, Prod.mk.injEq] at h
        have : x.toNat * p ≤ 127 * p := Nat.mul_le_mul_right p (by omega)
        omega
      · split at h
        · rename_i v' n' heq
          have ih := decVarintAux_bound b (i + 1) v' n' (by omega) heq
          rw [hp] at ih
          simp only [Except.ok.injEq, Prod.mk.injEq] at h
          have : (x.toNat - 128) * p ≤ 127 * p := Nat.mul_le_mul_right p (by omega)
          omega
        · simp at h

theorem decVarint_lt {b : List Byte} {v n : Nat} (h : decVarint b = .ok (v, n)) : v < 2 ^ 64 := by
  have := decVarintAux_bound b 0 v n (by omega) h
  simp at this; omega

theorem decBytes_lt {b p : List Byte} {n : Nat} (h : decBytes b = .ok (p, n)) : p.length < 2 ^ 64 := by
  unfold decBytes at h
  split at h
  · simp at h
  · rename_i m n' heq
    have := decVarint_lt heq
    split at h
    · simp at h
    · simp only [Except.ok.injEq, Prod.mk.injEq] at h
      rw [← h.1]; simp only [List.length_take]; omega

end Spec
