import PbVerif.Lemmas.Registry
/-
C33 helper lemmas, part 2: one `RegisterFile` step preserves the refinement invariant, and the
prefix walk of `FindDescriptorByName` computes the abstract lookup.
-/
namespace Model.Registry

theorem filter_pkg_eq_nil {a : List FileD} {k : FullName} (h : ¬ (k = [] ∨ k ∈ Spec.pkgNames a)) :
    a.filter (fun g => g.pkg = k) = [] := by
  rw [List.filter_eq_nil_iff]
  intro g hg hk
  simp only [decide_eq_true_eq] at hk
  apply h
  by_cases e : k = []
  · exact Or.inl e
  · exact Or.inr (Spec.mem_pkgNames.mpr ⟨g, hg, e, by rw [hk]; exact List.prefix_refl _⟩)

theorem pkg_mem_prefixes_or_nil (f : FileD) : f.pkg = [] ∨ f.pkg ∈ prefixesDesc f.pkg := by
  by_cases e : f.pkg = []
  · exact Or.inl e
  · exact Or.inr (self_mem_prefixesDesc _ e)

/-- the insertions of a successful `RegisterFile` turn the table of `a` into the table of `a ++ [f]` -/
theorem descs_after_register (a : List FileD) (f : FileD) (D0 : List (FullName × Entry))
    (hD0 : ∀ k, alLookup k D0 = Spec.entry a k) (nd : ((topEntries f).map (·.1)).Nodup)
    (nc : Spec.NoConflict a f) :
    alLookup f.pkg (insertPkgs D0 (prefixesDesc f.pkg)) = some (Entry.pkg (a.filter (fun g => g.pkg = f.pkg))) ∧
    ∀ k, alLookup k (setAll (alSet f.pkg (Entry.pkg (a.filter (fun g => g.pkg = f.pkg) ++ [f]))
          (insertPkgs D0 (prefixesDesc f.pkg))) (topEntries f)) = Spec.entry (a ++ [f]) k := by
  obtain ⟨_, npk, nn⟩ := nc
  have hpkg_nd : f.pkg ∉ Spec.declNames a := by
    intro h
    rcases pkg_mem_prefixes_or_nil f with e | e
    · exact Spec.declNames_ne_nil h e
    · exact npk ⟨_, e, h⟩
  -- the table after the package loop
  have hD1 : ∀ k, k ∉ Spec.declNames a →
      alLookup k (insertPkgs D0 (prefixesDesc f.pkg)) =
        if k = [] ∨ k ∈ Spec.pkgNames a ∨ k ∈ prefixesDesc f.pkg then
          some (Entry.pkg (a.filter (fun g => g.pkg = k))) else none := by
    intro k hk
    rw [alLookup_insertPkgs, hD0, Spec.entry_of_not_decl hk]
    by_cases c : k = [] ∨ k ∈ Spec.pkgNames a
    · have c' : k = [] ∨ k ∈ Spec.pkgNames a ∨ k ∈ prefixesDesc f.pkg := by
        rcases c with c | c
        · exact Or.inl c
        · exact Or.inr (Or.inl c)
      rw [if_pos c, if_pos c']
    · rw [if_neg c]
      simp only
      by_cases c2 : k ∈ prefixesDesc f.pkg
      · have c' : k = [] ∨ k ∈ Spec.pkgNames a ∨ k ∈ prefixesDesc f.pkg := Or.inr (Or.inr c2)
        rw [if_pos c2, if_pos c', filter_pkg_eq_nil c]
      · have c' : ¬ (k = [] ∨ k ∈ Spec.pkgNames a ∨ k ∈ prefixesDesc f.pkg) := by
          rintro (h | h | h)
          · exact c (Or.inl h)
          · exact c (Or.inr h)
          · exact c2 h
        rw [if_neg c2, if_neg c']
  have hfirst : alLookup f.pkg (insertPkgs D0 (prefixesDesc f.pkg)) =
      some (Entry.pkg (a.filter (fun g => g.pkg = f.pkg))) := by
    rw [hD1 _ hpkg_nd]
    have : f.pkg = [] ∨ f.pkg ∈ Spec.pkgNames a ∨ f.pkg ∈ prefixesDesc f.pkg := by
      rcases pkg_mem_prefixes_or_nil f with e | e
      · exact Or.inl e
      · exact Or.inr (Or.inr e)
    simp only [this, if_true]
  refine ⟨hfirst, ?_⟩
  intro k
  rw [Spec.entry_append]
  cases hA : alLookup k (a.flatMap topEntries) with
  | some e =>
    simp only
    have hkd : k ∈ Spec.declNames a := List.mem_map.mpr ⟨(k, e), mem_of_alLookup hA, rfl⟩
    have hkT : k ∉ (topEntries f).map (·.1) := fun h => nn ⟨k, h, Or.inl hkd⟩
    have hkP : k ∉ prefixesDesc f.pkg := fun h => npk ⟨k, h, hkd⟩
    have hne : k ≠ f.pkg := fun e' => hpkg_nd (e' ▸ hkd)
    rw [alLookup_setAll_of_not_mem _ _ hkT, alLookup_alSet_ne hne, alLookup_insertPkgs, hD0,
      Spec.entry_of_decl hA]
  | none =>
    simp only
    have hkd : k ∉ Spec.declNames a := (alLookup_eq_none_iff _ _).mp hA
    cases hT : alLookup k (topEntries f) with
    | some e =>
      simp only
      exact alLookup_setAll_of_mem _ _ nd (mem_of_alLookup hT)
    | none =>
      simp only
      have hkT : k ∉ (topEntries f).map (·.1) := (alLookup_eq_none_iff _ _).mp hT
      rw [alLookup_setAll_of_not_mem _ _ hkT, alLookup_alSet]
      by_cases e : k = f.pkg
      · subst e
        have : f.pkg = [] ∨ f.pkg ∈ Spec.pkgNames a ∨ f.pkg ∈ prefixesDesc f.pkg := by
          rcases pkg_mem_prefixes_or_nil _ with e | e
          · exact Or.inl e
          · exact Or.inr (Or.inr e)
        simp [this]
      · have e' : ¬ f.pkg = k := fun h => e h.symm
        simp only [e, if_false, e', List.append_nil]
        exact hD1 k hkd

theorem pkgConflict_eq {a : List FileD} {D0 : List (FullName × Entry)}
    (hD0 : ∀ k, alLookup k D0 = Spec.entry a k) (ps : List FullName) :
    pkgConflict D0 ps = ps.find? (fun p => decide (p ∈ Spec.declNames a)) := by
  unfold pkgConflict
  apply find?_congr'
  intro p _
  rw [hD0, Bool.eq_iff_iff]
  exact (Spec.entry_decl_iff a p).trans (by simp)

theorem nameConflict_eq_spec {a : List FileD} {D0 : List (FullName × Entry)}
    (hD0 : ∀ k, alLookup k D0 = Spec.entry a k) (f : FileD) :
    nameConflict D0 (topEntries f) =
      ((topEntries f).map (·.1)).reverse.find? (fun k => decide (k ∈ Spec.declNames a ∨ k ∈ Spec.pkgNames a)) := by
  rw [nameConflict_eq]
  apply find?_congr'
  intro k hk
  have hne : k ≠ [] := topEntries_key_ne_nil (List.mem_reverse.mp hk)
  rw [hD0, Bool.eq_iff_iff, Spec.entry_isSome_iff]
  simp [hne]

/-- one `RegisterFile` call: same answer as the abstract registration, and the invariant is kept -/
theorem register_refines {r : Files} {a : List FileD} (f : FileD) (inv : FInv r a) (wf : f.wf = true) :
    (r.register f).2 = (Spec.register a f).2 ∧ FInv (r.register f).1 (Spec.register a f).1 := by
  have hD0 := inv.initDescs_lookup
  have inv0 : FInv { r with descs := initDescs r.descs } a := ⟨Or.inr hD0, inv.byPath, inv.num⟩
  have hpath := byPath_conflict_iff a f.path
  rw [← inv.byPath] at hpath
  unfold Files.register
  simp only [pkgConflict_eq hD0, nameConflict_eq_spec hD0]
  by_cases hp : f.path ∈ Spec.paths a
  · have hs : Spec.register a f = (a, .errPath) := by simp [Spec.register, hp]
    rw [if_pos (hpath.mpr hp), hs]
    exact ⟨rfl, inv0⟩
  rw [if_neg (fun h => hp (hpath.mp h))]
  cases h1 : (prefixesDesc f.pkg).find? (fun p => decide (p ∈ Spec.declNames a)) with
  | some p =>
    have hs : Spec.register a f = (a, .errPkg p) := by unfold Spec.register; rw [if_neg hp]; simp only [h1]
    rw [hs]; exact ⟨rfl, inv0⟩
  | none =>
    simp only
    cases h2 : ((topEntries f).map (·.1)).reverse.find?
        (fun k => decide (k ∈ Spec.declNames a ∨ k ∈ Spec.pkgNames a)) with
    | some k =>
      have hs : Spec.register a f = (a, .errName k) := by unfold Spec.register; rw [if_neg hp]; simp only [h1, h2]
      rw [hs]; exact ⟨rfl, inv0⟩
    | none =>
      have hs : Spec.register a f = (a ++ [f], .regOk) := by unfold Spec.register; rw [if_neg hp]; simp only [h1, h2]
      have nc : Spec.NoConflict a f := (Spec.register_ok_iff a f).mp (by rw [hs])
      obtain ⟨hfirst, hall⟩ := descs_after_register a f _ hD0 ((Spec.FileD.wf_iff f).mp wf).1 nc
      simp only [hfirst, hs]
      refine ⟨trivial, ⟨Or.inr hall, ?_, ?_⟩⟩
      · have hnone : alLookup f.path r.filesByPath = none := by
          rw [inv.byPath, alLookup_eq_none_iff]
          simp only [List.map_map]
          exact hp
        simp only [hnone, Option.getD_none, List.nil_append]
        rw [alSet_of_lookup_none _ hnone, inv.byPath]
        simp
      · simp [inv.num]

end Model.Registry
