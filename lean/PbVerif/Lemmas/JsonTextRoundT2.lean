import PbVerif.Lemmas.JsonTextRoundT1
import PbVerif.Lemmas.JsonTextRoundJ4
/-
Text round trip, part 2: the field loop over everything `marshalMessage` prints, and the mutual induction.
-/
namespace JT
open Pb

variable (C : TCodec) (D : DOpts) (X : SchemaX)

def LSpecT (d : MsgX) (limit : Int) (r : List (Nat × List TV)) (fs : Fields) (k : Nat) : Prop :=
  match lookupN r k, fs.get? k with
  | some tvs, some fv => ∃ fx, d.find k = some fx ∧ BSpec C D X fx limit fv tvs
  | none, none => True
  | _, _ => False

/-- what `assembleT` prints for one field -/
def blockOf (r : List (Nat × List TV)) (fx : FieldX) : List (TName × Bool × TV) :=
  match lookupN r fx.f.num with
  | some vs => vs.map fun v => (fieldName fx, true, v)
  | none => []

theorem assembleT_eq (d : MsgX) (r : List (Nat × List TV)) : assembleT d r = d.fields.flatMap (blockOf r) := rfl

theorem step_field_T (hS : SchemaT X) (mi : Nat) (limit : Int) (fs : Fields)
    (r : List (Nat × List TV)) (hR : ∀ k, LSpecT C D X (X.msg mi) limit r fs k) (hex : OneofExcl (X.msg mi) fs)
    (Pre : List FieldX) (fx : FieldX) (hmem : fx ∈ (X.msg mi).fields) (hfresh : fx.f.num ∉ Pre.map (·.f.num))
    (hPre : ∀ g ∈ Pre, g ∈ (X.msg mi).fields)
    (s : LoopSt) (hI : InvJ X (X.msg mi) fs Pre s) :
    ∃ s', foldE (tdStep C D X mi limit) (blockOf r fx) s = .ok s' ∧ InvJ X (X.msg mi) fs (Pre ++ [fx]) s' := by
  obtain ⟨⟨acc, hm, hsort, hget⟩, hseen, hone⟩ := hI
  have hfind := hS.find_self mi fx hmem
  have hgn : acc.get? fx.f.num = none := by rw [hget]; simp [hfresh]
  have hsn : s.sn.has fx.f.num = false := by
    cases h : s.sn.has fx.f.num with
    | false => rfl
    | true => exact absurd (hseen _ h) hfresh
  have hT : (normFields X (X.msg mi) fs).get? fx.f.num = (fs.get? fx.f.num).map (normFVal X fx) := by
    rw [get?_normFields, hfind]
    cases fs.get? fx.f.num <;> rfl
  have hacc' : ∀ (acc' : Fields) (tv : Option FVal), (normFields X (X.msg mi) fs).get? fx.f.num = tv →
      (∀ k, acc'.get? k = if k = fx.f.num then tv else acc.get? k) →
      ∀ k, acc'.get? k = if k ∈ (Pre ++ [fx]).map (·.f.num) then (normFields X (X.msg mi) fs).get? k else none := by
    intro acc' tv htv h k
    rw [h k]
    by_cases hk : k = fx.f.num
    · subst hk
      simp [htv]
    · simp only [hk, if_false, List.map_append, List.map_cons, List.map_nil, List.mem_append, List.mem_singleton, or_false]
      rw [hget k]
  have hR' := hR fx.f.num
  unfold LSpecT at hR'
  unfold blockOf
  cases hl : lookupN r fx.f.num with
  | some tvs =>
    cases hg : fs.get? fx.f.num with
    | none => simp [hl, hg] at hR'
    | some fv =>
      simp only [hl, hg] at hR'
      obtain ⟨fx', hf', hspec⟩ := hR'
      rw [hfind] at hf'
      cases hf'
      have hso : ∀ o', fx.oneofIdx = some o' → s.so.has o' = false := by
        intro o' ho
        cases h : s.so.has o' with
        | false => rfl
        | true =>
          obtain ⟨g, hgP, hgpop, hgo⟩ := hone o' h
          have := hex g.f.num fx.f.num g fx o' hgpop (by rw [hg]; rfl)
            (hS.find_self mi g (hPre g hgP)) hfind hgo ho
          exact absurd (this ▸ List.mem_map.mpr ⟨g, hgP, rfl⟩) hfresh
      have hno : NoOther (X.msg mi) fx acc := by
        intro o' hfo n fv' hgn' hne' f hf
        rw [pb_find] at hf
        cases hfn : (X.msg mi).find n with
        | none => rw [hfn] at hf; cases hf
        | some g =>
          rw [hfn] at hf
          simp only [Option.map_some, Option.some.injEq] at hf
          subst hf
          intro hgo
          have hgm := (find_mem hfn).1
          have hpop : (fs.get? n).isSome = true := by
            have := hget n
            rw [hgn'] at this
            split at this
            · rw [get?_normFields] at this
              cases hx : fs.get? n with
              | none => rw [hx] at this; cases h2 : (X.msg mi).find n <;> simp [h2] at this
              | some _ => rfl
            · cases this
          have := hex n fx.f.num g fx o' hpop (by rw [hg]; rfl) hfn hfind
            (hS.oneofOK mi g o' hgm hgo) (hS.oneofOK mi fx o' hmem hfo)
          exact hne' this
      simp only
      rw [hspec mi s acc (hS.name_self mi fx hmem) hm hsort hgn hno hsn hso]
      have hpopfx : (fs.get? fx.f.num).isSome = true := by rw [hg]; rfl
      refine ⟨_, rfl, ?_⟩
      unfold afterField
      have haccnew : ∀ k, (acc.set fx.f.num (normFVal X fx fv)).get? k =
          if k ∈ (Pre ++ [fx]).map (·.f.num) then (normFields X (X.msg mi) fs).get? k else none := by
        apply hacc' _ (some (normFVal X fx fv)) (by rw [hT, hg]; rfl)
        intro k
        rw [get?_set]
        by_cases hk : k = fx.f.num
        · simp [hk]
        · have : ¬ fx.f.num = k := fun e => hk e.symm
          simp [hk, this]
      cases hsing : isSingular fx
      · simp only [Bool.false_eq_true, if_false]
        refine ⟨⟨_, rfl, sortedFrom_set _ (Nat.zero_le _) hsort, haccnew⟩, ?_, ?_⟩
        · intro n hn
          simp only [List.map_append, List.map_cons, List.map_nil, List.mem_append, List.mem_singleton]
          exact .inl (hseen n hn)
        · intro o' ho'
          obtain ⟨g, hgP, h1, h2⟩ := hone o' ho'
          exact ⟨g, by simp [hgP], h1, h2⟩
      · simp only [if_true]
        refine ⟨⟨_, rfl, sortedFrom_set _ (Nat.zero_le _) hsort, haccnew⟩, ?_, ?_⟩
        · intro n hn
          rw [Ints.has_set_iff] at hn
          simp only [List.map_append, List.map_cons, List.map_nil, List.mem_append, List.mem_singleton]
          rcases hn with hn | hn
          · exact .inr hn
          · exact .inl (hseen n hn)
        · intro o' ho'
          unfold soAfter at ho'
          cases hoi : fx.oneofIdx with
          | none =>
            simp only [hoi] at ho'
            obtain ⟨g, hgP, h1, h2⟩ := hone o' ho'
            exact ⟨g, by simp [hgP], h1, h2⟩
          | some o2 =>
            simp only [hoi] at ho'
            rw [Ints.has_set_iff] at ho'
            rcases ho' with h | h
            · subst h
              exact ⟨fx, by simp, hpopfx, hoi⟩
            · obtain ⟨g, hgP, h1, h2⟩ := hone o' h
              exact ⟨g, by simp [hgP], h1, h2⟩
  | none =>
    cases hg : fs.get? fx.f.num with
    | some fv => simp [hl, hg] at hR'
    | none =>
      have hTn : (normFields X (X.msg mi) fs).get? fx.f.num = none := by rw [hT, hg]; rfl
      refine ⟨s, rfl, ⟨acc, hm, hsort, ?_⟩, ?_, ?_⟩
      · apply hacc' acc none hTn
        intro k
        by_cases hk : k = fx.f.num
        · subst hk; simp [hgn]
        · simp [hk]
      · intro n hn
        simp only [List.map_append, List.map_cons, List.map_nil, List.mem_append, List.mem_singleton]
        exact .inl (hseen n hn)
      · intro o' ho'
        obtain ⟨g, hgP, h1, h2⟩ := hone o' ho'
        exact ⟨g, by simp [hgP], h1, h2⟩

theorem fold_fields_T (hS : SchemaT X) (mi : Nat) (limit : Int) (fs : Fields)
    (r : List (Nat × List TV)) (hR : ∀ k, LSpecT C D X (X.msg mi) limit r fs k) (hex : OneofExcl (X.msg mi) fs) :
    ∀ (Rest Pre : List FieldX) (s : LoopSt), (X.msg mi).fields = Pre ++ Rest → InvJ X (X.msg mi) fs Pre s →
      ∃ s', foldE (tdStep C D X mi limit) (Rest.flatMap (blockOf r)) s = .ok s' ∧
        InvJ X (X.msg mi) fs (Pre ++ Rest) s'
  | [], Pre, s, _, hI => ⟨s, rfl, by simpa using hI⟩
  | fx :: Rest, Pre, s, hd, hI => by
    have hmem : fx ∈ (X.msg mi).fields := by rw [hd]; simp
    have hnd := hS.nums_nodup mi
    rw [hd] at hnd
    have hfresh : fx.f.num ∉ Pre.map (·.f.num) := by
      simp only [List.map_append, List.map_cons] at hnd
      have := (List.nodup_append.mp hnd).2.2
      intro hin
      exact this _ hin _ (List.mem_cons_self) rfl
    have hPre : ∀ g ∈ Pre, g ∈ (X.msg mi).fields := by
      intro g hg; rw [hd]; simp [hg]
    obtain ⟨s1, h1, hI1⟩ := step_field_T C D X hS mi limit fs r hR hex Pre fx hmem hfresh hPre s hI
    obtain ⟨s2, h2, hI2⟩ := fold_fields_T hS mi limit fs r hR hex Rest (Pre ++ [fx]) s1 (by rw [hd]; simp) hI1
    refine ⟨s2, ?_, by simpa using hI2⟩
    rw [List.flatMap_cons, foldE_append, h1]
    exact h2

theorem tdFields_assembleT (hS : SchemaT X) (mi : Nat) (limit : Int) (fs : Fields)
    (r : List (Nat × List TV)) (hsort : SortedFrom 0 fs) (hR : ∀ k, LSpecT C D X (X.msg mi) limit r fs k)
    (hex : OneofExcl (X.msg mi) fs) :
    tdFields C D X mi limit (TFields.ofList (assembleT (X.msg mi) r)) {} {} Msg.empty =
      .ok (.mk (normFields X (X.msg mi) fs) []) := by
  rw [tdFields_eq_fold, TFields.toList_ofList, assembleT_eq]
  have h0 : InvJ X (X.msg mi) fs [] ⟨{}, {}, Msg.empty⟩ := by
    refine ⟨⟨.nil, rfl, trivial, fun k => by simp [Fields.get?]⟩, ?_, ?_⟩
    · intro n hn; simp [Ints.has_empty] at hn
    · intro o' ho; simp [Ints.has_empty] at ho
  obtain ⟨s', hf, ⟨acc, hm, hs, hget⟩, _, _⟩ :=
    fold_fields_T C D X hS mi limit fs r hR hex (X.msg mi).fields [] _ (by simp) h0
  rw [hf]
  simp only [Except.map, hm]
  congr 2
  apply sorted_ext hs (sortedFrom_normFields X (X.msg mi) hsort)
  intro k
  rw [hget k]
  simp only [List.nil_append]
  split
  · rfl
  · rename_i hk
    rw [get?_normFields]
    cases hfk : (X.msg mi).find k with
    | none => rfl
    | some g =>
      obtain ⟨hgm, hgn⟩ := find_mem hfk
      exact absurd (List.mem_map.mpr ⟨g, hgm, hgn⟩) hk

variable (ok32 : Nat → Bool)

mutual
theorem rtT_msg (hS : SchemaT X) (L : TLaws C ok32) : ∀ (m : Msg) (mi : Nat) (limit : Int),
    RepMsg (wfScalarT ok32) X mi limit m →
      ∃ tfs, tMsg C X mi m = .ok tfs ∧ tdMsgV C D X mi limit (.msg tfs) = .ok (normMsg X mi m)
  | .mk fs unk, mi, limit, ⟨hlim, _, hany, hex, hf⟩ => by
    obtain ⟨r, hr, hspec⟩ := rtT_fields hS L fs mi 0 (limit - 1) hf
    refine ⟨TFields.ofList (assembleT (X.msg mi) r), ?_, ?_⟩
    · simp [tMsg, hany, hr]
    · rw [tdMsgV]
      have h1 : ¬ (limit - 1 < 0) := by omega
      simp only [h1, if_false, hany, Bool.false_eq_true]
      rw [tdFields_assembleT C D X hS mi (limit - 1) fs r (RepFields.sorted hf) hspec hex]
      simp [normMsg]
theorem rtT_fields (hS : SchemaT X) (L : TLaws C ok32) : ∀ (fs : Fields) (mi : Nat) (lb : Nat) (limit : Int),
    RepFields (wfScalarT ok32) X (X.msg mi) lb limit fs →
      ∃ r, tFields C X (X.msg mi) fs = .ok r ∧ ∀ k, LSpecT C D X (X.msg mi) limit r fs k
  | .nil, mi, lb, limit, _ => ⟨[], rfl, fun k => by simp [LSpecT, lookupN, Fields.get?]⟩
  | .cons num fv tl, mi, lb, limit, ⟨_, h2, h3⟩ => by
    cases hf : (X.msg mi).find num with
    | none => rw [hf] at h2; exact h2.elim
    | some fx =>
      rw [hf] at h2
      obtain ⟨hmem, hnum⟩ := find_mem hf
      obtain ⟨tvs, hj, hs⟩ := rtT_fval hS L fv fx limit ⟨mi, hmem⟩ h2
      obtain ⟨r, hr, hspec⟩ := rtT_fields hS L tl mi (num + 1) limit h3
      refine ⟨(num, tvs) :: r, by simp [tFields, hf, hj, hr], ?_⟩
      intro k
      unfold LSpecT
      rw [lookupN_cons]
      simp only [Fields.get?]
      by_cases hk : num = k
      · subst hk
        simp only [if_true]
        exact ⟨fx, hf, hs⟩
      · simp only [hk, if_false]
        exact hspec k
theorem rtT_fval (hS : SchemaT X) (L : TLaws C ok32) : ∀ (fv : FVal) (fx : FieldX) (limit : Int),
    (∃ i, fx ∈ (X.msg i).fields) → RepFVal (wfScalarT ok32) X fx limit fv →
      ∃ tvs, tFVal C X fx fv = .ok tvs ∧ BSpec C D X fx limit fv tvs
  | .one v, fx, limit, hm, ⟨hc1, hc2, hv, hz⟩ => by
    obtain ⟨tv, hj, hs⟩ := rtT_val hS L v fx limit hm hv
    exact ⟨[tv], by simp [tFVal, hj, Except.map], BSpec_one C D X fx limit v tv hc1 hc2 hz hs⟩
  | .many vs, fx, limit, hm, ⟨hc, hn, hv⟩ => by
    obtain ⟨l, hl, hs⟩ := rtT_vals hS L vs fx limit hm hv
    have hnm : fx.f.card ≠ .map := by rw [hc]; decide
    exact ⟨l, by simp [tFVal, hnm, hl], BSpec_many C D X fx limit vs l hc hn hs⟩
theorem rtT_val (hS : SchemaT X) (L : TLaws C ok32) : ∀ (v : Val) (fx : FieldX) (limit : Int),
    (∃ i, fx ∈ (X.msg i).fields) → RepVal (wfScalarT ok32) X fx limit v →
      ∃ tv, tVal C X fx v = .ok tv ∧ VSpecT C D X fx limit v tv
  | .msg m, fx, limit, _, ⟨hk, hm⟩ => by
    obtain ⟨tfs, hj, hd⟩ := rtT_msg hS L m fx.f.sub limit hm
    exact ⟨.msg tfs, by simp [tVal, hk, hj, Except.map], hk, hd⟩
  | .num n, fx, limit, ⟨i, hmem⟩, hw => by
    obtain ⟨t, ht, hd⟩ := tdTok_tScalar C ok32 L fx (.num n) hw (hS.enums i fx hmem).1 (hS.enums i fx hmem).2
    exact ⟨.scalar t, by simp [tVal, ht, Except.map], wfScalarT_notMessage hw, t, rfl, hd⟩
  | .bytes b, fx, limit, ⟨i, hmem⟩, hw => by
    obtain ⟨t, ht, hd⟩ := tdTok_tScalar C ok32 L fx (.bytes b) hw (hS.enums i fx hmem).1 (hS.enums i fx hmem).2
    exact ⟨.scalar t, by simp [tVal, ht, Except.map], wfScalarT_notMessage hw, t, rfl, hd⟩
theorem rtT_vals (hS : SchemaT X) (L : TLaws C ok32) : ∀ (vs : Vals) (fx : FieldX) (limit : Int),
    (∃ i, fx ∈ (X.msg i).fields) → RepVals (wfScalarT ok32) X fx limit vs →
      ∃ l, tVals C X fx vs = .ok l ∧ ESpecT C D X fx limit vs l
  | .nil, _, _, _, _ => ⟨[], rfl, trivial⟩
  | .cons v tl, fx, limit, hm, ⟨hv, ht⟩ => by
    obtain ⟨tv, hj, hs⟩ := rtT_val hS L v fx limit hm hv
    obtain ⟨l, hl, hsl⟩ := rtT_vals hS L tl fx limit hm ht
    exact ⟨tv :: l, by simp [tVals, hj, hl], hs, hsl⟩
end

end JT
