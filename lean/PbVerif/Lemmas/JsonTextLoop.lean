import PbVerif.Lemmas.JsonTextInts
/-
The field loops of protojson / prototext `unmarshalMessage` as folds with state
(`seenNums`, `seenOneofs`, message): one iteration = `dStep` / `tdStep`, the loop = `foldE`.
Generic facts about such folds (first failing element, invariants) and the per-iteration facts about
`seenNums` / `seenOneofs` that the C26 theorems are built from.
-/
namespace JT
open Pb

/-! ### folds that stop at the first error -/

def foldE {σ α ε : Type} (step : σ → α → Except ε σ) : List α → σ → Except ε σ
  | [], s => .ok s
  | a :: l, s =>
    match step s a with
    | .error e => .error e
    | .ok s' => foldE step l s'

theorem foldE_append {σ α ε : Type} (step : σ → α → Except ε σ) : ∀ (l₁ l₂ : List α) (s : σ),
    foldE step (l₁ ++ l₂) s =
      match foldE step l₁ s with
      | .error e => .error e
      | .ok s' => foldE step l₂ s'
  | [], _, _ => rfl
  | a :: l₁, l₂, s => by
    simp only [List.cons_append, foldE]
    cases h : step s a with
    | error e => rfl
    | ok s' => exact foldE_append step l₁ l₂ s'

/-- the loop fails with `e` iff it runs through some prefix and the next element fails with `e` -/
theorem foldE_error_iff {σ α ε : Type} (step : σ → α → Except ε σ) (e : ε) : ∀ (l : List α) (s : σ),
    foldE step l s = .error e ↔
      ∃ pre a post s', l = pre ++ a :: post ∧ foldE step pre s = .ok s' ∧ step s' a = .error e
  | [], s => by
    constructor
    · intro h; simp [foldE] at h
    · rintro ⟨pre, a, post, s', h, _⟩
      simp at h
  | a :: l, s => by
    constructor
    · intro h
      simp only [foldE] at h
      cases hs : step s a with
      | error e' =>
        rw [hs] at h
        refine ⟨[], a, l, s, rfl, rfl, ?_⟩
        rw [hs]; exact h
      | ok s1 =>
        rw [hs] at h
        obtain ⟨pre, b, post, s', hl, hp, hb⟩ := (foldE_error_iff step e l s1).mp h
        refine ⟨a :: pre, b, post, s', by simp [hl], ?_, hb⟩
        simp only [foldE, hs]; exact hp
    · rintro ⟨pre, b, post, s', hl, hp, hb⟩
      cases pre with
      | nil =>
        simp at hl
        obtain ⟨rfl, rfl⟩ := hl
        simp only [foldE] at hp
        cases hp
        simp only [foldE, hb]
      | cons c pre =>
        simp at hl
        obtain ⟨h1, h2⟩ := hl
        subst h2
        subst h1
        simp only [foldE] at hp ⊢
        cases hs : step s a with
        | error e' => rw [hs] at hp; cases hp
        | ok s1 =>
          rw [hs] at hp
          exact (foldE_error_iff step e _ s1).mpr ⟨pre, b, post, s', rfl, hp, hb⟩

/-- a successful run runs successfully through every prefix -/
theorem foldE_ok_prefix {σ α ε : Type} (step : σ → α → Except ε σ) (l₁ l₂ : List α) (s s₂ : σ)
    (h : foldE step (l₁ ++ l₂) s = .ok s₂) : ∃ s₁, foldE step l₁ s = .ok s₁ ∧ foldE step l₂ s₁ = .ok s₂ := by
  rw [foldE_append] at h
  cases h1 : foldE step l₁ s with
  | error e => rw [h1] at h; cases h
  | ok s₁ => rw [h1] at h; exact ⟨s₁, rfl, h⟩

/-- a membership-style invariant: `P s' x` holds after the run iff it held before or some element
of the list establishes it -/
theorem foldE_inv {σ α ε β : Type} (step : σ → α → Except ε σ) (P : σ → β → Prop) (Q : α → β → Prop)
    (hstep : ∀ s a s', step s a = .ok s' → ∀ x, P s' x ↔ P s x ∨ Q a x) :
    ∀ (l : List α) (s s' : σ), foldE step l s = .ok s' → ∀ x, P s' x ↔ P s x ∨ ∃ a ∈ l, Q a x
  | [], s, s', h, x => by
    simp only [foldE] at h
    cases h
    simp
  | a :: l, s, s', h, x => by
    simp only [foldE] at h
    cases hs : step s a with
    | error e => rw [hs] at h; cases h
    | ok s1 =>
      rw [hs] at h
      rw [foldE_inv step P Q hstep l s1 s' h x, hstep s a s1 hs x]
      simp only [List.mem_cons, exists_eq_or_imp]
      constructor
      · rintro ((h | h) | h)
        · exact .inl h
        · exact .inr (.inl h)
        · exact .inr (.inr h)
      · rintro (h | h | h)
        · exact .inl (.inl h)
        · exact .inl (.inr h)
        · exact .inr h

/-! ### JSON -/

def JMembers.toList : JMembers → List (Str × JV)
  | .nil => []
  | .cons k v tl => (k, v) :: tl.toList

theorem JMembers.toList_ofList : ∀ l : List (Str × JV), (JMembers.ofList l).toList = l
  | [] => rfl
  | (k, v) :: tl => by simp [JMembers.ofList, JMembers.toList, JMembers.toList_ofList tl]

structure LoopSt where
  sn : Ints
  so : Ints
  m : Msg

/-- one iteration of the protojson field loop -/
def dStep (C : JCodec) (D : DOpts) (X : SchemaX) (mi : Nat) (limit : Int) (s : LoopSt) (a : Str × JV) : Except Err LoopSt :=
  match dHead D X (X.msg mi) limit a.1 a.2 s.sn s.so with
  | .error e => .error e
  | .skip sn' => .ok { s with sn := sn' }
  | .value fx sn' so' =>
    match dFieldVal C D X mi fx limit s.m a.2 with
    | .error e => .error e
    | .ok m' => .ok ⟨sn', so', m'⟩

/-- `dMembers` is the fold of `dStep` -/
theorem dMembers_eq_fold (C : JCodec) (D : DOpts) (X : SchemaX) (mi : Nat) (limit : Int) :
    ∀ (ms : JMembers) (sn so : Ints) (m : Msg),
      dMembers C D X mi limit ms sn so m =
        (foldE (dStep C D X mi limit) ms.toList ⟨sn, so, m⟩).map (·.m)
  | .nil, sn, so, m => by simp [dMembers, JMembers.toList, foldE, Except.map]
  | .cons key v tl, sn, so, m => by
    rw [dMembers]
    simp only [JMembers.toList, foldE, dStep]
    cases h : dHead D X (X.msg mi) limit key v sn so with
    | error e => simp [Except.map]
    | skip sn' => simp only; exact dMembers_eq_fold C D X mi limit tl sn' so m
    | value fx sn' so' =>
      simp only
      change (match dFieldVal C D X mi fx limit m v with
              | Except.error e => Except.error e
              | Except.ok m' => dMembers C D X mi limit tl sn' so' m') = _
      cases h2 : dFieldVal C D X mi fx limit m v with
      | error e => simp [Except.map]
      | ok m' => simp only; exact dMembers_eq_fold C D X mi limit tl sn' so' m'

/-- the field number a member names (under any accepted name) -/
def jNamed (X : SchemaX) (d : MsgX) (a : Str × JV) : Option Nat :=
  match resolveJSON X d a.1 with
  | .found fx => some fx.f.num
  | _ => none

/-- the oneof a member sets: a resolved singular field inside a oneof whose value is not a skipped null -/
def jSetsOneof (X : SchemaX) (d : MsgX) (a : Str × JV) : Option Nat :=
  match resolveJSON X d a.1 with
  | .found fx =>
    if a.2.isNull && !fx.valueMsg && !fx.nullEnum then none
    else if fx.f.card = .repeated || fx.f.card = .map then none
    else fx.oneofIdx
  | _ => none

theorem dHead_dup_iff (D : DOpts) (X : SchemaX) (d : MsgX) (limit : Int) (key : Str) (v : JV) (sn so : Ints) :
    dHead D X d limit key v sn so = .error .dup ↔
      (∃ fx, resolveJSON X d key = .found fx ∧ sn.has fx.f.num = true) ∨
      (resolveJSON X d key = .unknown ∧ D.discard = true ∧ skipJ limit 0 v = .error .dup) := by
  unfold dHead
  cases h : resolveJSON X d key with
  | badExt => simp
  | unknown =>
    by_cases hd : D.discard = true
    · simp only [hd, if_true]
      cases hs : skipJ limit 0 v with
      | error e => simp [hs]
      | ok _ => simp [hs]
    · simp [hd]
  | found fx =>
    by_cases hh : sn.has fx.f.num = true
    · simp [hh]
    · simp only [hh, if_false]
      have hh' : sn.has fx.f.num = false := by simpa using hh
      by_cases hn : (v.isNull && !fx.valueMsg && !fx.nullEnum) = true
      · simp [hn, hh']
      · simp only [hn, if_false]
        cases hc : fx.f.card <;> simp [hh'] <;> (cases fx.oneofIdx <;> simp <;> split <;> simp)

mutual
/-- `skipJSONValue` reports nothing but the depth error -/
theorem skipJ_err (limit : Int) : ∀ (v : JV) (opn : Nat) (e : Err), skipJ limit opn v = .error e → e = .depth
  | .null, _, _, h | .bool _, _, _, h | .num _, _, _, h | .str _, _, _, h => by simp [skipJ] at h
  | .arr es, opn, e, h => by
    rw [skipJ] at h
    split at h
    · cases h; rfl
    · exact skipJElems_err limit es _ e h
  | .obj ms, opn, e, h => by
    rw [skipJ] at h
    split at h
    · cases h; rfl
    · exact skipJMembers_err limit ms _ e h
theorem skipJElems_err (limit : Int) : ∀ (es : JElems) (opn : Nat) (e : Err), skipJElems limit opn es = .error e → e = .depth
  | .nil, _, _, h => by simp [skipJElems] at h
  | .cons v tl, opn, e, h => by
    rw [skipJElems] at h
    cases hv : skipJ limit opn v with
    | error e' => rw [hv] at h; cases h; exact skipJ_err limit v opn e hv
    | ok _ => rw [hv] at h; exact skipJElems_err limit tl opn e h
theorem skipJMembers_err (limit : Int) : ∀ (ms : JMembers) (opn : Nat) (e : Err), skipJMembers limit opn ms = .error e → e = .depth
  | .nil, _, _, h => by simp [skipJMembers] at h
  | .cons _ v tl, opn, e, h => by
    rw [skipJMembers] at h
    cases hv : skipJ limit opn v with
    | error e' => rw [hv] at h; cases h; exact skipJ_err limit v opn e hv
    | ok _ => rw [hv] at h; exact skipJMembers_err limit tl opn e h
end

/-- what one successful iteration does to `seenNums` -/
theorem dStep_sn (C : JCodec) (D : DOpts) (X : SchemaX) (mi : Nat) (limit : Int) (s s' : LoopSt) (a : Str × JV)
    (h : dStep C D X mi limit s a = .ok s') (n : Nat) :
    s'.sn.has n = true ↔ s.sn.has n = true ∨ jNamed X (X.msg mi) a = some n := by
  unfold dStep dHead at h
  unfold jNamed
  cases hr : resolveJSON X (X.msg mi) a.1 with
  | badExt => simp [hr] at h
  | unknown =>
    simp only [hr] at h
    by_cases hd : D.discard = true
    · simp only [hd, if_true] at h
      cases hs : skipJ limit 0 a.2 with
      | error e => simp [hs] at h
      | ok _ => simp [hs] at h; subst h; simp
    · simp [hd] at h
  | found fx =>
    simp only [hr] at h
    have key : ∀ (so' : Ints) (m' : Msg), s' = ⟨s.sn.set fx.f.num, so', m'⟩ →
        (s'.sn.has n = true ↔ s.sn.has n = true ∨ some fx.f.num = some n) := by
      intro so' m' e
      subst e
      simp only [Ints.has_set_iff, Option.some.injEq]
      constructor
      · rintro (h | h)
        · exact .inr h.symm
        · exact .inl h
      · rintro (h | h)
        · exact .inr h
        · exact .inl h.symm
    by_cases hh : s.sn.has fx.f.num = true
    · simp [hh] at h
    · simp only [hh, if_false] at h
      by_cases hn : (a.2.isNull && !fx.valueMsg && !fx.nullEnum) = true
      · simp only [hn, if_true] at h
        cases h
        exact key s.so s.m rfl
      · simp only [hn, if_false] at h
        cases hc : fx.f.card <;> simp only [hc] at h
        all_goals first
          | (cases hv : dFieldVal C D X mi fx limit s.m a.2 with
             | error e => simp [hv] at h
             | ok m' => simp [hv] at h; exact key _ _ h.symm)
          | (cases ho : fx.oneofIdx with
             | none =>
               simp only [ho] at h
               cases hv : dFieldVal C D X mi fx limit s.m a.2 with
               | error e => simp [hv] at h
               | ok m' => simp [hv] at h; exact key _ _ h.symm
             | some o =>
               simp only [ho] at h
               by_cases hso : s.so.has o = true
               · simp [hso] at h
               · simp only [hso, if_false] at h
                 cases hv : dFieldVal C D X mi fx limit s.m a.2 with
                 | error e => simp [hv] at h
                 | ok m' => simp [hv] at h; exact key _ _ h.symm)

/-- what one successful iteration does to `seenOneofs` -/
theorem dStep_so (C : JCodec) (D : DOpts) (X : SchemaX) (mi : Nat) (limit : Int) (s s' : LoopSt) (a : Str × JV)
    (h : dStep C D X mi limit s a = .ok s') (o : Nat) :
    s'.so.has o = true ↔ s.so.has o = true ∨ jSetsOneof X (X.msg mi) a = some o := by
  unfold dStep dHead at h
  cases hr : resolveJSON X (X.msg mi) a.1 with
  | badExt => simp [hr] at h
  | unknown =>
    have hj : jSetsOneof X (X.msg mi) a = none := by unfold jSetsOneof; rw [hr]
    rw [hj]
    simp only [hr] at h
    by_cases hd : D.discard = true
    · simp only [hd, if_true] at h
      cases hs : skipJ limit 0 a.2 with
      | error e => simp [hs] at h
      | ok _ => simp [hs] at h; subst h; simp
    · simp [hd] at h
  | found fx =>
    have hj : jSetsOneof X (X.msg mi) a =
        if a.2.isNull && !fx.valueMsg && !fx.nullEnum then none
        else if fx.f.card = .repeated || fx.f.card = .map then none
        else fx.oneofIdx := by unfold jSetsOneof; rw [hr]
    rw [hj]
    simp only [hr] at h
    by_cases hh : s.sn.has fx.f.num = true
    · simp [hh] at h
    · simp only [hh, if_false] at h
      by_cases hn : (a.2.isNull && !fx.valueMsg && !fx.nullEnum) = true
      · simp only [hn, if_true] at h
        cases h
        rw [if_pos hn]
        simp
      · rw [if_neg hn]
        simp only [hn, if_false] at h
        -- the state after a successful value decode
        have fin : ∀ (so' : Ints), (∀ m', s' = ⟨s.sn.set fx.f.num, so', m'⟩ → True) → True := fun _ _ => trivial
        cases hc : fx.f.card <;> simp only [hc] at h
        case repeated =>
          cases hv : dFieldVal C D X mi fx limit s.m a.2 with
          | error e => simp [hv] at h
          | ok m' => simp [hv] at h; subst h; simp
        case map =>
          cases hv : dFieldVal C D X mi fx limit s.m a.2 with
          | error e => simp [hv] at h
          | ok m' => simp [hv] at h; subst h; simp
        all_goals
          (cases ho : fx.oneofIdx with
           | none =>
             simp only [ho] at h
             cases hv : dFieldVal C D X mi fx limit s.m a.2 with
             | error e => simp [hv] at h
             | ok m' => simp [hv] at h; subst h; simp
           | some o' =>
             simp only [ho] at h
             by_cases hso : s.so.has o' = true
             · simp [hso] at h
             · simp only [hso, if_false] at h
               cases hv : dFieldVal C D X mi fx limit s.m a.2 with
               | error e => simp [hv] at h
               | ok m' =>
                 simp [hv] at h; subst h
                 simp only [Ints.has_set_iff]
                 simp
                 constructor
                 · rintro (h | h)
                   · exact .inr h.symm
                   · exact .inl h
                 · rintro (h | h)
                   · exact .inr h
                   · exact .inl h.symm)

theorem dMembers_cons (C : JCodec) (D : DOpts) (X : SchemaX) (mi : Nat) (limit : Int) (key : Str) (v : JV) (tl : JMembers)
    (sn so : Ints) (m : Msg) :
    dMembers C D X mi limit (.cons key v tl) sn so m =
      match dHead D X (X.msg mi) limit key v sn so with
      | .error e => .error e
      | .skip sn' => dMembers C D X mi limit tl sn' so m
      | .value fx sn' so' =>
        match dFieldVal C D X mi fx limit m v with
        | .error e => .error e
        | .ok m' => dMembers C D X mi limit tl sn' so' m' := by
  rw [dMembers]
  rfl

theorem dHead_skip_cases (D : DOpts) (X : SchemaX) (d : MsgX) (limit : Int) (key : Str) (v : JV) (sn so sn' : Ints)
    (h : dHead D X d limit key v sn so = .skip sn') :
    (resolveJSON X d key = .unknown ∧ D.discard = true ∧ skipJ limit 0 v = .ok () ∧ sn' = sn) ∨
    (∃ fx, resolveJSON X d key = .found fx ∧ (v.isNull && !fx.valueMsg && !fx.nullEnum) = true ∧ sn' = sn.set fx.f.num) := by
  unfold dHead at h
  cases hr : resolveJSON X d key with
  | badExt => simp [hr] at h
  | unknown =>
    simp only [hr] at h
    split at h
    · rename_i hd
      cases hs : skipJ limit 0 v with
      | error e => simp [hs] at h
      | ok u => simp [hs] at h; exact .inl ⟨rfl, hd, rfl, h.symm⟩
    · cases h
  | found fx =>
    simp only [hr] at h
    split at h
    · cases h
    · split at h
      · rename_i hn
        cases h
        exact .inr ⟨fx, rfl, hn, rfl⟩
      · cases hc : fx.f.card <;> simp only [hc] at h <;> try cases h
        all_goals (cases ho : fx.oneofIdx <;> simp only [ho] at h <;> first | cases h | (split at h <;> cases h))

theorem dHead_value_cases (D : DOpts) (X : SchemaX) (d : MsgX) (limit : Int) (key : Str) (v : JV) (sn so sn' so' : Ints)
    (fx : FieldX) (h : dHead D X d limit key v sn so = .value fx sn' so') :
    resolveJSON X d key = .found fx ∧ (v.isNull && !fx.valueMsg && !fx.nullEnum) = false := by
  unfold dHead at h
  cases hr : resolveJSON X d key with
  | badExt => simp [hr] at h
  | unknown =>
    simp only [hr] at h
    split at h
    · cases hs : skipJ limit 0 v with
      | error e => simp [hs] at h
      | ok u => simp [hs] at h
    · cases h
  | found gx =>
    simp only [hr] at h
    split at h
    · cases h
    · split at h
      · cases h
      · rename_i hn
        have hn' : (v.isNull && !gx.valueMsg && !gx.nullEnum) = false := by simpa using hn
        cases hc : gx.f.card <;> simp only [hc] at h
        case repeated => cases h; exact ⟨rfl, hn'⟩
        case map => cases h; exact ⟨rfl, hn'⟩
        all_goals
          (cases ho : gx.oneofIdx <;> simp only [ho] at h
           · cases h; exact ⟨rfl, hn'⟩
           · split at h
             · cases h
             · cases h; exact ⟨rfl, hn'⟩)
end JT
