import PbVerif.Lemmas.MsgRound
import PbVerif.Lemmas.MsgGroup
import PbVerif.Lemmas.MsgAlgClone
/-
Merge = decode ∘ encode, for an ARBITRARY destination message: decoding the encoding of a
well-formed message `b` into any message `a` yields `mergeMsg a b`.  The wire-level facts about
records are those of the round trip (Lemmas/MsgDec, MsgRound, MsgGroup); what is new here is the
accumulation into a destination that already holds values.
-/
namespace Pb
open Spec

/-! ### field-list algebra -/

theorem Fields.listAt_set (fs : Fields) (n : Nat) (vs : Vals) : (fs.set n (.many vs)).listAt n = vs := by
  unfold Fields.listAt
  rw [Fields.get?_set]
  simp

theorem Vals.append_assoc' (a b c : Vals) : (a.append b).append c = a.append (b.append c) := by
  induction a using Vals.ind with
  | nil => rfl
  | cons x t ih => simp only [Vals.append, ih]

theorem Vals.isNil_append' (a b : Vals) : (a.append b).isNil = (a.isNil && b.isNil) := by
  cases a <;> simp [Vals.append, Vals.isNil]

theorem appendList_appendList (fs : Fields) (n : Nat) (a b : Vals) :
    appendList (appendList fs n a) n b = appendList fs n (a.append b) := by
  rw [appendList_eq fs n a, appendList_eq fs n (a.append b), Vals.isNil_append']
  by_cases ha : a.isNil = true
  · have : a = .nil := (Vals.isNil_iff a).mp ha
    subst this
    simp only [Vals.isNil, if_true, Bool.true_and, Vals.nil_append]
    rw [appendList_eq]
    rfl
  · have ha' : a.isNil = false := by simpa using ha
    simp only [ha', Bool.false_eq_true, if_false, Bool.false_and]
    rw [appendList_eq]
    by_cases hb : b.isNil = true
    · have : b = .nil := (Vals.isNil_iff b).mp hb
      subst this
      simp only [Vals.isNil, if_true]
      have : ∀ x : Vals, x.append .nil = x := by
        intro x
        induction x using Vals.ind with
        | nil => rfl
        | cons y t ih => rw [Vals.append, ih]
      rw [this]
    · have hb' : b.isNil = false := by simpa using hb
      simp only [hb', Bool.false_eq_true, if_false]
      rw [Fields.listAt_set, Fields.set_set, Vals.append_assoc']

/-- the state of a map field after upserts: unchanged when nothing was stored -/
def putState (fs : Fields) (n : Nat) (merged : Vals) : Fields :=
  if merged.isNil then fs else fs.set n (.many merged)

theorem mergeFVal_map_putState (S : Schema) (d : MsgD) (f : Field) (dst : Fields) (vs : Vals)
    (hc : f.card = .map) :
    mergeFVal S d f dst (.many vs) = putState dst f.num (mergeMapVals S f.sub (dst.listAt f.num) vs) := by
  rw [mergeFVal_many_map S d f dst vs hc]; rfl

theorem cloneVals_scalars {S : Schema} {g : Int} {f : Field} (hm : f.kind.isMessage = false) :
    ∀ vs : Vals, cwfVals S g f vs = true → cloneVals S f vs = vs
  | .nil, _ => by rw [cloneVals]
  | .cons v tl, h => by
    simp only [cwfVals, Bool.and_eq_true] at h
    have hs := cwfVal_scalar hm h.1
    rw [cloneVals, cloneVals_scalars hm tl h.2]
    cases v with
    | msg m => simp [wfScalar] at hs
    | num n => rw [cloneVal]; intro m hh; cases hh
    | bytes b => rw [cloneVal]; intro m hh; cases hh

/-! ### `decField` with an arbitrary destination -/

/-- singular message or group field, merging into whatever the destination holds -/
theorem decField_singular_msg_gen {S : Schema} {mi : Nat} {m sub : Msg} {f : Field} {wt : Nat}
    {val p : List Byte} {depth : Int} {dis : Bool} (fuel : Nat)
    (hc1 : f.card ≠ .repeated) (hc2 : f.card ≠ .map) (hmsg : f.kind.isMessage = true)
    (hs : decSubBytes f wt val = some (.ok p)) (hd : ¬ depth - 1 < 0)
    (hdec : decMsg fuel S f.sub (m.fields.subAt f.num) p (depth - 1) dis = .ok sub) :
    decField (fuel + 1) S mi m f wt val depth dis =
      .ok (.mk ((clearFor (S.msg mi) f m.fields).set f.num (.one (.msg sub))) m.unknown) := by
  have hcur : (clearFor (S.msg mi) f m.fields).subAt f.num = m.fields.subAt f.num := by
    unfold clearFor
    split
    · exact subAt_clearOneof _ _ _ _
    · rfl
  rw [← hcur] at hdec
  unfold decField
  cases hc : f.card <;> simp only [hc] at hc1 hc2 ⊢ <;> first
    | contradiction
    | (simp only [hmsg, hs, if_true, hd, if_false]
       conv =>
         lhs
         pattern (decMsg _ _ _ _ _ _ _)
         arg 4
         change (clearFor (S.msg mi) f m.fields).subAt f.num
       rw [hdec]
       rfl)

/-- map field: one entry record, upserted into whatever the destination holds -/
theorem decField_map_gen {S : Schema} {mi : Nat} {m : Msg} {f kf vf : Field} {val body : List Byte}
    {depth : Int} {dis : Bool} {n : Nat} {key value : Val} (fuel : Nat)
    (hc : f.card = .map) (hd : ¬ depth - 1 < 0) (hb : decBytes val = .ok (body, n))
    (hk : (S.msg f.sub).find 1 = some kf) (hv : (S.msg f.sub).find 2 = some vf)
    (he : decEntry fuel S kf vf none (if vf.kind.isMessage then some (.msg Msg.empty) else none) body
      (depth - 1) dis = .ok (some key, some value)) :
    decField (fuel + 1) S mi m f 2 val depth dis =
      .ok (.mk (m.fields.set f.num (.many (mapPut (m.fields.listAt f.num) key
        (Msg.mk (.cons 1 (.one key) (.cons 2 (.one value) .nil)) [])))) m.unknown) := by
  unfold decField
  simp only [hc, hd, if_false, ne_eq, not_true_eq_false, hb, hk, hv, he, Option.getD_some]
  rfl

/-! ### the statement, and the records of one value -/

/-- merge = decode ∘ encode for one source message, at any type, group budget, depth and for ANY
destination -/
def MergeRound (S : Schema) (b : Msg) : Prop :=
  ∀ (mi : Nat) (g depth : Int) (a : Msg), g ≤ defaultRecursionLimit → cwfMsg S mi g b = true →
    pwfMsg S mi b = true → (depthMsg b : Int) ≤ depth + 1 →
    DecOK S mi depth false a (encMsg S mi b) (mergeMsg S mi a b)

/-- wire-level facts about the record of a sub-message value (explicit payload body) -/
theorem val_msg_wire {S : Schema} (hG : GroupScanOK S) {mi : Nat} {f : Field} {g : Int}
    {sub : Msg} (hfind : (S.msg mi).find f.num = some f) (h1 : 1 ≤ f.num) (h2 : f.num ≤ maxValidNumber)
    (hg : g ≤ defaultRecursionLimit) (hwf : cwfVal S g f (.msg sub) = true) :
    ∃ (wt : Nat) (payload : List Byte) (g' : Int), wt < 8 ∧ f.kind.isMessage = true ∧
      encVal S f (.msg sub) = tagBytes f.num wt ++ payload ∧
      (∀ rest, decSubBytes f wt (payload ++ rest) = some (.ok (encMsg S f.sub sub))) ∧
      (∀ rest, consumeFieldValue f.num wt (payload ++ rest) = .ok payload.length) ∧
      (encMsg S f.sub sub).length + 1 ≤ payload.length ∧
      g' ≤ defaultRecursionLimit ∧ cwfMsg S f.sub g' sub = true := by
  have hwf' := hwf
  simp only [cwfVal, Bool.and_eq_true] at hwf
  obtain ⟨hmsg, hwf2⟩ := hwf
  by_cases hgrp : f.kind = .group
  · simp only [hgrp, if_true, Bool.and_eq_true, decide_eq_true_eq] at hwf2
    refine ⟨3, encMsg S f.sub sub ++ tagBytes f.num 4, g - 1, by omega, hmsg, ?_, ?_, ?_, ?_, by omega, hwf2.2⟩
    · simp only [encVal, hgrp, if_true, List.append_assoc]
    · intro rest; exact (hG mi f g sub rest hfind hgrp hg h1 h2 hwf').1
    · intro rest; exact (hG mi f g sub rest hfind hgrp hg h1 h2 hwf').2
    · have := tagBytes_pos f.num 4; simp only [List.length_append]; omega
  · simp only [hgrp, if_false, Bool.and_eq_true, decide_eq_true_eq] at hwf2
    have hlen : (encMsg S f.sub sub).length < 2 ^ 64 := by rw [← C04.size_eq_length]; exact hwf2.2
    refine ⟨2, encVarint (encMsg S f.sub sub).length ++ encMsg S f.sub sub, defaultRecursionLimit, by omega, hmsg,
      ?_, ?_, ?_, ?_, Int.le_refl _, hwf2.1⟩
    · simp only [encVal, hgrp, if_false, List.append_assoc]
    · intro rest; rw [List.append_assoc]; exact decSubBytes_message hgrp hlen rest
    · intro rest
      rw [List.append_assoc, consumeFieldValue_bytes, decBytes_enc' hlen]; simp [Except.map]
    · have := encVarint_length_pos (encMsg S f.sub sub).length; simp only [List.length_append]; omega

theorem pwfVal_msg {S : Schema} {f : Field} {sub : Msg} (h : pwfVal S f (.msg sub) = true) :
    pwfMsg S f.sub sub = true := by rw [pwfVal] at h; exact h

/-- a singular field -/
theorem m_one_ok {S : Schema} (hG : GroupScanOK S) {mi : Nat} {f : Field} {g depth : Int} {v : Val}
    (hfind : (S.msg mi).find f.num = some f) (h1 : 1 ≤ f.num) (h2 : f.num ≤ maxValidNumber)
    (hg : g ≤ defaultRecursionLimit)
    (hc1 : f.card ≠ .repeated) (hc2 : f.card ≠ .map) (hwf : cwfVal S g f v = true)
    (hpw : pwfVal S f v = true)
    {acc : Fields} {u rest : List Byte} {R : Msg}
    (hdepth : (depthVal v : Int) ≤ depth)
    (IH : ∀ sub, v = .msg sub → MergeRound S sub)
    (hrest : DecOK S mi depth false (.mk (mergeFVal S (S.msg mi) f acc (.one v)) u) rest R) :
    DecOK S mi depth false (.mk acc u) (encVal S f v ++ rest) R := by
  by_cases hm : f.kind.isMessage = true
  · cases v with
    | num n => simp [cwfVal, hm] at hwf
    | bytes b => simp [cwfVal, hm] at hwf
    | msg sub =>
      simp only [depthVal] at hdepth
      have hpos := depthMsg_pos sub
      have hd : ¬ depth - 1 < 0 := by omega
      obtain ⟨wt, payload, g', hwt, hmsg, henc, hsub, hcons, hlen, hg', hsubwf⟩ :=
        val_msg_wire hG hfind h1 h2 hg hwf
      rw [henc, List.append_assoc]
      rw [mergeFVal, mergeVal_msg] at hrest
      refine DecOK_known h1 h2 hwt hfind ?_ (hcons rest) hrest
      intro fuel hf
      cases fuel with
      | zero => omega
      | succ fu =>
        have htag := tagBytes_pos f.num wt
        simp only [List.length_append] at hf
        have hdec := IH sub rfl f.sub g' (depth - 1) (acc.subAt f.num) hg' hsubwf (pwfVal_msg hpw) (by omega)
          fu (by omega)
        rw [decField_singular_msg_gen (m := .mk acc u) (mi := mi) fu hc1 hc2 hmsg (hsub rest) hd hdec]
        rfl
  · have hm' : f.kind.isMessage = false := by simpa using hm
    have hs := cwfVal_scalar hm' hwf
    have hkey : v.isKey = true := by cases v <;> simp [wfScalar, Val.isKey] at hs ⊢
    rw [encVal_scalar S f hs, List.append_assoc]
    rw [mergeFVal, mergeVal_scalar S _ f acc v hkey] at hrest
    refine DecOK_known h1 h2 (wireType_lt _) hfind ?_ (consume_scalar hs _ rest _) hrest
    intro fuel hf
    cases fuel with
    | zero => omega
    | succ fu =>
      rw [decField_singular_scalar fu hc1 hc2 hm' (decScalar_enc hs rest)]
      rfl

/-- one element of a repeated field, written as a record of its own -/
theorem m_elem_ok {S : Schema} (hG : GroupScanOK S) {mi : Nat} {f : Field} {g depth : Int} {v : Val}
    (hfind : (S.msg mi).find f.num = some f) (h1 : 1 ≤ f.num) (h2 : f.num ≤ maxValidNumber)
    (hg : g ≤ defaultRecursionLimit)
    (hc : f.card = .repeated) (hwf : cwfVal S g f v = true) (hpw : pwfVal S f v = true)
    {acc : Fields} {u rest : List Byte} {R : Msg}
    (hdepth : (depthVal v : Int) ≤ depth)
    (IH : ∀ sub, v = .msg sub → MergeRound S sub)
    (hrest : DecOK S mi depth false (.mk (appendList acc f.num (.cons (cloneVal S f v) .nil)) u) rest R) :
    DecOK S mi depth false (.mk acc u) (encVal S f v ++ rest) R := by
  by_cases hm : f.kind.isMessage = true
  · cases v with
    | num n => simp [cwfVal, hm] at hwf
    | bytes b => simp [cwfVal, hm] at hwf
    | msg sub =>
      simp only [depthVal] at hdepth
      have hpos := depthMsg_pos sub
      have hd : ¬ depth - 1 < 0 := by omega
      obtain ⟨wt, payload, g', hwt, hmsg, henc, hsub, hcons, hlen, hg', hsubwf⟩ :=
        val_msg_wire hG hfind h1 h2 hg hwf
      rw [henc, List.append_assoc]
      rw [cloneVal] at hrest
      refine DecOK_known h1 h2 hwt hfind ?_ (hcons rest) hrest
      intro fuel hf
      cases fuel with
      | zero => omega
      | succ fu =>
        have htag := tagBytes_pos f.num wt
        simp only [List.length_append] at hf
        have hdec := IH sub rfl f.sub g' (depth - 1) Msg.empty hg' hsubwf (pwfVal_msg hpw) (by omega)
          fu (by omega)
        rw [decField_repeated_msg fu hc hmsg (hsub rest) hd hdec]
        rfl
  · have hm' : f.kind.isMessage = false := by simpa using hm
    have hs := cwfVal_scalar hm' hwf
    have hcl : cloneVal S f v = v := by
      cases v with
      | msg m => simp [wfScalar] at hs
      | num n => rw [cloneVal]; intro m hh; cases hh
      | bytes b => rw [cloneVal]; intro m hh; cases hh
    rw [hcl] at hrest
    rw [encVal_scalar S f hs, List.append_assoc]
    refine DecOK_known h1 h2 (wireType_lt _) hfind ?_ (consume_scalar hs _ rest _) hrest
    intro fuel hf
    cases fuel with
    | zero => omega
    | succ fu =>
      rw [decField_repeated_scalar fu hc hm' (decScalar_enc hs rest)]
      rfl

/-- a repeated field written record by record -/
theorem m_vals_ok {S : Schema} (hG : GroupScanOK S) {mi : Nat} {f : Field} {g depth : Int}
    (hfind : (S.msg mi).find f.num = some f) (h1 : 1 ≤ f.num) (h2 : f.num ≤ maxValidNumber)
    (hg : g ≤ defaultRecursionLimit) (hc : f.card = .repeated)
    {u rest : List Byte} {R : Msg} :
    ∀ (vs : Vals) (acc : Fields), cwfVals S g f vs = true → pwfVals S f vs = true →
      (depthVals vs : Int) ≤ depth →
      (∀ sub, sizeOf sub < sizeOf vs → MergeRound S sub) →
      DecOK S mi depth false (.mk (appendList acc f.num (cloneVals S f vs)) u) rest R →
      DecOK S mi depth false (.mk acc u) (encVals S f vs ++ rest) R
  | .nil, acc, _, _, _, _, hrest => by
    rw [cloneVals] at hrest
    simpa [encVals, appendList, Vals.isNil] using hrest
  | .cons v tl, acc, hwf, hpw, hd, IH, hrest => by
    simp only [cwfVals, Bool.and_eq_true] at hwf
    rw [pwfVals, Bool.and_eq_true] at hpw
    simp only [depthVals] at hd
    simp only [encVals, List.append_assoc]
    apply m_elem_ok hG hfind h1 h2 hg hc hwf.1 hpw.1 (by omega)
    · intro sub hv; subst hv; apply IH; simp; omega
    · apply m_vals_ok hG hfind h1 h2 hg hc tl _ hwf.2 hpw.2 (by omega)
      · intro sub hs; apply IH; simp; omega
      · rw [appendList_appendList]
        rw [cloneVals] at hrest
        exact hrest

/-- a repeated numeric field written as one packed record -/
theorem m_packed_ok {S : Schema} {mi : Nat} {f : Field} {g depth : Int}
    (hfind : (S.msg mi).find f.num = some f) (h1 : 1 ≤ f.num) (h2 : f.num ≤ maxValidNumber)
    (hc : f.card = .repeated) (hnum : f.kind.isNumeric = true)
    {acc : Fields} {u rest : List Byte} {R : Msg}
    {vs : Vals} (hwf : cwfVals S g f vs = true)
    (hsize : sizePacked f.kind vs < 2 ^ 64)
    (hrest : DecOK S mi depth false (.mk (appendList acc f.num (cloneVals S f vs)) u) rest R) :
    DecOK S mi depth false (.mk acc u)
      (tagBytes f.num 2 ++ encVarint (encPacked f.kind vs).length ++ encPacked f.kind vs ++ rest) R := by
  have hlen : (encPacked f.kind vs).length < 2 ^ 64 := by rw [← C04.sizePacked_eq]; exact hsize
  have e : tagBytes f.num 2 ++ encVarint (encPacked f.kind vs).length ++ encPacked f.kind vs ++ rest =
      tagBytes f.num 2 ++ ((encVarint (encPacked f.kind vs).length ++ encPacked f.kind vs) ++ rest) := by
    simp only [List.append_assoc]
  rw [e]
  rw [cloneVals_scalars (isMessage_false_of_numeric hnum) vs hwf] at hrest
  refine DecOK_known h1 h2 (by omega) hfind ?_ ?_ hrest
  · intro fuel hf
    cases fuel with
    | zero => omega
    | succ fu =>
      rw [List.append_assoc]
      rw [decField_packed fu hc hnum (decBytes_enc' hlen rest) (decPacked_enc hnum vs hwf _ (Nat.le_refl _))]
      rfl
  · rw [List.append_assoc, consumeFieldValue_bytes, decBytes_enc' hlen]; simp [Except.map]

/-! ### map fields -/

/-- the deep copy of a map entry `(1 ↦ key, 2 ↦ value)`, as a message of the entry type -/
theorem clone_entry {S : Schema} {ei : Nat} {kf vf : Field} {key value : Val}
    (hk : (S.msg ei).find 1 = some kf) (hv : (S.msg ei).find 2 = some vf)
    (hw : pwfMsg S ei (.mk (.cons 1 (.one key) (.cons 2 (.one value) .nil)) []) = true)
    (hkey : key.isKey = true) :
    clone S ei (.mk (.cons 1 (.one key) (.cons 2 (.one value) .nil)) []) =
      .mk (.cons 1 (.one key) (.cons 2 (cloneFVal S vf (.one value)) .nil)) [] := by
  rw [pwfMsg] at hw
  unfold clone
  rw [Msg.empty, mergeMsg_mk]
  congr 1
  apply Fields.ext_sorted (sorted_mergeFields S _ _ .nil Fields.sorted_nil)
  · unfold Fields.Sorted; simp [Fields.nums]
  · intro j
    rw [get?_cloneFields S _ _ hw j]
    simp only [Fields.get?_cons, Fields.get?_nil]
    by_cases h1 : 1 = j
    · subst h1
      simp only [if_true, hk]
      cases key with
      | msg m => simp [Val.isKey] at hkey
      | num n => rfl
      | bytes b => rfl
    · by_cases h2 : 2 = j
      · subst h2
        simp [hv]
      · simp [h1, h2]

/-- map field: one entry -/
theorem m_entry_ok {S : Schema} (hG : GroupScanOK S) {mi : Nat} {f kf vf : Field} {depth : Int}
    (hfind : (S.msg mi).find f.num = some f) (h1 : 1 ≤ f.num) (h2 : f.num ≤ maxValidNumber)
    (hc : f.card = .map) (hkg : f.kind ≠ .group)
    (hk : (S.msg f.sub).find 1 = some kf) (hv : (S.msg f.sub).find 2 = some vf)
    {X : Fields} {u rest : List Byte} {R : Msg} {key value : Val}
    (hks : wfScalar kf key = true) (hvs : cwfVal S 10000 vf value = true)
    (hsz : sizeMsg S f.sub (.mk (.cons 1 (.one key) (.cons 2 (.one value) .nil)) []) < 2 ^ 64)
    (hpw : pwfMsg S f.sub (.mk (.cons 1 (.one key) (.cons 2 (.one value) .nil)) []) = true)
    (hdepth : (depthVal (.msg (.mk (.cons 1 (.one key) (.cons 2 (.one value) .nil)) [])) : Int) ≤ depth)
    (IH : ∀ sub, value = .msg sub → MergeRound S sub)
    (hrest : DecOK S mi depth false (.mk (X.set f.num (.many (mapPut (X.listAt f.num) key
      (clone S f.sub (.mk (.cons 1 (.one key) (.cons 2 (.one value) .nil)) []))))) u) rest R) :
    DecOK S mi depth false (.mk X u)
      (encVal S f (.msg (.mk (.cons 1 (.one key) (.cons 2 (.one value) .nil)) [])) ++ rest) R := by
  have hkn := MsgD.find_num_eq hk
  have hvn := MsgD.find_num_eq hv
  have hkey : key.isKey = true := by cases key <;> simp [wfScalar, Val.isKey] at hks ⊢
  have hbody : encMsg S f.sub (.mk (.cons 1 (.one key) (.cons 2 (.one value) .nil)) []) =
      encVal S kf key ++ encVal S vf value := by
    simp only [encMsg, encFields, hk, hv, encFVal, List.append_nil]
  have hlenb : (encVal S kf key ++ encVal S vf value).length < 2 ^ 64 := by
    rw [← hbody, ← C04.size_eq_length]; exact hsz
  simp only [depthVal, depthMsg, depthFields, depthFVal] at hdepth
  have hd : ¬ depth - 1 < 0 := by omega
  -- pwf of the value as a value of field `vf`
  have hpwv : pwfFVal S vf (.one value) = true := by
    rw [pwfMsg] at hpw
    obtain ⟨f', hf', hh⟩ := pwfFields_get hpw (n := 2) (fv := .one value) (by simp [Fields.get?_cons])
    rw [hv] at hf'
    cases hf'
    exact hh
  -- the entry loop
  have hent : ∀ fuel, (encVal S kf key ++ encVal S vf value).length + 2 ≤ fuel →
      decEntry fuel S kf vf none (if vf.kind.isMessage then some (.msg Msg.empty) else none)
        (encVal S kf key ++ encVal S vf value) (depth - 1) false =
        .ok (some key, some (cloneVal S vf value)) := by
    rw [encVal_scalar S kf hks, hkn, List.append_assoc]
    apply EntOK_key hks
    by_cases hm : vf.kind.isMessage = true
    · simp only [hm, if_true]
      cases value with
      | num n => simp [cwfVal, hm] at hvs
      | bytes b => simp [cwfVal, hm] at hvs
      | msg sub =>
        have hpos := depthMsg_pos sub
        obtain ⟨wt, payload, g', hwt, hmsg, henc, hsub, hcons, hlen, hg', hsubwf⟩ :=
          val_msg_wire hG (mi := f.sub) (by rw [hvn]; exact hv) (by omega) (by unfold maxValidNumber; omega)
            (by unfold defaultRecursionLimit; omega) hvs
        rw [pwfFVal, Bool.and_eq_true] at hpwv
        have hdec : DecOK S vf.sub (depth - 1 - 1) false Msg.empty (encMsg S vf.sub sub)
            (mergeMsg S vf.sub Msg.empty sub) :=
          IH sub rfl vf.sub g' (depth - 1 - 1) Msg.empty hg' hsubwf (pwfVal_msg hpwv.1)
            (by simp only [depthVal] at hdepth; omega)
        rw [henc, hvn, cloneVal]
        have hd2 : ¬ depth - 1 - 1 < 0 := by simp only [depthVal] at hdepth; omega
        have := EntOK_val_msg (kf := kf) (k := some key) (rest := []) (dis := false) hwt hm (hsub [])
          (hvn ▸ hcons []) hdec hlen hd2 (EntOK_nil S kf vf (depth - 1) false _ _)
        simpa only [List.append_nil] using this
    · have hm' : vf.kind.isMessage = false := by simpa using hm
      simp only [hm', Bool.false_eq_true, if_false]
      have hs := cwfVal_scalar hm' hvs
      rw [encVal_scalar S vf hs, hvn]
      have := EntOK_val_scalar (kf := kf) (k := some key) (v := none) (rest := []) (dis := false) hs
        (EntOK_nil S kf vf (depth - 1) false _ _)
      have hval : cloneVal S vf value = value := by
        cases value with
        | msg m => simp [wfScalar] at hs
        | num n => rw [cloneVal]; intro m hh; cases hh
        | bytes b => rw [cloneVal]; intro m hh; cases hh
      rw [hval]
      simpa only [List.append_nil] using this
  -- the stored entry is the deep copy of the source entry
  have hclone : clone S f.sub (.mk (.cons 1 (.one key) (.cons 2 (.one value) .nil)) []) =
      .mk (.cons 1 (.one key) (.cons 2 (.one (cloneVal S vf value)) .nil)) [] := by
    rw [clone_entry hk hv hpw hkey]
    cases value with
    | msg sub => rw [cloneFVal, cloneVal]; rfl
    | num n => rw [cloneFVal, cloneVal] <;> (intro m hh; cases hh)
    | bytes b => rw [cloneFVal, cloneVal] <;> (intro m hh; cases hh)
  rw [hclone] at hrest
  generalize encVal S kf key ++ encVal S vf value = B at hent hlenb hbody
  have henc : encVal S f (.msg (.mk (.cons 1 (.one key) (.cons 2 (.one value) .nil)) [])) =
      tagBytes f.num 2 ++ (encVarint B.length ++ B) := by
    simp only [encVal, hkg, if_false, hbody, List.append_assoc]
  rw [henc, List.append_assoc]
  refine DecOK_known h1 h2 (by omega) hfind ?_ ?_ hrest
  · intro fuel hf
    cases fuel with
    | zero => omega
    | succ fu =>
      have htag := tagBytes_pos f.num 2
      have hvl := encVarint_length_pos B.length
      simp only [List.length_append] at hf
      rw [List.append_assoc]
      rw [decField_map_gen (m := .mk X u) (mi := mi) fu hc hd (decBytes_enc' hlenb rest) hk hv
        (hent fu (by omega))]
      rfl
  · rw [List.append_assoc, consumeFieldValue_bytes, decBytes_enc' hlenb]; simp [Except.map]

/-- a map field: all entries (at least one) -/
theorem m_entries_ok {S : Schema} (hG : GroupScanOK S) {mi : Nat} {f kf vf : Field} {depth : Int}
    (hfind : (S.msg mi).find f.num = some f) (h1 : 1 ≤ f.num) (h2 : f.num ≤ maxValidNumber)
    (hc : f.card = .map) (hkg : f.kind ≠ .group)
    (hk : (S.msg f.sub).find 1 = some kf) (hv : (S.msg f.sub).find 2 = some vf)
    {u rest : List Byte} {R : Msg} :
    ∀ (tl : Vals) (v : Val) (X : Fields), cwfEntries S f kf vf (.cons v tl) = true →
      pwfEntries S f.sub (.cons v tl) = true →
      (depthVals (.cons v tl) : Int) ≤ depth →
      (∀ sub, sizeOf sub < sizeOf (Vals.cons v tl) → MergeRound S sub) →
      DecOK S mi depth false
        (.mk (X.set f.num (.many (mergeMapVals S f.sub (X.listAt f.num) (.cons v tl)))) u) rest R →
      DecOK S mi depth false (.mk X u) (encVals S f (.cons v tl) ++ rest) R
  | tl, v, X, hwf, hpw, hd, IH, hrest => by
    simp only [cwfEntries, Bool.and_eq_true] at hwf
    obtain ⟨⟨hwe, _⟩, hwt⟩ := hwf
    obtain ⟨key, value, hveq, hks, hvs, hsz⟩ := cwfEntry_inv hwe
    subst hveq
    obtain ⟨e', k', he', hk', _, _, hpwe, hpwtl⟩ := pwfEntries_cons_msg hpw
    cases he'
    have hek : entryKey (.mk (.cons 1 (.one key) (.cons 2 (.one value) .nil)) []) = some key := by
      simp [entryKey, Fields.get?]
    simp only [depthVals] at hd
    rw [mergeMapVals_cons_msg S f.sub _ _ tl key hek] at hrest
    simp only [encVals, List.append_assoc]
    apply m_entry_ok hG hfind h1 h2 hc hkg hk hv hks hvs hsz hpwe (by omega)
    · intro sub hv'; subst hv'; apply IH; simp; omega
    · cases tl with
      | nil =>
        rw [mergeMapVals] at hrest
        simpa [encVals] using hrest
      | cons v2 tl2 =>
        apply m_entries_ok hG hfind h1 h2 hc hkg hk hv tl2 v2 _ hwt hpwtl (by omega)
        · intro sub hs; apply IH; simp at hs ⊢; omega
        · rw [Fields.listAt_set, Fields.set_set]
          exact hrest
termination_by tl => sizeOf tl

/-- all records of one field -/
theorem m_fval_ok {S : Schema} (hG : GroupScanOK S) {mi : Nat} {f : Field} {g depth : Int}
    (hfind : (S.msg mi).find f.num = some f) (h1 : 1 ≤ f.num) (h2 : f.num ≤ maxValidNumber)
    (hg : g ≤ defaultRecursionLimit)
    {acc : Fields} {u rest : List Byte} {R : Msg}
    {fv : FVal} (hwf : cwfFVal S g f fv = true) (hpw : pwfFVal S f fv = true)
    (hdepth : (depthFVal fv : Int) ≤ depth)
    (IH : ∀ sub, sizeOf sub < sizeOf fv → MergeRound S sub)
    (hrest : DecOK S mi depth false (.mk (mergeFVal S (S.msg mi) f acc fv) u) rest R) :
    DecOK S mi depth false (.mk acc u) (encFVal S f fv ++ rest) R := by
  cases fv with
  | one v =>
    simp only [cwfFVal, Bool.and_eq_true, bne_iff_ne, ne_eq, Bool.not_eq_true'] at hwf
    obtain ⟨⟨⟨hc1, hc2⟩, hv⟩, _⟩ := hwf
    rw [pwfFVal, Bool.and_eq_true] at hpw
    simp only [encFVal]
    simp only [depthFVal] at hdepth
    apply m_one_ok hG hfind h1 h2 hg hc1 hc2 hv hpw.1 hdepth
    · intro sub hs; subst hs; apply IH; simp; omega
    · exact hrest
  | many vs =>
    simp only [cwfFVal, Bool.and_eq_true, Bool.not_eq_true'] at hwf
    obtain ⟨hne, hwf⟩ := hwf
    rw [pwfFVal, Bool.and_eq_true] at hpw
    simp only [depthFVal] at hdepth
    have hIH : ∀ sub, sizeOf sub < sizeOf vs → MergeRound S sub := by
      intro sub hs; apply IH; simp; omega
    cases hc : f.card with
    | optional => simp [hc] at hwf
    | implicit => simp [hc] at hwf
    | required => simp [hc] at hwf
    | repeated =>
      simp only [hc, Bool.and_eq_true] at hwf
      obtain ⟨hvs, hpk⟩ := hwf
      have hcm : f.card ≠ .map := by rw [hc]; decide
      have hpvs : pwfVals S f vs = true := by
        have := hpw.2
        simpa only [hcm, if_false] using this
      rw [mergeFVal_many_list S _ f acc vs hcm] at hrest
      simp only [encFVal, hne, Bool.not_false, Bool.and_true]
      by_cases hp : (f.packed && f.kind.isNumeric) = true
      · simp only [hp, if_true] at ⊢
        simp only [Bool.and_eq_true] at hp
        simp only [hp, and_self, if_true, decide_eq_true_eq] at hpk
        exact m_packed_ok hfind h1 h2 hc hp.2 hvs hpk hrest
      · simp only [hp]
        exact m_vals_ok hG hfind h1 h2 hg hc vs acc hvs hpvs hdepth hIH hrest
    | map =>
      simp only [hc, Bool.and_eq_true, beq_iff_eq] at hwf
      obtain ⟨hkm, hwf⟩ := hwf
      have hkg : f.kind ≠ .group := by rw [hkm]; decide
      have hpvs : pwfEntries S f.sub vs = true := by
        have := hpw.2
        simpa only [hc, if_true] using this
      split at hwf
      · rename_i kf vf hk hv
        have hpk : (f.packed && f.kind.isNumeric && !vs.isNil) = false := by
          simp [hkm, Kind.isNumeric]
        simp only [encFVal, hpk, Bool.false_eq_true, if_false]
        cases vs with
        | nil => simp [Vals.isNil] at hne
        | cons v tl =>
          apply m_entries_ok hG hfind h1 h2 hc hkg hk hv tl v acc hwf hpvs hdepth hIH
          rw [mergeFVal_many_map S _ f acc _ hc] at hrest
          obtain ⟨e, k, rfl, hke, _, _, _, _⟩ := pwfEntries_cons_msg hpvs
          have hnn : (mergeMapVals S f.sub (acc.listAt f.num) (.cons (.msg e) tl)).isNil = false := by
            rw [mergeMapVals_cons_msg S _ _ e tl k hke]
            exact mergeMapVals_not_nil S _ tl _ (mapPut_not_nil _ _ _)
          simpa only [hnn, Bool.false_eq_true, if_false] using hrest
      · simp at hwf

/-- the record loop over a field list, merging into any accumulator -/
theorem m_fields_ok {S : Schema} (hG : GroupScanOK S) {mi : Nat} {g depth : Int}
    (hg : g ≤ defaultRecursionLimit) {u rest : List Byte} {R : Msg} :
    ∀ (fs : Fields) (lb : Nat) (acc : Fields), 1 ≤ lb → cwfFields S (S.msg mi) g lb fs = true →
      pwfFields S (S.msg mi) fs = true →
      (depthFields fs : Int) ≤ depth →
      (∀ sub, sizeOf sub < sizeOf fs → MergeRound S sub) →
      DecOK S mi depth false (.mk (mergeFields S (S.msg mi) acc fs) u) rest R →
      DecOK S mi depth false (.mk acc u) (encFields S (S.msg mi) fs ++ rest) R
  | .nil, lb, acc, _, _, _, _, _, hrest => by
    rw [mergeFields_nil] at hrest
    simpa [encFields] using hrest
  | .cons num fv tl, lb, acc, hlb, hwf, hpw, hd, IH, hrest => by
    simp only [cwfFields, Bool.and_eq_true, decide_eq_true_eq] at hwf
    obtain ⟨⟨⟨hl, hmax⟩, hf⟩, htl⟩ := hwf
    rw [pwfFields, Bool.and_eq_true, Bool.and_eq_true, Bool.and_eq_true] at hpw
    cases hfind : (S.msg mi).find num with
    | none => simp [hfind] at hf
    | some f =>
      simp only [hfind, Bool.and_eq_true] at hf
      obtain ⟨hfv, _⟩ := hf
      have hpfv : pwfFVal S f fv = true := by
        have := hpw.1.1.1
        rw [hfind] at this
        exact this
      have hn := MsgD.find_num_eq hfind
      subst hn
      simp only [depthFields] at hd
      simp only [encFields, hfind, List.append_assoc]
      rw [mergeFields_cons, mergeField] at hrest
      simp only [hfind] at hrest
      apply m_fval_ok hG hfind (by omega) hmax hg hfv hpfv (by omega)
      · intro sub hs; apply IH; simp; omega
      · apply m_fields_ok hG hg tl (f.num + 1) _ (by omega) htl hpw.2 (by omega)
        · intro sub hs; apply IH; simp; omega
        · exact hrest

/-- **merge = decode ∘ encode for every source message and every destination** -/
theorem mergeRound_all {S : Schema} (hG : GroupScanOK S) : ∀ (n : Nat) (b : Msg), sizeOf b ≤ n → MergeRound S b
  | 0, b, h => by cases b; simp at h
  | n + 1, .mk fs unk, h => by
    intro mi g depth a hg hwf hpw hd
    cases a with
    | mk dfs du =>
      simp only [cwfMsg, Bool.and_eq_true] at hwf
      rw [pwfMsg] at hpw
      simp only [depthMsg] at hd
      rw [mergeMsg_mk]
      simp only [encMsg]
      apply m_fields_ok hG hg fs 1 dfs (Nat.le_refl _) hwf.1 hpw (by omega)
      · intro sub hs; apply mergeRound_all hG n; simp at h; omega
      · have := unk_loop S mi depth false g hg _ unk (mergeFields S (S.msg mi) dfs fs) du hwf.2
        simpa using this

theorem mergeRound (S : Schema) (b : Msg) : MergeRound S b :=
  mergeRound_all (groupScanOK S) (sizeOf b) b (Nat.le_refl _)

end Pb
