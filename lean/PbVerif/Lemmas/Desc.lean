import PbVerif.Model.Desc
/- Helper lemmas for the descriptor model: the verdict combinators, membership in the built tree. -/
namespace Desc

@[simp] theorem seq_ok_iff (a b : V) : seq a b = .ok () ↔ a = .ok () ∧ b = .ok () := by
  cases a with
  | ok u => cases u; simp [seq]
  | error e => simp [seq]

@[simp] theorem guardV_ok_iff (c : Bool) (r : Rule) : guardV c r = .ok () ↔ c = false := by
  cases c <;> simp [guardV]

theorem seq_error_left {a b : V} {e : Rule} (h : a = .error e) : seq a b = .error e := by
  subst h; rfl

theorem allV_ok_iff {α} (f : α → V) (l : List α) : allV f l = .ok () ↔ ∀ x ∈ l, f x = .ok () := by
  induction l with
  | nil => simp [allV]
  | cons x xs ih => simp [allV, ih]

theorem V_cases (v : V) : v = .ok () ∨ ∃ e, v = .error e := by
  cases v with
  | ok u => cases u; exact Or.inl rfl
  | error e => exact Or.inr ⟨e, rfl⟩

theorem not_ok_iff_error (v : V) : v ≠ .ok () ↔ ∃ e, v = .error e := by
  cases v with
  | ok u => cases u; simp
  | error e => simp

theorem firstErr_ok_iff (l : List (Option Rule)) : firstErr l = .ok () ↔ ∀ x ∈ l, x = none := by
  induction l with
  | nil => simp [firstErr]
  | cons x xs ih =>
    cases x with
    | none => simp [firstErr, ih]
    | some e => simp [firstErr]

/-- `newFile` succeeds exactly when the four phases succeed, and then returns `build`. -/
theorem newFile_ok_iff (env : Env) (p : FileP) (d : FileD) :
    newFile env p = .ok d ↔
      (checkHeader p = .ok () ∧ checkDecls (fileDecls p) [] = .ok () ∧ checkResolve (build env p) = .ok () ∧
        validateFile env (build env p) = .ok ()) ∧ d = build env p := by
  unfold newFile
  rcases V_cases (check env p) with h | ⟨e, h⟩
  · rw [h]
    have h' := h
    simp only [check, seq_ok_iff] at h'
    constructor
    · intro hd; injection hd with hd; exact ⟨h', hd.symm⟩
    · rintro ⟨_, rfl⟩; rfl
  · rw [h]
    constructor
    · intro hd; cases hd
    · rintro ⟨⟨h1, h2, h3, h4⟩, _⟩
      have : check env p = .ok () := by simp [check, h1, h2, h3, h4]
      rw [this] at h; cases h

theorem newFile_error_of_check (env : Env) (p : FileP) (h : check env p ≠ .ok ()) :
    ∃ r, newFile env p = .error r := by
  rcases (not_ok_iff_error _).1 h with ⟨e, he⟩
  exact ⟨e, by simp [newFile, he]⟩

/-! ### the message tree -/

mutual
theorem validateMsg_of_mem (v : VCtx) (m : MessageD) (h : validateMsg v m = .ok ()) :
    ∀ x ∈ flattenMsg m, validateMsg v x = .ok () := by
  cases m with
  | mk p n f fs os nested es xs =>
    intro x hx
    simp only [flattenMsg, List.mem_cons] at hx
    rcases hx with rfl | hx
    · exact h
    · have h' := h
      simp only [validateMsg, seq_ok_iff] at h'
      exact validateMsgs_of_mem v nested h'.2.2.2.2.2.2.2.2.2.2.2.1 x hx
theorem validateMsgs_of_mem (v : VCtx) (ms : MessageDList) (h : validateMsgs v ms = .ok ()) :
    ∀ x ∈ flattenMsgs ms, validateMsg v x = .ok () := by
  cases ms with
  | nil => intro x hx; simp [flattenMsgs] at hx
  | cons m rest =>
    intro x hx
    simp only [validateMsgs, seq_ok_iff] at h
    simp only [flattenMsgs, List.mem_append] at hx
    rcases hx with hx | hx
    · exact validateMsg_of_mem v m h.1 x hx
    · exact validateMsgs_of_mem v rest h.2 x hx
end

end Desc
