import PbVerif.Model.Desc
/- Helper lemmas for the descriptor model: the verdict combinators, membership in the built tree. -/
namespace Desc
open Gen.EditionDefaults

@[simp] theorem seq_ok_iff (a b : V) : seq a b = .ok () ↔ a = .ok () ∧ b = .ok () := by
  cases a with
  | ok u => cases u; simp [seq]
  | error e => simp [seq]

@[simp] theorem guardV_ok_iff (c : Bool) (r : Rule) : guardV c r = .ok () ↔ c = false := by
  cases c <;> simp [guardV]

theorem seq_error_left {a b : V} {e : Rule} (h : a = .error e) : seq a b = .error e := by
  subst h; rfl

theorem allV_ok_iff {α} (f : α → V) (l : List α) : allV f l = .ok () ↔ ∀ x ∈ l, f x = .ok () := by
  induction l with
  | nil => simp [allV]
  | cons x xs ih => simp [allV, ih]

theorem V_cases (v : V) : v = .ok () ∨ ∃ e, v = .error e := by
  cases v with
  | ok u => cases u; exact Or.inl rfl
  | error e => exact Or.inr ⟨e, rfl⟩

theorem not_ok_iff_error (v : V) : v ≠ .ok () ↔ ∃ e, v = .error e := by
  cases v with
  | ok u => cases u; simp
  | error e => simp

theorem firstErr_ok_iff (l : List (Option Rule)) : firstErr l = .ok () ↔ ∀ x ∈ l, x = none := by
  induction l with
  | nil => simp [firstErr]
  | cons x xs ih =>
    cases x with
    | none => simp [firstErr, ih]
    | some e => simp [firstErr]

/-- `newFile` succeeds exactly when the four phases succeed, and then returns `build`. -/
theorem newFile_ok_iff (env : Env) (p : FileP) (d : FileD) :
    newFile env p = .ok d ↔
      (checkHeader p = .ok () ∧ checkDecls (fileDecls p) [] = .ok () ∧ checkResolve (build env p) = .ok () ∧
        validateFile env (build env p) = .ok ()) ∧ d = build env p := by
  unfold newFile
  rcases V_cases (check env p) with h | ⟨e, h⟩
  · rw [h]
    have h' := h
    simp only [check, seq_ok_iff] at h'
    constructor
    · intro hd; injection hd with hd; exact ⟨h', hd.symm⟩
    · rintro ⟨_, rfl⟩; rfl
  · rw [h]
    constructor
    · intro hd; cases hd
    · rintro ⟨⟨h1, h2, h3, h4⟩, _⟩
      have : check env p = .ok () := by simp [check, h1, h2, h3, h4]
      rw [this] at h; cases h

theorem newFile_error_of_check (env : Env) (p : FileP) (h : check env p ≠ .ok ()) :
    ∃ r, newFile env p = .error r := by
  rcases (not_ok_iff_error _).1 h with ⟨e, he⟩
  exact ⟨e, by simp [newFile, he]⟩

/-! ### the message tree -/

mutual
theorem validateMsg_of_mem (v : VCtx) (m : MessageD) (h : validateMsg v m = .ok ()) :
    ∀ x ∈ flattenMsg m, validateMsg v x = .ok () := by
  cases m with
  | mk p n f fs os nested es xs =>
    intro x hx
    simp only [flattenMsg, List.mem_cons] at hx
    rcases hx with rfl | hx
    · exact h
    · have h' := h
      simp only [validateMsg, seq_ok_iff] at h'
      exact validateMsgs_of_mem v nested h'.2.2.2.2.2.2.2.2.2.2.2.1 x hx
theorem validateMsgs_of_mem (v : VCtx) (ms : MessageDList) (h : validateMsgs v ms = .ok ()) :
    ∀ x ∈ flattenMsgs ms, validateMsg v x = .ok () := by
  cases ms with
  | nil => intro x hx; simp [flattenMsgs] at hx
  | cons m rest =>
    intro x hx
    simp only [validateMsgs, seq_ok_iff] at h
    simp only [flattenMsgs, List.mem_append] at hx
    rcases hx with hx | hx
    · exact validateMsg_of_mem v m h.1 x hx
    · exact validateMsgs_of_mem v rest h.2 x hx
end

/-! ### references -/

theorem splitDots_ne_nil (s : Str) : splitDots s ≠ [] := by
  cases s with
  | nil => simp [splitDots]
  | cons c r =>
    simp only [splitDots]
    split
    · simp
    · split <;> simp

theorem not_unknownPrefix_of_valid (full : Str) (h : isValidFullName full = true) :
    unknownPrefix.isPrefixOf full = false := by
  cases full with
  | nil => rfl
  | cons a r1 =>
    cases r1 with
    | nil => simp [unknownPrefix, List.isPrefixOf]
    | cons b rest =>
      by_cases ha : a = 42
      · by_cases hb : b = 46
        · subst ha; subst hb
          exfalso
          simp only [isValidFullName, splitDots] at h
          cases hs : splitDots rest with
          | nil => exact splitDots_ne_nil rest hs
          | cons x xs =>
            simp [hs, isValidName, isLetter] at h
        · simp [unknownPrefix, List.isPrefixOf]; intro _ h46; exact hb h46.symm
      · simp [unknownPrefix, List.isPrefixOf]; intro h42; exact absurd h42.symm ha

/-- what `findDescriptor` finds for a reference is named by that reference -/
theorem findDescriptor_found (c : Ctx) (ref : Str) (t : TargetRef) (h : findDescriptor c ref = .found t) :
    ∃ full, ref = 46 :: full ∧ t.fullName = full ∧ isValidFullName full = true ∧ t.placeholder = false := by
  unfold findDescriptor at h
  split at h
  · rename_i full
    split at h
    · cases h
    · rename_i hv
      simp only [Bool.not_eq_true, Bool.not_eq_false'] at hv
      split at h
      · injection h with h; subst h; exact ⟨full, rfl, rfl, hv, rfl⟩
      · split at h
        · split at h
          · injection h with h; subst h; exact ⟨full, rfl, rfl, hv, rfl⟩
          · cases h
        · cases h
  · split at h <;> cases h

theorem findDescriptor_notFound (c : Ctx) (ref : Str) (h : findDescriptor c ref = .notFound) :
    ∃ full, ref = 46 :: full ∧ isValidFullName full = true := by
  unfold findDescriptor at h
  split at h
  · rename_i full
    split at h
    · cases h
    · rename_i hv
      simp only [Bool.not_eq_true, Bool.not_eq_false'] at hv
      exact ⟨full, rfl, hv⟩
  · split at h <;> cases h

theorem findTyped_ok (c : Ctx) (w : Want) (ref : Str) (t : TargetRef) (h : findTyped c w ref = .ok t) :
    fullNameOf t = ref ∧ ∃ full, ref = 46 :: full := by
  unfold findTyped at h
  split at h
  · cases h
  · cases h
  · rename_i hnf
    obtain ⟨full, rfl, hv⟩ := findDescriptor_notFound c ref hnf
    split at h
    · injection h with h; subst h
      exact ⟨by simp [fullNameOf, refFullName, not_unknownPrefix_of_valid full hv], full, rfl⟩
    · cases h
  · rename_i t' hf
    obtain ⟨full, rfl, hfn, hv, _⟩ := findDescriptor_found c ref t' hf
    split at h
    · injection h with h; subst h; exact ⟨by simp [fullNameOf, hfn, not_unknownPrefix_of_valid full hv], full, rfl⟩
    · injection h with h; subst h; exact ⟨by simp [fullNameOf, hfn, not_unknownPrefix_of_valid full hv], full, rfl⟩
    · cases h

theorem resolveErr_none_split (c : Ctx) (par : GoFeatures) (scope : Str) (me : Bool) (n i : Nat) (p : FieldP)
    (h : (buildField c par scope me n i p).resolveErr = none) :
    (∀ k, p.oneofIndex = some k → 0 ≤ k ∧ k < (n : Int)) ∧
    (∃ t, findTarget c (if (p.type == kMessage && (fieldFeatures par p.features p.packed).isDelimitedEncoded) then kGroup else p.type) (p.typeName.getD []) = .ok t) := by
  simp only [buildField] at h
  constructor
  · intro k hk
    rw [hk] at h
    simp only at h
    by_cases hb : 0 ≤ k ∧ k < (n : Int)
    · exact hb
    · exfalso
      have : (decide (0 ≤ k) && decide (k < (n:Int))) = false := by
        simp only [Bool.and_eq_false_iff, decide_eq_false_iff_not]
        by_cases h0 : 0 ≤ k
        · right; intro h1; exact hb ⟨h0, h1⟩
        · left; exact h0
      simp [this, Option.orElse] at h
  · generalize (if (p.type == kMessage && (fieldFeatures par p.features p.packed).isDelimitedEncoded) = true then kGroup else p.type) = k0 at h ⊢
    cases hft : findTarget c k0 (p.typeName.getD []) with
    | ok t => exact ⟨t, rfl⟩
    | error e =>
      exfalso
      simp only [hft] at h
      cases ho : p.oneofIndex with
      | none => simp [ho, Option.orElse] at h
      | some k =>
        simp only [ho] at h
        split at h <;> simp [Option.orElse] at h

theorem findTarget_ok (c : Ctx) (k : Nat) (ref : Str) (t : Target) (h : findTarget c k ref = .ok t) (hk : k ≠ 0) :
    t.kind = k ∧
    (if k = kEnum then (∃ r, t.enumT = some r ∧ fullNameOf r = ref) ∧ t.messageT = none ∧ ∃ full, ref = 46 :: full
     else if k = kMessage ∨ k = kGroup then (∃ r, t.messageT = some r ∧ fullNameOf r = ref) ∧ t.enumT = none ∧ ∃ full, ref = 46 :: full
     else t.enumT = none ∧ t.messageT = none ∧ ref = []) := by
  unfold findTarget at h
  split at h
  · rename_i he
    simp only [beq_iff_eq] at he
    cases hf : findTyped c .enum ref with
    | error e => simp [hf, Except.map] at h
    | ok r =>
      simp [hf, Except.map] at h; subst h
      simp [he, (findTyped_ok c .enum ref r hf).1, (findTyped_ok c .enum ref r hf).2]
  · rename_i hne
    simp only [beq_iff_eq] at hne
    split at h
    · rename_i hm
      simp only [Bool.or_eq_true, beq_iff_eq] at hm
      cases hf : findTyped c .msg ref with
      | error e => simp [hf, Except.map] at h
      | ok r =>
        simp [hf, Except.map] at h; subst h
        simp [hne, hm, (findTyped_ok c .msg ref r hf).1, (findTyped_ok c .msg ref r hf).2]
    · rename_i hnm
      simp only [Bool.or_eq_true, beq_iff_eq, not_or] at hnm
      split at h
      · rename_i h0; simp only [beq_iff_eq] at h0; exact absurd h0 hk
      · split at h
        · cases h
        · split at h
          · cases h
          · injection h with h; subst h
            rename_i hre _
            simp only [Bool.not_eq_true, Bool.not_eq_false', List.isEmpty_iff] at hre
            simp [hne, hnm.1, hnm.2, hre]

end Desc
