import PbVerif.Lemmas.MsgAlg
/-
Insertion sort on plain lists and its transfer to `Fields.sortBy` / `Vals.sortBy`
(the sorting steps of `detMsg`): sorted permutation, invariance under permutation of the input
for a transitive, asymmetric comparator that is total on the elements that occur.
Core-only.
-/
namespace Pb

variable {α : Type}

def insBy (lt : α → α → Bool) (a : α) : List α → List α
  | [] => [a]
  | x :: t => if lt a x then a :: x :: t else x :: insBy lt a t

def insSort (lt : α → α → Bool) : List α → List α
  | [] => []
  | x :: t => insBy lt x (insSort lt t)

/-- `lt` is transitive -/
def LtTrans (lt : α → α → Bool) : Prop := ∀ a b c, lt a b = true → lt b c = true → lt a c = true
/-- `lt` is irreflexive -/
def LtIrrefl (lt : α → α → Bool) : Prop := ∀ a, lt a a = false
/-- the two elements are comparable -/
def Cmp (lt : α → α → Bool) (a b : α) : Prop := lt a b = true ∨ lt b a = true

theorem lt_asymm {lt : α → α → Bool} (ht : LtTrans lt) (hi : LtIrrefl lt) {a b : α}
    (h : lt a b = true) : lt b a = false := by
  cases h' : lt b a with
  | false => rfl
  | true => have := ht a b a h h'; rw [hi a] at this; cases this

theorem insBy_perm (lt : α → α → Bool) (a : α) (l : List α) : (insBy lt a l).Perm (a :: l) := by
  induction l with
  | nil => exact List.Perm.refl _
  | cons x t ih =>
    rw [insBy]
    split
    · exact List.Perm.refl _
    · exact (List.Perm.cons x ih).trans (List.Perm.swap a x t)

theorem insSort_perm (lt : α → α → Bool) (l : List α) : (insSort lt l).Perm l := by
  induction l with
  | nil => exact List.Perm.refl _
  | cons x t ih => exact (insBy_perm lt x _).trans (List.Perm.cons x ih)

theorem mem_insBy {lt : α → α → Bool} {a b : α} {l : List α} : b ∈ insBy lt a l ↔ b = a ∨ b ∈ l := by
  rw [(insBy_perm lt a l).mem_iff, List.mem_cons]

theorem insBy_sorted {lt : α → α → Bool} (ht : LtTrans lt) (a : α) (l : List α)
    (hs : l.Pairwise (fun x y => lt x y = true)) (hc : ∀ b ∈ l, Cmp lt a b) :
    (insBy lt a l).Pairwise (fun x y => lt x y = true) := by
  induction l with
  | nil => simp [insBy]
  | cons x t ih =>
    rw [List.pairwise_cons] at hs
    rw [insBy]
    split
    · rename_i hax
      rw [List.pairwise_cons, List.pairwise_cons]
      refine ⟨?_, hs⟩
      intro y hy
      rw [List.mem_cons] at hy
      rcases hy with hy | hy
      · subst hy; exact hax
      · exact ht a x y hax (hs.1 y hy)
    · rename_i hax
      have hxa : lt x a = true := by
        rcases hc x (List.mem_cons_self ..) with h | h
        · exact (hax h).elim
        · exact h
      rw [List.pairwise_cons]
      refine ⟨?_, ih hs.2 (fun b hb => hc b (List.mem_cons_of_mem _ hb))⟩
      intro y hy
      rw [mem_insBy] at hy
      rcases hy with hy | hy
      · subst hy; exact hxa
      · exact hs.1 y hy

/-- insertion sort returns a strictly sorted list when all elements are pairwise comparable -/
theorem insSort_sorted {lt : α → α → Bool} (ht : LtTrans lt) (l : List α)
    (hc : l.Pairwise (Cmp lt)) : (insSort lt l).Pairwise (fun x y => lt x y = true) := by
  induction l with
  | nil => simp [insSort]
  | cons x t ih =>
    rw [List.pairwise_cons] at hc
    rw [insSort]
    refine insBy_sorted ht x _ (ih hc.2) (fun b hb => hc.1 b ?_)
    exact (insSort_perm lt t).mem_iff.mp hb

theorem insBy_comm {lt : α → α → Bool} (ht : LtTrans lt) (hi : LtIrrefl lt) (a b : α) (l : List α)
    (hab : Cmp lt a b) : insBy lt a (insBy lt b l) = insBy lt b (insBy lt a l) := by
  induction l with
  | nil =>
    rcases hab with h | h
    · simp [insBy, h, lt_asymm ht hi h]
    · simp [insBy, h, lt_asymm ht hi h]
  | cons x t ih =>
    rcases hab with h | h
    · have h' := lt_asymm ht hi h
      by_cases hbx : lt b x = true
      · have hax := ht a b x h hbx
        simp [insBy, hbx, hax, h, h']
      · by_cases hax : lt a x = true
        · simp [insBy, hbx, hax, h']
        · simp [insBy, hbx, hax, ih]
    · have h' := lt_asymm ht hi h
      by_cases hax : lt a x = true
      · have hbx := ht b a x h hax
        simp [insBy, hbx, hax, h, h']
      · by_cases hbx : lt b x = true
        · simp [insBy, hbx, hax, h']
        · simp [insBy, hbx, hax, ih]

theorem cmp_symm {lt : α → α → Bool} {a b : α} (h : Cmp lt a b) : Cmp lt b a := Or.symm h

/-- the result of insertion sort does not depend on the order of the input, as long as the
elements are pairwise comparable under a transitive irreflexive `lt` -/
theorem insSort_perm_eq {lt : α → α → Bool} (ht : LtTrans lt) (hi : LtIrrefl lt) {l₁ l₂ : List α}
    (hp : l₁.Perm l₂) (hc : l₁.Pairwise (Cmp lt)) : insSort lt l₁ = insSort lt l₂ := by
  induction hp with
  | nil => rfl
  | cons x _ ih =>
    rw [List.pairwise_cons] at hc
    simp only [insSort, ih hc.2]
  | swap x y l =>
    rw [List.pairwise_cons] at hc
    simp only [insSort]
    exact insBy_comm ht hi y x _ (hc.1 x (List.mem_cons_self ..))
  | trans h1 _ ih1 ih2 =>
    exact (ih1 hc).trans (ih2 ((h1.pairwise_iff (fun h => cmp_symm h)).mp hc))

/-- sorting a strictly sorted list is the identity -/
theorem insSort_of_sorted {lt : α → α → Bool} (l : List α)
    (hs : l.Pairwise (fun x y => lt x y = true)) : insSort lt l = l := by
  induction l with
  | nil => rfl
  | cons x t ih =>
    rw [List.pairwise_cons] at hs
    rw [insSort, ih hs.2]
    cases t with
    | nil => rfl
    | cons y t' => simp [insBy, hs.1 y (List.mem_cons_self ..)]

/-- a strictly sorted permutation is unique -/
theorem sorted_perm_unique {lt : α → α → Bool} (ht : LtTrans lt) (hi : LtIrrefl lt) {l₁ l₂ : List α}
    (h1 : l₁.Pairwise (fun x y => lt x y = true)) (h2 : l₂.Pairwise (fun x y => lt x y = true))
    (hp : l₁.Perm l₂) : l₁ = l₂ :=
  List.Perm.eq_of_pairwise
    (fun a b _ _ hab hba => by rw [lt_asymm ht hi hab] at hba; cases hba) h1 h2 hp

/-! ### transfer to `Fields` and `Vals` -/

theorem Fields.toList_inj : ∀ {xs ys : Fields}, xs.toList = ys.toList → xs = ys
  | .nil, .nil, _ => rfl
  | .nil, .cons _ _ _, h => by simp [Fields.toList] at h
  | .cons _ _ _, .nil, h => by simp [Fields.toList] at h
  | .cons n x xs, .cons m y ys, h => by
    simp only [Fields.toList, List.cons.injEq, Prod.mk.injEq] at h
    obtain ⟨⟨h1, h2⟩, h3⟩ := h
    rw [h1, h2, Fields.toList_inj h3]

theorem Vals.toList_inj : ∀ {xs ys : Vals}, xs.toList = ys.toList → xs = ys
  | .nil, .nil, _ => rfl
  | .nil, .cons _ _, h => by simp [Vals.toList] at h
  | .cons _ _, .nil, h => by simp [Vals.toList] at h
  | .cons x xs, .cons y ys, h => by
    simp only [Vals.toList, List.cons.injEq] at h
    rw [h.1, Vals.toList_inj h.2]

/-- comparator on `(number, value)` pairs induced by a comparator on field numbers -/
def fstLt (less : Nat → Nat → Bool) (a b : Nat × FVal) : Bool := less a.1 b.1

theorem Fields.toList_insertBy (less : Nat → Nat → Bool) (n : Nat) (x : FVal) (fs : Fields) :
    (Fields.insertBy less n x fs).toList = insBy (fstLt less) (n, x) fs.toList := by
  induction fs using Fields.ind with
  | nil => rfl
  | cons m y tl ih =>
    simp only [Fields.insertBy, Fields.toList, insBy, fstLt]
    by_cases h : less n m = true
    · simp only [h, if_true, Fields.toList]
    · simp only [h, Bool.false_eq_true, if_false, Fields.toList, ih]

theorem Fields.toList_sortBy (less : Nat → Nat → Bool) (fs : Fields) :
    (Fields.sortBy less fs).toList = insSort (fstLt less) fs.toList := by
  induction fs using Fields.ind with
  | nil => rfl
  | cons m y tl ih => simp only [Fields.sortBy, Fields.toList_insertBy, ih, Fields.toList, insSort]

theorem Vals.toList_insertBy (less : Val → Val → Bool) (v : Val) (vs : Vals) :
    (Vals.insertBy less v vs).toList = insBy less v vs.toList := by
  induction vs using Vals.ind with
  | nil => rfl
  | cons y tl ih =>
    simp only [Vals.insertBy, Vals.toList, insBy]
    by_cases h : less v y = true
    · simp only [h, if_true, Vals.toList]
    · simp only [h, Bool.false_eq_true, if_false, Vals.toList, ih]

theorem Vals.toList_sortBy (less : Val → Val → Bool) (vs : Vals) :
    (Vals.sortBy less vs).toList = insSort less vs.toList := by
  induction vs using Vals.ind with
  | nil => rfl
  | cons y tl ih => simp only [Vals.sortBy, Vals.toList_insertBy, ih, Vals.toList, insSort]

theorem Fields.nums_eq_map (fs : Fields) : fs.nums = fs.toList.map (·.1) := by
  induction fs using Fields.ind with
  | nil => rfl
  | cons m y tl ih => simp [Fields.nums, Fields.toList, ih]

/-! ### the comparators -/

/-- lexicographic order on quadruples -/
def lex4 (x y : Nat × Nat × Nat × Nat) : Bool :=
  x.1 < y.1 || (x.1 == y.1 && (x.2.1 < y.2.1 || (x.2.1 == y.2.1 &&
    (x.2.2.1 < y.2.2.1 || (x.2.2.1 == y.2.2.1 && x.2.2.2 < y.2.2.2)))))

theorem legacyLess_eq (d : MsgD) (a b : Nat) : legacyLess d a b = lex4 (legacyKey d a) (legacyKey d b) := rfl

theorem legacyKey_num (d : MsgD) (a : Nat) : (legacyKey d a).2.2.2 = a := by
  unfold legacyKey
  split <;> rfl

theorem legacyLess_irrefl (d : MsgD) : LtIrrefl (legacyLess d) := by
  intro a
  rw [legacyLess_eq]
  simp [lex4]

theorem legacyLess_trans (d : MsgD) : LtTrans (legacyLess d) := by
  intro a b c
  simp only [legacyLess_eq]
  generalize legacyKey d a = x
  generalize legacyKey d b = y
  generalize legacyKey d c = z
  simp only [lex4, Bool.or_eq_true, Bool.and_eq_true, decide_eq_true_eq, beq_iff_eq]
  omega

/-- `LegacyFieldOrder` is total on distinct field numbers -/
theorem legacyLess_total (d : MsgD) (a b : Nat) (h : a ≠ b) : Cmp (legacyLess d) a b := by
  unfold Cmp
  simp only [legacyLess_eq]
  have ha := legacyKey_num d a
  have hb := legacyKey_num d b
  revert ha hb
  generalize legacyKey d a = x
  generalize legacyKey d b = y
  intro ha hb
  simp only [lex4, Bool.or_eq_true, Bool.and_eq_true, decide_eq_true_eq, beq_iff_eq]
  omega

/-! `GenericKeyOrder` -/

theorem bytesLess_irrefl : ∀ a : List Spec.Byte, bytesLess a a = false
  | [] => rfl
  | x :: t => by simp [bytesLess, bytesLess_irrefl t]

theorem bytesLess_trans : ∀ a b c : List Spec.Byte,
    bytesLess a b = true → bytesLess b c = true → bytesLess a c = true
  | [], [], _, h, _ => by simp [bytesLess] at h
  | [], _ :: _, [], _, h => by simp [bytesLess] at h
  | [], _ :: _, _ :: _, _, _ => rfl
  | _ :: _, [], _, h, _ => by simp [bytesLess] at h
  | _ :: _, _ :: _, [], _, h => by simp [bytesLess] at h
  | x :: a, y :: b, z :: c, h1, h2 => by
    simp only [bytesLess, Bool.or_eq_true, Bool.and_eq_true, decide_eq_true_eq, beq_iff_eq] at *
    rcases h1 with h1 | ⟨e1, h1⟩
    · rcases h2 with h2 | ⟨e2, h2⟩
      · left; omega
      · left; omega
    · rcases h2 with h2 | ⟨e2, h2⟩
      · left; omega
      · right; exact ⟨by omega, bytesLess_trans a b c h1 h2⟩

theorem bytesLess_total : ∀ a b : List Spec.Byte, a ≠ b → bytesLess a b = true ∨ bytesLess b a = true
  | [], [], h => (h rfl).elim
  | [], _ :: _, _ => Or.inl rfl
  | _ :: _, [], _ => Or.inr rfl
  | x :: a, y :: b, h => by
    simp only [bytesLess, Bool.or_eq_true, Bool.and_eq_true, decide_eq_true_eq, beq_iff_eq]
    by_cases hxy : x.toNat = y.toNat
    · have hx : x = y := BitVec.eq_of_toNat_eq hxy
      subst hx
      have hab : a ≠ b := fun e => h (by rw [e])
      rcases bytesLess_total a b hab with h' | h'
      · exact Or.inl (Or.inr ⟨rfl, h'⟩)
      · exact Or.inr (Or.inr ⟨rfl, h'⟩)
    · omega

theorem keyLess_num (k : Kind) (a b : Nat) : keyLess k (.num a) (.num b) =
    if (k = .int32 ∨ k = .int64 ∨ k = .sint32 ∨ k = .sint64 ∨ k = .sfixed32 ∨ k = .sfixed64)
    then decide (signed64 a < signed64 b) else decide (a < b) := by
  cases k <;> simp [keyLess]

theorem keyLess_irrefl (k : Kind) : LtIrrefl (keyLess k) := by
  intro a
  cases a with
  | num n => rw [keyLess_num]; split <;> simp
  | bytes b => simp [keyLess, bytesLess_irrefl]
  | msg m => simp [keyLess]

theorem keyLess_trans (k : Kind) : LtTrans (keyLess k) := by
  intro a b c h1 h2
  cases a with
  | msg m => simp [keyLess] at h1
  | num x =>
    cases b with
    | msg m => simp [keyLess] at h1
    | bytes y => simp [keyLess] at h1
    | num y =>
      cases c with
      | msg m => simp [keyLess] at h2
      | bytes z => simp [keyLess] at h2
      | num z =>
        rw [keyLess_num] at *
        split at h1
        · rename_i hk
          simp only [hk, if_true, decide_eq_true_eq] at *; omega
        · rename_i hk
          simp only [hk, if_false, decide_eq_true_eq] at *; omega
  | bytes x =>
    cases b with
    | msg m => simp [keyLess] at h1
    | num y => simp [keyLess] at h1
    | bytes y =>
      cases c with
      | msg m => simp [keyLess] at h2
      | num z => simp [keyLess] at h2
      | bytes z =>
        simp only [keyLess] at *
        exact bytesLess_trans _ _ _ h1 h2

/-- canonical map key of kind `k`: a byte string for string keys, a 64-bit pattern otherwise -/
def KeyCanon (k : Kind) : Val → Prop
  | .num n => k ≠ .string ∧ n < 2 ^ 64
  | .bytes _ => k = .string
  | .msg _ => False

theorem signed64_inj {a b : Nat} (ha : a < 2 ^ 64) (hb : b < 2 ^ 64) (h : signed64 a = signed64 b) :
    a = b := by
  unfold signed64 at h
  split at h <;> split at h <;> omega

/-- `GenericKeyOrder` is total on distinct canonical keys of one kind -/
theorem keyLess_total (k : Kind) (a b : Val) (ha : KeyCanon k a) (hb : KeyCanon k b) (h : a ≠ b) :
    Cmp (keyLess k) a b := by
  unfold Cmp
  cases a with
  | msg m => exact ha.elim
  | num x =>
    cases b with
    | msg m => exact hb.elim
    | bytes y => exact (ha.1 hb).elim
    | num y =>
      have hxy : x ≠ y := fun e => h (by rw [e])
      rw [keyLess_num, keyLess_num]
      split
      · have : signed64 x ≠ signed64 y := fun e => hxy (signed64_inj ha.2 hb.2 e)
        simp only [decide_eq_true_eq]; omega
      · simp only [decide_eq_true_eq]; omega
  | bytes x =>
    cases b with
    | msg m => exact hb.elim
    | num y => exact (hb.1 ha).elim
    | bytes y =>
      simp only [keyLess]
      exact bytesLess_total x y (fun e => h (by rw [e]))

theorem entryLess_irrefl (k : Kind) : LtIrrefl (entryLess k) := by
  intro a
  unfold entryLess
  split
  · split
    · rename_i h1 h2; rw [h1] at h2; cases h2; exact keyLess_irrefl k _
    · rfl
  · rfl

theorem entryLess_iff (k : Kind) (a b : Val) : entryLess k a b = true ↔
    ∃ ea eb ka kb, a = .msg ea ∧ b = .msg eb ∧ entryKey ea = some ka ∧ entryKey eb = some kb ∧
      keyLess k ka kb = true := by
  unfold entryLess
  split
  · rename_i ea eb
    split
    · rename_i ka kb h1 h2
      constructor
      · intro h; exact ⟨ea, eb, ka, kb, rfl, rfl, h1, h2, h⟩
      · rintro ⟨ea', eb', ka', kb', e1, e2, h1', h2', h⟩
        cases e1; cases e2
        rw [h1] at h1'; rw [h2] at h2'
        cases h1'; cases h2'
        exact h
    · rename_i hn
      constructor
      · intro h; cases h
      · rintro ⟨ea', eb', ka', kb', e1, e2, h1', h2', h⟩
        cases e1; cases e2
        exact (hn ka' kb' h1' h2').elim
  · rename_i hn
    constructor
    · intro h; cases h
    · rintro ⟨ea', eb', ka', kb', e1, e2, _⟩
      exact (hn ea' eb' e1 e2).elim

theorem entryLess_trans (k : Kind) : LtTrans (entryLess k) := by
  intro a b c h1 h2
  rw [entryLess_iff] at *
  obtain ⟨ea, eb, ka, kb, rfl, rfl, ha, hb, h1⟩ := h1
  obtain ⟨eb', ec, kb', kc, e, rfl, hb', hc, h2⟩ := h2
  cases e
  rw [hb] at hb'; cases hb'
  exact ⟨ea, ec, ka, kc, rfl, rfl, ha, hc, keyLess_trans k _ _ _ h1 h2⟩

/-! ### `detMsg` on list views -/

/-- normalisation of one field value (identity when the descriptor does not declare the field) -/
def detField (S : Schema) (d : MsgD) (n : Nat) (fv : FVal) : FVal :=
  match d.find n with
  | some f => detFVal S f fv
  | none => fv

theorem detFields_cons (S : Schema) (d : MsgD) (n : Nat) (fv : FVal) (tl : Fields) :
    detFields S d (.cons n fv tl) = .cons n (detField S d n fv) (detFields S d tl) := by
  rw [detFields]; rfl

theorem detFields_toList (S : Schema) (d : MsgD) (fs : Fields) :
    (detFields S d fs).toList = fs.toList.map (fun p => (p.1, detField S d p.1 p.2)) := by
  induction fs using Fields.ind with
  | nil => rw [detFields]; rfl
  | cons n fv tl ih => rw [detFields_cons]; simp [Fields.toList, ih]

theorem detFields_nums (S : Schema) (d : MsgD) (fs : Fields) : (detFields S d fs).nums = fs.nums := by
  rw [Fields.nums_eq_map, Fields.nums_eq_map, detFields_toList, List.map_map]; rfl

theorem detVals_toList (S : Schema) (f : Field) (vs : Vals) :
    (detVals S f vs).toList = vs.toList.map (detVal S f) := by
  induction vs using Vals.ind with
  | nil => rw [detVals]; rfl
  | cons v tl ih => rw [detVals]; simp [Vals.toList, ih]

/-- association-list lookup -/
def lookupL : List (Nat × FVal) → Nat → Option FVal
  | [], _ => none
  | p :: t, n => if p.1 = n then some p.2 else lookupL t n

theorem Fields.get?_eq_lookupL (fs : Fields) (n : Nat) : fs.get? n = lookupL fs.toList n := by
  induction fs using Fields.ind with
  | nil => rfl
  | cons m y tl ih =>
    rw [Fields.get?_cons, Fields.toList, lookupL, ih]

theorem lookupL_perm {l₁ l₂ : List (Nat × FVal)} (hp : l₁.Perm l₂) (hn : (l₁.map (·.1)).Nodup) (n : Nat) :
    lookupL l₁ n = lookupL l₂ n := by
  induction hp with
  | nil => rfl
  | cons x _ ih =>
    rw [List.map_cons, List.nodup_cons] at hn
    simp only [lookupL, ih hn.2]
  | swap x y l =>
    simp only [List.map_cons, List.nodup_cons, List.mem_cons, not_or] at hn
    simp only [lookupL]
    by_cases hx : x.1 = n
    · by_cases hy : y.1 = n
      · exact (hn.1.1 (hy.trans hx.symm)).elim
      · simp [hx, hy]
    · simp [hx]
  | trans h1 _ ih1 ih2 =>
    exact (ih1 hn).trans (ih2 (((h1.map (·.1)).nodup_iff).mp hn))

theorem Fields.get?_sortBy (less : Nat → Nat → Bool) (fs : Fields) (hn : fs.nums.Nodup) (n : Nat) :
    (Fields.sortBy less fs).get? n = fs.get? n := by
  rw [Fields.get?_eq_lookupL, Fields.get?_eq_lookupL, Fields.toList_sortBy]
  have hp := insSort_perm (fstLt less) fs.toList
  refine lookupL_perm hp ?_ n
  rw [Fields.nums_eq_map] at hn
  exact ((hp.map (·.1)).nodup_iff).mpr hn

theorem Fields.get?_detFields (S : Schema) (d : MsgD) (fs : Fields) (n : Nat) :
    (detFields S d fs).get? n = (fs.get? n).map (detField S d n) := by
  induction fs using Fields.ind with
  | nil => rw [detFields]; rfl
  | cons m y tl ih =>
    rw [detFields_cons, Fields.get?_cons, Fields.get?_cons]
    by_cases h : m = n
    · simp [h]
    · simp [h, ih]

theorem detVal_scalar (S : Schema) (f : Field) (v : Val) (hv : v.isKey = true) : detVal S f v = v := by
  cases v with
  | num n => rw [detVal]; intro m h; cases h
  | bytes b => rw [detVal]; intro m h; cases h
  | msg m => simp [Val.isKey] at hv

theorem detField_scalar (S : Schema) (d : MsgD) (n : Nat) (k : Val) (hs : k.isKey = true) :
    detField S d n (.one k) = .one k := by
  unfold detField
  split
  · rw [detFVal.eq_def]; simp only [detVal_scalar S _ k hs]
  · rfl

/-- normalising an entry with distinct field numbers keeps its (scalar) key -/
theorem entryKey_detMsg (S : Schema) (ei : Nat) (e : Msg) (k : Val) (hn : e.fields.nums.Nodup)
    (hk : entryKey e = some k) (hs : k.isKey = true) : entryKey (detMsg S ei e) = some k := by
  cases e with
  | mk fs unk =>
    rw [detMsg]
    simp only [entryKey] at hk ⊢
    rw [Fields.get?_sortBy _ _ (by rw [detFields_nums]; exact hn), Fields.get?_detFields]
    split at hk
    · rename_i v hv
      cases hk
      rw [hv, Option.map_some, detField_scalar S _ _ k hs]
    · cases hk

end Pb
