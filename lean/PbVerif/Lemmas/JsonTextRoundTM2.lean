import PbVerif.Lemmas.JsonTextRoundTM
/-
Text round trip including populated map fields, part 2: the block spec of a map field and the mutual
induction over `RepMsgTM`.
-/
namespace JT
open Pb

/-- per entry: rendered entry fields, normalised value, the printed `{key: … value: …}` -/
abbrev PayT := List (Nat × List TV) × Val × TV

variable (C : TCodec) (D : DOpts) (X : SchemaX)

/-- a populated map field -/
theorem BSpec_map (fx : FieldX) (limit : Int) (vs : Vals) (T : List (Val × PayT)) (hc : fx.f.card = .map)
    (hmem : ∀ t ∈ T, entryTV t.2.1 = some t.2.2.2 ∧ EntryOKT C D X fx limit t.1 t.2.2.1 t.2.2.2)
    (hnorm : (normVals X fx vs).toList = T.map fun t => Val.msg (mkEntry t.1 t.2.2.1))
    (hpw : (T.map (·.1)).Pairwise fun a b => valBEq b a = false) (hne : T ≠ []) :
    ∃ tvs, sequenceE ((sortK (keyLess (((X.msg fx.f.sub).find 1).map (·.f.kind) |>.getD .int32))
        (T.map fun t => (t.1, t.2.1))).map fun e => entryTV e.2) EErr.shape = .ok tvs ∧
      BSpec C D X fx limit (.many vs) tvs := by
  generalize hless : keyLess (((X.msg fx.f.sub).find 1).map (·.f.kind) |>.getD .int32) = less
  let ST := sortK less T
  have hperm : ST.Perm T := sortK_perm less T
  have hST : ∀ t ∈ ST, entryTV t.2.1 = some t.2.2.2 ∧ EntryOKT C D X fx limit t.1 t.2.2.1 t.2.2.2 :=
    fun t ht => hmem t (hperm.mem_iff.mp ht)
  have hSTne : ST ≠ [] := by
    intro h
    apply hne
    have := hperm.length_eq
    rw [h] at this
    exact List.length_eq_zero_iff.mp this.symm
  refine ⟨ST.map fun t => t.2.2.2, ?_, ?_⟩
  · have e1 : sortK less (T.map fun t => (t.1, t.2.1)) = ST.map fun t => (t.1, t.2.1) :=
      sortK_map less (fun _ (p : PayT) => p.1) T
    rw [e1, List.map_map]
    have e2 : (ST.map ((fun e => entryTV e.2) ∘ fun t => (t.1, t.2.1))) = ST.map fun t => some t.2.2.2 := by
      apply List.map_congr_left
      intro t ht
      exact (hST t ht).1
    rw [e2]
    exact sequenceE_some (fun t : Val × PayT => t.2.2.2) EErr.shape ST
  · intro mi s acc hr hm _ hg _ _ _
    have hfold := fold_entries_T C D X mi fx limit hc hr (ST.map fun t => (t.1, t.2.2.1, t.2.2.2)) []
      (by
        intro t ht
        obtain ⟨q, hq, rfl⟩ := List.mem_map.mp ht
        exact (hST q hq).2)
      (by
        simp only [List.nil_append, List.map_map]
        have : (ST.map ((fun x => x.1) ∘ fun t => (t.1, t.2.2.1, t.2.2.2))) = ST.map (·.1) := by
          apply List.map_congr_left; intro t _; rfl
        rw [this]
        have hp2 : (ST.map (·.1)).Perm (T.map (·.1)) := hperm.map _
        exact (hp2.pairwise_iff (by
          intro a b h
          rw [valBEq_symm]
          exact h)).mpr hpw)
      acc s hm (by simp [hg])
    simp only [List.map_map, List.nil_append] at hfold
    have hm1 : (ST.map ((fun t => (fieldName fx, true, t.2.2)) ∘ fun t => (t.1, t.2.2.1, t.2.2.2))) =
        ST.map ((fun v => (fieldName fx, true, v)) ∘ fun t => t.2.2.2) := by
      apply List.map_congr_left; intro t _; rfl
    rw [hm1] at hfold
    rw [List.map_map, hfold]
    have hm2 : (ST.map ((fun t => (t.1, t.2.1)) ∘ fun t => (t.1, t.2.2.1, t.2.2.2))) =
        ST.map fun t => (t.1, t.2.2.1) := by
      apply List.map_congr_left; intro t _; rfl
    rw [hm2]
    have hnorm2 : normFVal X fx (.many vs) = .many (entriesOf (ST.map fun t => (t.1, t.2.2.1))) := by
      simp only [normFVal, hc, if_true, hless]
      have : normVals X fx vs = Vals.ofList (T.map fun t => Val.msg (mkEntry t.1 t.2.2.1)) := by
        rw [← hnorm, Vals.ofList_toList']
      rw [this, sortVals_entries' less (fun p : PayT => p.2.1) T]
    rw [hnorm2]
    have hsing : isSingular fx = false := by simp [isSingular, hc]
    have hmapne : (ST.map fun t => (t.1, t.2.2.1, t.2.2.2)) ≠ [] := by
      intro h
      exact hSTne (List.map_eq_nil_iff.mp h)
    simp [afterField, hsing, hmapne]

variable (ok32 : Nat → Bool)

mutual
theorem rtTM_msg (hS : SchemaT X) (L : TLaws C ok32) : ∀ (m : Msg) (mi : Nat) (limit : Int),
    RepMsgTM ok32 X mi limit m →
      ∃ tfs, tMsg C X mi m = .ok tfs ∧ tdMsgV C D X mi limit (.msg tfs) = .ok (normMsg X mi m)
  | .mk fs unk, mi, limit, ⟨hlim, _, hany, hex, hf⟩ => by
    obtain ⟨r, hr, hspec⟩ := rtTM_fields hS L fs mi 0 (limit - 1) hf
    refine ⟨TFields.ofList (assembleT (X.msg mi) r), ?_, ?_⟩
    · simp [tMsg, hany, hr]
    · rw [tdMsgV]
      have h1 : ¬ (limit - 1 < 0) := by omega
      simp only [h1, if_false, hany, Bool.false_eq_true]
      rw [tdFields_assembleT C D X hS mi (limit - 1) fs r (RepFieldsTM.sorted hf) hspec hex]
      simp [normMsg]
theorem rtTM_fields (hS : SchemaT X) (L : TLaws C ok32) : ∀ (fs : Fields) (mi : Nat) (lb : Nat) (limit : Int),
    RepFieldsTM ok32 X (X.msg mi) lb limit fs →
      ∃ r, tFields C X (X.msg mi) fs = .ok r ∧ ∀ k, LSpecT C D X (X.msg mi) limit r fs k
  | .nil, mi, lb, limit, _ => ⟨[], rfl, fun k => by simp [LSpecT, lookupN, Fields.get?]⟩
  | .cons num fv tl, mi, lb, limit, ⟨_, h2, h3⟩ => by
    cases hf : (X.msg mi).find num with
    | none => rw [hf] at h2; exact h2.elim
    | some fx =>
      rw [hf] at h2
      obtain ⟨hmem, hnum⟩ := find_mem hf
      obtain ⟨tvs, hj, hs⟩ := rtTM_fval hS L fv fx limit ⟨mi, hmem⟩ h2
      obtain ⟨r, hr, hspec⟩ := rtTM_fields hS L tl mi (num + 1) limit h3
      refine ⟨(num, tvs) :: r, by simp [tFields, hf, hj, hr], ?_⟩
      intro k
      unfold LSpecT
      rw [lookupN_cons]
      simp only [Fields.get?]
      by_cases hk : num = k
      · subst hk
        simp only [if_true]
        exact ⟨fx, hf, hs⟩
      · simp only [hk, if_false]
        exact hspec k
theorem rtTM_fval (hS : SchemaT X) (L : TLaws C ok32) : ∀ (fv : FVal) (fx : FieldX) (limit : Int),
    (∃ i, fx ∈ (X.msg i).fields) → RepFValTM ok32 X fx limit fv →
      ∃ tvs, tFVal C X fx fv = .ok tvs ∧ BSpec C D X fx limit fv tvs
  | .one v, fx, limit, hm, ⟨hc1, hc2, hv, hz⟩ => by
    obtain ⟨tv, hj, hs⟩ := rtTM_val hS L v fx limit hm hv
    exact ⟨[tv], by simp [tFVal, hj, Except.map], BSpec_one C D X fx limit v tv hc1 hc2 hz hs⟩
  | .many vs, fx, limit, hm, ⟨hn, hcases⟩ => by
    rcases hcases with ⟨hc, hv⟩ | ⟨hc, hlim, hv⟩
    · obtain ⟨l, hl, hs⟩ := rtTM_vals hS L vs fx limit hm hv
      have hnm : fx.f.card ≠ .map := by rw [hc]; decide
      exact ⟨l, by simp [tFVal, hnm, hl], BSpec_many C D X fx limit vs l hc hn hs⟩
    · obtain ⟨T, hT, hmem, hnorm, _, hpw⟩ := rtTM_entries hS L vs fx limit hlim hn hv
      have hne : T ≠ [] := by
        intro h
        subst h
        simp only [List.map_nil] at hnorm
        cases vs with
        | nil => simp [Vals.isNil] at hn
        | cons a b => simp [normVals, Vals.toList] at hnorm
      obtain ⟨tvs, hseq, hspec⟩ := BSpec_map C D X fx limit vs T hc hmem hnorm hpw hne
      exact ⟨tvs, by simp [tFVal, hc, hT, hseq], hspec⟩
theorem rtTM_val (hS : SchemaT X) (L : TLaws C ok32) : ∀ (v : Val) (fx : FieldX) (limit : Int),
    (∃ i, fx ∈ (X.msg i).fields) → RepValTM ok32 X fx limit v →
      ∃ tv, tVal C X fx v = .ok tv ∧ VSpecT C D X fx limit v tv
  | .msg m, fx, limit, _, ⟨hk, hm⟩ => by
    obtain ⟨tfs, hj, hd⟩ := rtTM_msg hS L m fx.f.sub limit hm
    exact ⟨.msg tfs, by simp [tVal, hk, hj, Except.map], hk, hd⟩
  | .num n, fx, limit, ⟨i, hmem⟩, hw => by
    obtain ⟨t, ht, hd⟩ := tdTok_tScalar C ok32 L fx (.num n) hw (hS.enums i fx hmem).1 (hS.enums i fx hmem).2
    exact ⟨.scalar t, by simp [tVal, ht, Except.map], wfScalarT_notMessage hw, t, rfl, hd⟩
  | .bytes b, fx, limit, ⟨i, hmem⟩, hw => by
    obtain ⟨t, ht, hd⟩ := tdTok_tScalar C ok32 L fx (.bytes b) hw (hS.enums i fx hmem).1 (hS.enums i fx hmem).2
    exact ⟨.scalar t, by simp [tVal, ht, Except.map], wfScalarT_notMessage hw, t, rfl, hd⟩
theorem rtTM_vals (hS : SchemaT X) (L : TLaws C ok32) : ∀ (vs : Vals) (fx : FieldX) (limit : Int),
    (∃ i, fx ∈ (X.msg i).fields) → RepValsTM ok32 X fx limit vs →
      ∃ l, tVals C X fx vs = .ok l ∧ ESpecT C D X fx limit vs l
  | .nil, _, _, _, _ => ⟨[], rfl, trivial⟩
  | .cons v tl, fx, limit, hm, ⟨hv, ht⟩ => by
    obtain ⟨tv, hj, hs⟩ := rtTM_val hS L v fx limit hm hv
    obtain ⟨l, hl, hsl⟩ := rtTM_vals hS L tl fx limit hm ht
    exact ⟨tv :: l, by simp [tVals, hj, hl], hs, hsl⟩
/-- the entries of a map field (`limit` is the limit at the map field; the entry values see `limit - 1`) -/
theorem rtTM_entries (hS : SchemaT X) (L : TLaws C ok32) : ∀ (vs : Vals) (fx : FieldX) (limit : Int),
    1 ≤ limit → vs.isNil = false → RepEntriesTM ok32 X fx (limit - 1) vs →
      ∃ T : List (Val × PayT),
        tEntries C X (X.msg fx.f.sub) vs = .ok (T.map fun t => (t.1, t.2.1)) ∧
        (∀ t ∈ T, entryTV t.2.1 = some t.2.2.2 ∧ EntryOKT C D X fx limit t.1 t.2.2.1 t.2.2.2) ∧
        (normVals X fx vs).toList = T.map (fun t => Val.msg (mkEntry t.1 t.2.2.1)) ∧
        (∀ k, lookupEntry vs k = none → ∀ t ∈ T, valBEq k t.1 = false) ∧
        (T.map (·.1)).Pairwise (fun a b => valBEq b a = false)
  | .nil, _, _, _, hn, _ => by simp [Vals.isNil] at hn
  | .cons (.msg (.mk (.cons n1 (.one k) (.cons n2 (.one v) .nil)) u)) tl, fx, limit, hlim, _,
      ⟨⟨hn1, hn2, hfree, hE⟩, htl⟩ => by
    subst hn1
    subst hn2
    cases h1 : (X.msg fx.f.sub).find 1 with
    | none => simp [h1] at hE
    | some kf =>
      cases h2 : (X.msg fx.f.sub).find 2 with
      | none => simp [h1, h2] at hE
      | some vf =>
        simp only [h1, h2] at hE
        obtain ⟨hkk, hkw, hv⟩ := hE
        have hkmem := (find_mem h1).1
        obtain ⟨kt, hkt, hkd⟩ := tdTok_tScalar C ok32 L kf k hkw (hS.enums fx.f.sub kf hkmem).1 (hS.enums fx.f.sub kf hkmem).2
        have hkn : normScalar kf k = k := by
          have := normVal_keyT ok32 X kf k hkk hkw
          cases k with
          | msg n => simp [wfScalarT] at hkw
          | num n => simpa [normVal, normScalar] using this
          | bytes b => rfl
        obtain ⟨vtv, hjv, hvs⟩ := rtTM_val hS L v vf (limit - 1) ⟨fx.f.sub, (find_mem h2).1⟩ hv
        have hjk : tVal C X kf k = .ok (.scalar kt) := by
          cases k with
          | msg n => simp [wfScalarT] at hkw
          | num n => simp [tVal, hkt, Except.map]
          | bytes b => simp [tVal, hkt, Except.map]
        have hent : tEntry C X (X.msg fx.f.sub) (.msg (.mk (.cons 1 (.one k) (.cons 2 (.one v) .nil)) u)) =
            .ok (k, [(1, [.scalar kt]), (2, [vtv])]) := by
          simp [tEntry, tEntryMsg, entryKey, Fields.get?, tFields, h1, h2, tFVal, hjk, hjv, Except.map]
        have hetv : entryTV [(1, [TV.scalar kt]), (2, [vtv])] =
            some (.msg (.cons (.ident sKey) true (.scalar kt) (.cons (.ident sValue) true vtv .nil))) := by
          simp [entryTV, lookupN]
        have hok : EntryOKT C D X fx limit k (normVal X vf v)
            (.msg (.cons (.ident sKey) true (.scalar kt) (.cons (.ident sValue) true vtv .nil))) :=
          entry_decodes C D X fx limit kf vf h1 h2 hlim k v kt vtv (by rw [hkd, hkn]) hvs
        have hnormE : normVal X fx (.msg (.mk (.cons 1 (.one k) (.cons 2 (.one v) .nil)) u)) =
            .msg (mkEntry k (normVal X vf v)) := by
          simp [normVal, normMsg, normFields, h1, h2, normFVal, mkEntry, normVal_keyT ok32 X kf k hkk hkw]
        cases tl with
        | nil =>
          refine ⟨[(k, [(1, [.scalar kt]), (2, [vtv])], normVal X vf v,
            TV.msg (.cons (.ident sKey) true (.scalar kt) (.cons (.ident sValue) true vtv .nil)))], ?_, ?_, ?_, ?_, ?_⟩
          · simp [tEntries, hent]
          · intro t ht
            simp only [List.mem_singleton] at ht
            subst ht
            exact ⟨hetv, hok⟩
          · simp [normVals, Vals.toList, hnormE]
          · intro k' hk' t ht
            simp only [List.mem_singleton] at ht
            subst ht
            exact (lookupEntry_cons_none (by simp [entryKey, Fields.get?]) hk').1
          · simp
        | cons e2 tl2 =>
          obtain ⟨T, hT, hmem, hnorm, hkeys, hpw⟩ := rtTM_entries hS L (.cons e2 tl2) fx limit hlim rfl htl
          refine ⟨(k, [(1, [.scalar kt]), (2, [vtv])], normVal X vf v,
            TV.msg (.cons (.ident sKey) true (.scalar kt) (.cons (.ident sValue) true vtv .nil))) :: T, ?_, ?_, ?_, ?_, ?_⟩
          · rw [tEntries, hent]
            simp only [hT, List.map_cons]
          · intro t ht
            simp only [List.mem_cons] at ht
            rcases ht with rfl | ht
            · exact ⟨hetv, hok⟩
            · exact hmem t ht
          · rw [normVals, Vals.toList, hnormE, hnorm]
            rfl
          · intro k' hk' t ht
            have hek : entryKey (.mk (.cons 1 (.one k) (.cons 2 (.one v) .nil)) u) = some k := by
              simp [entryKey, Fields.get?]
            obtain ⟨hb, hrest⟩ := lookupEntry_cons_none hek hk'
            simp only [List.mem_cons] at ht
            rcases ht with rfl | ht
            · exact hb
            · exact hkeys k' hrest t ht
          · simp only [List.map_cons, List.pairwise_cons]
            refine ⟨?_, hpw⟩
            intro b hb
            obtain ⟨t, ht, rfl⟩ := List.mem_map.mp hb
            rw [valBEq_symm]
            exact hkeys k hfree t ht
  | .cons (.num _) _, _, _, _, _, ⟨h, _⟩ => h.elim
  | .cons (.bytes _) _, _, _, _, _, ⟨h, _⟩ => h.elim
  | .cons (.msg (.mk .nil _)) _, _, _, _, _, ⟨h, _⟩ => h.elim
  | .cons (.msg (.mk (.cons _ (.many _) _) _)) _, _, _, _, _, ⟨h, _⟩ => h.elim
  | .cons (.msg (.mk (.cons _ (.one _) .nil) _)) _, _, _, _, _, ⟨h, _⟩ => h.elim
  | .cons (.msg (.mk (.cons _ (.one _) (.cons _ (.many _) _)) _)) _, _, _, _, _, ⟨h, _⟩ => h.elim
  | .cons (.msg (.mk (.cons _ (.one _) (.cons _ (.one _) (.cons _ _ _))) _)) _, _, _, _, _, ⟨h, _⟩ => h.elim
end

end JT
