import PbVerif.Model.DefVal
/-
Helper lemmas for C39 (`Props/C39.lean`): one step of the text-format string parser on each shape of
output that `marshalBytes` produces; decimal formatting/parsing; float bit-pattern facts.
-/
namespace Model.DefVal

/-! ## parseLoop on the output alphabet of marshalBytes -/

theorem digit_toNat (d : Nat) (h : d < 10) : (digit d).toNat = 0x30 + d := by
  simp [digit, BitVec.toNat_ofNat]; omega

/-- default case of the parser: a byte that needs no escaping is copied together with the run after it -/
theorem parseLoop_default (q x : Byte) (t out : List Byte) (hx : needEscape x = false) (hq : needEscape q = true) :
    parseLoop q (x :: t) out = parseLoop q (t.drop (indexNeedEscape t)) (out ++ x :: t.take (indexNeedEscape t)) := by
  have hne : x ≠ q := by intro h; rw [h] at hx; rw [hx] at hq; cases hq
  simp only [needEscape, Bool.or_eq_false_iff, decide_eq_false_iff_not, beq_eq_false_iff_ne] at hx
  obtain ⟨⟨⟨⟨h1, h2⟩, h3⟩, h4⟩, h5⟩ := hx
  have c1 : ¬ (0x80 ≤ x.toNat) := by omega
  have c2 : ¬ (x = 0x00#8 ∨ x = 0x0a#8) := by bv_omega
  rw [parseLoop.eq_def]
  simp only [c1, c2, hne, h4, if_false]

/-- the bulk copy of `indexNeedEscapeInBytes` is the same as going byte by byte -/
theorem parseLoop_run (q : Byte) (t out : List Byte) (hq : needEscape q = true) :
    parseLoop q (t.drop (indexNeedEscape t)) (out ++ t.take (indexNeedEscape t)) = parseLoop q t out := by
  cases t with
  | nil => simp [indexNeedEscape]
  | cons y t' =>
    by_cases hy : needEscape y = true
    · simp [indexNeedEscape, hy]
    · have hy' : needEscape y = false := by simpa using hy
      rw [parseLoop_default q y t' out hy' hq]
      simp [indexNeedEscape, hy']

theorem parseLoop_raw (q x : Byte) (t out : List Byte) (hx : needEscape x = false) (hq : needEscape q = true) :
    parseLoop q (x :: t) out = parseLoop q t (out ++ [x]) := by
  rw [parseLoop_default q x t out hx hq, ← parseLoop_run q t (out ++ [x]) hq]
  simp

/-- the closing quote -/
theorem parseLoop_quote (t out : List Byte) : parseLoop 0x22#8 (0x22#8 :: t) out = .ok out := by
  rw [parseLoop.eq_def]
  simp

/-- a two-character escape `\e` for `e ∈ {n, r, t, ", ', \}` -/
theorem parseLoop_simple (q e : Byte) (tl out : List Byte) (hq : q ≠ 0x5c#8)
    (he : e = 0x6e#8 ∨ e = 0x72#8 ∨ e = 0x74#8 ∨ e = 0x22#8 ∨ e = 0x27#8 ∨ e = 0x5c#8) :
    parseLoop q (0x5c#8 :: e :: tl) out =
      parseLoop q tl (out ++ [if e = 0x6e#8 then 0x0a#8 else if e = 0x72#8 then 0x0d#8
                              else if e = 0x74#8 then 0x09#8 else e]) := by
  rw [parseLoop.eq_def]
  have hq' : ¬ (0x5c#8 = q) := fun h => hq h.symm
  rcases he with h | h | h | h | h | h <;> subst h <;> simp [hq']

/-- a three-digit octal escape is read back as one byte whatever follows it (a fourth digit is not absorbed) -/
theorem parseLoop_octal (q : Byte) (a b d : Nat) (ha : a < 4) (hb : b < 8) (hd : d < 8) (tl out : List Byte)
    (hq : q ≠ 0x5c#8) :
    parseLoop q (0x5c#8 :: digit a :: digit b :: digit d :: tl) out
      = parseLoop q tl (out ++ [BitVec.ofNat 8 (a * 64 + b * 8 + d)]) := by
  have hq' : ¬ (0x5c#8 = q) := fun h => hq h.symm
  have ta := digit_toNat a (by omega)
  have tb := digit_toNat b (by omega)
  have td := digit_toNat d (by omega)
  have oa : isOct (digit a) = true := by simp [isOct, ta]; omega
  have ob : isOct (digit b) = true := by simp [isOct, tb]; omega
  have od : isOct (digit d) = true := by simp [isOct, td]; omega
  have n1 : ¬ (digit a = 0x22#8 ∨ digit a = 0x27#8 ∨ digit a = 0x5c#8 ∨ digit a = 0x3f#8) := by bv_omega
  have n2 : digit a ≠ 0x61#8 ∧ digit a ≠ 0x62#8 ∧ digit a ≠ 0x6e#8 ∧ digit a ≠ 0x72#8 ∧ digit a ≠ 0x74#8
      ∧ digit a ≠ 0x76#8 ∧ digit a ≠ 0x66#8 := by bv_omega
  rw [parseLoop.eq_def]
  simp [hq', n1, n2, oa, ob, od, List.takeWhile, digitsValue, ta, tb, td]
  have e : (a * 8 + b) * 8 + d = a * 64 + b * 8 + d := by omega
  have lt : ¬ (256 ≤ a * 64 + b * 8 + d) := by omega
  rw [e, if_neg lt]

/-- one source byte: whatever follows its escape, the parser appends exactly that byte -/
theorem parseLoop_escapeByte (c : Byte) (tl out : List Byte) :
    parseLoop 0x22#8 (escapeByte c ++ tl) out = parseLoop 0x22#8 tl (out ++ [c]) := by
  by_cases h1 : c = 0x0a#8
  · subst h1; simpa [escapeByte] using parseLoop_simple 0x22#8 0x6e#8 tl out (by decide) (by decide)
  by_cases h2 : c = 0x0d#8
  · subst h2; simpa [escapeByte] using parseLoop_simple 0x22#8 0x72#8 tl out (by decide) (by decide)
  by_cases h3 : c = 0x09#8
  · subst h3; simpa [escapeByte] using parseLoop_simple 0x22#8 0x74#8 tl out (by decide) (by decide)
  by_cases h4 : c = 0x22#8
  · subst h4; simpa [escapeByte] using parseLoop_simple 0x22#8 0x22#8 tl out (by decide) (by decide)
  by_cases h5 : c = 0x27#8
  · subst h5; simpa [escapeByte] using parseLoop_simple 0x22#8 0x27#8 tl out (by decide) (by decide)
  by_cases h6 : c = 0x5c#8
  · subst h6; simpa [escapeByte] using parseLoop_simple 0x22#8 0x5c#8 tl out (by decide) (by decide)
  by_cases h7 : 0x20 ≤ c.toNat ∧ c.toNat ≤ 0x7e
  · have hx : needEscape c = false := by
      simp only [needEscape, Bool.or_eq_false_iff, decide_eq_false_iff_not, beq_eq_false_iff_ne]
      refine ⟨⟨⟨⟨?_, h4⟩, h5⟩, h6⟩, ?_⟩ <;> omega
    simp only [escapeByte, h1, h2, h3, h4, h5, h6, h7, if_false, and_self, if_true, List.cons_append, List.nil_append]
    exact parseLoop_raw 0x22#8 c tl out hx (by decide)
  · have hc := c.isLt
    have e : c.toNat / 64 * 64 + c.toNat / 8 % 8 * 8 + c.toNat % 8 = c.toNat := by omega
    have := parseLoop_octal 0x22#8 (c.toNat / 64) (c.toNat / 8 % 8) (c.toNat % 8) (by omega) (by omega) (by omega)
      tl out (by decide)
    rw [e] at this
    simpa [escapeByte, h1, h2, h3, h4, h5, h6, h7] using this

/-- the parser reads back `marshalBytes b` up to the closing quote, for every continuation -/
theorem parseLoop_marshalBytes (b rest out : List Byte) :
    parseLoop 0x22#8 (marshalBytes b ++ 0x22#8 :: rest) out = .ok (out ++ b) := by
  induction b generalizing out with
  | nil => simpa [marshalBytes] using parseLoop_quote rest out
  | cons c t ih =>
    rw [marshalBytes, List.append_assoc, parseLoop_escapeByte, ih]
    simp

/-! ## Decimal integers -/

theorem digitsVal_append (a b : List Byte) (acc : Nat) :
    digitsVal (a ++ b) acc = (digitsVal a acc).bind (digitsVal b) := by
  induction a generalizing acc with
  | nil => simp [digitsVal]
  | cons c t ih =>
    simp only [List.cons_append, digitsVal]
    split
    · exact ih _
    · rfl

theorem isDigit_digit (d : Nat) (h : d < 10) : isDigit (digit d) = true := by
  simp [isDigit, digit_toNat d h]; omega

theorem digitsVal_formatUint (n : Nat) : digitsVal (formatUint n) 0 = some n := by
  induction n using Nat.strongRecOn with
  | _ n ih =>
    rw [formatUint]
    split
    · rename_i h
      simp [digitsVal, isDigit_digit n h, digit_toNat n h]
    · rename_i h
      rw [digitsVal_append, ih (n / 10) (by omega)]
      have hd : n % 10 < 10 := by omega
      simp [digitsVal, isDigit_digit _ hd, digit_toNat _ hd]
      omega

/-- the text of `FormatUint` starts with a digit (so it is never empty and never starts with a sign) -/
theorem formatUint_head (n : Nat) : ∃ c t, formatUint n = c :: t ∧ isDigit c = true := by
  induction n using Nat.strongRecOn with
  | _ n ih =>
    rw [formatUint]
    split
    · rename_i h
      exact ⟨_, [], rfl, isDigit_digit n h⟩
    · obtain ⟨c, t, e, hc⟩ := ih (n / 10) (by omega)
      exact ⟨c, t ++ [digit (n % 10)], by simp [e], hc⟩

theorem parseUint_formatUint (bits n : Nat) (h : n < 2 ^ bits) : parseUint bits (formatUint n) = some n := by
  obtain ⟨c, t, e, _⟩ := formatUint_head n
  have := digitsVal_formatUint n
  rw [e] at this
  simp [parseUint, e, this, h]

theorem parseInt_formatInt (bits : Nat) (v : Int) (hb : 1 ≤ bits)
    (lo : -(2 ^ (bits - 1) : Int) ≤ v) (hi : v < (2 ^ (bits - 1) : Int)) :
    parseInt bits (formatInt v) = some v := by
  have hPQ : 2 ^ (bits - 1) < 2 ^ bits := Nat.pow_lt_pow_right (by omega) (by omega)
  have cast : ((2 ^ (bits - 1) : Nat) : Int) = (2 : Int) ^ (bits - 1) := by simp
  generalize hP : 2 ^ (bits - 1) = P at hPQ cast
  rw [← cast] at lo hi
  by_cases hneg : v < 0
  · have hun : v.natAbs < 2 ^ bits := by omega
    have := parseUint_formatUint bits v.natAbs hun
    simp only [formatInt, hneg, if_true, parseInt]
    simp [this, hP]
    constructor <;> omega
  · obtain ⟨c, t, e, hc⟩ := formatUint_head v.toNat
    have hun : v.toNat < 2 ^ bits := by omega
    have hp := parseUint_formatUint bits v.toNat hun
    rw [e] at hp
    have c1 : c ≠ 0x2d#8 := by intro h; subst h; revert hc; decide
    have c2 : c ≠ 0x2b#8 := by intro h; subst h; revert hc; decide
    simp only [formatInt, hneg, if_false, e, parseInt]
    simp [c1, c2, hp, hP]
    omega

/-! ## Float bit patterns -/

theorem finite64_not_special (f : BitVec 64) (h : isFinite64 f = true) :
    f ≠ negInf64 ∧ f ≠ posInf64 ∧ isNaN64 f = false := by
  refine ⟨?_, ?_, ?_⟩
  · intro e; subst e; revert h; decide
  · intro e; subst e; revert h; decide
  · simp only [isFinite64, bne_iff_ne, ne_eq] at h
    simp [isNaN64, h]

theorem parts32 (b : BitVec 32) : exp32 b < 256 ∧ man32 b < 2 ^ 23 ∧ sign32 b ≤ 1 := by
  have hb := b.isLt
  simp only [exp32, man32, sign32]; omega

theorem widen_finite (b : BitVec 32) (h : isFinite32 b = true) : isFinite64 (widen b) = true := by
  obtain ⟨he, hm, hs⟩ := parts32 b
  simp only [isFinite32, bne_iff_ne, ne_eq] at h
  simp only [isFinite64, exp64, bne_iff_ne, ne_eq, widen, BitVec.toNat_ofNat]
  generalize exp32 b = e at *; generalize man32 b = m at *; generalize sign32 b = s at *
  rw [if_neg h]
  by_cases h0 : e = 0
  · rw [if_pos h0]
    by_cases hm0 : m = 0
    · rw [if_pos hm0]; omega
    · rw [if_neg hm0]
      have hk : Nat.log2 m < 23 := (Nat.log2_lt hm0).2 hm
      omega
  · rw [if_neg h0]; omega

theorem widen_nan (b : BitVec 32) (h : isNaN32 b = true) : isNaN64 (widen b) = true := by
  obtain ⟨he, hm, hs⟩ := parts32 b
  simp only [isNaN32, Bool.and_eq_true, beq_iff_eq, bne_iff_ne, ne_eq] at h
  obtain ⟨h1, h2⟩ := h
  simp only [isNaN64, exp64, man64, widen, BitVec.toNat_ofNat,
    Bool.and_eq_true, beq_iff_eq, bne_iff_ne, ne_eq]
  generalize exp32 b = e at *; generalize man32 b = m at *; generalize sign32 b = s at *
  rw [if_pos h1, if_neg h2]
  omega

theorem inf32_cases (b : BitVec 32) (h : isInf32 b = true) : b = posInf32 ∨ b = negInf32 := by
  have hb := b.isLt
  simp only [isInf32, exp32, man32, Bool.and_eq_true, beq_iff_eq] at h
  simp only [posInf32, negInf32]
  bv_omega

theorem float32_trichotomy (b : BitVec 32) : isFinite32 b = true ∨ isInf32 b = true ∨ isNaN32 b = true := by
  simp only [isFinite32, isInf32, isNaN32]
  by_cases h : exp32 b = 255 <;> by_cases h2 : man32 b = 0 <;> simp [h, h2]

/-! ## the conversions are coherent: narrowing a widened float32 gives it back -/

theorem toNat_parts32 (b : BitVec 32) : b.toNat = sign32 b * 2 ^ 31 + exp32 b * 2 ^ 23 + man32 b := by
  have := b.isLt
  simp only [sign32, exp32, man32]; omega

theorem narrow_widen (b : BitVec 32) (h : isFinite32 b = true) : narrow (widen b) = b := by
  obtain ⟨he, hm, hs⟩ := parts32 b
  have hb := toNat_parts32 b
  simp only [isFinite32, bne_iff_ne, ne_eq] at h
  apply BitVec.eq_of_toNat_eq
  rw [hb]
  simp only [narrow, exp64, man64, sign64, widen, BitVec.toNat_ofNat]
  generalize exp32 b = e at *; generalize man32 b = m at *; generalize sign32 b = s at *
  rw [if_neg h]
  by_cases h0 : e = 0
  · subst h0
    rw [if_pos rfl]
    by_cases hm0 : m = 0
    · subst hm0; simp only [if_true]
      have : s = 0 ∨ s = 1 := by omega
      rcases this with rfl | rfl <;> decide
    · rw [if_neg hm0]
      have hk1 := Nat.log2_self_le hm0
      have hk2 := @Nat.lt_log2_self m
      have hk : Nat.log2 m < 23 := (Nat.log2_lt hm0).2 hm
      generalize Nat.log2 m = k at *
      -- p = 2^(52-k), 2^52 = 2^k * p, m = 2^k + j
      have hP : 2 ^ 52 = 2 ^ k * 2 ^ (52 - k) := by rw [← Nat.pow_add]; congr 1; omega
      have hpp : 0 < 2 ^ (52 - k) := Nat.two_pow_pos _
      generalize hp : 2 ^ (52 - k) = p at *
      have hlo : 2 ^ 52 ≤ m * p := by rw [hP]; exact Nat.mul_le_mul_right p hk1
      have hhi : m * p < 2 * 2 ^ 52 := by
        rw [hP, ← Nat.mul_assoc, ← Nat.pow_succ']; exact Nat.mul_lt_mul_of_pos_right hk2 hpp
      obtain ⟨jp, hj⟩ : ∃ jp, m * p = 2 ^ 52 + jp := ⟨m * p - 2 ^ 52, by omega⟩
      have hjp : jp < 2 ^ 52 := by omega
      have hman : m * p % 2 ^ 52 = jp := by omega
      rw [hman]
      have hE : (s * 2 ^ 63 + (874 + k) * 2 ^ 52 + jp) % 2 ^ 64 / 2 ^ 52 % 2048 = 874 + k := by omega
      have hM : (s * 2 ^ 63 + (874 + k) * 2 ^ 52 + jp) % 2 ^ 64 % 2 ^ 52 = jp := by omega
      have hS : (s * 2 ^ 63 + (874 + k) * 2 ^ 52 + jp) % 2 ^ 64 / 2 ^ 63 = s := by omega
      have hMM : 2 ^ 52 + jp = m * p := by omega
      have hsh : 29 + (897 - (874 + k)) = 52 - k := by omega
      have hr : rne (m * p) (52 - k) = m := by
        simp only [rne, hp, Nat.mul_div_cancel _ hpp, Nat.mul_mod_left]
        have : 0 < 2 ^ (52 - k - 1) := Nat.two_pow_pos _
        rw [if_neg (by omega)]
      simp only [hE, hM, hS, hMM, hsh, hr]
      rw [if_neg (by omega : ¬ 874 + k = 2047), if_neg (by omega : ¬ 874 + k = 0)]
      simp only [if_neg (by omega : ¬ 897 ≤ 874 + k), if_pos (by omega : 897 - (874 + k) ≤ 25)]
      rw [if_neg (by omega : ¬ 255 * 2 ^ 23 ≤ m)]
      omega
  · rw [if_neg h0]
    have hE : (s * 2 ^ 63 + (e + 896) * 2 ^ 52 + m * 2 ^ 29) % 2 ^ 64 / 2 ^ 52 % 2048 = e + 896 := by omega
    have hM : (s * 2 ^ 63 + (e + 896) * 2 ^ 52 + m * 2 ^ 29) % 2 ^ 64 % 2 ^ 52 = m * 2 ^ 29 := by omega
    have hS : (s * 2 ^ 63 + (e + 896) * 2 ^ 52 + m * 2 ^ 29) % 2 ^ 64 / 2 ^ 63 = s := by omega
    have hr : rne (2 ^ 52 + m * 2 ^ 29) 29 = 2 ^ 23 + m := by
      have q : (2 ^ 52 + m * 2 ^ 29) / 2 ^ 29 = 2 ^ 23 + m := by omega
      have r : (2 ^ 52 + m * 2 ^ 29) % 2 ^ 29 = 0 := by omega
      simp only [rne, q, r]
      rw [if_neg (by omega)]
    simp only [hE, hM, hS, hr]
    rw [if_neg (by omega : ¬ e + 896 = 2047), if_neg (by omega : ¬ e + 896 = 0)]
    simp only [if_pos (by omega : 897 ≤ e + 896)]
    rw [if_neg (by omega : ¬ 255 * 2 ^ 23 ≤ (e + 896 - 897) * 2 ^ 23 + (2 ^ 23 + m))]
    omega

/-! ## enum look-up -/

theorem find_key {α β : Type} [DecidableEq β] (key : α → β) (l : List α) (a : α) (hm : a ∈ l)
    (hd : l.Pairwise (fun x y => key x ≠ key y)) : l.find? (fun x => key x = key a) = some a := by
  induction l with
  | nil => cases hm
  | cons x xs ih =>
    rw [List.find?_cons]
    by_cases hx : key x = key a
    · simp only [hx, decide_true]
      rcases List.mem_cons.1 hm with rfl | h
      · rfl
      · exact absurd hx ((List.pairwise_cons.1 hd).1 a h)
    · simp only [hx, decide_false]
      rcases List.mem_cons.1 hm with rfl | h
      · exact absurd rfl hx
      · exact ih h (List.pairwise_cons.1 hd).2


/-! ## a codec that satisfies the laws (non-vacuity of the float hypotheses): decimal text of the bit pattern -/

def exampleCodec : FloatCodec :=
  { format32 := fun f => formatUint f.toNat
    format64 := fun f => formatUint f.toNat
    parse64 := fun s => (parseUint 64 s).map (BitVec.ofNat 64)
    parse32 := fun s => match parseUint 64 s with | some n => BitVec.ofNat 64 n | none => 0#64 }

theorem formatUint_not_special (n : Nat) : formatUint n ∉ specials := by
  obtain ⟨c, t, e, hc⟩ := formatUint_head n
  intro hmem
  simp only [specials, List.mem_cons, List.not_mem_nil, or_false] at hmem
  rw [e] at hmem
  rcases hmem with h | h | h <;>
    · have := (List.cons.inj h).1
      subst this
      revert hc; decide

theorem exampleCodec_laws : exampleCodec.Law64 ∧ exampleCodec.Law32 := by
  refine ⟨⟨fun b _ => formatUint_not_special _, fun b _ => ?_⟩,
          ⟨fun b _ => formatUint_not_special _, fun b _ => ?_, fun b hb => ?_⟩⟩
  · simp [exampleCodec, parseUint_formatUint 64 b.toNat b.isLt]
  · simp [exampleCodec, parseUint_formatUint 64 (widen b).toNat (widen b).isLt]
  · simp [exampleCodec, parseUint_formatUint 64 (widen b).toNat (widen b).isLt, narrow_widen b hb]

end Model.DefVal
