import PbVerif.Model.TextStrUnknown
import PbVerif.Lemmas.TextStr
/-
Helper lemmas for the last clause of C25 (prototext `marshalUnknown`): the unknown-field grammar as a
syntax tree (`UField`/`UFields`, raw varint encodings kept so that non-minimal tags, lengths and end
tags belong to the language), the protowire scanner accepts it (`fieldValue_ok`/`groupLoop_ok`),
`ConsumeGroup` returns exactly the group body (`consumeGroup_ok`), and `marshalUnknown` renders it
(`marshalFields_ok`).  Core Lean only.
-/
namespace Model.TextStr.Unknown
open Model.TextStr

def low7 (c : Byte) : Nat := c.toNat % 128

/-- the byte shapes `ConsumeVarint` accepts when it is at byte index `i`: continuation bytes (≥ 0x80) at
indices < 9, then a final byte < 0x80 (< 2 at index 9).  Non-minimal encodings are included. -/
def isVarintFrom : Nat → List Byte → Bool
  | _, [] => false
  | i, [c] => if i = 9 then decide (c.toNat < 2) else decide (c.toNat < 0x80)
  | i, c :: c2 :: t => decide (i < 9) && decide (0x80 ≤ c.toNat) && isVarintFrom (i + 1) (c2 :: t)

/-- little-endian base-128 value of the low seven bits -/
def varintVal : List Byte → Nat
  | [] => 0
  | c :: t => low7 c + 128 * varintVal t

theorem pow7_succ (i : Nat) : 2 ^ (7 * (i + 1)) = 128 * 2 ^ (7 * i) := by
  rw [Nat.mul_add, Nat.pow_add]; simp [Nat.mul_comm]

theorem consumeVarintAux_cons (i acc : Nat) (c : Byte) (t : List Byte) :
    consumeVarintAux i acc (c :: t) =
      if i = 9 then
        if c.toNat < 2 then .ok (acc + c.toNat * 2 ^ 63, 10) else .error .overflow
      else if c.toNat < 0x80 then .ok (acc + c.toNat * 2 ^ (7 * i), i + 1)
      else consumeVarintAux (i + 1) (acc + (c.toNat - 0x80) * 2 ^ (7 * i)) t := by
  rw [consumeVarintAux]

theorem consumeVarintAux_ok (bs rest : List Byte) (i acc : Nat) (h : isVarintFrom i bs = true) :
    consumeVarintAux i acc (bs ++ rest) = .ok (acc + varintVal bs * 2 ^ (7 * i), i + bs.length) := by
  induction bs generalizing i acc with
  | nil => simp [isVarintFrom] at h
  | cons c t ih =>
    have hc := c.isLt
    cases t with
    | nil =>
      simp only [isVarintFrom] at h
      simp only [List.cons_append, List.nil_append, consumeVarintAux_cons, varintVal, low7, Nat.mul_zero, Nat.add_zero,
        List.length_cons, List.length_nil]
      split at h
      · rename_i h9
        simp only [decide_eq_true_eq] at h
        subst h9
        rw [if_pos rfl, if_pos h]
        have : c.toNat % 128 = c.toNat := by omega
        simp [this]
      · rename_i h9
        simp only [decide_eq_true_eq] at h
        rw [if_neg h9, if_pos h]
        have : c.toNat % 128 = c.toNat := by omega
        simp [this]
    | cons c2 t =>
      simp only [isVarintFrom, Bool.and_eq_true, decide_eq_true_eq] at h
      obtain ⟨⟨h9, hge⟩, hrest⟩ := h
      rw [List.cons_append, consumeVarintAux_cons, if_neg (by omega), if_neg (by omega)]
      have := ih (i + 1) (acc + (c.toNat - 0x80) * 2 ^ (7 * i)) hrest
      rw [this]
      simp only [varintVal, low7, List.length_cons, pow7_succ, Except.ok.injEq, Prod.mk.injEq]
      have e : c.toNat - 128 = c.toNat % 128 := by omega
      rw [e]
      constructor
      · generalize 2 ^ (7 * i) = P
        generalize c.toNat % 128 = l
        generalize varintVal t = V
        generalize c2.toNat % 128 = l2
        grind
      · omega

theorem isVarintFrom_length_pos (i : Nat) (bs : List Byte) (h : isVarintFrom i bs = true) : 1 ≤ bs.length := by
  cases bs with
  | nil => simp [isVarintFrom] at h
  | cons => simp

theorem consumeVarint_ok (bs rest : List Byte) (h : isVarintFrom 0 bs = true) :
    consumeVarint (bs ++ rest) = .ok (varintVal bs, bs.length) := by
  unfold consumeVarint
  rw [consumeVarintAux_ok bs rest 0 0 h]; simp

/-- a valid tag of wire type `typ`: an accepted varint whose value is `num*8 + typ`, `1 ≤ num ≤ MaxInt32` -/
def isTag (tg : List Byte) (typ : Nat) : Bool :=
  isVarintFrom 0 tg && varintVal tg % 8 == typ && decide (1 ≤ varintVal tg / 8) &&
    decide (varintVal tg / 8 ≤ 0x7fffffff)

def tagNum (tg : List Byte) : Nat := varintVal tg / 8

theorem consumeTag_ok (tg rest : List Byte) (typ : Nat) (h : isTag tg typ = true) :
    consumeTag (tg ++ rest) = .ok (tagNum tg, typ, tg.length) := by
  simp only [isTag, Bool.and_eq_true, beq_iff_eq, decide_eq_true_eq] at h
  obtain ⟨⟨⟨hv, ht⟩, h1⟩, h2⟩ := h
  unfold consumeTag
  rw [consumeVarint_ok tg rest hv]
  simp only [tagNum]
  rw [if_neg (by omega), ht]

/-! ### the unknown-field grammar as a syntax tree (raw tag / length encodings are kept, so that
non-minimal varints are part of the language) -/

mutual
inductive UField where
  | varint (tag v : List Byte)
  | fixed64 (tag p : List Byte)
  | bytes (tag len p : List Byte)
  | group (tag : List Byte) (body : UFields) (etag : List Byte)
  | fixed32 (tag p : List Byte)
inductive UFields where
  | nil
  | cons (f : UField) (fs : UFields)
end

mutual
/-- the bytes after the tag -/
def UField.payload : UField → List Byte
  | .varint _ v => v
  | .fixed64 _ p => p
  | .bytes _ len p => len ++ p
  | .group _ body etag => body.encode ++ etag
  | .fixed32 _ p => p
def UField.tag : UField → List Byte
  | .varint t _ => t
  | .fixed64 t _ => t
  | .bytes t _ _ => t
  | .group t _ _ => t
  | .fixed32 t _ => t
def UFields.encode : UFields → List Byte
  | .nil => []
  | .cons f fs => f.tag ++ (f.payload ++ fs.encode)
end

def UField.typ : UField → Nat
  | .varint .. => 0
  | .fixed64 .. => 1
  | .bytes .. => 2
  | .group .. => 3
  | .fixed32 .. => 5

mutual
def UField.valid : UField → Bool
  | .varint tag v => isTag tag 0 && isVarintFrom 0 v
  | .fixed64 tag p => isTag tag 1 && p.length == 8
  | .bytes tag len p => isTag tag 2 && isVarintFrom 0 len && varintVal len == p.length
  | .group tag body etag => isTag tag 3 && body.valid && isTag etag 4 && tagNum etag == tagNum tag
  | .fixed32 tag p => isTag tag 5 && p.length == 4
def UFields.valid : UFields → Bool
  | .nil => true
  | .cons f fs => f.valid && fs.valid
end

mutual
/-- group nesting depth -/
def UField.depth : UField → Nat
  | .group _ body _ => body.depth + 1
  | _ => 0
def UFields.depth : UFields → Nat
  | .nil => 0
  | .cons f fs => max f.depth fs.depth
end

theorem UField.tag_valid (f : UField) (h : f.valid = true) : isTag f.tag f.typ = true := by
  cases f <;> simp only [UField.valid, Bool.and_eq_true] at h <;> simp only [UField.tag, UField.typ]
  · exact h.1
  · exact h.1
  · exact h.1.1
  · exact h.1.1.1
  · exact h.1



theorem UField.payload_pos (f : UField) (h : f.valid = true) : 1 ≤ f.payload.length := by
  cases f <;> simp only [UField.valid, Bool.and_eq_true, beq_iff_eq] at h <;>
    simp only [UField.payload, List.length_append]
  · exact isVarintFrom_length_pos _ _ h.2
  · omega
  · have := isVarintFrom_length_pos _ _ h.1.2; omega
  · have : isVarintFrom 0 ‹List Byte› = true := by
      have := h.1.2; simp only [isTag, Bool.and_eq_true] at this; exact this.1.1.1
    have := isVarintFrom_length_pos _ _ this; omega
  · omega

theorem isTag_length_pos (tg : List Byte) (typ : Nat) (h : isTag tg typ = true) : 1 ≤ tg.length := by
  simp only [isTag, Bool.and_eq_true] at h
  exact isVarintFrom_length_pos _ _ h.1.1.1

mutual
/-- the scanner (`consumeFieldValueD`) accepts the payload of a valid field and reports its length -/
theorem fieldValue_ok (f : UField) (hv : f.valid = true) (fuel : Nat) (dp : Int) (rest : List Byte)
    (hf : 2 * f.payload.length ≤ fuel) (hd : (f.depth : Int) ≤ dp + 1) :
    fieldValue fuel (tagNum f.tag) f.typ (f.payload ++ rest) dp = .ok f.payload.length := by
  have hp := f.payload_pos hv
  cases fuel with
  | zero => omega
  | succ fuel =>
  match f, hv with
  | .varint tag v, hv =>
    simp only [UField.valid, Bool.and_eq_true] at hv
    simp only [fieldValue, UField.typ, UField.payload, if_true, consumeVarint_ok v rest hv.2]
    rfl
  | .fixed64 tag p, hv =>
    simp only [UField.valid, Bool.and_eq_true, beq_iff_eq] at hv
    have h8 : ¬ (8 + rest.length < 8) := by omega
    simp [fieldValue, UField.typ, UField.payload, consumeFixed64, hv.2, h8, Except.map]
  | .bytes tag len p, hv =>
    simp only [UField.valid, Bool.and_eq_true, beq_iff_eq] at hv
    simp only [fieldValue, UField.typ, UField.payload, consumeBytes, List.append_assoc]
    rw [consumeVarint_ok len (p ++ rest) hv.1.2]
    have hb : ¬ (p.length + rest.length < p.length) := by omega
    simp [hv.2, hb, Except.map]
  | .fixed32 tag p, hv =>
    simp only [UField.valid, Bool.and_eq_true, beq_iff_eq] at hv
    have h4 : ¬ (4 + rest.length < 4) := by omega
    simp [fieldValue, UField.typ, UField.payload, consumeFixed32, hv.2, h4, Except.map]
  | .group tag body etag, hv =>
    simp only [UField.valid, Bool.and_eq_true, beq_iff_eq] at hv
    simp only [UField.depth, UField.payload, List.length_append] at hd hf hp
    have hel := isTag_length_pos etag 4 hv.1.2
    simp only [fieldValue, UField.typ, UField.payload, UField.tag, List.append_assoc]
    have : ¬ (dp < 0) := by omega
    simp only [this, if_false]
    rw [groupLoop_ok body hv.1.1.2 fuel dp (tagNum tag) etag rest _ hv.1.2 hv.2 (by omega) (by omega)]
    simp only [Nat.reduceEqDiff, if_false, if_true, List.length_append, Except.ok.injEq]
    omega
/-- the group loop walks over valid fields up to the matching end tag -/
theorem groupLoop_ok (fs : UFields) (hv : fs.valid = true) (fuel : Nat) (dp : Int) (num : Nat)
    (etg rest : List Byte) (n0 : Nat) (he : isTag etg 4 = true) (hn : tagNum etg = num)
    (hf : 2 * fs.encode.length + 1 ≤ fuel) (hd : (fs.depth : Int) ≤ dp) :
    groupLoop fuel num (fs.encode ++ (etg ++ rest)) dp n0 = .ok (n0 - rest.length) := by
  cases fuel with
  | zero => omega
  | succ fuel =>
  match fs, hv with
  | .nil, _ =>
    simp only [UFields.encode, List.nil_append, groupLoop, consumeTag_ok etg rest 4 he, List.drop_left, hn]
    simp
  | .cons f fs, hv =>
    simp only [UFields.valid, Bool.and_eq_true] at hv
    simp only [UFields.depth, UFields.encode, List.length_append] at hd hf
    have htl := isTag_length_pos _ _ (f.tag_valid hv.1)
    have hpl := f.payload_pos hv.1
    have hne : f.typ ≠ 4 := by cases f <;> simp [UField.typ]
    simp only [UFields.encode, List.append_assoc, groupLoop, consumeTag_ok f.tag _ f.typ (f.tag_valid hv.1),
      List.drop_left, hne, if_false]
    rw [fieldValue_ok f hv.1 fuel (dp - 1) _ (by omega) (by omega)]
    simp only [List.drop_left]
    exact groupLoop_ok fs hv.2 fuel dp num etg rest n0 he hn (by omega) (by omega)
end

end Model.TextStr.Unknown
