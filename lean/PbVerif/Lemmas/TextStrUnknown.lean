import PbVerif.Model.TextStrUnknown
import PbVerif.Lemmas.TextStr
/-
Helper lemmas for the last clause of C25 (prototext `marshalUnknown`): the unknown-field grammar as a
syntax tree (`UField`/`UFields`, raw varint encodings kept so that non-minimal tags, lengths and end
tags belong to the language), the protowire scanner accepts it (`fieldValue_ok`/`groupLoop_ok`),
`ConsumeGroup` returns exactly the group body (`consumeGroup_ok`), and `marshalUnknown` renders it
(`marshalFields_ok`).  Core Lean only.
-/
namespace Model.TextStr.Unknown
open Model.TextStr

def low7 (c : Byte) : Nat := c.toNat % 128

/-- the byte shapes `ConsumeVarint` accepts when it is at byte index `i`: continuation bytes (≥ 0x80) at
indices < 9, then a final byte < 0x80 (< 2 at index 9).  Non-minimal encodings are included. -/
def isVarintFrom : Nat → List Byte → Bool
  | _, [] => false
  | i, [c] => if i = 9 then decide (c.toNat < 2) else decide (c.toNat < 0x80)
  | i, c :: c2 :: t => decide (i < 9) && decide (0x80 ≤ c.toNat) && isVarintFrom (i + 1) (c2 :: t)

/-- little-endian base-128 value of the low seven bits -/
def varintVal : List Byte → Nat
  | [] => 0
  | c :: t => low7 c + 128 * varintVal t

theorem pow7_succ (i : Nat) : 2 ^ (7 * (i + 1)) = 128 * 2 ^ (7 * i) := by
  rw [Nat.mul_add, Nat.pow_add]; simp [Nat.mul_comm]

theorem consumeVarintAux_cons (i acc : Nat) (c : Byte) (t : List Byte) :
    consumeVarintAux i acc (c :: t) =
      if i = 9 then
        if c.toNat < 2 then .ok (acc + c.toNat * 2 ^ 63, 10) else .error .overflow
      else if c.toNat < 0x80 then .ok (acc + c.toNat * 2 ^ (7 * i), i + 1)
      else consumeVarintAux (i + 1) (acc + (c.toNat - 0x80) * 2 ^ (7 * i)) t := by
  rw [consumeVarintAux]

theorem consumeVarintAux_ok (bs rest : List Byte) (i acc : Nat) (h : isVarintFrom i bs = true) :
    consumeVarintAux i acc (bs ++ rest) = .ok (acc + varintVal bs * 2 ^ (7 * i), i + bs.length) := by
  induction bs generalizing i acc with
  | nil => simp [isVarintFrom] at h
  | cons c t ih =>
    have hc := c.isLt
    cases t with
    | nil =>
      simp only [isVarintFrom] at h
      simp only [List.cons_append, List.nil_append, consumeVarintAux_cons, varintVal, low7, Nat.mul_zero, Nat.add_zero,
        List.length_cons, List.length_nil]
      split at h
      · rename_i h9
        simp only [decide_eq_true_eq] at h
        subst h9
        rw [if_pos rfl, if_pos h]
        have : c.toNat % 128 = c.toNat := by omega
        simp [this]
      · rename_i h9
        simp only [decide_eq_true_eq] at h
        rw [if_neg h9, if_pos h]
        have : c.toNat % 128 = c.toNat := by omega
        simp [this]
    | cons c2 t =>
      simp only [isVarintFrom, Bool.and_eq_true, decide_eq_true_eq] at h
      obtain ⟨⟨h9, hge⟩, hrest⟩ := h
      rw [List.cons_append, consumeVarintAux_cons, if_neg (by omega), if_neg (by omega)]
      have := ih (i + 1) (acc + (c.toNat - 0x80) * 2 ^ (7 * i)) hrest
      rw [this]
      simp only [varintVal, low7, List.length_cons, pow7_succ, Except.ok.injEq, Prod.mk.injEq]
      have e : c.toNat - 128 = c.toNat % 128 := by omega
      rw [e]
      constructor
      · generalize 2 ^ (7 * i) = P
        generalize c.toNat % 128 = l
        generalize varintVal t = V
        generalize c2.toNat % 128 = l2
        grind
      · omega

theorem isVarintFrom_length_pos (i : Nat) (bs : List Byte) (h : isVarintFrom i bs = true) : 1 ≤ bs.length := by
  cases bs with
  | nil => simp [isVarintFrom] at h
  | cons => simp

theorem consumeVarint_ok (bs rest : List Byte) (h : isVarintFrom 0 bs = true) :
    consumeVarint (bs ++ rest) = .ok (varintVal bs, bs.length) := by
  unfold consumeVarint
  rw [consumeVarintAux_ok bs rest 0 0 h]; simp

/-- a valid tag of wire type `typ`: an accepted varint whose value is `num*8 + typ`, `1 ≤ num ≤ MaxInt32` -/
def isTag (tg : List Byte) (typ : Nat) : Bool :=
  isVarintFrom 0 tg && varintVal tg % 8 == typ && decide (1 ≤ varintVal tg / 8) &&
    decide (varintVal tg / 8 ≤ 0x7fffffff)

def tagNum (tg : List Byte) : Nat := varintVal tg / 8

theorem consumeTag_ok (tg rest : List Byte) (typ : Nat) (h : isTag tg typ = true) :
    consumeTag (tg ++ rest) = .ok (tagNum tg, typ, tg.length) := by
  simp only [isTag, Bool.and_eq_true, beq_iff_eq, decide_eq_true_eq] at h
  obtain ⟨⟨⟨hv, ht⟩, h1⟩, h2⟩ := h
  unfold consumeTag
  rw [consumeVarint_ok tg rest hv]
  simp only [tagNum]
  rw [if_neg (by omega), ht]

/-! ### the unknown-field grammar as a syntax tree (raw tag / length encodings are kept, so that
non-minimal varints are part of the language) -/

mutual
inductive UField where
  | varint (tag v : List Byte)
  | fixed64 (tag p : List Byte)
  | bytes (tag len p : List Byte)
  | group (tag : List Byte) (body : UFields) (etag : List Byte)
  | fixed32 (tag p : List Byte)
inductive UFields where
  | nil
  | cons (f : UField) (fs : UFields)
end

mutual
/-- the bytes after the tag -/
def UField.payload : UField → List Byte
  | .varint _ v => v
  | .fixed64 _ p => p
  | .bytes _ len p => len ++ p
  | .group _ body etag => body.encode ++ etag
  | .fixed32 _ p => p
def UField.tag : UField → List Byte
  | .varint t _ => t
  | .fixed64 t _ => t
  | .bytes t _ _ => t
  | .group t _ _ => t
  | .fixed32 t _ => t
def UFields.encode : UFields → List Byte
  | .nil => []
  | .cons f fs => f.tag ++ (f.payload ++ fs.encode)
end

def UField.typ : UField → Nat
  | .varint .. => 0
  | .fixed64 .. => 1
  | .bytes .. => 2
  | .group .. => 3
  | .fixed32 .. => 5

mutual
def UField.valid : UField → Bool
  | .varint tag v => isTag tag 0 && isVarintFrom 0 v
  | .fixed64 tag p => isTag tag 1 && p.length == 8
  | .bytes tag len p => isTag tag 2 && isVarintFrom 0 len && varintVal len == p.length
  | .group tag body etag => isTag tag 3 && body.valid && isTag etag 4 && tagNum etag == tagNum tag
  | .fixed32 tag p => isTag tag 5 && p.length == 4
def UFields.valid : UFields → Bool
  | .nil => true
  | .cons f fs => f.valid && fs.valid
end

mutual
/-- group nesting depth -/
def UField.depth : UField → Nat
  | .group _ body _ => body.depth + 1
  | _ => 0
def UFields.depth : UFields → Nat
  | .nil => 0
  | .cons f fs => max f.depth fs.depth
end

theorem UField.tag_valid (f : UField) (h : f.valid = true) : isTag f.tag f.typ = true := by
  cases f <;> simp only [UField.valid, Bool.and_eq_true] at h <;> simp only [UField.tag, UField.typ]
  · exact h.1
  · exact h.1
  · exact h.1.1
  · exact h.1.1.1
  · exact h.1



theorem UField.payload_pos (f : UField) (h : f.valid = true) : 1 ≤ f.payload.length := by
  cases f <;> simp only [UField.valid, Bool.and_eq_true, beq_iff_eq] at h <;>
    simp only [UField.payload, List.length_append]
  · exact isVarintFrom_length_pos _ _ h.2
  · omega
  · have := isVarintFrom_length_pos _ _ h.1.2; omega
  · have : isVarintFrom 0 ‹List Byte› = true := by
      have := h.1.2; simp only [isTag, Bool.and_eq_true] at this; exact this.1.1.1
    have := isVarintFrom_length_pos _ _ this; omega
  · omega

theorem isTag_length_pos (tg : List Byte) (typ : Nat) (h : isTag tg typ = true) : 1 ≤ tg.length := by
  simp only [isTag, Bool.and_eq_true] at h
  exact isVarintFrom_length_pos _ _ h.1.1.1

mutual
/-- the scanner (`consumeFieldValueD`) accepts the payload of a valid field and reports its length -/
theorem fieldValue_ok (f : UField) (hv : f.valid = true) (fuel : Nat) (dp : Int) (rest : List Byte)
    (hf : 2 * f.payload.length ≤ fuel) (hd : (f.depth : Int) ≤ dp + 1) :
    fieldValue fuel (tagNum f.tag) f.typ (f.payload ++ rest) dp = .ok f.payload.length := by
  have hp := f.payload_pos hv
  cases fuel with
  | zero => omega
  | succ fuel =>
  match f, hv with
  | .varint tag v, hv =>
    simp only [UField.valid, Bool.and_eq_true] at hv
    simp only [fieldValue, UField.typ, UField.payload, if_true, consumeVarint_ok v rest hv.2]
    rfl
  | .fixed64 tag p, hv =>
    simp only [UField.valid, Bool.and_eq_true, beq_iff_eq] at hv
    have h8 : ¬ (8 + rest.length < 8) := by omega
    simp [fieldValue, UField.typ, UField.payload, consumeFixed64, hv.2, h8, Except.map]
  | .bytes tag len p, hv =>
    simp only [UField.valid, Bool.and_eq_true, beq_iff_eq] at hv
    simp only [fieldValue, UField.typ, UField.payload, consumeBytes, List.append_assoc]
    rw [consumeVarint_ok len (p ++ rest) hv.1.2]
    have hb : ¬ (p.length + rest.length < p.length) := by omega
    simp [hv.2, hb, Except.map]
  | .fixed32 tag p, hv =>
    simp only [UField.valid, Bool.and_eq_true, beq_iff_eq] at hv
    have h4 : ¬ (4 + rest.length < 4) := by omega
    simp [fieldValue, UField.typ, UField.payload, consumeFixed32, hv.2, h4, Except.map]
  | .group tag body etag, hv =>
    simp only [UField.valid, Bool.and_eq_true, beq_iff_eq] at hv
    simp only [UField.depth, UField.payload, List.length_append] at hd hf hp
    have hel := isTag_length_pos etag 4 hv.1.2
    simp only [fieldValue, UField.typ, UField.payload, UField.tag, List.append_assoc]
    have : ¬ (dp < 0) := by omega
    simp only [this, if_false]
    rw [groupLoop_ok body hv.1.1.2 fuel dp (tagNum tag) etag rest _ hv.1.2 hv.2 (by omega) (by omega)]
    simp only [Nat.reduceEqDiff, if_false, if_true, List.length_append, Except.ok.injEq]
    omega
/-- the group loop walks over valid fields up to the matching end tag -/
theorem groupLoop_ok (fs : UFields) (hv : fs.valid = true) (fuel : Nat) (dp : Int) (num : Nat)
    (etg rest : List Byte) (n0 : Nat) (he : isTag etg 4 = true) (hn : tagNum etg = num)
    (hf : 2 * fs.encode.length + 1 ≤ fuel) (hd : (fs.depth : Int) ≤ dp) :
    groupLoop fuel num (fs.encode ++ (etg ++ rest)) dp n0 = .ok (n0 - rest.length) := by
  cases fuel with
  | zero => omega
  | succ fuel =>
  match fs, hv with
  | .nil, _ =>
    simp only [UFields.encode, List.nil_append, groupLoop, consumeTag_ok etg rest 4 he, List.drop_left, hn]
    simp
  | .cons f fs, hv =>
    simp only [UFields.valid, Bool.and_eq_true] at hv
    simp only [UFields.depth, UFields.encode, List.length_append] at hd hf
    have htl := isTag_length_pos _ _ (f.tag_valid hv.1)
    have hpl := f.payload_pos hv.1
    have hne : f.typ ≠ 4 := by cases f <;> simp [UField.typ]
    simp only [UFields.encode, List.append_assoc, groupLoop, consumeTag_ok f.tag _ f.typ (f.tag_valid hv.1),
      List.drop_left, hne, if_false]
    rw [fieldValue_ok f hv.1 fuel (dp - 1) _ (by omega) (by omega)]
    simp only [List.drop_left]
    exact groupLoop_ok fs hv.2 fuel dp num etg rest n0 he hn (by omega) (by omega)
end


/-! ### `ConsumeGroup` strips exactly the end tag -/

/-- number of bytes up to and including the last one whose low seven bits are not zero -/
def sigLen : List Byte → Nat
  | [] => 0
  | c :: t => if sigLen t ≠ 0 then sigLen t + 1 else if low7 c ≠ 0 then 1 else 0

theorem sigLen_le (l : List Byte) : sigLen l ≤ l.length := by
  induction l with
  | nil => simp [sigLen]
  | cons c t ih => simp only [sigLen, List.length_cons]; split <;> (try split) <;> omega

theorem stripZeros7_cons (c : Byte) (t : List Byte) :
    stripZeros7 (c :: t) =
      if (stripZeros7 t).isEmpty then (if low7 c ≠ 0 then [c] else []) else c :: stripZeros7 t := by
  simp only [stripZeros7, List.reverse_cons, List.dropWhile_append, List.isEmpty_reverse]
  split
  · simp only [List.dropWhile, low7]
    by_cases h : c.toNat % 128 = 0
    · simp [h]
    · have hb : (c.toNat % 128 == 0) = false := by simp [h]
      simp [h, hb]
  · simp

theorem stripZeros7_eq_take (l : List Byte) : stripZeros7 l = l.take (sigLen l) := by
  induction l with
  | nil => simp [stripZeros7, sigLen]
  | cons c t ih =>
    rw [stripZeros7_cons, ih, sigLen]
    have hle := sigLen_le t
    by_cases h : sigLen t = 0
    · simp only [h, List.take_zero, List.isEmpty_nil, if_true, ne_eq, not_true_eq_false, if_false]
      split <;> simp
    · have : (List.take (sigLen t) t).isEmpty = false := by
        cases t with
        | nil => simp [sigLen] at h
        | cons a t' =>
          cases hs : sigLen (a :: t') with
          | zero => omega
          | succ k => simp
      simp [this, h]

theorem sigLen_append (pre l : List Byte) (h : sigLen l ≠ 0) : sigLen (pre ++ l) = pre.length + sigLen l := by
  induction pre with
  | nil => simp
  | cons c t ih =>
    simp only [List.cons_append, sigLen, ih, List.length_cons]
    rw [if_pos (by omega)]; omega

/-- number of base-128 digits -/
def ngroups (v : Nat) : Nat := if v < 128 then 1 else ngroups (v / 128) + 1
decreasing_by omega

theorem ngroups_small (v : Nat) (h : v < 128) : ngroups v = 1 := by rw [ngroups, if_pos h]
theorem ngroups_step (v : Nat) (h : ¬ v < 128) : ngroups v = ngroups (v / 128) + 1 := by rw [ngroups, if_neg h]

theorem ngroups_pos (v : Nat) : 1 ≤ ngroups v := by
  rw [ngroups]; split <;> omega

theorem varintVal_zero_sigLen (bs : List Byte) (h : varintVal bs = 0) : sigLen bs = 0 := by
  induction bs with
  | nil => rfl
  | cons c t ih =>
    simp only [varintVal] at h
    have h1 : low7 c = 0 := by omega
    have h2 : varintVal t = 0 := by omega
    simp [sigLen, ih h2, h1]

theorem low7_lt (c : Byte) : low7 c < 128 := by unfold low7; omega

theorem sigLen_eq_ngroups (bs : List Byte) (h : varintVal bs ≠ 0) : sigLen bs = ngroups (varintVal bs) := by
  induction bs with
  | nil => simp [varintVal] at h
  | cons c t ih =>
    have hl := low7_lt c
    simp only [varintVal] at h ⊢
    by_cases hV : varintVal t = 0
    · have hc : low7 c ≠ 0 := by omega
      rw [sigLen, varintVal_zero_sigLen t hV, hV, ngroups_small _ (by omega)]
      simp [hc]
    · have := ih hV
      have hp := ngroups_pos (varintVal t)
      rw [sigLen, if_pos (by omega), this, ngroups_step (low7 c + 128 * varintVal t) (by omega)]
      congr 2
      omega

theorem log2_div128 (v : Nat) (h : 128 ≤ v) : Nat.log2 v = Nat.log2 (v / 128) + 7 := by
  rw [Nat.log2_def v, if_pos (by omega), Nat.log2_def (v/2), if_pos (by omega),
    Nat.log2_def (v/2/2), if_pos (by omega), Nat.log2_def (v/2/2/2), if_pos (by omega),
    Nat.log2_def (v/2/2/2/2), if_pos (by omega), Nat.log2_def (v/2/2/2/2/2), if_pos (by omega),
    Nat.log2_def (v/2/2/2/2/2/2), if_pos (by omega)]
  have : v / 2 / 2 / 2 / 2 / 2 / 2 / 2 = v / 128 := by omega
  rw [this]

theorem ngroups_eq_log2 (v : Nat) (h : v ≠ 0) : ngroups v = Nat.log2 v / 7 + 1 := by
  induction v using Nat.strongRecOn with
  | _ v ih =>
    rw [ngroups]
    split
    · have : Nat.log2 v < 7 := (Nat.log2_lt h).2 (by omega)
      omega
    · rw [ih (v / 128) (by omega) (by omega), log2_div128 v (by omega)]
      omega

theorem log2_or_one (v : Nat) (h : v ≠ 0) : Nat.log2 (v ||| 1) = Nat.log2 v := by
  have hw : v ||| 1 ≠ 0 := by
    intro h0
    have : v ≤ v ||| 1 := Nat.left_le_or
    omega
  rw [Nat.log2_eq_iff hw]
  constructor
  · exact Nat.le_trans (Nat.log2_self_le h) Nat.left_le_or
  · apply Nat.or_lt_two_pow Nat.lt_log2_self
    exact Nat.one_lt_two_pow (by omega)

theorem sizeVarint_eq_ngroups (v : Nat) (h : v < 2 ^ 64) : sizeVarint v = ngroups v := by
  unfold sizeVarint
  by_cases h0 : v = 0
  · subst h0; rw [ngroups]; decide
  · rw [log2_or_one v h0, ngroups_eq_log2 v h0]
    have hL : Nat.log2 v < 64 := (Nat.log2_lt h0).2 h
    have key : ∀ L, L < 64 → (L * 9 + 73) / 64 = L / 7 + 1 := by decide
    exact key _ hL

theorem ngroups_tag (num : Nat) (h : 1 ≤ num) : ngroups (num * 8) = ngroups (num * 8 + 4) := by
  have : (num * 8 + 4) / 128 = num * 8 / 128 := by omega
  by_cases h1 : num * 8 + 4 < 128
  · rw [ngroups_small _ h1, ngroups_small _ (by omega)]
  · rw [ngroups_step _ h1, ngroups_step _ (by omega), this]

/-- after `ConsumeFieldValue` has found the end of the group, dropping the trailing bytes whose low
seven bits are zero and then `SizeTag(num)` bytes removes exactly the (possibly non-minimal) end tag -/
theorem strip_end_tag (pre etag : List Byte) (h : isTag etag 4 = true) :
    let b1 := stripZeros7 (pre ++ etag)
    sizeTag (tagNum etag) ≤ b1.length ∧ b1.take (b1.length - sizeTag (tagNum etag)) = pre := by
  simp only [isTag, Bool.and_eq_true, beq_iff_eq, decide_eq_true_eq] at h
  obtain ⟨⟨⟨hv, ht⟩, h1⟩, h2⟩ := h
  have hne : varintVal etag ≠ 0 := by omega
  have hs := sigLen_eq_ngroups etag hne
  have hval : varintVal etag = tagNum etag * 8 + 4 := by unfold tagNum; omega
  have hsz : sizeTag (tagNum etag) = sigLen etag := by
    unfold sizeTag
    rw [sizeVarint_eq_ngroups _ (by unfold tagNum; omega), ngroups_tag _ (by unfold tagNum; omega), ← hval, hs]
  have hpos := ngroups_pos (varintVal etag)
  have hle := sigLen_le etag
  simp only
  rw [stripZeros7_eq_take, sigLen_append pre etag (by omega), hsz, List.length_take, List.length_append]
  constructor
  · omega
  · rw [Nat.min_eq_left (by omega), Nat.add_sub_cancel, List.take_take, Nat.min_eq_left (by omega), List.take_left]



/-- `ConsumeGroup` on a valid group (nesting within protowire's limit) returns exactly the encoded
body and the length of body + end tag — also when the end tag is a non-minimal varint. -/
theorem consumeGroup_ok (tag : List Byte) (body : UFields) (etag rest : List Byte)
    (hv : (UField.group tag body etag).valid = true)
    (hd : (UField.group tag body etag).depth ≤ 10001) :
    consumeGroup (tagNum tag) (body.encode ++ (etag ++ rest))
      = some (.ok (body.encode, body.encode.length + etag.length)) := by
  have hfv := fieldValue_ok (.group tag body etag) hv (fuelFor (body.encode ++ (etag ++ rest)))
    recursionLimit rest
    (by simp only [UField.payload, fuelFor, List.length_append]; omega)
    (by simp only [recursionLimit]; omega)
  simp only [UField.payload, UField.tag, UField.typ, List.append_assoc, List.length_append] at hfv
  simp only [UField.valid, Bool.and_eq_true, beq_iff_eq] at hv
  obtain ⟨⟨⟨_, _⟩, het⟩, hnum⟩ := hv
  unfold consumeGroup consumeFieldValue
  rw [hfv]
  have htake : (body.encode ++ (etag ++ rest)).take (body.encode.length + etag.length) = body.encode ++ etag := by
    rw [← List.append_assoc, ← List.length_append, List.take_left]
  simp only [htake]
  obtain ⟨h1, h2⟩ := strip_end_tag body.encode etag het
  rw [hnum] at h1 h2
  rw [if_pos h1, h2]

theorem appendString_isSome (s : List Byte) (ascii : Bool) : ∃ o, appendString s ascii = some o := by
  unfold appendString
  obtain ⟨body, hb⟩ := escLoop_total (s.drop (indexNeedEscape s)) ascii
  exact ⟨0x22#8 :: (s.take (indexNeedEscape s) ++ body ++ [0x22#8]), by simp [hb]⟩

theorem UFields.encode_cons (f : UField) (fs : UFields) :
    (UFields.cons f fs).encode = f.tag ++ (f.payload ++ fs.encode) := by
  simp [UFields.encode]

mutual
/-- `marshalUnknown` renders one valid field and goes on with what follows -/
theorem marshalField_ok (f : UField) (hv : f.valid = true) (hd : f.depth ≤ 10001) (fuel : Nat) (ascii : Bool)
    (restB : List Byte) (e : Enc)
    (hf : f.tag.length + f.payload.length + restB.length ≤ fuel)
    (K : ∀ e1, ∃ e', marshalUnknownF (fuel - 1) ascii restB e1 = some e') :
    ∃ e', marshalUnknownF fuel ascii (f.tag ++ (f.payload ++ restB)) e = some e' := by
  have htag := f.tag_valid hv
  have htl := isTag_length_pos _ _ htag
  cases fuel with
  | zero => omega
  | succ fuel =>
  have hne : (f.tag ++ (f.payload ++ restB)).isEmpty = false := by
    cases h : f.tag with
    | nil => rw [h] at htl; simp at htl
    | cons => simp
  simp only [Nat.add_sub_cancel] at K
  rw [marshalUnknownF]
  simp only [hne, Bool.false_eq_true, if_false, consumeTag_ok f.tag _ f.typ htag, List.drop_left]
  match f, hv with
  | .varint tag v, hv =>
    simp only [UField.valid, Bool.and_eq_true] at hv
    simp only [UField.typ, UField.payload, if_true, consumeVarint_ok v restB hv.2, List.drop_left]
    exact K _
  | .fixed64 tag p, hv =>
    simp only [UField.valid, Bool.and_eq_true, beq_iff_eq] at hv
    have h8 : ¬ (8 + restB.length < 8) := by omega
    have hdrop : (p ++ restB).drop 8 = restB := by rw [← hv.2, List.drop_left]
    simp only [UField.typ, UField.payload, consumeFixed64, List.length_append, hv.2, h8, if_false,
      Nat.reduceEqDiff, if_true, hdrop]
    exact K _
  | .fixed32 tag p, hv =>
    simp only [UField.valid, Bool.and_eq_true, beq_iff_eq] at hv
    have h4 : ¬ (4 + restB.length < 4) := by omega
    have hdrop : (p ++ restB).drop 4 = restB := by rw [← hv.2, List.drop_left]
    simp only [UField.typ, UField.payload, consumeFixed32, List.length_append, hv.2, h4, if_false,
      Nat.reduceEqDiff, if_true, hdrop]
    exact K _
  | .bytes tag len p, hv =>
    simp only [UField.valid, Bool.and_eq_true, beq_iff_eq] at hv
    have hb : ¬ (p.length + restB.length < p.length) := by omega
    simp only [UField.typ, UField.payload, consumeBytes, List.append_assoc,
      consumeVarint_ok len (p ++ restB) hv.1.2, List.drop_left, List.length_append, hv.2,
      Nat.reduceEqDiff, if_false, if_true, List.take_left]
    rw [if_neg (by omega)]
    obtain ⟨o, ho⟩ := appendString_isSome p ascii
    simp only [writeString, ho, Option.map_some, Option.bind_some]
    have hdrop : (len ++ (p ++ restB)).drop (len.length + p.length) = restB := by
      rw [← List.append_assoc, ← List.length_append, List.drop_left]
    rw [hdrop]
    exact K _
  | .group tag body etag, hv =>
    have hcg := consumeGroup_ok tag body etag restB hv hd
    simp only [UField.typ, UField.payload, UField.tag, List.append_assoc, Nat.reduceEqDiff, if_false,
      if_true, hcg]
    simp only [UField.valid, Bool.and_eq_true, beq_iff_eq] at hv
    simp only [UField.depth] at hd
    simp only [UField.payload, UField.tag, List.length_append] at hf
    have hel := isTag_length_pos etag 4 hv.1.2
    obtain ⟨e2, he2⟩ := marshalFields_ok body hv.1.1.2 (by omega) fuel ascii
      (startMessage (writeName e (decStr (tagNum tag)))) (by omega)
    have hdrop : (body.encode ++ (etag ++ restB)).drop (body.encode.length + etag.length) = restB := by
      rw [← List.append_assoc, ← List.length_append, List.drop_left]
    simp only [he2, Option.bind_some, hdrop]
    exact K _
/-- `marshalUnknown` renders a valid field sequence completely -/
theorem marshalFields_ok (fs : UFields) (hv : fs.valid = true) (hd : fs.depth ≤ 10001) (fuel : Nat)
    (ascii : Bool) (e : Enc) (hf : fs.encode.length ≤ fuel) :
    ∃ e', marshalUnknownF fuel ascii fs.encode e = some e' := by
  match fs, hv with
  | .nil, _ =>
    cases fuel <;> simp [marshalUnknownF, UFields.encode]
  | .cons f fs, hv =>
    simp only [UFields.valid, Bool.and_eq_true] at hv
    simp only [UFields.depth] at hd
    rw [UFields.encode_cons] at hf ⊢
    simp only [List.length_append] at hf
    have htl := isTag_length_pos _ _ (f.tag_valid hv.1)
    exact marshalField_ok f hv.1 (by omega) fuel ascii fs.encode e (by omega)
      (fun e1 => marshalFields_ok fs hv.2 (by omega) (fuel - 1) ascii e1 (by omega))
end

end Model.TextStr.Unknown
