import PbVerif.Model.TextStr
import PbVerif.Props.Utf8Basics
/-
Helper lemmas for C25 (text string literals): hexadecimal formatting/parsing, one lemma per parser step
(`parseLoop` on each kind of piece the encoder writes), `indexNeedEscape` facts.  Core Lean only.
-/
namespace Model.TextStr
open Model.Utf8

/-- number of hexadecimal digits `strconv.AppendUint(r, 16)` writes -/
def hexLen (r : Nat) : Nat := if r < 16 then 1 else hexLen (r / 16) + 1
decreasing_by omega

theorem hexLen_small (r : Nat) (h : r < 16) : hexLen r = 1 := by rw [hexLen, if_pos h]
theorem hexLen_step (r : Nat) (h : ¬ r < 16) : hexLen r = hexLen (r / 16) + 1 := by rw [hexLen, if_neg h]

theorem hexStr_length (r : Nat) : (hexStr r).length = hexLen r := by
  fun_induction hexStr r with
  | case1 r h => rw [hexLen, if_pos h]; rfl
  | case2 r h ih => rw [hexLen, if_neg h, List.length_append, ih]; rfl

theorem log2_div16 (r : Nat) (h : 16 ≤ r) : Nat.log2 r = Nat.log2 (r / 16) + 4 := by
  rw [Nat.log2_def r, if_pos (by omega), Nat.log2_def (r/2), if_pos (by omega),
    Nat.log2_def (r/2/2), if_pos (by omega), Nat.log2_def (r/2/2/2), if_pos (by omega)]
  have : r / 2 / 2 / 2 / 2 = r / 16 := by omega
  rw [this]

theorem log2_div4_eq (r : Nat) (h : r ≠ 0) : Nat.log2 r / 4 + 1 = hexLen r := by
  induction r using Nat.strongRecOn with
  | _ r ih =>
    rw [hexLen]
    split
    · have : Nat.log2 r < 4 := (Nat.log2_lt h).2 (by omega)
      omega
    · rw [log2_div16 r (by omega), ← ih (r / 16) (by omega) (by omega)]
      omega

/-- `1 + (bits.Len32(r) - 1) / 4` is the number of hexadecimal digits of `r` (1 for 0) -/
theorem padStart_eq (r : Nat) : padStart r = (hexLen r : Int) := by
  unfold padStart bitsLen
  split
  · subst r; rw [hexLen]; simp
  · rename_i h
    rw [← log2_div4_eq r h]
    simp only [Int.natCast_add, Int.cast_ofNat_Int, Int.add_sub_cancel]
    rw [Int.add_comm]
    congr 1

theorem hexLen_le (r k : Nat) (h : r < 16 ^ (k + 1)) : hexLen r ≤ k + 1 := by
  induction k generalizing r with
  | zero => rw [hexLen, if_pos (by simpa using h)]; omega
  | succ k ih =>
    rw [hexLen]
    split
    · omega
    · have : r / 16 < 16 ^ (k + 1) := by
        apply Nat.div_lt_of_lt_mul
        rw [Nat.pow_succ, Nat.mul_comm] at h; exact h
      have := ih (r / 16) this
      omega

theorem hexLen_pos (r : Nat) : 1 ≤ hexLen r := by
  rw [hexLen]; split <;> omega

/-- value of a lower-case digit -/
theorem digitVal_hexDigit (d : Nat) (h : d < 16) : digitVal (hexDigit d) = some d := by
  revert d; decide

theorem parseDigits_append (base acc : Nat) (a b : List Byte) :
    parseDigits base acc (a ++ b) = (parseDigits base acc a).bind fun v => parseDigits base v b := by
  induction a generalizing acc with
  | nil => simp [parseDigits]
  | cons c a ih =>
    simp only [List.cons_append, parseDigits]
    cases digitVal c with
    | none => simp
    | some d =>
      simp only [Option.bind_some]
      split
      · exact ih _
      · simp

theorem parseDigits_hexStr (acc r : Nat) :
    parseDigits 16 acc (hexStr r) = some (acc * 16 ^ hexLen r + r) := by
  fun_induction hexStr r generalizing acc with
  | case1 r h =>
    rw [hexLen, if_pos h]
    simp [parseDigits, digitVal_hexDigit r h, h]
  | case2 r h ih =>
    rw [parseDigits_append, ih, hexLen_step r h]
    simp only [Option.bind_some, parseDigits, digitVal_hexDigit (r % 16) (by omega)]
    have : r % 16 < 16 := by omega
    simp only [this, if_true, Option.some.injEq]
    rw [Nat.pow_succ]
    have := Nat.div_add_mod r 16
    rw [Nat.add_mul, Nat.mul_assoc]
    omega

theorem parseDigits_zeros (acc k : Nat) (t : List Byte) :
    parseDigits 16 acc (List.replicate k 0x30#8 ++ t) = parseDigits 16 (acc * 16 ^ k) t := by
  induction k generalizing acc with
  | zero => simp
  | succ k ih =>
    rw [List.replicate_succ, List.cons_append, parseDigits]
    have : digitVal 0x30#8 = some 0 := by decide
    simp only [this, Option.bind_some, Nat.zero_lt_succ, if_true, Nat.add_zero]
    rw [ih, Nat.pow_succ]
    congr 1
    rw [Nat.mul_assoc, Nat.mul_comm 16]



theorem hexEscape_eq (w r : Nat) (h : hexLen r ≤ w) :
    hexEscape w r = some (List.replicate (w - hexLen r) 0x30#8 ++ hexStr r) := by
  unfold hexEscape zerosFrom
  rw [padStart_eq, if_pos (by omega)]
  simp

def Q : Byte := 0x22#8
def BS : Byte := 0x5c#8

theorem isInvalid_ascii (c : Nat) (h : c < 0x80) : isInvalid (c, 1) = false := by
  rw [Bool.eq_false_iff, ne_eq, isInvalid_iff]; simp only; omega

theorem parse_close (rest out : List Byte) :
    parseLoop 0x22#8 (0x22#8 :: rest) out = .ok (out, skipWs rest) := by
  rw [parseLoop.eq_def]
  simp [decodeRune_ascii, isInvalid_ascii]

theorem parse_esc_quote (T out : List Byte) :
    parseLoop 0x22#8 (0x5c#8 :: 0x22#8 :: T) out = parseLoop 0x22#8 T (out ++ [0x22#8]) := by
  rw [parseLoop.eq_def]
  simp [decodeRune_ascii, isInvalid_ascii]

theorem parse_esc_n (T out : List Byte) :
    parseLoop 0x22#8 (0x5c#8 :: 0x6e#8 :: T) out = parseLoop 0x22#8 T (out ++ [0x0a#8]) := by
  rw [parseLoop.eq_def]
  simp [decodeRune_ascii, isInvalid_ascii]



theorem parse_esc_bs (T out : List Byte) :
    parseLoop 0x22#8 (0x5c#8 :: 0x5c#8 :: T) out = parseLoop 0x22#8 T (out ++ [0x5c#8]) := by
  rw [parseLoop.eq_def]
  simp [decodeRune_ascii, isInvalid_ascii]

theorem parse_esc_r (T out : List Byte) :
    parseLoop 0x22#8 (0x5c#8 :: 0x72#8 :: T) out = parseLoop 0x22#8 T (out ++ [0x0d#8]) := by
  rw [parseLoop.eq_def]
  simp [decodeRune_ascii, isInvalid_ascii]

theorem parse_esc_t (T out : List Byte) :
    parseLoop 0x22#8 (0x5c#8 :: 0x74#8 :: T) out = parseLoop 0x22#8 T (out ++ [0x09#8]) := by
  rw [parseLoop.eq_def]
  simp [decodeRune_ascii, isInvalid_ascii]

theorem parse_esc_x (d1 d2 : Byte) (T out : List Byte) (v : Nat)
    (h1 : isHex d1 = true) (h2 : isHex d2 = true) (hv : parseUint 16 8 [d1, d2] = some v) :
    parseLoop 0x22#8 (0x5c#8 :: 0x78#8 :: d1 :: d2 :: T) out = parseLoop 0x22#8 T (out ++ [BitVec.ofNat 8 v]) := by
  rw [parseLoop.eq_def]
  have hm : min ((d1 :: d2 :: T).takeWhile isHex).length 2 = 2 := by
    simp only [List.takeWhile, h1, h2, List.length_cons]; omega
  simp [decodeRune_ascii, isInvalid_ascii, isOctal, hm, hv]

theorem parse_esc_u (d1 d2 d3 d4 : Byte) (T out : List Byte) (v : Nat)
    (hv : parseUint 16 32 [d1, d2, d3, d4] = some v) (hs : isScalar v = true) :
    parseLoop 0x22#8 (0x5c#8 :: 0x75#8 :: d1 :: d2 :: d3 :: d4 :: T) out
      = parseLoop 0x22#8 T (out ++ encodeRune v) := by
  rw [parseLoop.eq_def]
  rw [isScalar_iff] at hs
  have hns : isSurrogate v = false := by
    simp only [isSurrogate, Bool.and_eq_false_iff, decide_eq_false_iff_not]; omega
  have hle : ¬ (1114111 < v) := by omega
  simp [decodeRune_ascii, isInvalid_ascii, isOctal, hv, hns, hle]
  intro h; omega

theorem parse_esc_U (d1 d2 d3 d4 d5 d6 d7 d8 : Byte) (T out : List Byte) (v : Nat)
    (hv : parseUint 16 32 [d1, d2, d3, d4, d5, d6, d7, d8] = some v) (hs : isScalar v = true) :
    parseLoop 0x22#8 (0x5c#8 :: 0x55#8 :: d1 :: d2 :: d3 :: d4 :: d5 :: d6 :: d7 :: d8 :: T) out
      = parseLoop 0x22#8 T (out ++ encodeRune v) := by
  rw [parseLoop.eq_def]
  rw [isScalar_iff] at hs
  have hns : isSurrogate v = false := by
    simp only [isSurrogate, Bool.and_eq_false_iff, decide_eq_false_iff_not]; omega
  have hle : ¬ (1114111 < v) := by omega
  simp [decodeRune_ascii, isInvalid_ascii, isOctal, hv, hns, hle]
  intro h; omega



/-! ### indexNeedEscape -/

theorem needEscape_false_iff (c : Byte) : needEscape c = false ↔
    (0x20 ≤ c.toNat ∧ c.toNat < 0x7f ∧ c.toNat ≠ 0x22 ∧ c.toNat ≠ 0x27 ∧ c.toNat ≠ 0x5c) := by
  simp only [needEscape, Bool.or_eq_false_iff, decide_eq_false_iff_not, beq_eq_false_iff_ne, ne_eq,
    ← BitVec.toNat_inj, BitVec.toNat_ofNat]
  omega

theorem idx_le (l : List Byte) : indexNeedEscape l ≤ l.length := by
  induction l with
  | nil => simp [indexNeedEscape]
  | cons c t ih => simp only [indexNeedEscape]; split <;> simp <;> omega

theorem idx_take_nonesc (l : List Byte) : ∀ c ∈ l.take (indexNeedEscape l), needEscape c = false := by
  induction l with
  | nil => simp [indexNeedEscape]
  | cons c t ih =>
    simp only [indexNeedEscape]
    split
    · simp
    · rename_i h
      intro x hx
      simp only [List.take_succ_cons, List.mem_cons] at hx
      rcases hx with rfl | hx
      · simpa using h
      · exact ih x hx

theorem parse_nonesc_byte (c : Byte) (T out : List Byte) (h : needEscape c = false) :
    parseLoop 0x22#8 (c :: T) out
      = parseLoop 0x22#8 (T.drop (indexNeedEscape T)) (out ++ c :: T.take (indexNeedEscape T)) := by
  rw [needEscape_false_iff] at h
  rw [parseLoop.eq_def]
  have hc : c.toNat < 0x80 := by omega
  simp only [decodeRune_ascii c T hc, isInvalid_ascii c.toNat hc]
  have e1 : (c.toNat == 0 || c.toNat == 10) = false := by
    simp only [Bool.or_eq_false_iff, beq_eq_false_iff_ne]; omega
  have e2 : (c.toNat == (0x22#8 : Byte).toNat) = false := by
    simp only [beq_eq_false_iff_ne, BitVec.toNat_ofNat]; omega
  have e3 : (c.toNat == 92) = false := by simp only [beq_eq_false_iff_ne]; omega
  simp only [e1, e2, e3, Bool.false_eq_true, if_false, List.drop_succ_cons, List.drop_zero,
    Nat.add_comm 1, List.take_succ_cons]

theorem parse_skip (T out : List Byte) :
    parseLoop 0x22#8 T out
      = parseLoop 0x22#8 (T.drop (indexNeedEscape T)) (out ++ T.take (indexNeedEscape T)) := by
  cases T with
  | nil => simp [indexNeedEscape]
  | cons c t =>
    cases h : needEscape c with
    | true => simp [indexNeedEscape, h]
    | false =>
      rw [parse_nonesc_byte c t out h]
      simp [indexNeedEscape, h]

theorem parse_byte (c : Byte) (T out : List Byte) (h : needEscape c = false) :
    parseLoop 0x22#8 (c :: T) out = parseLoop 0x22#8 T (out ++ [c]) := by
  rw [parse_nonesc_byte c T out h, parse_skip T (out ++ [c])]
  simp

theorem parse_run (a T out : List Byte) (h : ∀ c ∈ a, needEscape c = false) :
    parseLoop 0x22#8 (a ++ T) out = parseLoop 0x22#8 T (out ++ a) := by
  induction a generalizing out with
  | nil => simp
  | cons c a ih =>
    rw [List.cons_append, parse_byte c _ _ (h c (by simp)), ih _ (fun x hx => h x (by simp [hx]))]
    simp


/-- a well-formed rune below 0x80 is its own single byte -/
theorem decodeRune_lt_80 (b : Byte) (t : List Byte) (hv : isInvalid (decodeRune (b :: t)) = false)
    (hr : (decodeRune (b :: t)).1 < 0x80) :
    (decodeRune (b :: t)).2 = 1 ∧ (decodeRune (b :: t)).1 = b.toNat := by
  have hb := b.isLt
  by_cases h : b.toNat < 0x80
  · rw [decodeRune_ascii b t h]; exact ⟨rfl, rfl⟩
  · exfalso
    have hsz := decodeRune_ok_size b t hv
    rw [if_pos hr] at hsz
    obtain ⟨_, _, he⟩ := decodeRune_ok b t hv
    rw [hsz] at he
    simp only [encodeRune, if_pos hr, List.take_succ_cons, List.take_zero, List.cons.injEq, and_true] at he
    have := congrArg BitVec.toNat he
    simp only [BitVec.toNat_ofNat] at this
    omega

theorem take_pos_cons (b : Byte) (t : List Byte) (n : Nat) (h : 1 ≤ n) :
    (b :: t).take n = b :: t.take (n - 1) := by
  cases n with
  | zero => omega
  | succ n => simp

/-- a raw (copied) rune: the parser copies it too and goes on -/
theorem parse_raw_rune (b : Byte) (t T out : List Byte)
    (hv : isInvalid (decodeRune (b :: t)) = false)
    (h0 : (decodeRune (b :: t)).1 ≠ 0) (h1 : (decodeRune (b :: t)).1 ≠ 0x0a)
    (h2 : (decodeRune (b :: t)).1 ≠ 0x22) (h3 : (decodeRune (b :: t)).1 ≠ 0x5c) :
    parseLoop 0x22#8 ((b :: t).take (decodeRune (b :: t)).2 ++ T) out
      = parseLoop 0x22#8 T (out ++ (b :: t).take (decodeRune (b :: t)).2) := by
  have hn := decodeRune_size_pos b t
  obtain ⟨_, hle, _⟩ := decodeRune_ok b t hv
  have hd := decodeRune_prefix b t T hv
  generalize hA : (b :: t).take (decodeRune (b :: t)).2 = A at *
  have hAl : A.length = (decodeRune (b :: t)).2 := by rw [← hA, List.length_take]; omega
  have hA' : A = b :: t.take ((decodeRune (b :: t)).2 - 1) := by rw [← hA]; exact take_pos_cons b t _ hn
  generalize (decodeRune (b :: t)) = d at *
  obtain ⟨r, n⟩ := d
  simp only at *
  conv => lhs; rw [hA', List.cons_append, parseLoop.eq_def]
  simp only
  rw [← List.cons_append, ← hA', hd, hv]
  have e1 : (r == 0 || r == 10) = false := by
    simp only [Bool.or_eq_false_iff, beq_eq_false_iff_ne]; exact ⟨h0, h1⟩
  have e2 : (r == (0x22#8 : Byte).toNat) = false := by
    simp only [beq_eq_false_iff_ne, BitVec.toNat_ofNat]; exact h2
  have e3 : (r == 92) = false := by simp only [beq_eq_false_iff_ne]; exact h3
  simp only [e1, e2, e3, Bool.false_eq_true, if_false]
  rw [← hAl, List.drop_left, List.drop_append, List.take_append, List.take_of_length_le (Nat.le_add_right _ _)]
  simp only [Nat.add_sub_cancel_left, List.drop_of_length_le (Nat.le_add_right _ _), List.nil_append]
  rw [← List.append_assoc, ← parse_skip T (out ++ A)]



theorem isHex_hexDigit (d : Nat) (h : d < 16) : isHex (hexDigit d) = true := by
  simp [isHex, digitVal_hexDigit d h]

theorem hexStr_all_hex (r : Nat) : ∀ d ∈ hexStr r, isHex d = true := by
  fun_induction hexStr r with
  | case1 r h => intro d hd; simp only [List.mem_singleton] at hd; subst hd; exact isHex_hexDigit r h
  | case2 r h ih =>
    intro d hd
    rcases List.mem_append.mp hd with hd | hd
    · exact ih d hd
    · simp only [List.mem_singleton] at hd; subst hd; exact isHex_hexDigit _ (by omega)

/-- what `hexEscape w r` writes when `r` fits in `w` digits: `w` hexadecimal digits whose value is `r` -/
theorem hexEscape_spec (w r : Nat) (h : r < 16 ^ (w + 1)) :
    ∃ ds, hexEscape (w + 1) r = some ds ∧ ds.length = w + 1 ∧ (∀ d ∈ ds, isHex d = true) ∧
      parseDigits 16 0 ds = some r := by
  have hl := hexLen_le r w h
  have hp := hexLen_pos r
  refine ⟨_, hexEscape_eq (w + 1) r hl, ?_, ?_, ?_⟩
  · rw [List.length_append, List.length_replicate, hexStr_length]; omega
  · intro d hd
    rcases List.mem_append.mp hd with hd | hd
    · rw [List.mem_replicate] at hd; rw [hd.2]; decide
    · exact hexStr_all_hex r d hd
  · rw [parseDigits_zeros, parseDigits_hexStr]; simp

theorem parseUint_of_digits (bits : Nat) (ds : List Byte) (v : Nat) (hne : ds ≠ [])
    (hp : parseDigits 16 0 ds = some v) (hv : v < 2 ^ bits) : parseUint 16 bits ds = some v := by
  unfold parseUint
  have : ds.isEmpty = false := by cases ds <;> simp_all
  simp [this, hp, hv]

/-- the short escapes (`\"  \\  \n  \r  \t  \xHH`) of any byte parse back to that byte -/
theorem parse_escapeShort (b : Byte) (e T out : List Byte) (he : escapeShort b.toNat = some e) :
    parseLoop 0x22#8 (0x5c#8 :: e ++ T) out = parseLoop 0x22#8 T (out ++ [b]) := by
  have hb := b.isLt
  unfold escapeShort at he
  split at he
  · rename_i h
    simp only [Option.some.injEq] at he; subst he
    have hb' : BitVec.ofNat 8 b.toNat = b := by simp
    rw [hb']
    rcases h with h | h
    · have : b = 0x22#8 := by apply BitVec.eq_of_toNat_eq; simpa using h
      subst this; exact parse_esc_quote T out
    · have : b = 0x5c#8 := by apply BitVec.eq_of_toNat_eq; simpa using h
      subst this; exact parse_esc_bs T out
  split at he
  · rename_i h
    simp only [Option.some.injEq] at he; subst he
    have : b = 0x0a#8 := by apply BitVec.eq_of_toNat_eq; simpa using h
    subst this; exact parse_esc_n T out
  split at he
  · rename_i h
    simp only [Option.some.injEq] at he; subst he
    have : b = 0x0d#8 := by apply BitVec.eq_of_toNat_eq; simpa using h
    subst this; exact parse_esc_r T out
  split at he
  · rename_i h
    simp only [Option.some.injEq] at he; subst he
    have : b = 0x09#8 := by apply BitVec.eq_of_toNat_eq; simpa using h
    subst this; exact parse_esc_t T out
  · obtain ⟨ds, hds, hlen, hhex, hpd⟩ := hexEscape_spec 1 b.toNat (by simpa using hb)
    rw [hds] at he
    simp only [Option.map_some, Option.some.injEq] at he; subst he
    match ds, hlen with
    | [d1, d2], _ =>
      have hu := parseUint_of_digits 8 [d1, d2] b.toNat (by simp) hpd (by simpa using hb)
      have := parse_esc_x d1 d2 T out b.toNat (hhex d1 (by simp)) (hhex d2 (by simp)) hu
      simpa using this

/-- the `\uXXXX` / `\UXXXXXXXX` escape of a scalar value parses back to its UTF-8 encoding -/
theorem parse_escapeUnicode (r : Nat) (e T out : List Byte) (hs : isScalar r = true)
    (he : escapeUnicode r = some e) :
    parseLoop 0x22#8 (0x5c#8 :: e ++ T) out = parseLoop 0x22#8 T (out ++ encodeRune r) := by
  have hs' := (isScalar_iff r).1 hs
  unfold escapeUnicode at he
  split at he
  · rename_i h
    obtain ⟨ds, hds, hlen, _, hpd⟩ := hexEscape_spec 3 r (by simp; omega)
    rw [hds] at he
    simp only [Option.map_some, Option.some.injEq] at he; subst he
    match ds, hlen with
    | [d1, d2, d3, d4], _ =>
      have hu := parseUint_of_digits 32 [d1, d2, d3, d4] r (by simp) hpd (by omega)
      exact parse_esc_u d1 d2 d3 d4 T out r hu hs
  · rename_i h
    obtain ⟨ds, hds, hlen, _, hpd⟩ := hexEscape_spec 7 r (by simp; omega)
    rw [hds] at he
    simp only [Option.map_some, Option.some.injEq] at he; subst he
    match ds, hlen with
    | [d1, d2, d3, d4, d5, d6, d7, d8], _ =>
      have hu := parseUint_of_digits 32 [d1, d2, d3, d4, d5, d6, d7, d8] r (by simp) hpd (by omega)
      exact parse_esc_U d1 d2 d3 d4 d5 d6 d7 d8 T out r hu hs



/-- **main loop invariant**: whatever follows, the parser turns the bytes written by the encoder loop
for `inp` back into `inp`. -/
theorem parse_escLoop (inp : List Byte) (ascii : Bool) (o : List Byte) (h : escLoop inp ascii = some o)
    (T out : List Byte) :
    parseLoop 0x22#8 (o ++ T) out = parseLoop 0x22#8 T (out ++ inp) := by
  fun_induction escLoop inp ascii generalizing o out with
  | case1 => simp only [Option.some.injEq] at h; subst h; simp
  | case2 b t d n inval r hc ih =>
    -- escape-short branch: the rune is the single byte `b`
    have key : n = 1 ∧ r = b.toNat := by
      cases hi : inval with
      | true =>
        have := (isInvalid_iff d).1 hi
        exact ⟨this.2, by simp only [r, hi, dite_true]⟩
      | false =>
        have hr : r = d.1 := by simp only [r, hi]; rfl
        have hlt : d.1 < 0x80 := by
          simp only [hi, Bool.false_or, Bool.or_eq_true, decide_eq_true_eq, beq_iff_eq, hr] at hc
          omega
        have := decodeRune_lt_80 b t hi hlt
        exact ⟨this.1, hr.trans this.2⟩
    obtain ⟨hn, hr⟩ := key
    rw [hr, hn] at h
    cases he : escapeShort b.toNat with
    | none => rw [he] at h; simp at h
    | some e =>
      rw [he] at h
      simp only [Option.bind_some, Option.map_eq_some_iff] at h
      obtain ⟨tl, htl, rfl⟩ := h
      have ih' := ih tl (by rw [hn]; exact htl) (out ++ [b])
      simp only [List.cons_append, List.append_assoc]
      have step := parse_escapeShort b e (tl ++ T) out he
      simp only [List.cons_append] at step
      rw [step, ih', hn]
      simp
  | case3 b t d n inval r hc1 hc2 ih =>
    -- \u / \U branch: a well-formed rune
    have hi : inval = false := by
      cases hi : inval with
      | true => simp [hi] at hc1
      | false => rfl
    have hr : r = d.1 := by simp only [r, hi]; rfl
    obtain ⟨hs, _, henc⟩ := decodeRune_ok b t hi
    rw [hr] at h
    cases he : escapeUnicode d.1 with
    | none => rw [he] at h; simp at h
    | some e =>
      rw [he] at h
      simp only [Option.bind_some, Option.map_eq_some_iff] at h
      obtain ⟨tl, htl, rfl⟩ := h
      have ih' := ih tl htl (out ++ encodeRune d.1)
      simp only [List.cons_append, List.append_assoc]
      have step := parse_escapeUnicode d.1 e (tl ++ T) out hs he
      simp only [List.cons_append] at step
      rw [step, ih', henc,
        List.append_assoc, List.take_append_drop]
  | case4 b t d n inval r hc1 hc2 i ih =>
    -- raw copy of a rune and of the bytes after it that need no escape
    have hi : inval = false := by
      cases hi : inval with
      | true => simp [hi] at hc1
      | false => rfl
    have hr : r = d.1 := by simp only [r, hi]; rfl
    simp only [hi, Bool.false_or, Bool.or_eq_true, decide_eq_true_eq, beq_iff_eq, hr, not_or] at hc1
    simp only [Option.map_eq_some_iff] at h
    obtain ⟨tl, htl, rfl⟩ := h
    have ih' := ih tl htl
    have g0 : d.1 ≠ 0 := by omega
    have g1 : d.1 ≠ 0x0a := by omega
    have g2 : d.1 ≠ 0x22 := by omega
    have g3 : d.1 ≠ 0x5c := by omega
    rw [List.take_add, List.append_assoc, List.append_assoc,
      parse_raw_rune b t _ out hi g0 g1 g2 g3,
      parse_run _ _ _ (idx_take_nonesc _), ih']
    congr 1
    show out ++ List.take n (b :: t) ++ List.take i (List.drop n (b :: t)) ++ List.drop (n + i) (b :: t) = out ++ b :: t
    rw [← List.drop_drop, List.append_assoc, List.append_assoc, List.take_append_drop, List.take_append_drop]


/-! ### the encoder never hits a slice panic -/

theorem escapeShort_isSome (b : Byte) : ∃ e, escapeShort b.toNat = some e := by
  have hb := b.isLt
  unfold escapeShort
  repeat' split
  all_goals first
    | exact ⟨_, rfl⟩
    | (obtain ⟨ds, hds, _⟩ := hexEscape_spec 1 b.toNat (by simpa using hb)
       exact ⟨_, by rw [hds]; rfl⟩)

theorem escapeUnicode_isSome (r : Nat) (h : r ≤ 0x10FFFF) : ∃ e, escapeUnicode r = some e := by
  unfold escapeUnicode
  split
  · obtain ⟨ds, hds, _⟩ := hexEscape_spec 3 r (by simp; omega)
    exact ⟨_, by rw [hds]; rfl⟩
  · obtain ⟨ds, hds, _⟩ := hexEscape_spec 7 r (by simp; omega)
    exact ⟨_, by rw [hds]; rfl⟩

/-- in the first escape case the rune is always the single byte `b` -/
theorem short_case_byte (b : Byte) (t : List Byte)
    (hc : (isInvalid (decodeRune (b :: t)) ||
            decide ((if isInvalid (decodeRune (b :: t)) then b.toNat else (decodeRune (b :: t)).1) < 0x20) ||
            (if isInvalid (decodeRune (b :: t)) then b.toNat else (decodeRune (b :: t)).1) == 0x22 ||
            (if isInvalid (decodeRune (b :: t)) then b.toNat else (decodeRune (b :: t)).1) == 0x5c ||
            (if isInvalid (decodeRune (b :: t)) then b.toNat else (decodeRune (b :: t)).1) == 0x7f) = true) :
    (decodeRune (b :: t)).2 = 1 ∧
    (if isInvalid (decodeRune (b :: t)) then b.toNat else (decodeRune (b :: t)).1) = b.toNat := by
  cases hi : isInvalid (decodeRune (b :: t)) with
  | true => exact ⟨((isInvalid_iff _).1 hi).2, by simp⟩
  | false =>
    simp only [hi, Bool.false_or, Bool.false_eq_true, if_false, Bool.or_eq_true, decide_eq_true_eq,
      beq_iff_eq] at hc ⊢
    exact decodeRune_lt_80 b t hi (by omega)

theorem escLoop_total (inp : List Byte) (ascii : Bool) : ∃ o, escLoop inp ascii = some o := by
  fun_induction escLoop inp ascii with
  | case1 => exact ⟨_, rfl⟩
  | case2 b t d n inval r hc ih =>
    have key := short_case_byte b t hc
    obtain ⟨e, he⟩ := escapeShort_isSome b
    obtain ⟨tl, htl⟩ := ih
    have hr : r = b.toNat := key.2
    rw [hr, he, htl]; exact ⟨_, rfl⟩
  | case3 b t d n inval r hc1 hc2 ih =>
    have hi : inval = false := by
      cases hi : inval with
      | true => simp [hi] at hc1
      | false => rfl
    have hr : r = d.1 := by simp only [r, hi]; rfl
    obtain ⟨e, he⟩ := escapeUnicode_isSome d.1 (decodeRune_le_maxRune _)
    obtain ⟨tl, htl⟩ := ih
    rw [hr, he, htl]; exact ⟨_, rfl⟩
  | case4 b t d n inval r hc1 hc2 i ih =>
    obtain ⟨tl, htl⟩ := ih
    rw [htl]; exact ⟨_, rfl⟩



/-! ### the lexical shape of the output -/

/-- a byte the encoder copies verbatim -/
def rawOK (ascii : Bool) (c : Byte) : Prop :=
  0x20 ≤ c.toNat ∧ c.toNat ≠ 0x7f ∧ c.toNat ≠ 0x22 ∧ c.toNat ≠ 0x5c ∧ (ascii = true → c.toNat < 0x7f)

/-- the letter after a backslash that the encoder can write -/
def escLetter (x : Byte) : Prop :=
  x = 0x22#8 ∨ x = 0x5c#8 ∨ x = 0x6e#8 ∨ x = 0x72#8 ∨ x = 0x74#8 ∨ x = 0x78#8 ∨ x = 0x75#8 ∨ x = 0x55#8

/-- the output of the encoder loop is a sequence of escape sequences `\` letter hex* and verbatim bytes -/
inductive Pieces (ascii : Bool) : List Byte → Prop
  | nil : Pieces ascii []
  | esc (x : Byte) (ds rest : List Byte) : escLetter x → (∀ d ∈ ds, isHex d = true) → Pieces ascii rest →
      Pieces ascii (0x5c#8 :: x :: ds ++ rest)
  | raw (c : Byte) (rest : List Byte) : rawOK ascii c → Pieces ascii rest → Pieces ascii (c :: rest)

theorem Pieces.raw_run (ascii : Bool) (a rest : List Byte) (h : ∀ c ∈ a, rawOK ascii c)
    (hr : Pieces ascii rest) : Pieces ascii (a ++ rest) := by
  induction a with
  | nil => exact hr
  | cons c a ih => exact Pieces.raw c _ (h c (by simp)) (ih (fun x hx => h x (by simp [hx])))

theorem Pieces.append (ascii : Bool) (a b : List Byte) (ha : Pieces ascii a) (hb : Pieces ascii b) :
    Pieces ascii (a ++ b) := by
  induction ha with
  | nil => exact hb
  | esc x ds rest hx hds _ ih =>
    have : 0x5c#8 :: x :: ds ++ rest ++ b = 0x5c#8 :: x :: ds ++ (rest ++ b) := by simp
    rw [this]; exact Pieces.esc x ds _ hx hds ih
  | raw c rest hc _ ih => exact Pieces.raw c _ hc ih

theorem rawOK_of_nonesc (ascii : Bool) (c : Byte) (h : needEscape c = false) : rawOK ascii c := by
  rw [needEscape_false_iff] at h
  unfold rawOK; omega

theorem escapeShort_shape (b : Byte) (e : List Byte) (he : escapeShort b.toNat = some e) :
    ∃ x ds, e = x :: ds ∧ escLetter x ∧ ∀ d ∈ ds, isHex d = true := by
  have hb := b.isLt
  unfold escapeShort at he
  split at he
  · rename_i h
    simp only [Option.some.injEq] at he; subst he
    refine ⟨_, [], rfl, ?_, by simp⟩
    rcases h with h | h <;> rw [h] <;> simp [escLetter]
  split at he
  · simp only [Option.some.injEq] at he; subst he; exact ⟨_, [], rfl, by simp [escLetter], by simp⟩
  split at he
  · simp only [Option.some.injEq] at he; subst he; exact ⟨_, [], rfl, by simp [escLetter], by simp⟩
  split at he
  · simp only [Option.some.injEq] at he; subst he; exact ⟨_, [], rfl, by simp [escLetter], by simp⟩
  · obtain ⟨ds, hds, _, hhex, _⟩ := hexEscape_spec 1 b.toNat (by simpa using hb)
    rw [hds] at he
    simp only [Option.map_some, Option.some.injEq] at he; subst he
    exact ⟨_, ds, rfl, by simp [escLetter], hhex⟩

theorem escapeUnicode_shape (r : Nat) (e : List Byte) (h : r ≤ 0x10FFFF) (he : escapeUnicode r = some e) :
    ∃ x ds, e = x :: ds ∧ escLetter x ∧ ∀ d ∈ ds, isHex d = true := by
  unfold escapeUnicode at he
  split at he
  · obtain ⟨ds, hds, _, hhex, _⟩ := hexEscape_spec 3 r (by simp; omega)
    rw [hds] at he
    simp only [Option.map_some, Option.some.injEq] at he; subst he
    exact ⟨_, ds, rfl, by simp [escLetter], hhex⟩
  · obtain ⟨ds, hds, _, hhex, _⟩ := hexEscape_spec 7 r (by simp; omega)
    rw [hds] at he
    simp only [Option.map_some, Option.some.injEq] at he; subst he
    exact ⟨_, ds, rfl, by simp [escLetter], hhex⟩

/-- all bytes of the encoding of a scalar value ≥ 0x80 are ≥ 0x80 -/
theorem encodeRune_high (r : Nat) (hs : isScalar r = true) (h : 0x80 ≤ r) :
    ∀ c ∈ encodeRune r, 0x80 ≤ c.toNat := by
  rw [isScalar_iff] at hs
  unfold encodeRune
  rw [if_neg (by omega)]
  split
  · intro c hc
    simp only [List.mem_cons, List.not_mem_nil, or_false] at hc
    rcases hc with rfl | rfl <;> simp only [BitVec.toNat_ofNat] <;> omega
  rw [if_neg (by omega)]
  split
  · intro c hc
    simp only [List.mem_cons, List.not_mem_nil, or_false] at hc
    rcases hc with rfl | rfl | rfl <;> simp only [BitVec.toNat_ofNat] <;> omega
  · intro c hc
    simp only [List.mem_cons, List.not_mem_nil, or_false] at hc
    rcases hc with rfl | rfl | rfl | rfl <;> simp only [BitVec.toNat_ofNat] <;> omega

theorem escLoop_pieces (inp : List Byte) (ascii : Bool) (o : List Byte) (h : escLoop inp ascii = some o) :
    Pieces ascii o := by
  fun_induction escLoop inp ascii generalizing o with
  | case1 => simp only [Option.some.injEq] at h; subst h; exact Pieces.nil
  | case2 b t d n inval r hc ih =>
    have key := short_case_byte b t hc
    have hr : r = b.toNat := key.2
    rw [hr] at h
    cases he : escapeShort b.toNat with
    | none => rw [he] at h; simp at h
    | some e =>
      rw [he] at h
      simp only [Option.bind_some, Option.map_eq_some_iff] at h
      obtain ⟨tl, htl, rfl⟩ := h
      obtain ⟨x, ds, rfl, hx, hds⟩ := escapeShort_shape b e he
      exact Pieces.esc x ds tl hx hds (ih tl htl)
  | case3 b t d n inval r hc1 hc2 ih =>
    have hi : inval = false := by
      cases hi : inval with
      | true => simp [hi] at hc1
      | false => rfl
    have hr : r = d.1 := by simp only [r, hi]; rfl
    rw [hr] at h
    cases he : escapeUnicode d.1 with
    | none => rw [he] at h; simp at h
    | some e =>
      rw [he] at h
      simp only [Option.bind_some, Option.map_eq_some_iff] at h
      obtain ⟨tl, htl, rfl⟩ := h
      obtain ⟨x, ds, rfl, hx, hds⟩ := escapeUnicode_shape d.1 e (decodeRune_le_maxRune _) he
      exact Pieces.esc x ds tl hx hds (ih tl htl)
  | case4 b t d n inval r hc1 hc2 i ih =>
    have hi : inval = false := by
      cases hi : inval with
      | true => simp [hi] at hc1
      | false => rfl
    have hr : r = d.1 := by simp only [r, hi]; rfl
    simp only [hi, Bool.false_or, Bool.or_eq_true, decide_eq_true_eq, beq_iff_eq, hr, not_or] at hc1
    simp only [hr, Bool.and_eq_true, Bool.or_eq_true, decide_eq_true_eq, not_and, not_or] at hc2
    simp only [Option.map_eq_some_iff] at h
    obtain ⟨tl, htl, rfl⟩ := h
    obtain ⟨hs, _, henc⟩ := decodeRune_ok b t hi
    rw [List.take_add, List.append_assoc]
    apply Pieces.raw_run
    · -- the bytes of the rune
      intro c hc
      by_cases hlt : d.1 < 0x80
      · have := decodeRune_lt_80 b t hi hlt
        have hn1 : n = 1 := this.1
        rw [hn1] at hc
        simp only [List.take_succ_cons, List.take_zero, List.mem_singleton] at hc
        subst hc
        have : d.1 = c.toNat := this.2
        unfold rawOK; omega
      · have hhigh := encodeRune_high d.1 hs (by omega) c (by rw [henc]; exact hc)
        have hb := c.isLt
        have hna : ascii = false := by
          cases ascii with
          | true => exact absurd (hc2 (by omega)).1 (by simp)
          | false => rfl
        unfold rawOK; subst hna; simp; omega
    · apply Pieces.raw_run
      · intro c hc; exact rawOK_of_nonesc ascii c (idx_take_nonesc _ c hc)
      · exact ih tl htl


/-! ### lexical check of a literal body (what a scanner that only knows "backslash escapes the next byte" sees) -/

/-- `true` iff the body of a `"`-delimited literal contains no control byte, no DEL, no unescaped `"`,
and no backslash at the very end -/
def bodyOK : List Byte → Bool
  | [] => true
  | c :: t =>
    if c == 0x5c#8 then
      match t with
      | [] => false
      | _ :: t' => bodyOK t'
    else if c.toNat < 0x20 || c == 0x22#8 || c.toNat == 0x7f then false
    else bodyOK t

theorem isHex_range (d : Byte) (h : isHex d = true) :
    (0x30 ≤ d.toNat ∧ d.toNat ≤ 0x39) ∨ (0x61 ≤ d.toNat ∧ d.toNat ≤ 0x66) ∨ (0x41 ≤ d.toNat ∧ d.toNat ≤ 0x46) := by
  unfold isHex digitVal at h
  simp only at h
  repeat' split at h
  all_goals first | omega | simp at h

theorem bodyOK_plain (c : Byte) (t : List Byte) (h1 : 0x20 ≤ c.toNat) (h2 : c.toNat ≠ 0x7f)
    (h3 : c.toNat ≠ 0x22) (h4 : c.toNat ≠ 0x5c) : bodyOK (c :: t) = bodyOK t := by
  have e1 : (c == 0x5c#8) = false := by
    rw [beq_eq_false_iff_ne, ne_eq, ← BitVec.toNat_inj]; simpa using h4
  have e2 : (c == 0x22#8) = false := by
    rw [beq_eq_false_iff_ne, ne_eq, ← BitVec.toNat_inj]; simpa using h3
  have e3 : (decide (c.toNat < 0x20)) = false := by simp; omega
  have e4 : (c.toNat == 0x7f) = false := by simpa using h2
  conv => lhs; unfold bodyOK
  simp only [e1, e2, e3, e4, Bool.false_eq_true, if_false, Bool.or_false]

theorem bodyOK_hex_run (ds t : List Byte) (h : ∀ d ∈ ds, isHex d = true) : bodyOK (ds ++ t) = bodyOK t := by
  induction ds with
  | nil => rfl
  | cons d ds ih =>
    have := isHex_range d (h d (by simp))
    rw [List.cons_append, bodyOK_plain d _ (by omega) (by omega) (by omega) (by omega)]
    exact ih (fun x hx => h x (by simp [hx]))

theorem bodyOK_of_pieces (ascii : Bool) (o : List Byte) (h : Pieces ascii o) : bodyOK o = true := by
  induction h with
  | nil => rfl
  | esc x ds rest _ hds _ ih =>
    show bodyOK (0x5c#8 :: (x :: ds ++ rest)) = true
    unfold bodyOK
    simp only [beq_self_eq_true, if_true, List.cons_append]
    rw [bodyOK_hex_run ds rest hds]; exact ih
  | raw c rest hc _ ih =>
    obtain ⟨h1, h2, h3, h4, _⟩ := hc
    rw [bodyOK_plain c rest h1 h2 h3 h4]; exact ih

/-- every byte of a piece sequence is ≥ 0x20 and not DEL; with `ascii` also ≤ 0x7e -/
theorem pieces_bytes (ascii : Bool) (o : List Byte) (h : Pieces ascii o) :
    ∀ c ∈ o, 0x20 ≤ c.toNat ∧ c.toNat ≠ 0x7f ∧ (ascii = true → c.toNat ≤ 0x7e) := by
  induction h with
  | nil => simp
  | esc x ds rest hx hds _ ih =>
    intro c hc
    simp only [List.cons_append, List.mem_cons, List.mem_append] at hc
    rcases hc with rfl | rfl | hc | hc
    · simp
    · rcases hx with h | h | h | h | h | h | h | h <;> subst h <;> simp
    · have := isHex_range c (hds c hc); omega
    · exact ih c hc
  | raw c' rest hc' _ ih =>
    intro c hc
    rcases List.mem_cons.mp hc with rfl | hc
    · obtain ⟨h1, h2, _, _, h5⟩ := hc'
      exact ⟨h1, h2, fun ha => by have := h5 ha; omega⟩
    · exact ih c hc

/-- the loop condition of `parseStringValue`: `len(d.in) > 0 && (d.in[0] == '"' || d.in[0] == '\'')` -/
def startsWithQuote : List Byte → Bool
  | [] => false
  | c :: _ => c == 0x22#8 || c == 0x27#8

theorem parse_skip_nil (T : List Byte) :
    parseLoop 0x22#8 (T.drop (indexNeedEscape T)) (T.take (indexNeedEscape T)) = parseLoop 0x22#8 T [] := by
  have := parse_skip T []
  simp only [List.nil_append] at this
  exact this.symm

end Model.TextStr
