import PbVerif.Model.Registry
/-
Helper lemmas for C33: association lists, the package-prefix walk, descriptor trees,
`findDescriptorInMessage`, and the refinement invariants between the concrete registry model and
the abstract name table.  Core Lean only.
-/
namespace Model.Registry

/-! ## association lists -/
section AL
variable {α β : Type} [DecidableEq α]

theorem alLookup_alSet (k k' : α) (v : β) (D : List (α × β)) :
    alLookup k' (alSet k v D) = if k' = k then some v else alLookup k' D := by
  induction D with
  | nil =>
    simp only [alSet, alLookup]
    by_cases h : k' = k
    · simp [h]
    · have : ¬ k = k' := fun e => h e.symm
      simp [h, this]
  | cons p r ih =>
    obtain ⟨k0, v0⟩ := p
    simp only [alSet]
    by_cases h0 : k0 = k
    · subst h0
      simp only [if_true, alLookup]
      by_cases h : k0 = k'
      · subst h; simp
      · have : ¬ k' = k0 := fun e => h e.symm
        simp [h, this]
    · simp only [h0, if_false, alLookup, ih]
      by_cases h : k0 = k'
      · subst h; simp [h0]
      · simp [h]

theorem alLookup_alSet_self (k : α) (v : β) (D : List (α × β)) :
    alLookup k (alSet k v D) = some v := by simp [alLookup_alSet]

theorem alLookup_alSet_ne {k k' : α} (h : k' ≠ k) (v : β) (D : List (α × β)) :
    alLookup k' (alSet k v D) = alLookup k' D := by simp [alLookup_alSet, h]

theorem alLookup_eq_none_iff (k : α) (D : List (α × β)) :
    alLookup k D = none ↔ k ∉ D.map (·.1) := by
  induction D with
  | nil => simp [alLookup]
  | cons p r ih =>
    obtain ⟨k0, v0⟩ := p
    simp only [alLookup, List.map_cons, List.mem_cons, not_or]
    by_cases h : k0 = k
    · subst h; simp
    · have : ¬ k = k0 := fun e => h e.symm
      simp [h, ih, this]

theorem mem_of_alLookup {k : α} {v : β} {D : List (α × β)} (h : alLookup k D = some v) : (k, v) ∈ D := by
  induction D with
  | nil => simp [alLookup] at h
  | cons p r ih =>
    obtain ⟨k0, v0⟩ := p
    simp only [alLookup] at h
    by_cases h0 : k0 = k
    · subst h0; simp at h; subst h; simp
    · simp [h0] at h; exact List.mem_cons_of_mem _ (ih h)

theorem alLookup_isSome_of_mem {k : α} {v : β} {D : List (α × β)} (h : (k, v) ∈ D) :
    (alLookup k D).isSome := by
  cases hl : alLookup k D with
  | some _ => rfl
  | none =>
    rw [alLookup_eq_none_iff] at hl
    exact absurd (List.mem_map.mpr ⟨(k, v), h, rfl⟩) hl

theorem alLookup_of_mem_nodup {k : α} {v : β} {D : List (α × β)} (nd : (D.map (·.1)).Nodup)
    (h : (k, v) ∈ D) : alLookup k D = some v := by
  induction D with
  | nil => cases h
  | cons p r ih =>
    obtain ⟨k0, v0⟩ := p
    simp only [List.map_cons, List.nodup_cons] at nd
    simp only [alLookup]
    rcases List.mem_cons.mp h with e | e
    · cases e; simp
    · have : k0 ≠ k := by
        intro e'; subst e'
        exact nd.1 (List.mem_map.mpr ⟨(k0, v), e, rfl⟩)
      simp [this, ih nd.2 e]

theorem alLookup_append (k : α) (A B : List (α × β)) :
    alLookup k (A ++ B) = match alLookup k A with
      | some v => some v
      | none => alLookup k B := by
  induction A with
  | nil => simp [alLookup]
  | cons p r ih =>
    obtain ⟨k0, v0⟩ := p
    simp only [List.cons_append, alLookup]
    by_cases h : k0 = k
    · simp [h]
    · simp [h, ih]

theorem alSet_of_lookup_none {k : α} {D : List (α × β)} (v : β) (h : alLookup k D = none) :
    alSet k v D = D ++ [(k, v)] := by
  induction D with
  | nil => rfl
  | cons p r ih =>
    obtain ⟨k0, v0⟩ := p
    simp only [alLookup] at h
    by_cases h0 : k0 = k
    · simp [h0] at h
    · simp only [h0, if_false] at h
      simp [alSet, h0, ih h]

/-- lookup in a list built by `map` is `find?` -/
theorem alLookup_map {γ : Type} (key : γ → α) (val : γ → β) (n : α) (a : List γ) :
    alLookup n (a.map (fun t => (key t, val t))) = (a.find? (fun t => key t = n)).map val := by
  induction a with
  | nil => rfl
  | cons t r ih =>
    simp only [List.map_cons, alLookup, List.find?_cons]
    by_cases h : key t = n
    · simp [h]
    · simp [h, ih]

theorem alLookup_setAll_of_not_mem {k : α} (es : List (α × β)) (D : List (α × β))
    (h : k ∉ es.map (·.1)) : alLookup k (setAll D es) = alLookup k D := by
  induction es generalizing D with
  | nil => rfl
  | cons e r ih =>
    simp only [List.map_cons, List.mem_cons, not_or] at h
    simp only [setAll, List.foldl_cons]
    have := ih (alSet e.1 e.2 D) h.2
    simp only [setAll] at this
    rw [this, alLookup_alSet_ne h.1]

theorem alLookup_setAll_of_mem {k : α} {v : β} (es : List (α × β)) (D : List (α × β))
    (nd : (es.map (·.1)).Nodup) (h : (k, v) ∈ es) : alLookup k (setAll D es) = some v := by
  induction es generalizing D with
  | nil => cases h
  | cons e r ih =>
    simp only [List.map_cons, List.nodup_cons] at nd
    simp only [setAll, List.foldl_cons]
    rcases List.mem_cons.mp h with e' | e'
    · subst e'
      have := alLookup_setAll_of_not_mem r (alSet k v D) nd.1
      simp only [setAll] at this
      rw [this, alLookup_alSet_self]
    · have := ih (alSet e.1 e.2 D) nd.2 e'
      simpa only [setAll] using this

end AL

/-! ## the prefix walk -/

theorem prefixesDesc_nil : prefixesDesc [] = [] := rfl

theorem prefixesDesc_concat (l : FullName) (a : Name) :
    prefixesDesc (l ++ [a]) = (l ++ [a]) :: prefixesDesc l := by
  simp [prefixesDesc, prefixesAux]

theorem eq_concat_of_ne_nil {α : Type} (l : List α) (h : l ≠ []) : ∃ t a, l = t ++ [a] :=
  ⟨l.dropLast, l.getLast h, (List.dropLast_concat_getLast h).symm⟩

theorem prefixesDesc_ne_nil (l : FullName) (h : l ≠ []) :
    prefixesDesc l = l :: prefixesDesc l.dropLast := by
  obtain ⟨t, a, rfl⟩ := eq_concat_of_ne_nil l h
  rw [prefixesDesc_concat, List.dropLast_concat]

theorem list_concat_induction {α : Type} {P : List α → Prop} (l : List α) (h0 : P [])
    (h1 : ∀ t a, P t → P (t ++ [a])) : P l := by
  generalize hn : l.length = n
  induction n generalizing l with
  | zero => have : l = [] := List.eq_nil_of_length_eq_zero hn; subst this; exact h0
  | succ n ih =>
    have hne : l ≠ [] := by intro e; subst e; simp at hn
    obtain ⟨t, a, rfl⟩ := eq_concat_of_ne_nil l hne
    apply h1
    apply ih
    simp at hn; exact hn

theorem mem_prefixesDesc (p l : FullName) : p ∈ prefixesDesc l ↔ p ≠ [] ∧ p <+: l := by
  induction l using list_concat_induction with
  | h0 => simp [prefixesDesc_nil]
  | h1 t a ih =>
    rw [prefixesDesc_concat, List.mem_cons, ih, List.prefix_concat_iff]
    constructor
    · rintro (e | ⟨h1, h2⟩)
      · subst e; exact ⟨by simp, Or.inl rfl⟩
      · exact ⟨h1, Or.inr h2⟩
    · rintro ⟨h1, e | h2⟩
      · exact Or.inl e
      · exact Or.inr ⟨h1, h2⟩

theorem prefixesDesc_pairwise (l : FullName) :
    (prefixesDesc l).Pairwise (fun a b => b.length < a.length) := by
  induction l using list_concat_induction with
  | h0 => simp [prefixesDesc_nil]
  | h1 t a ih =>
    rw [prefixesDesc_concat, List.pairwise_cons]
    refine ⟨?_, ih⟩
    intro b hb
    have := ((mem_prefixesDesc b t).mp hb).2.length_le
    simp; omega

theorem self_mem_prefixesDesc (l : FullName) (h : l ≠ []) : l ∈ prefixesDesc l :=
  (mem_prefixesDesc l l).mpr ⟨h, List.prefix_refl l⟩

/-- in a list ordered by strictly decreasing length, `find?` returns a given element as soon as
no longer element satisfies the predicate -/
theorem find?_of_pairwise_length {α : Type} (ps : List (List α)) (p : List α → Bool) (x : List α)
    (pw : ps.Pairwise (fun a b => b.length < a.length)) (hx : x ∈ ps) (px : p x = true)
    (hlong : ∀ y ∈ ps, x.length < y.length → p y = false) : ps.find? p = some x := by
  induction ps with
  | nil => cases hx
  | cons q r ih =>
    rw [List.pairwise_cons] at pw
    rcases List.mem_cons.mp hx with e | e
    · subst e; simp [px]
    · have hq : p q = false := hlong q (List.mem_cons_self) (pw.1 x e)
      rw [List.find?_cons, hq]
      exact ih pw.2 e (fun y hy => hlong y (List.mem_cons_of_mem _ hy))

/-! ## descriptor trees -/

theorem nodup_keys_functional {α β : Type} {l : List (α × β)} (nd : (l.map (·.1)).Nodup)
    {k : α} {v v' : β} (h : (k, v) ∈ l) (h' : (k, v') ∈ l) : v = v' := by
  induction l with
  | nil => cases h
  | cons p r ih =>
    simp only [List.map_cons, List.nodup_cons] at nd
    rcases List.mem_cons.mp h with e | e <;> rcases List.mem_cons.mp h' with e' | e'
    · rw [← e] at e'; exact (Prod.mk.inj e').2.symm
    · subst e; exact absurd (List.mem_map.mpr ⟨(k, v'), e', rfl⟩) nd.1
    · subst e'; exact absurd (List.mem_map.mpr ⟨(k, v), e, rfl⟩) nd.1
    · exact ih nd.2 e e'

theorem MsgL.byName_eq_find : (ms : MsgL) → (n : Name) →
    ms.byName n = ms.toList.find? (fun m => m.name = n)
  | .nil, _ => rfl
  | .cons m ms, n => by
    have ih := MsgL.byName_eq_find ms n
    simp only [MsgL.byName, MsgL.toList, List.find?_cons]
    by_cases h : m.name = n
    · simp [h]
    · simp [h, ih]

theorem MsgL.byName_some {ms : MsgL} {n : Name} {m : MsgD} (h : ms.byName n = some m) :
    m ∈ ms.toList ∧ m.name = n := by
  rw [MsgL.byName_eq_find] at h
  exact ⟨List.mem_of_find?_eq_some h, by simpa using List.find?_some h⟩

theorem MsgL.byName_isSome_of_mem {ms : MsgL} {m : MsgD} (h : m ∈ ms.toList) :
    ∃ m', ms.byName m.name = some m' := by
  rw [MsgL.byName_eq_find]
  cases hf : ms.toList.find? (fun m' => m'.name = m.name) with
  | some m' => exact ⟨m', rfl⟩
  | none =>
    rw [List.find?_eq_none] at hf
    exact absurd (by simp) (hf m h)

theorem MsgL.decls_eq (scope : FullName) : (ms : MsgL) →
    ms.decls scope = ms.toList.flatMap (MsgD.decls scope)
  | .nil => rfl
  | .cons m ms => by
    have ih := MsgL.decls_eq scope ms
    simp [MsgL.decls, MsgL.toList, ih]

theorem MsgL.wf_iff : (ms : MsgL) → (ms.wf = true ↔ ∀ m ∈ ms.toList, m.wf = true)
  | .nil => by simp [MsgL.wf, MsgL.toList]
  | .cons m ms => by
    have ih := MsgL.wf_iff ms
    simp [MsgL.wf, MsgL.toList, ih]

theorem MsgL.toList_ofList (l : List MsgD) : (MsgL.ofList l).toList = l := by
  induction l with
  | nil => rfl
  | cons m r ih => simp [MsgL.ofList, MsgL.toList, ih]

theorem MsgD.wf_iff (m : MsgD) :
    m.wf = true ↔ (m.scope.map (·.1)).Nodup ∧ ∀ m' ∈ m.msgs.toList, m'.wf = true := by
  cases m with
  | mk n e ms x f o => simp [MsgD.wf, MsgL.wf_iff, MsgD.msgs]

theorem MsgD.mem_decls (scope : FullName) (m : MsgD) (d : Desc) :
    d ∈ m.decls scope ↔
      d = ⟨.message, scope ++ [m.name]⟩ ∨
      (∃ p ∈ leafScope m.enums m.exts m.fields m.oneofs, d = ⟨p.2, scope ++ [m.name] ++ [p.1]⟩) ∨
      ∃ m' ∈ m.msgs.toList, d ∈ m'.decls (scope ++ [m.name]) := by
  cases m with
  | mk n e ms x f o =>
    simp only [MsgD.decls, MsgD.name, MsgD.enums, MsgD.exts, MsgD.fields, MsgD.oneofs, MsgD.msgs,
      List.mem_cons, List.mem_append, List.mem_map, MsgL.decls_eq, List.mem_flatMap]
    constructor
    · rintro (h | ⟨p, hp, rfl⟩ | h)
      · exact Or.inl h
      · exact Or.inr (Or.inl ⟨p, hp, rfl⟩)
      · exact Or.inr (Or.inr h)
    · rintro (h | ⟨p, hp, rfl⟩ | h)
      · exact Or.inl h
      · exact Or.inr (Or.inl ⟨p, hp, rfl⟩)
      · exact Or.inr (Or.inr h)

/-! ## `findDescriptorInMessage` -/

theorem mem_leafScope (enums : List EnumD) (exts : List ExtD) (fields oneofs : List Name) (n : Name) (k : Kind) :
    (n, k) ∈ leafScope enums exts fields oneofs ↔
      (k = .enum ∧ ∃ e ∈ enums, e.name = n) ∨ (k = .enumValue ∧ ∃ e ∈ enums, n ∈ e.values) ∨
      (k = .extension ∧ ∃ x ∈ exts, x.name = n) ∨ (k = .field ∧ n ∈ fields) ∨ (k = .oneof ∧ n ∈ oneofs) := by
  simp only [leafScope, List.mem_append, List.mem_flatMap, EnumD.scope, List.mem_cons, List.mem_map,
    Prod.mk.injEq]
  constructor
  · rintro ((((⟨e, he, (⟨rfl, rfl⟩ | ⟨v, hv, rfl, rfl⟩)⟩) | ⟨x, hx, rfl, rfl⟩) | ⟨f, hf, rfl, rfl⟩) | ⟨o, ho, rfl, rfl⟩)
    · exact Or.inl ⟨rfl, e, he, rfl⟩
    · exact Or.inr (Or.inl ⟨rfl, e, he, hv⟩)
    · exact Or.inr (Or.inr (Or.inl ⟨rfl, x, hx, rfl⟩))
    · exact Or.inr (Or.inr (Or.inr (Or.inl ⟨rfl, hf⟩)))
    · exact Or.inr (Or.inr (Or.inr (Or.inr ⟨rfl, ho⟩)))
  · rintro (⟨rfl, e, he, rfl⟩ | ⟨rfl, e, he, hv⟩ | ⟨rfl, x, hx, rfl⟩ | ⟨rfl, hf⟩ | ⟨rfl, ho⟩)
    · exact Or.inl (Or.inl (Or.inl ⟨e, he, Or.inl ⟨rfl, rfl⟩⟩))
    · exact Or.inl (Or.inl (Or.inl ⟨e, he, Or.inr ⟨n, hv, rfl, rfl⟩⟩))
    · exact Or.inl (Or.inl (Or.inr ⟨x, hx, rfl, rfl⟩))
    · exact Or.inl (Or.inr ⟨n, hf, rfl, rfl⟩)
    · exact Or.inr ⟨n, ho, rfl, rfl⟩

theorem mem_scope (m : MsgD) (n : Name) (k : Kind) :
    (n, k) ∈ m.scope ↔ (n, k) ∈ leafScope m.enums m.exts m.fields m.oneofs ∨
      (k = .message ∧ ∃ m' ∈ m.msgs.toList, m'.name = n) := by
  simp only [MsgD.scope, List.mem_append, List.mem_map, Prod.mk.injEq]
  constructor
  · rintro (h | ⟨m', hm, rfl, rfl⟩)
    · exact Or.inl h
    · exact Or.inr ⟨rfl, m', hm, rfl⟩
  · rintro (h | ⟨rfl, m', hm, rfl⟩)
    · exact Or.inl h
    · exact Or.inr ⟨m', hm, rfl, rfl⟩

/-- whatever `leafSearch` returns is a declaration of the scope, with the name asked for -/
theorem leafSearch_sound {m : MsgD} {full : FullName} {n : Name} {d : Desc}
    (h : leafSearch m full n = some d) : ∃ k, (n, k) ∈ m.scope ∧ d = ⟨k, full ++ [n]⟩ := by
  unfold leafSearch at h
  split at h
  · rename_i c; simp at c h; obtain ⟨e, he, hn⟩ := c
    exact ⟨.enum, (mem_scope ..).mpr (Or.inl ((mem_leafScope ..).mpr (Or.inl ⟨rfl, e, he, hn⟩))), h.symm⟩
  split at h
  · rename_i c; simp at c h; obtain ⟨e, he, hn⟩ := c
    exact ⟨.enumValue, (mem_scope ..).mpr (Or.inl ((mem_leafScope ..).mpr (Or.inr (Or.inl ⟨rfl, e, he, hn⟩)))), h.symm⟩
  split at h
  · rename_i c; simp at c h; obtain ⟨x, hx, hn⟩ := c
    exact ⟨.extension, (mem_scope ..).mpr (Or.inl ((mem_leafScope ..).mpr (Or.inr (Or.inr (Or.inl ⟨rfl, x, hx, hn⟩))))), h.symm⟩
  split at h
  · rename_i c; simp at h
    exact ⟨.field, (mem_scope ..).mpr (Or.inl ((mem_leafScope ..).mpr (Or.inr (Or.inr (Or.inr (Or.inl ⟨rfl, c⟩)))))), h.symm⟩
  split at h
  · rename_i c; simp at h
    exact ⟨.oneof, (mem_scope ..).mpr (Or.inl ((mem_leafScope ..).mpr (Or.inr (Or.inr (Or.inr (Or.inr ⟨rfl, c⟩)))))), h.symm⟩
  split at h
  · rename_i m' hm'
    obtain ⟨hmem, hname⟩ := MsgL.byName_some hm'
    simp at h
    refine ⟨.message, (mem_scope ..).mpr (Or.inr ⟨rfl, m', hmem, hname⟩), ?_⟩
    rw [← h, hname]
  · cases h

/-- every name of the scope is found by `leafSearch` -/
theorem leafSearch_isSome {m : MsgD} (full : FullName) {n : Name} {k : Kind}
    (h : (n, k) ∈ m.scope) : ∃ d, leafSearch m full n = some d := by
  unfold leafSearch
  split; · exact ⟨_, rfl⟩
  rename_i c1
  split; · exact ⟨_, rfl⟩
  rename_i c2
  split; · exact ⟨_, rfl⟩
  rename_i c3
  split; · exact ⟨_, rfl⟩
  rename_i c4
  split; · exact ⟨_, rfl⟩
  rename_i c5
  simp at c1 c2 c3
  rcases (mem_scope ..).mp h with hl | ⟨_, m', hm', hn⟩
  · rcases (mem_leafScope ..).mp hl with ⟨_, e, he, hn⟩ | ⟨_, e, he, hn⟩ | ⟨_, x, hx, hn⟩ | ⟨_, hf⟩ | ⟨_, ho⟩
    · exact absurd hn (c1 e he)
    · exact absurd hn (c2 e he)
    · exact absurd hn (c3 x hx)
    · exact absurd hf c4
    · exact absurd ho c5
  · obtain ⟨m'', hm''⟩ := MsgL.byName_isSome_of_mem hm'
    rw [hn] at hm''
    rw [hm'']; exact ⟨_, rfl⟩

/-- with unique names in the scope, `leafSearch` finds each declaration with its own kind -/
theorem leafSearch_complete {m : MsgD} (full : FullName) {n : Name} {k : Kind}
    (nd : (m.scope.map (·.1)).Nodup) (h : (n, k) ∈ m.scope) :
    leafSearch m full n = some ⟨k, full ++ [n]⟩ := by
  obtain ⟨d, hd⟩ := leafSearch_isSome full h
  obtain ⟨k', hk', rfl⟩ := leafSearch_sound hd
  rw [hd, nodup_keys_functional nd hk' h]

theorem MsgL.byName_of_mem_nodup {m : MsgD} : (ms : MsgL) → (nd : (ms.toList.map (·.name)).Nodup) →
    (h : m ∈ ms.toList) → ms.byName m.name = some m
  | .nil, _, h => by cases h
  | .cons m0 ms, nd, h => by
    simp only [MsgL.toList, List.map_cons, List.nodup_cons] at nd
    simp only [MsgL.byName]
    rcases List.mem_cons.mp h with e | e
    · subst e; simp
    · have : m0.name ≠ m.name := fun e' => nd.1 (e' ▸ List.mem_map.mpr ⟨m, e, rfl⟩)
      simp [this, MsgL.byName_of_mem_nodup ms nd.2 e]

theorem msgs_names_nodup {m : MsgD} (nd : (m.scope.map (·.1)).Nodup) :
    (m.msgs.toList.map (·.name)).Nodup := by
  simp only [MsgD.scope, List.map_append, List.map_map] at nd
  exact (List.nodup_append.mp nd).2.1

/-- soundness of `findDescriptorInMessage`: the result is a declaration below `m` whose full name
is the requested one -/
theorem findInMsg_sound (rest : List Name) : ∀ (m : MsgD) (scope : FullName) (n : Name) (d : Desc),
    findInMsg m (scope ++ [m.name]) n rest = some d →
      d ∈ m.decls scope ∧ d.full = scope ++ [m.name] ++ n :: rest := by
  induction rest with
  | nil =>
    intro m scope n d h
    simp only [findInMsg] at h
    obtain ⟨k, hk, rfl⟩ := leafSearch_sound h
    refine ⟨?_, rfl⟩
    rw [MsgD.mem_decls]
    rcases (mem_scope ..).mp hk with hl | ⟨rfl, m', hm', rfl⟩
    · exact Or.inr (Or.inl ⟨(n, k), hl, rfl⟩)
    · refine Or.inr (Or.inr ⟨m', hm', ?_⟩)
      rw [MsgD.mem_decls]; exact Or.inl rfl
  | cons n2 rest ih =>
    intro m scope n d h
    simp only [findInMsg] at h
    split at h
    · rename_i m' hm'
      obtain ⟨hmem, hname⟩ := MsgL.byName_some hm'
      obtain ⟨h1, h2⟩ := ih m' (scope ++ [m.name]) n2 d h
      refine ⟨?_, ?_⟩
      · rw [MsgD.mem_decls]; exact Or.inr (Or.inr ⟨m', hmem, h1⟩)
      · rw [h2, hname]; simp
    · cases h

mutual
/-- completeness of `findDescriptorInMessage` on well-formed messages: every declaration strictly
below `m` is found by its path -/
theorem MsgD.findInMsg_complete (m : MsgD) (scope : FullName) (d : Desc) (wf : m.wf = true)
    (h : d ∈ m.decls scope) :
    d = ⟨.message, scope ++ [m.name]⟩ ∨
    ∃ n rest, d.full = scope ++ [m.name] ++ n :: rest ∧ findInMsg m (scope ++ [m.name]) n rest = some d :=
  match m with
  | .mk nm e ms x f o => by
    have wf' := (MsgD.wf_iff _).mp wf
    rcases (MsgD.mem_decls scope _ d).mp h with h | ⟨p, hp, rfl⟩ | ⟨m', hm', hd⟩
    · exact Or.inl h
    · right
      refine ⟨p.1, [], rfl, ?_⟩
      simp only [findInMsg]
      exact leafSearch_complete _ wf'.1 ((mem_scope ..).mpr (Or.inl hp))
    · right
      simp only [MsgD.msgs] at hm'
      have hbn : ms.byName m'.name = some m' := MsgL.byName_of_mem_nodup ms (msgs_names_nodup wf'.1) hm'
      have wfms : ms.wf = true := by
        have := wf; simp only [MsgD.wf, Bool.and_eq_true] at this; exact this.2
      rcases MsgL.findInMsg_complete ms (scope ++ [nm]) m' d hm' wfms hd with h | ⟨n, rest, h1, h2⟩
      · refine ⟨m'.name, [], by rw [h]; simp [MsgD.name], ?_⟩
        simp only [findInMsg]
        rw [h]
        exact leafSearch_complete _ wf'.1 ((mem_scope ..).mpr (Or.inr ⟨rfl, m', hm', rfl⟩))
      · refine ⟨m'.name, n :: rest, by rw [h1]; simp [MsgD.name], ?_⟩
        rw [findInMsg]
        have : (MsgD.mk nm e ms x f o).msgs = ms := rfl
        rw [this, hbn]
        exact h2
theorem MsgL.findInMsg_complete (ms : MsgL) (scope : FullName) (m' : MsgD) (d : Desc)
    (hm' : m' ∈ ms.toList) (wf : ms.wf = true) (h : d ∈ m'.decls scope) :
    d = ⟨.message, scope ++ [m'.name]⟩ ∨
    ∃ n rest, d.full = scope ++ [m'.name] ++ n :: rest ∧ findInMsg m' (scope ++ [m'.name]) n rest = some d :=
  match ms with
  | .nil => by cases hm'
  | .cons m0 ms0 => by
    simp only [MsgL.wf, Bool.and_eq_true] at wf
    rcases List.mem_cons.mp hm' with e | e
    · rw [e] at h ⊢; exact MsgD.findInMsg_complete m0 scope d wf.1 h
    · exact MsgL.findInMsg_complete ms0 scope m' d e wf.2 h
end

/-! ## `rangeTopLevelDescriptors` -/

theorem mem_topEntries (f : FileD) (k : FullName) (e : Entry) :
    (k, e) ∈ topEntries f ↔
      (∃ en ∈ f.enums, (k = f.pkg ++ [en.name] ∧ e = .enum k) ∨
          ∃ v ∈ en.values, k = f.pkg ++ [v] ∧ e = .enumValue k) ∨
      (∃ m ∈ f.msgs.toList, k = f.pkg ++ [m.name] ∧ e = .message k m) ∨
      (∃ x ∈ f.exts, k = f.pkg ++ [x.name] ∧ e = .ext k) ∨
      (∃ s ∈ f.svcs, k = f.pkg ++ [s.name] ∧ e = .svc k s) := by
  simp only [topEntries, List.mem_append, List.mem_flatMap, List.mem_reverse, List.mem_cons,
    List.mem_map, Prod.mk.injEq]
  constructor
  · rintro (((⟨en, hen, (⟨rfl, rfl⟩ | ⟨v, hv, rfl, rfl⟩)⟩ | ⟨m, hm, rfl, rfl⟩) | ⟨x, hx, rfl, rfl⟩) | ⟨sv, hs, rfl, rfl⟩)
    · exact Or.inl ⟨en, hen, Or.inl ⟨rfl, rfl⟩⟩
    · exact Or.inl ⟨en, hen, Or.inr ⟨v, hv, rfl, rfl⟩⟩
    · exact Or.inr (Or.inl ⟨m, hm, rfl, rfl⟩)
    · exact Or.inr (Or.inr (Or.inl ⟨x, hx, rfl, rfl⟩))
    · exact Or.inr (Or.inr (Or.inr ⟨sv, hs, rfl, rfl⟩))
  · rintro (⟨en, hen, (⟨rfl, rfl⟩ | ⟨v, hv, rfl, rfl⟩)⟩ | ⟨m, hm, rfl, rfl⟩ | ⟨x, hx, rfl, rfl⟩ | ⟨sv, hs, rfl, rfl⟩)
    · exact Or.inl (Or.inl (Or.inl ⟨en, hen, Or.inl ⟨rfl, rfl⟩⟩))
    · exact Or.inl (Or.inl (Or.inl ⟨en, hen, Or.inr ⟨v, hv, rfl, rfl⟩⟩))
    · exact Or.inl (Or.inl (Or.inr ⟨m, hm, rfl, rfl⟩))
    · exact Or.inl (Or.inr ⟨x, hx, rfl, rfl⟩)
    · exact Or.inr ⟨sv, hs, rfl, rfl⟩

theorem topEntries_key {f : FileD} {k : FullName} {e : Entry} (h : (k, e) ∈ topEntries f) :
    ∃ n, k = f.pkg ++ [n] := by
  rcases (mem_topEntries f k e).mp h with ⟨en, _, (⟨h, _⟩ | ⟨v, _, h, _⟩)⟩ | ⟨m, _, h, _⟩ | ⟨x, _, h, _⟩ | ⟨sv, _, h, _⟩
  all_goals exact ⟨_, h⟩

theorem topEntries_isDecl {f : FileD} {k : FullName} {e : Entry} (h : (k, e) ∈ topEntries f) :
    e.isDecl = true := by
  rcases (mem_topEntries f k e).mp h with ⟨en, _, (⟨_, h⟩ | ⟨v, _, _, h⟩)⟩ | ⟨m, _, _, h⟩ | ⟨x, _, _, h⟩ | ⟨sv, _, _, h⟩
  all_goals (subst h; rfl)

theorem topEntries_key_ne_nil {f : FileD} {k : FullName} (h : k ∈ (topEntries f).map (·.1)) : k ≠ [] := by
  obtain ⟨⟨k', e⟩, hm, rfl⟩ := List.mem_map.mp h
  obtain ⟨n, hn⟩ := topEntries_key hm
  simp [hn]

/-- a declaration key is never a package prefix of its own file -/
theorem topEntries_key_not_prefix {f : FileD} {k : FullName} (h : k ∈ (topEntries f).map (·.1)) :
    k ∉ prefixesDesc f.pkg := by
  obtain ⟨⟨k', e⟩, hm, rfl⟩ := List.mem_map.mp h
  obtain ⟨n, hn⟩ := topEntries_key hm
  intro hp
  have := ((mem_prefixesDesc _ _).mp hp).2.length_le
  simp only [hn, List.length_append, List.length_cons, List.length_nil] at this
  omega

namespace Spec

theorem declNames_append (a : List FileD) (f : FileD) :
    declNames (a ++ [f]) = declNames a ++ (topEntries f).map (·.1) := by
  simp [declNames]

theorem pkgNames_append (a : List FileD) (f : FileD) :
    pkgNames (a ++ [f]) = pkgNames a ++ prefixesDesc f.pkg := by
  simp [pkgNames]

theorem mem_declNames {a : List FileD} {k : FullName} :
    k ∈ declNames a ↔ ∃ f ∈ a, ∃ e, (k, e) ∈ topEntries f := by
  simp only [declNames, List.mem_map, List.mem_flatMap]
  constructor
  · rintro ⟨⟨k', e⟩, ⟨f, hf, hm⟩, rfl⟩; exact ⟨f, hf, e, hm⟩
  · rintro ⟨f, hf, e, hm⟩; exact ⟨(k, e), ⟨f, hf, hm⟩, rfl⟩

theorem mem_pkgNames {a : List FileD} {k : FullName} :
    k ∈ pkgNames a ↔ ∃ f ∈ a, k ≠ [] ∧ k <+: f.pkg := by
  simp only [pkgNames, List.mem_flatMap, mem_prefixesDesc]

theorem entry_decl_iff (a : List FileD) (k : FullName) :
    (match entry a k with | some e => e.isDecl | none => false) = true ↔ k ∈ declNames a := by
  unfold entry
  cases hl : alLookup k (a.flatMap topEntries) with
  | some e =>
    have hm := mem_of_alLookup hl
    obtain ⟨f, hf, hm'⟩ := List.mem_flatMap.mp hm
    simp only [topEntries_isDecl hm', true_iff]
    exact mem_declNames.mpr ⟨f, hf, e, hm'⟩
  | none =>
    have : k ∉ declNames a := (alLookup_eq_none_iff _ _).mp hl
    simp only [this, iff_false]
    by_cases c : k = [] ∨ k ∈ pkgNames a <;> simp [c, Entry.isDecl]

theorem entry_isSome_iff (a : List FileD) (k : FullName) :
    (entry a k).isSome = true ↔ k ∈ declNames a ∨ k = [] ∨ k ∈ pkgNames a := by
  unfold entry
  cases hl : alLookup k (a.flatMap topEntries) with
  | some e =>
    have : k ∈ declNames a := List.mem_map.mpr ⟨(k, e), mem_of_alLookup hl, rfl⟩
    simp [this]
  | none =>
    have : k ∉ declNames a := (alLookup_eq_none_iff _ _).mp hl
    simp only [this, false_or]
    split <;> simp_all

theorem entry_eq_none_iff (a : List FileD) (k : FullName) :
    entry a k = none ↔ ¬ (k ∈ declNames a ∨ k = [] ∨ k ∈ pkgNames a) := by
  rw [← entry_isSome_iff]; cases entry a k <;> simp

/-- consistency of the abstract state: the name table has no duplicate and no package/declaration clash -/
structure Valid (a : List FileD) : Prop where
  paths : (paths a).Nodup
  keys : (declNames a).Nodup
  disj : ∀ k ∈ declNames a, k ∉ pkgNames a
  wf : ∀ f ∈ a, f.wf = true

theorem valid_nil : Valid [] :=
  ⟨by simp [paths], by simp [declNames], by simp [declNames], by simp⟩

theorem register_cases (a : List FileD) (f : FileD) :
    ((register a f).1 = a ++ [f] ∧ (register a f).2 = .regOk) ∨
    ((register a f).1 = a ∧ (register a f).2 ≠ .regOk) := by
  unfold register
  split
  · simp
  split
  · simp
  split <;> simp

theorem declNames_ne_nil {a : List FileD} {k : FullName} (h : k ∈ declNames a) : k ≠ [] := by
  obtain ⟨f, _, e, hm⟩ := mem_declNames.mp h
  exact topEntries_key_ne_nil (List.mem_map.mpr ⟨(k, e), hm, rfl⟩)

theorem entry_of_not_decl {a : List FileD} {k : FullName} (h : k ∉ declNames a) :
    entry a k = if k = [] ∨ k ∈ pkgNames a then some (Entry.pkg (a.filter (fun f => f.pkg = k))) else none := by
  unfold entry
  rw [(alLookup_eq_none_iff _ _).mpr h]

theorem entry_of_decl {a : List FileD} {k : FullName} {e : Entry}
    (h : alLookup k (a.flatMap topEntries) = some e) : entry a k = some e := by
  unfold entry; rw [h]

theorem register_ok_iff (a : List FileD) (f : FileD) :
    (register a f).2 = .regOk ↔ NoConflict a f := by
  unfold register NoConflict PathConflict PkgConflict NameConflict
  split
  · rename_i h; simp [h]
  rename_i hp
  split
  · rename_i p hf
    have h1 := List.mem_of_find?_eq_some hf
    have h2 := List.find?_some hf
    simp only [decide_eq_true_eq] at h2
    simp only [reduceCtorEq, false_iff, not_and]
    intro _ hn _; exact hn ⟨p, h1, h2⟩
  rename_i hf
  rw [List.find?_eq_none] at hf
  split
  · rename_i k hk
    have h1 := List.mem_of_find?_eq_some hk
    have h2 := List.find?_some hk
    simp only [decide_eq_true_eq] at h2
    simp only [reduceCtorEq, false_iff, not_and]
    intro _ _ hn
    exact hn ⟨k, List.mem_reverse.mp h1, h2⟩
  · rename_i hk
    rw [List.find?_eq_none] at hk
    simp only [true_iff]
    refine ⟨hp, ?_, ?_⟩
    · rintro ⟨p, h1, h2⟩; exact absurd (by simpa using h2) (by simpa using hf p h1)
    · rintro ⟨k, h1, h2⟩
      have := hk k (List.mem_reverse.mpr h1)
      simp only [decide_eq_true_eq] at this
      exact this h2

theorem FileD.wf_iff (f : FileD) :
    f.wf = true ↔ ((topEntries f).map (·.1)).Nodup ∧ ∀ m ∈ f.msgs.toList, m.wf = true := by
  simp [FileD.wf, MsgL.wf_iff]

theorem valid_register {a : List FileD} {f : FileD} (v : Valid a) (wf : f.wf = true)
    (nc : NoConflict a f) : Valid (a ++ [f]) := by
  obtain ⟨np, npk, nn⟩ := nc
  have wf' := (FileD.wf_iff f).mp wf
  refine ⟨?_, ?_, ?_, ?_⟩
  · simp only [paths, List.map_append, List.map_cons, List.map_nil]
    rw [List.nodup_append]
    refine ⟨v.paths, by simp, ?_⟩
    intro x hx y hy e
    simp at hy; subst hy; subst e
    exact np hx
  · rw [declNames_append, List.nodup_append]
    refine ⟨v.keys, wf'.1, ?_⟩
    intro x hx y hy e
    subst e
    exact nn ⟨x, hy, Or.inl hx⟩
  · intro k hk
    rw [declNames_append, List.mem_append] at hk
    rw [pkgNames_append, List.mem_append, not_or]
    rcases hk with hk | hk
    · exact ⟨v.disj k hk, fun h => npk ⟨k, h, hk⟩⟩
    · exact ⟨fun h => nn ⟨k, hk, Or.inr h⟩, topEntries_key_not_prefix hk⟩
  · intro g hg
    rcases List.mem_append.mp hg with h | h
    · exact v.wf g h
    · simp at h; subst h; exact wf

theorem entry_append (a : List FileD) (f : FileD) (k : FullName) :
    entry (a ++ [f]) k =
      match alLookup k (a.flatMap topEntries) with
      | some e => some e
      | none =>
        match alLookup k (topEntries f) with
        | some e => some e
        | none =>
          if k = [] ∨ k ∈ pkgNames a ∨ k ∈ prefixesDesc f.pkg then
            some (Entry.pkg (a.filter (fun g => g.pkg = k) ++ (if f.pkg = k then [f] else [])))
          else none := by
  unfold entry
  simp only [List.flatMap_append, List.flatMap_cons, List.flatMap_nil, List.append_nil, alLookup_append,
    pkgNames_append, List.mem_append, List.filter_append]
  cases alLookup k (a.flatMap topEntries) with
  | some e => rfl
  | none =>
    simp only
    cases alLookup k (topEntries f) with
    | some e => rfl
    | none =>
      simp only
      by_cases h : f.pkg = k <;> simp [h]

end Spec

/-! ## the refinement invariant of `Files` -/

/-- the concrete maps represent the abstract list of accepted files -/
structure FInv (r : Files) (a : List FileD) : Prop where
  descs : (r.descs = [] ∧ a = []) ∨ ∀ k, alLookup k r.descs = Spec.entry a k
  byPath : r.filesByPath = a.map (fun f => (f.path, [f]))
  num : r.numFiles = a.length

theorem finv_init : FInv {} [] := ⟨Or.inl ⟨rfl, rfl⟩, rfl, rfl⟩

theorem initDescs_of_ne_nil {D : List (FullName × Entry)} (h : D ≠ []) : initDescs D = D := by
  cases D with
  | nil => exact absurd rfl h
  | cons p r => rfl

theorem FInv.descs_ne_nil {r : Files} {a : List FileD} (inv : FInv r a) (h : a ≠ []) : r.descs ≠ [] := by
  rcases inv.descs with ⟨_, e⟩ | hk
  · exact absurd e h
  · intro e
    have h1 := hk []
    rw [e] at h1
    have h2 := (Spec.entry_isSome_iff a []).mpr (Or.inr (Or.inl rfl))
    rw [← h1] at h2
    simp [alLookup] at h2

theorem FInv.initDescs_lookup {r : Files} {a : List FileD} (inv : FInv r a) :
    ∀ k, alLookup k (initDescs r.descs) = Spec.entry a k := by
  rcases inv.descs with ⟨e1, e2⟩ | hk
  · intro k
    subst e2
    rw [e1]
    simp only [initDescs, alLookup, Spec.entry, List.flatMap_nil, Spec.pkgNames, List.not_mem_nil, or_false,
      List.filter_nil]
    by_cases h : k = []
    · subst h; simp
    · have : ¬ [] = k := fun e => h e.symm
      simp [h, this]
  · by_cases h : r.descs = []
    · intro k
      have h1 := hk []
      rw [h] at h1
      have h2 := (Spec.entry_isSome_iff a []).mpr (Or.inr (Or.inl rfl))
      rw [← h1] at h2
      simp [alLookup] at h2
    · rw [initDescs_of_ne_nil h]; exact hk

theorem byPath_conflict_iff (a : List FileD) (p : String) :
    ((alLookup p (a.map (fun f => (f.path, [f])))).getD [] ≠ []) ↔ p ∈ Spec.paths a := by
  rw [alLookup_map (fun f : FileD => f.path) (fun f => [f])]
  cases hf : a.find? (fun f => f.path = p) with
  | none =>
    rw [List.find?_eq_none] at hf
    simp only [Option.map_none, Option.getD_none, ne_eq, not_true_eq_false, false_iff, Spec.paths,
      List.mem_map, not_exists, not_and]
    intro f hfa e
    exact absurd (by simpa using e) (hf f hfa)
  | some f =>
    have h1 := List.mem_of_find?_eq_some hf
    have h2 := List.find?_some hf
    simp only [decide_eq_true_eq] at h2
    simp only [Option.map_some, Option.getD_some, ne_eq, List.cons_ne_self, not_false_eq_true, true_iff,
      Spec.paths, List.mem_map]
    exact ⟨f, h1, h2⟩

theorem find?_congr' {α : Type} {l : List α} {p q : α → Bool} (h : ∀ x ∈ l, p x = q x) :
    l.find? p = l.find? q := by
  induction l with
  | nil => rfl
  | cons x r ih =>
    simp only [List.find?_cons, h x List.mem_cons_self]
    rw [ih (fun y hy => h y (List.mem_cons_of_mem _ hy))]

theorem foldl_last_eq {α β : Type} (q : α → Bool) (T : List (α × β)) (init : Option α) :
    T.foldl (fun acc e => if q e.1 then some e.1 else acc) init =
      ((T.map (·.1)).reverse.find? q).or init := by
  induction T generalizing init with
  | nil => simp
  | cons x r ih =>
    simp only [List.foldl_cons, ih, List.map_cons, List.reverse_cons, List.find?_append]
    cases (List.map (fun x => x.1) r).reverse.find? q with
    | some k => simp
    | none =>
      simp only [Option.none_or, List.find?_cons, List.find?_nil]
      cases q x.1 <;> simp

theorem nameConflict_eq (D T : List (FullName × Entry)) :
    nameConflict D T = (T.map (·.1)).reverse.find? (fun k => (alLookup k D).isSome) := by
  unfold nameConflict
  rw [foldl_last_eq (fun k => (alLookup k D).isSome)]
  simp

theorem alLookup_insertPkgs (ps : List FullName) (D : List (FullName × Entry)) (k : FullName) :
    alLookup k (insertPkgs D ps) =
      match alLookup k D with
      | some e => some e
      | none => if k ∈ ps then some (Entry.pkg []) else none := by
  induction ps generalizing D with
  | nil => simp [insertPkgs]; cases alLookup k D <;> rfl
  | cons p ps ih =>
    have step : insertPkgs D (p :: ps) =
        insertPkgs (if (alLookup p D).isSome then D else alSet p (Entry.pkg []) D) ps := by
      simp [insertPkgs]
    rw [step, ih]
    by_cases hs : (alLookup p D).isSome
    · simp only [hs, if_true]
      cases hk : alLookup k D with
      | some e => rfl
      | none =>
        have : k ≠ p := by intro e; subst e; rw [hk] at hs; cases hs
        simp [this]
    · simp only [hs, Bool.false_eq_true, if_false]
      have hn : alLookup p D = none := by cases h : alLookup p D <;> simp_all
      rw [alLookup_alSet]
      by_cases e : k = p
      · subst e; simp [hn]
      · simp only [e, if_false]
        cases alLookup k D <;> simp [e]

end Model.Registry
