import PbVerif.Lemmas.MsgAlg
/-
Merge (`Pb.mergeMsg`) as an operation on finite maps: the effect of one source field
(`mergeFVal`) on `get?`, and the whole-message characterisation `mergeFields_get?`.
Core-only.
-/
namespace Pb
open Spec (Byte)

theorem mergeMsg_mk (S : Schema) (mi : Nat) (dfs sfs : Fields) (du su : List Byte) :
    mergeMsg S mi (.mk dfs du) (.mk sfs su) = .mk (mergeFields S (S.msg mi) dfs sfs) (du ++ su) := by
  rw [mergeMsg]

/-- one source field: the field is skipped when the descriptor does not declare it -/
def mergeField (S : Schema) (d : MsgD) (dst : Fields) (num : Nat) (fv : FVal) : Fields :=
  match d.find num with
  | none => dst
  | some f => mergeFVal S d f dst fv

/-- `mergeFields` is the left fold of `mergeField` over the source fields in stored order -/
theorem mergeFields_cons (S : Schema) (d : MsgD) (dst : Fields) (num : Nat) (fv : FVal) (tl : Fields) :
    mergeFields S d dst (.cons num fv tl) = mergeFields S d (mergeField S d dst num fv) tl := by
  rw [mergeFields]; rfl

theorem mergeFields_nil (S : Schema) (d : MsgD) (dst : Fields) : mergeFields S d dst .nil = dst := by
  rw [mergeFields]

theorem mergeVal_scalar (S : Schema) (d : MsgD) (f : Field) (dst : Fields) (v : Val)
    (hv : v.isKey = true) : mergeVal S d f dst v = setSingular d f dst v := by
  cases v with
  | num n => rw [mergeVal]; intro m h; cases h
  | bytes b => rw [mergeVal]; intro m h; cases h
  | msg m => simp [Val.isKey] at hv

theorem otherMember_self (d : MsgD) (o n : Nat) : d.otherMember o n n = false := by
  unfold MsgD.otherMember
  split <;> simp

theorem subAt_clearOneof (d : MsgD) (o n : Nat) (dst : Fields) :
    (Fields.clearOneof d o n dst).subAt n = dst.subAt n := by
  unfold Fields.subAt
  rw [Fields.get?_clearOneof]
  simp [otherMember_self]

/-- destination with the other members of `f`'s oneof cleared -/
def clearFor (d : MsgD) (f : Field) (dst : Fields) : Fields :=
  match f.oneof with
  | some o => Fields.clearOneof d o f.num dst
  | none => dst

theorem mergeVal_msg (S : Schema) (d : MsgD) (f : Field) (dst : Fields) (sm : Msg) :
    mergeVal S d f dst (.msg sm) =
      (clearFor d f dst).set f.num (.one (.msg (mergeMsg S f.sub (dst.subAt f.num) sm))) := by
  rw [mergeVal, clearFor]
  cases ho : f.oneof with
  | none => rfl
  | some o =>
    simp only
    rw [← subAt_clearOneof d o f.num dst]
    rfl

theorem setSingular_eq (d : MsgD) (f : Field) (fs : Fields) (v : Val) :
    setSingular d f fs v =
      if f.card = .implicit && v.isZero then (clearFor d f fs).erase f.num
      else (clearFor d f fs).set f.num (.one v) := by
  unfold setSingular clearFor
  cases f.oneof <;> rfl

theorem mergeFVal_many_list (S : Schema) (d : MsgD) (f : Field) (dst : Fields) (vs : Vals)
    (hc : f.card ≠ .map) :
    mergeFVal S d f dst (.many vs) = appendList dst f.num (cloneVals S f vs) := by
  rw [mergeFVal]; simp [hc]

theorem mergeFVal_many_map (S : Schema) (d : MsgD) (f : Field) (dst : Fields) (vs : Vals)
    (hc : f.card = .map) :
    mergeFVal S d f dst (.many vs) =
      (if (mergeMapVals S f.sub (dst.listAt f.num) vs).isNil then dst
       else dst.set f.num (.many (mergeMapVals S f.sub (dst.listAt f.num) vs))) := by
  rw [mergeFVal]; simp only [hc, if_true]; rfl

/-- does merging value `fv` of field `f` clear field `j` (another member of the same oneof)? -/
def clearsF (d : MsgD) (f : Field) (fv : FVal) (j : Nat) : Bool :=
  match fv with
  | .one _ => oneofOther d f j
  | .many _ => false

theorem get?_clearFor (d : MsgD) (f : Field) (dst : Fields) (j : Nat) :
    (clearFor d f dst).get? j = if oneofOther d f j then none else dst.get? j := by
  unfold clearFor oneofOther
  cases f.oneof with
  | none => simp
  | some o => rw [Fields.get?_clearOneof]

/-- effect of one source field on the other fields of the destination -/
theorem mergeFVal_get?_ne (S : Schema) (d : MsgD) (f : Field) (dst : Fields) (fv : FVal) (j : Nat)
    (hj : f.num ≠ j) :
    (mergeFVal S d f dst fv).get? j = if clearsF d f fv j then none else dst.get? j := by
  cases fv with
  | many vs =>
    simp only [clearsF, Bool.false_eq_true, if_false]
    by_cases hc : f.card = .map
    · rw [mergeFVal_many_map S d f dst vs hc]
      split
      · rfl
      · rw [Fields.get?_set]; simp [hj]
    · rw [mergeFVal_many_list S d f dst vs hc, get?_appendList]
      simp [hj]
  | one v =>
    rw [mergeFVal]
    cases v with
    | msg sm =>
      rw [mergeVal_msg, Fields.get?_set, get?_clearFor]
      cases ho : oneofOther d f j <;> simp [hj, clearsF, ho]
    | num n =>
      rw [mergeVal_scalar _ _ _ _ _ rfl, setSingular_eq]
      split
      · rw [Fields.get?_erase, get?_clearFor]
        cases ho : oneofOther d f j <;> simp [hj, clearsF, ho]
      · rw [Fields.get?_set, get?_clearFor]
        cases ho : oneofOther d f j <;> simp [hj, clearsF, ho]
    | bytes b =>
      rw [mergeVal_scalar _ _ _ _ _ rfl, setSingular_eq]
      split
      · rw [Fields.get?_erase, get?_clearFor]
        cases ho : oneofOther d f j <;> simp [hj, clearsF, ho]
      · rw [Fields.get?_set, get?_clearFor]
        cases ho : oneofOther d f j <;> simp [hj, clearsF, ho]

theorem listAt_congr {a b : Fields} {n : Nat} (h : a.get? n = b.get? n) : a.listAt n = b.listAt n := by
  unfold Fields.listAt; rw [h]

theorem subAt_congr {a b : Fields} {n : Nat} (h : a.get? n = b.get? n) : a.subAt n = b.subAt n := by
  unfold Fields.subAt; rw [h]

/-- the merged value of field `f` depends on the destination only through its value of `f` -/
theorem mergeFVal_get?_congr (S : Schema) (d : MsgD) (f : Field) (dst dst' : Fields) (fv : FVal)
    (h : dst.get? f.num = dst'.get? f.num) :
    (mergeFVal S d f dst fv).get? f.num = (mergeFVal S d f dst' fv).get? f.num := by
  cases fv with
  | many vs =>
    by_cases hc : f.card = .map
    · rw [mergeFVal_many_map S d f dst vs hc, mergeFVal_many_map S d f dst' vs hc, listAt_congr h]
      split
      · exact h
      · rw [Fields.get?_set, Fields.get?_set]; simp
    · rw [mergeFVal_many_list S d f dst vs hc, mergeFVal_many_list S d f dst' vs hc,
        get?_appendList, get?_appendList, listAt_congr h, h]
  | one v =>
    rw [mergeFVal, mergeFVal]
    cases v with
    | msg sm =>
      rw [mergeVal_msg, mergeVal_msg, Fields.get?_set, Fields.get?_set, subAt_congr h]; simp
    | num n =>
      rw [mergeVal_scalar _ _ _ _ _ rfl, mergeVal_scalar _ _ _ _ _ rfl, get?_setSingular, get?_setSingular]
      simp
    | bytes b =>
      rw [mergeVal_scalar _ _ _ _ _ rfl, mergeVal_scalar _ _ _ _ _ rfl, get?_setSingular, get?_setSingular]
      simp

/-! ### whole-message characterisation -/

/-- source field lists for which merge is order-independent: distinct field numbers, at most one
populated member per oneof -/
def mergeOK (d : MsgD) : Fields → Bool
  | .nil => true
  | .cons n _ tl => (tl.get? n).isNone && tl.nums.all (fun m => !sameOneof d n m) && mergeOK d tl

/-- does merging source field `(n, fv)` clear destination field `j`? -/
def clears (d : MsgD) (n : Nat) (fv : FVal) (j : Nat) : Bool :=
  match d.find n with
  | some f => clearsF d f fv j
  | none => false

def clearedBy (d : MsgD) : Fields → Nat → Bool
  | .nil, _ => false
  | .cons n fv tl, j => clears d n fv j || clearedBy d tl j

theorem get?_mergeField_ne (S : Schema) (d : MsgD) (dst : Fields) (n : Nat) (fv : FVal) (j : Nat)
    (hj : n ≠ j) :
    (mergeField S d dst n fv).get? j = if clears d n fv j then none else dst.get? j := by
  unfold mergeField clears
  cases hf : d.find n with
  | none => simp
  | some f =>
    have := MsgD.find_num hf
    simp only
    rw [mergeFVal_get?_ne S d f dst fv j (by rw [this]; exact hj)]

theorem clears_of_sameOneof {d : MsgD} {n j : Nat} {fv : FVal} (h : sameOneof d n j = false) :
    clears d n fv j = false := by
  unfold clears
  split
  · rename_i f hf
    unfold clearsF
    split
    · unfold oneofOther
      split
      · rename_i o ho
        unfold MsgD.otherMember
        split
        · rename_i g hg
          simp only [sameOneof, hf, hg, ho, Option.isSome_some, Bool.true_and] at h
          have : (g.oneof == some o) = false := by
            rw [Bool.eq_false_iff] at h ⊢
            intro hh
            apply h
            rw [beq_iff_eq] at hh ⊢
            exact hh.symm
          simp [this]
        · rfl
      · rfl
    · rfl
  · rfl

theorem sameOneof_symm (d : MsgD) (n m : Nat) : sameOneof d n m = sameOneof d m n := by
  unfold sameOneof
  cases d.find n <;> cases d.find m <;> simp only
  rename_i g f
  cases hf : f.oneof <;> cases hg : g.oneof <;> simp
  exact Bool.eq_iff_iff.mpr (by rw [beq_iff_eq, beq_iff_eq]; exact eq_comm)

theorem clearedBy_of_noClash {d : MsgD} {tl : Fields} {n : Nat}
    (h : tl.nums.all (fun m => !sameOneof d n m) = true) : clearedBy d tl n = false := by
  induction tl using Fields.ind with
  | nil => rfl
  | cons m x t ih =>
    simp only [Fields.nums, List.all_cons, Bool.and_eq_true, Bool.not_eq_true'] at h
    rw [clearedBy, ih h.2, clears_of_sameOneof (by rw [sameOneof_symm]; exact h.1)]
    rfl

/-- **whole-message merge law**: for a source field list with distinct numbers and at most one
member per oneof, and ANY destination: field `j` of the result is the source value merged into
the destination value (as if that source field were merged alone) when the source populates `j`;
otherwise it is the destination value, unless the source populates another member of `j`'s oneof -/
theorem mergeFields_get? (S : Schema) (d : MsgD) (src : Fields) : ∀ (dst : Fields),
    mergeOK d src = true → ∀ j,
    (mergeFields S d dst src).get? j =
      match src.get? j, d.find j with
      | some fv, some f => (mergeFVal S d f dst fv).get? j
      | _, _ => if clearedBy d src j then none else dst.get? j := by
  induction src using Fields.ind with
  | nil =>
    intro dst _ j
    rw [mergeFields_nil]
    simp [Fields.get?, clearedBy]
  | cons n fv tl ih =>
    intro dst hok j
    rw [mergeOK, Bool.and_eq_true, Bool.and_eq_true] at hok
    rw [mergeFields_cons, ih _ hok.2 j, Fields.get?_cons]
    have hnone : tl.get? n = none := by
      cases h : tl.get? n with
      | none => rfl
      | some _ => have := hok.1.1; rw [h] at this; cases this
    by_cases hj : n = j
    · subst hj
      simp only [hnone, if_true]
      rw [clearedBy_of_noClash hok.1.2]
      simp only [Bool.false_eq_true, if_false]
      unfold mergeField
      cases hf : d.find n with
      | none =>
        simp only [clearedBy, clears, hf, Bool.false_or]
        rw [clearedBy_of_noClash hok.1.2]
        simp
      | some f => simp only
    · simp only [hj, if_false]
      cases hg : tl.get? j with
      | none =>
        simp only [clearedBy]
        rw [get?_mergeField_ne S d dst n fv j hj]
        by_cases hc1 : clears d n fv j = true <;> by_cases hc2 : clearedBy d tl j = true <;> simp [hc1, hc2]
      | some fv' =>
        cases hf : d.find j with
        | none =>
          simp only [clearedBy]
          rw [get?_mergeField_ne S d dst n fv j hj]
          by_cases hc1 : clears d n fv j = true <;> by_cases hc2 : clearedBy d tl j = true <;> simp [hc1, hc2]
        | some f =>
          simp only
          have hnum := MsgD.find_num hf
          have hmem : j ∈ tl.nums := (Fields.get?_isSome_iff tl j).mp (by rw [hg]; rfl)
          have hso : sameOneof d n j = false := by
            have := List.all_eq_true.mp hok.1.2 j hmem
            simpa using this
          have hpre : (mergeField S d dst n fv).get? f.num = dst.get? f.num := by
            rw [hnum, get?_mergeField_ne S d dst n fv j hj, clears_of_sameOneof hso]
            simp
          have := mergeFVal_get?_congr S d f _ _ fv' hpre
          rw [hnum] at this
          exact this

end Pb
