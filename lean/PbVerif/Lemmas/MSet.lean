import PbVerif.Lemmas.WireSpec
import PbVerif.Model.MSet
/-
Helper lemmas for C47 (engine `mset`): one-step behaviour of the loops of Model/MSet.lean on each
kind of field, and the folds they compute on token sequences.
-/
namespace MSet
open Spec

/-! ### tags -/

theorem tag_length_pos (num typ : Nat) : 0 < (tag num typ).length := encVarint_length_pos _

theorem decTag_tag {num typ : Nat} (h1 : 1 ≤ num) (h2 : num < 2 ^ 31) (ht : typ < 8) (rest : Bytes) :
    decTag (tag num typ ++ rest) = .ok (num, typ, (tag num typ).length) := decTag_enc h1 h2 ht rest

theorem sizeTag_eq (num typ : Nat) : sizeTag num = (tag num typ).length := by
  unfold sizeTag sizeVarint tag; exact tag_length num 0 typ

theorem drop_tag (num typ : Nat) (rest : Bytes) : (tag num typ ++ rest).drop (tag num typ).length = rest :=
  List.drop_left' rfl

/-! ### one iteration of the `ConsumeFieldValue` loop -/

theorem itemLoop_end (w : Bool) (ilen f : Nat) (rest : Bytes) (t : Nat) (msg : Option Bytes) :
    itemLoop w ilen (f + 1) (tag 1 4 ++ rest) t msg = .ok (t, finMsg w msg, ilen - rest.length) := by
  simp only [itemLoop, decTag_tag (by omega : 1 ≤ 1) (by omega : 1 < 2 ^ 31) (by omega : 4 < 8), drop_tag,
    fieldItem, wEndGroup, and_self, if_true]

theorem itemLoop_typeId (w : Bool) (ilen f : Nat) {v : Nat} (h1 : 1 ≤ v) (h2 : v < 2 ^ 31) (rest : Bytes)
    (t : Nat) (msg : Option Bytes) :
    itemLoop w ilen (f + 1) (tag 2 0 ++ (encVarint v ++ rest)) t msg = itemLoop w ilen f rest v msg := by
  have hv : ¬ (v < 1 ∨ v > 2147483647) := by omega
  simp only [itemLoop, decTag_tag (by omega : 1 ≤ 2) (by omega : 2 < 2 ^ 31) (by omega : 0 < 8),
    fieldItem, wEndGroup, fieldTypeID, wVarint, decVarint_enc (by omega : v < 2 ^ 64), List.drop_left', hv, if_false]
  simp

/-- `lp` is an encoding (minimal or not) of the varint `n`, whatever follows it -/
def IsVarint (lp : Bytes) (n : Nat) : Prop := ∀ r, decVarint (lp ++ r) = .ok (n, lp.length)

theorem isVarint_enc {n : Nat} (h : n < 2 ^ 64) : IsVarint (encVarint n) n := fun r => decVarint_enc h r

theorem IsVarint.lt {lp : Bytes} {n : Nat} (h : IsVarint lp n) : n < 2 ^ 64 := decVarint_lt (h [])

theorem decBytes_raw {lp p : Bytes} (h : IsVarint lp p.length) (rest : Bytes) :
    decBytes (lp ++ (p ++ rest)) = .ok (p, lp.length + p.length) := by
  unfold decBytes
  rw [h]
  simp only [List.drop_left']
  have : ¬ p.length > (p ++ rest).length := by simp
  simp only [this, if_false, List.take_left']

theorem itemLoop_message (w : Bool) (ilen f : Nat) {lp p : Bytes} (h : IsVarint lp p.length) (rest : Bytes)
    (t : Nat) (msg : Option Bytes) {m' : Bytes} (ha : addMsg w msg (lp ++ p) p = .ok m') :
    itemLoop w ilen (f + 1) (tag 3 2 ++ (lp ++ (p ++ rest))) t msg = itemLoop w ilen f rest t (some m') := by
  have hd : (lp ++ (p ++ rest)).drop (lp.length + p.length) = rest := by
    rw [← List.append_assoc]; exact List.drop_left' (by simp)
  have ht : (lp ++ (p ++ rest)).take (lp.length + p.length) = lp ++ p := by
    rw [← List.append_assoc]; exact List.take_left' (by simp)
  simp only [itemLoop, decTag_tag (by omega : 1 ≤ 3) (by omega : 3 < 2 ^ 31) (by omega : 2 < 8),
    fieldItem, wEndGroup, fieldTypeID, wVarint, fieldMessage, wBytes, List.drop_left', decBytes_raw h, hd, ht, ha]
  simp

theorem itemLoop_other (w : Bool) (ilen f : Nat) {num typ : Nat} {val : Bytes}
    (h1 : 1 ≤ num) (h2 : num < 2 ^ 31) (ht : typ < 8)
    (n1 : ¬ (num = 1 ∧ typ = 4)) (n2 : ¬ (num = 2 ∧ typ = 0)) (n3 : ¬ (num = 3 ∧ typ = 2))
    (rest : Bytes) (hv : consumeFieldValue num typ (val ++ rest) = .ok val.length)
    (t : Nat) (msg : Option Bytes) :
    itemLoop w ilen (f + 1) (tag num typ ++ (val ++ rest)) t msg = itemLoop w ilen f rest t msg := by
  simp only [itemLoop, decTag_tag h1 h2 ht, fieldItem, wEndGroup, fieldTypeID, wVarint, fieldMessage, wBytes,
    List.drop_left', n1, n2, n3, if_false, hv]

/-! ### token sequences: what an item body consists of -/

/-- a field inside an item -/
inductive Tok where
  /-- `type_id` as a varint -/
  | typeId (v : Nat)
  /-- `message` as a length-delimited field whose length prefix is the byte string `lp` -/
  | message (lp p : Bytes)
  /-- any other complete field `(num, typ)` with value bytes `val` -/
  | other (num typ : Nat) (val : Bytes)

def Tok.enc : Tok → Bytes
  | .typeId v => tag 2 0 ++ encVarint v
  | .message lp p => tag 3 2 ++ lp ++ p
  | .other num typ val => tag num typ ++ val

def Tok.WF : Tok → Prop
  | .typeId v => 1 ≤ v ∧ v < 2 ^ 31
  | .message lp p => IsVarint lp p.length
  | .other num typ val => 1 ≤ num ∧ num < 2 ^ 31 ∧ typ < 8 ∧
      ¬ (num = 1 ∧ typ = 4) ∧ ¬ (num = 2 ∧ typ = 0) ∧ ¬ (num = 3 ∧ typ = 2) ∧
      ∀ r, consumeFieldValue num typ (val ++ r) = .ok val.length

def encToks : List Tok → Bytes
  | [] => []
  | x :: r => x.enc ++ encToks r

/-- the message accumulated so far, abstractly: `(length prefix, payload)` -/
abbrev MsgSt := Option (Bytes × Bytes)

/-- what the loop does with one field: the LAST type id wins; a first message field is kept with
its length prefix, a further one is appended to the payload (the prefix is rebuilt, minimal);
anything else is skipped -/
def stepTok : Nat × MsgSt → Tok → Nat × MsgSt
  | (_, m), .typeId v => (v, m)
  | (t, none), .message lp p => (t, some (lp, p))
  | (t, some (_, q)), .message _ p => (t, some (encVarint (q.length + p.length), q ++ p))
  | s, .other _ _ _ => s

/-- the Go variable `message` for an abstract state -/
def repMsg (w : Bool) : MsgSt → Option Bytes
  | none => none
  | some (lp, p) => some (if w then lp ++ p else p)

def MsgSt.WF : MsgSt → Prop
  | none => True
  | some (lp, p) => IsVarint lp p.length

def MsgSt.len : MsgSt → Nat
  | none => 0
  | some (_, p) => p.length

def Tok.len : Tok → Nat
  | .message _ p => p.length
  | _ => 0

def toksLen : List Tok → Nat
  | [] => 0
  | x :: r => x.len + toksLen r

theorem addMsg_rep (w : Bool) (m : MsgSt) (hm : m.WF) {lp p : Bytes}
    (hb : m.len + p.length < 2 ^ 64) (t : Nat) :
    addMsg w (repMsg w m) (lp ++ p) p = .ok ((repMsg w (stepTok (t, m) (.message lp p)).2).getD []) ∧
    (repMsg w (stepTok (t, m) (.message lp p)).2).isSome := by
  cases m with
  | none => cases w <;> simp [addMsg, repMsg, stepTok]
  | some x =>
    obtain ⟨lq, q⟩ := x
    cases w
    · simp [addMsg, repMsg, stepTok]
    · have hq : decVarint (lq ++ q) = .ok (q.length, lq.length) := hm q
      simp [addMsg, repMsg, stepTok, hq]

theorem stepTok_wf (t : Nat) (m : MsgSt) (x : Tok) (hm : m.WF) (hx : x.WF)
    (hb : m.len + x.len < 2 ^ 64) : (stepTok (t, m) x).2.WF ∧ (stepTok (t, m) x).2.len = m.len + x.len := by
  cases x with
  | typeId v => exact ⟨hm, by simp [stepTok, Tok.len]⟩
  | other num typ val => exact ⟨hm, by simp [stepTok, Tok.len]⟩
  | message lp p =>
    cases m with
    | none => exact ⟨hx, by simp [stepTok, Tok.len, MsgSt.len]⟩
    | some y =>
      obtain ⟨lq, q⟩ := y
      simp only [stepTok, MsgSt.WF, MsgSt.len, Tok.len, List.length_append, and_true] at hb ⊢
      exact isVarint_enc hb

/-- THE fold: on a sequence of well-formed fields followed by the end marker, the loop computes
`stepTok` over the sequence and stops exactly behind the marker -/
theorem itemLoop_toks (w : Bool) (ilen : Nat) : ∀ (toks : List Tok) (fuel t : Nat) (m : MsgSt) (rest : Bytes),
    (∀ x ∈ toks, x.WF) → m.WF → m.len + toksLen toks < 2 ^ 64 → toks.length < fuel →
    itemLoop w ilen fuel (encToks toks ++ (tag 1 4 ++ rest)) t (repMsg w m) =
      .ok ((toks.foldl stepTok (t, m)).1, finMsg w (repMsg w (toks.foldl stepTok (t, m)).2), ilen - rest.length)
  | [], fuel, t, m, rest, _, _, _, hf => by
    obtain ⟨f, rfl⟩ : ∃ f, fuel = f + 1 := ⟨fuel - 1, by simp at hf; omega⟩
    simp only [encToks, List.nil_append, List.foldl_nil]
    exact itemLoop_end w ilen f rest t _
  | x :: r, fuel, t, m, rest, hwf, hm, hb, hf => by
    obtain ⟨f, rfl⟩ : ∃ f, fuel = f + 1 := ⟨fuel - 1, by simp at hf; omega⟩
    have hx : x.WF := hwf x (by simp)
    have hr : ∀ y ∈ r, y.WF := fun y hy => hwf y (by simp [hy])
    simp only [toksLen] at hb
    have hstep := stepTok_wf t m x hm hx (by omega)
    have ih := itemLoop_toks w ilen r f (stepTok (t, m) x).1 (stepTok (t, m) x).2 rest hr hstep.1
      (by rw [hstep.2]; omega) (by simp at hf; omega)
    simp only [List.foldl_cons, encToks]
    rw [← ih]
    cases x with
    | typeId v =>
      simp only [Tok.enc, List.append_assoc, stepTok]
      exact itemLoop_typeId w ilen f hx.1 hx.2 _ t _
    | other num typ val =>
      obtain ⟨h1, h2, h3, n1, n2, n3, hv⟩ := hx
      simp only [Tok.enc, List.append_assoc, stepTok]
      exact itemLoop_other w ilen f h1 h2 h3 n1 n2 n3 _ (hv _) t _
    | message lp p =>
      have ha := addMsg_rep w m hm (lp := lp) (p := p) (by simp only [Tok.len] at hb; omega) t
      simp only [Tok.enc, List.append_assoc]
      rw [itemLoop_message w ilen f hx _ t _ ha.1]
      have h1 : (stepTok (t, m) (Tok.message lp p)).1 = t := by
        cases m with
        | none => rfl
        | some y => rfl
      have h2 : some ((repMsg w (stepTok (t, m) (Tok.message lp p)).2).getD []) =
          repMsg w (stepTok (t, m) (Tok.message lp p)).2 := by
        have := ha.2
        revert this
        cases repMsg w (stepTok (t, m) (Tok.message lp p)).2 <;> simp
      rw [h1, h2]

theorem Tok.enc_length_pos (x : Tok) : 0 < x.enc.length := by
  cases x with
  | typeId v => have := tag_length_pos 2 0; simp only [Tok.enc, List.length_append]; omega
  | message lp p => have := tag_length_pos 3 2; simp only [Tok.enc, List.length_append]; omega
  | other num typ val => have := tag_length_pos num typ; simp only [Tok.enc, List.length_append]; omega

theorem encToks_length_ge : ∀ toks : List Tok, toks.length ≤ (encToks toks).length
  | [] => by simp [encToks]
  | x :: r => by
    have := encToks_length_ge r
    have := x.enc_length_pos
    simp only [encToks, List.length_cons, List.length_append]; omega

/-- `ConsumeFieldValue` on a well-formed item body: the fold, and the length up to and including
the end marker — whatever follows -/
theorem consumeItem_toks (w : Bool) (toks : List Tok) (rest : Bytes)
    (hwf : ∀ x ∈ toks, x.WF) (hb : toksLen toks < 2 ^ 64) :
    consumeItem w (encToks toks ++ (tag 1 4 ++ rest)) =
      .ok ((toks.foldl stepTok (0, none)).1, finMsg w (repMsg w (toks.foldl stepTok (0, none)).2),
        (encToks toks ++ tag 1 4).length) := by
  unfold consumeItem
  have h := itemLoop_toks w (encToks toks ++ (tag 1 4 ++ rest)).length toks
    ((encToks toks ++ (tag 1 4 ++ rest)).length + 1) 0 none rest hwf trivial
    (by simpa [MsgSt.len] using hb)
    (by have := encToks_length_ge toks; simp only [List.length_append]; omega)
  simp only [repMsg] at h
  rw [h]
  simp only [List.length_append]
  congr 3
  omega

/-! ### one iteration of the `Unmarshal` loop -/

theorem itemsLoop_nil (w : Bool) (f : Nat) : itemsLoop w (f + 1) [] = .ok [] := by
  simp [itemsLoop]

theorem itemsLoop_item (w : Bool) (f : Nat) (body rest : Bytes) {t : Nat} {v : Bytes}
    (h : consumeItem w (body ++ rest) = .ok (t, v, body.length)) :
    itemsLoop w (f + 1) (tag 1 3 ++ (body ++ rest)) =
      if t = 0 then itemsLoop w f rest
      else (itemsLoop w f rest).map (fun r => (t, v) :: r) := by
  have hne : (tag 1 3 ++ (body ++ rest)).length ≠ 0 := by
    have := tag_length_pos 1 3; simp only [List.length_append]; omega
  simp only [itemsLoop, hne, if_false, decTag_tag (by omega : 1 ≤ 1) (by omega : 1 < 2 ^ 31) (by omega : 3 < 8),
    fieldItem, wStartGroup, List.drop_left', h]
  simp only [ne_eq, not_true_eq_false, or_self, if_false]
  split
  · rfl
  · cases itemsLoop w f rest <;> rfl

theorem itemsLoop_field (w : Bool) (f : Nat) {num typ : Nat} {val : Bytes}
    (h1 : 1 ≤ num) (h2 : num < 2 ^ 31) (ht : typ < 8) (hn : ¬ (num = 1 ∧ typ = 3)) (rest : Bytes)
    (hv : consumeFieldValue num typ (val ++ rest) = .ok val.length) :
    itemsLoop w (f + 1) (tag num typ ++ (val ++ rest)) = itemsLoop w f rest := by
  have hne : (tag num typ ++ (val ++ rest)).length ≠ 0 := by
    have := tag_length_pos num typ; simp only [List.length_append]; omega
  have hc : num ≠ 1 ∨ typ ≠ 3 := by omega
  simp only [itemsLoop, hne, if_false, decTag_tag h1 h2 ht, fieldItem, wStartGroup, List.drop_left', hc, if_true, hv]

/-! ### element sequences: what a MessageSet encoding consists of -/

inductive El where
  /-- `start-group(1) … end-group(1)` around a sequence of fields -/
  | item (toks : List Tok)
  /-- any other complete top-level field -/
  | field (num typ : Nat) (val : Bytes)

def El.enc : El → Bytes
  | .item toks => tag 1 3 ++ (encToks toks ++ tag 1 4)
  | .field num typ val => tag num typ ++ val

def El.WF : El → Prop
  | .item toks => (∀ x ∈ toks, x.WF) ∧ toksLen toks < 2 ^ 64
  | .field num typ val => 1 ≤ num ∧ num < 2 ^ 31 ∧ typ < 8 ∧ ¬ (num = 1 ∧ typ = 3) ∧
      ∀ r, consumeFieldValue num typ (val ++ r) = .ok val.length

/-- the call `fn(typeID, value)` an element gives rise to, if any: items WITHOUT a type id and
fields that are not items are dropped -/
def El.callback (w : Bool) : El → Option (Nat × Bytes)
  | .item toks =>
    let s := toks.foldl stepTok (0, none)
    if s.1 = 0 then none else some (s.1, finMsg w (repMsg w s.2))
  | .field _ _ _ => none

def encEls : List El → Bytes
  | [] => []
  | x :: r => x.enc ++ encEls r

theorem El.enc_length_pos (x : El) : 0 < x.enc.length := by
  cases x with
  | item toks => have := tag_length_pos 1 3; simp only [El.enc, List.length_append]; omega
  | field num typ val => have := tag_length_pos num typ; simp only [El.enc, List.length_append]; omega

theorem encEls_length_ge : ∀ els : List El, els.length ≤ (encEls els).length
  | [] => by simp [encEls]
  | x :: r => by
    have := encEls_length_ge r
    have := x.enc_length_pos
    simp only [encEls, List.length_cons, List.length_append]; omega

theorem itemsLoop_els (w : Bool) : ∀ (els : List El) (fuel : Nat), (∀ x ∈ els, x.WF) → els.length < fuel →
    itemsLoop w fuel (encEls els) = .ok (els.filterMap (El.callback w))
  | [], fuel, _, hf => by
    obtain ⟨f, rfl⟩ : ∃ f, fuel = f + 1 := ⟨fuel - 1, by simp at hf; omega⟩
    exact itemsLoop_nil w f
  | x :: r, fuel, hwf, hf => by
    obtain ⟨f, rfl⟩ : ∃ f, fuel = f + 1 := ⟨fuel - 1, by simp at hf; omega⟩
    have hx : x.WF := hwf x (by simp)
    have ih := itemsLoop_els w r f (fun y hy => hwf y (by simp [hy])) (by simp at hf; omega)
    cases x with
    | field num typ val =>
      obtain ⟨h1, h2, h3, hn, hv⟩ := hx
      simp only [encEls, El.enc, List.append_assoc, List.filterMap_cons, El.callback]
      rw [itemsLoop_field w f h1 h2 h3 hn _ (hv _), ih]
    | item toks =>
      obtain ⟨ht, hb⟩ := hx
      have hc := consumeItem_toks w toks (encEls r) ht hb
      rw [← List.append_assoc] at hc
      simp only [encEls, El.enc, List.append_assoc]
      have := itemsLoop_item w f (encToks toks ++ tag 1 4) (encEls r) (by simpa [List.append_assoc] using hc)
      simp only [List.append_assoc] at this
      rw [this, ih]
      simp only [List.filterMap_cons, El.callback]
      split <;> simp_all [Except.map]

/-- `messageset.Unmarshal` on any sequence of well-formed elements: exactly the callbacks of its
items that carry a type id, in order -/
theorem unmarshalItems_els (w : Bool) (els : List El) (hwf : ∀ x ∈ els, x.WF) :
    unmarshalItems w (encEls els) = .ok (els.filterMap (El.callback w)) := by
  unfold unmarshalItems
  exact itemsLoop_els w els _ hwf (by have := encEls_length_ge els; omega)

end MSet
