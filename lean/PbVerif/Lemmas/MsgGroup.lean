import PbVerif.Lemmas.MsgRound
/-
Groups: the encoding of a well-formed message is a sequence of complete wire records for
`protowire.ConsumeFieldValue`'s group loop (`Spec.groupLen`), so a group record written by the
encoder is delimited and extracted exactly (`GroupScanOK`), for every schema.
-/
namespace Pb
open Spec

/-- `body` is a sequence of complete records for the group loop at budget `d`: scanning
`body ++ tail` continues as scanning `tail` with `body.length` more bytes accounted for -/
def ScanOK (d : Int) (body : List Byte) : Prop :=
  ∀ (num acc : Nat) (tail : List Byte) (r : Option (Except WErr Nat)),
    (∀ fuel, 2 * tail.length + 1 ≤ fuel → groupLen fuel num tail d (acc + body.length) = r) →
    (∀ fuel, 2 * (body ++ tail).length + 1 ≤ fuel → groupLen fuel num (body ++ tail) d acc = r)

theorem ScanOK_nil (d : Int) : ScanOK d [] := by
  intro num acc tail r h fuel hf
  simpa using h fuel (by simpa using hf)

theorem ScanOK_append {d : Int} {a b : List Byte} (ha : ScanOK d a) (hb : ScanOK d b) : ScanOK d (a ++ b) := by
  intro num acc tail r h
  rw [List.append_assoc]
  apply ha
  apply hb
  intro fuel hf
  have := h fuel hf
  rw [List.length_append, ← Nat.add_assoc] at this
  exact this

/-- one record whose value `fieldValueLen` measures exactly, whatever follows -/
theorem ScanOK_record {d : Int} {num2 typ2 : Nat} {payload : List Byte}
    (h1 : 1 ≤ num2) (h2 : num2 < 2 ^ 31) (ht : typ2 < 8) (h4 : typ2 ≠ 4)
    (hv : ∀ tail fuel, 2 * (payload ++ tail).length + 2 ≤ fuel →
      fieldValueLen fuel num2 typ2 (payload ++ tail) (d - 1) = some (.ok payload.length)) :
    ScanOK d (tagBytes num2 typ2 ++ payload) := by
  intro num acc tail r h fuel hf
  cases fuel with
  | zero => omega
  | succ fu =>
    have hpos := tagBytes_pos num2 typ2
    simp only [List.length_append] at hf
    rw [List.append_assoc]
    conv => lhs; unfold groupLen
    unfold tagBytes at hpos hf ⊢
    rw [decTag_enc h1 h2 ht]
    simp only [h4, if_false, List.drop_left]
    rw [hv tail fu (by simp only [List.length_append]; omega)]
    simp only [List.drop_left]
    have := h fu (by omega)
    simp only [List.length_append] at this
    rw [← Nat.add_assoc] at this
    exact this

theorem ScanOK_scalar {d : Int} {f : Field} {v : Val} (h1 : 1 ≤ f.num) (h2 : f.num < 2 ^ 31)
    (hs : wfScalar f v = true) : ScanOK d (tagBytes f.num f.kind.wireType ++ encScalar f.kind v) := by
  have hnot3 := wfScalar_not_message hs
  apply ScanOK_record h1 h2 (wireType_lt _) (by cases f.kind <;> simp [Kind.wireType])
  intro tail fuel hf
  have hc := consume_scalar hs f.num tail (d - 1)
  unfold consumeFieldValue at hc
  split at hc
  · rename_i r hr
    subst hc
    have := (fieldValueLen_mono _).1 _ _ _ _ _ hr fuel (d - 1) [] (by unfold Spec.fuelFor; omega) (Int.le_refl _)
    simpa using this
  · simp at hc

/-- a length-delimited record -/
theorem ScanOK_bytes {d : Int} {num : Nat} {p : List Byte} (h1 : 1 ≤ num) (h2 : num < 2 ^ 31)
    (hp : p.length < 2 ^ 64) : ScanOK d (tagBytes num 2 ++ (encVarint p.length ++ p)) := by
  apply ScanOK_record h1 h2 (by omega) (by omega)
  intro tail fuel hf
  cases fuel with
  | zero => omega
  | succ fu =>
    simp only [fieldValueLen, List.append_assoc, decBytes_enc' hp, Except.map, List.length_append]

/-- a group record whose body is scannable one level down -/
theorem ScanOK_group {d : Int} {num : Nat} {body : List Byte} (h1 : 1 ≤ num) (h2 : num < 2 ^ 31)
    (hd : 0 ≤ d - 1) (hb : ScanOK (d - 1) body) :
    ScanOK d (tagBytes num 3 ++ (body ++ tagBytes num 4)) := by
  apply ScanOK_record h1 h2 (by omega) (by omega)
  intro tail fuel hf
  cases fuel with
  | zero => omega
  | succ fu =>
    unfold fieldValueLen
    have : ¬ d - 1 < 0 := by omega
    simp only [this, if_false, List.append_assoc]
    apply hb num 0 (tagBytes num 4 ++ tail) _ _ fu (by simp only [List.length_append] at hf ⊢; omega)
    intro fuel2 hf2
    cases fuel2 with
    | zero => omega
    | succ fu2 =>
      conv => lhs; unfold groupLen
      unfold tagBytes
      rw [decTag_enc h1 h2 (by omega)]
      simp only [if_true, ne_eq, not_true_eq_false, if_false, List.length_append, Nat.zero_add]

/-- well-formed unknown bytes are scannable -/
theorem unk_scan (dd : MsgD) (g : Int) : ∀ (fuel0 : Nat) (b : List Byte), unkOKAux dd g fuel0 b = true →
    ScanOK (g + 1) b
  | 0, _, h => by simp [unkOKAux] at h
  | fuel0 + 1, b, h => by
    unfold unkOKAux at h
    split at h
    · exact ScanOK_nil _
    · rename_i hb
      split at h
      · simp at h
      · rename_i num2 wt tl ht
        simp only [Bool.and_eq_true, decide_eq_true_eq, Option.isNone_iff_eq_none] at h
        obtain ⟨⟨hmax, hfind⟩, h3⟩ := h
        split at h3
        · simp at h3
        · rename_i n hn
          have ih := unk_scan dd g fuel0 _ h3
          have htl := decTag_len ht
          unfold consumeFieldValue at hn
          split at hn
          · rename_i r0 hr
            subst hn
            have hnl := (fieldValueLen_le _).1 _ _ _ _ _ hr
            simp only [List.length_drop] at hnl
            intro num acc tail r hcont fuel hf
            cases fuel with
            | zero => omega
            | succ fu =>
              simp only [List.length_append] at hf
              conv => lhs; unfold groupLen
              rw [decTag_ext tail ht]
              simp only
              by_cases h4 : wt = 4
              · subst h4
                simp [Spec.fuelFor, fieldValueLen] at hr
              · simp only [h4, if_false]
                have e1 : (b ++ tail).drop tl = b.drop tl ++ tail := List.drop_append_of_le_length htl.2
                have hfv := (fieldValueLen_mono _).1 _ _ _ _ _ hr fu g tail
                  (by unfold Spec.fuelFor; simp only [List.length_drop]; omega) (Int.le_refl _)
                rw [e1, Int.add_sub_cancel, hfv]
                simp only
                have e2 : (b.drop tl ++ tail).drop n = (b.drop tl).drop n ++ tail :=
                  List.drop_append_of_le_length (by simp only [List.length_drop]; omega)
                rw [e2]
                apply ih num (acc + tl + n) tail r
                · intro fuel2 hf2
                  have := hcont fuel2 hf2
                  have e3 : acc + tl + n + ((b.drop tl).drop n).length = acc + b.length := by
                    simp only [List.length_drop]; omega
                  rw [e3]; exact this
                · simp only [List.length_append, List.length_drop]; omega
          · simp at hn

def ScanMsg (S : Schema) (m : Msg) : Prop :=
  ∀ (mi : Nat) (g : Int), cwfMsg S mi g m = true → ScanOK (g + 1) (encMsg S mi m)

theorem scan_val {S : Schema} {f : Field} {g : Int} {v : Val} (h1 : 1 ≤ f.num) (h2 : f.num < 2 ^ 31)
    (hwf : cwfVal S g f v = true) (IH : ∀ sub, v = .msg sub → ScanMsg S sub) :
    ScanOK (g + 1) (encVal S f v) := by
  by_cases hm : f.kind.isMessage = true
  · cases v with
    | num n => simp [cwfVal, hm] at hwf
    | bytes b => simp [cwfVal, hm] at hwf
    | msg sub =>
      simp only [cwfVal, hm, Bool.true_and] at hwf
      by_cases hgrp : f.kind = .group
      · simp only [hgrp, if_true, Bool.and_eq_true, decide_eq_true_eq] at hwf
        simp only [encVal, hgrp, if_true, List.append_assoc]
        apply ScanOK_group h1 h2 (by omega)
        have := IH sub rfl f.sub (g - 1) hwf.2
        have e : g + 1 - 1 = g - 1 + 1 := by omega
        rw [e]; exact this
      · simp only [hgrp, if_false, Bool.and_eq_true, decide_eq_true_eq] at hwf
        simp only [encVal, hgrp, if_false, List.append_assoc]
        apply ScanOK_bytes h1 h2
        rw [← C04.size_eq_length]; exact hwf.2
  · have hm' : f.kind.isMessage = false := by simpa using hm
    have hs := cwfVal_scalar hm' hwf
    rw [encVal_scalar S f hs]
    exact ScanOK_scalar h1 h2 hs

theorem scan_vals {S : Schema} {f : Field} {g : Int} (h1 : 1 ≤ f.num) (h2 : f.num < 2 ^ 31) :
    ∀ (vs : Vals), cwfVals S g f vs = true → (∀ sub, sizeOf sub < sizeOf vs → ScanMsg S sub) →
      ScanOK (g + 1) (encVals S f vs)
  | .nil, _, _ => by simpa [encVals] using ScanOK_nil _
  | .cons v tl, hwf, IH => by
    simp only [cwfVals, Bool.and_eq_true] at hwf
    simp only [encVals]
    apply ScanOK_append
    · apply scan_val h1 h2 hwf.1
      intro sub hs; subst hs; apply IH; simp; omega
    · apply scan_vals h1 h2 tl hwf.2
      intro sub hs; apply IH; simp; omega

theorem scan_entries {S : Schema} {f kf vf : Field} {g : Int} (h1 : 1 ≤ f.num) (h2 : f.num < 2 ^ 31)
    (hkm : f.kind = .message) :
    ∀ (vs : Vals), cwfEntries S f kf vf vs = true → ScanOK (g + 1) (encVals S f vs)
  | .nil, _ => by simpa [encVals] using ScanOK_nil _
  | .cons v tl, hwf => by
    simp only [cwfEntries, Bool.and_eq_true] at hwf
    obtain ⟨⟨hwe, _⟩, hwt⟩ := hwf
    obtain ⟨key, value, hveq, hks, hvs, hsz⟩ := cwfEntry_inv hwe
    subst hveq
    simp only [encVals]
    apply ScanOK_append
    · have hkg : f.kind ≠ .group := by rw [hkm]; decide
      simp only [encVal, hkg, if_false, List.append_assoc]
      apply ScanOK_bytes h1 h2
      rw [← C04.size_eq_length]; exact hsz
    · exact scan_entries h1 h2 hkm tl hwt

theorem scan_fval {S : Schema} {f : Field} {g : Int} (h1 : 1 ≤ f.num) (h2 : f.num < 2 ^ 31)
    {fv : FVal} (hwf : cwfFVal S g f fv = true) (IH : ∀ sub, sizeOf sub < sizeOf fv → ScanMsg S sub) :
    ScanOK (g + 1) (encFVal S f fv) := by
  cases fv with
  | one v =>
    simp only [cwfFVal, Bool.and_eq_true] at hwf
    simp only [encFVal]
    apply scan_val h1 h2 hwf.1.2
    intro sub hs; subst hs; apply IH; simp; omega
  | many vs =>
    simp only [cwfFVal, Bool.and_eq_true, Bool.not_eq_true'] at hwf
    obtain ⟨hne, hwf⟩ := hwf
    have hIH : ∀ sub, sizeOf sub < sizeOf vs → ScanMsg S sub := by
      intro sub hs; apply IH; simp; omega
    cases hc : f.card with
    | optional => simp [hc] at hwf
    | implicit => simp [hc] at hwf
    | required => simp [hc] at hwf
    | repeated =>
      simp only [hc, Bool.and_eq_true] at hwf
      obtain ⟨hvs, hpk⟩ := hwf
      simp only [encFVal, hne, Bool.not_false, Bool.and_true]
      by_cases hp : (f.packed && f.kind.isNumeric) = true
      · simp only [hp, if_true] at ⊢
        simp only [Bool.and_eq_true] at hp
        simp only [hp, and_self, if_true, decide_eq_true_eq] at hpk
        rw [List.append_assoc]
        apply ScanOK_bytes h1 h2
        rw [← C04.sizePacked_eq]; exact hpk
      · simp only [hp]
        exact scan_vals h1 h2 vs hvs hIH
    | map =>
      simp only [hc, Bool.and_eq_true, beq_iff_eq] at hwf
      obtain ⟨hkm, hwf⟩ := hwf
      split at hwf
      · rename_i kf vf hk hv
        have hpk : (f.packed && f.kind.isNumeric && !vs.isNil) = false := by
          simp [hkm, Kind.isNumeric]
        simp only [encFVal, hpk, Bool.false_eq_true, if_false]
        exact scan_entries h1 h2 hkm vs hwf
      · simp at hwf

theorem scan_fields {S : Schema} {d : MsgD} {g : Int} :
    ∀ (fs : Fields) (lb : Nat), 1 ≤ lb → cwfFields S d g lb fs = true →
      (∀ sub, sizeOf sub < sizeOf fs → ScanMsg S sub) → ScanOK (g + 1) (encFields S d fs)
  | .nil, _, _, _, _ => by simpa [encFields] using ScanOK_nil _
  | .cons num fv tl, lb, hlb, hwf, IH => by
    simp only [cwfFields, Bool.and_eq_true, decide_eq_true_eq] at hwf
    obtain ⟨⟨⟨hl, hmax⟩, hf⟩, htl⟩ := hwf
    cases hfind : d.find num with
    | none => simp [hfind] at hf
    | some f =>
      simp only [hfind, Bool.and_eq_true] at hf
      have hn := MsgD.find_num_eq hfind
      subst hn
      simp only [encFields, hfind]
      apply ScanOK_append
      · apply scan_fval (by omega) (by unfold maxValidNumber at hmax; omega) hf.1
        intro sub hs; apply IH; simp; omega
      · apply scan_fields tl (f.num + 1) (by omega) htl
        intro sub hs; apply IH; simp; omega

theorem scanMsg_all {S : Schema} : ∀ (n : Nat) (m : Msg), sizeOf m ≤ n → ScanMsg S m
  | 0, m, h => by cases m; simp at h
  | n + 1, .mk fs unk, h => by
    intro mi g hwf
    simp only [cwfMsg, Bool.and_eq_true] at hwf
    simp only [encMsg]
    apply ScanOK_append
    · apply scan_fields fs 1 (Nat.le_refl _) hwf.1
      intro sub hs; apply scanMsg_all n; simp at h; omega
    · exact unk_scan _ g _ unk hwf.2

theorem scanMsg (S : Schema) (m : Msg) : ScanMsg S m := scanMsg_all (sizeOf m) m (Nat.le_refl _)

/-- the end tag closes the group: the loop returns the accounted length plus the tag -/
theorem groupLen_endTag {num : Nat} (h1 : 1 ≤ num) (h2 : num < 2 ^ 31) (d : Int) (acc : Nat) (tail : List Byte) :
    ∀ fuel, 1 ≤ fuel → groupLen fuel num (tagBytes num 4 ++ tail) d acc = some (.ok (acc + (tagBytes num 4).length)) := by
  intro fuel hf
  cases fuel with
  | zero => omega
  | succ fu =>
    conv => lhs; unfold groupLen
    unfold tagBytes
    rw [decTag_enc h1 h2 (by omega)]
    simp only [if_true, ne_eq, not_true_eq_false, if_false]

/-- **the wire-level group facts hold for every schema** -/
theorem groupScanOK (S : Schema) : GroupScanOK S := by
  intro mi f g sub rest hfind hgrp hg h1 h2 hwf
  have h2' : f.num < 2 ^ 31 := by unfold maxValidNumber at h2; omega
  simp only [cwfVal, hgrp, if_true, Bool.and_eq_true, decide_eq_true_eq] at hwf
  obtain ⟨_, hg0, hsub⟩ := hwf
  have hscan := scanMsg S sub f.sub (g - 1) hsub
  have e : g - 1 + 1 = g := by omega
  rw [e] at hscan
  generalize encMsg S f.sub sub = body at hscan ⊢
  -- the group loop at budget g
  have hloop : ∀ fuel, 2 * (body ++ (tagBytes f.num 4 ++ rest)).length + 1 ≤ fuel →
      groupLen fuel f.num (body ++ (tagBytes f.num 4 ++ rest)) g 0 =
        some (.ok (body.length + (tagBytes f.num 4).length)) := by
    apply hscan f.num 0 (tagBytes f.num 4 ++ rest)
    intro fuel hf
    rw [groupLen_endTag h1 h2' g _ rest fuel (by omega), Nat.zero_add]
  have hcons : consumeFieldValue f.num 3 ((body ++ tagBytes f.num 4) ++ rest) =
      .ok (body ++ tagBytes f.num 4).length := by
    unfold consumeFieldValue Spec.fuelFor
    have hfv : fieldValueLen (2 * ((body ++ tagBytes f.num 4) ++ rest).length + 2) f.num 3
        ((body ++ tagBytes f.num 4) ++ rest) defaultRecursionLimit =
        some (.ok (body ++ tagBytes f.num 4).length) := by
      unfold fieldValueLen
      have : ¬ defaultRecursionLimit < 0 := by unfold defaultRecursionLimit; omega
      simp only [this, if_false]
      have := (fieldValueLen_mono _).2 _ _ _ _ _
        (hloop (2 * ((body ++ tagBytes f.num 4) ++ rest).length + 1) (by simp only [List.append_assoc]; omega))
        (2 * ((body ++ tagBytes f.num 4) ++ rest).length + 1) defaultRecursionLimit [] (Nat.le_refl _) hg
      simpa only [List.append_nil, List.append_assoc, List.length_append] using this
    rw [hfv]
  refine ⟨?_, hcons⟩
  unfold decSubBytes
  simp only [hgrp, if_true, ne_eq, not_true_eq_false, if_false]
  unfold consumeGroup
  rw [hcons]
  simp only [List.take_left]
  obtain ⟨init, x, he, hx⟩ := encVarint_last (encTag f.num 4) (by unfold encTag; omega)
  have hs : stripZeros7 (body ++ tagBytes f.num 4) = body ++ tagBytes f.num 4 := by
    unfold tagBytes; rw [he, ← List.append_assoc]; exact stripZeros7_snoc _ _ hx
  rw [hs]
  have hl : (body ++ tagBytes f.num 4).length - sizeVarint (encTag f.num 0) = body.length := by
    have := tag_length f.num 4 0
    unfold tagBytes sizeVarint; simp only [List.length_append]; omega
  rw [hl, List.take_left]

end Pb
