import PbVerif.Lemmas.MsgDec
/-
Fuel independence of the decoder model: with fuel ≥ `input length + 2` (the model's `fuelFor`)
the result of `decMsg`/`decField`/`decEntry` does not depend on the fuel.
-/
namespace Pb
open Spec

/-- one more unit of fuel changes nothing once the fuel covers the input -/
theorem algFuelStep : ∀ (fu : Nat),
    (∀ S mi m b depth dis, b.length + 2 ≤ fu →
      decMsg fu S mi m b depth dis = decMsg (fu + 1) S mi m b depth dis) ∧
    (∀ S mi m f wt val depth dis, val.length + 2 ≤ fu →
      decField fu S mi m f wt val depth dis = decField (fu + 1) S mi m f wt val depth dis) ∧
    (∀ S kf vf k v b depth dis, b.length + 2 ≤ fu →
      decEntry fu S kf vf k v b depth dis = decEntry (fu + 1) S kf vf k v b depth dis)
  | 0 => ⟨by intros; omega, by intros; omega, by intros; omega⟩
  | fu + 1 => by
    obtain ⟨ihM, ihF, ihE⟩ := algFuelStep fu
    refine ⟨?_, ?_, ?_⟩
    · intro S mi m b depth dis hb
      cases b with
      | nil => rw [decMsg.eq_2, decMsg.eq_2]
      | cons x t =>
        rw [decMsg.eq_3 _ _ _ _ _ _ _ (by intro h; cases h), decMsg.eq_3 _ _ _ _ _ _ _ (by intro h; cases h)]
        cases hT : decTag (x :: t) with
        | error e => rfl
        | ok r =>
          obtain ⟨num, wt, tagLen⟩ := r
          have hl := decTag_len hT
          simp only
          by_cases hmax : num > maxValidNumber
          · simp only [hmax, if_true]
          · simp only [hmax, if_false]
            have hval : (List.drop tagLen (x :: t)).length + 2 ≤ fu := by
              rw [List.length_drop]; omega
            have hrest : ∀ n, (List.drop n (List.drop tagLen (x :: t))).length + 2 ≤ fu := by
              intro n; rw [List.length_drop, List.length_drop]; omega
            cases hfind : (S.msg mi).find num with
            | none =>
              simp only
              cases consumeFieldValue num wt (List.drop tagLen (x :: t)) with
              | error e => rfl
              | ok n => simp only; rw [ihM _ _ _ _ _ _ (hrest n)]
            | some f =>
              simp only
              rw [← ihF _ _ _ _ _ _ _ _ hval]
              cases decField fu S mi m f wt (List.drop tagLen (x :: t)) depth dis with
              | err e => rfl
              | ok m' =>
                simp only
                cases consumeFieldValue num wt (List.drop tagLen (x :: t)) with
                | error e => rfl
                | ok n => simp only; rw [ihM _ _ _ _ _ _ (hrest n)]
              | unknown =>
                simp only
                cases consumeFieldValue num wt (List.drop tagLen (x :: t)) with
                | error e => rfl
                | ok n => simp only; rw [ihM _ _ _ _ _ _ (hrest n)]
    · intro S mi m f wt val depth dis hb
      rw [decField.eq_2, decField.eq_2]
      have hsub : ∀ p cur, decSubBytes f wt val = some (.ok p) →
          decMsg fu S f.sub cur p (depth - 1) dis = decMsg (fu + 1) S f.sub cur p (depth - 1) dis := by
        intro p cur hp
        have := decSubBytes_payload_len hp
        exact ihM _ _ _ _ _ _ (by omega)
      have singular : (if f.kind.isMessage = true then
            match decSubBytes f wt val with
            | none => Step.unknown
            | some (Except.error e) => Step.err e
            | some (Except.ok p) =>
              have fs0 :=
                match f.oneof with
                | some o => Fields.clearOneof (S.msg mi) o f.num m.fields
                | none => m.fields;
              have cur :=
                match fs0.get? f.num with
                | some (FVal.one (Val.msg x)) => x
                | x => Msg.empty;
              if depth - 1 < 0 then Step.err DErr.depth
              else
                match decMsg fu S f.sub cur p (depth - 1) dis with
                | Except.error e => Step.err e
                | Except.ok sub => Step.ok (Msg.mk (fs0.set f.num (FVal.one (Val.msg sub))) m.unknown)
          else
            match decScalar f wt val with
            | none => Step.unknown
            | some (Except.error e) => Step.err e
            | some (Except.ok v) => Step.ok (Msg.mk (setSingular (S.msg mi) f m.fields v) m.unknown)) =
          (if f.kind.isMessage = true then
            match decSubBytes f wt val with
            | none => Step.unknown
            | some (Except.error e) => Step.err e
            | some (Except.ok p) =>
              have fs0 :=
                match f.oneof with
                | some o => Fields.clearOneof (S.msg mi) o f.num m.fields
                | none => m.fields;
              have cur :=
                match fs0.get? f.num with
                | some (FVal.one (Val.msg x)) => x
                | x => Msg.empty;
              if depth - 1 < 0 then Step.err DErr.depth
              else
                match decMsg (fu + 1) S f.sub cur p (depth - 1) dis with
                | Except.error e => Step.err e
                | Except.ok sub => Step.ok (Msg.mk (fs0.set f.num (FVal.one (Val.msg sub))) m.unknown)
          else
            match decScalar f wt val with
            | none => Step.unknown
            | some (Except.error e) => Step.err e
            | some (Except.ok v) => Step.ok (Msg.mk (setSingular (S.msg mi) f m.fields v) m.unknown)) := by
        cases hS : decSubBytes f wt val with
        | none => rfl
        | some r =>
          cases r with
          | error e => rfl
          | ok p => simp only [hsub p _ hS]
      cases hc : f.card with
      | optional => exact singular
      | implicit => exact singular
      | required => exact singular
      | repeated =>
        simp only
        cases hS : decSubBytes f wt val with
        | none => rfl
        | some r =>
          cases r with
          | error e => rfl
          | ok p => simp only [hsub p _ hS]
      | map =>
        simp only
        cases hB : decBytes val with
        | error e => rfl
        | ok r =>
          obtain ⟨p, n⟩ := r
          have := decBytes_payload_len hB
          simp only [ihE _ _ _ _ _ p _ _ (by omega)]
    · intro S kf vf k v b depth dis hb
      cases b with
      | nil => conv => lhs; unfold decEntry
               conv => rhs; unfold decEntry
      | cons x t =>
        conv => lhs; unfold decEntry
        conv => rhs; unfold decEntry
        simp only
        cases hT : decTag (x :: t) with
        | error e => rfl
        | ok r =>
          obtain ⟨num, wt, tagLen⟩ := r
          have hl := decTag_len hT
          simp only
          have hrest : ∀ n, (List.drop n (List.drop tagLen (x :: t))).length + 2 ≤ fu := by
            intro n; rw [List.length_drop, List.length_drop]; omega
          have hsub : ∀ p cur, decSubBytes vf wt (List.drop tagLen (x :: t)) = some (.ok p) →
              decMsg fu S vf.sub cur p (depth - 1) dis = decMsg (fu + 1) S vf.sub cur p (depth - 1) dis := by
            intro p cur hp
            have := decSubBytes_payload_len hp
            rw [List.length_drop] at this
            exact ihM _ _ _ _ _ _ (by omega)
          cases hC : consumeFieldValue num wt (List.drop tagLen (x :: t)) with
          | error e =>
            simp only
            cases hS : decSubBytes vf wt (List.drop tagLen (x :: t)) with
            | none => rfl
            | some r =>
              cases r with
              | error e => rfl
              | ok p => simp only [hsub p _ hS]
          | ok n =>
            have hE : ∀ k' v', decEntry fu S kf vf k' v' (List.drop n (List.drop tagLen (x :: t))) depth dis =
                decEntry (fu + 1) S kf vf k' v' (List.drop n (List.drop tagLen (x :: t))) depth dis :=
              fun k' v' => ihE _ _ _ _ _ _ _ _ (hrest n)
            simp only [hE]
            cases hS : decSubBytes vf wt (List.drop tagLen (x :: t)) with
            | none => rfl
            | some r =>
              cases r with
              | error e => rfl
              | ok p => simp only [hsub p _ hS]

/-- **fuel independence**: any two fuels ≥ `input length + 2` give the same result -/
theorem decMsg_fuel_indep (S : Schema) (mi : Nat) (m : Msg) (b : List Byte) (depth : Int) (dis : Bool) :
    ∀ (k : Nat) (f : Nat), b.length + 2 ≤ f →
      decMsg (f + k) S mi m b depth dis = decMsg f S mi m b depth dis
  | 0, _, _ => rfl
  | k + 1, f, h => by
    rw [← Nat.add_assoc, ← (algFuelStep (f + k)).1 S mi m b depth dis (by omega)]
    exact decMsg_fuel_indep S mi m b depth dis k f h

theorem decMsg_fuel_eq (S : Schema) (mi : Nat) (m : Msg) (b : List Byte) (depth : Int) (dis : Bool)
    {f f' : Nat} (h : b.length + 2 ≤ f) (h' : b.length + 2 ≤ f') :
    decMsg f S mi m b depth dis = decMsg f' S mi m b depth dis := by
  rcases Nat.le_total f f' with hle | hle
  · obtain ⟨k, rfl⟩ := Nat.exists_eq_add_of_le hle
    exact (decMsg_fuel_indep S mi m b depth dis k f h).symm
  · obtain ⟨k, rfl⟩ := Nat.exists_eq_add_of_le hle
    exact decMsg_fuel_indep S mi m b depth dis k f' h'

/-! ### a complete record is read the same way whatever follows it -/

theorem consumeFieldValue_some {num typ : Nat} {b : List Byte} {d : Int} {n : Nat}
    (h : consumeFieldValue num typ b d = .ok n) :
    fieldValueLen (Spec.fuelFor b) num typ b d = some (.ok n) := by
  unfold consumeFieldValue at h
  split at h
  · rename_i r hr; rw [hr, h]
  · cases h

theorem consumeFieldValue_ext {num typ : Nat} {b : List Byte} {d : Int} {n : Nat} (t : List Byte)
    (h : consumeFieldValue num typ b d = .ok n) : consumeFieldValue num typ (b ++ t) d = .ok n := by
  have h1 := consumeFieldValue_some h
  have h2 := (fieldValueLen_mono (Spec.fuelFor b)).1 num typ b d n h1 (Spec.fuelFor (b ++ t)) d t
    (by unfold Spec.fuelFor; simp only [List.length_append]; omega) (Int.le_refl _)
  unfold consumeFieldValue
  rw [h2]

/-- the primitive reads implied by a complete record `(num, wt)` at the head of `val` -/
theorem complete_cases {num wt : Nat} {val : List Byte} {k : Nat}
    (h : consumeFieldValue num wt val = .ok k) :
    (wt = 0 → ∃ v, decVarint val = .ok (v, k)) ∧ (wt = 5 → ∃ v, decFixed 4 val = .ok (v, k)) ∧
    (wt = 1 → ∃ v, decFixed 8 val = .ok (v, k)) ∧ (wt = 2 → ∃ p, decBytes val = .ok (p, k)) := by
  refine ⟨?_, ?_, ?_, ?_⟩
  · rintro rfl
    rw [consumeFieldValue_varint] at h
    cases hv : decVarint val with
    | error e => rw [hv] at h; cases h
    | ok r => rw [hv] at h; obtain ⟨v, n⟩ := r; simp only [Except.map, Except.ok.injEq] at h; subst h; exact ⟨v, rfl⟩
  · rintro rfl
    rw [consumeFieldValue_fixed32] at h
    cases hv : decFixed 4 val with
    | error e => rw [hv] at h; cases h
    | ok r => rw [hv] at h; obtain ⟨v, n⟩ := r; simp only [Except.map, Except.ok.injEq] at h; subst h; exact ⟨v, rfl⟩
  · rintro rfl
    rw [consumeFieldValue_fixed64] at h
    cases hv : decFixed 8 val with
    | error e => rw [hv] at h; cases h
    | ok r => rw [hv] at h; obtain ⟨v, n⟩ := r; simp only [Except.map, Except.ok.injEq] at h; subst h; exact ⟨v, rfl⟩
  · rintro rfl
    rw [consumeFieldValue_bytes] at h
    cases hv : decBytes val with
    | error e => rw [hv] at h; cases h
    | ok r => rw [hv] at h; obtain ⟨v, n⟩ := r; simp only [Except.map, Except.ok.injEq] at h; subst h; exact ⟨v, rfl⟩

theorem decScalar_ext {f : Field} {num wt : Nat} {val : List Byte} {k : Nat} (y : List Byte)
    (h : consumeFieldValue num wt val = .ok k) : decScalar f wt (val ++ y) = decScalar f wt val := by
  obtain ⟨h0, h5, h1, h2⟩ := complete_cases h
  unfold decScalar
  by_cases hw : wt ≠ f.kind.wireType
  · rw [if_pos hw, if_pos hw]
  · rw [if_neg hw, if_neg hw]
    have hw' : wt = f.kind.wireType := by simpa using hw
    split
    · rename_i hk
      obtain ⟨v, hv⟩ := h0 (hw'.trans hk)
      rw [decVarint_ext y hv, hv]
    · rename_i hk
      obtain ⟨v, hv⟩ := h5 (hw'.trans hk)
      rw [decFixed_ext y hv, hv]
    · rename_i hk
      obtain ⟨v, hv⟩ := h1 (hw'.trans hk)
      rw [decFixed_ext y hv, hv]
    · rename_i hk
      obtain ⟨p, hv⟩ := h2 (hw'.trans hk)
      rw [decBytes_ext y hv, hv]
    · rfl

theorem decSubBytes_ext {f : Field} {wt : Nat} {val : List Byte} {k : Nat} (y : List Byte)
    (h : consumeFieldValue f.num wt val = .ok k) : decSubBytes f wt (val ++ y) = decSubBytes f wt val := by
  unfold decSubBytes
  split
  · by_cases hw : wt ≠ 3
    · rw [if_pos hw, if_pos hw]
    · rw [if_neg hw, if_neg hw]
      have hw' : wt = 3 := by simpa using hw
      subst hw'
      unfold consumeGroup
      rw [consumeFieldValue_ext y h, h]
      simp only
      rw [List.take_append_of_le_length (consumeFieldValue_le h)]
  · by_cases hw : wt ≠ 2
    · rw [if_pos hw, if_pos hw]
    · rw [if_neg hw, if_neg hw]
      have hw' : wt = 2 := by simpa using hw
      obtain ⟨p, hv⟩ := (complete_cases h).2.2.2 hw'
      rw [decBytes_ext y hv, hv]

/-- `decField` on a complete record does not look beyond it -/
theorem decField_ext (S : Schema) (mi : Nat) (m : Msg) (f : Field) (wt : Nat) (val y : List Byte)
    (depth : Int) (dis : Bool) {k : Nat} (h : consumeFieldValue f.num wt val = .ok k) (fuel : Nat) :
    decField fuel S mi m f wt (val ++ y) depth dis = decField fuel S mi m f wt val depth dis := by
  cases fuel with
  | zero => rfl
  | succ fu =>
    rw [decField.eq_2, decField.eq_2, decScalar_ext y h, decSubBytes_ext y h]
    by_cases hw : wt = 2
    · obtain ⟨p, hv⟩ := (complete_cases h).2.2.2 hw
      rw [decBytes_ext y hv, hv]
    · simp only [hw, decide_false, Bool.and_false, Bool.false_eq_true, if_false, ne_eq, not_false_eq_true,
        if_true]

end Pb
