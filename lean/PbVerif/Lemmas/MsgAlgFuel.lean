import PbVerif.Lemmas.MsgDec
/-
Fuel independence of the decoder model: with fuel ≥ `input length + 2` (the model's `fuelFor`)
the result of `decMsg`/`decField`/`decEntry` does not depend on the fuel.
-/
namespace Pb
open Spec

theorem consumeFieldValue_group_nil (num : Nat) (d : Int) (n : Nat) :
    consumeFieldValue num 3 [] d ≠ .ok n := by
  simp only [consumeFieldValue, Spec.fuelFor, List.length_nil, fieldValueLen, groupLen, decTag, decVarint,
    decVarintAux]
  split
  · rename_i r h
    split at h <;> (cases h; intro hh; cases hh)
  · intro hh; cases hh

theorem decSubBytes_len {f : Field} {wt : Nat} {val p : List Byte}
    (h : decSubBytes f wt val = some (.ok p)) : p.length + 1 ≤ val.length := by
  unfold decSubBytes at h
  split at h
  · split at h
    · cases h
    · split at h
      · rename_i q n hc
        simp only [Option.some.injEq, Except.ok.injEq] at h
        subst h
        unfold consumeGroup at hc
        split at hc
        · cases hc
        · rename_i n' hn
          simp only [Except.ok.injEq, Prod.mk.injEq] at hc
          obtain ⟨rfl, rfl⟩ := hc
          have hs : (stripZeros7 (val.take n')).length ≤ val.length := by
            unfold stripZeros7
            rw [List.length_reverse]
            refine Nat.le_trans (List.dropWhile_sublist _).length_le ?_
            rw [List.length_reverse, List.length_take]
            exact Nat.min_le_right _ _
          have hpos := sizeVarint_pos (encTag f.num 0)
          rw [List.length_take]
          by_cases hv : val = []
          · subst hv
            exact absurd hn (consumeFieldValue_group_nil _ _ _)
          · have : 1 ≤ val.length := by
              cases val with
              | nil => exact absurd rfl hv
              | cons _ _ => simp
            omega
      · cases h
  · split at h
    · cases h
    · split at h
      · rename_i q n hc
        simp only [Option.some.injEq, Except.ok.injEq] at h
        subst h
        unfold decBytes at hc
        split at hc
        · cases hc
        · rename_i m k hv
          have hk := decVarint_len hv
          split at hc
          · cases hc
          · simp only [Except.ok.injEq, Prod.mk.injEq] at hc
            obtain ⟨rfl, rfl⟩ := hc
            rw [List.length_take, List.length_drop]
            omega
      · cases h

theorem decBytes_payload_len {val p : List Byte} {n : Nat} (h : decBytes val = .ok (p, n)) :
    p.length + 1 ≤ val.length := by
  unfold decBytes at h
  split at h
  · cases h
  · rename_i m k hv
    have hk := decVarint_len hv
    split at h
    · cases h
    · simp only [Except.ok.injEq, Prod.mk.injEq] at h
      obtain ⟨rfl, rfl⟩ := h
      rw [List.length_take, List.length_drop]
      omega

end Pb

namespace Pb
open Spec

theorem decTag_len_pos {b : List Byte} {num typ n : Nat} (h : decTag b = .ok (num, typ, n)) :
    1 ≤ n ∧ n ≤ b.length := by
  unfold decTag at h
  split at h
  · cases h
  · rename_i v k hv
    have := decVarint_len hv
    split at h
    · cases h
    · split at h
      · cases h
      · simp only [Except.ok.injEq, Prod.mk.injEq] at h
        omega

/-- one more unit of fuel changes nothing once the fuel covers the input -/
theorem dec_fuel_step : ∀ (fu : Nat),
    (∀ S mi m b depth dis, b.length + 2 ≤ fu →
      decMsg fu S mi m b depth dis = decMsg (fu + 1) S mi m b depth dis) ∧
    (∀ S mi m f wt val depth dis, val.length + 2 ≤ fu →
      decField fu S mi m f wt val depth dis = decField (fu + 1) S mi m f wt val depth dis) ∧
    (∀ S kf vf k v b depth dis, b.length + 2 ≤ fu →
      decEntry fu S kf vf k v b depth dis = decEntry (fu + 1) S kf vf k v b depth dis)
  | 0 => ⟨by intros; omega, by intros; omega, by intros; omega⟩
  | fu + 1 => by
    obtain ⟨ihM, ihF, ihE⟩ := dec_fuel_step fu
    refine ⟨?_, ?_, ?_⟩
    · intro S mi m b depth dis hb
      cases b with
      | nil => rw [decMsg.eq_2, decMsg.eq_2]
      | cons x t =>
        rw [decMsg.eq_3 _ _ _ _ _ _ _ (by intro h; cases h), decMsg.eq_3 _ _ _ _ _ _ _ (by intro h; cases h)]
        cases hT : decTag (x :: t) with
        | error e => rfl
        | ok r =>
          obtain ⟨num, wt, tagLen⟩ := r
          have hl := decTag_len_pos hT
          simp only
          by_cases hmax : num > maxValidNumber
          · simp only [hmax, if_true]
          · simp only [hmax, if_false]
            have hval : (List.drop tagLen (x :: t)).length + 2 ≤ fu := by
              rw [List.length_drop]; omega
            have hrest : ∀ n, (List.drop n (List.drop tagLen (x :: t))).length + 2 ≤ fu := by
              intro n; rw [List.length_drop, List.length_drop]; omega
            cases hfind : (S.msg mi).find num with
            | none =>
              simp only
              cases consumeFieldValue num wt (List.drop tagLen (x :: t)) with
              | error e => rfl
              | ok n => simp only; rw [ihM _ _ _ _ _ _ (hrest n)]
            | some f =>
              simp only
              rw [← ihF _ _ _ _ _ _ _ _ hval]
              cases decField fu S mi m f wt (List.drop tagLen (x :: t)) depth dis with
              | err e => rfl
              | ok m' =>
                simp only
                cases consumeFieldValue num wt (List.drop tagLen (x :: t)) with
                | error e => rfl
                | ok n => simp only; rw [ihM _ _ _ _ _ _ (hrest n)]
              | unknown =>
                simp only
                cases consumeFieldValue num wt (List.drop tagLen (x :: t)) with
                | error e => rfl
                | ok n => simp only; rw [ihM _ _ _ _ _ _ (hrest n)]
    · sorry
    · sorry

end Pb
