import PbVerif.Lemmas.WktJsonDigits
/-! Helper lemmas for C23: the scanner `parseDuration` against the parts of the documented grammar,
and the text produced by `fmtDuration`. -/
set_option linter.unusedSimpArgs false
namespace WktJson

/-! ### the fraction block -/

theorem durFracPart_fracChars {fp : Option Str} (hf : ∀ ds, fp = some ds → allDigits ds ∧ ds.length ≤ 9) :
    durFracPart (fracChars fp) = some fp := by
  cases fp with
  | none => rfl
  | some ds =>
    obtain ⟨h1, h2⟩ := hf ds rfl
    simp [fracChars, durFracPart, takeDigitsN_all h1 h2]

theorem durFracPart_some {b : Str} {fp : Option Str} (h : durFracPart b = some fp) :
    b = fracChars fp ∧ ∀ ds, fp = some ds → allDigits ds ∧ ds.length ≤ 9 := by
  cases b with
  | nil =>
    simp only [durFracPart, Option.some.injEq] at h
    subst h
    exact ⟨rfl, by intro ds e; cases e⟩
  | cons c t =>
    simp only [durFracPart] at h
    split at h
    · cases h
    · next hc =>
      split at h
      · cases h
      · next hr =>
        simp only [Option.some.injEq] at h
        subst h
        have hc' : c = '.' := by simpa using hc
        have hr' : (takeDigitsN 9 t).2 = [] := by simpa using hr
        have sp := takeDigitsN_spec 9 t
        rw [hr', List.append_nil] at sp
        refine ⟨?_, ?_⟩
        · simp only [fracChars]; rw [hc', ← sp.1]
        · intro ds e
          injection e with e
          subst e
          exact ⟨sp.2.1, sp.2.2⟩

theorem optChars_none : optChars none = [] := rfl
theorem optChars_some (ds : Str) : optChars (some ds) = ds := rfl

theorem nanos_match (fp : Option Str) : durNanos fp = natOfDigits (padFrac9 (optChars fp)) := by
  cases fp with
  | none =>
    show 0 = natOfDigits (padFrac9 [])
    simp only [padFrac9, List.nil_append]
    exact (natOfDigits_replicate_zero _).symm
  | some ds => exact natOfDigits_trimLeftZeros _

theorem isDigit_dot : isDigit '.' = false := by decide

theorem fracChars_head {fp : Option Str} : ∀ c t, fracChars fp = c :: t → isDigit c = false := by
  intro c t h
  cases fp with
  | none => cases h
  | some ds =>
    simp only [fracChars] at h
    injection h with h1 _
    subst h1
    exact isDigit_dot

/-! ### `durBody`: the scanner after suffix and sign -/

/-- the pair `durBody` returns for given digit strings -/
def durResult (neg : Bool) (ip fp : Option Str) : Int × Int :=
  (if neg then -(natOfDigits (optChars ip) : Int) else (natOfDigits (optChars ip) : Int),
   if neg then -(natOfDigits (padFrac9 (optChars fp)) : Int) else (natOfDigits (padFrac9 (optChars fp)) : Int))

theorem ne_zero_char_of_ge {c : Char} (h : 49 ≤ c.toNat) : c ≠ '0' := by
  intro e; subst e; revert h; decide

theorem durBody_render (neg : Bool) (ip fp : Option Str)
    (hi : ∀ ds, ip = some ds → JsonInt ds) (hf : ∀ ds, fp = some ds → allDigits ds ∧ ds.length ≤ 9)
    (hne : ip = none → ∃ ds, fp = some ds ∧ ds ≠ [])
    (hmax : natOfDigits (optChars ip) ≤ maxInt64) :
    durBody neg (optChars ip ++ fracChars fp) = some (durResult neg ip fp) := by
  have hfr := durFracPart_fracChars hf
  cases ip with
  | none =>
    obtain ⟨ds, hfp, hdne⟩ := hne rfl
    subst hfp
    have hfr' : durFracPart ('.' :: ds) = some (some ds) := hfr
    have e1 : durIntPart ('.' :: ds) = some ([], '.' :: ds) := by
      cases ds with
      | nil => exact absurd rfl hdne
      | cons d t' =>
        have hd := (allDigits_cons.mp (hf _ rfl).1).1
        simp [durIntPart, hd]
    have hb : durBody neg ('.' :: ds) = some (durResult neg none (some ds)) := by
      unfold durBody
      rw [if_neg (by simp), e1]
      simp only [Option.bind_some, hfr', if_true]
      simp only [durResult, optChars_none, optChars_some]
      rw [nanos_match]
      simp [natOfDigits_nil, optChars_some]
    simpa [optChars, fracChars] using hb
  | some ids =>
    rcases hi ids rfl with h0 | ⟨c, t, hc, h1, h2, h3⟩
    · subst h0
      have e1 : durIntPart ('0' :: fracChars fp) = some ([], fracChars fp) := by
        simp [durIntPart]
      have hb : durBody neg ('0' :: fracChars fp) = some (durResult neg (some ['0']) fp) := by
        unfold durBody
        rw [if_neg (by simp), e1]
        simp only [Option.bind_some, hfr, if_true]
        simp only [durResult, optChars_none, optChars_some]
        rw [nanos_match]
        have : natOfDigits ['0'] = 0 := by decide
        simp [this]
      simpa [optChars] using hb
    · subst hc
      have hc0 : c ≠ '0' := ne_zero_char_of_ge h1
      have e1 : durIntPart (c :: (t ++ fracChars fp)) = some (c :: t, fracChars fp) := by
        simp only [durIntPart]
        rw [if_neg hc0, if_pos ⟨h1, h2⟩, takeDigits_append h3 fracChars_head]
      have hp : parseInt64Digits (c :: t) = some (natOfDigits (c :: t)) := by
        unfold parseInt64Digits
        rw [if_pos (by simpa [optChars] using hmax)]
      have hb : durBody neg (c :: (t ++ fracChars fp)) = some (durResult neg (some (c :: t)) fp) := by
        unfold durBody
        rw [if_neg (by simp), e1]
        simp only [Option.bind_some, hfr]
        rw [if_neg (by simp), hp]
        simp only [Option.bind_some, durResult, optChars_none, optChars_some]
        rw [nanos_match]
      simpa [optChars] using hb

theorem durBody_some {neg : Bool} {b : Str} {v : Int × Int} (h : durBody neg b = some v) :
    ∃ ip fp, b = optChars ip ++ fracChars fp ∧ (∀ ds, ip = some ds → JsonInt ds) ∧
      (∀ ds, fp = some ds → allDigits ds ∧ ds.length ≤ 9) ∧ (ip = none → ∃ ds, fp = some ds ∧ ds ≠ []) ∧
      natOfDigits (optChars ip) ≤ maxInt64 ∧ v = durResult neg ip fp := by
  unfold durBody at h
  split at h
  · cases h
  · cases b with
    | nil => simp [durIntPart] at h
    | cons c t =>
      simp only [durIntPart] at h
      split at h
      · -- '0'
        next hc =>
        subst hc
        simp only [Option.bind_some, if_true] at h
        cases hfr : durFracPart t with
        | none => simp [hfr] at h
        | some fp =>
          obtain ⟨hb, hf⟩ := durFracPart_some hfr
          simp only [hfr, Option.bind_some, Option.some.injEq] at h
          refine ⟨some ['0'], fp, (by simp [optChars, hb]), ?_, hf, (by intro e; cases e), (by decide), ?_⟩
          · intro ds e; injection e with e; subst e; left; rfl
          · rw [← h]
            simp only [durResult, optChars_none, optChars_some]
            rw [nanos_match]
            have : natOfDigits ['0'] = 0 := by decide
            simp [this]
      · split at h
        · -- '1'..'9'
          next hc0 hc =>
          simp only [Option.bind_some] at h
          have sp := takeDigits_spec t
          cases hfr : durFracPart (takeDigits t).2 with
          | none => simp [hfr] at h
          | some fp =>
            obtain ⟨hb, hf⟩ := durFracPart_some hfr
            simp only [hfr, Option.bind_some] at h
            rw [if_neg (by simp)] at h
            unfold parseInt64Digits at h
            split at h
            · next hm =>
              simp only [Option.bind_some, Option.some.injEq] at h
              refine ⟨some (c :: (takeDigits t).1), fp, ?_, ?_, hf, (by intro e; cases e), (by simpa [optChars] using hm), ?_⟩
              · simp only [optChars, List.cons_append]
                rw [← hb, ← sp.1]
              · intro ds e; injection e with e; subst e
                right; exact ⟨c, _, rfl, hc.1, hc.2, sp.2.1⟩
              · rw [← h]
                simp only [durResult, optChars_none, optChars_some]
                rw [nanos_match]
            · simp at h
        · split at h
          · -- '.'
            next hc0 hc1 hc =>
            subst hc
            cases t with
            | nil => simp at h
            | cons d t' =>
              by_cases hd : isDigit d = true
              · simp only [hd, if_true, Option.bind_some] at h
                cases hfr : durFracPart ('.' :: d :: t') with
                | none => simp [hfr] at h
                | some fp =>
                  obtain ⟨hb, hf⟩ := durFracPart_some hfr
                  simp only [hfr, Option.bind_some, Option.some.injEq] at h
                  refine ⟨none, fp, (by simp [optChars, hb]), (by intro ds e; cases e), hf, ?_, (by decide), ?_⟩
                  · intro _
                    cases fp with
                    | none => simp [fracChars] at hb
                    | some ds =>
                      refine ⟨ds, rfl, ?_⟩
                      intro e
                      subst e
                      simp [fracChars] at hb
                  · rw [← h]
                    simp only [durResult, optChars_none, optChars_some]
                    rw [nanos_match]
                    simp [natOfDigits_nil]
              · simp [hd] at h
          · simp at h

/-! ### `parseDuration`: suffix and sign -/

theorem parseDuration_snoc (x : Str) :
    parseDuration (x ++ ['s']) =
      if x = [] then none
      else if x.head? = some '-' then durBody true x.tail
      else if x.head? = some '+' then durBody false x.tail
      else durBody false x := by
  unfold parseDuration
  simp only [List.reverse_append, List.reverse_cons, List.reverse_nil, List.nil_append, List.singleton_append,
    List.reverse_reverse, List.reverse_eq_nil_iff, ne_eq, not_true_eq_false, if_false]

theorem parseDuration_some {s : Str} {v : Int × Int} (h : parseDuration s = some v) :
    ∃ x, s = x ++ ['s'] ∧ x ≠ [] := by
  unfold parseDuration at h
  split at h
  · cases h
  · next last revb heq =>
    have hs : s = revb.reverse ++ [last] := by
      have := congrArg List.reverse heq
      simpa using this
    split at h
    · cases h
    · next hne =>
      split at h
      · cases h
      · next hl =>
        have hl' : last = 's' := by simpa using hl
        subst hl'
        exact ⟨revb.reverse, hs, by simpa using hne⟩

/-! ### the documented parts -/

theorem body_head_not_sign {ip fp : Option Str}
    (hi : ∀ ds, ip = some ds → JsonInt ds) (hne : ip = none → ∃ ds, fp = some ds ∧ ds ≠ []) :
    ∃ c t, optChars ip ++ fracChars fp = c :: t ∧ c ≠ '-' ∧ c ≠ '+' := by
  cases ip with
  | none =>
    obtain ⟨ds, e, _⟩ := hne rfl
    subst e
    exact ⟨'.', ds, rfl, by decide, by decide⟩
  | some ids =>
    rcases hi ids rfl with h0 | ⟨c, t, hc, h1, _, _⟩
    · subst h0; exact ⟨'0', fracChars fp, rfl, by decide, by decide⟩
    · subst hc
      refine ⟨c, t ++ fracChars fp, rfl, ?_, ?_⟩ <;> (intro e; subst e; revert h1; decide)

theorem durParts_value (p : DurParts) :
    p.value = durResult (p.sign = .minus) p.intp p.frac := by
  unfold DurParts.value durResult
  by_cases h : p.sign = .minus <;> simp [h]

/-- every well-formed literal (with an integer part that fits `int64`) is accepted with its documented value -/
theorem parseDuration_render (p : DurParts) (hwf : p.WF) (hmax : natOfDigits (optChars p.intp) ≤ maxInt64) :
    parseDuration p.render = some p.value := by
  obtain ⟨hi, hf, hne⟩ := hwf
  obtain ⟨c, t, hb, hc1, hc2⟩ := body_head_not_sign hi hne
  have hbody := fun neg => durBody_render neg p.intp p.frac hi hf hne hmax
  rw [durParts_value]
  cases hs : p.sign with
  | none =>
    have hr : p.render = (c :: t) ++ ['s'] := by
      simp [DurParts.render, hs, Sign.chars, ← hb, List.append_assoc]
    rw [hr, parseDuration_snoc, if_neg (by simp)]
    simp only [List.head?_cons, Option.some.injEq]
    rw [if_neg hc1, if_neg hc2, ← hb, hbody]
    simp
  | plus =>
    have hr : p.render = ('+' :: (optChars p.intp ++ fracChars p.frac)) ++ ['s'] := by
      simp [DurParts.render, hs, Sign.chars, List.append_assoc]
    rw [hr, parseDuration_snoc, if_neg (by simp)]
    simp [hbody]
  | minus =>
    have hr : p.render = ('-' :: (optChars p.intp ++ fracChars p.frac)) ++ ['s'] := by
      simp [DurParts.render, hs, Sign.chars, List.append_assoc]
    rw [hr, parseDuration_snoc, if_neg (by simp)]
    simp [hbody]

/-- every accepted string is a well-formed literal, and the result is its documented value -/
theorem parseDuration_sound {s : Str} {v : Int × Int} (h : parseDuration s = some v) :
    ∃ p : DurParts, p.WF ∧ p.render = s ∧ p.value = v ∧ natOfDigits (optChars p.intp) ≤ maxInt64 := by
  obtain ⟨x, hs, hxne⟩ := parseDuration_some h
  subst hs
  rw [parseDuration_snoc, if_neg hxne] at h
  -- common construction once sign and body are known
  have build : ∀ (sg : Sign) (neg : Bool) (b : Str), x = sg.chars ++ b → (neg = true ↔ sg = .minus) →
      durBody neg b = some v →
      ∃ p : DurParts, p.WF ∧ p.render = x ++ ['s'] ∧ p.value = v ∧ natOfDigits (optChars p.intp) ≤ maxInt64 := by
    intro sg neg b hxb hneg hb
    obtain ⟨ip, fp, hbe, hi, hf, hn, hm, hv⟩ := durBody_some hb
    refine ⟨⟨sg, ip, fp⟩, ⟨hi, hf, hn⟩, ?_, ?_, hm⟩
    · simp [DurParts.render, hxb, hbe, List.append_assoc]
    · rw [durParts_value, hv]
      simp only
      congr 1
      cases neg <;> cases sg <;> simp_all
  cases x with
  | nil => exact absurd rfl hxne
  | cons c t =>
    simp only [List.head?_cons, Option.some.injEq, List.tail_cons] at h
    split at h
    · next hc => subst hc; exact build .minus true t rfl (by simp) h
    · split at h
      · next hc => subst hc; exact build .plus false t rfl (by simp) h
      · exact build .none false (c :: t) rfl (by simp) h

/-! ### the text of `fmtDuration` -/

theorem fmtDuration_text {secs nanos : Int} (hv : DurationValid secs nanos) :
    fmtDuration secs nanos =
      some ((if secs < 0 ∨ nanos < 0 then ['-'] else []) ++ decDigits secs.natAbs ++ fracText nanos.natAbs ++ ['s']) := by
  obtain ⟨h1, h2, h3, h4, h5, h6⟩ := hv
  unfold fmtDuration
  rw [if_neg (by omega), if_neg (by omega), if_neg (by omega)]
  simp only [Option.some.injEq]
  have hN : nanos.natAbs % 1000000000 = nanos.natAbs := by
    apply Nat.mod_eq_of_lt
    simp only [secondsInNanos] at h3 h4
    omega
  by_cases hneg : secs < 0 ∨ nanos < 0
  · have e1 : (-secs).toNat = secs.natAbs := by omega
    have e2 : (-nanos).toNat = nanos.natAbs := by omega
    simp only [hneg, decide_true, if_true, e1, e2]
    have := trimFrac_pad9 (['-'] ++ decDigits secs.natAbs) nanos.natAbs
    rw [hN] at this
    simp only [List.append_assoc, List.singleton_append] at this ⊢
    rw [this]
    simp [List.append_assoc]
  · have e1 : secs.toNat = secs.natAbs := by omega
    have e2 : nanos.toNat = nanos.natAbs := by omega
    simp only [hneg, decide_false, if_false, Bool.false_eq_true, e1, e2]
    have := trimFrac_pad9 (decDigits secs.natAbs) nanos.natAbs
    rw [hN] at this
    simp only [List.append_assoc, List.singleton_append, List.nil_append] at this ⊢
    rw [this]
    simp [List.append_assoc]

/-- the parts of the text `fmtDuration` produces -/
def fmtParts (secs nanos : Int) : DurParts :=
  { sign := if secs < 0 ∨ nanos < 0 then .minus else .none
    intp := some (decDigits secs.natAbs)
    frac :=
      if nanos.natAbs = 0 then none
      else if nanos.natAbs % 1000000 = 0 then some (padDigits 3 (nanos.natAbs / 1000000))
      else if nanos.natAbs % 1000 = 0 then some (padDigits 6 (nanos.natAbs / 1000))
      else some (padDigits 9 nanos.natAbs) }

theorem fracChars_fmtParts (secs nanos : Int) : fracChars (fmtParts secs nanos).frac = fracText nanos.natAbs := by
  simp only [fmtParts, fracText]
  split
  · rfl
  · split
    · rfl
    · split <;> rfl

theorem fmtParts_render (secs nanos : Int) :
    (fmtParts secs nanos).render =
      (if secs < 0 ∨ nanos < 0 then ['-'] else []) ++ decDigits secs.natAbs ++ fracText nanos.natAbs ++ ['s'] := by
  unfold DurParts.render
  rw [fracChars_fmtParts]
  simp only [fmtParts, optChars]
  split <;> rfl

theorem fmtParts_wf (secs nanos : Int) : (fmtParts secs nanos).WF := by
  refine ⟨?_, ?_, ?_⟩
  · intro ds e
    simp only [fmtParts] at e
    injection e with e; subst e
    exact jsonInt_decDigits _
  · intro ds e
    simp only [fmtParts] at e
    split at e
    · cases e
    · split at e
      · injection e with e; subst e; exact ⟨allDigits_padDigits _ _, by simp [length_padDigits]⟩
      · split at e <;> (injection e with e; subst e; exact ⟨allDigits_padDigits _ _, by simp [length_padDigits]⟩)
  · intro e; simp [fmtParts] at e

theorem natOfDigits_padFrac9 {ds : Str} (h : ds.length ≤ 9) :
    natOfDigits (padFrac9 ds) = natOfDigits ds * 10 ^ (9 - ds.length) := by
  unfold padFrac9
  rw [natOfDigits_append, natOfDigits_replicate_zero]
  simp

theorem fmtParts_value {secs nanos : Int} (hv : DurationValid secs nanos) :
    (fmtParts secs nanos).value = (secs, nanos) := by
  obtain ⟨h1, h2, h3, h4, h5, h6⟩ := hv
  simp only [secondsInNanos] at h3 h4
  have hn : natOfDigits (padFrac9 (optChars (fmtParts secs nanos).frac)) = nanos.natAbs := by
    simp only [fmtParts]
    split
    · next h0 =>
      simp only [optChars, padFrac9, List.nil_append]
      rw [natOfDigits_replicate_zero, h0]
    · split
      · next h0 _h6 =>
        simp only [optChars]
        rw [natOfDigits_padFrac9 (by simp [length_padDigits]), natOfDigits_padDigits, length_padDigits]
        simp only [show (9 : Nat) - 3 = 6 from rfl, show (10 : Nat) ^ 3 = 1000 from rfl, show (10 : Nat) ^ 6 = 1000000 from rfl]
        omega
      · split
        · next h0 h6 h3' =>
          simp only [optChars]
          rw [natOfDigits_padFrac9 (by simp [length_padDigits]), natOfDigits_padDigits, length_padDigits]
          simp only [show (9 : Nat) - 6 = 3 from rfl, show (10 : Nat) ^ 3 = 1000 from rfl, show (10 : Nat) ^ 6 = 1000000 from rfl]
          omega
        · simp only [optChars]
          rw [natOfDigits_padFrac9 (by simp [length_padDigits]), natOfDigits_padDigits, length_padDigits]
          simp only [show (9 : Nat) - 9 = 0 from rfl, show (10 : Nat) ^ 9 = 1000000000 from rfl, Nat.pow_zero]
          omega
  have hs : natOfDigits (optChars (fmtParts secs nanos).intp) = secs.natAbs := by
    simp only [fmtParts, optChars]; exact natOfDigits_decDigits _
  unfold DurParts.value
  rw [hn, hs]
  simp only [fmtParts]
  by_cases hneg : secs < 0 ∨ nanos < 0
  · simp only [hneg, if_true]
    ext <;> simp <;> omega
  · simp only [hneg, if_false]
    rw [if_neg (by simp)]
    ext <;> simp <;> omega

end WktJson
