import PbVerif.Model.StructAny
import PbVerif.Props.Utf8Basics
/-
Lemmas for C45, part A (structpb): the mutual inductions over `GoVal / GoMap / GoList` and
`PV / PFields / PList`, the congruence lemmas for `Equiv` (map-order independence) and what `Equiv` means
(`equiv_adequate`).  The property theorems themselves are restated in `Props/C45.lean`.
-/
open Model

namespace Model.StructAny.Lem

def okB {ε α : Type} : Except ε α → Bool
  | .ok _ => true
  | .error _ => false

theorem okB_iff {ε α : Type} (x : Except ε α) : okB x = true ↔ ∃ a, x = .ok a := by
  cases x <;> simp [okB]

mutual
theorem okB_newValue (P : Params) : (v : GoVal) → okB (newValue P v) = supported P v
  | .nil => by simp [newValue, supported, okB]
  | .bool b => by simp [newValue, supported, okB]
  | .int t v => by simp [newValue, supported, okB]
  | .uint t v => by simp [newValue, supported, okB]
  | .f32 b => by simp [newValue, supported, okB]
  | .f64 b => by simp [newValue, supported, okB]
  | .jnum s => by simp only [newValue, supported]; cases P.parseFloat s <;> simp [okB]
  | .str s => by simp only [newValue, supported]; cases Utf8.valid s <;> simp [okB]
  | .bytes b => by simp [newValue, supported, okB]
  | .map n m => by
    have h := okB_newStruct P m
    simp only [newValue, supported, ← h]; cases newStruct P m <;> simp [okB]
  | .slice n l => by
    have h := okB_newList P l
    simp only [newValue, supported, ← h]; cases newList P l <;> simp [okB]
  | .unsupported t => by simp [newValue, supported, okB]
theorem okB_newStruct (P : Params) : (m : GoMap) → okB (newStruct P m) = supportedMap P m
  | .nil => by simp [newStruct, supportedMap, okB]
  | .cons k v t => by
    have h1 := okB_newValue P v
    have h2 := okB_newStruct P t
    simp only [newStruct, supportedMap, ← h1, ← h2]
    cases Utf8.valid k <;> cases newValue P v <;> cases newStruct P t <;> simp [okB]
theorem okB_newList (P : Params) : (l : GoList) → okB (newList P l) = supportedList P l
  | .nil => by simp [newList, supportedList, okB]
  | .cons v t => by
    have h1 := okB_newValue P v
    have h2 := okB_newList P t
    simp only [newList, supportedList, ← h1, ← h2]
    cases newValue P v <;> cases newList P t <;> simp [okB]
end

/-- `NewValue` succeeds iff … -/
theorem newValue_ok_iff (P : Params) (v : GoVal) :
    (∃ p, newValue P v = .ok p) ↔ supported P v = true := by
  rw [← okB_newValue, okB_iff]

mutual
theorem newValue_error_mem (P : Params) : (v : GoVal) → (e : Err) → newValue P v = .error e →
    e ∈ possibleErrs P v
  | .nil, e, h => by simp [newValue] at h
  | .bool b, e, h => by simp [newValue] at h
  | .int t v, e, h => by simp [newValue] at h
  | .uint t v, e, h => by simp [newValue] at h
  | .f32 b, e, h => by simp [newValue] at h
  | .f64 b, e, h => by simp [newValue] at h
  | .jnum s, e, h => by
    simp only [newValue] at h
    cases hp : P.parseFloat s <;> simp [hp] at h
    subst h; simp [possibleErrs, hp]
  | .str s, e, h => by
    simp only [newValue] at h
    cases hp : Utf8.valid s <;> simp [hp] at h
    subst h; simp [possibleErrs, hp]
  | .bytes b, e, h => by simp [newValue] at h
  | .map n m, e, h => by
    simp only [newValue] at h
    cases hp : newStruct P m <;> simp [hp] at h
    subst h; simpa [possibleErrs] using newStruct_error_mem P m _ hp
  | .slice n l, e, h => by
    simp only [newValue] at h
    cases hp : newList P l <;> simp [hp] at h
    subst h; simpa [possibleErrs] using newList_error_mem P l _ hp
  | .unsupported t, e, h => by
    simp [newValue] at h; subst h; simp [possibleErrs]
theorem newStruct_error_mem (P : Params) : (m : GoMap) → (e : Err) → newStruct P m = .error e →
    e ∈ possibleErrsMap P m
  | .nil, e, h => by simp [newStruct] at h
  | .cons k v t, e, h => by
    simp only [newStruct] at h
    simp only [possibleErrsMap, List.mem_append]
    cases hk : Utf8.valid k
    · simp [hk] at h; subst h; simp
    · simp only [hk, if_true] at h ⊢
      cases hv : newValue P v <;> simp [hv] at h
      · subst h; left; exact newValue_error_mem P v _ hv
      · cases ht : newStruct P t <;> simp [ht] at h
        subst h; right; exact newStruct_error_mem P t _ ht
theorem newList_error_mem (P : Params) : (l : GoList) → (e : Err) → newList P l = .error e →
    e ∈ possibleErrsList P l
  | .nil, e, h => by simp [newList] at h
  | .cons v t, e, h => by
    simp only [newList] at h
    simp only [possibleErrsList]
    have hs := okB_newValue P v
    cases hv : newValue P v <;> simp [hv, okB] at h hs
    · subst h; simp [hs]; exact newValue_error_mem P v _ hv
    · cases ht : newList P t <;> simp [ht] at h
      subst h; simp [hs]; exact newList_error_mem P t _ ht
end
mutual
theorem asInterface_newValue (P : Params) : (v : GoVal) → (p : PV) → newValue P v = .ok p →
    asInterface p = normalize P v
  | .nil, p, h => by simp [newValue] at h; subst h; simp [asInterface, normalize]
  | .bool b, p, h => by simp [newValue] at h; subst h; simp [asInterface, normalize]
  | .int t v, p, h => by simp [newValue] at h; subst h; simp [asInterface, normalize]
  | .uint t v, p, h => by simp [newValue] at h; subst h; simp [asInterface, normalize]
  | .f32 b, p, h => by simp [newValue] at h; subst h; simp [asInterface, normalize]
  | .f64 b, p, h => by simp [newValue] at h; subst h; simp [asInterface, normalize]
  | .jnum s, p, h => by
    simp only [newValue] at h
    split at h
    · rename_i f hf; simp at h; subst h; simp [asInterface, normalize, hf]
    · simp at h
  | .str s, p, h => by
    simp only [newValue] at h
    split at h
    · simp at h; subst h; simp [asInterface, normalize]
    · simp at h
  | .bytes b, p, h => by simp [newValue] at h; subst h; simp [asInterface, normalize]
  | .map n m, p, h => by
    simp only [newValue] at h
    split at h
    · rename_i f hf; simp at h; subst h; simp [asInterface, normalize, asMap_newStruct P m f hf]
    · simp at h
  | .slice n l, p, h => by
    simp only [newValue] at h
    split at h
    · rename_i f hf; simp at h; subst h; simp [asInterface, normalize, asSlice_newList P l f hf]
    · simp at h
  | .unsupported t, p, h => by simp [newValue] at h
theorem asMap_newStruct (P : Params) : (m : GoMap) → (f : PFields) → newStruct P m = .ok f →
    asMap f = normalizeMap P m
  | .nil, f, h => by simp [newStruct] at h; subst h; simp [asMap, normalizeMap]
  | .cons k v t, f, h => by
    simp only [newStruct] at h
    split at h
    · split at h
      · simp at h
      · rename_i pv hv
        split at h
        · simp at h
        · rename_i pt ht
          simp at h; subst h
          simp [asMap, normalizeMap, asInterface_newValue P v pv hv, asMap_newStruct P t pt ht]
    · simp at h
theorem asSlice_newList (P : Params) : (l : GoList) → (f : PList) → newList P l = .ok f →
    asSlice f = normalizeList P l
  | .nil, f, h => by simp [newList] at h; subst h; simp [asSlice, normalizeList]
  | .cons v t, f, h => by
    simp only [newList] at h
    split at h
    · simp at h
    · rename_i pv hv
      split at h
      · simp at h
      · rename_i pt ht
        simp at h; subst h
        simp [asSlice, normalizeList, asInterface_newValue P v pv hv, asSlice_newList P t pt ht]
end

/-! ### order independence -/

theorem normalize_equiv (P : Params) {a b : Node} (h : Equiv a b) : Equiv (a.normalize P) (b.normalize P) := by
  induction h with
  | refl a => exact .refl _
  | symm _ ih => exact .symm ih
  | trans _ _ ih1 ih2 => exact .trans ih1 ih2
  | swap k₁ v₁ k₂ v₂ t => simp only [Node.normalize, normalizeMap]; exact .swap ..
  | mcons k _ _ ih1 ih2 =>
    simp only [Node.normalize, normalizeMap] at ih1 ih2 ⊢; exact .mcons k ih1 ih2
  | lcons _ _ ih1 ih2 =>
    simp only [Node.normalize, normalizeList] at ih1 ih2 ⊢; exact .lcons ih1 ih2
  | vmap n _ ih => simp only [Node.normalize, normalize] at ih ⊢; exact .vmap false ih
  | vslice n _ ih => simp only [Node.normalize, normalize] at ih ⊢; exact .vslice false ih

theorem supported_equiv (P : Params) {a b : Node} (h : Equiv a b) : a.supported P = b.supported P := by
  induction h with
  | refl a => rfl
  | symm _ ih => exact ih.symm
  | trans _ _ ih1 ih2 => exact ih1.trans ih2
  | swap k₁ v₁ k₂ v₂ t =>
    simp only [Node.supported, supportedMap]
    cases Utf8.valid k₁ <;> cases Utf8.valid k₂ <;> cases supported P v₁ <;> cases supported P v₂ <;> simp
  | mcons k _ _ ih1 ih2 => simp only [Node.supported, supportedMap] at ih1 ih2 ⊢; rw [ih1, ih2]
  | lcons _ _ ih1 ih2 => simp only [Node.supported, supportedList] at ih1 ih2 ⊢; rw [ih1, ih2]
  | vmap n _ ih => simpa only [Node.supported, supported] using ih
  | vslice n _ ih => simpa only [Node.supported, supported] using ih

theorem possibleErrs_equiv (P : Params) {a b : Node} (h : Equiv a b) :
    ∀ e, e ∈ a.possibleErrs P ↔ e ∈ b.possibleErrs P := by
  induction h with
  | refl a => intro e; rfl
  | symm _ ih => intro e; exact (ih e).symm
  | trans _ _ ih1 ih2 => intro e; exact (ih1 e).trans (ih2 e)
  | swap k₁ v₁ k₂ v₂ t =>
    intro e
    simp only [Node.possibleErrs, possibleErrsMap, List.mem_append]
    constructor <;> (intro h; rcases h with h | h | h <;> simp [h])
  | mcons k _ _ ih1 ih2 =>
    intro e
    simp only [Node.possibleErrs, possibleErrsMap, List.mem_append] at ih1 ih2 ⊢
    rw [ih2 e]
    cases Utf8.valid k <;> simp [ih1 e]
  | @lcons v v' t t' h1 _ ih1 ih2 =>
    intro e
    have hs := supported_equiv P h1
    simp only [Node.supported] at hs
    simp only [Node.possibleErrs, possibleErrsList] at ih1 ih2 ⊢
    rw [hs]
    cases supported P v' <;> simp [ih1 e, ih2 e]
  | vmap n _ ih => simpa only [Node.possibleErrs, possibleErrs] using ih
  | vslice n _ ih => simpa only [Node.possibleErrs, possibleErrs] using ih

/-- two outcomes of `NewValue` agree up to map order: both fail, or both succeed with the same Value -/
def ExRel : Except Err PNode → Except Err PNode → Prop
  | .ok p, .ok q => PEquiv p q
  | .error _, .error _ => True
  | _, _ => False

theorem ExRel.refl (x : Except Err PNode) : ExRel x x := by
  cases x <;> simp [ExRel]; exact .refl _

theorem ExRel.symm {x y : Except Err PNode} (h : ExRel x y) : ExRel y x := by
  cases x <;> cases y <;> simp_all [ExRel]; exact .symm h

theorem ExRel.trans {x y z : Except Err PNode} (h1 : ExRel x y) (h2 : ExRel y z) : ExRel x z := by
  cases x <;> cases y <;> cases z <;> simp_all [ExRel]; exact .trans h1 h2

theorem new_equiv (P : Params) {a b : Node} (h : Equiv a b) : ExRel (a.new P) (b.new P) := by
  induction h with
  | refl a => exact .refl _
  | symm _ ih => exact .symm ih
  | trans _ _ ih1 ih2 => exact .trans ih1 ih2
  | swap k₁ v₁ k₂ v₂ t =>
    simp only [Node.new, newStruct]
    cases Utf8.valid k₁ <;> cases Utf8.valid k₂ <;> cases newValue P v₁ <;> cases newValue P v₂ <;>
      cases newStruct P t <;> simp [ExRel, Except.map]
    exact .swap ..
  | @mcons k v v' t t' _ _ ih1 ih2 =>
    simp only [Node.new, newStruct] at ih1 ih2 ⊢
    cases Utf8.valid k <;> cases hv : newValue P v <;> cases hv' : newValue P v' <;>
      cases ht : newStruct P t <;> cases ht' : newStruct P t' <;>
      simp_all [ExRel, Except.map]
    exact .mcons k ih1 ih2
  | @lcons v v' t t' _ _ ih1 ih2 =>
    simp only [Node.new, newList] at ih1 ih2 ⊢
    cases hv : newValue P v <;> cases hv' : newValue P v' <;>
      cases ht : newList P t <;> cases ht' : newList P t' <;>
      simp_all [ExRel, Except.map]
    exact .lcons ih1 ih2
  | @vmap n m m' _ ih =>
    simp only [Node.new, newValue] at ih ⊢
    cases hm : newStruct P m <;> cases hm' : newStruct P m' <;> simp_all [ExRel, Except.map]
    exact .vstruct ih
  | @vslice n l l' _ ih =>
    simp only [Node.new, newValue] at ih ⊢
    cases hm : newList P l <;> cases hm' : newList P l' <;> simp_all [ExRel, Except.map]
    exact .vlist ih

theorem asGo_pequiv {p q : PNode} (h : PEquiv p q) : Equiv p.asGo q.asGo := by
  induction h with
  | refl a => exact .refl _
  | symm _ ih => exact .symm ih
  | trans _ _ ih1 ih2 => exact .trans ih1 ih2
  | swap k₁ v₁ k₂ v₂ t => simp only [PNode.asGo, asMap]; exact .swap ..
  | mcons k _ _ ih1 ih2 => simp only [PNode.asGo, asMap] at ih1 ih2 ⊢; exact .mcons k ih1 ih2
  | lcons _ _ ih1 ih2 => simp only [PNode.asGo, asSlice] at ih1 ih2 ⊢; exact .lcons ih1 ih2
  | vstruct _ ih => simp only [PNode.asGo, asInterface] at ih ⊢; exact .vmap false ih
  | vlist _ ih => simp only [PNode.asGo, asInterface] at ih ⊢; exact .vslice false ih

/-- the law whatever order Go iterates the maps in -/
theorem asInterface_newValue_anyOrder (P : Params) {v v' : GoVal} {p p' : PV}
    (hv : Equiv (.val v) (.val v')) (h : newValue P v' = .ok p) (hp : PEquiv (.val p) (.val p')) :
    Equiv (.val (asInterface p')) (.val (normalize P v)) := by
  have h1 : asInterface p = normalize P v' := asInterface_newValue P v' p h
  have h2 := asGo_pequiv hp
  have h3 := normalize_equiv P hv
  simp only [PNode.asGo, Node.normalize] at h2 h3
  rw [h1] at h2
  exact .trans (.symm h2) (.symm h3)


/-! ### tightness of `possibleErrs` -/

/-- the first entry of a map fails with `e` -/
def HeadFails (P : Params) (e : Err) (k : Str) (v : GoVal) : Prop :=
  (Utf8.valid k = false ∧ e = .utf8) ∨ (Utf8.valid k = true ∧ newValue P v = .error e)

theorem newStruct_headFails (P : Params) {e : Err} {k : Str} {v : GoVal} (t : GoMap)
    (h : HeadFails P e k v) : newStruct P (.cons k v t) = .error e := by
  rcases h with ⟨hk, he⟩ | ⟨hk, hv⟩
  · simp [newStruct, hk, he]
  · simp [newStruct, hk, hv]

mutual
theorem possibleErrs_complete (P : Params) : (v : GoVal) → (e : Err) → e ∈ possibleErrs P v →
    ∃ w, Equiv (.val v) (.val w) ∧ newValue P w = .error e
  | .nil, e, h => by simp [possibleErrs] at h
  | .bool b, e, h => by simp [possibleErrs] at h
  | .int t v, e, h => by simp [possibleErrs] at h
  | .uint t v, e, h => by simp [possibleErrs] at h
  | .f32 b, e, h => by simp [possibleErrs] at h
  | .f64 b, e, h => by simp [possibleErrs] at h
  | .jnum s, e, h => by
    refine ⟨.jnum s, .refl _, ?_⟩
    simp only [possibleErrs] at h
    cases hp : P.parseFloat s <;> simp [hp] at h
    simp [newValue, hp, h]
  | .str s, e, h => by
    refine ⟨.str s, .refl _, ?_⟩
    simp only [possibleErrs] at h
    cases hp : Utf8.valid s <;> simp [hp] at h
    simp [newValue, hp, h]
  | .bytes b, e, h => by simp [possibleErrs] at h
  | .map n m, e, h => by
    simp only [possibleErrs] at h
    obtain ⟨k, v, r, heq, hf⟩ := possibleErrsMap_complete P m e h
    exact ⟨.map n (.cons k v r), .vmap n heq, by simp [newValue, newStruct_headFails P r hf]⟩
  | .slice n l, e, h => by
    simp only [possibleErrs] at h
    obtain ⟨l', heq, hl⟩ := possibleErrsList_complete P l e h
    exact ⟨.slice n l', .vslice n heq, by simp [newValue, hl]⟩
  | .unsupported t, e, h => by
    refine ⟨.unsupported t, .refl _, ?_⟩
    simp [possibleErrs] at h
    simp [newValue, h]
theorem possibleErrsMap_complete (P : Params) : (m : GoMap) → (e : Err) → e ∈ possibleErrsMap P m →
    ∃ k v r, Equiv (.map m) (.map (.cons k v r)) ∧ HeadFails P e k v
  | .nil, e, h => by simp [possibleErrsMap] at h
  | .cons k v t, e, h => by
    simp only [possibleErrsMap, List.mem_append] at h
    rcases h with h | h
    · cases hk : Utf8.valid k
      · simp [hk] at h
        exact ⟨k, v, t, .refl _, .inl ⟨hk, h⟩⟩
      · simp only [hk, if_true] at h
        obtain ⟨w, hw, he⟩ := possibleErrs_complete P v e h
        exact ⟨k, w, t, .mcons k hw (.refl _), .inr ⟨hk, he⟩⟩
    · obtain ⟨k', v', r, heq, hf⟩ := possibleErrsMap_complete P t e h
      exact ⟨k', v', .cons k v r, .trans (.mcons k (.refl _) heq) (.swap ..), hf⟩
theorem possibleErrsList_complete (P : Params) : (l : GoList) → (e : Err) → e ∈ possibleErrsList P l →
    ∃ l', Equiv (.list l) (.list l') ∧ newList P l' = .error e
  | .nil, e, h => by simp [possibleErrsList] at h
  | .cons v t, e, h => by
    simp only [possibleErrsList] at h
    cases hs : supported P v
    · simp only [hs] at h
      obtain ⟨w, hw, he⟩ := possibleErrs_complete P v e h
      exact ⟨.cons w t, .lcons hw (.refl _), by simp [newList, he]⟩
    · simp only [hs, if_true] at h
      obtain ⟨t', ht, he⟩ := possibleErrsList_complete P t e h
      obtain ⟨pv, hpv⟩ := (newValue_ok_iff P v).mpr hs
      exact ⟨.cons v t', .lcons (.refl _) ht, by simp [newList, hpv, he]⟩
end

/-! ### the converse direction -/

theorem numIface_finite {b : F64} (h : f64Finite b = true) : numIface b = .f64 b := by
  simp only [f64Finite, Bool.and_eq_true, Bool.not_eq_true', bne_iff_ne, ne_eq] at h
  simp [numIface, h.1.1, h.1.2, h.2]

mutual
theorem newValue_asInterface (P : Params) : (p : PV) → p.wf = true → newValue P (asInterface p) = .ok p
  | .unset, h => by simp [PV.wf] at h
  | .null, h => by simp [asInterface, newValue]
  | .number b, h => by
    simp only [PV.wf] at h
    simp [asInterface, numIface_finite h, newValue]
  | .string s, h => by
    simp only [PV.wf] at h
    simp [asInterface, newValue, h]
  | .bool b, h => by simp [asInterface, newValue]
  | .struct f, h => by
    simp only [PV.wf] at h
    simp [asInterface, newValue, newStruct_asMap P f h]
  | .list l, h => by
    simp only [PV.wf] at h
    simp [asInterface, newValue, newList_asSlice P l h]
theorem newStruct_asMap (P : Params) : (f : PFields) → f.wf = true → newStruct P (asMap f) = .ok f
  | .nil, h => by simp [asMap, newStruct]
  | .cons k v t, h => by
    simp only [PFields.wf, Bool.and_eq_true] at h
    simp [asMap, newStruct, h.1.1, newValue_asInterface P v h.1.2, newStruct_asMap P t h.2]
theorem newList_asSlice (P : Params) : (l : PList) → l.wf = true → newList P (asSlice l) = .ok l
  | .nil, h => by simp [asSlice, newList]
  | .cons v t, h => by
    simp only [PList.wf, Bool.and_eq_true] at h
    simp [asSlice, newList, newValue_asInterface P v h.1, newList_asSlice P t h.2]
end

mutual
theorem wf_of_newValue_asInterface (P : Params) : (p : PV) → newValue P (asInterface p) = .ok p → p.wf = true
  | .unset, h => by simp [asInterface, newValue] at h
  | .null, h => by simp [PV.wf]
  | .number b, h => by
    simp only [PV.wf]
    cases hf : f64Finite b
    · exfalso
      simp only [asInterface, numIface] at h
      simp only [f64Finite] at hf
      split at h
      · simp only [newValue] at h; split at h <;> simp at h
      · split at h
        · simp only [newValue] at h; split at h <;> simp at h
        · split at h
          · simp only [newValue] at h; split at h <;> simp at h
          · simp_all
    · rfl
  | .string s, h => by
    simp only [asInterface, newValue] at h
    simp only [PV.wf]
    cases hv : Utf8.valid s <;> simp [hv] at h ⊢
  | .bool b, h => by simp [PV.wf]
  | .struct f, h => by
    simp only [asInterface, newValue] at h
    simp only [PV.wf]
    cases hs : newStruct P (asMap f) <;> simp [hs] at h
    rw [h] at hs; exact wf_of_newStruct_asMap P f hs
  | .list l, h => by
    simp only [asInterface, newValue] at h
    simp only [PV.wf]
    cases hs : newList P (asSlice l) <;> simp [hs] at h
    rw [h] at hs; exact wf_of_newList_asSlice P l hs
theorem wf_of_newStruct_asMap (P : Params) : (f : PFields) → newStruct P (asMap f) = .ok f → f.wf = true
  | .nil, h => by simp [PFields.wf]
  | .cons k v t, h => by
    simp only [asMap, newStruct] at h
    simp only [PFields.wf, Bool.and_eq_true]
    cases hk : Utf8.valid k <;> simp [hk] at h
    cases hv : newValue P (asInterface v) <;> simp [hv] at h
    cases ht : newStruct P (asMap t) <;> simp [ht] at h
    obtain ⟨h1, h2⟩ := h
    rw [h1] at hv; rw [h2] at ht
    exact ⟨⟨rfl, wf_of_newValue_asInterface P v hv⟩, wf_of_newStruct_asMap P t ht⟩
theorem wf_of_newList_asSlice (P : Params) : (l : PList) → newList P (asSlice l) = .ok l → l.wf = true
  | .nil, h => by simp [PList.wf]
  | .cons v t, h => by
    simp only [asSlice, newList] at h
    simp only [PList.wf, Bool.and_eq_true]
    cases hv : newValue P (asInterface v) <;> simp [hv] at h
    cases ht : newList P (asSlice t) <;> simp [ht] at h
    obtain ⟨h1, h2⟩ := h
    rw [h1] at hv; rw [h2] at ht
    exact ⟨wf_of_newValue_asInterface P v hv, wf_of_newList_asSlice P t ht⟩
end

/-- the hypothesis of `newValue_asInterface` is necessary: the round trip holds for no other Value -/
theorem newValue_asInterface_iff (P : Params) (p : PV) :
    newValue P (asInterface p) = .ok p ↔ p.wf = true :=
  ⟨wf_of_newValue_asInterface P p, newValue_asInterface P p⟩


/-! ### `normalize` is a projection -/

theorem normalize_numIface (P : Params) (b : F64) : normalize P (numIface b) = numIface b := by
  unfold numIface
  split
  · simp [normalize]
  · split
    · simp [normalize]
    · split
      · simp [normalize]
      · simp only [normalize]; unfold numIface; simp [*]

mutual
theorem normalize_idempotent (P : Params) : (v : GoVal) → normalize P (normalize P v) = normalize P v
  | .nil => by simp [normalize]
  | .bool b => by simp [normalize]
  | .int t v => by simp [normalize, normalize_numIface]
  | .uint t v => by simp [normalize, normalize_numIface]
  | .f32 b => by simp [normalize, normalize_numIface]
  | .f64 b => by simp [normalize, normalize_numIface]
  | .jnum s => by
    simp only [normalize]
    cases hp : P.parseFloat s
    · simp [normalize, hp]
    · simp [normalize_numIface]
  | .str s => by simp [normalize]
  | .bytes b => by simp [normalize]
  | .map n m => by simp [normalize, normalizeMap_idempotent P m]
  | .slice n l => by simp [normalize, normalizeList_idempotent P l]
  | .unsupported t => by simp [normalize]
theorem normalizeMap_idempotent (P : Params) : (m : GoMap) → normalizeMap P (normalizeMap P m) = normalizeMap P m
  | .nil => by simp [normalizeMap]
  | .cons k v t => by simp [normalizeMap, normalize_idempotent P v, normalizeMap_idempotent P t]
theorem normalizeList_idempotent (P : Params) : (l : GoList) → normalizeList P (normalizeList P l) = normalizeList P l
  | .nil => by simp [normalizeList]
  | .cons v t => by simp [normalizeList, normalize_idempotent P v, normalizeList_idempotent P t]
end

/-! ### JSON -/

mutual
theorem okB_protoJSON : (p : PV) → okB (protoJSON p) = p.wf
  | .unset => by simp [protoJSON, PV.wf, okB]
  | .null => by simp [protoJSON, PV.wf, okB]
  | .number b => by simp only [protoJSON, PV.wf]; cases f64Finite b <;> simp [okB]
  | .string s => by simp only [protoJSON, PV.wf]; cases Utf8.valid s <;> simp [okB]
  | .bool b => by simp [protoJSON, PV.wf, okB]
  | .struct f => by
    have h := okB_protoJSONFields f
    simp only [protoJSON, PV.wf, ← h]; cases protoJSONFields f <;> simp [okB]
  | .list l => by
    have h := okB_protoJSONList l
    simp only [protoJSON, PV.wf, ← h]; cases protoJSONList l <;> simp [okB]
theorem okB_protoJSONFields : (f : PFields) → okB (protoJSONFields f) = f.wf
  | .nil => by simp [protoJSONFields, PFields.wf, okB]
  | .cons k v t => by
    have h1 := okB_protoJSON v
    have h2 := okB_protoJSONFields t
    simp only [protoJSONFields, PFields.wf, ← h1, ← h2]
    cases Utf8.valid k <;> cases protoJSON v <;> cases protoJSONFields t <;> simp [okB]
theorem okB_protoJSONList : (l : PList) → okB (protoJSONList l) = l.wf
  | .nil => by simp [protoJSONList, PList.wf, okB]
  | .cons v t => by
    have h1 := okB_protoJSON v
    have h2 := okB_protoJSONList t
    simp only [protoJSONList, PList.wf, ← h1, ← h2]
    cases protoJSON v <;> cases protoJSONList t <;> simp [okB]
end

mutual
theorem goJSON_asInterface : (p : PV) → (j : J) → protoJSON p = .ok j → goJSON (asInterface p) = .ok j
  | .unset, j, h => by simp [protoJSON] at h
  | .null, j, h => by simp [protoJSON] at h; subst h; simp [asInterface, goJSON]
  | .number b, j, h => by
    simp only [protoJSON] at h
    cases hf : f64Finite b <;> simp [hf] at h
    subst h; simp [asInterface, numIface_finite hf, goJSON, hf]
  | .string s, j, h => by
    simp only [protoJSON] at h
    cases hf : Utf8.valid s <;> simp [hf] at h
    subst h; simp [asInterface, goJSON, hf]
  | .bool b, j, h => by simp [protoJSON] at h; subst h; simp [asInterface, goJSON]
  | .struct f, j, h => by
    simp only [protoJSON] at h
    cases hf : protoJSONFields f <;> simp [hf] at h
    subst h; simp [asInterface, goJSON, goJSONMap_asMap f _ hf]
  | .list l, j, h => by
    simp only [protoJSON] at h
    cases hf : protoJSONList l <;> simp [hf] at h
    subst h; simp [asInterface, goJSON, goJSONList_asSlice l _ hf]
theorem goJSONMap_asMap : (f : PFields) → (o : JObj) → protoJSONFields f = .ok o → goJSONMap (asMap f) = .ok o
  | .nil, o, h => by simp [protoJSONFields] at h; subst h; simp [asMap, goJSONMap]
  | .cons k v t, o, h => by
    simp only [protoJSONFields] at h
    cases hk : Utf8.valid k <;> simp [hk] at h
    cases hv : protoJSON v <;> simp [hv] at h
    cases ht : protoJSONFields t <;> simp [ht] at h
    subst h
    simp [asMap, goJSONMap, goJSON_asInterface v _ hv, goJSONMap_asMap t _ ht, hk]
theorem goJSONList_asSlice : (l : PList) → (a : JArr) → protoJSONList l = .ok a → goJSONList (asSlice l) = .ok a
  | .nil, a, h => by simp [protoJSONList] at h; subst h; simp [asSlice, goJSONList]
  | .cons v t, a, h => by
    simp only [protoJSONList] at h
    cases hv : protoJSON v <;> simp [hv] at h
    cases ht : protoJSONList t <;> simp [ht] at h
    subst h
    simp [asSlice, goJSONList, goJSON_asInterface v _ hv, goJSONList_asSlice t _ ht]
end


/-! ### What `Equiv` means: same keys, equivalent values under every key, same elements at every index -/

def GoMap.keys : GoMap → List Str
  | .nil => []
  | .cons k _ t => k :: GoMap.keys t

/-- `m[k]` -/
def GoMap.lookup (k : Str) : GoMap → Option GoVal
  | .nil => none
  | .cons k' v t => if k' = k then some v else GoMap.lookup k t

/-- `l[i]` -/
def GoList.get (l : GoList) (i : Nat) : Option GoVal :=
  match l, i with
  | .nil, _ => none
  | .cons v _, 0 => some v
  | .cons _ t, i + 1 => GoList.get t i

/-- the outermost constructor (contents of maps and slices erased) -/
def GoVal.top : GoVal → GoVal
  | .map n _ => .map n .nil
  | .slice n _ => .slice n .nil
  | v => v

def OptEquiv : Option GoVal → Option GoVal → Prop
  | none, none => True
  | some v, some w => Equiv (.val v) (.val w)
  | _, _ => False

theorem OptEquiv.refl (x : Option GoVal) : OptEquiv x x := by
  cases x <;> simp [OptEquiv]; exact .refl _
theorem OptEquiv.symm {x y : Option GoVal} (h : OptEquiv x y) : OptEquiv y x := by
  cases x <;> cases y <;> simp_all [OptEquiv]; exact .symm h
theorem OptEquiv.trans {x y z : Option GoVal} (h1 : OptEquiv x y) (h2 : OptEquiv y z) : OptEquiv x z := by
  cases x <;> cases y <;> cases z <;> simp_all [OptEquiv]; exact .trans h1 h2

/-- the observable content of an `Equiv` statement -/
def Adequate : Node → Node → Prop
  | .val x, .val y => GoVal.top x = GoVal.top y
  | .map m, .map m' =>
    (GoMap.keys m).Perm (GoMap.keys m') ∧
      ((GoMap.keys m).Nodup → ∀ k, OptEquiv (GoMap.lookup k m) (GoMap.lookup k m'))
  | .list l, .list l' => ∀ i, OptEquiv (GoList.get l i) (GoList.get l' i)
  | _, _ => False

theorem equiv_adequate {a b : Node} (h : Equiv a b) : Adequate a b := by
  induction h with
  | refl a =>
    cases a with
    | val v => simp [Adequate]
    | map m => exact ⟨.refl _, fun _ _ => .refl _⟩
    | list l => exact fun _ => .refl _
  | @symm a b _ ih =>
    cases a <;> cases b <;> simp only [Adequate] at ih ⊢
    · exact ih.symm
    · exact ⟨ih.1.symm, fun hn k => (ih.2 (ih.1.symm.nodup hn) k).symm⟩
    · exact fun i => (ih i).symm
  | @trans a b c _ _ ih1 ih2 =>
    cases a <;> cases b <;> cases c <;> simp only [Adequate] at ih1 ih2 ⊢
    · exact ih1.trans ih2
    · exact ⟨ih1.1.trans ih2.1, fun hn k => (ih1.2 hn k).trans (ih2.2 (ih1.1.nodup hn) k)⟩
    · exact fun i => (ih1 i).trans (ih2 i)
  | swap k₁ v₁ k₂ v₂ t =>
    refine ⟨by simp only [GoMap.keys]; exact .swap .., ?_⟩
    intro hn k
    simp only [GoMap.keys, List.nodup_cons, List.mem_cons, not_or] at hn
    simp only [GoMap.lookup]
    by_cases h1 : k₁ = k <;> by_cases h2 : k₂ = k
    · exact absurd (h1.trans h2.symm) hn.1.1
    · simp [h1, h2]; exact .refl _
    · simp [h1, h2]; exact .refl _
    · simp [h1, h2]; exact .refl _
  | @mcons k v v' t t' hv _ _ ih2 =>
    simp only [Adequate] at ih2 ⊢
    refine ⟨by simp only [GoMap.keys]; exact .cons _ ih2.1, ?_⟩
    intro hn k0
    simp only [GoMap.keys, List.nodup_cons] at hn
    simp only [GoMap.lookup]
    by_cases h1 : k = k0
    · simp [h1, OptEquiv]; exact hv
    · simp [h1]; exact ih2.2 hn.2 k0
  | @lcons v v' t t' hv _ _ ih2 =>
    simp only [Adequate] at ih2 ⊢
    intro i
    cases i with
    | zero => simp [GoList.get, OptEquiv]; exact hv
    | succ i => simp only [GoList.get]; exact ih2 i
  | vmap n _ _ => simp [Adequate, GoVal.top]
  | vslice n _ _ => simp [Adequate, GoVal.top]

end Model.StructAny.Lem
