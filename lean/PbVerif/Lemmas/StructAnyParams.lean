import PbVerif.Model.StructAny
import PbVerif.Props.Utf8Basics
/-
Laws of the executable parameter instance `goParams` (C45): base64 output is ASCII (hence valid UTF-8) of
length 4·⌈n/3⌉; `float64(i)` is finite for every Go integer and exact below 2^53.
-/
open Model Model.StructAny

namespace Model.StructAny.Lem

theorem b64char_lt (n : Nat) : (b64char n).toNat < 128 := by
  unfold b64char
  simp only [BitVec.toNat_ofNat]
  split
  · omega
  · split
    · omega
    · split
      · omega
      · split <;> omega

theorem b64_ascii (s : Str) : ∀ x ∈ b64 s, x.toNat < 128 := by
  fun_induction b64 s with
  | case1 a b c r n ih =>
    intro x hx
    simp only [List.mem_cons] at hx
    rcases hx with rfl | rfl | rfl | rfl | hx
    · exact b64char_lt _
    · exact b64char_lt _
    · exact b64char_lt _
    · exact b64char_lt _
    · exact ih x hx
  | case2 a b n =>
    intro x hx
    simp only [List.mem_cons, List.not_mem_nil, or_false] at hx
    rcases hx with rfl | rfl | rfl | rfl
    · exact b64char_lt _
    · exact b64char_lt _
    · exact b64char_lt _
    · decide
  | case3 a n =>
    intro x hx
    simp only [List.mem_cons, List.not_mem_nil, or_false] at hx
    rcases hx with rfl | rfl | rfl | rfl
    · exact b64char_lt _
    · exact b64char_lt _
    · decide
    · decide
  | case4 => simp

/-- base64 text is valid UTF-8: `NewValue([]byte)` never needs the UTF-8 check it does not make -/
theorem b64_valid (s : Str) : Utf8.valid (b64 s) = true :=
  Utf8.valid_of_ascii _ (b64_ascii s)

theorem b64_length (s : Str) : (b64 s).length = 4 * ((s.length + 2) / 3) := by
  fun_induction b64 s with
  | case1 a b c r n ih => simp only [List.length_cons, ih]; omega
  | case2 a b n => simp
  | case3 a n => simp
  | case4 => simp

/-! ### `float64(i)` -/

theorem pow_split (l : Nat) (h : l ≤ 52) : 2 ^ l * 2 ^ (52 - l) = 2 ^ 52 := by
  rw [← Nat.pow_add]; congr 1; omega

/-- below 2^53 the conversion is exact: exponent field `log2 n + 1023`, mantissa `n` shifted to 53 bits -/
theorem natToF64Mag_exact (n : Nat) (h0 : 0 < n) (h : n < 2 ^ 53) :
    1023 ≤ natToF64Mag n / 2 ^ 52 ∧ natToF64Mag n / 2 ^ 52 ≤ 1075 ∧
    (2 ^ 52 + natToF64Mag n % 2 ^ 52) * 2 ^ (natToF64Mag n / 2 ^ 52 - 1023) = n * 2 ^ 52 := by
  have hne : n ≠ 0 := by omega
  obtain ⟨l, hlog⟩ : ∃ l, Nat.log2 n = l := ⟨_, rfl⟩
  have hl : l ≤ 52 := by
    have := (Nat.log2_lt (k := 53) hne).mpr h; omega
  have hlo := Nat.log2_self_le hne
  have hhi := @Nat.lt_log2_self n
  rw [hlog] at hlo hhi
  have hx1 : 2 ^ 52 ≤ n * 2 ^ (52 - l) := by
    rw [← pow_split l hl]; exact Nat.mul_le_mul_right _ hlo
  have hx2 : n * 2 ^ (52 - l) < 2 ^ 53 := by
    have : 2 ^ (l + 1) * 2 ^ (52 - l) = 2 ^ 53 := by rw [← Nat.pow_add]; congr 1; omega
    rw [← this]; exact Nat.mul_lt_mul_of_lt_of_le hhi (Nat.le_refl _) (Nat.pow_pos (by omega))
  have hm : natToF64Mag n = (l + 1023) * 2 ^ 52 + (n * 2 ^ (52 - l) - 2 ^ 52) := by
    unfold natToF64Mag; simp only [hne, if_false, hlog, hl, if_true]
  have hxl : n * 2 ^ (52 - l) * 2 ^ l = n * 2 ^ 52 := by
    rw [Nat.mul_assoc, Nat.mul_comm (2 ^ (52 - l)), pow_split l hl]
  generalize n * 2 ^ (52 - l) = x at *
  have he : natToF64Mag n / 2 ^ 52 = l + 1023 := by rw [hm]; omega
  have hf : natToF64Mag n % 2 ^ 52 = x - 2 ^ 52 := by rw [hm]; omega
  rw [he, hf]
  refine ⟨by omega, by omega, ?_⟩
  rw [show l + 1023 - 1023 = l by omega, show 2 ^ 52 + (x - 2 ^ 52) = x by omega]
  exact hxl


theorem natToF64Mag_le (n : Nat) (hne : n ≠ 0) : natToF64Mag n ≤ (Nat.log2 n + 1024) * 2 ^ 52 := by
  obtain ⟨l, hlog⟩ : ∃ l, Nat.log2 n = l := ⟨_, rfl⟩
  have hhi := @Nat.lt_log2_self n
  rw [hlog] at hhi ⊢
  unfold natToF64Mag
  simp only [hne, if_false, hlog]
  split
  · rename_i hl
    have hx2 : n * 2 ^ (52 - l) < 2 ^ 53 := by
      have : 2 ^ (l + 1) * 2 ^ (52 - l) = 2 ^ 53 := by rw [← Nat.pow_add]; congr 1; omega
      rw [← this]; exact Nat.mul_lt_mul_of_lt_of_le hhi (Nat.le_refl _) (Nat.pow_pos (by omega))
    generalize n * 2 ^ (52 - l) = x at *
    omega
  · rename_i hl
    have hq : n / 2 ^ (l - 52) < 2 ^ 53 := by
      apply Nat.div_lt_of_lt_mul
      have : 2 ^ (l - 52) * 2 ^ 53 = 2 ^ (l + 1) := by rw [← Nat.pow_add]; congr 1; omega
      rw [this]; exact hhi
    generalize n / 2 ^ (l - 52) = q at *
    generalize n % 2 ^ (l - 52) = r at *
    generalize 2 ^ (l - 52 - 1) = half at *
    split <;> omega

/-- `float64(i)` is finite for every value of a Go integer type (|i| < 2^64), so `AsInterface` never turns a
converted integer into one of the strings "NaN" / "Infinity" -/
theorem intToF64_finite (i : Int) (h : i.natAbs < 2 ^ 64) : f64Finite (intToF64 i) = true := by
  have hmag : natToF64Mag i.natAbs ≤ 1087 * 2 ^ 52 := by
    by_cases h0 : i.natAbs = 0
    · rw [h0]; simp [natToF64Mag]
    · have := natToF64Mag_le _ h0
      have hl := (Nat.log2_lt (k := 64) h0).mpr h
      calc natToF64Mag i.natAbs ≤ (Nat.log2 i.natAbs + 1024) * 2 ^ 52 := this
        _ ≤ 1087 * 2 ^ 52 := Nat.mul_le_mul_right _ (by omega)
  unfold intToF64
  generalize natToF64Mag i.natAbs = mag at *
  simp only [f64Finite, f64IsNaN, posInf, negInf, Bool.and_eq_true, Bool.not_eq_true', bne_iff_ne, ne_eq,
    BitVec.toNat_ofNat]
  refine ⟨⟨?_, ?_⟩, ?_⟩
  · split <;> simp <;> omega
  · intro hc; have := congrArg BitVec.toNat hc; simp at this; split at this <;> omega
  · intro hc; have := congrArg BitVec.toNat hc; simp at this; split at this <;> omega

/-- the documented precision loss: 2^53 + 1 converts to the same float64 as 2^53 -/
theorem intToF64_precision_loss : intToF64 9007199254740993 = intToF64 9007199254740992 := by decide

end Model.StructAny.Lem
