import PbVerif.Lemmas.JsonTextRoundDefs
/-
When does protojson `marshalMessage` fail?  For a message of the right *shape* (every value of the Go type of
its field; strings arbitrary bytes): exactly when some string — in any string field, enforced UTF-8 or not —
is not valid UTF-8, and then with the invalid-UTF-8 error.
-/
namespace JT
open Pb

/-- the shape condition: as `wfScalarJ`, but strings may hold any bytes -/
def wfShapeJ (fx : FieldX) : Val → Bool
  | .bytes b =>
    (match fx.f.kind with
     | .string => true
     | .bytes => true
     | _ => false)
  | v => wfScalarJ fx v

theorem jScalar_ok (C : JCodec) (o : JOpts) (fx : FieldX) (v : Val) (hw : wfScalarJ fx v = true) :
    ∃ j, jScalar C o fx v = .ok j := by
  cases v with
  | msg m => simp [wfScalarJ] at hw
  | bytes b =>
    unfold wfScalarJ at hw
    cases hk : fx.f.kind <;> simp only [hk] at hw <;> try (cases hw; done)
    · exact ⟨.str b, by simp [jScalar, hk, hw]⟩
    · exact ⟨.str (C.b64enc b), by simp [jScalar, hk]⟩
  | num n =>
    unfold wfScalarJ at hw
    cases hk : fx.f.kind <;> simp only [hk] at hw <;> try (cases hw; done)
    all_goals
      (simp only [jScalar, hk]
       (repeat' split) <;> exact ⟨_, rfl⟩)

/-- a scalar of the right shape: marshals, or is a string with invalid UTF-8 -/
theorem jScalar_dichotomy (C : JCodec) (o : JOpts) (fx : FieldX) (v : Val) (hw : wfShapeJ fx v = true) :
    (∃ j, jScalar C o fx v = .ok j ∧ wfScalarJ fx v = true) ∨
    (jScalar C o fx v = .error .utf8 ∧ wfScalarJ fx v = false) := by
  cases v with
  | msg m => simp [wfShapeJ, wfScalarJ] at hw
  | num n =>
    have hw' : wfScalarJ fx (.num n) = true := hw
    obtain ⟨j, hj⟩ := jScalar_ok C o fx _ hw'
    exact .inl ⟨j, hj, hw'⟩
  | bytes b =>
    unfold wfShapeJ at hw
    cases hk : fx.f.kind <;> simp only [hk] at hw <;> try (cases hw; done)
    · cases hu : utf8Valid b
      · exact .inr ⟨by simp [jScalar, hk, hu], by simp [wfScalarJ, hk, hu]⟩
      · exact .inl ⟨.str b, by simp [jScalar, hk, hu], by simp [wfScalarJ, hk, hu]⟩
    · exact .inl ⟨.str (C.b64enc b), by simp [jScalar, hk], by simp [wfScalarJ, hk]⟩

variable (C : JCodec) (o : JOpts) (X : SchemaX)

mutual
theorem failsJ_msg : ∀ (m : Msg) (mi : Nat) (limit : Int), RepMsg wfShapeJ X mi limit m →
    (∃ jv, jMsg C o X mi m = .ok jv ∧ RepMsg wfScalarJ X mi limit m) ∨
    (jMsg C o X mi m = .error .utf8 ∧ ¬ RepMsg wfScalarJ X mi limit m)
  | .mk fs unk, mi, limit, ⟨hlim, hwkt, hany, hex, hf⟩ => by
    rcases failsJ_fields fs mi 0 (limit - 1) hf with ⟨r, hr, hrep⟩ | ⟨he, hnrep⟩
    · exact .inl ⟨.obj (JMembers.ofList (assemble C o (X.msg mi) r)), by simp [jMsg, hwkt, hr], hlim, hwkt, hany, hex, hrep⟩
    · exact .inr ⟨by simp [jMsg, hwkt, he], fun h => hnrep h.2.2.2.2⟩
theorem failsJ_fields : ∀ (fs : Fields) (mi : Nat) (lb : Nat) (limit : Int),
    RepFields wfShapeJ X (X.msg mi) lb limit fs →
      (∃ r, jFields C o X (X.msg mi) fs = .ok r ∧ RepFields wfScalarJ X (X.msg mi) lb limit fs) ∨
      (jFields C o X (X.msg mi) fs = .error .utf8 ∧ ¬ RepFields wfScalarJ X (X.msg mi) lb limit fs)
  | .nil, _, _, _, _ => .inl ⟨[], rfl, trivial⟩
  | .cons num fv tl, mi, lb, limit, ⟨h1, h2, h3⟩ => by
    cases hf : (X.msg mi).find num with
    | none => rw [hf] at h2; exact h2.elim
    | some fx =>
      rw [hf] at h2
      rcases failsJ_fval fv fx limit h2 with ⟨jv, hj, hrep⟩ | ⟨he, hnrep⟩
      · rcases failsJ_fields tl mi (num + 1) limit h3 with ⟨r, hr, hrept⟩ | ⟨het, hnrept⟩
        · exact .inl ⟨(num, jv) :: r, by simp [jFields, hf, hj, hr], h1, by rw [hf]; exact hrep, hrept⟩
        · exact .inr ⟨by simp [jFields, hf, hj, het], fun h => hnrept h.2.2⟩
      · refine .inr ⟨by simp [jFields, hf, he], fun h => hnrep ?_⟩
        have := h.2.1
        rw [hf] at this
        exact this
theorem failsJ_fval : ∀ (fv : FVal) (fx : FieldX) (limit : Int), RepFVal wfShapeJ X fx limit fv →
    (∃ jv, jFVal C o X fx fv = .ok jv ∧ RepFVal wfScalarJ X fx limit fv) ∨
    (jFVal C o X fx fv = .error .utf8 ∧ ¬ RepFVal wfScalarJ X fx limit fv)
  | .one v, fx, limit, ⟨hc1, hc2, hv, hz⟩ => by
    rcases failsJ_val v fx limit hv with ⟨jv, hj, hrep⟩ | ⟨he, hnrep⟩
    · exact .inl ⟨jv, by simp [jFVal, hj], hc1, hc2, hrep, hz⟩
    · exact .inr ⟨by simp [jFVal, he], fun h => hnrep h.2.2.1⟩
  | .many vs, fx, limit, ⟨hc, hn, hv⟩ => by
    have hnm : fx.f.card ≠ .map := by rw [hc]; decide
    rcases failsJ_vals vs fx limit hv with ⟨l, hl, hrep⟩ | ⟨he, hnrep⟩
    · exact .inl ⟨.arr (JElems.ofList l), by simp [jFVal, hnm, hl], hc, hn, hrep⟩
    · exact .inr ⟨by simp [jFVal, hnm, he], fun h => hnrep h.2.2⟩
theorem failsJ_val : ∀ (v : Val) (fx : FieldX) (limit : Int), RepVal wfShapeJ X fx limit v →
    (∃ jv, jVal C o X fx v = .ok jv ∧ RepVal wfScalarJ X fx limit v) ∨
    (jVal C o X fx v = .error .utf8 ∧ ¬ RepVal wfScalarJ X fx limit v)
  | .msg m, fx, limit, ⟨hk, hm⟩ => by
    rcases failsJ_msg m fx.f.sub limit hm with ⟨jv, hj, hrep⟩ | ⟨he, hnrep⟩
    · exact .inl ⟨jv, by simp [jVal, hk, hj], hk, hrep⟩
    · exact .inr ⟨by simp [jVal, hk, he], fun h => hnrep h.2⟩
  | .num n, fx, limit, hw => by
    rcases jScalar_dichotomy C o fx (.num n) hw with ⟨j, hj, hwf⟩ | ⟨he, hnwf⟩
    · exact .inl ⟨j, by simp [jVal, hj], hwf⟩
    · exact .inr ⟨by simp [jVal, he], by simp [RepVal, hnwf]⟩
  | .bytes b, fx, limit, hw => by
    rcases jScalar_dichotomy C o fx (.bytes b) hw with ⟨j, hj, hwf⟩ | ⟨he, hnwf⟩
    · exact .inl ⟨j, by simp [jVal, hj], hwf⟩
    · exact .inr ⟨by simp [jVal, he], by simp [RepVal, hnwf]⟩
theorem failsJ_vals : ∀ (vs : Vals) (fx : FieldX) (limit : Int), RepVals wfShapeJ X fx limit vs →
    (∃ l, jVals C o X fx vs = .ok l ∧ RepVals wfScalarJ X fx limit vs) ∨
    (jVals C o X fx vs = .error .utf8 ∧ ¬ RepVals wfScalarJ X fx limit vs)
  | .nil, _, _, _ => .inl ⟨[], rfl, trivial⟩
  | .cons v tl, fx, limit, ⟨hv, ht⟩ => by
    rcases failsJ_val v fx limit hv with ⟨jv, hj, hrep⟩ | ⟨he, hnrep⟩
    · rcases failsJ_vals tl fx limit ht with ⟨l, hl, hrept⟩ | ⟨het, hnrept⟩
      · exact .inl ⟨jv :: l, by simp [jVals, hj, hl], hrep, hrept⟩
      · exact .inr ⟨by simp [jVals, hj, het], fun h => hnrept h.2⟩
    · exact .inr ⟨by simp [jVals, he], fun h => hnrep h.1⟩
end

end JT
