import PbVerif.Model.Conc
/-
Linearisability of the mutex-protected registry (Model.Conc.Reg): with every accessor under the
readers/writer lock, each operation's result is the result of the same operation in the
*sequential* registry run over the operations in lock-acquisition order.
-/
namespace Conc.Reg

theorem seqRun_snoc (cfg : Cfg) (ops : List Op) (op : Op) :
    seqRun cfg (ops ++ [op]) = (seqApply cfg (seqRun cfg ops) op).1 := by
  simp [seqRun, List.foldl_append]

theorem seqApply_lookup (cfg : Cfg) (t : Tab) : seqApply cfg t .lookup = (t, .snap t) := rfl

/-- the sequential state after the operations of the threads in `l` -/
def stateOf (cfg : Cfg) (l : List Nat) : Tab := seqRun cfg (l.map cfg.prog)

theorem stateOf_snoc (cfg : Cfg) (l : List Nat) (i : Nat) :
    stateOf cfg (l ++ [i]) = (seqApply cfg (stateOf cfg l) (cfg.prog i)).1 := by
  simp [stateOf, seqRun_snoc]

theorem stateOf_snoc_lookup (cfg : Cfg) (l : List Nat) (i : Nat) (h : cfg.prog i = .lookup) :
    stateOf cfg (l ++ [i]) = stateOf cfg l := by
  rw [stateOf_snoc, h]; rfl

/-- thread `i` finished with result `r`, and `r` is what the sequential registry answers to `i`'s
operation after the operations that acquired the lock before `i` -/
def Lin (cfg : Cfg) (s : State) (i : Nat) (r : Res) : Prop :=
  ∃ pre post, s.log = pre ++ i :: post ∧ r = (seqApply cfg (stateOf cfg pre) (cfg.prog i)).2

/-- the writer `i` acquired the lock last; `pre` are the acquisitions before it -/
def Last (s : State) (i : Nat) (pre : List Nat) : Prop := s.log = pre ++ [i]

structure Inv (cfg : Cfg) (s : State) : Prop where
  free : s.writer = none → s.tab = stateOf cfg s.log
  readers_excl : s.readers ≠ [] → s.writer = none
  idle_st : ∀ i, s.pc i = .idle → i ∉ s.log
  nodup : s.log.Nodup
  wcheck_st : ∀ i, s.pc i = .wcheck → s.writer = some i ∧ ∃ pre, Last s i pre ∧ s.tab = stateOf cfg pre
  ins_st : ∀ i k, s.pc i = .ins k → s.writer = some i ∧ ∃ pre f, Last s i pre ∧ cfg.prog i = .register f ∧
      f ∉ (stateOf cfg pre).files ∧ k ≤ cfg.ndecl f ∧
      s.tab = { entries := (stateOf cfg pre).entries ++ (List.range k).map (fun j => (f, j)), files := (stateOf cfg pre).files }
  wunlock_st : ∀ i r, s.pc i = .wunlock r → s.writer = some i ∧ s.tab = stateOf cfg s.log ∧
      ∃ pre, Last s i pre ∧ r = (seqApply cfg (stateOf cfg pre) (cfg.prog i)).2
  rread_st : ∀ i, s.pc i = .rread → i ∈ s.readers ∧ cfg.prog i = .lookup ∧
      ∃ pre post, s.log = pre ++ i :: post ∧ stateOf cfg pre = stateOf cfg s.log
  runlock_st : ∀ i r, s.pc i = .runlock r → Lin cfg s i r
  done_st : ∀ i r, s.pc i = .done r → Lin cfg s i r

theorem inv_init (cfg : Cfg) : Inv cfg init := by
  constructor <;> simp [init, stateOf, seqRun]

theorem Lin.grow {cfg : Cfg} {s t : State} {i : Nat} {r : Res} (h : Lin cfg s i r) (j : Nat)
    (hl : t.log = s.log ++ [j]) : Lin cfg t i r := by
  obtain ⟨pre, post, h1, h2⟩ := h
  exact ⟨pre, post ++ [j], by simp [hl, h1], h2⟩

/-- the invariant is inductive -/
theorem inv_step {cfg : Cfg} (safe : cfg.readerLocks = true) {s t : State} (h : Inv cfg s) (st : Step cfg s t) : Inv cfg t := by
  obtain ⟨hfree, hrx, hidle, hnd, hwc, hins, hwu, hrr, hru, hdn⟩ := h
  cases st with
  | wlock i f hpc hprog hw hr =>
    have htab := hfree hw
    constructor <;> simp only [upd]
    · intro h; cases h
    · intro h; exact absurd hr h
    · intro j hj; split at hj
      · cases hj
      · rename_i hne; simp only [List.mem_append, List.mem_singleton, not_or]; exact ⟨hidle j hj, hne⟩
    · exact List.nodup_append.mpr ⟨hnd, by simp, by intro a ha b hb; simp at hb; subst hb; intro he; subst he; exact hidle _ hpc ha⟩
    · intro j hj; split at hj
      · rename_i he; subst he; exact ⟨rfl, s.log, rfl, htab⟩
      · have := (hwc j hj).1; rw [hw] at this; cases this
    · intro j k hj; split at hj
      · cases hj
      · have := (hins j k hj).1; rw [hw] at this; cases this
    · intro j r hj; split at hj
      · cases hj
      · have := (hwu j r hj).1; rw [hw] at this; cases this
    · intro j hj; split at hj
      · cases hj
      · have := (hrr j hj).1; rw [hr] at this; cases this
    · intro j r hj; split at hj
      · cases hj
      · exact (hru j r hj).grow i rfl
    · intro j r hj; split at hj
      · cases hj
      · exact (hdn j r hj).grow i rfl
  | wcheck_dup i f hpc hprog hf =>
    obtain ⟨hw, pre, hlast, htab⟩ := hwc i hpc
    have hlog : s.log = pre ++ [i] := hlast
    constructor <;> simp only [upd]
    · intro h; rw [hw] at h; cases h
    · exact hrx
    · intro j hj; split at hj
      · cases hj
      · exact hidle j hj
    · exact hnd
    · intro j hj; split at hj
      · cases hj
      · exact hwc j hj
    · intro j k hj; split at hj
      · cases hj
      · exact hins j k hj
    · intro j r hj; split at hj
      · rename_i he; subst he; cases hj
        refine ⟨hw, ?_, pre, hlast, ?_⟩
        · rw [hlog, stateOf_snoc, hprog, ← htab]; simp [seqApply, hf]
        · rw [hprog, ← htab]; simp [seqApply, hf]
      · exact hwu j r hj
    · intro j hj; split at hj
      · cases hj
      · exact hrr j hj
    · intro j r hj; split at hj
      · cases hj
      · exact hru j r hj
    · intro j r hj; split at hj
      · cases hj
      · exact hdn j r hj
  | wcheck_new i f hpc hprog hf =>
    obtain ⟨hw, pre, hlast, htab⟩ := hwc i hpc
    constructor <;> simp only [upd]
    · intro h; rw [hw] at h; cases h
    · exact hrx
    · intro j hj; split at hj
      · cases hj
      · exact hidle j hj
    · exact hnd
    · intro j hj; split at hj
      · cases hj
      · exact hwc j hj
    · intro j k hj; split at hj
      · rename_i he; subst he; cases hj
        refine ⟨hw, pre, f, hlast, hprog, ?_, Nat.zero_le _, ?_⟩
        · rw [← htab]; exact hf
        · rw [← htab]; simp
      · exact hins j k hj
    · intro j r hj; split at hj
      · cases hj
      · exact hwu j r hj
    · intro j hj; split at hj
      · cases hj
      · exact hrr j hj
    · intro j r hj; split at hj
      · cases hj
      · exact hru j r hj
    · intro j r hj; split at hj
      · cases hj
      · exact hdn j r hj
  | ins i f k hpc hprog hk =>
    obtain ⟨hw, pre, f', hlast, hprog', hnf, hle, htab⟩ := hins i k hpc
    have hff : f' = f := by rw [hprog] at hprog'; cases hprog'; rfl
    subst hff
    constructor <;> simp only [upd]
    · intro h; rw [hw] at h; cases h
    · exact hrx
    · intro j hj; split at hj
      · cases hj
      · exact hidle j hj
    · exact hnd
    · intro j hj; split at hj
      · cases hj
      · have := (hwc j hj).1; rw [hw] at this; cases this; rename_i hne; exact absurd rfl hne
    · intro j k' hj; split at hj
      · rename_i he; subst he; cases hj
        refine ⟨hw, pre, f', hlast, hprog, hnf, hk, ?_⟩
        rw [htab]; simp [List.range_succ, List.map_append]
      · have := (hins j k' hj).1; rw [hw] at this; cases this; rename_i hne; exact absurd rfl hne
    · intro j r hj; split at hj
      · cases hj
      · have := (hwu j r hj).1; rw [hw] at this; cases this; rename_i hne; exact absurd rfl hne
    · intro j hj; split at hj
      · cases hj
      · have := (hrr j hj).1
        have hne : s.readers ≠ [] := by intro h0; rw [h0] at this; cases this
        have := hrx hne; rw [hw] at this; cases this
    · intro j r hj; split at hj
      · cases hj
      · exact hru j r hj
    · intro j r hj; split at hj
      · cases hj
      · exact hdn j r hj
  | ins_end i f k hpc hprog hk =>
    obtain ⟨hw, pre, f', hlast, hprog', hnf, hle, htab⟩ := hins i k hpc
    have hff : f' = f := by rw [hprog] at hprog'; cases hprog'; rfl
    subst hff
    have hkk : k = cfg.ndecl f' := by omega
    have hlog : s.log = pre ++ [i] := hlast
    constructor <;> simp only [upd]
    · intro h; rw [hw] at h; cases h
    · exact hrx
    · intro j hj; split at hj
      · cases hj
      · exact hidle j hj
    · exact hnd
    · intro j hj; split at hj
      · cases hj
      · have := (hwc j hj).1; rw [hw] at this; cases this; rename_i hne; exact absurd rfl hne
    · intro j k' hj; split at hj
      · cases hj
      · have := (hins j k' hj).1; rw [hw] at this; cases this; rename_i hne; exact absurd rfl hne
    · intro j r hj; split at hj
      · rename_i he; subst he; cases hj
        refine ⟨hw, ?_, pre, hlast, ?_⟩
        · rw [hlog, stateOf_snoc, hprog, htab, hkk]; simp [seqApply, hnf, decls]
        · rw [hprog]; simp [seqApply, hnf]
      · have := (hwu j r hj).1; rw [hw] at this; cases this; rename_i hne; exact absurd rfl hne
    · intro j hj; split at hj
      · cases hj
      · have := (hrr j hj).1
        have hne : s.readers ≠ [] := by intro h0; rw [h0] at this; cases this
        have := hrx hne; rw [hw] at this; cases this
    · intro j r hj; split at hj
      · cases hj
      · exact hru j r hj
    · intro j r hj; split at hj
      · cases hj
      · exact hdn j r hj
  | wunlock i r hpc =>
    obtain ⟨hw, htab, pre, hlast, hr⟩ := hwu i r hpc
    have hlog : s.log = pre ++ [i] := hlast
    constructor <;> simp only [upd]
    · intro _; exact htab
    · intro _; trivial
    · intro j hj; split at hj
      · cases hj
      · exact hidle j hj
    · exact hnd
    · intro j hj; split at hj
      · cases hj
      · have := (hwc j hj).1; rw [hw] at this; cases this; rename_i hne; exact absurd rfl hne
    · intro j k' hj; split at hj
      · cases hj
      · have := (hins j k' hj).1; rw [hw] at this; cases this; rename_i hne; exact absurd rfl hne
    · intro j r' hj; split at hj
      · cases hj
      · have := (hwu j r' hj).1; rw [hw] at this; cases this; rename_i hne; exact absurd rfl hne
    · intro j hj; split at hj
      · cases hj
      · exact hrr j hj
    · intro j r' hj; split at hj
      · cases hj
      · exact hru j r' hj
    · intro j r' hj; split at hj
      · rename_i he; subst he; cases hj
        exact ⟨pre, [], hlog, hr⟩
      · exact hdn j r' hj
  | rlock i hpc hprog hl hw =>
    have htab := hfree hw
    have hsame : stateOf cfg (s.log ++ [i]) = stateOf cfg s.log := stateOf_snoc_lookup cfg s.log i hprog
    constructor <;> simp only [upd]
    · intro _; rw [hsame]; exact htab
    · intro _; exact hw
    · intro j hj; split at hj
      · cases hj
      · rename_i hne; simp only [List.mem_append, List.mem_singleton, not_or]; exact ⟨hidle j hj, hne⟩
    · exact List.nodup_append.mpr ⟨hnd, by simp, by intro a ha b hb; simp at hb; subst hb; intro he; subst he; exact hidle _ hpc ha⟩
    · intro j hj; split at hj
      · cases hj
      · have := (hwc j hj).1; rw [hw] at this; cases this
    · intro j k hj; split at hj
      · cases hj
      · have := (hins j k hj).1; rw [hw] at this; cases this
    · intro j r hj; split at hj
      · cases hj
      · have := (hwu j r hj).1; rw [hw] at this; cases this
    · intro j hj; split at hj
      · rename_i he; subst he
        exact ⟨List.mem_cons_self, hprog, s.log, [], rfl, hsame.symm⟩
      · obtain ⟨hm, hp, pre, post, h1, h2⟩ := hrr j hj
        exact ⟨List.mem_cons_of_mem _ hm, hp, pre, post ++ [i], by simp [h1], by rw [hsame]; exact h2⟩
    · intro j r hj; split at hj
      · cases hj
      · exact (hru j r hj).grow i rfl
    · intro j r hj; split at hj
      · cases hj
      · exact (hdn j r hj).grow i rfl
  | rskip i hpc hprog hl => rw [safe] at hl; cases hl
  | rread i hpc =>
    obtain ⟨hm, hp, pre, post, h1, h2⟩ := hrr i hpc
    have hne : s.readers ≠ [] := by intro h0; rw [h0] at hm; cases hm
    have hw := hrx hne
    have htab := hfree hw
    constructor <;> simp only [upd]
    · exact hfree
    · exact hrx
    · intro j hj; split at hj
      · cases hj
      · exact hidle j hj
    · exact hnd
    · intro j hj; split at hj
      · cases hj
      · exact hwc j hj
    · intro j k hj; split at hj
      · cases hj
      · exact hins j k hj
    · intro j r hj; split at hj
      · cases hj
      · exact hwu j r hj
    · intro j hj; split at hj
      · cases hj
      · exact hrr j hj
    · intro j r hj; split at hj
      · rename_i he; subst he; cases hj
        exact ⟨pre, post, h1, by rw [hp, seqApply_lookup, h2, ← htab]⟩
      · exact hru j r hj
    · intro j r hj; split at hj
      · cases hj
      · exact hdn j r hj
  | runlock i r hpc =>
    have hlin := hru i r hpc
    constructor <;> simp only [upd]
    · exact hfree
    · intro hne; apply hrx; intro h0; rw [h0] at hne; exact hne rfl
    · intro j hj; split at hj
      · cases hj
      · exact hidle j hj
    · exact hnd
    · intro j hj; split at hj
      · cases hj
      · exact hwc j hj
    · intro j k hj; split at hj
      · cases hj
      · exact hins j k hj
    · intro j r' hj; split at hj
      · cases hj
      · exact hwu j r' hj
    · intro j hj; split at hj
      · cases hj
      · rename_i hne
        obtain ⟨hm, rest⟩ := hrr j hj
        exact ⟨List.mem_filter.mpr ⟨hm, by simpa using hne⟩, rest⟩
    · intro j r' hj; split at hj
      · cases hj
      · exact hru j r' hj
    · intro j r' hj; split at hj
      · rename_i he; subst he; cases hj; exact hlin
      · exact hdn j r' hj

theorem inv_reachable {cfg : Cfg} (safe : cfg.readerLocks = true) {s : State} (r : Reachable cfg s) : Inv cfg s := by
  induction r with
  | init => exact inv_init cfg
  | step _ st ih => exact inv_step safe ih st

/-! ### the sequential registry never holds a half-registered file -/

def Tab.WF (cfg : Cfg) (t : Tab) : Prop :=
  ∀ f k, (f, k) ∈ t.entries ↔ (f ∈ t.files ∧ k < cfg.ndecl f)

theorem seqApply_wf (cfg : Cfg) (t : Tab) (op : Op) (h : t.WF cfg) : (seqApply cfg t op).1.WF cfg := by
  cases op with
  | lookup => exact h
  | register f =>
    by_cases hf : f ∈ t.files
    · have : (seqApply cfg t (.register f)).1 = t := by simp [seqApply, hf]
      rw [this]; exact h
    · have : (seqApply cfg t (.register f)).1 = { entries := t.entries ++ decls cfg f, files := t.files ++ [f] } := by
        simp [seqApply, hf]
      rw [this]
      intro g k
      have hgk := h g k
      simp only [List.mem_append, decls, List.mem_map, List.mem_range, Prod.mk.injEq, List.mem_singleton]
      constructor
      · rintro (hm | ⟨j, hj, h1, h2⟩)
        · have := hgk.mp hm; exact ⟨Or.inl this.1, this.2⟩
        · subst h1; subst h2; exact ⟨Or.inr rfl, hj⟩
      · rintro ⟨hg | hg, hk⟩
        · exact Or.inl (hgk.mpr ⟨hg, hk⟩)
        · subst hg; exact Or.inr ⟨k, hk, rfl, rfl⟩

theorem seqRun_wf (cfg : Cfg) (ops : List Op) : (seqRun cfg ops).WF cfg := by
  suffices ∀ (ops : List Op) (t : Tab), t.WF cfg → (ops.foldl (fun t op => (seqApply cfg t op).1) t).WF cfg from
    this ops ⟨[], []⟩ (by intro f k; simp)
  intro ops
  induction ops with
  | nil => intro t h; exact h
  | cons op rest ih => intro t h; exact ih _ (seqApply_wf cfg t op h)

end Conc.Reg
