import PbVerif.Lemmas.JsonTextRoundJ1
/-
JSON round trip, part 2: lists, and what the decoder does with the member printed for an UNPOPULATED field
(EmitUnpopulated / EmitDefaultValues): nothing.
-/
namespace JT
open Pb

variable (C : JCodec) (D : DOpts) (X : SchemaX)

/-- rendered list elements against the list values -/
def ESpec (fx : FieldX) (limit : Int) : Vals → List JV → Prop
  | .nil, [] => True
  | .cons v tl, j :: l => VSpec C D X fx limit v j ∧ ESpec fx limit tl l
  | _, _ => False

theorem dElems_ofList (fx : FieldX) (limit : Int) : ∀ (vs : Vals) (l : List JV), ESpec C D X fx limit vs l →
    dElems C D X fx limit (JElems.ofList l) = .ok (normVals X fx vs)
  | .nil, [], _ => by simp [JElems.ofList, dElems, normVals]
  | .nil, _ :: _, h => h.elim
  | .cons _ _, [], h => h.elim
  | .cons v tl, j :: l, ⟨hv, ht⟩ => by
    have ih := dElems_ofList fx limit tl l ht
    simp only [JElems.ofList, normVals]
    rw [dElems]
    cases v with
    | msg m =>
      obtain ⟨_, hk, hd⟩ := hv
      simp only [hk, if_true, hd, ih, Except.map, normVal]
    | num n =>
      obtain ⟨_, hk, hd⟩ := hv
      simp only [hk, Bool.false_eq_true, if_false, hd, ih, Except.map]
    | bytes b =>
      obtain ⟨_, hk, hd⟩ := hv
      simp only [hk, Bool.false_eq_true, if_false, hd, ih, Except.map]

theorem normVals_isNil (fx : FieldX) : ∀ vs : Vals, (normVals X fx vs).isNil = vs.isNil
  | .nil => rfl
  | .cons _ _ => rfl

/-- a repeated field -/
theorem FSpec_many (fx : FieldX) (limit : Int) (vs : Vals) (l : List JV) (hc : fx.f.card = .repeated)
    (hn : vs.isNil = false) (he : ESpec C D X fx limit vs l) :
    FSpec C D X fx limit (.many vs) (.arr (JElems.ofList l)) := by
  refine ⟨rfl, ?_⟩
  intro mi acc hs hg hno
  rw [dFieldVal_repeated C D X mi fx limit _ _ hc, dList, dElems_ofList C D X fx limit vs l he]
  simp only [storeList, Msg.fields, Msg.unknown]
  rw [appendList_fresh acc fx.f.num _ (by rw [normVals_isNil]; exact hn) hg]
  have : fx.f.card ≠ .map := by rw [hc]; decide
  simp [normFVal, this]

/-- the head of a member that names a not yet seen field with a value that is not a skipped null -/
theorem dHead_found_value (mi : Nat) (limit : Int) (key : Str) (v : JV) (sn so : Ints) (fx : FieldX)
    (hr : resolveJSON X (X.msg mi) key = .found fx) (hseen : sn.has fx.f.num = false)
    (hnn : (v.isNull && !fx.valueMsg && !fx.nullEnum) = false)
    (hso : ∀ o, fx.f.card ≠ .repeated → fx.f.card ≠ .map → fx.oneofIdx = some o → so.has o = false) :
    dHead D X (X.msg mi) limit key v sn so =
      .value fx (sn.set fx.f.num)
        (if fx.f.card = .repeated ∨ fx.f.card = .map then so
         else match fx.oneofIdx with
           | some o => so.set o
           | none => so) := by
  unfold dHead
  simp only [hr, hseen, hnn, Bool.false_eq_true, if_false]
  cases hc : fx.f.card <;> simp only [reduceCtorEq, or_false, or_true, false_or, if_true, if_false, or_self]
  all_goals
    (cases ho : fx.oneofIdx with
     | none => rfl
     | some o =>
       have := hso o (by rw [hc]; decide) (by rw [hc]; decide) ho
       simp only [this, Bool.false_eq_true, if_false])

/-- **an unpopulated field that is printed (null / [] / {} / the zero value) leaves the decoded message unchanged** -/
theorem dStep_unpopulated (o : JOpts) (hS : SchemaJ X o) (mi : Nat) (limit : Int) (fx : FieldX)
    (hmem : fx ∈ (X.msg mi).fields) (dv : JV) (hu : unpopulated C o fx = some dv) (L : JLaws C)
    (s : LoopSt) (acc : Fields) (hm : s.m = .mk acc []) (hs : SortedFrom 0 acc) (hg : acc.get? fx.f.num = none)
    (hseen : s.sn.has fx.f.num = false) :
    dStep C D X mi limit s (outName o fx, dv) = .ok ⟨s.sn.set fx.f.num, s.so, s.m⟩ := by
  obtain ⟨hne, hvm⟩ := hS.plain mi fx hmem
  have hr := hS.name_self mi fx hmem
  unfold unpopulated at hu
  split at hu
  · cases hu
  · split at hu
    · cases hu
    · split at hu
      · cases hu
      · rename_i hoo
        have hoi : fx.oneofIdx = none := by
          cases h : fx.oneofIdx with
          | none => rfl
          | some o' => simp [h] at hoo
        have hfo : fx.f.oneof = none := by
          cases h : fx.f.oneof with
          | none => rfl
          | some o' =>
            have := hS.oneofOK mi fx o' hmem h
            rw [hoi] at this
            cases this
        split at hu
        · -- presence: null
          split at hu
          · cases hu
            unfold dStep dHead
            simp [hr, hseen, JV.isNull, hne, hvm]
          · cases hu
        · rename_i hp
          have hp' : fx.presence = false := by simpa using hp
          have hsoo : ∀ o', fx.f.card ≠ .repeated → fx.f.card ≠ .map → fx.oneofIdx = some o' → s.so.has o' = false := by
            intro o' _ _ h
            rw [hoi] at h
            cases h
          rcases hS.presenceOK mi fx hmem hp' with hc | hc | hc
          · -- implicit scalar: the zero value
            obtain ⟨hw, hz, hnorm⟩ := hS.implicitOK mi fx hmem hc
            obtain ⟨j, hj, hjn, hdj⟩ := dScalar_jScalar C L o D fx (defaultScalar fx.f) hw hne (hS.enums mi fx hmem).1
            simp only [hc, hj] at hu
            cases hu
            have hk := wfScalarJ_notMessage hw
            unfold dStep
            simp only
            rw [dHead_found_value D X mi limit _ _ _ _ fx hr hseen (by simp [hjn]) hsoo]
            simp only [hc, reduceCtorEq, or_self, if_false, hoi]
            rw [dFieldVal_singular C D X mi fx limit _ _ (by rw [hc]; decide) (by rw [hc]; decide)]
            simp only [hk, Bool.false_eq_true, if_false, hdj, hnorm, storeScalar, hm, Msg.fields, Msg.unknown]
            unfold setSingular
            simp only [hfo, hc, hz, decide_true, Bool.and_self, if_true]
            rw [erase_of_none _ _ hg]
          · -- repeated: []
            simp only [hc] at hu
            cases hu
            unfold dStep
            simp only
            rw [dHead_found_value D X mi limit _ _ _ _ fx hr hseen (by simp [JV.isNull]) hsoo]
            simp only [hc, true_or, if_true]
            rw [dFieldVal_repeated C D X mi fx limit _ _ hc]
            simp [dList, dElems, storeList, appendList_nil, hm, Msg.fields, Msg.unknown]
          · -- map: {}
            simp only [hc] at hu
            cases hu
            unfold dStep
            simp only
            rw [dHead_found_value D X mi limit _ _ _ _ fx hr hseen (by simp [JV.isNull]) hsoo]
            simp only [hc, or_true, if_true]
            rw [dFieldVal_map C D X mi fx limit _ _ hc]
            simp [dMap, dEntries, storeMap, hm, curVals, hg, setMap, Vals.isNil, Msg.fields, Msg.unknown]

end JT
