import PbVerif.Model.FastInit
/-
(a) `needsInitCheck`: specification (`Reaches`) and what the OLD code (before /repo 78c9443; model `needs`)
guaranteed (a `true` is always right; exact on acyclic schemas; never out of fuel) — historical; the walk of the
current code is in Lemmas/FastInitFixed.lean.  Core-only.
-/
namespace FastInit
open Pb

/-! ### specification -/

/-- `Reaches S xr i`: from message `i` a path through message-valued fields (map values included)
leads to a message with a required field or an extension range -/
inductive Reaches (S : Schema) (xr : Nat → Bool) : Nat → Prop
  | here {i : Nat} : own S xr i = true → Reaches S xr i
  | step {i j : Nat} : j ∈ succs S i → Reaches S xr j → Reaches S xr i

/-- a non-empty path in the message graph -/
inductive Path (S : Schema) : Nat → Nat → Prop
  | single {i j : Nat} : j ∈ succs S i → Path S i j
  | cons {i j k : Nat} : j ∈ succs S i → Path S j k → Path S i k

def Acyclic (S : Schema) : Prop := ∀ i, ¬ Path S i i

theorem Path.snoc {S : Schema} {i j k : Nat} (h : Path S i j) (hk : k ∈ succs S j) : Path S i k := by
  induction h with
  | single h1 => exact .cons h1 (.single hk)
  | cons h1 _ ih => exact .cons h1 (ih hk)

theorem reaches_iff {S : Schema} {xr : Nat → Bool} {i : Nat} :
    Reaches S xr i ↔ own S xr i = true ∨ ∃ j ∈ succs S i, Reaches S xr j := by
  constructor
  · intro h
    cases h with
    | here h => exact Or.inl h
    | step hj hr => exact Or.inr ⟨_, hj, hr⟩
  · rintro (h | ⟨j, hj, hr⟩)
    · exact .here h
    · exact .step hj hr

/-! ### the short-circuit loop as a relation -/

inductive OrRun {σ : Type} (f : σ → Nat → Option (Bool × σ)) : σ → List Nat → Bool → σ → Prop
  | nil (s : σ) : OrRun f s [] false s
  | hit {s : σ} {t : Nat} {ts : List Nat} {s' : σ} : f s t = some (true, s') → OrRun f s (t :: ts) true s'
  | miss {s : σ} {t : Nat} {ts : List Nat} {s1 : σ} {r : Bool} {s' : σ} :
      f s t = some (false, s1) → OrRun f s1 ts r s' → OrRun f s (t :: ts) r s'

theorem orList_run {σ : Type} {f : σ → Nat → Option (Bool × σ)} :
    ∀ {ts : List Nat} {s : σ} {r : Bool} {s' : σ}, orList f s ts = some (r, s') → OrRun f s ts r s'
  | [], s, r, s', h => by
    simp only [orList, Option.some.injEq, Prod.mk.injEq] at h
    obtain ⟨rfl, rfl⟩ := h
    exact .nil s
  | t :: ts, s, r, s', h => by
    rw [orList] at h
    split at h
    · cases h
    · rename_i s1 h1
      simp only [Option.some.injEq, Prod.mk.injEq] at h
      obtain ⟨rfl, rfl⟩ := h
      exact .hit h1
    · rename_i s1 h1
      exact .miss h1 (orList_run h)

/-- the loop does not get stuck when no iteration does -/
theorem orList_some {σ : Type} {f : σ → Nat → Option (Bool × σ)} (P : σ → Prop)
    (hf : ∀ s t, P s → ∃ r s', f s t = some (r, s') ∧ P s') :
    ∀ (ts : List Nat) (s : σ), P s → ∃ r s', orList f s ts = some (r, s') ∧ P s'
  | [], s, hs => ⟨false, s, rfl, hs⟩
  | t :: ts, s, hs => by
    obtain ⟨r, s1, h1, hp⟩ := hf s t hs
    rw [orList, h1]
    cases r with
    | true => exact ⟨true, s1, rfl, hp⟩
    | false => exact orList_some P hf ts s1 hp

/-! ### cache facts -/

@[simp] theorem Cache.set_same (c : Cache) (i : Nat) (e : Ent) : c.set i e i = some e := by simp [Cache.set]
theorem Cache.set_other (c : Cache) {i j : Nat} (e : Ent) (h : j ≠ i) : c.set i e j = c j := by simp [Cache.set, h]

/-- every cached `true` is right -/
def TrueOK (S : Schema) (xr : Nat → Bool) (c : Cache) : Prop := ∀ j, c j = some (.done true) → Reaches S xr j

/-- every cached `bool` is exact -/
def ExactC (S : Schema) (xr : Nat → Bool) (c : Cache) : Prop :=
  ∀ j b, c j = some (.done b) → (b = true ↔ Reaches S xr j)

def NoBusy (c : Cache) : Prop := ∀ j, c j ≠ some .busy

theorem TrueOK.set {S : Schema} {xr : Nat → Bool} {c : Cache} (h : TrueOK S xr c) (i : Nat) (e : Ent)
    (he : e = .done true → Reaches S xr i) : TrueOK S xr (c.set i e) := by
  intro j hj
  by_cases hji : j = i
  · subst hji; rw [Cache.set_same] at hj; exact he (Option.some.inj hj)
  · rw [Cache.set_other _ _ hji] at hj; exact h j hj

theorem ExactC.set {S : Schema} {xr : Nat → Bool} {c : Cache} (h : ExactC S xr c) (i : Nat) (e : Ent)
    (he : ∀ b, e = .done b → (b = true ↔ Reaches S xr i)) : ExactC S xr (c.set i e) := by
  intro j b hj
  by_cases hji : j = i
  · subst hji; rw [Cache.set_same] at hj; exact he b (Option.some.inj hj)
  · rw [Cache.set_other _ _ hji] at hj; exact h j b hj

/-! ### a returned or cached `true` is always right (any schema, any cache history) -/

theorem orRun_true_sound {S : Schema} {xr : Nat → Bool} {f : Cache → Nat → Option (Bool × Cache)}
    (hf : ∀ c t r c', TrueOK S xr c → f c t = some (r, c') → TrueOK S xr c' ∧ (r = true → Reaches S xr t))
    {c : Cache} {ts : List Nat} {r : Bool} {c' : Cache} (h : OrRun f c ts r c') :
    TrueOK S xr c → TrueOK S xr c' ∧ (r = true → ∃ t ∈ ts, Reaches S xr t) := by
  induction h with
  | nil s => intro hc; exact ⟨hc, by simp⟩
  | hit h1 =>
    intro hc
    obtain ⟨a, b⟩ := hf _ _ _ _ hc h1
    exact ⟨a, fun _ => ⟨_, by simp, b rfl⟩⟩
  | miss h1 _ ih =>
    intro hc
    obtain ⟨a, _⟩ := hf _ _ _ _ hc h1
    obtain ⟨a', b'⟩ := ih a
    refine ⟨a', fun hr => ?_⟩
    obtain ⟨t, ht, hrt⟩ := b' hr
    exact ⟨t, by simp [ht], hrt⟩

theorem needs_true_sound (S : Schema) (xr : Nat → Bool) : ∀ (fuel : Nat) (c : Cache) (i : Nat) (r : Bool) (c' : Cache),
    TrueOK S xr c → needs S xr fuel c i = some (r, c') → TrueOK S xr c' ∧ (r = true → Reaches S xr i)
  | 0, _, _, _, _, _, h => by simp [needs] at h
  | fuel + 1, c, i, r, c', hc, h => by
    rw [needs] at h
    split at h
    · rename_i b hb
      simp only [Option.some.injEq, Prod.mk.injEq] at h
      obtain ⟨rfl, rfl⟩ := h
      exact ⟨hc, fun hr => hc i (by rw [hb, hr])⟩
    · simp only [Option.some.injEq, Prod.mk.injEq] at h
      obtain ⟨rfl, rfl⟩ := h
      exact ⟨hc, by simp⟩
    · dsimp only at h
      split at h
      · rename_i hreq
        simp only [Option.some.injEq, Prod.mk.injEq] at h
        obtain ⟨rfl, rfl⟩ := h
        have hr : Reaches S xr i := .here (by simp [own, hreq])
        exact ⟨((hc.set i .busy (by simp)).set i _ (fun _ => hr)), fun _ => hr⟩
      · split at h
        · rename_i hx
          simp only [Option.some.injEq, Prod.mk.injEq] at h
          obtain ⟨rfl, rfl⟩ := h
          have hr : Reaches S xr i := .here (by simp [own, hx])
          exact ⟨((hc.set i .busy (by simp)).set i _ (fun _ => hr)), fun _ => hr⟩
        · split at h
          · cases h
          · rename_i r2 c2 hor
            simp only [Option.some.injEq, Prod.mk.injEq] at h
            obtain ⟨rfl, rfl⟩ := h
            obtain ⟨a, b⟩ := orRun_true_sound (needs_true_sound S xr fuel) (orList_run hor)
              (hc.set i .busy (by simp))
            have hr : r2 = true → Reaches S xr i := fun hr => by
              obtain ⟨t, ht, hrt⟩ := b hr
              exact .step ht hrt
            exact ⟨a.set i _ (fun e => hr (by cases e; rfl)), hr⟩

/-! ### on acyclic schemas the old code was exact -/

/-- the in-progress markers before and after a call are the same -/
def BusyFrame (c c' : Cache) : Prop := ∀ j, c' j = some .busy ↔ c j = some .busy

theorem BusyFrame.refl (c : Cache) : BusyFrame c c := fun _ => Iff.rfl
theorem BusyFrame.trans {a b c : Cache} (h1 : BusyFrame a b) (h2 : BusyFrame b c) : BusyFrame a c :=
  fun j => (h2 j).trans (h1 j)

theorem orRun_acyclic {S : Schema} {xr : Nat → Bool} {f : Cache → Nat → Option (Bool × Cache)} {i : Nat}
    (hf : ∀ c t r c', t ∈ succs S i → ExactC S xr c → (∀ j, c j = some .busy → j = i ∨ Path S j i) →
      f c t = some (r, c') → ExactC S xr c' ∧ BusyFrame c c' ∧ (r = true ↔ Reaches S xr t))
    {c : Cache} {ts : List Nat} {r : Bool} {c' : Cache} (h : OrRun f c ts r c') :
    (∀ t ∈ ts, t ∈ succs S i) → ExactC S xr c → (∀ j, c j = some .busy → j = i ∨ Path S j i) →
    ExactC S xr c' ∧ BusyFrame c c' ∧ (r = true → ∃ t ∈ ts, Reaches S xr t) ∧
      (r = false → ∀ t ∈ ts, ¬ Reaches S xr t) := by
  induction h with
  | nil s => intro _ hc _; exact ⟨hc, .refl _, by simp, by simp⟩
  | hit h1 =>
    intro hts hc hb
    obtain ⟨a, b, d⟩ := hf _ _ _ _ (hts _ (by simp)) hc hb h1
    exact ⟨a, b, fun _ => ⟨_, by simp, d.1 rfl⟩, by simp⟩
  | miss h1 _ ih =>
    intro hts hc hb
    obtain ⟨a, b, d⟩ := hf _ _ _ _ (hts _ (by simp)) hc hb h1
    obtain ⟨a', b', d1, d2⟩ := ih (fun t ht => hts t (by simp [ht])) a
      (fun j hj => hb j ((b j).1 hj))
    refine ⟨a', b.trans b', fun hr => ?_, fun hr t ht => ?_⟩
    · obtain ⟨t, ht, hrt⟩ := d1 hr
      exact ⟨t, by simp [ht], hrt⟩
    · rcases List.mem_cons.1 ht with rfl | ht
      · intro hrt; have := d.2 hrt; cases this
      · exact d2 hr t ht

theorem needs_acyclic (S : Schema) (xr : Nat → Bool) (hA : Acyclic S) :
    ∀ (fuel : Nat) (c : Cache) (i : Nat) (r : Bool) (c' : Cache),
    ExactC S xr c → (∀ j, c j = some .busy → Path S j i) → needs S xr fuel c i = some (r, c') →
    ExactC S xr c' ∧ BusyFrame c c' ∧ (r = true ↔ Reaches S xr i)
  | 0, _, _, _, _, _, _, h => by simp [needs] at h
  | fuel + 1, c, i, r, c', hc, hb, h => by
    rw [needs] at h
    split at h
    · rename_i b hcb
      simp only [Option.some.injEq, Prod.mk.injEq] at h
      obtain ⟨rfl, rfl⟩ := h
      exact ⟨hc, .refl _, hc i _ hcb⟩
    · rename_i hcb
      exact absurd (hb i hcb) (hA i)
    · rename_i hnone
      dsimp only at h
      have frame : ∀ (c2 : Cache) (e : Bool), BusyFrame (c.set i .busy) c2 → BusyFrame c (c2.set i (.done e)) := by
        intro c2 e hf j
        by_cases hji : j = i
        · subst hji; simp [hnone]
        · rw [Cache.set_other _ _ hji, hf j, Cache.set_other _ _ hji]
      split at h
      · rename_i hreq
        simp only [Option.some.injEq, Prod.mk.injEq] at h
        obtain ⟨rfl, rfl⟩ := h
        have hr : Reaches S xr i := .here (by simp [own, hreq])
        exact ⟨(hc.set i .busy (by simp)).set i _ (fun b hb => by cases hb; simp [hr]), frame _ _ (.refl _), by simp [hr]⟩
      · split at h
        · rename_i hx
          simp only [Option.some.injEq, Prod.mk.injEq] at h
          obtain ⟨rfl, rfl⟩ := h
          have hr : Reaches S xr i := .here (by simp [own, hx])
          exact ⟨(hc.set i .busy (by simp)).set i _ (fun b hb => by cases hb; simp [hr]), frame _ _ (.refl _), by simp [hr]⟩
        · rename_i hreq hx
          split at h
          · cases h
          · rename_i r2 c2 hor
            simp only [Option.some.injEq, Prod.mk.injEq] at h
            obtain ⟨rfl, rfl⟩ := h
            have hstep : ∀ c t r c', t ∈ succs S i → ExactC S xr c → (∀ j, c j = some .busy → j = i ∨ Path S j i) →
                needs S xr fuel c t = some (r, c') → ExactC S xr c' ∧ BusyFrame c c' ∧ (r = true ↔ Reaches S xr t) := by
              intro c0 t r0 c0' ht h0 hb0 hn
              refine needs_acyclic S xr hA fuel c0 t r0 c0' h0 (fun j hj => ?_) hn
              rcases hb0 j hj with rfl | hp
              · exact .single ht
              · exact hp.snoc ht
            obtain ⟨a, b, d1, d2⟩ := orRun_acyclic hstep (orList_run hor) (fun _ ht => ht)
              (hc.set i .busy (by simp))
              (fun j hj => by
                by_cases hji : j = i
                · exact Or.inl hji
                · rw [Cache.set_other _ _ hji] at hj; exact Or.inr (hb j hj))
            have hiff : r2 = true ↔ Reaches S xr i := by
              constructor
              · intro hr
                obtain ⟨t, ht, hrt⟩ := d1 hr
                exact .step ht hrt
              · intro hr
                rcases reaches_iff.1 hr with ho | ⟨j, hj, hrj⟩
                · simp [own, hreq, hx] at ho
                · cases hr2 : r2 with
                  | true => rfl
                  | false => exact absurd hrj (d2 hr2 j hj)
            exact ⟨a.set i _ (fun b hb => by cases hb; exact hiff), frame _ _ b, hiff⟩

/-! ### the fuel of `query` is never exhausted -/

theorem filter_length_le {l : List Nat} {p q : Nat → Bool} (h : ∀ j, q j = true → p j = true) :
    (l.filter q).length ≤ (l.filter p).length := by
  induction l with
  | nil => simp
  | cons a l ih =>
    simp only [List.filter_cons]
    cases hq : q a with
    | true => simp only [h a hq, if_true, List.length_cons]; omega
    | false =>
      simp only [Bool.false_eq_true, if_false]
      split
      · simp only [List.length_cons]; omega
      · exact ih

theorem filter_length_lt {l : List Nat} {p q : Nat → Bool} (h : ∀ j, q j = true → p j = true) {i : Nat}
    (hi : i ∈ l) (hp : p i = true) (hq : q i = false) : (l.filter q).length < (l.filter p).length := by
  induction l with
  | nil => cases hi
  | cons a l ih =>
    simp only [List.filter_cons]
    rcases List.mem_cons.1 hi with rfl | hi
    · have := filter_length_le (l := l) h
      simp only [hq, hp, Bool.false_eq_true, if_false, if_true, List.length_cons]; omega
    · have := ih hi
      cases hqa : q a with
      | true => simp only [h a hqa, if_true, List.length_cons]; omega
      | false =>
        simp only [Bool.false_eq_true, if_false]
        split
        · simp only [List.length_cons]; omega
        · exact this

theorem succs_out_of_range {S : Schema} {i : Nat} (h : S.msgs.length ≤ i) : succs S i = [] := by
  have : S.msg i = ⟨[]⟩ := by
    unfold Schema.msg
    rw [List.getD_eq_getElem?_getD, List.getElem?_eq_none h]; rfl
  simp [succs, this]

/-- messages of the schema without a cache entry -/
def unseenC (S : Schema) (c : Cache) : Nat := ((List.range S.msgs.length).filter fun j => (c j).isNone).length

def Grow (c c' : Cache) : Prop := ∀ j, (c j).isSome = true → (c' j).isSome = true

theorem Grow.unseen {S : Schema} {c c' : Cache} (h : Grow c c') : unseenC S c' ≤ unseenC S c := by
  apply filter_length_le
  intro j hj
  cases hc : c j with
  | none => rfl
  | some e => have := h j (by simp [hc]); cases hc' : c' j <;> simp_all

theorem Grow.set {c c' : Cache} (h : Grow c c') (i : Nat) (e : Ent) : Grow c (c'.set i e) := by
  intro j hj
  by_cases hji : j = i
  · subst hji; simp
  · rw [Cache.set_other _ _ hji]; exact h j hj

theorem needs_total (S : Schema) (xr : Nat → Bool) : ∀ (fuel : Nat) (c : Cache) (i : Nat),
    unseenC S c < fuel → ∃ r c', needs S xr fuel c i = some (r, c') ∧ Grow c c'
  | 0, _, _, h => by omega
  | fuel + 1, c, i, h => by
    rw [needs]
    split
    · exact ⟨_, _, rfl, fun _ hj => hj⟩
    · exact ⟨_, _, rfl, fun _ hj => hj⟩
    · rename_i hnone
      dsimp only
      have g1 : Grow c (c.set i .busy) := Grow.set (fun _ hj => hj) i _
      split
      · exact ⟨_, _, rfl, g1.set i _⟩
      · split
        · exact ⟨_, _, rfl, g1.set i _⟩
        · by_cases hi : i < S.msgs.length
          · have hlt : unseenC S (c.set i .busy) < unseenC S c := by
              apply filter_length_lt (i := i)
              · intro j hj
                cases hc : c j with
                | none => rfl
                | some e => have := g1 j (by simp [hc]); simp_all
              · simp [hi]
              · simp [hnone]
              · simp
            obtain ⟨r, c2, h2, g2⟩ := orList_some (f := needs S xr fuel) (fun s => Grow (c.set i .busy) s)
              (fun s t hs => by
                obtain ⟨r, s', h1, g⟩ := needs_total S xr fuel s t (by have := hs.unseen (S := S); omega)
                exact ⟨r, s', h1, fun j hj => g j (hs j hj)⟩)
              (succs S i) (c.set i .busy) (fun _ hj => hj)
            rw [h2]
            exact ⟨_, _, rfl, Grow.set (fun j hj => g2 j (g1 j hj)) i _⟩
          · rw [succs_out_of_range (by omega)]
            exact ⟨_, _, rfl, g1.set i _⟩

theorem query_total (S : Schema) (xr : Nat → Bool) (c : Cache) (i : Nat) :
    ∃ r c', query S xr c i = some (r, c') := by
  have : unseenC S c < S.msgs.length + 1 := by
    have : unseenC S c ≤ (List.range S.msgs.length).length := List.length_filter_le _ _
    simp at this; omega
  obtain ⟨r, c', h, _⟩ := needs_total S xr _ c i this
  exact ⟨r, c', h⟩

end FastInit
