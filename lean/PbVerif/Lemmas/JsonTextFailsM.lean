import PbVerif.Lemmas.JsonTextFails
import PbVerif.Lemmas.JsonTextRoundJM3
/-
When does protojson `marshalMessage` fail — including populated MAP fields (keys and values): the shape family
`ShapeMsgM` is `RepMsgM` with strings holding arbitrary bytes.
-/
namespace JT
open Pb

mutual
def ShapeMsgM (X : SchemaX) (mi : Nat) (limit : Int) : Msg → Prop
  | .mk fs _ =>
    1 ≤ limit ∧ (X.msg mi).wkt = false ∧ (X.msg mi).any = false ∧ OneofExcl (X.msg mi) fs ∧
      ShapeFieldsM X (X.msg mi) 0 (limit - 1) fs
def ShapeFieldsM (X : SchemaX) (d : MsgX) (lb : Nat) (limit : Int) : Fields → Prop
  | .nil => True
  | .cons num fv tl =>
    lb ≤ num ∧
    (match d.find num with
     | some fx => ShapeFValM X fx limit fv
     | none => False) ∧
    ShapeFieldsM X d (num + 1) limit tl
def ShapeFValM (X : SchemaX) (fx : FieldX) (limit : Int) : FVal → Prop
  | .one v =>
    fx.f.card ≠ .repeated ∧ fx.f.card ≠ .map ∧ ShapeValM X fx limit v ∧ ¬ (fx.f.card = .implicit ∧ v.isZero = true)
  | .many vs =>
    vs.isNil = false ∧
    ((fx.f.card = .repeated ∧ ShapeValsM X fx limit vs) ∨ (fx.f.card = .map ∧ ShapeEntriesM X fx limit vs))
def ShapeValM (X : SchemaX) (fx : FieldX) (limit : Int) : Val → Prop
  | .msg m => fx.f.kind.isMessage = true ∧ ShapeMsgM X fx.f.sub limit m
  | .num n => wfShapeJ fx (.num n) = true
  | .bytes b => wfShapeJ fx (.bytes b) = true
def ShapeValsM (X : SchemaX) (fx : FieldX) (limit : Int) : Vals → Prop
  | .nil => True
  | .cons v tl => ShapeValM X fx limit v ∧ ShapeValsM X fx limit tl
def ShapeEntriesM (X : SchemaX) (fx : FieldX) (limit : Int) : Vals → Prop
  | .nil => True
  | .cons e tl =>
    (match e with
     | .msg (.mk (.cons n1 (.one k) (.cons n2 (.one v) .nil)) _) =>
       n1 = 1 ∧ n2 = 2 ∧ lookupEntry tl k = none ∧
       (match (X.msg fx.f.sub).find 1, (X.msg fx.f.sub).find 2 with
        | some kf, some vf =>
          keyKindOK kf.f.kind = true ∧ wfShapeJ kf k = true ∧ ShapeValM X vf limit v
        | _, _ => False)
     | _ => False) ∧
    ShapeEntriesM X fx limit tl
end

/-- the JSON rendering of a key-kind scalar has a key string -/
theorem keyString_of_key (C : JCodec) (o : JOpts) (kf : FieldX) (k : Val) (jk : JV)
    (hk : keyKindOK kf.f.kind = true) (hj : jScalar C o kf k = .ok jk) : ∃ ks, keyString jk = some ks := by
  cases k with
  | msg m => simp [jScalar] at hj
  | bytes b =>
    cases hkk : kf.f.kind <;> simp only [hkk, keyKindOK] at hk <;> first | (cases hk; done) | skip
    all_goals
      (simp only [jScalar, hkk] at hj
       first
         | (cases hj; done)
         | (split at hj
            · cases hj; exact ⟨_, rfl⟩
            · cases hj))
  | num n =>
    cases hkk : kf.f.kind <;> simp only [hkk, keyKindOK] at hk <;> first | (cases hk; done) | skip
    all_goals
      (simp only [jScalar, hkk] at hj
       first | (cases hj; done) | (cases hj; exact ⟨_, rfl⟩))

theorem sequenceE_all_some {ε α β : Type} (f : α → Option β) (e : ε) : ∀ l : List α,
    (∀ x ∈ l, ∃ y, f x = some y) → ∃ ms, sequenceE (l.map f) e = .ok ms
  | [], _ => ⟨[], rfl⟩
  | x :: tl, h => by
    obtain ⟨y, hy⟩ := h x (by simp)
    obtain ⟨ms, hms⟩ := sequenceE_all_some f e tl (fun z hz => h z (by simp [hz]))
    exact ⟨y :: ms, by simp [sequenceE, hy, hms, Except.map]⟩

variable (C : JCodec) (o : JOpts) (X : SchemaX)

mutual
theorem failsJM_msg : ∀ (m : Msg) (mi : Nat) (limit : Int), ShapeMsgM X mi limit m →
    (∃ jv, jMsg C o X mi m = .ok jv ∧ RepMsgM X mi limit m) ∨
    (jMsg C o X mi m = .error .utf8 ∧ ¬ RepMsgM X mi limit m)
  | .mk fs unk, mi, limit, ⟨hlim, hwkt, hany, hex, hf⟩ => by
    rcases failsJM_fields fs mi 0 (limit - 1) hf with ⟨r, hr, hrep⟩ | ⟨he, hnrep⟩
    · exact .inl ⟨.obj (JMembers.ofList (assemble C o (X.msg mi) r)), by simp [jMsg, hwkt, hr], hlim, hwkt, hany, hex, hrep⟩
    · exact .inr ⟨by simp [jMsg, hwkt, he], fun h => hnrep h.2.2.2.2⟩
theorem failsJM_fields : ∀ (fs : Fields) (mi : Nat) (lb : Nat) (limit : Int),
    ShapeFieldsM X (X.msg mi) lb limit fs →
      (∃ r, jFields C o X (X.msg mi) fs = .ok r ∧ RepFieldsM X (X.msg mi) lb limit fs) ∨
      (jFields C o X (X.msg mi) fs = .error .utf8 ∧ ¬ RepFieldsM X (X.msg mi) lb limit fs)
  | .nil, _, _, _, _ => .inl ⟨[], rfl, trivial⟩
  | .cons num fv tl, mi, lb, limit, ⟨h1, h2, h3⟩ => by
    cases hf : (X.msg mi).find num with
    | none => rw [hf] at h2; exact h2.elim
    | some fx =>
      rw [hf] at h2
      rcases failsJM_fval fv fx limit h2 with ⟨jv, hj, hrep⟩ | ⟨he, hnrep⟩
      · rcases failsJM_fields tl mi (num + 1) limit h3 with ⟨r, hr, hrept⟩ | ⟨het, hnrept⟩
        · exact .inl ⟨(num, jv) :: r, by simp [jFields, hf, hj, hr], h1, by rw [hf]; exact hrep, hrept⟩
        · exact .inr ⟨by simp [jFields, hf, hj, het], fun h => hnrept h.2.2⟩
      · refine .inr ⟨by simp [jFields, hf, he], fun h => hnrep ?_⟩
        have := h.2.1
        rw [hf] at this
        exact this
theorem failsJM_fval : ∀ (fv : FVal) (fx : FieldX) (limit : Int), ShapeFValM X fx limit fv →
    (∃ jv, jFVal C o X fx fv = .ok jv ∧ RepFValM X fx limit fv) ∨
    (jFVal C o X fx fv = .error .utf8 ∧ ¬ RepFValM X fx limit fv)
  | .one v, fx, limit, ⟨hc1, hc2, hv, hz⟩ => by
    rcases failsJM_val v fx limit hv with ⟨jv, hj, hrep⟩ | ⟨he, hnrep⟩
    · exact .inl ⟨jv, by simp [jFVal, hj], hc1, hc2, hrep, hz⟩
    · exact .inr ⟨by simp [jFVal, he], fun h => hnrep h.2.2.1⟩
  | .many vs, fx, limit, ⟨hn, hcases⟩ => by
    rcases hcases with ⟨hc, hv⟩ | ⟨hc, hv⟩
    · have hnm : fx.f.card ≠ .map := by rw [hc]; decide
      rcases failsJM_vals vs fx limit hv with ⟨l, hl, hrep⟩ | ⟨he, hnrep⟩
      · exact .inl ⟨.arr (JElems.ofList l), by simp [jFVal, hnm, hl], hn, .inl ⟨hc, hrep⟩⟩
      · refine .inr ⟨by simp [jFVal, hnm, he], fun h => ?_⟩
        rcases h.2 with ⟨_, h2⟩ | ⟨hc2, _⟩
        · exact hnrep h2
        · rw [hc] at hc2; cases hc2
    · have hnr : fx.f.card ≠ .repeated := by rw [hc]; decide
      rcases failsJM_entries vs fx limit hv with ⟨es, hes, hmemb, hrep⟩ | ⟨he, hnrep⟩
      · generalize hless : keyLess (((X.msg fx.f.sub).find 1).map (·.f.kind) |>.getD .int32) = less
        have hall : ∀ e ∈ sortK less es, ∃ y, (fun e : Val × List (Nat × JV) => entryMember e.2) e = some y :=
          fun e he => hmemb e ((sortK_perm less es).mem_iff.mp he)
        obtain ⟨ms, hms⟩ := sequenceE_all_some (fun e : Val × List (Nat × JV) => entryMember e.2) EErr.shape _ hall
        exact .inl ⟨.obj (JMembers.ofList ms), by simp [jFVal, hc, hes, hless, hms], hn, .inr ⟨hc, hrep⟩⟩
      · refine .inr ⟨by simp [jFVal, hc, he], fun h => ?_⟩
        rcases h.2 with ⟨hc2, _⟩ | ⟨_, h2⟩
        · exact hnr hc2
        · exact hnrep h2
theorem failsJM_val : ∀ (v : Val) (fx : FieldX) (limit : Int), ShapeValM X fx limit v →
    (∃ jv, jVal C o X fx v = .ok jv ∧ RepValM X fx limit v) ∨
    (jVal C o X fx v = .error .utf8 ∧ ¬ RepValM X fx limit v)
  | .msg m, fx, limit, ⟨hk, hm⟩ => by
    rcases failsJM_msg m fx.f.sub limit hm with ⟨jv, hj, hrep⟩ | ⟨he, hnrep⟩
    · exact .inl ⟨jv, by simp [jVal, hk, hj], hk, hrep⟩
    · exact .inr ⟨by simp [jVal, hk, he], fun h => hnrep h.2⟩
  | .num n, fx, limit, hw => by
    rcases jScalar_dichotomy C o fx (.num n) hw with ⟨j, hj, hwf⟩ | ⟨he, hnwf⟩
    · exact .inl ⟨j, by simp [jVal, hj], hwf⟩
    · exact .inr ⟨by simp [jVal, he], by simp [RepValM, hnwf]⟩
  | .bytes b, fx, limit, hw => by
    rcases jScalar_dichotomy C o fx (.bytes b) hw with ⟨j, hj, hwf⟩ | ⟨he, hnwf⟩
    · exact .inl ⟨j, by simp [jVal, hj], hwf⟩
    · exact .inr ⟨by simp [jVal, he], by simp [RepValM, hnwf]⟩
theorem failsJM_vals : ∀ (vs : Vals) (fx : FieldX) (limit : Int), ShapeValsM X fx limit vs →
    (∃ l, jVals C o X fx vs = .ok l ∧ RepValsM X fx limit vs) ∨
    (jVals C o X fx vs = .error .utf8 ∧ ¬ RepValsM X fx limit vs)
  | .nil, _, _, _ => .inl ⟨[], rfl, trivial⟩
  | .cons v tl, fx, limit, ⟨hv, ht⟩ => by
    rcases failsJM_val v fx limit hv with ⟨jv, hj, hrep⟩ | ⟨he, hnrep⟩
    · rcases failsJM_vals tl fx limit ht with ⟨l, hl, hrept⟩ | ⟨het, hnrept⟩
      · exact .inl ⟨jv :: l, by simp [jVals, hj, hl], hrep, hrept⟩
      · exact .inr ⟨by simp [jVals, hj, het], fun h => hnrept h.2⟩
    · exact .inr ⟨by simp [jVals, he], fun h => hnrep h.1⟩
/-- map entries: every entry renders (key first, then value) and has a member, or a key or value string is bad -/
theorem failsJM_entries : ∀ (vs : Vals) (fx : FieldX) (limit : Int), ShapeEntriesM X fx limit vs →
    (∃ es, jEntries C o X (X.msg fx.f.sub) vs = .ok es ∧ (∀ e ∈ es, ∃ y, entryMember e.2 = some y) ∧
      RepEntriesM X fx limit vs) ∨
    (jEntries C o X (X.msg fx.f.sub) vs = .error .utf8 ∧ ¬ RepEntriesM X fx limit vs)
  | .nil, _, _, _ => .inl ⟨[], rfl, (fun _ h => by cases h), trivial⟩
  | .cons (.msg (.mk (.cons n1 (.one k) (.cons n2 (.one v) .nil)) u)) tl, fx, limit, ⟨⟨hn1, hn2, hfree, hE⟩, htl⟩ => by
    subst hn1
    subst hn2
    cases h1 : (X.msg fx.f.sub).find 1 with
    | none => simp [h1] at hE
    | some kf =>
      cases h2 : (X.msg fx.f.sub).find 2 with
      | none => simp [h1, h2] at hE
      | some vf =>
        simp only [h1, h2] at hE
        obtain ⟨hkk, hkw, hv⟩ := hE
        have hjvk : jVal C o X kf k = jScalar C o kf k := by
          cases k with
          | msg n => simp [wfShapeJ, wfScalarJ] at hkw
          | num n => rfl
          | bytes b => rfl
        have hek : entryKey (.mk (.cons 1 (.one k) (.cons 2 (.one v) .nil)) u) = some k := by
          simp [entryKey, Fields.get?]
        rcases jScalar_dichotomy C o kf k hkw with ⟨jk, hjk, hkwf⟩ | ⟨hke, hknwf⟩
        · obtain ⟨ks, hks⟩ := keyString_of_key C o kf k jk hkk hjk
          rcases failsJM_val v vf limit hv with ⟨jvv, hjv, hvrep⟩ | ⟨hve, hvnrep⟩
          · have hent : jEntry C o X (X.msg fx.f.sub) (.msg (.mk (.cons 1 (.one k) (.cons 2 (.one v) .nil)) u)) =
                .ok (k, [(1, jk), (2, jvv)]) := by
              simp [jEntry, jEntryMsg, hek, jFields, h1, h2, jFVal, hjvk, hjk, hjv]
            have hmemb : entryMember [(1, jk), (2, jvv)] = some (ks, jvv) := by
              simp [entryMember, lookupN, hks]
            rcases failsJM_entries tl fx limit htl with ⟨es, hes, hall, hrep⟩ | ⟨he, hnrep⟩
            · refine .inl ⟨(k, [(1, jk), (2, jvv)]) :: es, by rw [jEntries, hent]; simp [hes], ?_, ?_⟩
              · intro e he
                simp only [List.mem_cons] at he
                rcases he with rfl | he
                · exact ⟨_, hmemb⟩
                · exact hall e he
              · refine ⟨⟨rfl, rfl, hfree, ?_⟩, hrep⟩
                simp only [h1, h2]
                exact ⟨hkk, hkwf, hvrep⟩
            · exact .inr ⟨by rw [jEntries, hent]; simp [he], fun h => hnrep h.2⟩
          · refine .inr ⟨?_, fun h => ?_⟩
            · rw [jEntries]
              simp [jEntry, jEntryMsg, hek, jFields, h1, h2, jFVal, hjvk, hjk, hve]
            · have := h.1.2.2.2
              simp only [h1, h2] at this
              exact hvnrep this.2.2
        · refine .inr ⟨?_, fun h => ?_⟩
          · rw [jEntries]
            simp [jEntry, jEntryMsg, hek, jFields, h1, jFVal, hjvk, hke]
          · have := h.1.2.2.2
            simp only [h1, h2] at this
            rw [this.2.1] at hknwf
            cases hknwf
  | .cons (.num _) _, _, _, ⟨h, _⟩ => h.elim
  | .cons (.bytes _) _, _, _, ⟨h, _⟩ => h.elim
  | .cons (.msg (.mk .nil _)) _, _, _, ⟨h, _⟩ => h.elim
  | .cons (.msg (.mk (.cons _ (.many _) _) _)) _, _, _, ⟨h, _⟩ => h.elim
  | .cons (.msg (.mk (.cons _ (.one _) .nil) _)) _, _, _, ⟨h, _⟩ => h.elim
  | .cons (.msg (.mk (.cons _ (.one _) (.cons _ (.many _) _)) _)) _, _, _, ⟨h, _⟩ => h.elim
  | .cons (.msg (.mk (.cons _ (.one _) (.cons _ (.one _) (.cons _ _ _))) _)) _, _, _, ⟨h, _⟩ => h.elim
end

end JT
