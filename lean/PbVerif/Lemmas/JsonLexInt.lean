import PbVerif.Model.JsonLex
import PbVerif.Lemmas.JsonLexNumber
/-
Helper lemmas for C22: decimal digit strings, `strconv.ParseInt/ParseUint` (as modelled),
`normalizeToIntString`, `parseNumberParts`, and the value a number literal denotes.
-/
set_option linter.unusedSimpArgs false
namespace JsonLex
open RFC

/-! ### digit strings -/

/-- the value of one decimal digit -/
def digitVal (d : Byte) : Nat := d.toNat - 48

theorem digitVal_lt {d : Byte} (h : isDigit d = true) : digitVal d < 10 := by
  simp [isDigit] at h; unfold digitVal; bv_omega

theorem digitVal_eq_zero {d : Byte} (h : isDigit d = true) : digitVal d = 0 ↔ d = 0x30#8 := by
  simp [isDigit] at h; unfold digitVal; constructor <;> intro h' <;> bv_omega

theorem foldl_digits (ds : Bytes) (acc : Nat) :
    ds.foldl (fun a d => 10 * a + (d.toNat - 48)) acc = acc * 10 ^ ds.length + natOfDigits ds := by
  induction ds generalizing acc with
  | nil => simp [natOfDigits]
  | cons d t ih =>
    simp only [List.foldl_cons, List.length_cons, natOfDigits]
    rw [ih, ih (10 * 0 + (d.toNat - 48))]
    simp only [Nat.pow_succ, Nat.mul_zero, Nat.zero_add]
    rw [Nat.add_mul, Nat.add_assoc]; congr 1
    rw [Nat.mul_comm 10 acc, Nat.mul_assoc, Nat.mul_comm 10]

theorem natOfDigits_nil : natOfDigits [] = 0 := rfl

theorem natOfDigits_cons (d : Byte) (t : Bytes) :
    natOfDigits (d :: t) = digitVal d * 10 ^ t.length + natOfDigits t := by
  unfold natOfDigits digitVal
  rw [List.foldl_cons, foldl_digits]; simp [natOfDigits]

theorem natOfDigits_append (a b : Bytes) :
    natOfDigits (a ++ b) = natOfDigits a * 10 ^ b.length + natOfDigits b := by
  unfold natOfDigits
  rw [List.foldl_append, foldl_digits]; rfl

theorem natOfDigits_snoc (a : Bytes) (d : Byte) : natOfDigits (a ++ [d]) = natOfDigits a * 10 + digitVal d := by
  rw [natOfDigits_append, natOfDigits_cons]; simp [natOfDigits_nil]

theorem natOfDigits_zeros (n : Nat) : natOfDigits (List.replicate n 0x30#8) = 0 := by
  induction n with
  | zero => rfl
  | succ n ih => rw [List.replicate_succ, natOfDigits_cons, ih]; simp [digitVal]

theorem natOfDigits_lt {ds : Bytes} (h : AllDigits ds) : natOfDigits ds < 10 ^ ds.length := by
  induction ds with
  | nil => simp [natOfDigits_nil]
  | cons d t ih =>
    have hd := digitVal_lt (AllDigits.cons.1 h).1
    have ht := ih (AllDigits.cons.1 h).2
    rw [natOfDigits_cons, List.length_cons, Nat.pow_succ]
    have : digitVal d * 10 ^ t.length ≤ 9 * 10 ^ t.length := Nat.mul_le_mul_right _ (by omega)
    omega

theorem pow10_pos (n : Nat) : 0 < 10 ^ n := Nat.pow_pos (by decide)

/-- a digit string has value zero iff all its digits are `0` -/
theorem natOfDigits_eq_zero {ds : Bytes} (h : AllDigits ds) :
    natOfDigits ds = 0 ↔ ∀ d ∈ ds, d = 0x30#8 := by
  induction ds with
  | nil => simp [natOfDigits_nil]
  | cons d t ih =>
    have hd := (AllDigits.cons.1 h).1
    have ih' := ih (AllDigits.cons.1 h).2
    rw [natOfDigits_cons]
    constructor
    · intro h0
      have h1 : digitVal d * 10 ^ t.length = 0 := by omega
      have h2 : natOfDigits t = 0 := by omega
      have h3 : digitVal d = 0 := by
        rcases Nat.mul_eq_zero.1 h1 with h | h
        · exact h
        · exact absurd h (Nat.ne_of_gt (pow10_pos _))
      intro x hx
      rcases List.mem_cons.1 hx with rfl | hx
      · exact (digitVal_eq_zero hd).1 h3
      · exact ih'.1 h2 x hx
    · intro hall
      have h3 : digitVal d = 0 := (digitVal_eq_zero hd).2 (hall d (List.mem_cons_self ..))
      have h2 : natOfDigits t = 0 := ih'.2 (fun x hx => hall x (List.mem_cons_of_mem _ hx))
      rw [h3, h2]; simp

/-- a digit string starting with a non-zero digit has a non-zero value -/
theorem natOfDigits_pos_of_head {d : Byte} {t : Bytes} (hd : isDigit d = true) (hne : d ≠ 0x30#8) :
    0 < natOfDigits (d :: t) := by
  rw [natOfDigits_cons]
  have : digitVal d ≠ 0 := fun h => hne ((digitVal_eq_zero hd).1 h)
  have : 1 ≤ digitVal d := by omega
  have := Nat.mul_le_mul_right (10 ^ t.length) this
  have := pow10_pos t.length
  omega

/-- a digit string ending in a non-zero digit has a value not divisible by ten -/
theorem natOfDigits_mod_ten {a : Bytes} {d : Byte} (hd : isDigit d = true) (hne : d ≠ 0x30#8) :
    natOfDigits (a ++ [d]) % 10 ≠ 0 := by
  rw [natOfDigits_snoc]
  have h1 := digitVal_lt hd
  have h2 : digitVal d ≠ 0 := fun h => hne ((digitVal_eq_zero hd).1 h)
  omega

theorem allZero_iff {ds : Bytes} : ds.all (· == 0x30#8) = true ↔ ∀ d ∈ ds, d = 0x30#8 := by
  simp [List.all_eq_true]

/-! ### strconv.ParseInt / ParseUint on integer spellings -/

/-- `s` is a decimal spelling of the integer `v`: a `-` exactly when `v < 0`, then at least one digit
(leading zeros allowed, as `normalizeToIntString` may produce them) -/
def SpellsInt (s : Bytes) (v : Int) : Prop :=
  ∃ ds, ds ≠ [] ∧ AllDigits ds ∧ natOfDigits ds = v.natAbs ∧ s = (if v < 0 then 0x2d#8 :: ds else ds)

theorem allDigits_all {ds : Bytes} (h : AllDigits ds) : ds.all isDigit = true :=
  List.all_eq_true.2 h

theorem SpellsInt.unique {s : Bytes} {v w : Int} (hv : SpellsInt s v) (hw : SpellsInt s w) : v = w := by
  obtain ⟨ds, hne, hd, hn, hs⟩ := hv
  obtain ⟨ds', hne', hd', hn', hs'⟩ := hw
  have hhead : ∀ {x : Bytes}, x ≠ [] → AllDigits x → ∀ t, x ≠ 0x2d#8 :: t := by
    intro x hx hxd t hxt
    subst hxt
    have := (AllDigits.cons.1 hxd).1
    revert this; decide
  by_cases h1 : v < 0 <;> by_cases h2 : w < 0
  · rw [if_pos h1] at hs; rw [if_pos h2] at hs'
    have : ds = ds' := by rw [hs] at hs'; simpa using hs'
    subst this; omega
  · rw [if_pos h1] at hs; rw [if_neg h2] at hs'
    exact absurd (hs'.symm.trans hs) (hhead hne' hd' ds)
  · rw [if_neg h1] at hs; rw [if_pos h2] at hs'
    exact absurd (hs.symm.trans hs') (hhead hne hd ds')
  · rw [if_neg h1] at hs; rw [if_neg h2] at hs'
    have : ds = ds' := hs.symm.trans hs'
    subst this; omega

theorem parseIntBits_spells (bits : Nat) {s : Bytes} {v : Int} (h : SpellsInt s v) :
    parseIntBits bits s =
      if -((2 : Int) ^ (bits - 1)) ≤ v ∧ v < (2 : Int) ^ (bits - 1) then some v else none := by
  obtain ⟨ds, hne, hd, hn, rfl⟩ := h
  obtain ⟨c, t, rfl⟩ := List.exists_cons_of_ne_nil hne
  have hc := (AllDigits.cons.1 hd).1
  have hpow : ((2 ^ (bits - 1) : Nat) : Int) = (2 : Int) ^ (bits - 1) := by simp
  by_cases hv : v < 0
  · rw [if_pos hv]
    simp only [parseIntBits, true_and, or_true, if_true, decide_true, List.isEmpty_cons, Bool.false_eq_true,
      if_false, allDigits_all hd]
    rw [hn]
    by_cases hr : v.natAbs ≤ 2 ^ (bits - 1)
    · rw [if_pos hr, if_pos (by constructor <;> omega)]; congr 1; omega
    · rw [if_neg hr, if_neg (by omega)]
  · rw [if_neg hv]
    have h1 := digit_ne_minus c hc
    have h2 := digit_ne_plus c hc
    simp only [parseIntBits, h1, h2, or_self, if_false, decide_false, List.isEmpty_cons, Bool.false_eq_true,
      allDigits_all hd, if_true]
    rw [hn]
    by_cases hr : v.natAbs < 2 ^ (bits - 1)
    · rw [if_pos hr, if_pos (by constructor <;> omega)]; congr 1; omega
    · rw [if_neg hr, if_neg (by omega)]

theorem parseUintBits_spells (bits : Nat) {s : Bytes} {v : Int} (h : SpellsInt s v) :
    parseUintBits bits s = if 0 ≤ v ∧ v < (2 : Int) ^ bits then some v.toNat else none := by
  obtain ⟨ds, hne, hd, hn, rfl⟩ := h
  have hpow : ((2 ^ bits : Nat) : Int) = (2 : Int) ^ bits := by simp
  by_cases hv : v < 0
  · rw [if_pos hv, if_neg (by omega)]
    have : (0x2d#8 :: ds).all isDigit = false := by simp [isDigit]
    simp [parseUintBits, this]
  · rw [if_neg hv]
    have hemp : ds.isEmpty = false := by cases ds <;> simp at hne ⊢
    simp only [parseUintBits, hemp, Bool.false_eq_true, if_false, allDigits_all hd, if_true]
    rw [hn]
    by_cases hr : v.natAbs < 2 ^ bits
    · rw [if_pos hr, if_pos (by constructor <;> omega)]; congr 1; omega
    · rw [if_neg hr, if_neg (by omega)]

/-! ### the value of sign · mantissa · 10^k -/

/-- `v = (-1)^neg · M · 10^k` for an integer `v` (no division: both sides are scaled to integers) -/
def DecValue (neg : Bool) (M : Nat) (k : Int) (v : Int) : Prop :=
  v * 10 ^ (-k).toNat = (if neg then -(M : Int) else (M : Int)) * 10 ^ k.toNat

theorem int_pow10_ne_zero (n : Nat) : (10 : Int) ^ n ≠ 0 := by
  have := pow10_pos n
  have h : ((10 ^ n : Nat) : Int) = (10 : Int) ^ n := by simp
  rw [← h]; omega

/-- any way of writing `k = a - b` gives the same equation -/
theorem decValue_iff {neg : Bool} {M : Nat} {k v : Int} (a b : Nat) (h : k = (a : Int) - b) :
    DecValue neg M k v ↔ v * 10 ^ b = (if neg then -(M : Int) else (M : Int)) * 10 ^ a := by
  unfold DecValue
  generalize (if neg then -(M : Int) else (M : Int)) = x
  -- a = k⁺ + c, b = k⁻ + c
  obtain ⟨c, ha, hb⟩ : ∃ c : Nat, a = k.toNat + c ∧ b = (-k).toNat + c := by
    refine ⟨a - k.toNat, ?_, ?_⟩ <;> omega
  rw [ha, hb, Int.pow_add, Int.pow_add, ← Int.mul_assoc, ← Int.mul_assoc]
  exact (Int.mul_eq_mul_right_iff (int_pow10_ne_zero c)).symm

theorem DecValue.unique {neg : Bool} {M : Nat} {k v w : Int} (hv : DecValue neg M k v) (hw : DecValue neg M k w) :
    v = w := by
  unfold DecValue at hv hw
  exact Int.eq_of_mul_eq_mul_right (int_pow10_ne_zero _) (hv.trans hw.symm)

theorem decValue_zero {neg : Bool} {k v : Int} : DecValue neg 0 k v ↔ v = 0 := by
  unfold DecValue
  have : (if neg then -((0 : Nat) : Int) else ((0 : Nat) : Int)) = 0 := by cases neg <;> simp
  rw [this, Int.zero_mul]
  constructor
  · intro h
    rcases Int.mul_eq_zero.1 h with h | h
    · exact h
    · exact absurd h (int_pow10_ne_zero _)
  · intro h; rw [h, Int.zero_mul]

/-- scaling the mantissa by a power of ten is the same as raising the exponent -/
theorem decValue_shift {neg : Bool} {M : Nat} {k v : Int} (z : Nat) :
    DecValue neg (M * 10 ^ z) k v ↔ DecValue neg M (k + z) v := by
  have h1 := decValue_iff (neg := neg) (M := M * 10 ^ z) (k := k) (v := v) (k + z).toNat ((-(k + z)).toNat + z)
    (by omega)
  have h2 := decValue_iff (neg := neg) (M := M) (k := k + z) (v := v) (k + z).toNat (-(k + z)).toNat (by omega)
  rw [h1, h2]
  have : (if neg then -((M * 10 ^ z : Nat) : Int) else ((M * 10 ^ z : Nat) : Int)) =
      (if neg then -(M : Int) else (M : Int)) * 10 ^ z := by
    cases neg <;> simp [Int.neg_mul]
  rw [this, Int.pow_add, ← Int.mul_assoc]
  generalize (if neg then -(M : Int) else (M : Int)) = x
  have comm : x * 10 ^ z * 10 ^ (k + ↑z).toNat = x * 10 ^ (k + ↑z).toNat * 10 ^ z := by
    rw [Int.mul_assoc, Int.mul_assoc, Int.mul_comm (10 ^ z)]
  rw [comm]
  exact Int.mul_eq_mul_right_iff (int_pow10_ne_zero z)

/-! ### numberParts: well-formedness, value, guard -/

/-- the `exp` field: empty, or an optional sign and at least one digit -/
inductive ExpStr : Bytes → Prop
  | none : ExpStr []
  | some (sg ds : Bytes) : SignOpt sg → ds ≠ [] → AllDigits ds → ExpStr (sg ++ ds)

/-- the integer an `exp` field denotes (of any size) -/
def expInt (x : Bytes) : Int :=
  match x with
  | [] => 0
  | c :: t =>
    if c = 0x2d#8 then -(natOfDigits t : Int)
    else if c = 0x2b#8 then (natOfDigits t : Int)
    else (natOfDigits (c :: t) : Int)

/-- what `parseNumberParts` guarantees about its result -/
structure PartsWF (p : NumberParts) : Prop where
  intp : AllDigits p.intp
  intpHead : ∀ c t, p.intp = c :: t → c ≠ 0x30#8
  frac : AllDigits p.frac
  fracLast : ∀ a d, p.frac = a ++ [d] → d ≠ 0x30#8
  exp : ExpStr p.exp

def partsM (p : NumberParts) : Nat := natOfDigits (p.intp ++ p.frac)
def partsK (p : NumberParts) : Int := expInt p.exp - p.frac.length

/-- the integer `v` is the value `±intp.frac · 10^exp` of the parts -/
def PartsValue (p : NumberParts) (v : Int) : Prop := DecValue p.neg (partsM p) (partsK p) v

/-- `lead` of `normalizeToIntString`: the leading zeros of the fraction when there is no integer part -/
def partsLead (p : NumberParts) : Nat := if p.intp.length = 0 then leadZeros p.frac else 0

/-- the size guards of `normalizeToIntString`: unless the mantissa is empty (value 0), the exponent
must fit in an int32 and, when it is non-negative, `len(intp) + exp - lead ≤ 20` -/
def PartsGuard (p : NumberParts) : Prop :=
  (p.intp = [] ∧ p.frac = []) ∨
  (-((2 : Int) ^ 31) ≤ expInt p.exp ∧ expInt p.exp < (2 : Int) ^ 31 ∧
    (0 ≤ expInt p.exp → (p.intp.length : Int) + expInt p.exp - (partsLead p : Int) ≤ 20))

theorem length_takeWhile_le {α} (q : α → Bool) (l : List α) : (l.takeWhile q).length ≤ l.length := by
  induction l with
  | nil => simp
  | cons a t ih =>
    by_cases h : q a = true
    · rw [List.takeWhile_cons_of_pos h]; simp; omega
    · rw [List.takeWhile_cons_of_neg h]; simp

/-- `s` is `leadZeros s` zeros followed by something that does not start with a zero -/
theorem leadZeros_split (s : Bytes) : s = List.replicate (leadZeros s) 0x30#8 ++ s.drop (leadZeros s) ∧
    (∀ c t, s.drop (leadZeros s) = c :: t → c ≠ 0x30#8) := by
  unfold leadZeros
  induction s with
  | nil => simp
  | cons c t ih =>
    by_cases hc : c = 0x30#8
    · rw [List.takeWhile_cons_of_pos (by simp [hc])]
      simp only [List.length_cons, List.replicate_succ, List.drop_succ_cons, List.cons_append]
      exact ⟨by rw [← ih.1, hc], ih.2⟩
    · rw [List.takeWhile_cons_of_neg (by simp [hc])]
      simp only [List.length_nil, List.replicate_zero, List.drop_zero, List.nil_append, true_and]
      intro c' t' h; simp at h; rw [← h.1]; exact hc

theorem natOfDigits_zeros_append (z : Nat) (x : Bytes) : natOfDigits (List.replicate z 0x30#8 ++ x) = natOfDigits x := by
  rw [natOfDigits_append, natOfDigits_zeros]; simp

theorem natOfDigits_ge_of_head {d : Byte} {t : Bytes} (hd : isDigit d = true) (hne : d ≠ 0x30#8) :
    10 ^ t.length ≤ natOfDigits (d :: t) := by
  rw [natOfDigits_cons]
  have : digitVal d ≠ 0 := fun h => hne ((digitVal_eq_zero hd).1 h)
  have h1 : 1 ≤ digitVal d := by omega
  have := Nat.mul_le_mul_right (10 ^ t.length) h1
  omega

theorem parseIntBits_expStr {x : Bytes} (h : ExpStr x) (hne : x ≠ []) :
    parseIntBits 32 x =
      if -((2 : Int) ^ 31) ≤ expInt x ∧ expInt x < (2 : Int) ^ 31 then some (expInt x) else none := by
  cases h with
  | none => exact absurd rfl hne
  | some sg ds hsg hds hd =>
    obtain ⟨c, t, rfl⟩ := List.exists_cons_of_ne_nil hds
    have hc := (AllDigits.cons.1 hd).1
    have hemp : (c :: t).isEmpty = false := rfl
    cases hsg with
    | none =>
      have h1 := digit_ne_minus c hc
      have h2 := digit_ne_plus c hc
      simp only [List.nil_append, parseIntBits, expInt, h1, h2, or_self, if_false, decide_false, hemp,
        Bool.false_eq_true, allDigits_all hd, if_true]
      by_cases hr : natOfDigits (c :: t) < 2 ^ (32 - 1)
      · rw [if_pos hr, if_pos (by constructor <;> omega)]
      · rw [if_neg hr, if_neg (by omega)]
    | plus =>
      have hpm : ((0x2b#8 : Byte) = 0x2d#8) = False := by decide
      simp only [List.cons_append, List.nil_append, parseIntBits, expInt, hpm, true_or, if_true, hemp,
        Bool.false_eq_true, if_false, allDigits_all hd, decide_false]
      by_cases hr : natOfDigits (c :: t) < 2 ^ (32 - 1)
      · rw [if_pos hr, if_pos (by constructor <;> omega)]
      · rw [if_neg hr, if_neg (by omega)]
    | minus =>
      simp only [List.cons_append, List.nil_append, parseIntBits, expInt, or_true, if_true, hemp,
        Bool.false_eq_true, if_false, allDigits_all hd, decide_true]
      by_cases hr : natOfDigits (c :: t) ≤ 2 ^ (32 - 1)
      · rw [if_pos hr, if_pos (by constructor <;> omega)]
      · rw [if_neg hr, if_neg (by omega)]

theorem partsM_ne_zero {p : NumberParts} (hwf : PartsWF p) (h : ¬ (p.intp = [] ∧ p.frac = [])) : partsM p ≠ 0 := by
  unfold partsM
  by_cases hi : p.intp = []
  · have hf : p.frac ≠ [] := fun hf => h ⟨hi, hf⟩
    rcases List.eq_nil_or_concat p.frac with hf' | ⟨a, d, hf'⟩ <;> try rw [List.concat_eq_append] at hf'
    · exact absurd hf' hf
    · have hd : isDigit d = true := hwf.frac d (by rw [hf']; simp)
      have := natOfDigits_mod_ten (a := p.intp ++ a) hd (hwf.fracLast a d hf')
      rw [hf', ← List.append_assoc]; omega
  · obtain ⟨c, t, hct⟩ := List.exists_cons_of_ne_nil hi
    have hc : isDigit c = true := hwf.intp c (by rw [hct]; simp)
    have := natOfDigits_pos_of_head (t := t ++ p.frac) hc (hwf.intpHead c t hct)
    rw [hct, List.cons_append]; omega

theorem partsM_mod_ten {p : NumberParts} (hwf : PartsWF p) (h : p.frac ≠ []) : partsM p % 10 ≠ 0 := by
  unfold partsM
  rcases List.eq_nil_or_concat p.frac with hf' | ⟨a, d, hf'⟩ <;> try rw [List.concat_eq_append] at hf'
  · exact absurd hf' h
  · have hd : isDigit d = true := hwf.frac d (by rw [hf']; simp)
    have := natOfDigits_mod_ten (a := p.intp ++ a) hd (hwf.fracLast a d hf')
    rw [hf', ← List.append_assoc]; exact this

theorem sgn_natAbs (neg : Bool) (M : Nat) : (if neg then -(M : Int) else (M : Int)).natAbs = M := by
  cases neg <;> simp

/-- value for a non-negative scale -/
theorem decValue_nonneg {neg : Bool} {M : Nat} {k v : Int} (hk : 0 ≤ k) :
    DecValue neg M k v ↔ v = (if neg then -(M : Int) else (M : Int)) * 10 ^ k.toNat := by
  rw [decValue_iff k.toNat 0 (by omega)]; simp

/-- value for a negative scale: the mantissa must be divisible -/
theorem decValue_neg {neg : Bool} {M : Nat} {k v : Int} (hk : k < 0) :
    DecValue neg M k v ↔ v * 10 ^ (-k).toNat = (if neg then -(M : Int) else (M : Int)) := by
  rw [decValue_iff 0 (-k).toNat (by omega)]; simp

theorem decValue_neg_dvd {neg : Bool} {M : Nat} {k v : Int} (hk : k < 0) (h : DecValue neg M k v) :
    10 ^ (-k).toNat ∣ M := by
  rw [decValue_neg hk] at h
  have := congrArg Int.natAbs h
  rw [Int.natAbs_mul, sgn_natAbs, Int.natAbs_pow] at this
  exact ⟨v.natAbs, by rw [← this, Nat.mul_comm]; rfl⟩

theorem not_dvd_of_mod_ten {M n : Nat} (hM : M % 10 ≠ 0) (hn : 1 ≤ n) : ¬ 10 ^ n ∣ M := by
  intro h
  obtain ⟨m, rfl⟩ : ∃ m, n = m + 1 := ⟨n - 1, by omega⟩
  rw [Nat.pow_succ] at h
  have : 10 ∣ M := Nat.dvd_trans ⟨10 ^ m, Nat.mul_comm _ _⟩ h
  omega

/-- a spelling: optional minus sign and digits -/
theorem spellsInt_mk (neg : Bool) (ds : Bytes) (hne : ds ≠ []) (hd : AllDigits ds)
    (hN : natOfDigits ds ≠ 0 ∨ neg = false) :
    SpellsInt ((if neg then [0x2d#8] else []) ++ ds)
      ((if neg then -((natOfDigits ds : Nat) : Int) else ((natOfDigits ds : Nat) : Int))) := by
  refine ⟨ds, hne, hd, (sgn_natAbs neg _).symm, ?_⟩
  cases neg
  · simp
  · have : natOfDigits ds ≠ 0 := by rcases hN with h | h <;> simp_all
    have hlt : -((natOfDigits ds : Nat) : Int) < 0 := by omega
    simp [hlt]; exact this

/-! ### normalizeToIntString -/

theorem allDigits_of_sublist {a b : Bytes} (h : AllDigits b) (hs : ∀ d ∈ a, d ∈ b) : AllDigits a :=
  fun d hd => h d (hs d hd)

theorem sgn_mul_cast (neg : Bool) (A B : Nat) :
    (if neg then -((A * B : Nat) : Int) else ((A * B : Nat) : Int)) =
      (if neg then -(A : Int) else (A : Int)) * (B : Int) := by
  cases neg <;> simp [Int.neg_mul]

/-- **normalizeToIntString, exactly**: on well-formed parts it fails iff the parts have no integer
value or a size guard fires; otherwise it returns a decimal spelling of that value. -/
theorem normalize_core (p : NumberParts) (hwf : PartsWF p) :
    match normalizeToIntString p with
    | none => ¬ ∃ v, PartsValue p v ∧ PartsGuard p
    | some s => ∃ v, PartsValue p v ∧ PartsGuard p ∧ SpellsInt s v := by
  unfold normalizeToIntString
  simp only
  by_cases h0 : p.intp.length = 0 ∧ p.frac.length = 0
  · rw [if_pos h0]
    have hi : p.intp = [] := List.length_eq_zero_iff.1 h0.1
    have hf : p.frac = [] := List.length_eq_zero_iff.1 h0.2
    refine ⟨0, ?_, Or.inl ⟨hi, hf⟩, ⟨[0x30#8], by simp, ?_, by decide, by simp⟩⟩
    · unfold PartsValue partsM; rw [hi, hf]; exact decValue_zero.2 rfl
    · intro d hd; simp at hd; subst hd; decide
  · rw [if_neg h0]
    have hne : ¬ (p.intp = [] ∧ p.frac = []) := by
      intro h; exact h0 ⟨by rw [h.1]; rfl, by rw [h.2]; rfl⟩
    have hM := partsM_ne_zero hwf hne
    have hexp : (if p.exp.length > 0 then parseIntBits 32 p.exp else some 0) =
        if -((2 : Int) ^ 31) ≤ expInt p.exp ∧ expInt p.exp < (2 : Int) ^ 31 then some (expInt p.exp) else none := by
      by_cases he : p.exp = []
      · rw [he]; simp [expInt]
      · have : p.exp.length > 0 := List.length_pos_iff.2 he
        rw [if_pos this, parseIntBits_expStr hwf.exp he]
    rw [hexp]
    by_cases hr : -((2 : Int) ^ 31) ≤ expInt p.exp ∧ expInt p.exp < (2 : Int) ^ 31
    · rw [if_pos hr]
      simp only
      generalize hx : expInt p.exp = x at hr
      have hK : partsK p = x - p.frac.length := by unfold partsK; rw [hx]
      by_cases hx0 : x ≥ 0
      · rw [if_pos hx0]
        by_cases hfl : (p.frac.length : Int) > x
        · -- more fraction digits than the exponent moves: not an integer
          rw [if_pos hfl]
          rintro ⟨v, hv, _⟩
          have hfne : p.frac ≠ [] := by intro h; rw [h] at hfl; simp at hfl; omega
          have hk : partsK p < 0 := by omega
          have := decValue_neg_dvd hk hv
          exact not_dvd_of_mod_ten (partsM_mod_ten hwf hfne) (by omega) this
        · rw [if_neg hfl]
          have hleadle : partsLead p ≤ p.frac.length := by
            unfold partsLead leadZeros
            split
            · exact length_takeWhile_le _ _
            · omega
          have hlead : (if p.intp.length = 0 then leadZeros p.frac else 0) = partsLead p := rfl
          simp only [hlead]
          by_cases hg : (p.intp.length : Int) + x - (partsLead p : Int) > 20
          · rw [if_pos hg]
            rintro ⟨v, _, hgd⟩
            rcases hgd with h | ⟨_, _, h⟩
            · exact hne h
            · rw [hx] at h; have := h hx0; omega
          · rw [if_neg hg]
            -- accepted: intp ++ frac[lead:] ++ zeros
            let z := x.toNat - p.frac.length
            have hfracsplit := leadZeros_split p.frac
            have hdropd : AllDigits (p.frac.drop (partsLead p)) :=
              allDigits_of_sublist hwf.frac (fun d hd => List.mem_of_mem_drop hd)
            have hds : AllDigits (p.intp ++ (p.frac.drop (partsLead p) ++ List.replicate z 0x30#8)) := by
              refine AllDigits.append.2 ⟨hwf.intp, AllDigits.append.2 ⟨hdropd, ?_⟩⟩
              intro d hd; rw [List.eq_of_mem_replicate hd]; decide
            have hMlead : natOfDigits (p.intp ++ p.frac.drop (partsLead p)) = partsM p := by
              unfold partsM partsLead
              split
              next h0' =>
                have hi : p.intp = [] := List.length_eq_zero_iff.1 h0'
                rw [hi, List.nil_append, List.nil_append]
                conv => rhs; rw [hfracsplit.1]
                rw [natOfDigits_zeros_append]
              next => simp
            have hN : natOfDigits (p.intp ++ (p.frac.drop (partsLead p) ++ List.replicate z 0x30#8)) = partsM p * 10 ^ z := by
              rw [← List.append_assoc, natOfDigits_append, natOfDigits_zeros, hMlead]; simp
            have hNz : natOfDigits (p.intp ++ (p.frac.drop (partsLead p) ++ List.replicate z 0x30#8)) ≠ 0 := by
              rw [hN]; exact Nat.mul_ne_zero hM (Nat.ne_of_gt (pow10_pos z))
            have hne' : p.intp ++ (p.frac.drop (partsLead p) ++ List.replicate z 0x30#8) ≠ [] := by
              intro h; rw [h] at hNz; exact hNz rfl
            have hsp := spellsInt_mk p.neg _ hne' hds (Or.inl hNz)
            refine ⟨_, ?_, Or.inr ⟨by rw [hx]; exact hr.1, by rw [hx]; exact hr.2, by rw [hx]; intro _; omega⟩, hsp⟩
            unfold PartsValue
            have hk0 : 0 ≤ partsK p := by omega
            rw [decValue_nonneg hk0, hN, sgn_mul_cast]
            have : (partsK p).toNat = z := by omega
            rw [this]; simp
      · rw [if_neg hx0]
        by_cases hfl : p.frac.length > 0
        · rw [if_pos hfl]
          rintro ⟨v, hv, _⟩
          have hfne : p.frac ≠ [] := List.length_pos_iff.1 hfl
          have hk : partsK p < 0 := by omega
          have := decValue_neg_dvd hk hv
          exact not_dvd_of_mod_ten (partsM_mod_ten hwf hfne) (by omega) this
        · rw [if_neg hfl]
          have hf : p.frac = [] := List.length_eq_zero_iff.1 (by omega)
          have hi : p.intp ≠ [] := fun h => hne ⟨h, hf⟩
          have hMi : partsM p = natOfDigits p.intp := by unfold partsM; rw [hf]; simp
          have hk : partsK p = x := by rw [hK, hf]; simp
          have hkneg : partsK p < 0 := by omega
          let n := (-x).toNat
          have hn : (-(partsK p)).toNat = n := by rw [hk]
          by_cases hidx : (p.intp.length : Int) + x < 0
          · rw [if_pos hidx]
            rintro ⟨v, hv, _⟩
            have hdvd := decValue_neg_dvd hkneg hv
            rw [hn] at hdvd
            have hlt := natOfDigits_lt hwf.intp
            have hle := Nat.le_of_dvd (Nat.pos_of_ne_zero hM) hdvd
            have : 10 ^ p.intp.length < 10 ^ n := Nat.pow_lt_pow_right (by decide) (by omega)
            omega
          · rw [if_neg hidx]
            let idx := ((p.intp.length : Int) + x).toNat
            have hidxn : idx + n = p.intp.length := by omega
            have hsplit : p.intp = p.intp.take idx ++ p.intp.drop idx := (List.take_append_drop idx p.intp).symm
            have hdl : (p.intp.drop idx).length = n := by rw [List.length_drop]; omega
            have hdd : AllDigits (p.intp.drop idx) :=
              allDigits_of_sublist hwf.intp (fun d hd => List.mem_of_mem_drop hd)
            have htd : AllDigits (p.intp.take idx) :=
              allDigits_of_sublist hwf.intp (fun d hd => List.mem_of_mem_take hd)
            have hMsplit : partsM p = natOfDigits (p.intp.take idx) * 10 ^ n + natOfDigits (p.intp.drop idx) := by
              rw [hMi]; conv => lhs; rw [hsplit]
              rw [natOfDigits_append, hdl]
            by_cases hz : (p.intp.drop idx).all (· == 0x30#8) = true
            · rw [if_pos hz]
              have hD : natOfDigits (p.intp.drop idx) = 0 := (natOfDigits_eq_zero hdd).2 (allZero_iff.1 hz)
              have hMT : partsM p = natOfDigits (p.intp.take idx) * 10 ^ n := by rw [hMsplit, hD]; simp
              have hTz : natOfDigits (p.intp.take idx) ≠ 0 := by
                intro h; rw [hMT, h] at hM; simp at hM
              have htne : p.intp.take idx ≠ [] := by
                intro h; rw [h] at hTz; exact hTz rfl
              have hsp := spellsInt_mk p.neg _ htne htd (Or.inl hTz)
              refine ⟨_, ?_, Or.inr ⟨by rw [hx]; exact hr.1, by rw [hx]; exact hr.2, by rw [hx]; intro h; omega⟩, hsp⟩
              unfold PartsValue
              rw [decValue_neg hkneg, hn, hMT, sgn_mul_cast]; simp
            · rw [if_neg hz]
              rintro ⟨v, hv, _⟩
              have hdvd := decValue_neg_dvd hkneg hv
              rw [hn, hMsplit] at hdvd
              have hD : natOfDigits (p.intp.drop idx) ≠ 0 := by
                intro h; exact hz (allZero_iff.2 ((natOfDigits_eq_zero hdd).1 h))
              have hDlt := natOfDigits_lt hdd
              rw [hdl] at hDlt
              have : 10 ^ n ∣ natOfDigits (p.intp.drop idx) :=
                (Nat.dvd_add_right ⟨natOfDigits (p.intp.take idx), Nat.mul_comm _ _⟩).1 hdvd
              have := Nat.le_of_dvd (Nat.pos_of_ne_zero hD) this
              omega
    · rw [if_neg hr]
      simp only
      rintro ⟨v, _, hgd⟩
      rcases hgd with h | ⟨h1, h2, _⟩
      · exact hne h
      · exact hr ⟨h1, h2⟩

theorem PartsValue.unique {p : NumberParts} {v w : Int} (hv : PartsValue p v) (hw : PartsValue p w) : v = w :=
  DecValue.unique hv hw

/-- **normalize_iff**: `normalizeToIntString parts` returns a decimal spelling of `v` iff `v` is the
(integer) value of the parts and the size guards hold. -/
theorem normalize_iff (p : NumberParts) (hwf : PartsWF p) (v : Int) :
    (∃ s, normalizeToIntString p = some s ∧ SpellsInt s v) ↔ PartsValue p v ∧ PartsGuard p := by
  have hc := normalize_core p hwf
  constructor
  · rintro ⟨s, hs, hsp⟩
    rw [hs] at hc
    obtain ⟨w, hw, hg, hspw⟩ := hc
    have := hsp.unique hspw
    subst this
    exact ⟨hw, hg⟩
  · rintro ⟨hv, hg⟩
    cases hn : normalizeToIntString p with
    | none => rw [hn] at hc; exact absurd ⟨v, hv, hg⟩ hc
    | some s =>
      rw [hn] at hc
      obtain ⟨w, hw, _, hspw⟩ := hc
      have := hv.unique hw
      subst this
      exact ⟨s, rfl, hspw⟩

/-! ### parseNumberParts on RFC numbers -/

theorem expOpt_noDigitHead {e : Bytes} (he : ExpOpt e) : NoDigitHead e := by
  cases he with
  | none => exact NoDigitHead.nil
  | some e0 sg d ds he0 _ _ _ => exact NoDigitHead.cons.2 (e_not_digit e0 he0)

theorem partsExp_spec {e : Bytes} (he : ExpOpt e) : partsExp e = some (e.drop 1) := by
  cases he with
  | none => rfl
  | some e0 sg d ds he0 hsg hd hds =>
    have htw : (d :: ds).takeWhile isDigit = d :: ds := by
      have := takeWhile_digits_append (ds := d :: ds) (r := []) (AllDigits.cons.2 ⟨hd, hds⟩) NoDigitHead.nil
      simpa using this
    cases hsg with
    | none =>
      have h1 := digit_ne_plus d hd
      have h2 := digit_ne_minus d hd
      simp only [List.nil_append, partsExp, if_pos he0, h1, h2, or_self, if_false, htw, List.drop_succ_cons,
        List.drop_zero, hd, if_true]
    | plus =>
      simp only [List.cons_append, List.nil_append, partsExp, if_pos he0, true_or, if_true, htw,
        List.drop_succ_cons, List.drop_zero, hd]
    | minus =>
      simp only [List.cons_append, List.nil_append, partsExp, if_pos he0, or_true, if_true, htw,
        List.drop_succ_cons, List.drop_zero, hd]

theorem partsFrac_spec {f e : Bytes} (hf : FracOpt f) (he : ExpOpt e) : partsFrac (f ++ e) = (f.drop 1, e) := by
  cases hf with
  | none =>
    cases he with
    | none => rfl
    | some e0 sg d ds he0 hsg hd hds =>
      have hne : e0 ≠ 0x2e#8 := by rcases he0 with rfl | rfl <;> decide
      cases hsg <;> simp [partsFrac, hne]
  | some d ds hd hds =>
    have hnd := expOpt_noDigitHead he
    simp only [List.cons_append, partsFrac, hd, and_self, if_true, takeWhile_digits_append hds hnd,
      dropDigits_append hds hnd, List.drop_succ_cons, List.drop_zero]

/-- `bytes.TrimRight(s, "0")` -/
theorem trimRightZeros_spec (s : Bytes) : ∃ z, s = trimRightZeros s ++ List.replicate z 0x30#8 ∧
    (∀ a d, trimRightZeros s = a ++ [d] → d ≠ 0x30#8) := by
  unfold trimRightZeros
  have key : ∀ (r : Bytes), ∃ z, r = List.replicate z 0x30#8 ++ r.dropWhile (· == 0x30#8) ∧
      (∀ c t, r.dropWhile (· == 0x30#8) = c :: t → c ≠ 0x30#8) := by
    intro r
    induction r with
    | nil => exact ⟨0, by simp, by simp⟩
    | cons c t ih =>
      by_cases hc : c = 0x30#8
      · obtain ⟨z, h1, h2⟩ := ih
        refine ⟨z + 1, ?_, ?_⟩
        · rw [List.dropWhile_cons_of_pos (by simp [hc]), List.replicate_succ, List.cons_append, ← h1, hc]
        · rw [List.dropWhile_cons_of_pos (by simp [hc])]; exact h2
      · refine ⟨0, ?_, ?_⟩
        · rw [List.dropWhile_cons_of_neg (by simp [hc])]; simp
        · rw [List.dropWhile_cons_of_neg (by simp [hc])]
          intro c' t' h; simp at h; rw [← h.1]; exact hc
  obtain ⟨z, h1, h2⟩ := key s.reverse
  refine ⟨z, ?_, ?_⟩
  · have := congrArg List.reverse h1
    simpa using this
  · intro a d h
    have := congrArg List.reverse h
    simp at this
    exact h2 d a.reverse this

/-- the parts of an RFC number literal -/
def litParts (m i f e : Bytes) : NumberParts :=
  { neg := !m.isEmpty, intp := if i = [0x30#8] then [] else i, frac := trimRightZeros (f.drop 1), exp := e.drop 1 }

theorem parseNumberParts_spec {m i f e : Bytes} (hm : MinusOpt m) (hi : IntPart i) (hf : FracOpt f) (he : ExpOpt e) :
    parseNumberParts (m ++ (i ++ (f ++ e))) = some (litParts m i f e) := by
  have hnd : NoDigitHead (f ++ e) := by
    cases hf with
    | none => simpa using expOpt_noDigitHead he
    | some d ds _ _ => exact NoDigitHead.cons.2 dot_not_digit
  cases hm with
  | none =>
    cases hi with
    | zero =>
      simp only [List.nil_append, List.cons_append, parseNumberParts]
      simp only [show ((0x30#8 : Byte) = 0x2d#8) = False by decide, decide_false, Bool.false_eq_true, if_false,
        if_true]
      rw [partsFrac_spec hf he]; simp only [partsExp_spec he]; simp [litParts]
    | nonzero c ds hc hds =>
      have h1 := digit_ne_minus c (digit19_digit c hc)
      have h0 := digit19_ne_zero c hc
      simp only [List.nil_append, List.cons_append, parseNumberParts, h1, decide_false, Bool.false_eq_true, if_false,
        h0, hc, if_true, takeWhile_digits_append hds hnd, dropDigits_append hds hnd]
      rw [partsFrac_spec hf he]; simp only [partsExp_spec he]; simp [litParts, h0]
  | minus =>
    cases hi with
    | zero =>
      simp only [List.cons_append, List.nil_append, parseNumberParts, decide_true, if_true]
      rw [partsFrac_spec hf he]; simp only [partsExp_spec he]; simp [litParts]
    | nonzero c ds hc hds =>
      have h0 := digit19_ne_zero c hc
      simp only [List.cons_append, List.nil_append, parseNumberParts, decide_true, if_true,
        h0, hc, if_false, takeWhile_digits_append hds hnd, dropDigits_append hds hnd]
      rw [partsFrac_spec hf he]; simp only [partsExp_spec he]; simp [litParts, h0]

/-! ### the value of a literal, and Token.Int / Token.Uint -/

/-- the integer `v` is the value of the RFC number literal with components `[m] i [f] [e]`:
`±(i.f-digits) · 10^(exponent)`, the exponent read as an integer of any size -/
def LitValue (m i f e : Bytes) (v : Int) : Prop :=
  DecValue (!m.isEmpty) (natOfDigits (i ++ f.drop 1)) (expInt (e.drop 1) - (f.drop 1).length) v

/-- the one size guard that concerns values an integer field can hold: unless the literal is a zero
(`0`, `0.000`, with any exponent) its exponent must fit an int32 (`strconv.ParseInt(exp, 10, 32)`); this
only excludes literals with more than 2^31 - 20 digits -/
def ExpGuard (i f e : Bytes) : Prop :=
  (i = [0x30#8] ∧ ∀ d ∈ f.drop 1, d = 0x30#8) ∨
  (-((2 : Int) ^ 31) ≤ expInt (e.drop 1) ∧ expInt (e.drop 1) < (2 : Int) ^ 31)

/-- the same on parts -/
def PartsExpGuard (p : NumberParts) : Prop :=
  (p.intp = [] ∧ p.frac = []) ∨ (-((2 : Int) ^ 31) ≤ expInt p.exp ∧ expInt p.exp < (2 : Int) ^ 31)

theorem PartsGuard.expGuard {p : NumberParts} (h : PartsGuard p) : PartsExpGuard p := by
  rcases h with h | ⟨h1, h2, _⟩
  · exact Or.inl h
  · exact Or.inr ⟨h1, h2⟩

/-- the mantissa has `len(intp) + len(frac) - lead` significant digits -/
theorem partsM_ge {p : NumberParts} (hwf : PartsWF p) (hne : ¬ (p.intp = [] ∧ p.frac = [])) :
    10 ^ (p.intp.length + p.frac.length - partsLead p - 1) ≤ partsM p := by
  unfold partsM partsLead
  by_cases hi : p.intp = []
  · have hf : p.frac ≠ [] := fun hf => hne ⟨hi, hf⟩
    rw [hi]; simp only [List.length_nil, if_true, List.nil_append, Nat.zero_add]
    obtain ⟨hsplit, hhead⟩ := leadZeros_split p.frac
    have hMnz : natOfDigits p.frac ≠ 0 := by
      have := partsM_ne_zero hwf hne
      unfold partsM at this; rwa [hi, List.nil_append] at this
    cases hr : p.frac.drop (leadZeros p.frac) with
    | nil =>
      rw [hr, List.append_nil] at hsplit
      rw [hsplit, natOfDigits_zeros] at hMnz; exact absurd rfl hMnz
    | cons c t =>
      have hc : isDigit c = true := hwf.frac c (List.mem_of_mem_drop (by rw [hr]; simp))
      have hlen : p.frac.length = leadZeros p.frac + (t.length + 1) := by
        have := congrArg List.length hsplit
        rw [hr] at this; simpa using this
      have hval : natOfDigits p.frac = natOfDigits (c :: t) := by
        conv => lhs; rw [hsplit, hr]
        exact natOfDigits_zeros_append _ _
      rw [hval]
      have := natOfDigits_ge_of_head (t := t) hc (hhead c t hr)
      have he : p.frac.length - leadZeros p.frac - 1 = t.length := by omega
      rw [he]; exact this
  · obtain ⟨c, t, hct⟩ := List.exists_cons_of_ne_nil hi
    have hc : isDigit c = true := hwf.intp c (by rw [hct]; simp)
    have hl : p.intp.length ≠ 0 := by rw [hct]; simp
    rw [if_neg hl, hct, List.cons_append]
    have := natOfDigits_ge_of_head (t := t ++ p.frac) hc (hwf.intpHead c t hct)
    simp only [List.length_cons, List.length_append] at this ⊢
    have he : t.length + 1 + p.frac.length - 0 - 1 = t.length + p.frac.length := by omega
    rw [he]; exact this

/-- for a value below 10^20 (every value of an integer field) the digit guard cannot fire -/
theorem partsGuard_of_small {p : NumberParts} (hwf : PartsWF p) {v : Int} (hv : PartsValue p v)
    (hsmall : v.natAbs < 10 ^ 20) (hg : PartsExpGuard p) : PartsGuard p := by
  rcases hg with hg | ⟨h1, h2⟩
  · exact Or.inl hg
  · by_cases hne : p.intp = [] ∧ p.frac = []
    · exact Or.inl hne
    · refine Or.inr ⟨h1, h2, fun hx0 => ?_⟩
      have hM := partsM_ge hwf hne
      -- the value is an integer, so the scale is not negative
      have hk0 : 0 ≤ partsK p := by
        by_cases hk : partsK p < 0
        · exfalso
          have hfne : p.frac ≠ [] := by
            intro h; unfold partsK at hk; rw [h] at hk; simp at hk; omega
          exact not_dvd_of_mod_ten (partsM_mod_ten hwf hfne) (by omega) (decValue_neg_dvd hk hv)
        · omega
      unfold PartsValue at hv
      rw [decValue_nonneg hk0] at hv
      have habs : v.natAbs = partsM p * 10 ^ (partsK p).toNat := by
        rw [hv, Int.natAbs_mul, sgn_natAbs, Int.natAbs_pow]; rfl
      have hleadle : partsLead p ≤ p.frac.length := by
        unfold partsLead leadZeros
        split
        · exact length_takeWhile_le _ _
        · omega
      have hpos : 1 ≤ p.intp.length + p.frac.length - partsLead p := by
        rcases Nat.lt_or_ge 0 p.intp.length with h | h
        · omega
        · -- no integer part: the fraction is not all zeros
          have hi : p.intp = [] := List.length_eq_zero_iff.1 (by omega)
          have hf : p.frac ≠ [] := fun hf => hne ⟨hi, hf⟩
          obtain ⟨hsplit, _⟩ := leadZeros_split p.frac
          have : partsLead p < p.frac.length := by
            rcases Nat.lt_or_ge (partsLead p) p.frac.length with h' | h'
            · exact h'
            · exfalso
              have hl : partsLead p = leadZeros p.frac := by unfold partsLead; rw [hi]; simp
              have hdrop : p.frac.drop (leadZeros p.frac) = [] := List.drop_eq_nil_of_le (by omega)
              rw [hdrop, List.append_nil] at hsplit
              have hMz := partsM_ne_zero hwf hne
              unfold partsM at hMz
              rw [hi, List.nil_append, hsplit, natOfDigits_zeros] at hMz
              exact hMz rfl
          omega
      unfold partsK at hk0
      -- digits of the value: (ilen + flen - lead - 1) + K + 1 ≤ 20
      have hpow : 10 ^ (p.intp.length + p.frac.length - partsLead p - 1 + (partsK p).toNat) ≤ v.natAbs := by
        rw [habs, Nat.pow_add]; exact Nat.mul_le_mul_right _ hM
      have hlt : p.intp.length + p.frac.length - partsLead p - 1 + (partsK p).toNat < 20 := by
        rcases Nat.lt_or_ge (p.intp.length + p.frac.length - partsLead p - 1 + (partsK p).toNat) 20 with h | h
        · exact h
        · have := Nat.pow_le_pow_right (n := 10) (by decide) h
          omega
      unfold partsK at hlt
      omega

theorem fracDigits_all {f : Bytes} (hf : FracOpt f) : AllDigits (f.drop 1) := by
  cases hf with
  | none => exact AllDigits.nil
  | some d ds hd hds => exact AllDigits.cons.2 ⟨hd, hds⟩

theorem litParts_wf {m i f e : Bytes} (hi : IntPart i) (hf : FracOpt f) (he : ExpOpt e) :
    PartsWF (litParts m i f e) := by
  obtain ⟨z, hz, hlast⟩ := trimRightZeros_spec (f.drop 1)
  have hfd := fracDigits_all hf
  refine ⟨?_, ?_, ?_, hlast, ?_⟩
  · cases hi with
    | zero => simp [litParts, AllDigits]
    | nonzero c ds hc hds =>
      simp only [litParts, List.cons.injEq, digit19_ne_zero c hc, false_and, if_false]
      exact AllDigits.cons.2 ⟨digit19_digit c hc, hds⟩
  · intro c t h
    cases hi with
    | zero => simp [litParts] at h
    | nonzero c' ds hc hds =>
      simp only [litParts, List.cons.injEq, digit19_ne_zero c' hc, false_and, if_false] at h
      rw [← h.1]; exact digit19_ne_zero c' hc
  · intro d hd
    exact hfd d (by rw [hz]; exact List.mem_append_left _ hd)
  · cases he with
    | none => exact ExpStr.none
    | some e0 sg d ds _ hsg hd hds =>
      simp only [litParts, List.drop_succ_cons, List.drop_zero]
      exact ExpStr.some sg (d :: ds) hsg (by simp) (AllDigits.cons.2 ⟨hd, hds⟩)

theorem litParts_intp_value {i : Bytes} (hi : IntPart i) (x : Bytes) :
    natOfDigits ((if i = [0x30#8] then [] else i) ++ x) = natOfDigits (i ++ x) := by
  cases hi with
  | zero => simp [natOfDigits_cons, digitVal]
  | nonzero c ds hc _ => simp [digit19_ne_zero c hc]

theorem litParts_value {m i f e : Bytes} (hi : IntPart i) (v : Int) :
    PartsValue (litParts m i f e) v ↔ LitValue m i f e v := by
  obtain ⟨z, hz, _⟩ := trimRightZeros_spec (f.drop 1)
  unfold PartsValue LitValue partsM partsK
  simp only [litParts]
  rw [litParts_intp_value hi]
  generalize trimRightZeros (f.drop 1) = ft at hz
  have e1 : natOfDigits (i ++ (ft ++ List.replicate z 0x30#8)) = natOfDigits (i ++ ft) * 10 ^ z := by
    rw [← List.append_assoc, natOfDigits_append (i ++ ft), natOfDigits_zeros]; simp
  have e2 : (ft ++ List.replicate z 0x30#8).length = ft.length + z := by simp
  rw [hz, e1, e2]
  have := decValue_shift (neg := !m.isEmpty) (M := natOfDigits (i ++ ft))
    (k := expInt (e.drop 1) - ((ft.length + z : Nat) : Int)) (v := v) z
  rw [this]
  have hk : expInt (e.drop 1) - ((ft.length + z : Nat) : Int) + (z : Int) = expInt (e.drop 1) - (ft.length : Int) := by
    omega
  rw [hk]

theorem litParts_expGuard {m i f e : Bytes} (hi : IntPart i) (_hf : FracOpt f) :
    PartsExpGuard (litParts m i f e) ↔ ExpGuard i f e := by
  obtain ⟨z, hz, _⟩ := trimRightZeros_spec (f.drop 1)
  have hintp : (if i = [0x30#8] then ([] : Bytes) else i) = [] ↔ i = [0x30#8] := by
    cases hi with
    | zero => simp
    | nonzero c ds hc _ => simp [digit19_ne_zero c hc]
  have hfrac : trimRightZeros (f.drop 1) = [] ↔ ∀ d ∈ f.drop 1, d = 0x30#8 := by
    constructor
    · intro h d hd
      rw [hz, h, List.nil_append] at hd
      exact List.eq_of_mem_replicate hd
    · intro h
      rcases List.eq_nil_or_concat (trimRightZeros (f.drop 1)) with h' | ⟨a, d, h'⟩
      · exact h'
      · rw [List.concat_eq_append] at h'
        have hmem : d ∈ f.drop 1 := by rw [hz, h']; simp
        obtain ⟨_, _, hl⟩ := trimRightZeros_spec (f.drop 1)
        exact absurd (h d hmem) (hl a d h')
  unfold PartsExpGuard ExpGuard
  simp only [litParts, hintp, hfrac]

/-- `raw` is an RFC 8259 number literal that denotes the integer `v` (and its exponent fits an int32
unless it is a zero) -/
def IntLit (raw : Bytes) (v : Int) : Prop :=
  ∃ m i f e, raw = m ++ (i ++ (f ++ e)) ∧ MinusOpt m ∧ IntPart i ∧ FracOpt f ∧ ExpOpt e ∧
    LitValue m i f e v ∧ ExpGuard i f e

theorem IntLit.number {raw : Bytes} {v : Int} (h : IntLit raw v) : Number raw := by
  obtain ⟨m, i, f, e, rfl, hm, hi, hf, he, _, _⟩ := h
  exact Number.mk m i f e hm hi hf he

theorem getIntStr_core {m i f e : Bytes} (hm : MinusOpt m) (hi : IntPart i) (hf : FracOpt f) (he : ExpOpt e) :
    match getIntStr (m ++ (i ++ (f ++ e))) with
    | none => ¬ ∃ v, LitValue m i f e v ∧ PartsGuard (litParts m i f e)
    | some s => ∃ v, LitValue m i f e v ∧ PartsGuard (litParts m i f e) ∧ SpellsInt s v := by
  unfold getIntStr
  rw [parseNumberParts_spec hm hi hf he]
  simp only [Option.bind_some]
  have hc := normalize_core (litParts m i f e) (litParts_wf hi hf he)
  cases hn : normalizeToIntString (litParts m i f e) with
  | none =>
    rw [hn] at hc
    simp only
    rintro ⟨v, hv, hg⟩
    exact hc ⟨v, (litParts_value hi v).2 hv, hg⟩
  | some s =>
    rw [hn] at hc
    obtain ⟨v, hv, hg, hs⟩ := hc
    exact ⟨v, (litParts_value hi v).1 hv, hg, hs⟩

theorem small_of_range_int {bits : Nat} (hb : bits ≤ 64) {v : Int}
    (h : -((2 : Int) ^ (bits - 1)) ≤ v ∧ v < (2 : Int) ^ (bits - 1)) : v.natAbs < 10 ^ 20 := by
  have hp : (2 : Int) ^ (bits - 1) ≤ (2 : Int) ^ 63 := by
    have := Nat.pow_le_pow_right (n := 2) (by decide) (show bits - 1 ≤ 63 by omega)
    exact_mod_cast this
  have : (2 : Int) ^ 63 = 9223372036854775808 := by decide
  omega

theorem small_of_range_uint {bits : Nat} (hb : bits ≤ 64) {n : Nat} (h : (n : Int) < (2 : Int) ^ bits) :
    (n : Int).natAbs < 10 ^ 20 := by
  have hp : (2 : Int) ^ bits ≤ (2 : Int) ^ 64 := by
    have := Nat.pow_le_pow_right (n := 2) (by decide) hb
    exact_mod_cast this
  have : (2 : Int) ^ 64 = 18446744073709551616 := by decide
  omega

/-- `Token.Int(bits)` on a number literal (`bits ≤ 64`: the digit guard never fires on a value in range) -/
theorem tokenInt_iff (bits : Nat) (hb : bits ≤ 64) (raw : Bytes) (hnum : Number raw) (v : Int) :
    tokenInt bits raw = some v ↔
      IntLit raw v ∧ -((2 : Int) ^ (bits - 1)) ≤ v ∧ v < (2 : Int) ^ (bits - 1) := by
  constructor
  · intro h
    obtain ⟨m, i, f, e, hm, hi, hf, he⟩ := hnum
    have hc := getIntStr_core hm hi hf he
    unfold tokenInt at h
    cases hg : getIntStr (m ++ (i ++ (f ++ e))) with
    | none => rw [hg] at h; simp at h
    | some s =>
      rw [hg] at hc h
      obtain ⟨w, hw, hgd, hs⟩ := hc
      simp only [Option.bind_some] at h
      rw [parseIntBits_spells bits hs] at h
      split at h
      next hr =>
        have : w = v := Option.some.inj h
        subst this
        exact ⟨⟨m, i, f, e, rfl, hm, hi, hf, he, hw, (litParts_expGuard hi hf).1 hgd.expGuard⟩, hr⟩
      next => cases h
  · rintro ⟨⟨m, i, f, e, rfl, hm, hi, hf, he, hv, hgd⟩, hr⟩
    have hc := getIntStr_core hm hi hf he
    have hpg : PartsGuard (litParts m i f e) :=
      partsGuard_of_small (litParts_wf hi hf he) ((litParts_value hi v).2 hv) (small_of_range_int hb hr)
        ((litParts_expGuard hi hf).2 hgd)
    unfold tokenInt
    cases hg : getIntStr (m ++ (i ++ (f ++ e))) with
    | none => rw [hg] at hc; exact absurd ⟨v, hv, hpg⟩ hc
    | some s =>
      rw [hg] at hc
      obtain ⟨w, hw, _, hs⟩ := hc
      have : w = v := DecValue.unique hw hv
      subst this
      simp only [Option.bind_some]
      rw [parseIntBits_spells bits hs, if_pos hr]

/-- `Token.Uint(bits)` on a number literal -/
theorem tokenUint_iff (bits : Nat) (hb : bits ≤ 64) (raw : Bytes) (hnum : Number raw) (n : Nat) :
    tokenUint bits raw = some n ↔ IntLit raw (n : Int) ∧ (n : Int) < (2 : Int) ^ bits := by
  constructor
  · intro h
    obtain ⟨m, i, f, e, hm, hi, hf, he⟩ := hnum
    have hc := getIntStr_core hm hi hf he
    unfold tokenUint at h
    cases hg : getIntStr (m ++ (i ++ (f ++ e))) with
    | none => rw [hg] at h; simp at h
    | some s =>
      rw [hg] at hc h
      obtain ⟨w, hw, hgd, hs⟩ := hc
      simp only [Option.bind_some] at h
      rw [parseUintBits_spells bits hs] at h
      split at h
      next hr =>
        have : w.toNat = n := Option.some.inj h
        have hwn : w = (n : Int) := by omega
        subst hwn
        exact ⟨⟨m, i, f, e, rfl, hm, hi, hf, he, hw, (litParts_expGuard hi hf).1 hgd.expGuard⟩, hr.2⟩
      next => cases h
  · rintro ⟨⟨m, i, f, e, rfl, hm, hi, hf, he, hv, hgd⟩, hr⟩
    have hc := getIntStr_core hm hi hf he
    have hpg : PartsGuard (litParts m i f e) :=
      partsGuard_of_small (litParts_wf hi hf he) ((litParts_value hi _).2 hv) (small_of_range_uint hb hr)
        ((litParts_expGuard hi hf).2 hgd)
    unfold tokenUint
    cases hg : getIntStr (m ++ (i ++ (f ++ e))) with
    | none => rw [hg] at hc; exact absurd ⟨_, hv, hpg⟩ hc
    | some s =>
      rw [hg] at hc
      obtain ⟨w, hw, _, hs⟩ := hc
      have : w = (n : Int) := DecValue.unique hw hv
      subst this
      simp only [Option.bind_some]
      rw [parseUintBits_spells bits hs, if_pos ⟨by omega, hr⟩]; simp

end JsonLex
