import PbVerif.Lemmas.MsgTotal
/-
A larger RecursionLimit does not change a successful decode (all inputs).
-/
namespace Pb
open Spec

/-- a larger `RecursionLimit` does not change a successful decode -/
theorem dec_depth_mono : ∀ (fuel : Nat),
    (∀ S mi m b (d d' : Int) dis r, d ≤ d' → decMsg fuel S mi m b d dis = .ok r → decMsg fuel S mi m b d' dis = .ok r) ∧
    (∀ S mi m f wt val (d d' : Int) dis, d ≤ d' →
      (∀ m', decField fuel S mi m f wt val d dis = .ok m' → decField fuel S mi m f wt val d' dis = .ok m') ∧
      (decField fuel S mi m f wt val d dis = .unknown → decField fuel S mi m f wt val d' dis = .unknown)) ∧
    (∀ S kf vf k v b (d d' : Int) dis r, d ≤ d' → decEntry fuel S kf vf k v b d dis = .ok r →
      decEntry fuel S kf vf k v b d' dis = .ok r)
  | 0 => by refine ⟨?_, ?_, ?_⟩ <;> intros <;> simp_all [decMsg, decField, decEntry]
  | fuel + 1 => by
    obtain ⟨ihA, ihB, ihC⟩ := dec_depth_mono fuel
    refine ⟨?_, ?_, ?_⟩
    · intro S mi m b d d' dis r hd h
      unfold decMsg at h ⊢
      split at h
      · exact h
      · split at h
        · cases h
        · rename_i num wt tl ht
          simp only at h ⊢
          by_cases hmax : num > maxValidNumber
          · simp [hmax] at h
          · simp only [hmax, if_false] at h ⊢
            cases hfind : (S.msg mi).find num with
            | none =>
              simp only [hfind] at h ⊢
              split at h
              · cases h
              · exact ihA _ _ _ _ _ _ _ _ hd h
            | some f =>
              simp only [hfind] at h ⊢
              cases hstep : decField fuel S mi m f wt (b.drop tl) d dis with
              | err e => simp [hstep] at h
              | ok m' =>
                rw [(ihB _ _ _ _ _ _ _ _ _ hd).1 _ hstep]
                simp only [hstep] at h ⊢
                split at h
                · cases h
                · exact ihA _ _ _ _ _ _ _ _ hd h
              | unknown =>
                rw [(ihB _ _ _ _ _ _ _ _ _ hd).2 hstep]
                simp only [hstep] at h ⊢
                split at h
                · cases h
                · exact ihA _ _ _ _ _ _ _ _ hd h
    · intro S mi m f wt val d d' dis hd
      constructor
      · intro m' h
        unfold decField at h ⊢
        repeat' (first | split at h | (dsimp only at h; split at h))
        all_goals first
          | (cases h; done)
          | (have hd1 : ¬ d' - 1 < 0 := by omega
             first
               | (have hx := ihA _ _ _ _ _ _ _ _ (by omega : d - 1 ≤ d' - 1) ‹decMsg _ _ _ _ _ _ _ = .ok _›
                  simp [*]; done)
               | (have hx := ihC _ _ _ _ _ _ _ _ _ _ (by omega : d - 1 ≤ d' - 1) ‹decEntry _ _ _ _ _ _ _ _ _ = .ok _›
                  simp [*]; done))
          | (simp [*]; done)
      · intro h
        unfold decField at h ⊢
        repeat' (first | split at h | (dsimp only at h; split at h))
        all_goals first
          | (cases h; done)
          | (have hd1 : ¬ d' - 1 < 0 := by omega
             simp [*]; done)
          | (simp [*]; done)
    · intro S kf vf k v b d d' dis r hd h
      unfold decEntry at h ⊢
      split at h
      · exact h
      · split at h
        · cases h
        · rename_i num wt tl ht
          dsimp only at h ⊢
          by_cases hmax : num > maxValidNumber
          · simp [hmax] at h
          · simp only [hmax, if_false] at h ⊢
            repeat' split at h
            all_goals first
              | (cases h; done)
              | (have hx := ihC _ _ _ _ _ _ _ _ _ _ hd h
                 try simp only [List.drop_drop] at hx
                 first
                   | (have hd1 : ¬ d' - 1 < 0 := by omega
                      have hy := ihA _ _ _ _ _ _ _ _ (by omega : d - 1 ≤ d' - 1) ‹decMsg _ _ _ _ _ _ _ = .ok _›
                      simp [*]; done)
                   | (simp [*]; done))

end Pb
