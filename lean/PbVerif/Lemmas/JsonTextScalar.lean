import PbVerif.Model.JsonText
/-
Scalar values through the JSON and the text mapping: the laws of the delegated lexical layer
(`JLaws`, `TLaws` — hypotheses, never axioms) and the round trip of every scalar kind and value.
-/
namespace JT
open Pb

/-- round-trip laws of the JSON lexical layer (subject of engines jsonlex C21/C22 and of the harness) -/
structure JLaws (C : JCodec) : Prop where
  /-- `Token.Int/Uint` reads back what `AppendInt/AppendUint` wrote (every int64 and uint64 value) -/
  numInt : ∀ i : Int, -(2 : Int) ^ 63 ≤ i → i < 2 ^ 64 → C.numInt (C.fmtInt i) = some i
  /-- the same through a JSON string (64-bit integers are written as strings) -/
  strInt : ∀ i : Int, -(2 : Int) ^ 63 ≤ i → i < 2 ^ 64 → C.strInt (C.fmtInt i) = some i
  /-- the same through `strconv.ParseInt/ParseUint` of a map key -/
  keyInt : ∀ i : Int, -(2 : Int) ^ 63 ≤ i → i < 2 ^ 64 → C.keyInt (C.fmtInt i) = some i
  /-- shortest formatting / correctly rounded parsing of finite floats (DESIGN §3 `FloatCodec`) -/
  f32 : ∀ b : Nat, b < 2 ^ 32 → isNaN32 b = false → b ≠ inf32 → b ≠ ninf32 → C.numF32 (C.fmtF32 b) = some b
  f64 : ∀ b : Nat, b < 2 ^ 64 → isNaN64 b = false → b ≠ inf64 → b ≠ ninf64 → C.numF64 (C.fmtF64 b) = some b
  /-- base64 -/
  b64 : ∀ s : Str, C.b64dec (C.b64enc s) = some s

/-- round-trip laws of the text lexical layer; `ok32` selects the float32 values for which the law is
claimed (all of them after fixes/prototext-float32-parse.diff; all but 0x15AE43FD / 0x95AE43FD before) -/
structure TLaws (C : TCodec) (ok32 : Nat → Bool) : Prop where
  numInt : ∀ i : Int, -(2 : Int) ^ 63 ≤ i → i < 2 ^ 63 → C.numInt (C.fmtInt i) = some i
  numUint : ∀ n : Nat, n < 2 ^ 64 → C.numUint (C.fmtInt n) = some n
  f32 : ∀ b : Nat, b < 2 ^ 32 → isNaN32 b = false → b ≠ inf32 → b ≠ ninf32 → ok32 b = true →
    C.numF32 (C.fmtF32 b) = some b
  f64 : ∀ b : Nat, b < 2 ^ 64 → isNaN64 b = false → b ≠ inf64 → b ≠ ninf64 → C.numF64 (C.fmtF64 b) = some b

/-- enum value names are pairwise distinct (every valid descriptor) -/
def namesDistinct (evs : List EnumVal) : Prop := (evs.map (·.name)).Nodup

theorem byName_byNumber {evs : List EnumVal} (hd : namesDistinct evs) {i : Int} {name : Str}
    (h : byNumber evs i = some name) : byName evs name = some i := by
  unfold byNumber at h
  unfold byName
  induction evs with
  | nil => simp at h
  | cons ev tl ih =>
    have ⟨hnot, htl⟩ := List.nodup_cons.mp hd
    simp only [List.find?_cons] at h ⊢
    by_cases h1 : (ev.num == i) = true
    · simp only [h1] at h
      simp only [Option.map_some, Option.some.injEq] at h
      have : (ev.name == name) = true := by simp [h]
      simp only [this, Option.map_some, Option.some.injEq]
      simpa using h1
    · simp only [h1] at h
      have hin : name ∈ tl.map (·.name) := by
        cases hf : tl.find? (·.num == i) with
        | none => simp [hf] at h
        | some e =>
          simp [hf] at h
          exact List.mem_map.mpr ⟨e, List.mem_of_find?_eq_some hf, h⟩
      have hne : (ev.name == name) = false := by
        simp only [beq_eq_false_iff_ne, ne_eq]
        intro e
        exact hnot (by show ev.name ∈ _; rw [e]; exact hin)
      simp only [hne]
      exact ih htl h

theorem unsigned64_signed64 (n : Nat) (h : n < 2 ^ 64) : unsigned64 (signed64 n) = n := by
  unfold unsigned64 signed64
  split
  · have : ((n : Int) % 2 ^ 64) = n := by omega
    rw [this]; simp
  · have : (((n : Int) - 2 ^ 64) % 2 ^ 64) = n := by omega
    rw [this]; simp

theorem unsigned64_nat (n : Nat) (h : n < 2 ^ 64) : unsigned64 (n : Int) = n := by
  unfold unsigned64
  have : ((n : Int) % 2 ^ 64) = n := by omega
  rw [this]; simp

theorem signed64_range (n : Nat) (h : n < 2 ^ 64) : -(2 : Int) ^ 63 ≤ signed64 n ∧ signed64 n < 2 ^ 63 := by
  unfold signed64
  split <;> omega

/-- a scalar value that a Go message can hold in field `fx` and that has a JSON form:
canonical integers of the field's Go type, float bit patterns, valid UTF-8 in strings -/
def wfScalarJ (fx : FieldX) : Val → Bool
  | .num n =>
    (match fx.f.kind with
     | .bool => decide (n ≤ 1)
     | .float => decide (n < 2 ^ 32)
     | .double => decide (n < 2 ^ 64)
     | .int32 | .sint32 | .sfixed32 | .enum | .uint32 | .fixed32 | .int64 | .sint64 | .sfixed64 | .uint64 | .fixed64 =>
       decide (n < 2 ^ 64) && inRange fx.f.kind (goInt fx.f.kind n)
     | _ => false)
  | .bytes b =>
    (match fx.f.kind with
     | .string => utf8Valid b
     | .bytes => true
     | _ => false)
  | .msg _ => false

def normScalar (fx : FieldX) : Val → Val
  | .num n => .num (normNum fx.f.kind n)
  | v => v

theorem sNaN_ne_sInf : sNaN ≠ sInf := by decide
theorem sNaN_ne_sNegInf : sNaN ≠ sNegInf := by decide
theorem sInf_ne_sNegInf : sInf ≠ sNegInf := by decide

/-- **every scalar kind, every value**: protojson `marshalSingular` then `unmarshalScalar` returns the value
(all NaNs one value); for all options -/
theorem dScalar_jScalar (C : JCodec) (L : JLaws C) (o : JOpts) (D : DOpts) (fx : FieldX) (v : Val)
    (hw : wfScalarJ fx v = true) (hnull : fx.nullEnum = false) (hen : namesDistinct fx.enums) :
    ∃ j, jScalar C o fx v = .ok j ∧ j.isNull = false ∧ dScalar C D fx j = .ok (some (normScalar fx v)) := by
  cases v with
  | msg m => simp [wfScalarJ] at hw
  | bytes b =>
    unfold wfScalarJ at hw
    cases hk : fx.f.kind <;> simp only [hk] at hw <;> try (cases hw; done)
    · -- string
      exact ⟨.str b, by simp [jScalar, hk, hw], rfl, by simp [dScalar, hk, normScalar]⟩
    · -- bytes
      exact ⟨.str (C.b64enc b), by simp [jScalar, hk], rfl, by simp [dScalar, hk, normScalar, L.b64]⟩
  | num n =>
    unfold wfScalarJ at hw
    cases hk : fx.f.kind <;> simp only [hk] at hw <;> try (cases hw; done)
    case bool =>
      have hn : n ≤ 1 := by simpa using hw
      refine ⟨.bool (n != 0), by simp [jScalar, hk], rfl, ?_⟩
      have : n = 0 ∨ n = 1 := by omega
      rcases this with rfl | rfl <;> simp [dScalar, hk, normScalar, normNum]
    case float =>
      have hn : n < 2 ^ 32 := by simpa using hw
      simp only [jScalar, hk, jFloat, dScalar, normScalar, normNum]
      by_cases h1 : isNaN32 n = true
      · exact ⟨.str sNaN, by simp [h1], rfl, by simp [h1]⟩
      · have h1' : isNaN32 n = false := by simpa using h1
        by_cases h2 : n = inf32
        · exact ⟨.str sInf, by simp [h1', h2, inf32, isNaN32], rfl, by
            subst h2
            simp [h1', sNaN_ne_sInf.symm]⟩
        · by_cases h3 : n = ninf32
          · exact ⟨.str sNegInf, by subst h3; simp [ninf32, inf32, isNaN32], rfl, by
              subst h3
              simp [h1', sNaN_ne_sNegInf.symm, sInf_ne_sNegInf.symm]⟩
          · exact ⟨.num (C.fmtF32 n), by simp [h1', h2, h3], rfl, by
              simp [h1', bitsVal, L.f32 n hn h1' h2 h3]⟩
    case double =>
      have hn : n < 2 ^ 64 := by simpa using hw
      simp only [jScalar, hk, jFloat, dScalar, normScalar, normNum]
      by_cases h1 : isNaN64 n = true
      · exact ⟨.str sNaN, by simp [h1], rfl, by simp [h1]⟩
      · have h1' : isNaN64 n = false := by simpa using h1
        by_cases h2 : n = inf64
        · exact ⟨.str sInf, by simp [h1', h2, inf64, isNaN64], rfl, by
            subst h2
            simp [h1', sNaN_ne_sInf.symm]⟩
        · by_cases h3 : n = ninf64
          · exact ⟨.str sNegInf, by subst h3; simp [ninf64, inf64, isNaN64], rfl, by
              subst h3
              simp [h1', sNaN_ne_sNegInf.symm, sInf_ne_sNegInf.symm]⟩
          · exact ⟨.num (C.fmtF64 n), by simp [h1', h2, h3], rfl, by
              simp [h1', bitsVal, L.f64 n hn h1' h2 h3]⟩
    case enum =>
      simp only [Bool.and_eq_true, decide_eq_true_eq] at hw
      obtain ⟨hn, hr⟩ := hw
      have hr' : inRange .enum (signed64 n) = true := by simpa [goInt, isSigned] using hr
      have hs := signed64_range n hn
      have hnum : dScalar C D fx (.num (C.fmtInt (signed64 n))) = .ok (some (normScalar fx (.num n))) := by
        simp [dScalar, hk, intVal, L.numInt _ hs.1 (by omega), hr', unsigned64_signed64 n hn, normScalar, normNum]
      simp only [jScalar, hk, hnull, Bool.false_eq_true, if_false]
      cases hb : byNumber fx.enums (signed64 n) with
      | none => exact ⟨_, rfl, rfl, hnum⟩
      | some name =>
        simp only
        by_cases hu : o.useEnumNumbers = true
        · simp only [hu, if_true]
          exact ⟨_, rfl, rfl, hnum⟩
        · simp only [hu, if_false]
          refine ⟨_, rfl, rfl, ?_⟩
          simp [dScalar, hk, byName_byNumber hen hb, unsigned64_signed64 n hn, normScalar, normNum]
    all_goals
      (simp only [Bool.and_eq_true, decide_eq_true_eq] at hw
       obtain ⟨hn, hr⟩ := hw
       have hs := signed64_range n hn)
    case int32 =>
      have hr' : inRange .int32 (signed64 n) = true := by simpa [goInt, isSigned] using hr
      exact ⟨.num (C.fmtInt (signed64 n)), by simp [jScalar, hk], rfl, by
        simp [dScalar, hk, intVal, L.numInt _ hs.1 (by omega), hr', unsigned64_signed64 n hn, normScalar, normNum]⟩
    case sint32 =>
      have hr' : inRange .sint32 (signed64 n) = true := by simpa [goInt, isSigned] using hr
      exact ⟨.num (C.fmtInt (signed64 n)), by simp [jScalar, hk], rfl, by
        simp [dScalar, hk, intVal, L.numInt _ hs.1 (by omega), hr', unsigned64_signed64 n hn, normScalar, normNum]⟩
    case sfixed32 =>
      have hr' : inRange .sfixed32 (signed64 n) = true := by simpa [goInt, isSigned] using hr
      exact ⟨.num (C.fmtInt (signed64 n)), by simp [jScalar, hk], rfl, by
        simp [dScalar, hk, intVal, L.numInt _ hs.1 (by omega), hr', unsigned64_signed64 n hn, normScalar, normNum]⟩
    case uint32 =>
      have hr' : inRange .uint32 (n : Int) = true := by simpa [goInt, isSigned] using hr
      exact ⟨.num (C.fmtInt (n : Int)), by simp [jScalar, hk], rfl, by
        simp [dScalar, hk, intVal, L.numInt (n : Int) (by omega) (by omega), hr', unsigned64_nat n hn, normScalar, normNum]⟩
    case fixed32 =>
      have hr' : inRange .fixed32 (n : Int) = true := by simpa [goInt, isSigned] using hr
      exact ⟨.num (C.fmtInt (n : Int)), by simp [jScalar, hk], rfl, by
        simp [dScalar, hk, intVal, L.numInt (n : Int) (by omega) (by omega), hr', unsigned64_nat n hn, normScalar, normNum]⟩
    case int64 =>
      have hr' : inRange .int64 (signed64 n) = true := by simpa [goInt, isSigned] using hr
      exact ⟨.str (C.fmtInt (signed64 n)), by simp [jScalar, hk], rfl, by
        simp [dScalar, hk, intVal, L.strInt _ hs.1 (by omega), hr', unsigned64_signed64 n hn, normScalar, normNum]⟩
    case sint64 =>
      have hr' : inRange .sint64 (signed64 n) = true := by simpa [goInt, isSigned] using hr
      exact ⟨.str (C.fmtInt (signed64 n)), by simp [jScalar, hk], rfl, by
        simp [dScalar, hk, intVal, L.strInt _ hs.1 (by omega), hr', unsigned64_signed64 n hn, normScalar, normNum]⟩
    case sfixed64 =>
      have hr' : inRange .sfixed64 (signed64 n) = true := by simpa [goInt, isSigned] using hr
      exact ⟨.str (C.fmtInt (signed64 n)), by simp [jScalar, hk], rfl, by
        simp [dScalar, hk, intVal, L.strInt _ hs.1 (by omega), hr', unsigned64_signed64 n hn, normScalar, normNum]⟩
    case uint64 =>
      have hr' : inRange .uint64 (n : Int) = true := by simpa [goInt, isSigned] using hr
      exact ⟨.str (C.fmtInt (n : Int)), by simp [jScalar, hk], rfl, by
        simp [dScalar, hk, intVal, L.strInt (n : Int) (by omega) (by omega), hr', unsigned64_nat n hn, normScalar, normNum]⟩
    case fixed64 =>
      have hr' : inRange .fixed64 (n : Int) = true := by simpa [goInt, isSigned] using hr
      exact ⟨.str (C.fmtInt (n : Int)), by simp [jScalar, hk], rfl, by
        simp [dScalar, hk, intVal, L.strInt (n : Int) (by omega) (by omega), hr', unsigned64_nat n hn, normScalar, normNum]⟩

end JT
