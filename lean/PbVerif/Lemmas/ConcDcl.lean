import PbVerif.Model.Conc
/-
Invariants of double-checked initialisation / sync.Once (Model.Conc.Dcl) for the code's protocol
shape: the done flag is stored after the body; if the re-check looks at the structure instead of
the flag (File.lazyInitOnce: `fd.L2 == nil`), the body's first write makes the structure non-empty.
-/
namespace Conc.Dcl

structure Cfg.Safe (cfg : Cfg) : Prop where
  order : cfg.order = .bodyThenStore
  locks : cfg.locks = true
  started_pos : cfg.recheck = .started → 0 < cfg.writes

/-- nobody is initialising: either nothing has happened yet or everything has -/
def Quiescent (cfg : Cfg) (s : State) : Prop :=
  (s.data = [] ∧ s.flag = false ∧ s.runs = 0) ∨ (s.data = complete cfg ∧ s.flag = true ∧ s.runs = 1)

structure Inv (cfg : Cfg) (s : State) : Prop where
  free_q : s.mutex = none → Quiescent cfg s
  recheck_q : ∀ i, s.pc i = .recheck → s.mutex = some i ∧ Quiescent cfg s
  body_st : ∀ i k, s.pc i = .body k → s.mutex = some i ∧ s.data = List.range k ∧ k ≤ cfg.writes ∧ s.flag = false ∧ s.runs = 1
  store_st : ∀ i b, s.pc i = .store b → s.mutex = some i ∧ b = false ∧ s.data = complete cfg ∧ s.runs = 1
  unlock_st : ∀ i, s.pc i = .unlock → s.mutex = some i ∧ s.data = complete cfg ∧ s.flag = true ∧ s.runs = 1
  flag_st : s.flag = true → s.data = complete cfg ∧ s.runs = 1
  read_st : ∀ i, s.pc i = .read → s.flag = true
  done_st : ∀ i obs, s.pc i = .done obs → obs = complete cfg ∧ s.flag = true
  runs_le : s.runs ≤ 1

theorem inv_init (cfg : Cfg) : Inv cfg init := by
  constructor <;> simp [init, Quiescent]

theorem range_nil_iff {n : Nat} : List.range n = [] ↔ n = 0 := by
  cases n with
  | zero => simp
  | succ k => simp [List.range_succ]

theorem initialised_true {cfg : Cfg} {u : State} (h : initialised cfg u = true) :
    (cfg.recheck = .flag ∧ u.flag = true) ∨ (cfg.recheck = .started ∧ u.data ≠ []) := by
  revert h; unfold initialised; cases cfg.recheck <;> simp

theorem initialised_false {cfg : Cfg} {u : State} (h : initialised cfg u = false) :
    (cfg.recheck = .flag ∧ u.flag = false) ∨ (cfg.recheck = .started ∧ u.data = []) := by
  revert h; unfold initialised; cases cfg.recheck <;> simp

macro "dcl_close" : tactic =>
  `(tactic| (constructor <;> simp only [upd, Quiescent, complete] at * <;> grind))

theorem inv_step {cfg : Cfg} (safe : cfg.Safe) {s t : State} (h : Inv cfg s) (st : Step cfg s t) : Inv cfg t := by
  obtain ⟨h2, h3, h4, h5, h6, h7, h8, h9, h10⟩ := h
  have ho := safe.order
  cases st with
  | fast_hit i hpc hf => dcl_close
  | fast_miss i hpc hf => dcl_close
  | lock i hpc _ hm => dcl_close
  | nolock i hpc hl => rw [safe.locks] at hl; cases hl
  | recheck_hit i hpc hi =>
    have hx := initialised_true hi
    have hrn : List.range cfg.writes = [] → cfg.writes = 0 := range_nil_iff.mp
    have hp := safe.started_pos
    cases hs : cfg.storeOnHit <;> simp only [afterHit, hs] <;> dcl_close
  | recheck_miss i hpc hi =>
    have hx := initialised_false hi
    have hrn : List.range cfg.writes = [] → cfg.writes = 0 := range_nil_iff.mp
    have hp := safe.started_pos
    have hr0 : List.range 0 = [] := rfl
    simp only [afterMiss, ho]
    dcl_close
  | write i k hpc hk =>
    have hrs : List.range k ++ [k] = List.range (k + 1) := List.range_succ.symm
    dcl_close
  | body_end i k hpc hk =>
    simp only [afterBody, ho]
    dcl_close
  | store i b hpc =>
    have hb := (h5 i b hpc).2.1
    subst hb
    simp only [afterStore]
    dcl_close
  | unlock i hpc => dcl_close
  | read i hpc => dcl_close

theorem inv_reachable {cfg : Cfg} (safe : cfg.Safe) {s : State} (r : Reachable cfg s) : Inv cfg s := by
  induction r with
  | init => exact inv_init cfg
  | step _ st ih => exact inv_step safe ih st

end Conc.Dcl
