import PbVerif.Lemmas.MsgAlgClone
/-
`initFields` (all nested values initialized) is preserved by the field-list operations of merge.
Core-only.
-/
namespace Pb
open Spec (Byte)

/-- initialization of one field value (vacuous for undeclared numbers) -/
def initField (S : Schema) (d : MsgD) (n : Nat) (fv : FVal) : Bool :=
  match d.find n with
  | some f => initFVal S f fv
  | none => true

theorem initFields_cons (S : Schema) (d : MsgD) (n : Nat) (fv : FVal) (tl : Fields) :
    initFields S d (.cons n fv tl) = (initField S d n fv && initFields S d tl) := by
  rw [initFields]; rfl

theorem initFields_set {S : Schema} {d : MsgD} {fs : Fields} (h : initFields S d fs = true)
    (k : Nat) (fv : FVal) (hv : ∀ f, d.find k = some f → initFVal S f fv = true) :
    initFields S d (fs.set k fv) = true := by
  have hk : initField S d k fv = true := by
    unfold initField
    split
    · rename_i f hf; exact hv f hf
    · rfl
  induction fs using Fields.ind with
  | nil => rw [Fields.set, initFields_cons, hk]; rfl
  | cons n x tl ih =>
    rw [initFields_cons, Bool.and_eq_true] at h
    simp only [Fields.set]
    split
    · rw [initFields_cons, initFields_cons, hk, h.1, h.2]; rfl
    · split
      · rename_i h1 h2
        subst h2
        rw [initFields_cons, hk, h.2]; rfl
      · rw [initFields_cons, h.1, ih h.2]; rfl

theorem initFields_erase {S : Schema} {d : MsgD} {fs : Fields} (h : initFields S d fs = true)
    (k : Nat) : initFields S d (fs.erase k) = true := by
  induction fs using Fields.ind with
  | nil => exact h
  | cons n x tl ih =>
    rw [initFields_cons, Bool.and_eq_true] at h
    simp only [Fields.erase]
    split
    · exact ih h.2
    · rw [initFields_cons, h.1, ih h.2]; rfl

theorem initFields_clearOneof {S : Schema} {d : MsgD} {fs : Fields} (h : initFields S d fs = true)
    (o keep : Nat) : initFields S d (Fields.clearOneof d o keep fs) = true := by
  induction fs using Fields.ind with
  | nil => exact h
  | cons n x tl ih =>
    rw [initFields_cons, Bool.and_eq_true] at h
    rw [Fields.clearOneof_cons]
    split
    · exact ih h.2
    · rw [initFields_cons, h.1, ih h.2]; rfl

theorem initFields_clearFor {S : Schema} {d : MsgD} {fs : Fields} (h : initFields S d fs = true)
    (f : Field) : initFields S d (clearFor d f fs) = true := by
  unfold clearFor
  split
  · exact initFields_clearOneof h _ _
  · exact h

theorem initFields_get {S : Schema} {d : MsgD} {fs : Fields} (h : initFields S d fs = true)
    {n : Nat} {fv : FVal} {f : Field} (hg : fs.get? n = some fv) (hf : d.find n = some f) :
    initFVal S f fv = true := by
  induction fs using Fields.ind with
  | nil => simp [Fields.get?] at hg
  | cons m x tl ih =>
    rw [initFields_cons, Bool.and_eq_true] at h
    rw [Fields.get?_cons] at hg
    split at hg
    · rename_i hm; subst hm; cases hg
      have := h.1
      unfold initField at this
      rw [hf] at this
      exact this
    · exact ih h.2 hg

theorem initVals_append {S : Schema} {f : Field} {xs ys : Vals} (hx : initVals S f xs = true)
    (hy : initVals S f ys = true) : initVals S f (xs.append ys) = true := by
  induction xs using Vals.ind with
  | nil => rw [Vals.append]; exact hy
  | cons v tl ih =>
    rw [initVals, Bool.and_eq_true] at hx
    rw [Vals.append, initVals, hx.1, ih hx.2]; rfl

theorem initVals_mapPut {S : Schema} {f : Field} {vs : Vals} (h : initVals S f vs = true)
    (k : Val) (e : Msg) (he : initMsg S f.sub e = true) : initVals S f (mapPut vs k e) = true := by
  have hv : initVal S f (.msg e) = true := by rw [initVal]; exact he
  induction vs using Vals.ind with
  | nil => rw [mapPut, initVals, hv]; rfl
  | cons v tl ih =>
    rw [initVals, Bool.and_eq_true] at h
    cases v with
    | msg old =>
      rw [mapPut]
      split
      · split
        · rw [initVals, hv, h.2]; rfl
        · rw [initVals, h.1, ih h.2]; rfl
      · rw [initVals, h.1, ih h.2]; rfl
    | num n =>
      rw [mapPut]
      · rw [initVals, h.1, ih h.2]; rfl
      · intro old hh; cases hh
    | bytes b =>
      rw [mapPut]
      · rw [initVals, h.1, ih h.2]; rfl
      · intro old hh; cases hh

theorem initVals_listAt {S : Schema} {d : MsgD} {fs : Fields} (h : initFields S d fs = true)
    {f : Field} (hf : d.find f.num = some f) : initVals S f (fs.listAt f.num) = true := by
  unfold Fields.listAt
  split
  · rename_i o hg
    have := initFields_get h hg hf
    rw [initFVal] at this
    exact this
  · rw [initVals]

/-- the submessage currently held is initialized, or it is the fresh empty message: in both
cases all values nested in it are initialized -/
theorem initFields_subAt {S : Schema} {d : MsgD} {fs : Fields} (h : initFields S d fs = true)
    {f : Field} (hf : d.find f.num = some f) :
    initFields S (S.msg f.sub) (fs.subAt f.num).fields = true := by
  unfold Fields.subAt
  split
  · rename_i x hg
    have := initFields_get h hg hf
    rw [initFVal, initVal] at this
    cases x with
    | mk xs xu =>
      rw [initMsg, Bool.and_eq_true] at this
      exact this.2
  · rfl

/-- a populated source value leaves the field populated, whatever the destination -/
theorem get?_mergeFVal_isSome (S : Schema) (d : MsgD) (f : Field) (dst : Fields) (fv : FVal)
    (hp : pwfFVal S f fv = true) : ((mergeFVal S d f dst fv).get? f.num).isSome = true := by
  cases fv with
  | many vs =>
    rw [pwfFVal, Bool.and_eq_true] at hp
    by_cases hc : f.card = .map
    · simp only [hc, if_true] at hp
      rw [mergeFVal_many_map S d f dst vs hc]
      have : (mergeMapVals S f.sub (dst.listAt f.num) vs).isNil = false := by
        cases vs with
        | nil => simp [Vals.isNil] at hp
        | cons v tl =>
          obtain ⟨e, k, rfl, hk, _, _, _, _⟩ := pwfEntries_cons_msg hp.2
          rw [mergeMapVals_cons_msg S _ _ e tl k hk]
          exact mergeMapVals_not_nil S _ tl _ (mapPut_not_nil _ _ _)
      simp only [this, Bool.false_eq_true, if_false]
      rw [Fields.get?_set]; simp
    · rw [mergeFVal_many_list S d f dst vs hc, get?_appendList, cloneVals_isNil]
      have : vs.isNil = false := by simpa using hp.1
      simp [this]
  | one v =>
    rw [pwfFVal, Bool.and_eq_true] at hp
    have hz : (decide (f.card = .implicit) && v.isZero) = false := by
      have := hp.2
      rw [Bool.not_eq_true'] at this
      exact this
    rw [mergeFVal]
    cases v with
    | msg sm => rw [mergeVal_msg, Fields.get?_set]; simp
    | num n => rw [mergeVal_scalar _ _ _ _ _ rfl, get?_setSingular]; simp [hz]
    | bytes b => rw [mergeVal_scalar _ _ _ _ _ rfl, get?_setSingular]; simp [hz]

end Pb
