import PbVerif.Lemmas.JsonTextRoundJM2
/-
JSON round trip including populated map fields, part 3: the mutual induction over `RepMsgM`.
-/
namespace JT
open Pb

variable (C : JCodec) (D : DOpts) (X : SchemaX) (o : JOpts)

theorem lookupEntry_cons_none {e : Msg} {tl : Vals} {k k0 : Val} (he : entryKey e = some k0)
    (h : lookupEntry (.cons (.msg e) tl) k = none) : valBEq k k0 = false ∧ lookupEntry tl k = none := by
  simp only [lookupEntry, he] at h
  cases hb : valBEq k k0
  · simp only [hb, Bool.false_eq_true, if_false] at h
    exact ⟨rfl, h⟩
  · simp [hb] at h

mutual
theorem rtJM_msg (hS : SchemaJ X o) (L : JLaws C) : ∀ (m : Msg) (mi : Nat) (limit : Int),
    RepMsgM X mi limit m →
      ∃ jv, jMsg C o X mi m = .ok jv ∧ jv.isNull = false ∧ dMsg C D X mi limit jv = .ok (normMsg X mi m)
  | .mk fs unk, mi, limit, ⟨hlim, hwkt, _, hex, hf⟩ => by
    obtain ⟨r, hr, hspec⟩ := rtJM_fields hS L fs mi 0 (limit - 1) hf
    refine ⟨.obj (JMembers.ofList (assemble C o (X.msg mi) r)), ?_, rfl, ?_⟩
    · simp [jMsg, hwkt, hr]
    · rw [dMsg]
      have h1 : ¬ (limit - 1 < 0) := by omega
      simp only [h1, if_false, hwkt, Bool.false_eq_true]
      rw [dMembers_assemble C D X o hS L mi (limit - 1) fs r (RepFieldsM.sorted hf) hspec hex]
      simp [normMsg]
theorem rtJM_fields (hS : SchemaJ X o) (L : JLaws C) : ∀ (fs : Fields) (mi : Nat) (lb : Nat) (limit : Int),
    RepFieldsM X (X.msg mi) lb limit fs →
      ∃ r, jFields C o X (X.msg mi) fs = .ok r ∧ ∀ k, LSpec C D X (X.msg mi) limit r fs k
  | .nil, mi, lb, limit, _ => ⟨[], rfl, fun k => by simp [LSpec, lookupN, Fields.get?]⟩
  | .cons num fv tl, mi, lb, limit, ⟨_, h2, h3⟩ => by
    cases hf : (X.msg mi).find num with
    | none => rw [hf] at h2; exact h2.elim
    | some fx =>
      rw [hf] at h2
      obtain ⟨hmem, hnum⟩ := find_mem hf
      obtain ⟨jv, hj, hs⟩ := rtJM_fval hS L fv fx limit ⟨mi, hmem⟩ h2
      obtain ⟨r, hr, hspec⟩ := rtJM_fields hS L tl mi (num + 1) limit h3
      refine ⟨(num, jv) :: r, by simp [jFields, hf, hj, hr], ?_⟩
      intro k
      unfold LSpec
      rw [lookupN_cons]
      simp only [Fields.get?]
      by_cases hk : num = k
      · subst hk
        simp only [if_true]
        exact ⟨fx, hf, hs⟩
      · simp only [hk, if_false]
        exact hspec k
theorem rtJM_fval (hS : SchemaJ X o) (L : JLaws C) : ∀ (fv : FVal) (fx : FieldX) (limit : Int),
    (∃ i, fx ∈ (X.msg i).fields) → RepFValM X fx limit fv →
      ∃ jv, jFVal C o X fx fv = .ok jv ∧ FSpec C D X fx limit fv jv
  | .one v, fx, limit, hm, ⟨hc1, hc2, hv, hz⟩ => by
    obtain ⟨jv, hj, hs⟩ := rtJM_val hS L v fx limit hm hv
    exact ⟨jv, by simp [jFVal, hj], FSpec_one C D X fx limit v jv hc1 hc2 hz hs⟩
  | .many vs, fx, limit, hm, ⟨hn, hcases⟩ => by
    rcases hcases with ⟨hc, hv⟩ | ⟨hc, hv⟩
    · obtain ⟨l, hl, hs⟩ := rtJM_vals hS L vs fx limit hm hv
      have hnm : fx.f.card ≠ .map := by rw [hc]; decide
      exact ⟨.arr (JElems.ofList l), by simp [jFVal, hnm, hl], FSpec_many C D X fx limit vs l hc hn hs⟩
    · obtain ⟨T, hT, hmem, hnorm, _, hpw, kf, vf, h1, h2⟩ := rtJM_entries hS L vs fx limit hn hv
      have hne : T ≠ [] := by
        intro h
        subst h
        simp only [List.map_nil] at hnorm
        cases vs with
        | nil => simp [Vals.isNil] at hn
        | cons a b => simp [normVals, Vals.toList] at hnorm
      obtain ⟨ms, hseq, hspec⟩ := FSpec_map C D X fx limit vs T hc kf vf h1 h2 hmem hnorm hpw hne
      exact ⟨.obj (JMembers.ofList ms), by simp [jFVal, hc, hT, hseq], hspec⟩
theorem rtJM_val (hS : SchemaJ X o) (L : JLaws C) : ∀ (v : Val) (fx : FieldX) (limit : Int),
    (∃ i, fx ∈ (X.msg i).fields) → RepValM X fx limit v →
      ∃ jv, jVal C o X fx v = .ok jv ∧ VSpec C D X fx limit v jv
  | .msg m, fx, limit, _, ⟨hk, hm⟩ => by
    obtain ⟨jv, hj, hn, hd⟩ := rtJM_msg hS L m fx.f.sub limit hm
    exact ⟨jv, by simp [jVal, hk, hj], hn, hk, hd⟩
  | .num n, fx, limit, ⟨i, hmem⟩, hw => by
    obtain ⟨hne, _⟩ := hS.plain i fx hmem
    obtain ⟨j, hj, hjn, hd⟩ := dScalar_jScalar C L o D fx (.num n) hw hne (hS.enums i fx hmem).1
    exact ⟨j, by simp [jVal, hj], hjn, wfScalarJ_notMessage hw, hd⟩
  | .bytes b, fx, limit, ⟨i, hmem⟩, hw => by
    obtain ⟨hne, _⟩ := hS.plain i fx hmem
    obtain ⟨j, hj, hjn, hd⟩ := dScalar_jScalar C L o D fx (.bytes b) hw hne (hS.enums i fx hmem).1
    exact ⟨j, by simp [jVal, hj], hjn, wfScalarJ_notMessage hw, hd⟩
theorem rtJM_vals (hS : SchemaJ X o) (L : JLaws C) : ∀ (vs : Vals) (fx : FieldX) (limit : Int),
    (∃ i, fx ∈ (X.msg i).fields) → RepValsM X fx limit vs →
      ∃ l, jVals C o X fx vs = .ok l ∧ ESpec C D X fx limit vs l
  | .nil, _, _, _, _ => ⟨[], rfl, trivial⟩
  | .cons v tl, fx, limit, hm, ⟨hv, ht⟩ => by
    obtain ⟨jv, hj, hs⟩ := rtJM_val hS L v fx limit hm hv
    obtain ⟨l, hl, hsl⟩ := rtJM_vals hS L tl fx limit hm ht
    exact ⟨jv :: l, by simp [jVals, hj, hl], hs, hsl⟩
/-- the entries of a map field: what `jEntries` renders, entry by entry -/
theorem rtJM_entries (hS : SchemaJ X o) (L : JLaws C) : ∀ (vs : Vals) (fx : FieldX) (limit : Int),
    vs.isNil = false → RepEntriesM X fx limit vs →
      ∃ T : List (Val × Pay),
        jEntries C o X (X.msg fx.f.sub) vs = .ok (T.map fun t => (t.1, t.2.1)) ∧
        (∀ t ∈ T, entryMember t.2.1 = some (t.2.2.2.1, t.2.2.2.2) ∧
          EntryOK C D X fx limit t.1 t.2.2.1 t.2.2.2.1 t.2.2.2.2) ∧
        (normVals X fx vs).toList = T.map (fun t => Val.msg (mkEntry t.1 t.2.2.1)) ∧
        (∀ k, lookupEntry vs k = none → ∀ t ∈ T, valBEq k t.1 = false) ∧
        (T.map (·.1)).Pairwise (fun a b => valBEq b a = false) ∧
        ∃ kf vf, (X.msg fx.f.sub).find 1 = some kf ∧ (X.msg fx.f.sub).find 2 = some vf
  | .nil, _, _, hn, _ => by simp [Vals.isNil] at hn
  | .cons (.msg (.mk (.cons n1 (.one k) (.cons n2 (.one v) .nil)) u)) tl, fx, limit, _, ⟨⟨hn1, hn2, hfree, hE⟩, htl⟩ => by
    subst hn1
    subst hn2
    cases h1 : (X.msg fx.f.sub).find 1 with
    | none => simp [h1] at hE
    | some kf =>
      cases h2 : (X.msg fx.f.sub).find 2 with
      | none => simp [h1, h2] at hE
      | some vf =>
        simp only [h1, h2] at hE
        obtain ⟨hkk, hkw, hv⟩ := hE
        obtain ⟨jk, ks, hjk, hks, hdk⟩ := key_roundtrip C o L kf k hkk hkw
        obtain ⟨jvv, hjv, hvs⟩ := rtJM_val hS L v vf limit ⟨fx.f.sub, (find_mem h2).1⟩ hv
        -- the rendered fields of this entry
        have hkval : ∀ n, k ≠ .msg n := by
          intro n hkn
          subst hkn
          simp [wfScalarJ] at hkw
        have hjvk : jVal C o X kf k = .ok jk := by
          cases k with
          | msg n => exact absurd rfl (hkval n)
          | num n => simpa [jVal] using hjk
          | bytes b => simpa [jVal] using hjk
        have hent : jEntry C o X (X.msg fx.f.sub) (.msg (.mk (.cons 1 (.one k) (.cons 2 (.one v) .nil)) u)) =
            .ok (k, [(1, jk), (2, jvv)]) := by
          simp [jEntry, jEntryMsg, entryKey, Fields.get?, jFields, h1, h2, jFVal, hjvk, hjv]
        have hmemb : entryMember [(1, jk), (2, jvv)] = some (ks, jvv) := by
          simp [entryMember, lookupN_cons, lookupN, hks]
        have hok : EntryOK C D X fx limit k (normVal X vf v) ks jvv := by
          refine ⟨?_, ?_⟩
          · intro kf' hk'
            rw [h1] at hk'
            cases hk'
            exact hdk
          · intro vf' hv'
            rw [h2] at hv'
            cases hv'
            cases v with
            | msg m =>
              obtain ⟨_, hk2, hd2⟩ := hvs
              simp only [hk2, if_true]
              exact ⟨_, hd2, rfl⟩
            | num n =>
              obtain ⟨_, hk2, hd2⟩ := hvs
              simp only [hk2, Bool.false_eq_true, if_false]
              exact hd2
            | bytes b =>
              obtain ⟨_, hk2, hd2⟩ := hvs
              simp only [hk2, Bool.false_eq_true, if_false]
              exact hd2
        have hnormE : normVal X fx (.msg (.mk (.cons 1 (.one k) (.cons 2 (.one v) .nil)) u)) =
            .msg (mkEntry k (normVal X vf v)) := by
          simp [normVal, normMsg, normFields, h1, h2, normFVal, mkEntry, normVal_key X kf k hkk hkw]
        cases tl with
        | nil =>
          refine ⟨[(k, [(1, jk), (2, jvv)], normVal X vf v, ks, jvv)], ?_, ?_, ?_, ?_, ?_, kf, vf, rfl, rfl⟩
          · simp [jEntries, hent]
          · intro t ht
            simp only [List.mem_singleton] at ht
            subst ht
            exact ⟨hmemb, hok⟩
          · simp [normVals, Vals.toList, hnormE]
          · intro k' hk' t ht
            simp only [List.mem_singleton] at ht
            subst ht
            exact (lookupEntry_cons_none (by simp [entryKey, Fields.get?]) hk').1
          · simp
        | cons e2 tl2 =>
          obtain ⟨T, hT, hmem, hnorm, hkeys, hpw, _⟩ := rtJM_entries hS L (.cons e2 tl2) fx limit rfl htl
          refine ⟨(k, [(1, jk), (2, jvv)], normVal X vf v, ks, jvv) :: T, ?_, ?_, ?_, ?_, ?_, kf, vf, rfl, rfl⟩
          · rw [jEntries, hent]
            simp only [hT, List.map_cons]
          · intro t ht
            simp only [List.mem_cons] at ht
            rcases ht with rfl | ht
            · exact ⟨hmemb, hok⟩
            · exact hmem t ht
          · rw [normVals, Vals.toList, hnormE, hnorm]
            rfl
          · intro k' hk' t ht
            have hek : entryKey (.mk (.cons 1 (.one k) (.cons 2 (.one v) .nil)) u) = some k := by
              simp [entryKey, Fields.get?]
            obtain ⟨hb, hrest⟩ := lookupEntry_cons_none hek hk'
            simp only [List.mem_cons] at ht
            rcases ht with rfl | ht
            · exact hb
            · exact hkeys k' hrest t ht
          · simp only [List.map_cons, List.pairwise_cons]
            refine ⟨?_, hpw⟩
            intro b hb
            obtain ⟨t, ht, rfl⟩ := List.mem_map.mp hb
            rw [valBEq_symm]
            exact hkeys k hfree t ht
  | .cons (.num _) _, _, _, _, ⟨h, _⟩ => h.elim
  | .cons (.bytes _) _, _, _, _, ⟨h, _⟩ => h.elim
  | .cons (.msg (.mk .nil _)) _, _, _, _, ⟨h, _⟩ => h.elim
  | .cons (.msg (.mk (.cons _ (.many _) _) _)) _, _, _, _, ⟨h, _⟩ => h.elim
  | .cons (.msg (.mk (.cons _ (.one _) .nil) _)) _, _, _, _, ⟨h, _⟩ => h.elim
  | .cons (.msg (.mk (.cons _ (.one _) (.cons _ (.many _) _)) _)) _, _, _, _, ⟨h, _⟩ => h.elim
  | .cons (.msg (.mk (.cons _ (.one _) (.cons _ (.one _) (.cons _ _ _))) _)) _, _, _, _, ⟨h, _⟩ => h.elim
end

end JT
