import PbVerif.Model.MsgDet
/-
Basic algebra of the message model used by Props/C05, C07, C10, C30:
induction principles for the list-like members of the mutual value type, lemmas on
`Fields.get?/set/erase`, `lookupEntry/mapPut`, float equality, the specification of `unknownEq`,
and the well-formedness predicate `wfMsg`.
Core-only.
-/
namespace Pb
open Spec (Byte)

/-! ### induction principles (the `induction` tactic does not support mutual inductives) -/

@[elab_as_elim] theorem Vals.ind {P : Vals → Prop} (nil : P .nil)
    (cons : ∀ v tl, P tl → P (.cons v tl)) : ∀ vs, P vs
  | .nil => nil
  | .cons v tl => cons v tl (Vals.ind nil cons tl)

@[elab_as_elim] theorem Fields.ind {P : Fields → Prop} (nil : P .nil)
    (cons : ∀ n fv tl, P tl → P (.cons n fv tl)) : ∀ fs, P fs
  | .nil => nil
  | .cons n fv tl => cons n fv tl (Fields.ind nil cons tl)

/-! ### float-aware scalar equality -/

theorem feq_refl (na : Bool) (a : Nat) (M : Nat) :
    ((na && na) || (!na && !na && (a == a || (a % M == 0 && a % M == 0)))) = true := by
  cases na <;> simp

theorem feq_symm (na nb : Bool) (a b : Nat) (M : Nat) :
    ((na && nb) || (!na && !nb && (a == b || (a % M == 0 && b % M == 0)))) =
    ((nb && na) || (!nb && !na && (b == a || (b % M == 0 && a % M == 0)))) := by
  cases na <;> cases nb <;> simp <;> grind

theorem feq_trans (na nb nc : Bool) (a b c : Nat) (M : Nat)
    (h1 : ((na && nb) || (!na && !nb && (a == b || (a % M == 0 && b % M == 0)))) = true)
    (h2 : ((nb && nc) || (!nb && !nc && (b == c || (b % M == 0 && c % M == 0)))) = true) :
    ((na && nc) || (!na && !nc && (a == c || (a % M == 0 && c % M == 0)))) = true := by
  cases na <;> cases nb <;> cases nc <;> simp at * <;> grind

theorem numEq_refl (k : Kind) (a : Nat) : numEq k a a = true := by
  unfold numEq
  split
  · exact feq_refl _ _ _
  · exact feq_refl _ _ _
  · exact beq_self_eq_true a

theorem numEq_symm (k : Kind) (a b : Nat) : numEq k a b = numEq k b a := by
  unfold numEq
  split
  · exact feq_symm _ _ _ _ _
  · exact feq_symm _ _ _ _ _
  · exact Bool.eq_iff_iff.mpr (by rw [beq_iff_eq, beq_iff_eq]; exact eq_comm)

theorem numEq_trans (k : Kind) (a b c : Nat) (h1 : numEq k a b = true) (h2 : numEq k b c = true) :
    numEq k a c = true := by
  unfold numEq at *
  split
  · exact feq_trans _ _ _ _ _ _ _ h1 h2
  · exact feq_trans _ _ _ _ _ _ _ h1 h2
  · simp at *; omega

/-! ### map keys and entry lookup -/

/-- scalar values: exactly those on which `valBEq` is reflexive (usable as map keys) -/
def Val.isKey : Val → Bool
  | .msg _ => false
  | _ => true

theorem valBEq_eq {a b : Val} (h : valBEq a b = true) : a = b := by
  cases a <;> cases b <;> simp [valBEq] at h <;> simp [h]

theorem valBEq_refl {a : Val} (h : a.isKey = true) : valBEq a a = true := by
  cases a <;> simp [valBEq, Val.isKey] at *

theorem valBEq_isKey {a b : Val} (h : valBEq a b = true) : a.isKey = true := by
  cases a <;> cases b <;> simp [valBEq, Val.isKey] at *

/-- entry `e` carries the (scalar) key `k` -/
def entryHasKey (e : Msg) (k : Val) : Bool :=
  match entryKey e with
  | some k' => valBEq k k'
  | none => false

theorem entryHasKey_iff (e : Msg) (k : Val) :
    entryHasKey e k = true ↔ entryKey e = some k ∧ k.isKey = true := by
  unfold entryHasKey
  split
  · rename_i k' hk
    constructor
    · intro hb
      have := valBEq_eq hb
      subst this
      exact ⟨hk, valBEq_isKey hb⟩
    · rintro ⟨h1, h2⟩
      rw [hk] at h1
      cases h1
      exact valBEq_refl h2
  · rename_i hk
    simp [hk]

theorem lookupEntry_cons_msg (e : Msg) (tl : Vals) (k : Val) :
    lookupEntry (.cons (.msg e) tl) k = if entryHasKey e k then some e else lookupEntry tl k := by
  simp only [lookupEntry, entryHasKey]
  split
  · rename_i h; simp only [h]
  · rename_i h; simp only [h]; rfl

theorem lookupEntry_cons_num (n : Nat) (tl : Vals) (k : Val) :
    lookupEntry (.cons (.num n) tl) k = lookupEntry tl k := by
  simp only [lookupEntry]

theorem lookupEntry_cons_bytes (b : List Byte) (tl : Vals) (k : Val) :
    lookupEntry (.cons (.bytes b) tl) k = lookupEntry tl k := by
  simp only [lookupEntry]

theorem lookupEntry_key {ys : Vals} {k : Val} {e : Msg} (h : lookupEntry ys k = some e) :
    entryKey e = some k ∧ k.isKey = true := by
  induction ys using Vals.ind with
  | nil => simp [lookupEntry] at h
  | cons v tl ih =>
    cases v with
    | msg old =>
      rw [lookupEntry_cons_msg] at h
      split at h
      · rename_i hk; cases h; exact (entryHasKey_iff _ _).mp hk
      · exact ih h
    | num n => exact ih h
    | bytes b => exact ih h

theorem lookupEntry_mem {ys : Vals} {k : Val} {e : Msg} (h : lookupEntry ys k = some e) :
    Val.msg e ∈ ys.toList := by
  induction ys using Vals.ind with
  | nil => simp [lookupEntry] at h
  | cons v tl ih =>
    cases v with
    | msg old =>
      rw [lookupEntry_cons_msg] at h
      split at h
      · cases h; simp [Vals.toList]
      · simp [Vals.toList, ih h]
    | num n => simp [Vals.toList, ih h]
    | bytes b => simp [Vals.toList, ih h]

/-- a keyed entry that occurs in the list is found by *some* lookup result -/
theorem lookupEntry_isSome_of_mem {ys : Vals} {k : Val} {e : Msg} (hm : Val.msg e ∈ ys.toList)
    (hk : entryKey e = some k) (hkey : k.isKey = true) : (lookupEntry ys k).isSome = true := by
  induction ys using Vals.ind with
  | nil => simp [Vals.toList] at hm
  | cons v tl ih =>
    simp only [Vals.toList, List.mem_cons] at hm
    cases v with
    | msg old =>
      rw [lookupEntry_cons_msg]
      split
      · rfl
      · rename_i hne
        rcases hm with hm | hm
        · cases hm; exact (hne ((entryHasKey_iff _ _).mpr ⟨hk, hkey⟩)).elim
        · exact ih hm
    | num n =>
      rcases hm with hm | hm
      · cases hm
      · exact ih hm
    | bytes b =>
      rcases hm with hm | hm
      · cases hm
      · exact ih hm

/-! ### field lists -/

theorem Fields.get?_cons (n : Nat) (fv : FVal) (tl : Fields) (k : Nat) :
    (Fields.cons n fv tl).get? k = if n = k then some fv else tl.get? k := rfl

theorem Fields.get?_nil (k : Nat) : Fields.nil.get? k = none := rfl

theorem Fields.nums_length_cons (n : Nat) (fv : FVal) (tl : Fields) :
    (Fields.cons n fv tl).nums.length = tl.nums.length + 1 := by
  simp [Fields.nums]

theorem Fields.get?_isSome_iff (fs : Fields) (k : Nat) : (fs.get? k).isSome = true ↔ k ∈ fs.nums := by
  induction fs using Fields.ind with
  | nil => simp [Fields.get?, Fields.nums]
  | cons n fv tl ih =>
    rw [Fields.get?_cons]
    by_cases h : n = k
    · simp [h, Fields.nums]
    · simp only [h, if_false, ih, Fields.nums, List.mem_cons]
      constructor
      · exact Or.inr
      · rintro (h' | h')
        · exact (h h'.symm).elim
        · exact h'

theorem MsgD.find_num {d : MsgD} {n : Nat} {f : Field} (h : d.find n = some f) : f.num = n := by
  unfold MsgD.find at h
  have := List.find?_some h
  simpa using this

/-! ### field lists as finite maps: `get?` after `set`, `erase`, `clearOneof`, … (any list) -/

theorem Fields.get?_set (fs : Fields) (k : Nat) (fv : FVal) (j : Nat) :
    (fs.set k fv).get? j = if k = j then some fv else fs.get? j := by
  induction fs using Fields.ind with
  | nil => simp [Fields.set, Fields.get?]
  | cons n x tl ih =>
    simp only [Fields.set]
    split
    · simp [Fields.get?_cons]
    · split
      · rename_i h1 h2
        subst h2
        simp only [Fields.get?_cons]
        split <;> rfl
      · rename_i h1 h2
        simp only [Fields.get?_cons, ih]
        by_cases hnj : n = j
        · have : k ≠ j := by omega
          simp [hnj, this]
        · simp [hnj]

theorem Fields.get?_erase (fs : Fields) (k : Nat) (j : Nat) :
    (fs.erase k).get? j = if k = j then none else fs.get? j := by
  induction fs using Fields.ind with
  | nil => simp [Fields.erase, Fields.get?]
  | cons n x tl ih =>
    simp only [Fields.erase]
    split
    · rename_i h; subst h
      rw [ih, Fields.get?_cons]
      split <;> simp [*]
    · rename_i h
      simp only [Fields.get?_cons, ih]
      by_cases hnj : n = j
      · have : k ≠ j := by omega
        simp [hnj, this]
      · simp [hnj]

/-- field `j` is a member of oneof `o` other than `keep` -/
def MsgD.otherMember (d : MsgD) (o keep j : Nat) : Bool :=
  match d.find j with
  | some f => f.oneof == some o && j != keep
  | none => false

theorem Fields.clearOneof_cons (d : MsgD) (o keep n : Nat) (x : FVal) (tl : Fields) :
    Fields.clearOneof d o keep (.cons n x tl) =
      if d.otherMember o keep n then Fields.clearOneof d o keep tl
      else .cons n x (Fields.clearOneof d o keep tl) := by
  cases hf : d.find n with
  | none => simp [Fields.clearOneof, MsgD.otherMember, hf]
  | some f =>
    simp only [Fields.clearOneof, MsgD.otherMember, hf, Bool.and_eq_true, beq_iff_eq, bne_iff_ne]

theorem Fields.get?_clearOneof (d : MsgD) (o keep : Nat) (fs : Fields) (j : Nat) :
    (Fields.clearOneof d o keep fs).get? j = if d.otherMember o keep j then none else fs.get? j := by
  induction fs using Fields.ind with
  | nil => simp [Fields.clearOneof, Fields.get?]
  | cons n x tl ih =>
    rw [Fields.clearOneof_cons]
    by_cases hn : d.otherMember o keep n = true
    · simp only [hn, if_true, ih, Fields.get?_cons]
      by_cases hnj : n = j
      · subst hnj; simp [hn]
      · simp [hnj]
    · have hn' : d.otherMember o keep n = false := by simpa using hn
      rw [hn']
      simp only [Bool.false_eq_true, if_false]
      rw [Fields.get?_cons, Fields.get?_cons]
      by_cases hnj : n = j
      · subst hnj; simp [hn']
      · simp [hnj, ih]

theorem Fields.set_set (fs : Fields) (k : Nat) (a b : FVal) : (fs.set k a).set k b = fs.set k b := by
  induction fs using Fields.ind with
  | nil => simp [Fields.set]
  | cons n x tl ih =>
    simp only [Fields.set]
    split
    · simp [Fields.set]
    · split
      · rename_i h1 h2
        subst h2
        simp [Fields.set]
      · rename_i h1 h2
        simp [Fields.set, h1, h2, ih]

/-- field `j` is another member of the oneof of field `f` -/
def oneofOther (d : MsgD) (f : Field) (j : Nat) : Bool :=
  match f.oneof with
  | some o => d.otherMember o f.num j
  | none => false

theorem get?_setSingular (d : MsgD) (f : Field) (fs : Fields) (v : Val) (j : Nat) :
    (setSingular d f fs v).get? j =
      if f.num = j then (if f.card = .implicit && v.isZero then none else some (.one v))
      else if oneofOther d f j then none
      else fs.get? j := by
  unfold setSingular oneofOther
  cases hf : f.oneof with
  | none =>
    simp only
    split
    · rw [Fields.get?_erase]; simp
    · rw [Fields.get?_set]; simp
  | some o =>
    simp only
    split
    · rw [Fields.get?_erase, Fields.get?_clearOneof]
    · rw [Fields.get?_set, Fields.get?_clearOneof]

theorem Vals.isNil_iff (vs : Vals) : vs.isNil = true ↔ vs = .nil := by
  cases vs <;> simp [Vals.isNil]

/-- the list currently held by field `n` (`nil` when unpopulated) -/
def Fields.listAt (fs : Fields) (n : Nat) : Vals :=
  match fs.get? n with
  | some (.many o) => o
  | _ => .nil

/-- the submessage currently held by field `n` (the empty message when unpopulated) -/
def Fields.subAt (fs : Fields) (n : Nat) : Msg :=
  match fs.get? n with
  | some (.one (.msg x)) => x
  | _ => Msg.empty

theorem Vals.nil_append (vs : Vals) : Vals.nil.append vs = vs := by rw [Vals.append]

theorem appendList_eq (fs : Fields) (num : Nat) (vs : Vals) :
    appendList fs num vs =
      if vs.isNil then fs else fs.set num (.many ((fs.listAt num).append vs)) := by
  unfold appendList Fields.listAt
  split
  · rfl
  · split
    · rename_i old h; simp only [h]
    · rename_i h
      split
      · rename_i old h'; exact (h old h').elim
      · rw [Vals.nil_append]

theorem get?_appendList (fs : Fields) (num : Nat) (vs : Vals) (j : Nat) :
    (appendList fs num vs).get? j =
      if vs.isNil then fs.get? j
      else if num = j then some (.many ((fs.listAt num).append vs))
      else fs.get? j := by
  rw [appendList_eq]
  split
  · rfl
  · rw [Fields.get?_set]

/-! ### `mapPut` as a finite-map update -/

theorem lookupEntry_mapPut (vs : Vals) (k : Val) (e : Msg) (hk : entryHasKey e k = true) (k' : Val) :
    lookupEntry (mapPut vs k e) k' = if valBEq k' k then some e else lookupEntry vs k' := by
  have hkk := (entryHasKey_iff _ _).mp hk
  have key : ∀ k', entryHasKey e k' = valBEq k' k := by
    intro k'
    unfold entryHasKey
    rw [hkk.1]
  induction vs using Vals.ind with
  | nil =>
    rw [mapPut, lookupEntry_cons_msg, key]
  | cons v tl ih =>
    cases v with
    | msg old =>
      rw [mapPut]
      split
      · rename_i ko hko
        split
        · rename_i hb
          have := valBEq_eq hb
          subst this
          rw [lookupEntry_cons_msg, lookupEntry_cons_msg, key]
          have : entryHasKey old k' = valBEq k' k := by unfold entryHasKey; rw [hko]
          rw [this]
          split <;> rfl
        · rename_i hb
          rw [lookupEntry_cons_msg, lookupEntry_cons_msg, ih]
          have hold : entryHasKey old k' = valBEq k' ko := by unfold entryHasKey; rw [hko]
          rw [hold]
          by_cases h1 : valBEq k' ko = true
          · have h2 : valBEq k' k = false := by
              rw [Bool.eq_false_iff]
              intro h2
              have e1 := valBEq_eq h1
              have e2 := valBEq_eq h2
              subst e1
              rw [← e2] at hb
              exact hb h1
            simp [h1, h2]
          · simp [h1]
      · rename_i hko
        rw [lookupEntry_cons_msg, lookupEntry_cons_msg, ih]
        have hold : entryHasKey old k' = false := by unfold entryHasKey; rw [hko]
        simp [hold]
    | num n =>
      rw [mapPut, lookupEntry_cons_num, lookupEntry_cons_num]
      · exact ih
      · intro old h; cases h
    | bytes b =>
      rw [mapPut, lookupEntry_cons_bytes, lookupEntry_cons_bytes]
      · exact ih
      · intro old h; cases h

/-! ### unknown fields: specification of `unknownEq` -/

/-- the records `(number, raw bytes)` of an unknown-field byte string; `none` if malformed -/
def recsOf (x : List Byte) : Option (List (Nat × List Byte)) := splitUnknown (x.length + 1) x

theorem unknownOf_not_mem (n : Nat) (rs : List (Nat × List Byte)) (h : n ∉ rs.map (·.1)) :
    unknownOf n rs = [] := by
  unfold unknownOf
  have : rs.filter (·.1 == n) = [] := by
    rw [List.filter_eq_nil_iff]
    intro a ha hn
    apply h
    simp only [beq_iff_eq] at hn
    exact List.mem_map.mpr ⟨a, ha, hn⟩
  rw [this]; rfl

theorem all_nums_iff (rx ry : List (Nat × List Byte)) :
    ((rx.map (·.1) ++ ry.map (·.1)).eraseDups.all fun n => unknownOf n rx == unknownOf n ry) = true ↔
    ∀ n, unknownOf n rx = unknownOf n ry := by
  rw [List.all_eq_true]
  constructor
  · intro h n
    by_cases hn : n ∈ (rx.map (·.1) ++ ry.map (·.1))
    · have := h n (List.mem_eraseDups.mpr hn)
      simpa using this
    · rw [List.mem_append, not_or] at hn
      rw [unknownOf_not_mem n rx hn.1, unknownOf_not_mem n ry hn.2]
  · intro h n _
    simp [h n]

/-- specification of `unknownEq`: same length, and byte-identical or (both parse into records and
carry, for every field number, the same concatenated raw records) -/
def UnkEqSpec (x y : List Byte) : Prop :=
  x.length = y.length ∧
    (x = y ∨ ∃ rx ry, recsOf x = some rx ∧ recsOf y = some ry ∧ ∀ n, unknownOf n rx = unknownOf n ry)

theorem unknownEq_spec (x y : List Byte) : unknownEq x y = true ↔ UnkEqSpec x y := by
  unfold unknownEq UnkEqSpec recsOf
  by_cases hl : x.length = y.length
  · by_cases he : x = y
    · subst he; simp
    · simp only [hl, ne_eq, not_true_eq_false, if_false, beq_iff_eq, he, true_and, false_or]
      split
      · rename_i rx ry h1 h2
        rw [all_nums_iff]
        simp [h1, h2]
      · rename_i h
        constructor
        · intro h'; cases h'
        · rintro ⟨rx, ry, h1, h2, _⟩
          exact (h rx ry h1 h2).elim
  · simp [hl]

/-! ### well-formed message values

`wfMsg S mi m`: every populated field number is declared in the descriptor, field numbers are
pairwise distinct, the entries of a map field are entry messages with pairwise distinct scalar
keys — hereditarily.  This is the invariant of every message value the implementation can hold
(a Go struct/map cannot hold a field or a map key twice). -/

mutual
def wfMsg (S : Schema) (mi : Nat) : Msg → Bool
  | .mk fs _ => wfFields S (S.msg mi) fs
def wfFields (S : Schema) (d : MsgD) : Fields → Bool
  | .nil => true
  | .cons n fv tl =>
    (match d.find n with
     | some f => wfFVal S f fv
     | none => false) && (tl.get? n).isNone && wfFields S d tl
def wfFVal (S : Schema) (f : Field) : FVal → Bool
  | .one v => wfVal S f v
  | .many vs => if f.card = .map then wfEntries S f.sub vs else wfVals S f vs
def wfVal (S : Schema) (f : Field) : Val → Bool
  | .msg m => wfMsg S f.sub m
  | _ => true
def wfVals (S : Schema) (f : Field) : Vals → Bool
  | .nil => true
  | .cons v tl => wfVal S f v && wfVals S f tl
def wfEntries (S : Schema) (ei : Nat) : Vals → Bool
  | .nil => true
  | .cons v tl => wfEntry S ei tl v && wfEntries S ei tl
/-- `tl`: the entries after this one (no later entry may carry the same key) -/
def wfEntry (S : Schema) (ei : Nat) (tl : Vals) : Val → Bool
  | .msg e =>
    (match entryKey e with
     | some k => k.isKey && (lookupEntry tl k).isNone
     | none => false) && wfMsg S ei e
  | _ => false
end


/-! ### the value tree: direct submessages and reachability -/

def Fields.toList : Fields → List (Nat × FVal)
  | .nil => []
  | .cons n fv tl => (n, fv) :: tl.toList

/-- the message values among list elements -/
def Vals.msgs : Vals → List Msg
  | .nil => []
  | .cons (.msg m) tl => m :: tl.msgs
  | .cons _ tl => tl.msgs

/-- the message values held directly by a field value: the singular submessage, the message
elements of a list, the entry messages of a map -/
def FVal.msgs : FVal → List Msg
  | .one (.msg m) => [m]
  | .one _ => []
  | .many vs => vs.msgs

/-- `Child S mi m mi' m'`: `m'`, a message of type `mi'`, is held directly by a populated field of
`m`, a message of type `mi` (singular message/group fields incl. oneof members and extensions,
list elements, map entries — the map *value* is field 2 of the entry, one more step down) -/
inductive Child (S : Schema) : Nat → Msg → Nat → Msg → Prop
  | mk {mi : Nat} {fs : Fields} {unk : List Byte} {n : Nat} {fv : FVal} {f : Field} {m' : Msg} :
      (n, fv) ∈ fs.toList → (S.msg mi).find n = some f → m' ∈ fv.msgs →
      Child S mi (.mk fs unk) f.sub m'

/-- reachability in the value tree (reflexive-transitive closure of `Child`) -/
inductive Reach (S : Schema) : Nat → Msg → Nat → Msg → Prop
  | refl (mi : Nat) (m : Msg) : Reach S mi m mi m
  | step {mi m mi' m' mi'' m''} : Child S mi m mi' m' → Reach S mi' m' mi'' m'' → Reach S mi m mi'' m''

theorem Vals.mem_msgs {vs : Vals} {m : Msg} : m ∈ vs.msgs ↔ Val.msg m ∈ vs.toList := by
  induction vs using Vals.ind with
  | nil => simp [Vals.msgs, Vals.toList]
  | cons v tl ih =>
    cases v <;> simp [Vals.msgs, Vals.toList, ih]

/-! ### pigeonhole -/

/-- if every element of the duplicate-free list `xs` is `R`-matched by some element of `ys`, no
element of `ys` is matched by two elements of `xs`, and `ys` is not longer than `xs`, then every
element of `ys` is matched -/
theorem pigeonhole {α β : Type} (R : α → β → Prop) : ∀ (xs : List α) (ys : List β),
    xs.Nodup → ys.length ≤ xs.length →
    (∀ x ∈ xs, ∃ y ∈ ys, R x y) →
    (∀ x ∈ xs, ∀ x' ∈ xs, ∀ y, R x y → R x' y → x = x') →
    ∀ y ∈ ys, ∃ x ∈ xs, R x y := by
  classical
  intro xs
  induction xs with
  | nil =>
    intro ys _ hl _ _ y hy
    cases ys with
    | nil => cases hy
    | cons _ _ => simp at hl
  | cons a t ih =>
    intro ys hn hl hex hinj y hy
    rw [List.nodup_cons] at hn
    obtain ⟨y0, hy0, hR0⟩ := hex a (List.mem_cons_self ..)
    by_cases hyy : y = y0
    · subst hyy; exact ⟨a, List.mem_cons_self .., hR0⟩
    · have hy' : y ∈ ys.erase y0 := (List.mem_erase_of_ne hyy).mpr hy
      have hlen : (ys.erase y0).length ≤ t.length := by
        rw [List.length_erase_of_mem hy0]
        simp only [List.length_cons] at hl
        omega
      have hex' : ∀ x ∈ t, ∃ y ∈ ys.erase y0, R x y := by
        intro x hx
        obtain ⟨y1, hy1, hR1⟩ := hex x (List.mem_cons_of_mem _ hx)
        refine ⟨y1, ?_, hR1⟩
        have hne : y1 ≠ y0 := by
          intro e
          subst e
          have := hinj x (List.mem_cons_of_mem _ hx) a (List.mem_cons_self ..) y1 hR1 hR0
          subst this
          exact hn.1 hx
        exact (List.mem_erase_of_ne hne).mpr hy1
      have hinj' : ∀ x ∈ t, ∀ x' ∈ t, ∀ y, R x y → R x' y → x = x' :=
        fun x hx x' hx' y h h' => hinj x (List.mem_cons_of_mem _ hx) x' (List.mem_cons_of_mem _ hx') y h h'
      obtain ⟨x, hx, hR⟩ := ih (ys.erase y0) hn.2 hlen hex' hinj' y hy'
      exact ⟨x, List.mem_cons_of_mem _ hx, hR⟩

/-! ### positions vs. lookups -/

theorem Fields.mem_of_get? {fs : Fields} {n : Nat} {fv : FVal} (h : fs.get? n = some fv) :
    (n, fv) ∈ fs.toList := by
  induction fs using Fields.ind with
  | nil => simp [Fields.get?] at h
  | cons m x tl ih =>
    rw [Fields.get?_cons] at h
    split at h
    · rename_i hm; cases h; subst hm; simp [Fields.toList]
    · simp [Fields.toList, ih h]

theorem Fields.mem_nums_of_mem {fs : Fields} {n : Nat} {fv : FVal} (h : (n, fv) ∈ fs.toList) :
    n ∈ fs.nums := by
  induction fs using Fields.ind with
  | nil => simp [Fields.toList] at h
  | cons m x tl ih =>
    simp only [Fields.toList, List.mem_cons, Prod.mk.injEq] at h
    rcases h with ⟨h1, _⟩ | h
    · simp [Fields.nums, h1]
    · simp [Fields.nums, ih h]

theorem Fields.get?_of_mem {fs : Fields} {n : Nat} {fv : FVal} (hn : fs.nums.Nodup)
    (h : (n, fv) ∈ fs.toList) : fs.get? n = some fv := by
  induction fs using Fields.ind with
  | nil => simp [Fields.toList] at h
  | cons m x tl ih =>
    simp only [Fields.nums, List.nodup_cons] at hn
    simp only [Fields.toList, List.mem_cons, Prod.mk.injEq] at h
    rw [Fields.get?_cons]
    rcases h with ⟨h1, h2⟩ | h
    · simp [h1, h2]
    · have : m ≠ n := fun e => hn.1 (e ▸ Fields.mem_nums_of_mem h)
      simp [this, ih hn.2 h]

theorem Fields.toList_nodup {fs : Fields} (hn : fs.nums.Nodup) : fs.toList.Nodup := by
  induction fs using Fields.ind with
  | nil => simp [Fields.toList]
  | cons m x tl ih =>
    simp only [Fields.nums, List.nodup_cons] at hn
    simp only [Fields.toList, List.nodup_cons]
    exact ⟨fun h => hn.1 (Fields.mem_nums_of_mem h), ih hn.2⟩

theorem Fields.toList_length (fs : Fields) : fs.toList.length = fs.nums.length := by
  induction fs using Fields.ind with
  | nil => rfl
  | cons m x tl ih => simp [Fields.toList, Fields.nums, ih]

theorem wfFields_nodup {S : Schema} {d : MsgD} {fs : Fields} (h : wfFields S d fs = true) :
    fs.nums.Nodup := by
  induction fs using Fields.ind with
  | nil => simp [Fields.nums]
  | cons m x tl ih =>
    rw [wfFields, Bool.and_eq_true, Bool.and_eq_true] at h
    simp only [Fields.nums, List.nodup_cons]
    refine ⟨?_, ih h.2⟩
    intro hm
    have := (Fields.get?_isSome_iff tl m).mpr hm
    have h2 := h.1.2
    cases hg : tl.get? m with
    | none => rw [hg] at this; cases this
    | some _ => rw [hg] at h2; cases h2

theorem wfFields_mem {S : Schema} {d : MsgD} {fs : Fields} (h : wfFields S d fs = true)
    {n : Nat} {fv : FVal} (hm : (n, fv) ∈ fs.toList) : ∃ f, d.find n = some f ∧ wfFVal S f fv = true := by
  induction fs using Fields.ind with
  | nil => simp [Fields.toList] at hm
  | cons m x tl ih =>
    rw [wfFields, Bool.and_eq_true, Bool.and_eq_true] at h
    simp only [Fields.toList, List.mem_cons, Prod.mk.injEq] at hm
    rcases hm with ⟨h1, h2⟩ | hm
    · subst h1; subst h2
      have h1 := h.1.1
      split at h1
      · rename_i f hf; exact ⟨f, hf, h1⟩
      · cases h1
    · exact ih h.2 hm

/-- the entries of a well-formed map: keyed entry messages, each found by looking up its key -/
theorem wfEntries_mem {S : Schema} {ei : Nat} {vs : Vals} (h : wfEntries S ei vs = true)
    {v : Val} (hm : v ∈ vs.toList) :
    ∃ e k, v = .msg e ∧ entryKey e = some k ∧ k.isKey = true ∧ lookupEntry vs k = some e ∧
      wfMsg S ei e = true := by
  induction vs using Vals.ind with
  | nil => simp [Vals.toList] at hm
  | cons x tl ih =>
    rw [wfEntries, Bool.and_eq_true] at h
    simp only [Vals.toList, List.mem_cons] at hm
    have hx := h.1
    cases x with
    | msg e0 =>
      rw [wfEntry, Bool.and_eq_true] at hx
      have hx1 := hx.1
      split at hx1
      · rename_i k0 hk0
        rw [Bool.and_eq_true] at hx1
        rcases hm with hm | hm
        · subst hm
          refine ⟨e0, k0, rfl, hk0, hx1.1, ?_, hx.2⟩
          rw [lookupEntry_cons_msg, (entryHasKey_iff _ _).mpr ⟨hk0, hx1.1⟩]; rfl
        · obtain ⟨e, k, hv, hk, hkey, hl, hw⟩ := ih h.2 hm
          refine ⟨e, k, hv, hk, hkey, ?_, hw⟩
          rw [lookupEntry_cons_msg]
          split
          · rename_i hh
            have := ((entryHasKey_iff _ _).mp hh).1
            rw [hk0] at this
            cases this
            rw [hl] at hx1
            simp at hx1
          · exact hl
      · cases hx1
    | num n => simp [wfEntry] at hx
    | bytes b => simp [wfEntry] at hx

theorem wfEntries_nodup {S : Schema} {ei : Nat} {vs : Vals} (h : wfEntries S ei vs = true) :
    vs.toList.Nodup := by
  induction vs using Vals.ind with
  | nil => simp [Vals.toList]
  | cons x tl ih =>
    have hall := h
    rw [wfEntries, Bool.and_eq_true] at h
    simp only [Vals.toList, List.nodup_cons]
    refine ⟨?_, ih h.2⟩
    intro hm
    obtain ⟨e, k, hv, hk, hkey, _, _⟩ := wfEntries_mem h.2 hm
    subst hv
    have hx := h.1
    rw [wfEntry, Bool.and_eq_true, hk] at hx
    simp only [Bool.and_eq_true] at hx
    have := lookupEntry_isSome_of_mem hm hk hkey
    cases hl : lookupEntry tl k with
    | none => rw [hl] at this; cases this
    | some _ => rw [hl] at hx; simp at hx

/-! ### populated well-formed message values

`pwfMsg S mi m` strengthens `wfMsg` by the invariants of *populated* fields in a real message:
a list or map that is populated is non-empty, an implicit-presence scalar that is populated is
non-zero, at most one member of a oneof is populated — hereditarily. -/

/-- fields `n` and `m` are declared members of one oneof -/
def sameOneof (d : MsgD) (n m : Nat) : Bool :=
  match d.find n, d.find m with
  | some f, some g => f.oneof.isSome && f.oneof == g.oneof
  | _, _ => false

mutual
def pwfMsg (S : Schema) (mi : Nat) : Msg → Bool
  | .mk fs _ => pwfFields S (S.msg mi) fs
def pwfFields (S : Schema) (d : MsgD) : Fields → Bool
  | .nil => true
  | .cons n fv tl =>
    (match d.find n with
     | some f => pwfFVal S f fv
     | none => false) && (tl.get? n).isNone && tl.nums.all (fun m => !sameOneof d n m) &&
    pwfFields S d tl
def pwfFVal (S : Schema) (f : Field) : FVal → Bool
  | .one v => pwfVal S f v && !(f.card = .implicit && v.isZero)
  | .many vs => !vs.isNil && (if f.card = .map then pwfEntries S f.sub vs else pwfVals S f vs)
def pwfVal (S : Schema) (f : Field) : Val → Bool
  | .msg m => pwfMsg S f.sub m
  | _ => true
def pwfVals (S : Schema) (f : Field) : Vals → Bool
  | .nil => true
  | .cons v tl => pwfVal S f v && pwfVals S f tl
def pwfEntries (S : Schema) (ei : Nat) : Vals → Bool
  | .nil => true
  | .cons v tl => pwfEntry S ei tl v && pwfEntries S ei tl
def pwfEntry (S : Schema) (ei : Nat) (tl : Vals) : Val → Bool
  | .msg e =>
    (match entryKey e with
     | some k => k.isKey && (lookupEntry tl k).isNone
     | none => false) && pwfMsg S ei e
  | _ => false
end

mutual
theorem wf_of_pwfMsg (S : Schema) : ∀ (m : Msg) (mi : Nat), pwfMsg S mi m = true → wfMsg S mi m = true
  | .mk fs _, mi, h => by
    rw [pwfMsg] at h; rw [wfMsg]; exact wf_of_pwfFields S fs _ h
theorem wf_of_pwfFields (S : Schema) : ∀ (fs : Fields) (d : MsgD), pwfFields S d fs = true → wfFields S d fs = true
  | .nil, _, _ => by rw [wfFields]
  | .cons n fv tl, d, h => by
    rw [pwfFields, Bool.and_eq_true, Bool.and_eq_true, Bool.and_eq_true] at h
    rw [wfFields, Bool.and_eq_true, Bool.and_eq_true]
    refine ⟨⟨?_, h.1.1.2⟩, wf_of_pwfFields S tl d h.2⟩
    have h1 := h.1.1.1
    split at h1
    · rename_i f hf; exact wf_of_pwfFVal S fv f h1
    · cases h1
theorem wf_of_pwfFVal (S : Schema) : ∀ (fv : FVal) (f : Field), pwfFVal S f fv = true → wfFVal S f fv = true
  | .one v, f, h => by
    rw [pwfFVal, Bool.and_eq_true] at h; rw [wfFVal]; exact wf_of_pwfVal S v f h.1
  | .many vs, f, h => by
    rw [pwfFVal, Bool.and_eq_true] at h; rw [wfFVal]
    have h2 := h.2
    split
    · rename_i hm; simp only [hm, if_true] at h2; exact wf_of_pwfEntries S vs _ h2
    · rename_i hm; simp only [hm, if_false] at h2; exact wf_of_pwfVals S vs f h2
theorem wf_of_pwfVal (S : Schema) : ∀ (v : Val) (f : Field), pwfVal S f v = true → wfVal S f v = true
  | .msg m, f, h => by rw [pwfVal] at h; rw [wfVal]; exact wf_of_pwfMsg S m _ h
  | .num _, _, _ => by simp [wfVal]
  | .bytes _, _, _ => by simp [wfVal]
theorem wf_of_pwfVals (S : Schema) : ∀ (vs : Vals) (f : Field), pwfVals S f vs = true → wfVals S f vs = true
  | .nil, _, _ => by rw [wfVals]
  | .cons v tl, f, h => by
    rw [pwfVals, Bool.and_eq_true] at h; rw [wfVals, Bool.and_eq_true]
    exact ⟨wf_of_pwfVal S v f h.1, wf_of_pwfVals S tl f h.2⟩
theorem wf_of_pwfEntries (S : Schema) : ∀ (vs : Vals) (ei : Nat), pwfEntries S ei vs = true → wfEntries S ei vs = true
  | .nil, _, _ => by rw [wfEntries]
  | .cons v tl, ei, h => by
    rw [pwfEntries, Bool.and_eq_true] at h; rw [wfEntries, Bool.and_eq_true]
    exact ⟨wf_of_pwfEntry S v tl ei h.1, wf_of_pwfEntries S tl ei h.2⟩
theorem wf_of_pwfEntry (S : Schema) : ∀ (v : Val) (tl : Vals) (ei : Nat), pwfEntry S ei tl v = true → wfEntry S ei tl v = true
  | .msg e, tl, ei, h => by
    rw [pwfEntry, Bool.and_eq_true] at h; rw [wfEntry, Bool.and_eq_true]
    exact ⟨h.1, wf_of_pwfMsg S e ei h.2⟩
  | .num _, _, _, h => by simp [pwfEntry] at h
  | .bytes _, _, _, h => by simp [pwfEntry] at h
end

end Pb
