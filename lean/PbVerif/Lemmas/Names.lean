import PbVerif.Model.Names
/-
Helper lemmas for property C42 (engine `names`).  Core Lean only.
-/
namespace Model.Names

/-! ### byte classes -/

/-- bytes of a Go identifier over ASCII -/
def identByte (c : Nat) : Bool := isLower c || isUpper c || isDigit c || c == US
/-- bytes of a (dotted) protobuf name -/
def nameByte (c : Nat) : Bool := identByte c || c == DOT

theorem isLower_iff {c : Nat} : isLower c = true ↔ 97 ≤ c ∧ c ≤ 122 := by simp [isLower]
theorem isUpper_iff {c : Nat} : isUpper c = true ↔ 65 ≤ c ∧ c ≤ 90 := by simp [isUpper]
theorem isDigit_iff {c : Nat} : isDigit c = true ↔ 48 ≤ c ∧ c ≤ 57 := by simp [isDigit]

theorem isLetter_nameByte {c : Nat} (h : isLetter c = true) : nameByte c = true := by
  simp only [isLetter, nameByte, identByte, Bool.or_eq_true] at *
  rcases h with (h | h) | h <;> simp [h]

theorem isLetterDigit_nameByte {c : Nat} (h : isLetterDigit c = true) : nameByte c = true := by
  simp only [isLetterDigit, Bool.or_eq_true] at h
  rcases h with h | h
  · exact isLetter_nameByte h
  · simp [nameByte, identByte, h]

/-! ### GoCamelCase -/

theorem fullNameGo_bytes : ∀ (b : Bool) (s : Str), fullNameGo b s = true → ∀ x ∈ s, nameByte x = true
  | _, [], _ => by simp
  | b, c :: r, h => by
    intro x hx
    unfold fullNameGo at h
    rcases List.mem_cons.mp hx with rfl | hx
    · split at h
      · simp only [Bool.and_eq_true] at h; exact isLetter_nameByte h.1
      · split at h
        · rename_i hd; simp only [beq_iff_eq] at hd; simp [nameByte, hd]
        · simp only [Bool.and_eq_true] at h; exact isLetterDigit_nameByte h.1
    · split at h
      · simp only [Bool.and_eq_true] at h; exact fullNameGo_bytes _ r h.2 x hx
      · split at h
        · exact fullNameGo_bytes _ r h x hx
        · simp only [Bool.and_eq_true] at h; exact fullNameGo_bytes _ r h.2 x hx

theorem defaultByte_ident {c : Nat} (hc : nameByte c = true) (hnd : c ≠ DOT) :
    identByte (if isLower c = true then c - 32 else c) = true := by
  split
  · rename_i hl
    have := isLower_iff.mp hl
    have hu : isUpper (c - 32) = true := isUpper_iff.mpr (by omega)
    simp [identByte, hu]
  · simp only [nameByte, Bool.or_eq_true, beq_iff_eq] at hc
    rcases hc with hc | hc
    · exact hc
    · exact absurd hc hnd

theorem camelGo_bytes : ∀ (s : Str) (st w : Bool), (∀ x ∈ s, nameByte x = true) →
    ∀ y ∈ camelGo st w s, identByte y = true
  | [], _, _, _ => by simp [camelGo]
  | c :: r, st, w, h => by
    have hr : ∀ x ∈ r, nameByte x = true := fun x hx => h x (List.mem_cons_of_mem _ hx)
    have hc : nameByte c = true := h c (List.mem_cons_self ..)
    have ih := fun st w => camelGo_bytes r st w hr
    intro y hy
    unfold camelGo at hy
    by_cases h1 : (w && isLower c) = true
    · rw [if_pos h1] at hy
      simp only [Bool.and_eq_true] at h1
      rcases List.mem_cons.mp hy with rfl | hy
      · simp [identByte, h1.2]
      · exact ih _ _ y hy
    rw [if_neg h1] at hy
    by_cases hd : c = DOT
    · subst hd
      simp only [beq_self_eq_true, Bool.true_and, ↓reduceIte] at hy
      split at hy
      · exact ih _ _ y hy
      · rcases List.mem_cons.mp hy with rfl | hy
        · decide
        · exact ih _ _ y hy
    have hdb : (c == DOT) = false := by simp [hd]
    simp only [hdb, Bool.false_and, Bool.false_eq_true, ↓reduceIte] at hy
    split at hy
    · rcases List.mem_cons.mp hy with rfl | hy
      · decide
      · exact ih _ _ y hy
    · split at hy
      · exact ih _ _ y hy
      · split at hy
        · rename_i hdg
          rcases List.mem_cons.mp hy with rfl | hy
          · simp [identByte, hdg]
          · exact ih _ _ y hy
        · rcases List.mem_cons.mp hy with rfl | hy
          · exact defaultByte_ident hc hd
          · exact ih _ _ y hy

theorem camelGo_head (c : Nat) (r : Str) (h : isLetter c = true) :
    ∃ d t, camelGo true false (c :: r) = d :: t ∧ isUpper d = true := by
  simp only [isLetter, Bool.or_eq_true, beq_iff_eq] at h
  have hnd : (c == DOT) = false := by
    rcases h with (h | h) | h
    · subst h; decide
    · have := isLower_iff.mp h; simp only [DOT, beq_eq_false_iff_ne]; omega
    · have := isUpper_iff.mp h; simp only [DOT, beq_eq_false_iff_ne]; omega
  unfold camelGo
  simp only [Bool.false_and, Bool.false_eq_true, ↓reduceIte, hnd, Bool.and_true]
  by_cases hu : c = US
  · subst hu
    simp only [beq_self_eq_true, ↓reduceIte]
    exact ⟨CX, _, rfl, by decide⟩
  · have hub : (c == US) = false := by simp [hu]
    have hdg : isDigit c = false := by
      rcases h with (h | h) | h
      · exact absurd h hu
      · have := isLower_iff.mp h
        cases hd : isDigit c
        · rfl
        · have := isDigit_iff.mp hd; omega
      · have := isUpper_iff.mp h
        cases hd : isDigit c
        · rfl
        · have := isDigit_iff.mp hd; omega
    simp only [hub, Bool.false_and, Bool.false_eq_true, ↓reduceIte, hdg]
    refine ⟨_, _, rfl, ?_⟩
    rcases h with (h | h) | h
    · exact absurd h hu
    · simp only [h, ↓reduceIte]; have := isLower_iff.mp h; exact isUpper_iff.mpr (by omega)
    · have hl : isLower c = false := by
        have := isUpper_iff.mp h
        cases hd : isLower c
        · rfl
        · have := isLower_iff.mp hd; omega
      simp only [hl, Bool.false_eq_true, ↓reduceIte]; exact h

/-! ### GoSanitized -/

theorem keywords_no_underscore_head : ∀ k ∈ keywords, k.head? ≠ some US := by decide

theorem isKeyword_us_cons (t : Str) : isKeyword (US :: t) = false := by
  cases h : isKeyword (US :: t)
  · rfl
  · simp only [isKeyword, List.contains_iff_mem] at h
    exact absurd rfl (keywords_no_underscore_head _ h)

theorem identRunes_weaken (isL isD : Nat → Bool) : ∀ (s : Str),
    identRunes isL isD true s = true → identRunes isL isD false s = true
  | [], _ => rfl
  | c :: r, h => by
    simp only [identRunes, Bool.and_eq_true, Bool.or_eq_true, Bool.not_true, Bool.false_and,
      Bool.or_false, Bool.not_false, Bool.true_and] at *
    exact ⟨Or.inl h.1, h.2⟩

theorem identRunes_sanitizeMap (isL isD : Nat → Bool) : ∀ (s : Str),
    identRunes isL isD false (sanitizeMap isL isD s) = true
  | [] => rfl
  | c :: r => by
    have ih := identRunes_sanitizeMap isL isD r
    simp only [sanitizeMap, List.map_cons, identRunes, Bool.not_false, Bool.true_and,
      Bool.and_eq_true, Bool.or_eq_true, beq_iff_eq] at *
    refine ⟨?_, ih⟩
    by_cases h : isL c = true ∨ isD c = true
    · rw [if_pos h]
      rcases h with h | h
      · exact Or.inl (Or.inl h)
      · exact Or.inr h
    · rw [if_neg h]; exact Or.inl (Or.inr rfl)

/-! ### JSONCamelCase / JSONSnakeCase -/

/-- `afterUs`: the previous byte was `_`, a lower-case letter must follow -/
def wfSnakeGo (afterUs : Bool) : Str → Bool
  | [] => !afterUs
  | c :: r =>
    if afterUs then isLower c && wfSnakeGo false r
    else if c == US then wfSnakeGo true r
    else !isUpper c && wfSnakeGo false r

/-- the strings on which `JSONSnakeCase ∘ JSONCamelCase` is the identity: no upper-case letter, and every
`_` is directly followed by a lower-case letter -/
def wfSnake (s : Str) : Bool := wfSnakeGo false s

theorem jsonCamelGo_no_us : ∀ (s : Str) (w : Bool), ∀ c ∈ jsonCamelGo w s, c ≠ US
  | [], _ => by simp [jsonCamelGo]
  | a :: r, w => by
    intro c hc
    unfold jsonCamelGo at hc
    split at hc
    · rename_i hne
      simp only [bne_iff_ne, ne_eq] at hne
      rcases List.mem_cons.mp hc with rfl | hc
      · split
        · rename_i hl
          simp only [Bool.and_eq_true] at hl
          have := isLower_iff.mp hl.2; simp only [US]; omega
        · exact hne
      · exact jsonCamelGo_no_us r _ c hc
    · exact jsonCamelGo_no_us r _ c hc

theorem wfSnake_jsonSnakeCase : ∀ (t : Str), (∀ c ∈ t, c ≠ US) → wfSnakeGo false (jsonSnakeCase t) = true
  | [], _ => rfl
  | c :: r, h => by
    have ih := wfSnake_jsonSnakeCase r (fun x hx => h x (List.mem_cons_of_mem _ hx))
    have hc : c ≠ US := h c (List.mem_cons_self ..)
    unfold jsonSnakeCase
    split
    · rename_i hu
      have := isUpper_iff.mp hu
      have hl : isLower (c + 32) = true := isLower_iff.mpr (by omega)
      simp [wfSnakeGo, hl, ih]
    · rename_i hu
      have hcb : (c == US) = false := by simp [hc]
      simp [wfSnakeGo, hcb, hu, ih]

theorem snake_camel_of_wf : ∀ (s : Str) (w : Bool), wfSnakeGo w s = true →
    jsonSnakeCase (jsonCamelGo w s) = if w then US :: s else s
  | [], w, h => by
    cases w
    · rfl
    · simp [wfSnakeGo] at h
  | c :: r, w, h => by
    unfold wfSnakeGo at h
    cases w
    · simp only [Bool.false_eq_true, ↓reduceIte] at h ⊢
      by_cases hc : c = US
      · subst hc
        simp only [beq_self_eq_true, ↓reduceIte] at h
        have ih := snake_camel_of_wf r true h
        simpa [jsonCamelGo] using ih
      · have hcb : (c == US) = false := by simp [hc]
        simp only [hcb, Bool.false_eq_true, ↓reduceIte, Bool.and_eq_true, Bool.not_eq_eq_eq_not,
          Bool.not_true] at h
        have ih := snake_camel_of_wf r false h.2
        have hne : (c != US) = true := by simp [hc]
        simp only [Bool.false_eq_true, ↓reduceIte] at ih
        simp [jsonCamelGo, hne, jsonSnakeCase, h.1, ih]
    · simp only [↓reduceIte, Bool.and_eq_true] at h ⊢
      have hl := isLower_iff.mp h.1
      have hlu : (c != US) = true := by simp only [US, bne_iff_ne, ne_eq]; omega
      have hup : isUpper (c - 32) = true := isUpper_iff.mpr (by omega)
      have ih := snake_camel_of_wf r false h.2
      have e : c - 32 + 32 = c := by omega
      simp only [Bool.false_eq_true, ↓reduceIte] at ih
      simp [jsonCamelGo, hlu, h.1, jsonSnakeCase, hup, ih, e]

theorem camel_snake_of_no_us : ∀ (s : Str), (∀ c ∈ s, c ≠ US) →
    jsonCamelGo false (jsonSnakeCase s) = s
  | [], _ => rfl
  | c :: r, h => by
    have ih := camel_snake_of_no_us r (fun x hx => h x (List.mem_cons_of_mem _ hx))
    have hc : c ≠ US := h c (List.mem_cons_self ..)
    unfold jsonSnakeCase
    split
    · rename_i hu
      have := isUpper_iff.mp hu
      have hl : isLower (c + 32) = true := isLower_iff.mpr (by omega)
      have hne : (c + 32 != US) = true := by simp only [US, bne_iff_ne, ne_eq]; omega
      simp [jsonCamelGo, hne, hl, ih]
    · have hne : (c != US) = true := by simp [hc]
      simp [jsonCamelGo, hne, ih]

/-! ### makeNameUnique -/

theorem le_maxLen {l : List Str} {s : Str} (h : s ∈ l) : s.length ≤ maxLen l := by
  induction l with
  | nil => cases h
  | cons a t ih =>
    simp only [maxLen, List.foldr_cons]
    rcases List.mem_cons.mp h with rfl | h
    · exact Nat.le_max_left ..
    · exact Nat.le_trans (ih h) (Nat.le_max_right ..)

theorem not_mem_of_long {l : List Str} {s : Str} (h : maxLen l < s.length) : s ∉ l :=
  fun hm => absurd (le_maxLen hm) (by omega)

theorem clash_false_iff {used : List Str} {g : Bool} {name : Str} :
    clash used g name = false ↔ name ∉ used ∧ (g = true → GET ++ name ∉ used) := by
  cases g <;> simp [clash]

theorem clash_of_long {used : List Str} {g : Bool} {name : Str} (h : maxLen used < name.length) :
    clash used g name = false := by
  refine clash_false_iff.mpr ⟨not_mem_of_long h, fun _ => not_mem_of_long ?_⟩
  simp only [List.length_append]; omega

theorem mkUniqueAux_isSome (used : List Str) (g : Bool) : ∀ (fuel : Nat) (name : Str),
    maxLen used < name.length + fuel → (mkUniqueAux used g fuel name).isSome = true
  | 0, name, h => by
    simp only [mkUniqueAux, clash_of_long (show maxLen used < name.length by omega)]; rfl
  | fuel+1, name, h => by
    unfold mkUniqueAux
    split
    · exact mkUniqueAux_isSome used g fuel _ (by simp only [List.length_append, List.length_cons, List.length_nil]; omega)
    · rfl

theorem mkUniqueAux_spec (used : List Str) (g : Bool) : ∀ (fuel : Nat) (name r : Str),
    mkUniqueAux used g fuel name = some r →
    clash used g r = false ∧ ∃ k, r = name ++ List.replicate k US
  | 0, name, r, h => by
    unfold mkUniqueAux at h
    split at h
    · cases h
    · rename_i hc
      cases h
      exact ⟨by simpa using hc, 0, by simp⟩
  | fuel+1, name, r, h => by
    unfold mkUniqueAux at h
    split at h
    · obtain ⟨h1, k, hk⟩ := mkUniqueAux_spec used g fuel _ r h
      refine ⟨h1, k+1, ?_⟩
      rw [hk, List.append_assoc]; rfl
    · rename_i hc
      cases h
      exact ⟨by simpa using hc, 0, by simp⟩

theorem mkUnique_isSome (used : List Str) (g : Bool) (name : Str) :
    (mkUnique used g name).isSome = true :=
  mkUniqueAux_isSome used g _ name (by omega)

theorem mkUnique_spec {used : List Str} {g : Bool} {name r : Str} (h : mkUnique used g name = some r) :
    r ∉ used ∧ (g = true → GET ++ r ∉ used) ∧ ∃ k, r = name ++ List.replicate k US := by
  obtain ⟨h1, h2⟩ := mkUniqueAux_spec used g _ name r h
  exact ⟨(clash_false_iff.mp h1).1, (clash_false_iff.mp h1).2, h2⟩

theorem get_append_ne (r : Str) : r ≠ GET ++ r := by
  intro h
  have := congrArg List.length h
  simp [GET, str] at this
  omega

theorem get_append_inj {a b : Str} (h : GET ++ a = GET ++ b) : a = b := List.append_cancel_left h

/-- no oneof's `Get` method name is the Go name of a struct member -/
def NoGetClash (rs : List (Str × Kind)) : Prop :=
  ∀ p ∈ rs, p.2 = Kind.oneof → ∀ q ∈ rs, q.1 ≠ GET ++ p.1

theorem NoGetClash.tail {p : Str × Kind} {rs : List (Str × Kind)} (h : NoGetClash (p :: rs)) :
    NoGetClash rs :=
  fun a ha hk b hb => h a (List.mem_cons_of_mem _ ha) hk b (List.mem_cons_of_mem _ hb)

theorem resolveOps_isSome : ∀ (ops : List (Str × Kind)) (used : List Str),
    (resolveOps used ops).isSome = true
  | [], _ => rfl
  | (n, k) :: ops, used => by
    unfold resolveOps
    obtain ⟨r, hr⟩ := Option.isSome_iff_exists.mp (mkUnique_isSome used k.hasGetter n)
    obtain ⟨rs, hrs⟩ := Option.isSome_iff_exists.mp (resolveOps_isSome ops (markUsed used k.hasGetter r))
    simp [hr, hrs]

theorem resolveOps_kinds : ∀ (ops : List (Str × Kind)) (used : List Str) (rs : List (Str × Kind)),
    resolveOps used ops = some rs → rs.map (·.2) = ops.map (·.2)
  | [], _, rs, h => by simp [resolveOps] at h; subst h; rfl
  | (n, k) :: ops, used, rs, h => by
    unfold resolveOps at h
    simp only [Option.bind_eq_some_iff] at h
    obtain ⟨r, _, rs', hrs, h⟩ := h
    cases h
    simp [resolveOps_kinds ops _ rs' hrs]

/-- The invariant of the field loop of `newMessage`, read backwards: every resolved name is new with
respect to the names in use, the Go names are pairwise distinct, and no Go name is the `Get` method of a
field. -/
theorem resolveOps_spec : ∀ (ops : List (Str × Kind)) (used : List Str) (rs : List (Str × Kind)),
    resolveOps used ops = some rs →
    (∀ p ∈ rs, p.1 ∉ used ∧ (p.2.hasGetter = true → GET ++ p.1 ∉ used)) ∧
    (rs.map (·.1)).Nodup ∧
    (∀ p ∈ rs, ∀ q ∈ rs, q.2.hasGetter = true → p.1 ≠ GET ++ q.1)
  | [], _, rs, h => by simp [resolveOps] at h; subst h; simp
  | (n, k) :: ops, used, rs, h => by
    unfold resolveOps at h
    simp only [Option.bind_eq_some_iff] at h
    obtain ⟨r, hr, rs', hrs, h⟩ := h
    cases h
    obtain ⟨hr1, hr2, -⟩ := mkUnique_spec hr
    obtain ⟨ih1, ih2, ih3⟩ := resolveOps_spec ops _ rs' hrs
    -- what membership in the new `used` means for the names of the tail
    have key : ∀ p ∈ rs', p.1 ≠ r ∧ p.1 ∉ used ∧
        (p.2.hasGetter = true → GET ++ p.1 ≠ r ∧ GET ++ p.1 ∉ used) ∧
        (k.hasGetter = true → p.1 ≠ GET ++ r) := by
      intro p hp
      obtain ⟨a, b⟩ := ih1 p hp
      cases hk : k.hasGetter
      · simp only [markUsed, hk, Bool.false_eq_true, ↓reduceIte, List.mem_cons, not_or] at a b
        exact ⟨a.1, a.2, fun hg => ⟨(b hg).1, (b hg).2⟩, fun h => by cases h⟩
      · simp only [markUsed, hk, ↓reduceIte, List.mem_cons, not_or] at a b
        exact ⟨a.2.1, a.2.2, fun hg => ⟨(b hg).2.1, (b hg).2.2⟩, fun _ => a.1⟩
    refine ⟨?_, ?_, ?_⟩
    · intro p hp
      rcases List.mem_cons.mp hp with rfl | hp
      · exact ⟨hr1, hr2⟩
      · exact ⟨(key p hp).2.1, fun hg => ((key p hp).2.2.1 hg).2⟩
    · simp only [List.map_cons, List.nodup_cons]
      refine ⟨?_, ih2⟩
      intro hm
      obtain ⟨p, hp, e⟩ := List.mem_map.mp hm
      exact (key p hp).1 e
    · intro p hp q hq hg
      rcases List.mem_cons.mp hp with rfl | hp <;> rcases List.mem_cons.mp hq with rfl | hq
      · exact get_append_ne r
      · exact fun e => ((key q hq).2.2.1 hg).1 e.symm
      · exact (key p hp).2.2.2 hg
      · exact ih3 p hp q hq hg

/-! ### the wrapper-type rename loop -/

theorem wrapperAux_isSome (nested : List Str) : ∀ (fuel : Nat) (w : Str),
    maxLen nested < w.length + fuel → (wrapperAux nested fuel w).isSome = true
  | 0, w, h => by
    have : w ∉ nested := not_mem_of_long (by omega)
    simp [wrapperAux, this]
  | fuel+1, w, h => by
    unfold wrapperAux
    split
    · exact wrapperAux_isSome nested fuel _ (by simp only [List.length_append, List.length_cons, List.length_nil]; omega)
    · rfl

theorem wrapperAux_spec (nested : List Str) : ∀ (fuel : Nat) (w r : Str),
    wrapperAux nested fuel w = some r → r ∉ nested ∧ (w ∉ nested → r = w)
  | 0, w, r, h => by
    unfold wrapperAux at h
    split at h
    · cases h
    · rename_i hc; cases h
      exact ⟨fun hm => hc (List.contains_iff_mem.mpr hm), fun _ => rfl⟩
  | fuel+1, w, r, h => by
    unfold wrapperAux at h
    split at h
    · rename_i hc
      exact ⟨(wrapperAux_spec nested fuel _ r h).1, fun hn => absurd (List.contains_iff_mem.mp hc) hn⟩
    · rename_i hc; cases h
      exact ⟨fun hm => hc (List.contains_iff_mem.mpr hm), fun _ => rfl⟩

/-! ### opaque API -/

theorem lookup_none_of_not_mem {tbl : List (Str × Nat)} {c : Str}
    (h : ∀ e ∈ tbl, e.1 ≠ c) : tbl.lookup c = none := by
  induction tbl with
  | nil => rfl
  | cons e t ih =>
    obtain ⟨k, v⟩ := e
    have hk : (c == k) = false := by
      have := h (k, v) (List.mem_cons_self ..)
      simp only [ne_eq] at this
      simp only [beq_eq_false_iff_ne, ne_eq]
      exact fun e => this e.symm
    simp only [List.lookup, hk]
    exact ih (fun e he => h e (List.mem_cons_of_mem _ he))

theorem conflictEvents_nil : ∀ (cs : List Str) (i : Nat) (tbl : List (Str × Nat)),
    cs.Nodup → (∀ e ∈ tbl, e.1 ∉ cs) → conflictEvents i tbl cs = []
  | [], _, _, _, _ => rfl
  | c :: rest, i, tbl, hn, ht => by
    have hl : tbl.lookup c = none :=
      lookup_none_of_not_mem (fun e he hc => ht e he (hc ▸ List.mem_cons_self ..))
    simp only [conflictEvents, hl]
    refine conflictEvents_nil rest _ _ (List.nodup_cons.mp hn).2 ?_
    intro e he
    rcases List.mem_cons.mp he with rfl | he
    · exact (List.nodup_cons.mp hn).1
    · exact fun hm => ht e he (List.mem_cons_of_mem _ hm)

/-- the five method-name prefixes of the opaque API -/
def methodPrefixes : List Str := [str "Get", str "Set", str "Has", str "Clear", str "Which"]

theorem prefix_free : ∀ p ∈ methodPrefixes, ∀ q ∈ methodPrefixes, ∀ (a b : Str),
    p ++ a = q ++ b → p = q ∧ a = b := by
  intro p hp q hq a b h
  have hpq : p = q := by
    have hh : (p ++ a).head? = (q ++ b).head? := by rw [h]
    simp only [methodPrefixes, List.mem_cons, List.not_mem_nil, or_false] at hp hq
    rcases hp with rfl | rfl | rfl | rfl | rfl <;> rcases hq with rfl | rfl | rfl | rfl | rfl <;>
      first | rfl | (exfalso; revert hh; simp [str])
  subst hpq
  exact ⟨rfl, List.append_cancel_left h⟩

theorem methodsOf_nodup : ∀ (tbl : List (List Str × Str)),
    (∀ row ∈ tbl, row.1.Nodup ∧ ∀ p ∈ row.1, p ∈ methodPrefixes) →
    (tbl.map (·.2)).Nodup → (methodsOf tbl).Nodup
  | [], _, _ => by simp [methodsOf]
  | (ps, c) :: t, hrow, hn => by
    have ih := methodsOf_nodup t (fun r hr => hrow r (List.mem_cons_of_mem _ hr))
      (List.nodup_cons.mp hn).2
    have hps := hrow (ps, c) (List.mem_cons_self ..)
    simp only [methodsOf, List.map_cons, List.flatten_cons] at ih ⊢
    rw [List.nodup_append]
    refine ⟨?_, ih, ?_⟩
    · exact List.Pairwise.map _ (fun x y hxy e => hxy (List.append_cancel_right e)) hps.1
    · intro x hx y hy e
      subst e
      obtain ⟨p, hp, rfl⟩ := List.mem_map.mp hx
      obtain ⟨l, hl, hy⟩ := List.mem_flatten.mp hy
      obtain ⟨⟨qs, d⟩, hrow', rfl⟩ := List.mem_map.mp hl
      obtain ⟨q, hq, e⟩ := List.mem_map.mp hy
      have := (prefix_free q ((hrow _ (List.mem_cons_of_mem _ hrow')).2 q hq) p (hps.2 p hp) d c e).2
      subst this
      exact (List.nodup_cons.mp hn).1 (List.mem_map.mpr ⟨(qs, d), hrow', rfl⟩)

/-! ### helpers for the message-level statements -/

theorem reserved_no_get : ∀ u ∈ reserved, u.take 3 ≠ GET := by decide

theorem get_not_reserved (x : Str) : GET ++ x ∉ reserved := by
  intro h
  exact reserved_no_get _ h (by simp [GET, str])

/-- where the resolved names come from -/
theorem resolveOps_origin : ∀ (ops : List (Str × Kind)) (used : List Str) (rs : List (Str × Kind)),
    resolveOps used ops = some rs → ∀ q ∈ rs, ∃ op ∈ ops, ∃ k, q.1 = op.1 ++ List.replicate k US
  | [], _, rs, h => by simp [resolveOps] at h; subst h; simp
  | (n, k) :: ops, used, rs, h => by
    unfold resolveOps at h
    simp only [Option.bind_eq_some_iff] at h
    obtain ⟨r, hr, rs', hrs, h⟩ := h
    cases h
    intro q hq
    rcases List.mem_cons.mp hq with rfl | hq
    · exact ⟨(n, k), List.mem_cons_self .., (mkUnique_spec hr).2.2⟩
    · obtain ⟨op, hop, hk⟩ := resolveOps_origin ops _ rs' hrs q hq
      exact ⟨op, List.mem_cons_of_mem _ hop, hk⟩

theorem take3_underscores (a : Str) (k : Nat) (x : Str)
    (h : a ++ List.replicate k US = GET ++ x) : a.take 3 = GET := by
  have h3 := congrArg (List.take 3) h
  have hg : (GET ++ x).take 3 = GET := by simp [GET, str]
  rw [hg] at h3
  match a, h3 with
  | [], h3 =>
    match k, h3 with
    | 0, h3 => simp [GET, str] at h3
    | 1, h3 => simp [List.replicate, GET, str] at h3
    | 2, h3 => simp [List.replicate, GET, str] at h3
    | k+3, h3 => simp [List.replicate, GET, str, US] at h3
  | [a1], h3 =>
    match k, h3 with
    | 0, h3 => simp [GET, str] at h3
    | 1, h3 => simp [List.replicate, GET, str] at h3
    | k+2, h3 => simp [List.replicate, GET, str, US] at h3
  | [a1, a2], h3 =>
    match k, h3 with
    | 0, h3 => simp [GET, str] at h3
    | k+1, h3 => simp [List.replicate, GET, str, US] at h3
  | a1 :: a2 :: a3 :: t, h3 => simpa using h3

/-- the `makeNameUnique` calls of a message without oneofs are one call per field -/
theorem opsOf_no_oneof (os : List Str) : ∀ (fs : List Field) (seen : List Nat),
    (∀ f ∈ fs, f.oneof = none) → opsOf os seen fs = fs.map fun f => (goCamelCase f.name, Kind.plain)
  | [], _, _ => rfl
  | f :: fs, seen, h => by
    have hf := h f (List.mem_cons_self ..)
    have ih := opsOf_no_oneof os fs seen (fun g hg => h g (List.mem_cons_of_mem _ hg))
    simp [opsOf, hf, ih]

theorem mapIdxFrom_mem {α β : Type} (f : Nat → α → β) : ∀ (l : List α) (i : Nat) (x : β),
    x ∈ mapIdxFrom f i l → ∃ j a, x = f j a
  | [], _, _, h => by cases h
  | a :: t, i, x, h => by
    rcases List.mem_cons.mp h with rfl | h
    · exact ⟨i, a, rfl⟩
    · exact mapIdxFrom_mem f t (i+1) x h

theorem mapIdxFrom_const {α β : Type} (f : Nat → α → β) (g : α → β) (hfg : ∀ i a, f i a = g a) :
    ∀ (l : List α) (i : Nat), mapIdxFrom f i l = l.map g
  | [], _ => rfl
  | a :: t, i => by simp [mapIdxFrom, hfg, mapIdxFrom_const f g hfg t (i+1)]

theorem camelRows_prefixes (m : Msg) (ev : List Nat) :
    ∀ row ∈ camelRows m ev, row.1.Nodup ∧ ∀ p ∈ row.1, p ∈ methodPrefixes := by
  intro row hrow
  unfold camelRows at hrow
  rcases List.mem_append.mp hrow with h | h
  · obtain ⟨j, f, rfl⟩ := mapIdxFrom_mem _ _ _ _ h
    show (fieldMethods f.presence).Nodup ∧ ∀ p ∈ fieldMethods f.presence, p ∈ methodPrefixes
    cases f.presence <;> decide
  · obtain ⟨r, _, rfl⟩ := List.mem_map.mp h
    show oneofMethods.Nodup ∧ ∀ p ∈ oneofMethods, p ∈ methodPrefixes
    decide

end Model.Names
