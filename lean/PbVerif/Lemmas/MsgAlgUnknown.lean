import PbVerif.Lemmas.MsgAlg
/-
Unknown-field byte strings: the records returned by `splitUnknown` partition the bytes, and
"same raw bytes per field number" implies "same total length".
Core-only.
-/
namespace Pb
open Spec (Byte)

abbrev Rec := Nat × List Byte

def totalLen (rs : List Rec) : Nat := (rs.map (fun r => r.2.length)).sum

theorem unknownOf_cons (n : Nat) (r : Rec) (t : List Rec) :
    unknownOf n (r :: t) = if r.1 = n then r.2 ++ unknownOf n t else unknownOf n t := by
  unfold unknownOf
  rw [List.filter_cons]
  by_cases h : r.1 = n
  · simp [h]
  · simp [h]

theorem unknownOf_nil (n : Nat) : unknownOf n [] = [] := rfl

/-- the records other than those of field `n` -/
def dropNum (n : Nat) (rs : List Rec) : List Rec := rs.filter (fun r => !(r.1 == n))

theorem totalLen_split (n : Nat) (rs : List Rec) :
    totalLen rs = (unknownOf n rs).length + totalLen (dropNum n rs) := by
  induction rs with
  | nil => rfl
  | cons r t ih =>
    rw [unknownOf_cons]
    unfold totalLen dropNum at *
    rw [List.filter_cons]
    by_cases h : r.1 = n
    · simp [h, ih]; omega
    · simp [h, ih]; omega

theorem unknownOf_dropNum (m n : Nat) (rs : List Rec) :
    unknownOf m (dropNum n rs) = if m = n then [] else unknownOf m rs := by
  induction rs with
  | nil => simp [dropNum, unknownOf_nil]
  | cons r t ih =>
    unfold dropNum at *
    rw [List.filter_cons]
    by_cases h : r.1 = n
    · simp only [h, beq_self_eq_true, Bool.not_true, Bool.false_eq_true, if_false, ih, unknownOf_cons]
      by_cases hm : m = n
      · simp [hm]
      · have : ¬ n = m := fun e => hm e.symm
        simp [hm, this]
    · have hb : (!(r.1 == n)) = true := by simp [h]
      simp only [hb, if_true, unknownOf_cons, ih]
      by_cases hm : m = n
      · subst hm; simp [h]
      · simp [hm]

theorem dropNum_length_le (n : Nat) (rs : List Rec) : (dropNum n rs).length ≤ rs.length :=
  List.length_filter_le _ _

theorem dropNum_length_lt (r : Rec) (t : List Rec) : (dropNum r.1 (r :: t)).length < (r :: t).length := by
  unfold dropNum
  rw [List.filter_cons]
  simp only [beq_self_eq_true, Bool.not_true, Bool.false_eq_true, if_false, List.length_cons]
  exact Nat.lt_succ_of_le (List.length_filter_le _ _)

/-- same raw bytes per field number ⇒ same total length -/
theorem totalLen_eq_of_unknownOf : ∀ (k : Nat) (rx ry : List Rec), rx.length + ry.length ≤ k →
    (∀ n, unknownOf n rx = unknownOf n ry) → totalLen rx = totalLen ry := by
  intro k
  induction k with
  | zero =>
    intro rx ry hk _
    have h1 : rx = [] := List.eq_nil_of_length_eq_zero (by omega)
    have h2 : ry = [] := List.eq_nil_of_length_eq_zero (by omega)
    rw [h1, h2]
  | succ k ih =>
    intro rx ry hk h
    have step : ∀ n, (dropNum n rx).length + (dropNum n ry).length ≤ k → totalLen rx = totalLen ry := by
      intro n hlen
      rw [totalLen_split n rx, totalLen_split n ry, h n]
      congr 1
      apply ih _ _ hlen
      intro m
      rw [unknownOf_dropNum, unknownOf_dropNum, h m]
    cases rx with
    | nil =>
      cases ry with
      | nil => rfl
      | cons r t =>
        apply step r.1
        have := dropNum_length_lt r t
        simp only [dropNum, List.filter_nil, List.length_nil, List.length_cons] at *
        omega
    | cons r t =>
      apply step r.1
      have h1 := dropNum_length_lt r t
      have h2 := dropNum_length_le r.1 ry
      simp only [List.length_cons] at *
      omega

/-- the records of a well-formed unknown-field string partition it -/
theorem splitUnknown_flatten : ∀ (fuel : Nat) (b : List Byte) (rs : List Rec),
    splitUnknown fuel b = some rs → b.length = totalLen rs := by
  intro fuel
  induction fuel with
  | zero => intro b rs h; simp [splitUnknown] at h
  | succ fuel ih =>
    intro b rs h
    cases b with
    | nil => simp [splitUnknown] at h; subst h; rfl
    | cons x t =>
      rw [splitUnknown] at h
      · split at h
        · rename_i num wt n hc
          split at h
          · cases h
          · cases hs : splitUnknown fuel ((x :: t).drop n) with
            | none => rw [hs] at h; cases h
            | some r' =>
              rw [hs] at h
              simp only [Option.map_some, Option.some.injEq] at h
              subst h
              have := ih _ _ hs
              simp only [totalLen, List.map_cons, List.sum_cons] at this ⊢
              rw [← this, List.length_take, List.length_drop]
              omega
        · cases h
      · intro hh; cases hh

theorem recsOf_length {x : List Byte} {rx : List Rec} (h : recsOf x = some rx) : x.length = totalLen rx :=
  splitUnknown_flatten _ _ _ h

end Pb
