import PbVerif.Lemmas.JsonTextRoundJ3
/-
JSON round trip of map fields: `marshalMap` prints the entries in key order, `unmarshalMap` re-inserts them
(distinct keys: every `mmap.Set` appends), the result is the key-sorted normal form.
-/
namespace JT
open Pb

/-! ### the insertion sort used for `GenericKeyOrder` -/

theorem insertK_perm {α : Type} (less : Val → Val → Bool) (x : Val × α) : ∀ l : List (Val × α),
    (insertK less x l).Perm (x :: l)
  | [] => List.Perm.refl _
  | y :: tl => by
    simp only [insertK]
    split
    · exact List.Perm.refl _
    · exact ((insertK_perm less x tl).cons y).trans (List.Perm.swap x y tl)

theorem sortK_perm {α : Type} (less : Val → Val → Bool) : ∀ l : List (Val × α), (sortK less l).Perm l
  | [] => List.Perm.refl _
  | x :: tl => (insertK_perm less x (sortK less tl)).trans ((sortK_perm less tl).cons x)

/-- sorting depends on the keys only: payloads are carried along -/
theorem insertK_map {α β : Type} (less : Val → Val → Bool) (g : Val → α → β) (x : Val × α) : ∀ l : List (Val × α),
    insertK less (x.1, g x.1 x.2) (l.map fun p => (p.1, g p.1 p.2)) =
      (insertK less x l).map fun p => (p.1, g p.1 p.2)
  | [] => rfl
  | y :: tl => by
    simp only [List.map_cons, insertK]
    split
    · rfl
    · simp only [List.map_cons]
      rw [insertK_map less g x tl]

theorem sortK_map {α β : Type} (less : Val → Val → Bool) (g : Val → α → β) : ∀ l : List (Val × α),
    sortK less (l.map fun p => (p.1, g p.1 p.2)) = (sortK less l).map fun p => (p.1, g p.1 p.2)
  | [] => rfl
  | x :: tl => by
    simp only [List.map_cons, sortK]
    rw [sortK_map less g tl]
    exact insertK_map less g x (sortK less tl)

/-! ### maps as entry lists -/

/-- the entries `(key ↦ value)` as `Vals` of entry messages -/
def entriesOf (l : List (Val × Val)) : Vals := Vals.ofList (l.map fun p => .msg (mkEntry p.1 p.2))

theorem entryKey_mkEntry (k v : Val) : entryKey (mkEntry k v) = some k := by
  simp [entryKey, mkEntry, Fields.get?]

theorem lookupEntry_entriesOf (k : Val) : ∀ l : List (Val × Val), (∀ p ∈ l, valBEq k p.1 = false) →
    lookupEntry (entriesOf l) k = none
  | [], _ => rfl
  | p :: tl, h => by
    simp only [entriesOf, List.map_cons, Vals.ofList, lookupEntry, entryKey_mkEntry]
    rw [h p (by simp)]
    simp only [Bool.false_eq_true, if_false]
    exact lookupEntry_entriesOf k tl (fun q hq => h q (by simp [hq]))

theorem mapPut_entriesOf (k v : Val) : ∀ l : List (Val × Val), (∀ p ∈ l, valBEq k p.1 = false) →
    mapPut (entriesOf l) k (mkEntry k v) = entriesOf (l ++ [(k, v)])
  | [], _ => rfl
  | p :: tl, h => by
    simp only [entriesOf, List.map_cons, Vals.ofList, mapPut, entryKey_mkEntry, List.cons_append]
    rw [h p (by simp)]
    simp only [Bool.false_eq_true, if_false]
    congr 1
    exact mapPut_entriesOf k v tl (fun q hq => h q (by simp [hq]))

variable (C : JCodec) (D : DOpts) (X : SchemaX)

/-- what one entry contributes: its printed member, and what the member decodes to -/
structure EntryOK (fx : FieldX) (limit : Int) (k : Val) (nv : Val) (ks : Str) (jvv : JV) : Prop where
  key : ∀ kf, (X.msg fx.f.sub).find 1 = some kf → dKey C kf ks = .ok k
  val : ∀ vf, (X.msg fx.f.sub).find 2 = some vf →
    if vf.f.kind.isMessage then ∃ sub, dMsg C D X vf.f.sub limit jvv = .ok sub ∧ nv = .msg sub
    else dScalar C D vf jvv = .ok (some nv)

/-- `unmarshalMap` over printed members with pairwise distinct keys appends the entries in order -/
theorem dEntries_append (fx : FieldX) (limit : Int) (kf vf : FieldX) (h1 : (X.msg fx.f.sub).find 1 = some kf)
    (h2 : (X.msg fx.f.sub).find 2 = some vf) :
    ∀ (todo done : List (Val × Val × Str × JV)),
      (∀ t ∈ todo, EntryOK C D X fx limit t.1 t.2.1 t.2.2.1 t.2.2.2) →
      ((done ++ todo).map (·.1)).Pairwise (fun a b => valBEq b a = false) →
      dEntries C D X fx limit (JMembers.ofList (todo.map fun t => (t.2.2.1, t.2.2.2)))
          (entriesOf (done.map fun t => (t.1, t.2.1))) =
        .ok (entriesOf ((done ++ todo).map fun t => (t.1, t.2.1)))
  | [], done, _, _ => by simp [JMembers.ofList, dEntries]
  | t :: todo, done, hok, hpw => by
    obtain ⟨k, nv, ks, jvv⟩ := t
    have he := hok (k, nv, ks, jvv) (by simp)
    simp only [List.map_cons, JMembers.ofList]
    rw [dEntries]
    simp only [h1, h2, he.key kf h1]
    -- the key is not in the map yet
    have hfree : ∀ p ∈ done.map (fun t => (t.1, t.2.1)), valBEq k p.1 = false := by
      intro p hp
      obtain ⟨q, hq, rfl⟩ := List.mem_map.mp hp
      have := List.pairwise_append.mp (by simpa using hpw)
      simp only [List.map_append, List.map_cons] at hpw
      have h3 := (List.pairwise_append.mp hpw).2.2
      exact h3 q.1 (List.mem_map.mpr ⟨q, hq, rfl⟩) k (by simp)
    rw [lookupEntry_entriesOf k _ hfree]
    simp only [Option.isSome_none, Bool.false_eq_true, if_false]
    have hnext : ∀ (cur' : Vals), cur' = entriesOf ((done ++ [(k, nv, ks, jvv)]).map fun t => (t.1, t.2.1)) →
        dEntries C D X fx limit (JMembers.ofList (todo.map fun t => (t.2.2.1, t.2.2.2))) cur' =
          .ok (entriesOf ((done ++ (k, nv, ks, jvv) :: todo).map fun t => (t.1, t.2.1))) := by
      intro cur' hc
      subst hc
      have := dEntries_append fx limit kf vf h1 h2 todo (done ++ [(k, nv, ks, jvv)])
        (fun t ht => hok t (by simp [ht])) (by simpa using hpw)
      simpa using this
    have hput : mapPut (entriesOf (done.map fun t => (t.1, t.2.1))) k (mkEntry k nv) =
        entriesOf ((done ++ [(k, nv, ks, jvv)]).map fun t => (t.1, t.2.1)) := by
      rw [mapPut_entriesOf k nv _ hfree]
      simp
    have hv := he.val vf h2
    by_cases hm : vf.f.kind.isMessage = true
    · simp only [hm, if_true] at hv ⊢
      obtain ⟨sub, hd, hnv⟩ := hv
      subst hnv
      simp only [hd]
      exact hnext _ hput
    · have hm' : vf.f.kind.isMessage = false := by simpa using hm
      simp only [hm', Bool.false_eq_true, if_false] at hv ⊢
      simp only [hv]
      exact hnext _ hput

end JT
