import PbVerif.Model.JsonLex
import PbVerif.Lemmas.JsonLexNumber
import PbVerif.Lemmas.JsonLexString
/-
Helper lemmas for C21: the token automaton of `Decoder.Read` (decode.go) accepts, up to EOF, only
byte strings that derive from the RFC 8259 `JSON-text` grammar (with the lexical grammars of numbers
and strings that `parseNumber`/`parseString` accept) — or nothing at all (see `checkSeq`).
-/
set_option linter.unusedSimpArgs false
namespace JsonLex
open RFC

/-! ### whitespace -/

theorem AllWs.nil : AllWs [] := by simp [AllWs]
theorem AllWs.append {a b : Bytes} (ha : AllWs a) (hb : AllWs b) : AllWs (a ++ b) := by
  intro d hd
  rcases List.mem_append.1 hd with h | h
  · exact ha d h
  · exact hb d h

theorem allWs_takeWhile (s : Bytes) : AllWs (s.takeWhile isWs) := by
  induction s with
  | nil => simp [AllWs]
  | cons c t ih =>
    by_cases h : isWs c = true
    · rw [List.takeWhile_cons_of_pos h]
      intro d hd
      rcases List.mem_cons.1 hd with rfl | hd
      · exact h
      · exact ih d hd
    · rw [List.takeWhile_cons_of_neg h]; exact AllWs.nil

/-- `s = ws ++ dropWs s` -/
theorem dropWs_split (s : Bytes) : ∃ w, s = w ++ dropWs s ∧ AllWs w :=
  ⟨s.takeWhile isWs, List.takeWhile_append_dropWhile.symm, allWs_takeWhile s⟩

theorem dropWs_eq_nil {s : Bytes} (h : dropWs s = []) : AllWs s := by
  obtain ⟨w, hs, hw⟩ := dropWs_split s
  rw [h, List.append_nil] at hs
  rw [hs]; exact hw

/-! ### lexical layer -/

/-- what the string case accepts: `"` characters-and-escapes `"` -/
def StrAcc (b : Bytes) : Prop := ∃ cs content, b = 0x22#8 :: (cs ++ [0x22#8]) ∧ DChars cs content

theorem StrAcc.jstring {b : Bytes} (h : StrAcc b) : JString b := by
  obtain ⟨cs, content, rfl, hcs⟩ := h
  exact JString.mk cs hcs.jchars

/-- a number parser `pn` accepts only prefixes satisfying `Num` -/
def NumSound (pn : Bytes → Option Nat) (Num : Bytes → Prop) : Prop :=
  ∀ s n, pn s = some n → ∃ p rest, s = p ++ rest ∧ p.length = n ∧ Num p

theorem numSound_parseNumber : NumSound parseNumber Number := by
  intro s n h
  obtain ⟨p, rest, hs, hn, _, hp⟩ := (parseNumber_exact s n).1 h
  exact ⟨p, rest, hs, hn, hp⟩

/-- the grammar token a model token stands for -/
def tokOf (t : Token) : Option Tok :=
  match t.kind with
  | .null => some .null
  | .bool => some (if t.boo then .true_ else .false_)
  | .number => some (.number t.raw)
  | .string => some (.string t.raw)
  | .objOpen => some .lbrace
  | .objClose => some .rbrace
  | .arrOpen => some .lbrack
  | .arrClose => some .rbrack
  | .comma => some .comma
  | _ => none

theorem isPrefixOf_split {p s : Bytes} (h : p.isPrefixOf s = true) : ∃ r, s = p ++ r := by
  induction p generalizing s with
  | nil => exact ⟨s, rfl⟩
  | cons a p ih =>
    cases s with
    | nil => simp [List.isPrefixOf] at h
    | cons b s =>
      simp only [List.isPrefixOf, Bool.and_eq_true, beq_iff_eq] at h
      obtain ⟨rfl, h⟩ := h
      obtain ⟨r, rfl⟩ := ih h
      exact ⟨r, rfl⟩

theorem lexLit_sound {k : Kind} {lit : Bytes} {boo : Bool} {inp : Bytes} {tok : Token} {n : Nat}
    (h : lexLit k lit boo inp = .ok (tok, n)) :
    ∃ r, inp = lit ++ r ∧ n = lit.length ∧ tok = { kind := k, raw := lit, boo := boo } := by
  unfold lexLit at h
  split at h
  next hm =>
    simp only [Except.ok.injEq, Prod.mk.injEq] at h
    obtain ⟨rfl, rfl⟩ := h
    unfold matchWithDelim at hm
    split at hm
    next hp =>
      obtain ⟨r, rfl⟩ := isPrefixOf_split hp
      exact ⟨r, rfl, rfl, rfl⟩
    next => exact absurd rfl hm
  next => cases h

variable {pn : Bytes → Option Nat} {Num : Bytes → Prop}

/-- the token switch: whatever it accepts is the spelling of a grammar token at the start of the input -/
theorem lexTokG_sound (hpn : NumSound pn Num) {c : Byte} {t : Bytes} {tok : Token} {n : Nat}
    (h : lexTokG pn c (c :: t) = .ok (tok, n)) :
    ∃ b r gt, c :: t = b ++ r ∧ b.length = n ∧ tokOf tok = some gt ∧ Spells Num StrAcc gt b ∧
      tok.kind ≠ .eof ∧ tok.kind ≠ .name ∧ tok.kind ≠ .none := by
  unfold lexTokG at h
  split at h
  next hc =>
    obtain ⟨r, hs, rfl, rfl⟩ := lexLit_sound h
    exact ⟨litNull, r, .null, hs, rfl, rfl, Spells.null, by simp, by simp, by simp⟩
  next =>
  split at h
  next hc =>
    obtain ⟨r, hs, rfl, rfl⟩ := lexLit_sound h
    exact ⟨litTrue, r, .true_, hs, rfl, rfl, Spells.true_, by simp, by simp, by simp⟩
  next =>
  split at h
  next hc =>
    obtain ⟨r, hs, rfl, rfl⟩ := lexLit_sound h
    exact ⟨litFalse, r, .false_, hs, rfl, rfl, Spells.false_, by simp, by simp, by simp⟩
  next =>
  split at h
  next hc =>
    unfold lexNumber at h
    split at h
    next m hm =>
      simp only [Except.ok.injEq, Prod.mk.injEq] at h
      obtain ⟨rfl, rfl⟩ := h
      obtain ⟨p, rest, hs, hn, hp⟩ := hpn _ _ hm
      have : (c :: t).take m = p := by rw [hs, ← hn]; exact List.take_left' rfl
      exact ⟨p, rest, .number p, hs, hn, by simp [tokOf, this], Spells.number p hp, by simp, by simp, by simp⟩
    next => cases h
  next =>
  split at h
  next hc =>
    unfold lexString at h
    split at h
    · cases h
    next s m hm =>
      simp only [Except.ok.injEq, Prod.mk.injEq] at h
      obtain ⟨rfl, rfl⟩ := h
      obtain ⟨cs, rest, hs, hn, hcs⟩ := (parseString_exact _ _ _).1 hm
      have hs' : c :: t = (0x22#8 :: (cs ++ [0x22#8])) ++ rest := by rw [hs]; simp
      have hlen : (0x22#8 :: (cs ++ [0x22#8])).length = m := by rw [hn]; simp
      have : (c :: t).take m = 0x22#8 :: (cs ++ [0x22#8]) := by
        rw [hs', ← hlen]; exact List.take_left' rfl
      exact ⟨_, rest, .string (0x22#8 :: (cs ++ [0x22#8])), hs', hlen, by simp [tokOf, this],
        Spells.string _ ⟨cs, s, rfl, hcs⟩, by simp, by simp, by simp⟩
  next =>
    unfold lexPunct at h
    split at h
    next hc =>
      simp only [Except.ok.injEq, Prod.mk.injEq] at h; obtain ⟨rfl, rfl⟩ := h
      exact ⟨[c], t, .lbrace, rfl, rfl, rfl, hc ▸ Spells.lbrace, by simp, by simp, by simp⟩
    next =>
    split at h
    next hc =>
      simp only [Except.ok.injEq, Prod.mk.injEq] at h; obtain ⟨rfl, rfl⟩ := h
      exact ⟨[c], t, .rbrace, rfl, rfl, rfl, hc ▸ Spells.rbrace, by simp, by simp, by simp⟩
    next =>
    split at h
    next hc =>
      simp only [Except.ok.injEq, Prod.mk.injEq] at h; obtain ⟨rfl, rfl⟩ := h
      exact ⟨[c], t, .lbrack, rfl, rfl, rfl, hc ▸ Spells.lbrack, by simp, by simp, by simp⟩
    next =>
    split at h
    next hc =>
      simp only [Except.ok.injEq, Prod.mk.injEq] at h; obtain ⟨rfl, rfl⟩ := h
      exact ⟨[c], t, .rbrack, rfl, rfl, rfl, hc ▸ Spells.rbrack, by simp, by simp, by simp⟩
    next =>
    split at h
    next hc =>
      simp only [Except.ok.injEq, Prod.mk.injEq] at h; obtain ⟨rfl, rfl⟩ := h
      exact ⟨[c], t, .comma, rfl, rfl, rfl, hc ▸ Spells.comma, by simp, by simp, by simp⟩
    next => cases h

/-- `parseNext`: either EOF (only whitespace was left) or `ws token ws rest` -/
theorem parseNextG_sound (hpn : NumSound pn Num) {inp0 rest : Bytes} {tok : Token}
    (h : parseNextG pn inp0 = .ok (tok, rest)) :
    (tok.kind = .eof ∧ AllWs inp0 ∧ rest = []) ∨
    (∃ w b w' gt, inp0 = w ++ (b ++ (w' ++ rest)) ∧ AllWs w ∧ AllWs w' ∧ tokOf tok = some gt ∧
      Spells Num StrAcc gt b ∧ tok.kind ≠ .eof ∧ tok.kind ≠ .name ∧ tok.kind ≠ .none) := by
  unfold parseNextG at h
  split at h
  next hd =>
    simp only [Except.ok.injEq, Prod.mk.injEq] at h
    obtain ⟨rfl, rfl⟩ := h
    exact Or.inl ⟨rfl, dropWs_eq_nil hd, rfl⟩
  next c t hd =>
    split at h
    · cases h
    next tok' n hl =>
      simp only [Except.ok.injEq, Prod.mk.injEq] at h
      obtain ⟨rfl, rfl⟩ := h
      obtain ⟨b, r, gt, hs, hn, hgt, hsp, hk⟩ := lexTokG_sound hpn hl
      obtain ⟨w, hw0, hw⟩ := dropWs_split inp0
      obtain ⟨w', hw0', hw'⟩ := dropWs_split r
      have hdrop : (c :: t).drop n = r := by rw [hs, ← hn]; simp
      refine Or.inr ⟨w, b, w', gt, ?_, hw, hw', hgt, hsp, hk⟩
      rw [hdrop, ← hw0', ← hs, ← hd]; exact hw0

/-! ### the automaton: reachable states and the token prefixes that lead to them -/

/-- `Outer stack last ts`: `ts` are the tokens read so far, the open containers are `stack`
(innermost first), the last token has kind `last`, and a *value* is expected next -/
inductive Outer : List Open → Kind → List Tok → Prop
  | top : Outer [] .none []
  | objFirst (st : List Open) (l0 : Kind) (pre : List Tok) (k : Bytes) : Outer st l0 pre →
      Outer (.obj :: st) .name (pre ++ (.lbrace :: [.string k, .colon]))
  | objNext (st : List Open) (l0 : Kind) (pre ms : List Tok) (k : Bytes) : Outer st l0 pre → Members ms →
      Outer (.obj :: st) .name (pre ++ (.lbrace :: (ms ++ [.comma, .string k, .colon])))
  | arrFirst (st : List Open) (l0 : Kind) (pre : List Tok) : Outer st l0 pre →
      Outer (.arr :: st) .arrOpen (pre ++ [.lbrack])
  | arrNext (st : List Open) (l0 : Kind) (pre es : List Tok) : Outer st l0 pre → Elems es →
      Outer (.arr :: st) .comma (pre ++ (.lbrack :: (es ++ [.comma])))

def Kind.isValueEnd (k : Kind) : Bool := k.isScalar || k = .objClose || k = .arrClose

/-- the states `Decoder.Read` can be in, with the token prefix read so far -/
inductive Reach : List Open → Kind → List Tok → Prop
  | expect (st : List Open) (last : Kind) (pre : List Tok) : Outer st last pre → Reach st last pre
  | done (st : List Open) (l0 : Kind) (pre v : List Tok) (last : Kind) : Outer st l0 pre → Value v →
      last.isValueEnd = true → Reach st last (pre ++ v)
  | objOpen (st : List Open) (l0 : Kind) (pre : List Tok) : Outer st l0 pre →
      Reach (.obj :: st) .objOpen (pre ++ [.lbrace])
  | objComma (st : List Open) (l0 : Kind) (pre ms : List Tok) : Outer st l0 pre → Members ms →
      Reach (.obj :: st) .comma (pre ++ (.lbrace :: (ms ++ [.comma])))

theorem Outer.isValueNext {st : List Open} {last : Kind} {ts : List Tok} (h : Outer st last ts) :
    isValueNext last st = true := by
  cases h <;> simp [JsonLex.isValueNext]

theorem Outer.not_valueEnd {st : List Open} {last : Kind} {ts : List Tok} (h : Outer st last ts) :
    last.isValueEnd = false := by
  cases h <;> rfl

theorem valueEnd_not_valueNext {last : Kind} (h : last.isValueEnd = true) (st : List Open) :
    isValueNext last st = false := by
  cases last <;> simp [Kind.isValueEnd, Kind.isScalar] at h <;> (cases st with
    | nil => simp [isValueNext]
    | cons o st => cases o <;> simp [isValueNext])

/-- a value is expected exactly in the `expect` states -/
theorem Reach.outer_of_valueNext {st : List Open} {last : Kind} {ts : List Tok} (h : Reach st last ts)
    (hv : isValueNext last st = true) : Outer st last ts := by
  cases h with
  | expect _ _ _ ho => exact ho
  | done _ _ _ _ _ _ _ hl => rw [valueEnd_not_valueNext hl] at hv; cases hv
  | objOpen _ _ _ _ => simp [isValueNext] at hv
  | objComma _ _ _ _ _ _ => simp [isValueNext] at hv

/-- a scalar token where a value is expected -/
theorem Reach.scalar {st : List Open} {last : Kind} {ts : List Tok} (h : Reach st last ts)
    (hv : isValueNext last st = true) (k : Kind) (hk : k.isScalar = true) (gt : Tok)
    (hgt : Value [gt]) : Reach st k (ts ++ [gt]) :=
  Reach.done st last ts [gt] k (h.outer_of_valueNext hv) hgt (by simp [Kind.isValueEnd, hk])

theorem Reach.lbrace {st : List Open} {last : Kind} {ts : List Tok} (h : Reach st last ts)
    (hv : isValueNext last st = true) : Reach (.obj :: st) .objOpen (ts ++ [.lbrace]) :=
  Reach.objOpen st last ts (h.outer_of_valueNext hv)

theorem Reach.lbrack {st : List Open} {last : Kind} {ts : List Tok} (h : Reach st last ts)
    (hv : isValueNext last st = true) : Reach (.arr :: st) .arrOpen (ts ++ [.lbrack]) :=
  Reach.expect _ _ _ (Outer.arrFirst st last ts (h.outer_of_valueNext hv))

/-- a field name (string followed by colon) where `Read` accepts one -/
theorem Reach.name {st : List Open} {last : Kind} {ts : List Tok} (h : Reach st last ts)
    (hv : isValueNext last st = false) (hl : last = .objOpen ∨ last = .comma) (k : Bytes) :
    Reach st .name (ts ++ [.string k, .colon]) := by
  cases h with
  | expect _ _ _ ho => rw [ho.isValueNext] at hv; cases hv
  | done _ _ _ _ _ _ _ hle => rcases hl with rfl | rfl <;> simp [Kind.isValueEnd, Kind.isScalar] at hle
  | objOpen st l0 pre ho =>
    have := Outer.objFirst st l0 pre k ho
    exact Reach.expect _ _ _ (by simpa using this)
  | objComma st l0 pre ms ho hm =>
    have := Outer.objNext st l0 pre ms k ho hm
    exact Reach.expect _ _ _ (by simpa using this)

/-- `}` -/
theorem Reach.rbrace {st : List Open} {last : Kind} {ts : List Tok} (h : Reach (.obj :: st) last ts)
    (hl : ¬ (last = .name ∨ last = .comma)) : Reach st .objClose (ts ++ [.rbrace]) := by
  generalize hst : Open.obj :: st = st' at h
  cases h with
  | expect _ _ _ ho =>
    subst hst
    cases ho with
    | objFirst _ _ _ _ _ => exact absurd (Or.inl rfl) hl
    | objNext _ _ _ _ _ _ _ => exact absurd (Or.inl rfl) hl
  | done _ l0 pre v _ ho hv hle =>
    subst hst
    cases ho with
    | objFirst _ l1 pre0 k ho' =>
      have hval : Value (.lbrace :: ((.string k :: .colon :: v) ++ [.rbrace])) :=
        Value.object _ (Members.one k v hv)
      have := Reach.done st l1 pre0 _ .objClose ho' hval rfl
      simpa using this
    | objNext _ l1 pre0 ms k ho' hm =>
      have hval : Value (.lbrace :: ((ms ++ (.comma :: .string k :: .colon :: v)) ++ [.rbrace])) :=
        Value.object _ (Members.snoc ms k v hm hv)
      have := Reach.done st l1 pre0 _ .objClose ho' hval rfl
      simpa using this
  | objOpen st0 l0 pre ho =>
    simp only [List.cons.injEq, true_and] at hst; subst hst
    have := Reach.done _ l0 pre _ .objClose ho Value.emptyObject rfl
    simpa using this
  | objComma _ _ _ _ _ _ => exact absurd (Or.inr rfl) hl

/-- `]` -/
theorem Reach.rbrack {st : List Open} {last : Kind} {ts : List Tok} (h : Reach (.arr :: st) last ts)
    (hl : last ≠ .comma) : Reach st .arrClose (ts ++ [.rbrack]) := by
  generalize hst : Open.arr :: st = st' at h
  cases h with
  | expect _ _ _ ho =>
    subst hst
    cases ho with
    | arrFirst _ l1 pre0 ho' =>
      have := Reach.done st l1 pre0 _ .arrClose ho' Value.emptyArray rfl
      simpa using this
    | arrNext _ _ _ _ _ _ => exact absurd rfl hl
  | done _ l0 pre v _ ho hv hle =>
    subst hst
    cases ho with
    | arrFirst _ l1 pre0 ho' =>
      have hval : Value (.lbrack :: (v ++ [.rbrack])) := Value.array _ (Elems.one v hv)
      have := Reach.done st l1 pre0 _ .arrClose ho' hval rfl
      simpa using this
    | arrNext _ l1 pre0 es ho' he =>
      have hval : Value (.lbrack :: ((es ++ (.comma :: v)) ++ [.rbrack])) :=
        Value.array _ (Elems.snoc es v he hv)
      have := Reach.done st l1 pre0 _ .arrClose ho' hval rfl
      simpa using this
  | objOpen _ _ _ _ => cases hst
  | objComma _ _ _ _ _ _ => cases hst

/-- `,` -/
theorem Reach.comma {st : List Open} {last : Kind} {ts : List Tok} (h : Reach st last ts)
    (hne : st ≠ []) (hl : last.isValueEnd = true) : Reach st .comma (ts ++ [.comma]) := by
  cases h with
  | expect _ _ _ ho => rw [ho.not_valueEnd] at hl; cases hl
  | done _ l0 pre v _ ho hv hle =>
    cases ho with
    | top => exact absurd rfl hne
    | objFirst st0 l1 pre0 k ho' =>
      have := Reach.objComma st0 l1 pre0 _ ho' (Members.one k v hv)
      simpa using this
    | objNext st0 l1 pre0 ms k ho' hm =>
      have := Reach.objComma st0 l1 pre0 _ ho' (Members.snoc ms k v hm hv)
      simpa using this
    | arrFirst st0 l1 pre0 ho' =>
      have := Outer.arrNext st0 l1 pre0 v ho' (Elems.one v hv)
      exact Reach.expect _ _ _ (by simpa using this)
    | arrNext st0 l1 pre0 es ho' he =>
      have := Outer.arrNext st0 l1 pre0 _ ho' (Elems.snoc es v he hv)
      exact Reach.expect _ _ _ (by simpa using this)
  | objOpen _ _ _ _ => simp [Kind.isValueEnd, Kind.isScalar] at hl
  | objComma _ _ _ _ _ _ => simp [Kind.isValueEnd, Kind.isScalar] at hl

/-- at EOF with nothing open: nothing was read, or exactly one value -/
theorem Reach.eof {last : Kind} {ts : List Tok} (h : Reach [] last ts) : ts = [] ∨ Value ts := by
  generalize hst : ([] : List Open) = st at h
  cases h with
  | expect _ _ _ ho => subst hst; cases ho; exact Or.inl rfl
  | done _ _ _ v _ ho hv _ => subst hst; cases ho; exact Or.inr (by simpa using hv)
  | objOpen _ _ _ _ => cases hst
  | objComma _ _ _ _ _ _ => cases hst

/-! ### bytes and tokens -/

theorem RFC.LexesTo.ws_right {Num Str : Bytes → Prop} {x : Bytes} {ts : List Tok} (h : LexesTo Num Str x ts)
    {w : Bytes} (hw : AllWs w) : LexesTo Num Str (x ++ w) ts := by
  induction h with
  | nil w0 hw0 => exact LexesTo.nil _ (hw0.append hw)
  | cons w0 b0 rest0 t0 ts0 hw0 hs0 _ ih =>
    have := LexesTo.cons w0 b0 (rest0 ++ w) t0 ts0 hw0 hs0 ih
    simpa using this

theorem RFC.LexesTo.snoc {Num Str : Bytes → Prop} {x : Bytes} {ts : List Tok} (h : LexesTo Num Str x ts)
    {w b w' : Bytes} {t : Tok} (hw : AllWs w) (hs : Spells Num Str t b) (hw' : AllWs w') :
    LexesTo Num Str (x ++ (w ++ (b ++ w'))) (ts ++ [t]) := by
  induction h with
  | nil w0 hw0 =>
    have := LexesTo.cons (w0 ++ w) b w' t [] (hw0.append hw) hs (LexesTo.nil w' hw')
    simpa using this
  | cons w0 b0 rest0 t0 ts0 hw0 hs0 _ ih =>
    have := LexesTo.cons w0 b0 (rest0 ++ (w ++ (b ++ w'))) t0 (ts0 ++ [t]) hw0 hs0 ih
    simpa using this

/-! ### Decoder.Read -/

theorem tokOf_kind {tok : Token} {gt : Tok} (h : tokOf tok = some gt) :
    (tok.kind = .null ∧ gt = .null) ∨ (tok.kind = .bool ∧ (gt = .true_ ∨ gt = .false_)) ∨
    (tok.kind = .number ∧ gt = .number tok.raw) ∨ (tok.kind = .string ∧ gt = .string tok.raw) ∨
    (tok.kind = .objOpen ∧ gt = .lbrace) ∨ (tok.kind = .objClose ∧ gt = .rbrace) ∨
    (tok.kind = .arrOpen ∧ gt = .lbrack) ∨ (tok.kind = .arrClose ∧ gt = .rbrack) ∨
    (tok.kind = .comma ∧ gt = .comma) := by
  unfold tokOf at h
  cases hk : tok.kind <;> simp [hk] at h <;> subst h <;> simp

/-- the sequencing check, for every token kind but String and EOF: the automaton moves to a
reachable state whose token prefix is extended by the token -/
theorem checkSeq_reach {st st' : List Open} {last : Kind} {ts : List Tok} (h : Reach st last ts)
    {tok : Token} {gt : Tok} (hgt : tokOf tok = some gt)
    (hc : checkSeq last st tok.kind = some st') (hns : tok.kind ≠ .string) :
    Reach st' tok.kind (ts ++ [gt]) := by
  rcases tokOf_kind hgt with ⟨hk, rfl⟩ | ⟨hk, hg⟩ | ⟨hk, rfl⟩ | ⟨hk, rfl⟩ | ⟨hk, rfl⟩ | ⟨hk, rfl⟩ | ⟨hk, rfl⟩ |
      ⟨hk, rfl⟩ | ⟨hk, rfl⟩
  · rw [hk] at hc ⊢; simp only [checkSeq] at hc
    split at hc
    next hv => cases hc; exact h.scalar hv _ rfl _ Value.null
    next => cases hc
  · rw [hk] at hc ⊢; simp only [checkSeq] at hc
    split at hc
    next hv =>
      cases hc
      rcases hg with rfl | rfl
      · exact h.scalar hv _ rfl _ Value.true_
      · exact h.scalar hv _ rfl _ Value.false_
    next => cases hc
  · rw [hk] at hc ⊢; simp only [checkSeq] at hc
    split at hc
    next hv => cases hc; exact h.scalar hv _ rfl _ (Value.number _)
    next => cases hc
  · exact absurd hk hns
  · rw [hk] at hc ⊢; simp only [checkSeq] at hc
    split at hc
    next hv => cases hc; exact h.lbrace hv
    next => cases hc
  · rw [hk] at hc ⊢; simp only [checkSeq] at hc
    split at hc
    next rest =>
      split at hc
      · cases hc
      next hl => cases hc; exact h.rbrace hl
    next => cases hc
  · rw [hk] at hc ⊢; simp only [checkSeq] at hc
    split at hc
    next hv => cases hc; exact h.lbrack hv
    next => cases hc
  · rw [hk] at hc ⊢; simp only [checkSeq] at hc
    split at hc
    next rest =>
      split at hc
      · cases hc
      next hl => cases hc; exact h.rbrack hl
    next => cases hc
  · rw [hk] at hc ⊢; simp only [checkSeq] at hc
    split at hc
    · cases hc
    next hne =>
      split at hc
      next hl =>
        cases hc
        exact h.comma hne (by simpa [Kind.isValueEnd, Bool.or_assoc] using hl)
      next => cases hc

variable {pn : Bytes → Option Nat} {Num : Bytes → Prop}

/-- the result of one `Read` -/
def ReadPost (Num : Bytes → Prop) (whole : Bytes) (tok : Token) (st' : DState) : Prop :=
  ∃ consumed' ts', whole = consumed' ++ st'.inp ∧ LexesTo Num StrAcc consumed' ts' ∧
    ((tok.kind = .eof ∧ st'.inp = [] ∧ (ts' = [] ∨ Value ts')) ∨
     (tok.kind ≠ .eof ∧ Reach st'.stack st'.lastKind ts'))

theorem readG_sound (hpn : NumSound pn Num) : ∀ (fuel : Nat) (st st' : DState) (tok : Token)
    (consumed : Bytes) (ts : List Tok),
    readG pn fuel st = .ok (tok, st') → Reach st.stack st.lastKind ts → LexesTo Num StrAcc consumed ts →
    ReadPost Num (consumed ++ st.inp) tok st' := by
  intro fuel
  induction fuel with
  | zero => intro st st' tok consumed ts h; simp [readG] at h
  | succ fuel ih =>
    intro st st' tok consumed ts h hr hl
    rw [readG] at h
    split at h
    · cases h
    next tok0 rest hp =>
    rcases parseNextG_sound hpn hp with ⟨hk, hws, rfl⟩ | ⟨w, b, w', gt, hinp, hw, hw', hgt, hsp, hk1, hk2, hk3⟩
    · -- EOF
      have hns : tok0.kind ≠ .string := by rw [hk]; simp
      rw [if_neg hns, hk] at h
      by_cases hst : st.stack = []
      · have hc : checkSeq st.lastKind st.stack .eof = some [] := by simp [checkSeq, hst]
        rw [hc] at h
        simp only [reduceCtorEq, if_false, Except.ok.injEq, Prod.mk.injEq] at h
        obtain ⟨rfl, rfl⟩ := h
        refine ⟨consumed ++ st.inp, ts, by simp, hl.ws_right hws, Or.inl ⟨hk, rfl, ?_⟩⟩
        rw [hst] at hr; exact hr.eof
      · have hc : checkSeq st.lastKind st.stack .eof = none := by simp [checkSeq, hst]
        rw [hc] at h
        simp at h
    · -- a token
      have hl1 : LexesTo Num StrAcc (consumed ++ (w ++ (b ++ w'))) (ts ++ [gt]) := hl.snoc hw hsp hw'
      have hwhole : consumed ++ st.inp = (consumed ++ (w ++ (b ++ w'))) ++ rest := by rw [hinp]; simp
      split at h
      next hstr =>
        -- String
        have hgt' : gt = .string tok0.raw := by
          rcases tokOf_kind hgt with ⟨hk, _⟩ | ⟨hk, _⟩ | ⟨hk, _⟩ | ⟨_, hg⟩ | ⟨hk, _⟩ | ⟨hk, _⟩ | ⟨hk, _⟩ | ⟨hk, _⟩ |
            ⟨hk, _⟩ <;> first | exact hg | (rw [hstr] at hk; cases hk)
        subst hgt'
        unfold readString at h
        split at h
        next hv =>
          simp only [Except.ok.injEq, Prod.mk.injEq] at h
          obtain ⟨rfl, rfl⟩ := h
          exact ⟨_, _, hwhole, hl1, Or.inr ⟨hk1, hr.scalar hv .string rfl _ (Value.string _)⟩⟩
        next hv =>
          split at h
          · cases h
          next hlast =>
            simp only [Decidable.not_not] at hlast
            split at h
            · cases h
            next c t =>
              split at h
              · cases h
              next hc =>
                simp only [ne_eq, Decidable.not_not] at hc
                subst hc
                simp only [Except.ok.injEq, Prod.mk.injEq] at h
                obtain ⟨rfl, rfl⟩ := h
                obtain ⟨w2, ht, hw2⟩ := dropWs_split t
                have hl2 := hl1.snoc (w := []) (b := [0x3a#8]) (w' := w2) AllWs.nil Spells.colon hw2
                refine ⟨_, _, ?_, hl2, Or.inr ⟨by simp, ?_⟩⟩
                · rw [hwhole]; simp only [List.append_assoc, List.nil_append, List.cons_append]
                  rw [← ht]
                · have := hr.name (by simpa using hv) hlast tok0.raw
                  simpa using this
      next hstr =>
        split at h
        · first | cases h | (split at h <;> cases h)
        next stack' hc =>
          have hreach := checkSeq_reach hr hgt hc hstr
          split at h
          next hcomma =>
            -- skip the comma and read on
            have := ih _ _ _ (consumed ++ (w ++ (b ++ w'))) (ts ++ [gt]) h (by simpa using hreach) hl1
            unfold ReadPost at this ⊢
            rw [hwhole]; exact this
          next hcomma =>
            simp only [Except.ok.injEq, Prod.mk.injEq] at h
            obtain ⟨rfl, rfl⟩ := h
            exact ⟨_, _, hwhole, hl1, Or.inr ⟨hk1, hreach⟩⟩

/-- reading tokens until EOF: the whole input lexes to nothing or to exactly one value -/
theorem readAllG_sound (hpn : NumSound pn Num) : ∀ (fuel : Nat) (st : DState) (toks : List Token)
    (consumed : Bytes) (ts : List Tok),
    readAllG pn fuel st = .ok toks → Reach st.stack st.lastKind ts → LexesTo Num StrAcc consumed ts →
    ∃ ts', LexesTo Num StrAcc (consumed ++ st.inp) ts' ∧ (ts' = [] ∨ Value ts') := by
  intro fuel
  induction fuel with
  | zero => intro st toks consumed ts h; simp [readAllG] at h
  | succ fuel ih =>
    intro st toks consumed ts h hr hl
    rw [readAllG] at h
    split at h
    · cases h
    next tok st' hread =>
      obtain ⟨consumed', ts', hwhole, hl', hpost⟩ := readG_sound hpn _ _ _ _ _ _ hread hr hl
      rcases hpost with ⟨_, hinp, hv⟩ | ⟨hk, hreach⟩
      · rw [hwhole, hinp, List.append_nil]; exact ⟨ts', hl', hv⟩
      · rw [if_neg hk] at h
        split at h
        next toks' hrec =>
          rw [hwhole]; exact ih _ _ _ _ hrec hreach hl'
        next => cases h

/-- **Soundness of the token automaton**, for any number parser `pn` that accepts only `Num`:
if a fresh `Decoder` reads `b` up to EOF without error then `b` is whitespace only (no token was
read: the EOF check of `Read` looks at the open stack only) or `b` is a `JSON-text` of the RFC 8259
grammar with `Num` numbers and the decoder's strings. -/
theorem decodeAllG_sound (hpn : NumSound pn Num) (b : Bytes) (toks : List Token)
    (h : decodeAllG pn b = .ok toks) : AllWs b ∨ JsonTextG Num StrAcc b := by
  have := readAllG_sound hpn _ { inp := b } toks [] [] h (Reach.expect _ _ _ Outer.top)
    (LexesTo.nil [] AllWs.nil)
  obtain ⟨ts, hl, hv⟩ := this
  simp only [List.nil_append] at hl
  rcases hv with rfl | hv
  · left
    cases hl with
    | nil _ hw => exact hw
  · exact Or.inr ⟨ts, hl, hv⟩

/-! ### from the decoder's lexical grammars to the RFC's -/

theorem RFC.Spells.mono {Num Str Num' Str' : Bytes → Prop} (hn : ∀ p, Num p → Num' p) (hs : ∀ p, Str p → Str' p)
    {t : Tok} {b : Bytes} (h : Spells Num Str t b) : Spells Num' Str' t b := by
  cases h with
  | number b hb => exact Spells.number b (hn b hb)
  | string b hb => exact Spells.string b (hs b hb)
  | null => exact Spells.null
  | true_ => exact Spells.true_
  | false_ => exact Spells.false_
  | lbrace => exact Spells.lbrace
  | rbrace => exact Spells.rbrace
  | lbrack => exact Spells.lbrack
  | rbrack => exact Spells.rbrack
  | comma => exact Spells.comma
  | colon => exact Spells.colon

theorem RFC.LexesTo.mono {Num Str Num' Str' : Bytes → Prop} (hn : ∀ p, Num p → Num' p) (hs : ∀ p, Str p → Str' p)
    {b : Bytes} {ts : List Tok} (h : LexesTo Num Str b ts) : LexesTo Num' Str' b ts := by
  induction h with
  | nil w hw => exact LexesTo.nil w hw
  | cons w b rest t ts hw hsp _ ih => exact LexesTo.cons w b rest t ts hw (hsp.mono hn hs) ih

theorem RFC.JsonTextG.mono {Num Str Num' Str' : Bytes → Prop} (hn : ∀ p, Num p → Num' p) (hs : ∀ p, Str p → Str' p)
    {b : Bytes} (h : JsonTextG Num Str b) : JsonTextG Num' Str' b := by
  obtain ⟨ts, hl, hv⟩ := h
  exact ⟨ts, hl.mono hn hs, hv⟩

end JsonLex
