import PbVerif.Lemmas.FastInitCheck
import PbVerif.Lemmas.MsgAlgInit
import PbVerif.Lemmas.MsgInv
/-
(c) the `initialized` flag computed while decoding is sound: when it is set, the decoded message is
initialized — with the AND rule of the current code (/repo 6c2b514) for every schema, with the OR rule
of the old code (before /repo 6c2b514) for schemas without message-valued maps.  Core-only.
-/
namespace FastInit
open Pb
open Spec (Byte decTag decBytes)

/-! ### decoded (`dwfMsg`) messages are typed -/

theorem tyVal_of_wfScalar {S : Schema} {f : Field} {v : Val} (h : wfScalar f v = true) : tyVal S f v = true := by
  cases v with
  | msg m => simp [wfScalar] at h
  | num n => simp [tyVal]
  | bytes b => simp [tyVal]

theorem isMsgVal_of_wfScalar {f : Field} {v : Val} (h : wfScalar f v = true) : isMsgVal v = false := by
  cases v with
  | msg m => simp [wfScalar] at h
  | num n => rfl
  | bytes b => rfl

section
variable (S : Schema) (xr : Nat → Bool) (hM : MapOK S xr)
include hM
set_option linter.unusedSectionVars false

mutual
theorem ty_of_dwfMsg : ∀ (m : Msg) (mi : Nat), dwfMsg S mi m = true → tyMsg S mi m = true
  | .mk fs u, mi, h => by
    rw [dwfMsg, Bool.and_eq_true] at h
    rw [tyMsg]; exact ty_of_dvFields fs mi h.2
theorem ty_of_dvFields : ∀ (fs : Fields) (mi : Nat), dvFields S (S.msg mi) fs = true → tyFields S (S.msg mi) fs = true
  | .nil, _, _ => by rw [tyFields]
  | .cons n fv tl, mi, h => by
    rw [dvFields, Bool.and_eq_true, Bool.and_eq_true] at h
    rw [tyFields, Bool.and_eq_true]
    refine ⟨?_, ty_of_dvFields tl mi h.2⟩
    have h1 := h.1.2
    cases hf : (S.msg mi).find n with
    | none => rfl
    | some f =>
      rw [hf] at h1
      exact ty_of_dwfFVal fv f mi (find_mem hf) h1
theorem ty_of_dwfFVal : ∀ (fv : FVal) (f : Field) (mi : Nat), f ∈ (S.msg mi).fields → dwfFVal S f fv = true →
    tyFVal S f fv = true
  | .one v, f, mi, hf, h => by
    rw [dwfFVal, Bool.and_eq_true, Bool.and_eq_true, Bool.and_eq_true] at h
    rw [tyFVal, Bool.and_eq_true]
    refine ⟨?_, ty_of_dwfVal v f h.1.2⟩
    have : f.card ≠ .map := by simpa using h.1.1.2
    simp [this]
  | .many vs, f, mi, hf, h => by
    rw [dwfFVal, Bool.and_eq_true] at h
    rw [tyFVal]
    have h2 := h.2
    split at h2
    · exact ty_of_dwfVals vs f h2
    · rename_i hc
      split at h2
      · rename_i kf vf hk hv
        exact ty_of_dwfEntries vs f mi kf vf hf hc hk hv h2
      · cases h2
    · cases h2
theorem ty_of_dwfVal : ∀ (v : Val) (f : Field), dwfVal S f v = true → tyVal S f v = true
  | .msg m, f, h => by
    rw [dwfVal, Bool.and_eq_true] at h
    rw [tyVal, Bool.and_eq_true]
    exact ⟨by simp [isSubField, h.1], ty_of_dwfMsg m f.sub h.2⟩
  | .num _, _, _ => by simp [tyVal]
  | .bytes _, _, _ => by simp [tyVal]
theorem ty_of_dwfVals : ∀ (vs : Vals) (f : Field), dwfVals S f vs = true → tyVals S f vs = true
  | .nil, _, _ => by rw [tyVals]
  | .cons v tl, f, h => by
    rw [dwfVals, Bool.and_eq_true] at h
    rw [tyVals, Bool.and_eq_true]
    exact ⟨ty_of_dwfVal v f h.1, ty_of_dwfVals tl f h.2⟩
theorem ty_of_dwfEntries : ∀ (vs : Vals) (f : Field) (mi : Nat) (kf vf : Field), f ∈ (S.msg mi).fields → f.card = .map →
    (S.msg f.sub).find 1 = some kf → (S.msg f.sub).find 2 = some vf →
    dwfEntries S kf vf vs = true → tyVals S f vs = true
  | .nil, _, _, _, _, _, _, _, _, _ => by rw [tyVals]
  | .cons (.msg (.mk (.cons n1 (.one k) (.cons n2 (.one v) .nil)) u)) tl, f, mi, kf, vf, hf, hc, hk, hv, h => by
    rw [dwfEntries, Bool.and_eq_true, Bool.and_eq_true, dwfEntry] at h
    simp only [Bool.and_eq_true, beq_iff_eq] at h
    obtain ⟨⟨⟨⟨⟨⟨rfl, rfl⟩, _⟩, hkw⟩, hvw⟩, _⟩, htl⟩ := h
    rw [tyVals, Bool.and_eq_true]
    refine ⟨?_, ty_of_dwfEntries tl f mi kf vf hf hc hk hv htl⟩
    rw [tyVal, Bool.and_eq_true, tyMsg, tyFields, tyFields, tyFields, hk, hv]
    refine ⟨by simp [isSubField, hc], ?_⟩
    simp only [Bool.and_true, Bool.and_eq_true, tyFVal]
    refine ⟨⟨by simp [isMsgVal_of_wfScalar hkw], tyVal_of_wfScalar hkw⟩, ?_, ty_of_dwfVal v vf hvw⟩
    cases v with
    | msg x =>
      have hvk : vf.kind.isMessage = true := by
        rw [dwfVal, Bool.and_eq_true] at hvw; exact hvw.1
      have := ((hM mi f hf hc).2.2 vf (find_mem hv) (by simp [isSubField, hvk])).2.1
      simp [this]
    | num _ => simp [isMsgVal]
    | bytes _ => simp [isMsgVal]
  | .cons (.msg (.mk .nil _)) _, _, _, _, _, _, _, _, _, h => by simp [dwfEntries, dwfEntry] at h
  | .cons (.msg (.mk (.cons _ (.many _) _) _)) _, _, _, _, _, _, _, _, _, h => by simp [dwfEntries, dwfEntry] at h
  | .cons (.msg (.mk (.cons _ (.one _) .nil) _)) _, _, _, _, _, _, _, _, _, h => by simp [dwfEntries, dwfEntry] at h
  | .cons (.msg (.mk (.cons _ (.one _) (.cons _ (.many _) _)) _)) _, _, _, _, _, _, _, _, _, h => by
    simp [dwfEntries, dwfEntry] at h
  | .cons (.msg (.mk (.cons _ (.one _) (.cons _ (.one _) (.cons _ _ _))) _)) _, _, _, _, _, _, _, _, _, h => by
    simp [dwfEntries, dwfEntry] at h
  | .cons (.num _) _, _, _, _, _, _, _, _, _, h => by simp [dwfEntries, dwfEntry] at h
  | .cons (.bytes _) _, _, _, _, _, _, _, _, _, h => by simp [dwfEntries, dwfEntry] at h
end

end

/-! ### schema rules and small facts used by the flag -/

/-- required fields are not oneof members -/
def ReqOK (S : Schema) : Prop := ∀ i n g, (S.msg i).find n = some g → g.card = .required → g.oneof = none

def reqOKB (S : Schema) : Bool :=
  S.msgs.all fun d => d.fields.all fun g => decide (g.card = .required → g.oneof = none)

theorem reqOK_of_B {S : Schema} (h : reqOKB S = true) : ReqOK S := by
  intro i n g hg hc
  by_cases hi : i < S.msgs.length
  · unfold reqOKB at h
    rw [List.all_eq_true] at h
    have hmem : S.msg i ∈ S.msgs := by
      unfold Schema.msg
      rw [List.getD_eq_getElem?_getD, List.getElem?_eq_getElem hi]
      exact List.getElem_mem hi
    have h1 := h _ hmem
    rw [List.all_eq_true] at h1
    have := h1 g (find_mem hg)
    simp only [decide_eq_true_eq] at this
    exact this hc
  · have := find_mem hg
    rw [msg_out_of_range (by omega)] at this; cases this

/-- no map field has a message value -/
def NoMsgMap (S : Schema) : Prop :=
  ∀ i f, f ∈ (S.msg i).fields → f.card = .map → ∀ vf, (S.msg f.sub).find 2 = some vf → vf.kind.isMessage = false

/-- required fields that are populated stay populated -/
def Persist (d : MsgD) (fs fs' : Fields) : Prop :=
  ∀ n g, d.find n = some g → g.card = .required → (fs.get? n).isSome = true → (fs'.get? n).isSome = true

theorem Persist.refl (d : MsgD) (fs : Fields) : Persist d fs fs := fun _ _ _ _ h => h
theorem Persist.trans {d : MsgD} {a b c : Fields} (h1 : Persist d a b) (h2 : Persist d b c) : Persist d a c :=
  fun n g hg hc h => h2 n g hg hc (h1 n g hg hc h)

theorem persist_set (d : MsgD) (fs : Fields) (k : Nat) (fv : FVal) : Persist d fs (fs.set k fv) := by
  intro n g _ _ h
  rw [Fields.get?_set]; split
  · rfl
  · exact h

theorem otherMember_false {d : MsgD} {n : Nat} {g : Field} (hg : d.find n = some g) (ho : g.oneof = none)
    (o keep : Nat) : d.otherMember o keep n = false := by
  simp [MsgD.otherMember, hg, ho]

theorem persist_clearFor {d : MsgD} (hR : ∀ n g, d.find n = some g → g.card = .required → g.oneof = none)
    (f : Field) (fs : Fields) :
    Persist d fs (match f.oneof with
      | some o => Fields.clearOneof d o f.num fs
      | none => fs) := by
  intro n g hg hc h
  cases f.oneof with
  | none => exact h
  | some o =>
    simp only
    rw [Fields.get?_clearOneof, otherMember_false hg (hR n g hg hc)]
    simpa using h

theorem persist_setSingular {d : MsgD} (hR : ∀ n g, d.find n = some g → g.card = .required → g.oneof = none)
    {f : Field} (hf : d.find f.num = some f) (fs : Fields) (v : Val) : Persist d fs (setSingular d f fs v) := by
  intro n g hg hc h
  rw [get?_setSingular]
  split
  · rename_i hn
    subst hn
    rw [hf] at hg; cases hg
    simp [hc]
  · have : oneofOther d f n = false := by
      unfold oneofOther
      cases f.oneof with
      | none => rfl
      | some o => exact otherMember_false hg (hR n g hg hc) o f.num
    simp only [this, Bool.false_eq_true, if_false]
    exact h

theorem persist_appendList (d : MsgD) (fs : Fields) (k : Nat) (vs : Vals) : Persist d fs (appendList fs k vs) := by
  rw [appendList_eq]; split
  · exact .refl _ _
  · exact persist_set _ _ _ _

/-- the fields whose bit is set in `requiredMask` are required and populated -/
def SeenOK (d : MsgD) (fs : Fields) (seen : List Nat) : Prop :=
  ∀ n ∈ seen, (fs.get? n).isSome = true ∧ ∃ g, d.find n = some g ∧ g.card = .required

theorem SeenOK.persist {d : MsgD} {fs fs' : Fields} {seen : List Nat} (h : SeenOK d fs seen) (hp : Persist d fs fs') :
    SeenOK d fs' seen := by
  intro n hn
  obtain ⟨h1, g, hg, hc⟩ := h n hn
  exact ⟨hp n g hg hc h1, g, hg, hc⟩

theorem reqDone_present {d : MsgD} {fs : Fields} {seen : List Nat} (h : reqDone d seen = true) (hs : SeenOK d fs seen) :
    (d.fields.all fun f => f.card ≠ .required || (fs.get? f.num).isSome) = true := by
  rw [List.all_eq_true]
  intro f hf
  by_cases hc : f.card = .required
  · have hmem : f ∈ d.fields.filter fun f => decide (f.card = .required) := by simp [hf, hc]
    unfold reqDone at h
    simp only [Bool.or_eq_true, Bool.and_eq_true, List.all_eq_true] at h
    rcases h with h | h
    · rw [List.isEmpty_iff] at h; rw [h] at hmem; cases hmem
    · have := h.2 f hmem
      simp only [List.contains_eq_mem, decide_eq_true_eq] at this
      simp [(hs f.num this).1]
  · simp [hc]

theorem decScalar_not_msg {f : Field} {wt : Nat} {val : List Byte} {v : Val}
    (h : decScalar f wt val = some (.ok v)) : isMsgVal v = false := by
  unfold decScalar at h
  split at h
  · cases h
  · repeat' split at h
    all_goals first
      | (cases h; done)
      | (simp only [Option.some.injEq, Except.ok.injEq] at h; subst h; rfl)

theorem initVal_of_not_msg {S : Schema} {f : Field} {v : Val} (h : isMsgVal v = false) : initVal S f v = true := by
  cases v with
  | msg m => cases h
  | num n => simp [initVal]
  | bytes b => simp [initVal]

theorem decPacked_init {S : Schema} {f : Field} (k : Kind) : ∀ (fuel : Nat) (b : List Byte) (vs : Vals),
    decPacked k fuel b = .ok vs → initVals S f vs = true
  | 0, _, _, h => by simp [decPacked] at h
  | fuel + 1, [], vs, h => by
    simp only [decPacked, Except.ok.injEq] at h; subst h; rfl
  | fuel + 1, x :: r, vs, h => by
    rw [decPacked_succ k fuel (by simp)] at h
    have step : ∀ (w : Nat) (n : Nat),
        Except.map (Vals.cons (.num w)) (decPacked k fuel ((x :: r).drop n)) = .ok vs → initVals S f vs = true := by
      intro w n hr
      cases hd : decPacked k fuel ((x :: r).drop n) with
      | error e => simp [hd, Except.map] at hr
      | ok tl =>
        simp only [hd, Except.map, Except.ok.injEq] at hr; subst hr
        rw [initVals, decPacked_init k fuel _ tl hd]; simp [initVal]
    repeat' split at h
    all_goals first
      | (simp at h; done)
      | exact step _ _ h

theorem initFields_appendList {S : Schema} {d : MsgD} {fs : Fields} (h : initFields S d fs = true) {f : Field}
    (hf : d.find f.num = some f) {vs : Vals} (hv : initVals S f vs = true) :
    initFields S d (appendList fs f.num vs) = true := by
  rw [appendList_eq]
  split
  · exact h
  · refine initFields_set h _ _ (fun g hg => ?_)
    rw [hf] at hg; cases hg
    rw [initFVal]
    exact initVals_append (initVals_listAt h hf) hv

theorem initFields_setSingular {S : Schema} {d : MsgD} {fs : Fields} (h : initFields S d fs = true) {f : Field}
    {v : Val} (hv : isMsgVal v = false) : initFields S d (setSingular d f fs v) = true := by
  unfold setSingular
  have h0 : initFields S d (match f.oneof with
      | some o => Fields.clearOneof d o f.num fs
      | none => fs) = true := by
    cases f.oneof with
    | none => exact h
    | some o => exact initFields_clearOneof h _ _
  simp only
  split
  · exact initFields_erase h0 _
  · exact initFields_set h0 _ _ (fun g _ => by rw [initFVal]; exact initVal_of_not_msg hv)

theorem isMsgVal_defaultScalar (f : Field) : isMsgVal (defaultScalar f) = false := by
  unfold defaultScalar; split <;> rfl

theorem decTag_num_pos {b : List Byte} {num wt tl : Nat} (ht : decTag b = .ok (num, wt, tl)) : 1 ≤ num := by
  unfold decTag at ht
  split at ht
  · simp at ht
  · simp only at ht
    split at ht
    · simp at ht
    · split at ht
      · simp at ht
      · simp only [Except.ok.injEq, Prod.mk.injEq] at ht; omega

end FastInit
