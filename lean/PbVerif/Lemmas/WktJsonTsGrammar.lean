import PbVerif.Lemmas.WktJsonTimestamp
/-! Helper lemmas for C23: `parseTime` / `unmarshalTimestamp` against the Timestamp grammar `TsParts`
(both directions, all strings). -/
set_option linter.unusedSimpArgs false
set_option linter.unusedVariables false
namespace WktJson

/-! ### digits back and forth -/

theorem pad2_of_digits {a b : Char} (ha : isDigit a = true) (hb : isDigit b = true) :
    padDigits 2 (digitVal a * 10 + digitVal b) = [a, b] := by
  have h1 := digitVal_lt ha
  have h2 := digitVal_lt hb
  rw [padDigits_two]
  have e1 : (digitVal a * 10 + digitVal b) / 10 % 10 = digitVal a := by omega
  have e2 : (digitVal a * 10 + digitVal b) % 10 = digitVal b := by omega
  rw [e1, e2, digitChar_digitVal ha, digitChar_digitVal hb]

theorem natOfDigits_four (a b c d : Char) :
    natOfDigits [a, b, c, d] = digitVal a * 1000 + digitVal b * 100 + digitVal c * 10 + digitVal d := by
  simp [natOfDigits_cons, natOfDigits_nil]
  omega

theorem pad4_of_digits {a b c d : Char} (ha : isDigit a = true) (hb : isDigit b = true) (hc : isDigit c = true)
    (hd : isDigit d = true) : padDigits 4 (natOfDigits [a, b, c, d]) = [a, b, c, d] := by
  have h1 := digitVal_lt ha
  have h2 := digitVal_lt hb
  have h3 := digitVal_lt hc
  have h4 := digitVal_lt hd
  rw [natOfDigits_four, padDigits_four]
  have e1 : (digitVal a * 1000 + digitVal b * 100 + digitVal c * 10 + digitVal d) / 1000 % 10 = digitVal a := by omega
  have e2 : (digitVal a * 1000 + digitVal b * 100 + digitVal c * 10 + digitVal d) / 100 % 10 = digitVal b := by omega
  have e3 : (digitVal a * 1000 + digitVal b * 100 + digitVal c * 10 + digitVal d) / 10 % 10 = digitVal c := by omega
  have e4 : (digitVal a * 1000 + digitVal b * 100 + digitVal c * 10 + digitVal d) % 10 = digitVal d := by omega
  rw [e1, e2, e3, e4, digitChar_digitVal ha, digitChar_digitVal hb, digitChar_digitVal hc, digitChar_digitVal hd]

/-! ### inverting the stages of `parseTime` -/

theorem getYear_some {s r : Str} {y : Nat} (h : getYear s = some (y, r)) :
    y < 10000 ∧ s = padDigits 4 y ++ r := by
  match s, h with
  | a :: b :: c :: d :: t, h =>
    simp only [getYear] at h
    split at h
    · next hd =>
      simp only [Option.some.injEq, Prod.mk.injEq] at h
      obtain ⟨hy, hr⟩ := h
      subst hy; subst hr
      refine ⟨?_, ?_⟩
      · have := natOfDigits_lt (ds := [a, b, c, d]) (by
          intro x hx
          simp only [List.mem_cons, List.not_mem_nil, or_false] at hx
          rcases hx with e | e | e | e
          · subst e; exact hd.1
          · subst e; exact hd.2.1
          · subst e; exact hd.2.2.1
          · subst e; exact hd.2.2.2)
        simpa using this
      · rw [pad4_of_digits hd.1 hd.2.1 hd.2.2.1 hd.2.2.2]; rfl
    · cases h
  | [], h => simp [getYear] at h
  | [_], h => simp [getYear] at h
  | [_, _], h => simp [getYear] at h
  | [_, _, _], h => simp [getYear] at h

theorem getnum_true_some {s r : Str} {n : Nat} (h : getnum true s = some (n, r)) :
    n < 100 ∧ s = padDigits 2 n ++ r := by
  match s, h with
  | [], h => simp [getnum] at h
  | [c], h => simp [getnum] at h
  | c :: d :: t, h =>
    simp only [getnum] at h
    split at h
    · cases h
    · next hc =>
      split at h
      · simp at h
      · next hd =>
        simp only [Option.some.injEq, Prod.mk.injEq] at h
        obtain ⟨hn, hr⟩ := h
        subst hn; subst hr
        have hc' : isDigit c = true := by simpa using hc
        have hd' : isDigit d = true := by simpa using hd
        have := digitVal_lt hc'
        have := digitVal_lt hd'
        exact ⟨by omega, by rw [pad2_of_digits hc' hd']; rfl⟩

/-- a non-fixed number followed by ':' is two digits or one digit -/
theorem getnum_false_colon {s r : Str} {n : Nat} (h : getnum false s = some (n, ':' :: r)) :
    (n < 100 ∧ s = padDigits 2 n ++ ':' :: r) ∨ (n < 10 ∧ s = digitChar n :: ':' :: r) := by
  match s, h with
  | [], h => simp [getnum] at h
  | [c], h =>
    simp only [getnum] at h
    split at h <;> simp at h
  | c :: d :: t, h =>
    simp only [getnum] at h
    split at h
    · cases h
    · next hc =>
      have hc' : isDigit c = true := by simpa using hc
      split at h
      · next hd =>
        simp only [Bool.false_eq_true, if_false, Option.some.injEq, Prod.mk.injEq] at h
        obtain ⟨hn, hr⟩ := h
        subst hn
        right
        refine ⟨digitVal_lt hc', ?_⟩
        rw [digitChar_digitVal hc', hr]
      · next hd =>
        simp only [Option.some.injEq, Prod.mk.injEq] at h
        obtain ⟨hn, hr⟩ := h
        subst hn; subst hr
        have hd' : isDigit d = true := by simpa using hd
        have := digitVal_lt hc'
        have := digitVal_lt hd'
        left
        exact ⟨by omega, by rw [pad2_of_digits hc' hd']; rfl⟩

theorem skipChar_some {p : Char} {s r : Str} (h : skipChar p s = some r) : s = p :: r := by
  cases s with
  | nil => simp [skipChar] at h
  | cons c t =>
    simp only [skipChar] at h
    split at h
    · next hc => simp only [Option.some.injEq] at h; rw [hc, h]
    · cases h

theorem isDigit_colon : isDigit ':' = false := by decide

/-- the fraction stage always succeeds; what it consumed is a fraction of the grammar -/
theorem getFrac_spec (s : Str) :
    ∃ fr, s = tsFracChars fr ++ (getFrac s).2 ∧ (getFrac s).1 = tsNanos fr ∧
      (∀ comma ds, fr = some (comma, ds) → allDigits ds ∧ ds ≠ []) := by
  have none_case : ∀ s' : Str, getFrac s' = (0, s') →
      ∃ fr, s' = tsFracChars fr ++ (getFrac s').2 ∧ (getFrac s').1 = tsNanos fr ∧
        (∀ comma ds, fr = some (comma, ds) → allDigits ds ∧ ds ≠ []) := by
    intro s' h
    exact ⟨none, by rw [h]; rfl, by rw [h]; rfl, by intro _ _ e; cases e⟩
  match s with
  | [] => exact none_case [] rfl
  | [c] => exact none_case [c] rfl
  | c :: d :: t =>
    by_cases hcond : (c = '.' ∨ c = ',') ∧ isDigit d = true
    · have hg : getFrac (c :: d :: t) = (nanosOfFrac (takeDigits (d :: t)).1, (takeDigits (d :: t)).2) := by
        simp only [getFrac, hcond, and_self, if_true]
      have sp := takeDigits_spec (d :: t)
      have hne : (takeDigits (d :: t)).1 ≠ [] := by
        simp [takeDigits, hcond.2]
      refine ⟨some (decide (c = ','), (takeDigits (d :: t)).1), ?_, ?_, ?_⟩
      · rw [hg]
        simp only [tsFracChars]
        have hsep : (if decide (c = ',') = true then ',' else '.') = c := by
          rcases hcond.1 with e | e <;> subst e <;> decide
        rw [hsep, List.cons_append, ← sp.1]
      · rw [hg]; rfl
      · intro comma ds e
        injection e with e
        injection e with _ e2
        subst e2
        exact ⟨sp.2.1, hne⟩
    · have hg : getFrac (c :: d :: t) = (0, c :: d :: t) := by
        simp only [getFrac, hcond, if_false]
      exact none_case _ hg

theorem getZone_some {s r : Str} {off : Int} (h : getZone s = some (off, r)) :
    ∃ z, s = tsZoneChars z ++ r ∧ off = tsOffset z ∧ (∀ neg hh mm, z = some (neg, hh, mm) → hh ≤ 24 ∧ mm ≤ 60) := by
  cases s with
  | nil => simp [getZone] at h
  | cons c t =>
    simp only [getZone] at h
    split at h
    · next hc =>
      simp only [Option.some.injEq, Prod.mk.injEq] at h
      obtain ⟨h1, h2⟩ := h
      subst hc; subst h1; subst h2
      exact ⟨none, rfl, rfl, by intro _ _ _ e; cases e⟩
    · next hc =>
      split at h
      · next h1 h2 col m1 m2 rest =>
        split at h
        · cases h
        · next hcol =>
          split at h
          · cases h
          · next hdig =>
            have hcol' : col = ':' := by simpa using hcol
            have hd : isDigit h1 = true ∧ isDigit h2 = true ∧ isDigit m1 = true ∧ isDigit m2 = true := by
              simpa using hdig
            split at h
            · cases h
            · next hhr =>
              split at h
              · cases h
              · next hmm =>
                have build : ∀ neg : Bool, c = (if neg then '-' else '+') →
                    off = tsOffset (some (neg, digitVal h1 * 10 + digitVal h2, digitVal m1 * 10 + digitVal m2)) →
                    r = rest →
                    ∃ z, c :: h1 :: h2 :: col :: m1 :: m2 :: rest = tsZoneChars z ++ r ∧ off = tsOffset z ∧
                      (∀ neg hh mm, z = some (neg, hh, mm) → hh ≤ 24 ∧ mm ≤ 60) := by
                  intro neg hcn hoff hr
                  refine ⟨some (neg, digitVal h1 * 10 + digitVal h2, digitVal m1 * 10 + digitVal m2), ?_, hoff, ?_⟩
                  · simp only [tsZoneChars]
                    rw [pad2_of_digits hd.1 hd.2.1, pad2_of_digits hd.2.2.1 hd.2.2.2, hcn, hcol', hr]
                    rfl
                  · intro n' hh' mm' e
                    injection e with e
                    injection e with _ e
                    injection e with e1 e2
                    subst e1; subst e2
                    omega
                split at h
                · next hplus =>
                  simp only [Option.some.injEq, Prod.mk.injEq] at h
                  exact build false (by simpa using hplus) (by simp [tsOffset, ← h.1]) h.2.symm
                · split at h
                  · next hminus =>
                    simp only [Option.some.injEq, Prod.mk.injEq] at h
                    exact build true (by simpa using hminus) (by simp [tsOffset, ← h.1]) h.2.symm
                  · cases h
      · cases h

/-! ### running the stages on a rendered literal -/

theorem getnum_hour (p : TsParts) (hh : p.hour < 24) (h1 : p.hour1 = true → p.hour < 10) (rest : Str) :
    getnum false (p.hourChars ++ ':' :: rest) = some (p.hour, ':' :: rest) := by
  unfold TsParts.hourChars
  split
  · next hone =>
    have hlt := h1 hone
    simp only [List.cons_append, List.nil_append, getnum, isDigit_digitChar hlt, isDigit_colon,
      digitVal_digitChar hlt, not_true_eq_false, if_false, Bool.false_eq_true, not_false_eq_true, if_true]
  · exact getnum_pad2 false p.hour (by omega) _

theorem tsZoneChars_head (z : Option (Bool × Nat × Nat)) :
    ∃ c t, tsZoneChars z = c :: t ∧ isDigit c = false ∧ c ≠ '.' ∧ c ≠ ',' ∧
      (c = 'Z' ∨ c = '-' ∨ c = '+') ∧ (∀ x ∈ t, ¬ (x = 'Z' ∨ x = '-' ∨ x = '+') ∧ x ≠ '.') := by
  cases z with
  | none => exact ⟨'Z', [], rfl, by decide, by decide, by decide, Or.inl rfl, by intro x hx; cases hx⟩
  | some v =>
    obtain ⟨neg, hh, mm⟩ := v
    refine ⟨if neg then '-' else '+', padDigits 2 hh ++ ':' :: padDigits 2 mm, rfl, ?_, ?_, ?_, ?_, ?_⟩
    · cases neg <;> decide
    · cases neg <;> decide
    · cases neg <;> decide
    · cases neg <;> simp
    · intro x hx
      simp only [List.mem_append, List.mem_cons] at hx
      have hdig : ∀ w n, x ∈ padDigits w n → ¬ (x = 'Z' ∨ x = '-' ∨ x = '+') ∧ x ≠ '.' := by
        intro w n hm
        have hd := allDigits_padDigits w n x hm
        refine ⟨?_, digit_ne_dot hd⟩
        rintro (e | e | e) <;> subst e <;> revert hd <;> decide
      rcases hx with hx | hx | hx
      · exact hdig _ _ hx
      · subst hx; decide
      · exact hdig _ _ hx

theorem getFrac_ts (fr : Option (Bool × Str)) (z : Option (Bool × Nat × Nat))
    (hfr : ∀ comma ds, fr = some (comma, ds) → allDigits ds ∧ ds ≠ []) :
    getFrac (tsFracChars fr ++ tsZoneChars z) = (tsNanos fr, tsZoneChars z) := by
  obtain ⟨c, t, hz, hcd, hc1, hc2, _, _⟩ := tsZoneChars_head z
  cases fr with
  | none =>
    simp only [tsFracChars, List.nil_append, tsNanos]
    rw [hz]
    cases t with
    | nil => rfl
    | cons d t' =>
      simp only [getFrac]
      rw [if_neg (by intro h; rcases h.1 with e | e; exact hc1 e; exact hc2 e)]
  | some v =>
    obtain ⟨comma, ds⟩ := v
    obtain ⟨hall, hne⟩ := hfr comma ds rfl
    cases ds with
    | nil => exact absurd rfl hne
    | cons d t' =>
      have hd := (allDigits_cons.mp hall).1
      have ht : takeDigits (d :: (t' ++ tsZoneChars z)) = (d :: t', tsZoneChars z) := by
        have := takeDigits_append (ds := d :: t') (rest := tsZoneChars z) hall (by
          intro c' t'' e
          rw [hz] at e
          injection e with e1 _
          subst e1; exact hcd)
        simpa using this
      simp only [tsFracChars, tsNanos, List.cons_append, getFrac]
      have hsep : ((if comma = true then ',' else '.') = '.' ∨ (if comma = true then ',' else '.') = ',') := by
        cases comma <;> simp
      rw [if_pos ⟨hsep, hd⟩, ht]

theorem getZone_ts (z : Option (Bool × Nat × Nat)) (hz : ∀ neg hh mm, z = some (neg, hh, mm) → hh ≤ 24 ∧ mm ≤ 60) :
    getZone (tsZoneChars z) = some (tsOffset z, []) := by
  cases z with
  | none => simp [tsZoneChars, getZone, tsOffset]
  | some v =>
    obtain ⟨neg, hh, mm⟩ := v
    obtain ⟨h1, h2⟩ := hz neg hh mm rfl
    have a1 : hh / 10 % 10 < 10 := Nat.mod_lt _ (by omega)
    have a2 : hh % 10 < 10 := Nat.mod_lt _ (by omega)
    have a3 : mm / 10 % 10 < 10 := Nat.mod_lt _ (by omega)
    have a4 : mm % 10 < 10 := Nat.mod_lt _ (by omega)
    have ehh : hh / 10 % 10 * 10 + hh % 10 = hh := by omega
    have emm : mm / 10 % 10 * 10 + mm % 10 = mm := by omega
    simp only [tsZoneChars, padDigits_two, List.cons_append, List.nil_append, getZone]
    have hnz : (if neg = true then '-' else '+') ≠ 'Z' := by cases neg <;> decide
    rw [if_neg hnz]
    simp only [ne_eq, not_true_eq_false, if_false, isDigit_digitChar a1, isDigit_digitChar a2,
      isDigit_digitChar a3, isDigit_digitChar a4, and_self, digitVal_digitChar a1, digitVal_digitChar a2,
      digitVal_digitChar a3, digitVal_digitChar a4, ehh, emm]
    rw [if_neg (by omega), if_neg (by omega)]
    cases neg <;> simp [tsOffset]

/-- `parseTime` on a rendered literal whose fields are in range -/
theorem parseTime_render (p : TsParts) (hf : p.Fields) :
    parseTime p.render = some (p.value.1, tsNanos p.frac) := by
  obtain ⟨hY, hM1, hM12, hD1, hDn, hh, hh1, hmi, hs, hfr, hz⟩ := hf
  have hD100 : p.day < 100 := by
    have : daysIn (p.year : Int) (p.month : Int) ≤ 31 := by
      unfold daysIn
      split
      · split <;> omega
      · split <;> omega
    omega
  unfold parseTime TsParts.render
  rw [getYear_pad4 p.year hY]
  simp only [Option.bind_some, skipChar_cons]
  rw [getnum_pad2 true p.month (by omega)]
  simp only [Option.bind_some]
  rw [if_neg (by omega)]
  simp only [skipChar_cons, Option.bind_some]
  rw [getnum_pad2 true p.day hD100]
  simp only [Option.bind_some, skipChar_cons]
  rw [getnum_hour p hh hh1]
  simp only [Option.bind_some]
  rw [if_neg (by omega)]
  simp only [skipChar_cons, Option.bind_some]
  rw [getnum_pad2 true p.min (by omega)]
  simp only [Option.bind_some]
  rw [if_neg (by omega)]
  simp only [skipChar_cons, Option.bind_some]
  rw [getnum_pad2 true p.sec (by omega)]
  simp only [Option.bind_some]
  rw [if_neg (by omega), getFrac_ts p.frac p.zone hfr]
  simp only [getZone_ts p.zone hz, Option.bind_some, ne_eq, not_true_eq_false, if_false]
  rw [if_neg (by omega)]
  rfl

/-- every string `parseTime` accepts is a rendered literal with fields in range, and the result is its value -/
theorem parseTime_some {s : Str} {secs : Int} {ns : Nat} (h : parseTime s = some (secs, ns)) :
    ∃ p : TsParts, p.Fields ∧ p.render = s ∧ p.value.1 = secs ∧ tsNanos p.frac = ns := by
  unfold parseTime at h
  cases e1 : getYear s with
  | none => simp [e1] at h
  | some v1 =>
    obtain ⟨year, s1⟩ := v1
    obtain ⟨hY, hs0⟩ := getYear_some e1
    simp only [e1, Option.bind_some] at h
    cases e2 : skipChar '-' s1 with
    | none => simp [e2] at h
    | some s2 =>
      have hs1 := skipChar_some e2
      simp only [e2, Option.bind_some] at h
      cases e3 : getnum true s2 with
      | none => simp [e3] at h
      | some v3 =>
        obtain ⟨month, s3⟩ := v3
        obtain ⟨_, hs2⟩ := getnum_true_some e3
        simp only [e3, Option.bind_some] at h
        split at h
        · cases h
        · next hmon =>
          cases e4 : skipChar '-' s3 with
          | none => simp [e4] at h
          | some s4 =>
            have hs3 := skipChar_some e4
            simp only [e4, Option.bind_some] at h
            cases e5 : getnum true s4 with
            | none => simp [e5] at h
            | some v5 =>
              obtain ⟨day, s5⟩ := v5
              obtain ⟨_, hs4⟩ := getnum_true_some e5
              simp only [e5, Option.bind_some] at h
              cases e6 : skipChar 'T' s5 with
              | none => simp [e6] at h
              | some s6 =>
                have hs5 := skipChar_some e6
                simp only [e6, Option.bind_some] at h
                cases e7 : getnum false s6 with
                | none => simp [e7] at h
                | some v7 =>
                  obtain ⟨hour, s7⟩ := v7
                  simp only [e7, Option.bind_some] at h
                  split at h
                  · cases h
                  · next hhour =>
                    cases e8 : skipChar ':' s7 with
                    | none => simp [e8] at h
                    | some s8 =>
                      have hs7 := skipChar_some e8
                      simp only [e8, Option.bind_some] at h
                      cases e9 : getnum true s8 with
                      | none => simp [e9] at h
                      | some v9 =>
                        obtain ⟨min, s9⟩ := v9
                        obtain ⟨_, hs8⟩ := getnum_true_some e9
                        simp only [e9, Option.bind_some] at h
                        split at h
                        · cases h
                        · next hmin =>
                          cases e10 : skipChar ':' s9 with
                          | none => simp [e10] at h
                          | some s10 =>
                            have hs9 := skipChar_some e10
                            simp only [e10, Option.bind_some] at h
                            cases e11 : getnum true s10 with
                            | none => simp [e11] at h
                            | some v11 =>
                              obtain ⟨sec, s11⟩ := v11
                              obtain ⟨_, hs10⟩ := getnum_true_some e11
                              simp only [e11, Option.bind_some] at h
                              split at h
                              · cases h
                              · next hsec =>
                                obtain ⟨fr, hs11, hfn, hfw⟩ := getFrac_spec s11
                                generalize hgf : getFrac s11 = gf at h hs11 hfn
                                obtain ⟨nsec, s12⟩ := gf
                                simp only at h hs11 hfn
                                cases e12 : getZone s12 with
                                | none => simp [e12] at h
                                | some v12 =>
                                  obtain ⟨off, s13⟩ := v12
                                  obtain ⟨z, hs12, hoff, hzw⟩ := getZone_some e12
                                  simp only [e12, Option.bind_some] at h
                                  split at h
                                  · cases h
                                  · next hrest =>
                                    split at h
                                    · cases h
                                    · next hday =>
                                      simp only [Option.some.injEq, Prod.mk.injEq] at h
                                      have hs13 : s13 = [] := by simpa using hrest
                                      subst hs13
                                      rw [hs7] at e7
                                      have hhr := getnum_false_colon e7
                                      have fields : ∀ h1 : Bool, (h1 = true → hour < 10) →
                                          (⟨year, month, day, hour, min, sec, h1, fr, z⟩ : TsParts).Fields := by
                                        intro h1 hh1
                                        dsimp only [TsParts.Fields]
                                        exact ⟨hY, by omega, by omega, by omega, by omega, by omega, hh1, by omega, by omega,
                                          hfw, hzw⟩
                                      rcases hhr with ⟨_, hs6⟩ | ⟨hlt, hs6⟩
                                      · refine ⟨⟨year, month, day, hour, min, sec, false, fr, z⟩, fields false (by simp), ?_, ?_, ?_⟩
                                        · simp only [TsParts.render, TsParts.hourChars, Bool.false_eq_true, if_false]
                                          rw [hs0, hs1, hs2, hs3, hs4, hs5, hs6, hs8, hs9, hs10, hs11, hs12]
                                          simp
                                        · simp only [TsParts.value]; rw [← hoff]; exact h.1
                                        · rw [← hfn]; exact h.2
                                      · refine ⟨⟨year, month, day, hour, min, sec, true, fr, z⟩, fields true (fun _ => hlt), ?_, ?_, ?_⟩
                                        · simp only [TsParts.render, TsParts.hourChars, if_true]
                                          rw [hs0, hs1, hs2, hs3, hs4, hs5, hs6, hs8, hs9, hs10, hs11, hs12]
                                          simp
                                        · simp only [TsParts.value]; rw [← hoff]; exact h.1
                                        · rw [← hfn]; exact h.2

/-! ### the "more than nine digits after the last '.'" test on a rendered literal -/

theorem render_split (p : TsParts) (hh1 : p.hour1 = true → p.hour < 10) :
    ∃ pre, p.render = pre ++ (tsFracChars p.frac ++ tsZoneChars p.zone) ∧ ∀ c ∈ pre, c ≠ '.' := by
  refine ⟨padDigits 4 p.year ++ '-' :: (padDigits 2 p.month ++ '-' :: (padDigits 2 p.day ++ 'T' :: (p.hourChars ++ ':' ::
    (padDigits 2 p.min ++ ':' :: padDigits 2 p.sec)))), by simp [TsParts.render, List.append_assoc], ?_⟩
  intro c hc
  simp only [List.mem_append, List.mem_cons] at hc
  have hd : ∀ w n, c ∈ padDigits w n → c ≠ '.' := fun w n hm => digit_ne_dot (allDigits_padDigits w n c hm)
  have hhc : c ∈ p.hourChars → c ≠ '.' := by
    unfold TsParts.hourChars
    split
    · next hone =>
      intro hm
      simp only [List.mem_singleton] at hm
      subst hm
      exact digit_ne_dot (isDigit_digitChar (hh1 hone))
    · exact hd _ _
  rcases hc with hc | hc | hc | hc | hc | hc | hc | hc | hc | hc | hc
  · exact hd _ _ hc
  · subst hc; decide
  · exact hd _ _ hc
  · subst hc; decide
  · exact hd _ _ hc
  · subst hc; decide
  · exact hhc hc
  · subst hc; decide
  · exact hd _ _ hc
  · subst hc; decide
  · exact hd _ _ hc

theorem tooManyFracDigits_render (p : TsParts) (hh1 : p.hour1 = true → p.hour < 10)
    (hfr : ∀ comma ds, p.frac = some (comma, ds) → allDigits ds ∧ ds ≠ []) :
    tooManyFracDigits p.render = true ↔ ∃ ds, p.frac = some (false, ds) ∧ 9 < ds.length := by
  obtain ⟨pre, hr, hpre⟩ := render_split p hh1
  obtain ⟨zc, zt, hz, _, hzdot, _, hzp, hzt⟩ := tsZoneChars_head p.zone
  rw [hr, hz]
  have nodot : ∀ (mid : Str), (∀ c ∈ mid, c ≠ '.') →
      tooManyFracDigits (pre ++ (mid ++ zc :: zt)) = false := by
    intro mid hmid
    apply tooManyFracDigits_nodot
    intro c hc
    simp only [List.mem_append, List.mem_cons] at hc
    rcases hc with hc | hc | hc | hc
    · exact hpre c hc
    · exact hmid c hc
    · subst hc; exact hzdot
    · exact (hzt c hc).2
  cases hfrac : p.frac with
  | none =>
    simp only [tsFracChars]
    rw [nodot [] (by intro c hc; cases hc)]
    simp
  | some v =>
    obtain ⟨comma, ds⟩ := v
    obtain ⟨hall, _⟩ := hfr comma ds hfrac
    cases comma with
    | true =>
      simp only [tsFracChars, if_true]
      rw [nodot (',' :: ds) (by
        intro c hc
        rcases List.mem_cons.mp hc with e | e
        · subst e; decide
        · exact digit_ne_dot (hall c e))]
      simp
    | false =>
      simp only [tsFracChars, Bool.false_eq_true, if_false]
      unfold tooManyFracDigits
      have hi : lastIndex (fun c => decide (c = '.')) (pre ++ ('.' :: ds ++ zc :: zt)) = some pre.length := by
        have := lastIndex_mid (fun c => decide (c = '.')) pre '.' (ds ++ zc :: zt) (by simp) (by
          intro x hx
          simp only [List.mem_append, List.mem_cons] at hx
          rcases hx with hx | hx | hx
          · simpa using digit_ne_dot (hall x hx)
          · subst hx; simpa using hzdot
          · simpa using (hzt x hx).2)
        simpa using this
      have hj : lastIndex (fun c => decide (c = 'Z' ∨ c = '-' ∨ c = '+')) (pre ++ ('.' :: ds ++ zc :: zt)) =
          some (pre.length + (ds.length + 1)) := by
        have := lastIndex_mid (fun c => decide (c = 'Z' ∨ c = '-' ∨ c = '+')) (pre ++ '.' :: ds) zc zt
          (by simpa using hzp) (by intro x hx; simpa using (hzt x hx).1)
        simpa [List.append_assoc, Nat.add_assoc] using this
      rw [hi, hj]
      simp
      omega

/-! ### ',' in a rendered literal -/

theorem render_has_comma (p : TsParts) (ds : Str) (h : p.frac = some (true, ds)) : ',' ∈ p.render := by
  simp [TsParts.render, h, tsFracChars]

theorem render_no_comma (p : TsParts) (hh1 : p.hour1 = true → p.hour < 10)
    (hfr : ∀ comma ds, p.frac = some (comma, ds) → allDigits ds ∧ ds ≠ [])
    (hnc : ∀ comma ds, p.frac = some (comma, ds) → comma = false) : ¬ ',' ∈ p.render := by
  intro hc
  have hd : ∀ w n, ',' ∈ padDigits w n → False := by
    intro w n hm
    exact digit_ne_comma (allDigits_padDigits w n ',' hm) rfl
  simp only [TsParts.render, List.mem_append, List.mem_cons] at hc
  rcases hc with hc | hc | hc | hc | hc | hc | hc | hc | hc | hc | hc | hc | hc
  · exact hd _ _ hc
  · revert hc; decide
  · exact hd _ _ hc
  · revert hc; decide
  · exact hd _ _ hc
  · revert hc; decide
  · unfold TsParts.hourChars at hc
    split at hc
    · next hone =>
      simp only [List.mem_singleton] at hc
      exact digit_ne_comma (isDigit_digitChar (hh1 hone)) hc.symm
    · exact hd _ _ hc
  · revert hc; decide
  · exact hd _ _ hc
  · revert hc; decide
  · exact hd _ _ hc
  · cases hfrac : p.frac with
    | none => rw [hfrac] at hc; cases hc
    | some fv =>
      obtain ⟨comma, ds⟩ := fv
      have hcm := hnc comma ds hfrac
      subst hcm
      rw [hfrac] at hc
      simp only [tsFracChars, Bool.false_eq_true, if_false, List.mem_cons] at hc
      rcases hc with hc | hc
      · revert hc; decide
      · exact digit_ne_comma ((hfr false ds hfrac).1 ',' hc) rfl
  · cases hz : p.zone with
    | none => rw [hz] at hc; revert hc; decide
    | some zv =>
      obtain ⟨neg, hh, mm⟩ := zv
      rw [hz] at hc
      simp only [tsZoneChars, List.mem_cons, List.mem_append] at hc
      rcases hc with hc | hc | hc | hc
      · cases neg <;> (revert hc; decide)
      · exact hd _ _ hc
      · revert hc; decide
      · exact hd _ _ hc

/-- an RFC 3339 literal (two-digit hour) has at least twenty characters -/
theorem render_length (p : TsParts) (h1 : p.hour1 = false) : 20 ≤ p.render.length := by
  have hz : 1 ≤ (tsZoneChars p.zone).length := by
    cases p.zone with
    | none => simp [tsZoneChars]
    | some v => obtain ⟨neg, hh, mm⟩ := v; simp [tsZoneChars]
  simp only [TsParts.render, TsParts.hourChars, h1, Bool.false_eq_true, if_false, List.length_append,
    List.length_cons, length_padDigits]
  omega

end WktJson
