import PbVerif.Lemmas.JsonTextDepthT
/-
Totality at tree level.  The Lean functions are total by construction; the places where the *Go* code
can panic at this level are marked in the model by the error `Err.panic`:

  * protojson `unmarshalScalar` / prototext `unmarshalScalar`: `panic("invalid scalar kind")` for message kinds
    — every call site tests `Kind() == MessageKind/GroupKind` first;
  * protojson `unmarshalMapKey`: `panic("invalid kind for map key")` — unreachable when map keys have a key
    kind (`MapKeysOK`, guaranteed by protodesc validation and checked by the harness on the corpus);
  * `name[1 : len(name)-1]` on a `[`…`]` name — in bounds (`isBracketed_length`).

`no_panic_*`: the decoders never answer `panic`, for all documents.
-/
namespace JT
open Pb

def keyKindOK : Kind → Bool
  | .string | .bool | .int32 | .sint32 | .sfixed32 | .int64 | .sint64 | .sfixed64
  | .uint32 | .fixed32 | .uint64 | .fixed64 => true
  | _ => false

/-- every map field's key has a key kind -/
def MapKeysOK (X : SchemaX) : Prop :=
  ∀ i fx, fx ∈ (X.msg i).fields → fx.f.card = .map →
    ∀ kf, (X.msg fx.f.sub).find 1 = some kf → keyKindOK kf.f.kind = true

theorem isBracketed_length (s : Str) (h : isBracketed s = true) : 2 ≤ s.length := by
  unfold isBracketed at h
  simp only [Bool.and_eq_true, beq_iff_eq] at h
  obtain ⟨h1, h2⟩ := h
  match s, h1, h2 with
  | [], h1, _ => simp at h1
  | [a], h1, h2 =>
    simp at h1 h2
    rw [h1] at h2
    exact absurd h2 (by decide)
  | _ :: _ :: _, _, _ => simp

theorem resolveJSON_mem (X : SchemaX) (d : MsgX) (name : Str) (fx : FieldX) (h : resolveJSON X d name = .found fx) :
    fx ∈ d.fields := by
  unfold resolveJSON at h
  split at h
  · split at h
    · rename_i hf
      cases h
      exact List.mem_of_find?_eq_some hf
    · split at h <;> cases h
  · split at h
    · rename_i hf
      cases h
      exact List.mem_of_find?_eq_some hf
    · split at h
      · rename_i hf
        cases h
        exact List.mem_of_find?_eq_some hf
      · cases h

theorem intVal_np (k : Kind) (i : Option Int) : intVal k i ≠ .error .panic := by
  unfold intVal
  cases i with
  | none => simp
  | some i => simp only; split <;> simp

theorem bitsVal_np (b : Option Nat) : bitsVal b ≠ .error .panic := by
  unfold bitsVal
  cases b <;> simp

/-- `unmarshalScalar` panics only for message kinds -/
theorem dScalar_np (C : JCodec) (D : DOpts) (fx : FieldX) (v : JV) (hk : fx.f.kind.isMessage = false) :
    dScalar C D fx v ≠ .error .panic := by
  unfold dScalar
  cases hkk : fx.f.kind <;> simp only [hkk, Kind.isMessage] at hk ⊢
  all_goals first
    | (cases hk; done)
    | (cases v <;> (repeat' split) <;> simp [intVal_np, bitsVal_np])

theorem dKey_np (C : JCodec) (kf : FieldX) (name : Str) (hk : keyKindOK kf.f.kind = true) :
    dKey C kf name ≠ .error .panic := by
  unfold dKey
  cases hkk : kf.f.kind <;> simp only [hkk, keyKindOK] at hk ⊢
  all_goals first
    | (cases hk; done)
    | ((repeat' split) <;> simp)

theorem dHead_np (D : DOpts) (X : SchemaX) (d : MsgX) (limit : Int) (key : Str) (v : JV) (sn so : Ints) :
    dHead D X d limit key v sn so ≠ .error .panic := by
  unfold dHead
  cases resolveJSON X d key with
  | badExt => simp
  | unknown =>
    simp only
    split
    · cases hs : skipJ limit 0 v with
      | error e =>
        have := skipJ_err limit v 0 e hs
        subst this
        simp
      | ok u => simp
    · simp
  | found fx =>
    simp only
    split
    · simp
    · split
      · simp
      · cases fx.f.card <;> simp <;> (cases fx.oneofIdx <;> simp <;> split <;> simp)

theorem storeList_np {m : Msg} {fx : FieldX} {r : Except Err Vals} (h : r ≠ .error .panic) : storeList m fx r ≠ .error .panic := by
  cases r with
  | error e => simp [storeList]; intro he; exact h (by rw [he])
  | ok vs => simp [storeList]

theorem storeMap_np {m : Msg} {fx : FieldX} {r : Except Err Vals} (h : r ≠ .error .panic) : storeMap m fx r ≠ .error .panic := by
  cases r with
  | error e => simp [storeMap]; intro he; exact h (by rw [he])
  | ok vs => simp [storeMap]

theorem storeMsg_np {d : MsgX} {m : Msg} {fx : FieldX} {r : Except Err Msg} (h : r ≠ .error .panic) :
    storeMsg d m fx r ≠ .error .panic := by
  cases r with
  | error e => simp [storeMsg]; intro he; exact h (by rw [he])
  | ok vs => simp [storeMsg]

theorem storeScalar_np {d : MsgX} {m : Msg} {fx : FieldX} {r : Except Err (Option Val)} (h : r ≠ .error .panic) :
    storeScalar d m fx r ≠ .error .panic := by
  cases r with
  | error e => simp [storeScalar]; intro he; exact h (by rw [he])
  | ok ov => cases ov <;> simp [storeScalar]

mutual
theorem dMsg_np (C : JCodec) (D : DOpts) (X : SchemaX) (hK : MapKeysOK X) : ∀ (v : JV) (mi : Nat) (limit : Int),
    dMsg C D X mi limit v ≠ .error .panic
  | .obj ms, mi, limit => by
    rw [dMsg]
    split
    · simp
    · split
      · simp
      · exact dMembers_np C D X hK ms mi (limit - 1) {} {} Msg.empty
  | .null, mi, limit | .bool _, mi, limit | .num _, mi, limit | .str _, mi, limit | .arr _, mi, limit => by
    simp only [dMsg]
    split
    · simp
    · split <;> simp
theorem dMembers_np (C : JCodec) (D : DOpts) (X : SchemaX) (hK : MapKeysOK X) : ∀ (ms : JMembers) (mi : Nat) (limit : Int)
    (sn so : Ints) (m0 : Msg), dMembers C D X mi limit ms sn so m0 ≠ .error .panic
  | .nil, _, _, _, _, _ => by simp [dMembers]
  | .cons key v tl, mi, limit, sn, so, m0 => by
    rw [dMembers_cons]
    cases hd : dHead D X (X.msg mi) limit key v sn so with
    | error e =>
      simp only
      intro he
      cases he
      exact dHead_np D X (X.msg mi) limit key v sn so hd
    | skip sn' => exact dMembers_np C D X hK tl mi limit sn' so m0
    | value fx sn' so' =>
      simp only
      have hmem : fx ∈ (X.msg mi).fields :=
        resolveJSON_mem X (X.msg mi) key fx (dHead_value_cases D X (X.msg mi) limit key v sn so sn' so' fx hd).1
      have hv : dFieldVal C D X mi fx limit m0 v ≠ .error .panic := by
        unfold dFieldVal
        cases hc : fx.f.card <;> simp only
        case repeated => exact storeList_np (dList_np C D X hK v fx limit)
        case map => exact storeMap_np (dMap_np C D X hK v fx limit _ (hK mi fx hmem hc))
        all_goals
          (split
           · exact storeMsg_np (dMsg_np C D X hK v fx.f.sub limit)
           · rename_i hk
             exact storeScalar_np (dScalar_np C D fx v (by simpa using hk)))
      cases hx : dFieldVal C D X mi fx limit m0 v with
      | error e =>
        simp only
        intro he
        cases he
        exact hv hx
      | ok m' => exact dMembers_np C D X hK tl mi limit sn' so' m'
theorem dList_np (C : JCodec) (D : DOpts) (X : SchemaX) (hK : MapKeysOK X) : ∀ (v : JV) (fx : FieldX) (limit : Int),
    dList C D X fx limit v ≠ .error .panic
  | .arr es, fx, limit => by rw [dList]; exact dElems_np C D X hK es fx limit
  | .null, _, _ | .bool _, _, _ | .num _, _, _ | .str _, _, _ | .obj _, _, _ => by simp [dList]
theorem dElems_np (C : JCodec) (D : DOpts) (X : SchemaX) (hK : MapKeysOK X) : ∀ (es : JElems) (fx : FieldX) (limit : Int),
    dElems C D X fx limit es ≠ .error .panic
  | .nil, _, _ => by simp [dElems]
  | .cons v tl, fx, limit => by
    rw [dElems]
    have ht := dElems_np C D X hK tl fx limit
    split
    · cases hv : dMsg C D X fx.f.sub limit v with
      | error e =>
        simp only
        intro he
        cases he
        exact dMsg_np C D X hK v fx.f.sub limit hv
      | ok sub =>
        simp only
        cases h2 : dElems C D X fx limit tl with
        | error e => simp [Except.map]; intro he; exact ht (by rw [h2, he])
        | ok vs => simp [Except.map]
    · rename_i hk
      cases hv : dScalar C D fx v with
      | error e =>
        simp only
        intro he
        cases he
        exact dScalar_np C D fx v (by simpa using hk) hv
      | ok ox =>
        cases ox with
        | none => exact ht
        | some x =>
          simp only
          cases h2 : dElems C D X fx limit tl with
          | error e => simp [Except.map]; intro he; exact ht (by rw [h2, he])
          | ok vs => simp [Except.map]
theorem dMap_np (C : JCodec) (D : DOpts) (X : SchemaX) (hK : MapKeysOK X) : ∀ (v : JV) (fx : FieldX) (limit : Int) (cur : Vals),
    (∀ kf, (X.msg fx.f.sub).find 1 = some kf → keyKindOK kf.f.kind = true) →
      dMap C D X fx limit cur v ≠ .error .panic
  | .obj ms, fx, limit, cur, hk => by rw [dMap]; exact dEntries_np C D X hK ms fx limit cur hk
  | .null, _, _, _, _ | .bool _, _, _, _, _ | .num _, _, _, _, _ | .str _, _, _, _, _ | .arr _, _, _, _, _ => by simp [dMap]
theorem dEntries_np (C : JCodec) (D : DOpts) (X : SchemaX) (hK : MapKeysOK X) : ∀ (ms : JMembers) (fx : FieldX) (limit : Int)
    (cur : Vals), (∀ kf, (X.msg fx.f.sub).find 1 = some kf → keyKindOK kf.f.kind = true) →
      dEntries C D X fx limit ms cur ≠ .error .panic
  | .nil, _, _, _, _ => by simp [dEntries]
  | .cons key v tl, fx, limit, cur, hk => by
    rw [dEntries]
    cases h1 : (X.msg fx.f.sub).find 1 with
    | none => simp
    | some kf =>
      cases h2 : (X.msg fx.f.sub).find 2 with
      | none => simp
      | some vf =>
        simp only
        cases hkey : dKey C kf key with
        | error e =>
          simp only
          intro he
          cases he
          exact dKey_np C kf key (hk kf h1) hkey
        | ok k =>
          simp only
          split
          · simp
          · split
            · cases hv : dMsg C D X vf.f.sub limit v with
              | error e =>
                simp only
                intro he
                cases he
                exact dMsg_np C D X hK v vf.f.sub limit hv
              | ok sub => exact dEntries_np C D X hK tl fx limit _ hk
            · rename_i hm
              cases hv : dScalar C D vf v with
              | error e =>
                simp only
                intro he
                cases he
                exact dScalar_np C D vf v (by simpa using hm) hv
              | ok ox =>
                cases ox with
                | none => exact dEntries_np C D X hK tl fx limit _ hk
                | some x => exact dEntries_np C D X hK tl fx limit _ hk
end

end JT
