import PbVerif.Model.WktJson
/-! Helper lemmas for C23 (engine `wktjson`): decimal digits, `takeDigits`, `trimSuffix`, the
trailing-zero trimming shared by `marshalDuration` and `marshalTimestamp`. Core Lean only. -/
namespace WktJson

/-! ### single digits -/

theorem digitVal_digitChar {n : Nat} (h : n < 10) : digitVal (digitChar n) = n :=
  (by decide : ∀ n, n < 10 → digitVal (digitChar n) = n) n h

theorem isDigit_digitChar {n : Nat} (h : n < 10) : isDigit (digitChar n) = true :=
  (by decide : ∀ n, n < 10 → isDigit (digitChar n) = true) n h

theorem isDigit_iff {c : Char} : isDigit c = true ↔ 48 ≤ c.toNat ∧ c.toNat ≤ 57 := by
  simp [isDigit]

theorem digitChar_digitVal {c : Char} (h : isDigit c = true) : digitChar (digitVal c) = c := by
  rw [isDigit_iff] at h
  unfold digitChar digitVal
  have : 48 + (c.toNat - 48) = c.toNat := by omega
  rw [this, Char.ofNat_toNat]

theorem digitVal_lt {c : Char} (h : isDigit c = true) : digitVal c < 10 := by
  rw [isDigit_iff] at h; unfold digitVal; omega

theorem digitChar_zero : digitChar 0 = '0' := by decide

theorem digitChar_toNat {n : Nat} (h : n < 10) : (digitChar n).toNat = 48 + n :=
  (by decide : ∀ n, n < 10 → (digitChar n).toNat = 48 + n) n h

theorem allDigits_nil : allDigits [] := by intro c hc; cases hc

theorem allDigits_cons {c : Char} {t : Str} : allDigits (c :: t) ↔ isDigit c = true ∧ allDigits t := by
  simp [allDigits]

theorem allDigits_append {a b : Str} : allDigits (a ++ b) ↔ allDigits a ∧ allDigits b := by
  simp only [allDigits, List.mem_append]
  constructor
  · intro h; exact ⟨fun c hc => h c (Or.inl hc), fun c hc => h c (Or.inr hc)⟩
  · intro h c hc; rcases hc with hc | hc; exact h.1 c hc; exact h.2 c hc

/-! ### value of a digit string -/

theorem natOfDigitsAux_nil (acc : Nat) : natOfDigitsAux acc [] = acc := rfl

theorem natOfDigitsAux_cons (acc : Nat) (c : Char) (t : Str) :
    natOfDigitsAux acc (c :: t) = natOfDigitsAux (10 * acc + digitVal c) t := by
  unfold natOfDigitsAux; rw [List.foldl_cons]

theorem natOfDigitsAux_eq (acc : Nat) (ds : Str) :
    natOfDigitsAux acc ds = acc * 10 ^ ds.length + natOfDigitsAux 0 ds := by
  induction ds generalizing acc with
  | nil => simp [natOfDigitsAux_nil]
  | cons c t ih =>
    simp only [natOfDigitsAux_cons, List.length_cons]
    rw [ih, ih (10 * 0 + digitVal c), Nat.pow_succ]
    simp only [Nat.mul_zero, Nat.zero_add, Nat.add_mul, Nat.add_assoc]
    congr 1
    rw [Nat.mul_comm 10 acc, Nat.mul_assoc, Nat.mul_comm 10]

theorem natOfDigits_nil : natOfDigits [] = 0 := rfl

theorem natOfDigits_cons (c : Char) (t : Str) :
    natOfDigits (c :: t) = digitVal c * 10 ^ t.length + natOfDigits t := by
  unfold natOfDigits
  rw [natOfDigitsAux_cons, natOfDigitsAux_eq]; simp

theorem natOfDigitsAux_append (acc : Nat) (a b : Str) :
    natOfDigitsAux acc (a ++ b) = natOfDigitsAux (natOfDigitsAux acc a) b := by
  induction a generalizing acc with
  | nil => rfl
  | cons c t ih => simp only [List.cons_append, natOfDigitsAux_cons]; exact ih _

theorem natOfDigits_append (a b : Str) :
    natOfDigits (a ++ b) = natOfDigits a * 10 ^ b.length + natOfDigits b := by
  unfold natOfDigits
  rw [natOfDigitsAux_append, natOfDigitsAux_eq]

theorem natOfDigits_singleton (c : Char) : natOfDigits [c] = digitVal c := by
  simp [natOfDigits, natOfDigitsAux_cons, natOfDigitsAux_nil]

theorem natOfDigits_replicate_zero (k : Nat) : natOfDigits (List.replicate k '0') = 0 := by
  induction k with
  | zero => rfl
  | succ k ih =>
    rw [List.replicate_succ, natOfDigits_cons, ih]
    have : digitVal '0' = 0 := by decide
    simp [this]

theorem natOfDigits_lt {ds : Str} (h : allDigits ds) : natOfDigits ds < 10 ^ ds.length := by
  induction ds with
  | nil => simp [natOfDigits, natOfDigitsAux_nil]
  | cons c t ih =>
    rw [allDigits_cons] at h
    rw [natOfDigits_cons, List.length_cons, Nat.pow_succ]
    have h1 := digitVal_lt h.1
    have h2 := ih h.2
    have : digitVal c * 10 ^ t.length ≤ 9 * 10 ^ t.length := Nat.mul_le_mul_right _ (by omega)
    omega

theorem natOfDigits_trimLeftZeros (ds : Str) : natOfDigits (trimLeftZeros ds) = natOfDigits ds := by
  induction ds with
  | nil => rfl
  | cons c t ih =>
    simp only [trimLeftZeros]
    split
    · next h =>
      subst h
      rw [ih, natOfDigits_cons]
      have : digitVal '0' = 0 := by decide
      simp [this]
    · rfl

/-! ### `%0wd` -/

theorem length_padDigits (w n : Nat) : (padDigits w n).length = w := by
  induction w generalizing n with
  | zero => rfl
  | succ w ih => simp [padDigits, ih]

theorem allDigits_padDigits (w n : Nat) : allDigits (padDigits w n) := by
  induction w generalizing n with
  | zero => exact allDigits_nil
  | succ w ih =>
    simp only [padDigits]
    rw [allDigits_append]
    refine ⟨ih _, ?_⟩
    rw [allDigits_cons]
    exact ⟨isDigit_digitChar (Nat.mod_lt _ (by omega)), allDigits_nil⟩

theorem natOfDigits_padDigits (w n : Nat) : natOfDigits (padDigits w n) = n % 10 ^ w := by
  induction w generalizing n with
  | zero => simp [padDigits, natOfDigits, natOfDigitsAux_nil, Nat.mod_one]
  | succ w ih =>
    simp only [padDigits]
    rw [natOfDigits_append, ih, natOfDigits_singleton, digitVal_digitChar (Nat.mod_lt _ (by omega))]
    simp only [List.length_singleton, Nat.pow_one]
    rw [Nat.pow_succ, Nat.mul_comm (10 ^ w) 10, Nat.mod_mul]
    omega

theorem natOfDigits_padDigits_of_lt {w n : Nat} (h : n < 10 ^ w) : natOfDigits (padDigits w n) = n := by
  rw [natOfDigits_padDigits, Nat.mod_eq_of_lt h]

/-- splitting a padded number: the high `a` digits and the low `b` digits -/
theorem padDigits_add (a b n : Nat) :
    padDigits (a + b) n = padDigits a (n / 10 ^ b) ++ padDigits b n := by
  induction b generalizing n with
  | zero => simp [padDigits]
  | succ b ih =>
    rw [← Nat.add_assoc]
    simp only [padDigits]
    rw [ih, List.append_assoc, Nat.div_div_eq_div_mul, Nat.pow_succ, Nat.mul_comm 10]

theorem padDigits_three_eq_zeros {m : Nat} : padDigits 3 m = ['0', '0', '0'] ↔ m % 1000 = 0 := by
  constructor
  · intro h
    have := natOfDigits_padDigits 3 m
    rw [h] at this
    have h0 : natOfDigits ['0', '0', '0'] = 0 := by decide
    omega
  · intro h
    have e1 : m % 10 = 0 := by omega
    have e2 : m / 10 % 10 = 0 := by omega
    have e3 : m / 10 / 10 % 10 = 0 := by omega
    simp [padDigits, e1, e2, e3, digitChar_zero]

/-! ### `%d` -/

theorem natOfDigits_decDigits (n : Nat) : natOfDigits (decDigits n) = n := by
  fun_induction decDigits n with
  | case1 n h => rw [natOfDigits_singleton, digitVal_digitChar h]
  | case2 n h ih =>
    rw [natOfDigits_append, ih, natOfDigits_singleton, digitVal_digitChar (Nat.mod_lt _ (by omega))]
    simp only [List.length_singleton, Nat.pow_one]
    omega

theorem allDigits_decDigits (n : Nat) : allDigits (decDigits n) := by
  fun_induction decDigits n with
  | case1 n h => rw [allDigits_cons]; exact ⟨isDigit_digitChar h, allDigits_nil⟩
  | case2 n h ih =>
    rw [allDigits_append, allDigits_cons]
    exact ⟨ih, isDigit_digitChar (Nat.mod_lt _ (by omega)), allDigits_nil⟩

theorem decDigits_zero : decDigits 0 = ['0'] := by
  rw [decDigits]; simp [digitChar_zero]

/-- a positive number prints with a leading digit 1..9 -/
theorem decDigits_pos {n : Nat} (hn : 0 < n) :
    ∃ c t, decDigits n = c :: t ∧ 49 ≤ c.toNat ∧ c.toNat ≤ 57 ∧ allDigits t := by
  fun_induction decDigits n with
  | case1 n h =>
    refine ⟨digitChar n, [], rfl, ?_, ?_, allDigits_nil⟩ <;> rw [digitChar_toNat h] <;> omega
  | case2 n h ih =>
    obtain ⟨c, t, e, h1, h2, h3⟩ := ih (by omega)
    refine ⟨c, t ++ [digitChar (n % 10)], by rw [e]; rfl, h1, h2, ?_⟩
    rw [allDigits_append, allDigits_cons]
    exact ⟨h3, isDigit_digitChar (Nat.mod_lt _ (by omega)), allDigits_nil⟩

theorem jsonInt_decDigits (n : Nat) : JsonInt (decDigits n) := by
  rcases Nat.eq_zero_or_pos n with h | h
  · subst h; left; exact decDigits_zero
  · right; exact decDigits_pos h

/-! ### `takeDigits` -/

theorem takeDigits_append {ds rest : Str} (h : allDigits ds)
    (hr : ∀ c t, rest = c :: t → isDigit c = false) : takeDigits (ds ++ rest) = (ds, rest) := by
  induction ds with
  | nil =>
    cases rest with
    | nil => rfl
    | cons c t => simp [takeDigits, hr c t rfl]
  | cons c t ih =>
    rw [allDigits_cons] at h
    simp [takeDigits, h.1, ih h.2]

theorem takeDigits_spec (s : Str) :
    s = (takeDigits s).1 ++ (takeDigits s).2 ∧ allDigits (takeDigits s).1 ∧
      (∀ c t, (takeDigits s).2 = c :: t → isDigit c = false) := by
  induction s with
  | nil => exact ⟨rfl, allDigits_nil, by intro c t h; cases h⟩
  | cons c t ih =>
    simp only [takeDigits]
    split
    · next h =>
      refine ⟨by simp only [List.cons_append]; rw [← ih.1], ?_, ih.2.2⟩
      rw [allDigits_cons]; exact ⟨h, ih.2.1⟩
    · next h =>
      refine ⟨rfl, allDigits_nil, ?_⟩
      intro c' t' e
      injection e with e1 e2
      subst e1
      simpa using h

theorem takeDigitsN_all {n : Nat} {ds : Str} (h : allDigits ds) (hl : ds.length ≤ n) :
    takeDigitsN n ds = (ds, []) := by
  induction ds generalizing n with
  | nil => cases n <;> rfl
  | cons c t ih =>
    rw [allDigits_cons] at h
    cases n with
    | zero => simp at hl
    | succ n =>
      simp only [List.length_cons] at hl
      have hl' : t.length ≤ n := by omega
      simp [takeDigitsN, h.1, ih h.2 hl']

theorem takeDigitsN_spec (n : Nat) (s : Str) :
    s = (takeDigitsN n s).1 ++ (takeDigitsN n s).2 ∧ allDigits (takeDigitsN n s).1 ∧
      (takeDigitsN n s).1.length ≤ n := by
  induction s generalizing n with
  | nil => cases n <;> exact ⟨rfl, allDigits_nil, by simp [takeDigitsN]⟩
  | cons c t ih =>
    cases n with
    | zero => exact ⟨rfl, allDigits_nil, by simp [takeDigitsN]⟩
    | succ n =>
      simp only [takeDigitsN]
      split
      · next h =>
        refine ⟨by simp only [List.cons_append]; rw [← (ih n).1], ?_, ?_⟩
        · rw [allDigits_cons]; exact ⟨h, (ih n).2.1⟩
        · simp only [List.length_cons]; have := (ih n).2.2; omega
      · exact ⟨rfl, allDigits_nil, by simp⟩

/-! ### `strings.TrimSuffix` -/

theorem trimSuffix_append_same (a suf : Str) : trimSuffix (a ++ suf) suf = a := by
  unfold trimSuffix
  have : (a ++ suf).length - suf.length = a.length := by simp
  rw [this]; simp

theorem trimSuffix_append_ne {a b suf : Str} (hl : b.length = suf.length) (hne : b ≠ suf) :
    trimSuffix (a ++ b) suf = a ++ b := by
  unfold trimSuffix
  have : (a ++ b).length - suf.length = a.length := by simp [hl]
  rw [this]; simp [hne]

/-! ### trailing-zero trimming of `<pre>.<nine digits>` -/

/-- the fraction text that remains: nothing, or '.' and 3, 6 or 9 digits -/
def fracText (N : Nat) : Str :=
  if N = 0 then []
  else if N % 1000000 = 0 then '.' :: padDigits 3 (N / 1000000)
  else if N % 1000 = 0 then '.' :: padDigits 6 (N / 1000)
  else '.' :: padDigits 9 N

private theorem cons3_ne {d : Char} {D : Str} (h : D ≠ ['0', '0', '0']) : d :: D ≠ ['.', '0', '0', '0'] := by
  intro e; injection e with _ e2; exact h e2

theorem trimFrac_pad9 (pre : Str) (N : Nat) :
    trimFrac (pre ++ '.' :: padDigits 9 N) = pre ++ fracText (N % 1000000000) := by
  -- the nine digits as three groups of three
  have e9 : padDigits 9 N = padDigits 3 (N / 1000000) ++ (padDigits 3 (N / 1000) ++ padDigits 3 N) := by
    have h1 := padDigits_add 6 3 N
    have h2 := padDigits_add 3 3 (N / 10 ^ 3)
    rw [show (6 : Nat) + 3 = 9 from rfl] at h1
    rw [show (3 : Nat) + 3 = 6 from rfl] at h2
    rw [h1, h2, List.append_assoc, Nat.div_div_eq_div_mul]
  have l3 : ∀ m, (padDigits 3 m).length = 3 := fun m => length_padDigits 3 m
  -- last of a group of three, to peel one digit for the ".000" test
  have peel : ∀ m, ∃ d, padDigits 3 m = padDigits 2 (m / 10) ++ [d] := fun m => ⟨_, rfl⟩
  unfold trimFrac fracText
  by_cases h3 : N % 1000 = 0
  · have z3 : padDigits 3 N = ['0', '0', '0'] := padDigits_three_eq_zeros.mpr h3
    have s1 : trimSuffix (pre ++ '.' :: padDigits 9 N) ['0', '0', '0'] =
        pre ++ '.' :: (padDigits 3 (N / 1000000) ++ padDigits 3 (N / 1000)) := by
      rw [e9, z3]
      have := trimSuffix_append_same (pre ++ '.' :: (padDigits 3 (N / 1000000) ++ padDigits 3 (N / 1000))) ['0', '0', '0']
      simpa [List.append_assoc] using this
    rw [s1]
    by_cases h6 : N / 1000 % 1000 = 0
    · have z6 : padDigits 3 (N / 1000) = ['0', '0', '0'] := padDigits_three_eq_zeros.mpr h6
      have s2 : trimSuffix (pre ++ '.' :: (padDigits 3 (N / 1000000) ++ padDigits 3 (N / 1000))) ['0', '0', '0'] =
          pre ++ '.' :: padDigits 3 (N / 1000000) := by
        rw [z6]
        have := trimSuffix_append_same (pre ++ '.' :: padDigits 3 (N / 1000000)) ['0', '0', '0']
        simpa [List.append_assoc] using this
      rw [s2]
      by_cases h9 : N / 1000000 % 1000 = 0
      · have z9 : padDigits 3 (N / 1000000) = ['0', '0', '0'] := padDigits_three_eq_zeros.mpr h9
        rw [z9]
        have := trimSuffix_append_same pre ['.', '0', '0', '0']
        have hN : N % 1000000000 = 0 := by omega
        simp only [hN, if_true]
        simpa using this
      · have n9 : padDigits 3 (N / 1000000) ≠ ['0', '0', '0'] := fun e => h9 (padDigits_three_eq_zeros.mp e)
        have := trimSuffix_append_ne (a := pre) (b := '.' :: padDigits 3 (N / 1000000)) (suf := ['.', '0', '0', '0'])
          (by simp [l3]) (cons3_ne n9)
        rw [this]
        have hN0 : ¬ N % 1000000000 = 0 := by omega
        have hN6 : N % 1000000000 % 1000000 = 0 := by omega
        have hd : N % 1000000000 / 1000000 % 1000 = N / 1000000 % 1000 := by omega
        simp only [hN0, if_false, hN6, if_true]
        congr 2
        -- only the low three digits matter
        have := natOfDigits_padDigits 3 (N % 1000000000 / 1000000)
        have t1 : ∀ a b : Nat, a % 1000 = b % 1000 → padDigits 3 a = padDigits 3 b := by
          intro a b hab
          have e1 : a % 10 = b % 10 := by omega
          have e2 : a / 10 % 10 = b / 10 % 10 := by omega
          have e3 : a / 10 / 10 % 10 = b / 10 / 10 % 10 := by omega
          simp [padDigits, e1, e2, e3]
        exact (t1 _ _ hd).symm
    · have n6 : padDigits 3 (N / 1000) ≠ ['0', '0', '0'] := fun e => h6 (padDigits_three_eq_zeros.mp e)
      have s2 : trimSuffix (pre ++ '.' :: (padDigits 3 (N / 1000000) ++ padDigits 3 (N / 1000))) ['0', '0', '0'] =
          pre ++ '.' :: (padDigits 3 (N / 1000000) ++ padDigits 3 (N / 1000)) := by
        have := trimSuffix_append_ne (a := pre ++ '.' :: padDigits 3 (N / 1000000)) (b := padDigits 3 (N / 1000))
          (suf := ['0', '0', '0']) (by simp [l3]) n6
        simpa [List.append_assoc] using this
      rw [s2]
      obtain ⟨d, hd⟩ := peel (N / 1000000)
      have s3 : trimSuffix (pre ++ '.' :: (padDigits 3 (N / 1000000) ++ padDigits 3 (N / 1000))) ['.', '0', '0', '0'] =
          pre ++ '.' :: (padDigits 3 (N / 1000000) ++ padDigits 3 (N / 1000)) := by
        have := trimSuffix_append_ne (a := pre ++ '.' :: padDigits 2 (N / 1000000 / 10)) (b := d :: padDigits 3 (N / 1000))
          (suf := ['.', '0', '0', '0']) (by simp [l3]) (cons3_ne n6)
        rw [hd]
        simpa [List.append_assoc] using this
      rw [s3]
      have hN0 : ¬ N % 1000000000 = 0 := by omega
      have hN6 : ¬ N % 1000000000 % 1000000 = 0 := by omega
      have hN3 : N % 1000000000 % 1000 = 0 := by omega
      simp only [hN0, if_false, hN6, hN3, if_true]
      congr 2
      have h2 := padDigits_add 3 3 (N % 1000000000 / 1000)
      rw [show (3 : Nat) + 3 = 6 from rfl] at h2
      rw [h2]
      have t1 : ∀ a b : Nat, a % 1000 = b % 1000 → padDigits 3 a = padDigits 3 b := by
        intro a b hab
        have e1 : a % 10 = b % 10 := by omega
        have e2 : a / 10 % 10 = b / 10 % 10 := by omega
        have e3 : a / 10 / 10 % 10 = b / 10 / 10 % 10 := by omega
        simp [padDigits, e1, e2, e3]
      rw [t1 (N % 1000000000 / 1000 / 10 ^ 3) (N / 1000000) (by omega), t1 (N % 1000000000 / 1000) (N / 1000) (by omega)]
  · have n3 : padDigits 3 N ≠ ['0', '0', '0'] := fun e => h3 (padDigits_three_eq_zeros.mp e)
    have s1 : trimSuffix (pre ++ '.' :: padDigits 9 N) ['0', '0', '0'] = pre ++ '.' :: padDigits 9 N := by
      rw [e9]
      have := trimSuffix_append_ne (a := pre ++ '.' :: (padDigits 3 (N / 1000000) ++ padDigits 3 (N / 1000)))
        (b := padDigits 3 N) (suf := ['0', '0', '0']) (by simp [l3]) n3
      simpa [List.append_assoc] using this
    rw [s1, s1]
    obtain ⟨d, hd⟩ := peel (N / 1000)
    have s3 : trimSuffix (pre ++ '.' :: padDigits 9 N) ['.', '0', '0', '0'] = pre ++ '.' :: padDigits 9 N := by
      rw [e9]
      have := trimSuffix_append_ne (a := pre ++ '.' :: (padDigits 3 (N / 1000000) ++ padDigits 2 (N / 1000 / 10)))
        (b := d :: padDigits 3 N) (suf := ['.', '0', '0', '0']) (by simp [l3]) (cons3_ne n3)
      rw [hd]
      simpa [List.append_assoc] using this
    rw [s3]
    have hN0 : ¬ N % 1000000000 = 0 := by omega
    have hN6 : ¬ N % 1000000000 % 1000000 = 0 := by omega
    have hN3 : ¬ N % 1000000000 % 1000 = 0 := by omega
    simp only [hN0, if_false, hN6, hN3]
    congr 2
    -- padDigits 9 depends on N mod 10^9 only
    have t9 : ∀ w a b : Nat, a % 10 ^ w = b % 10 ^ w → padDigits w a = padDigits w b := by
      intro w
      induction w with
      | zero => intros; rfl
      | succ w ih =>
        intro a b hab
        simp only [padDigits]
        rw [Nat.pow_succ] at hab
        have hp : 0 < 10 ^ w := Nat.pow_pos (by omega)
        have e1 : a % 10 = b % 10 := by
          have := congrArg (· % 10) hab
          simp only [Nat.mod_mul_left_mod] at this
          exact this
        have e2 : a / 10 % 10 ^ w = b / 10 % 10 ^ w := by
          have ha := Nat.mod_mul (x := a) (a := 10) (b := 10 ^ w)
          have hb := Nat.mod_mul (x := b) (a := 10) (b := 10 ^ w)
          rw [Nat.mul_comm] at hab
          omega
        rw [ih _ _ e2, e1]
    exact t9 9 _ _ (by simp)

end WktJson
