import PbVerif.Lemmas.WktJsonDuration
import PbVerif.Lemmas.WktJsonCivil
/-! Helper lemmas for C23: `parseTime`/`unmarshalTimestamp` on the text produced by `fmtTimestamp`. -/
set_option linter.unusedSimpArgs false
namespace WktJson

/-! ### stages of `parseTime` on padded numbers -/

theorem padDigits_two (n : Nat) : padDigits 2 n = [digitChar (n / 10 % 10), digitChar (n % 10)] := by
  simp [padDigits]

theorem padDigits_four (n : Nat) :
    padDigits 4 n = [digitChar (n / 1000 % 10), digitChar (n / 100 % 10), digitChar (n / 10 % 10), digitChar (n % 10)] := by
  simp [padDigits, Nat.div_div_eq_div_mul]

theorem getnum_pad2 (fixed : Bool) (n : Nat) (hn : n < 100) (rest : Str) :
    getnum fixed (padDigits 2 n ++ rest) = some (n, rest) := by
  rw [padDigits_two]
  have h1 : n / 10 % 10 < 10 := Nat.mod_lt _ (by omega)
  have h2 : n % 10 < 10 := Nat.mod_lt _ (by omega)
  simp only [List.cons_append, List.nil_append, getnum, isDigit_digitChar h1, isDigit_digitChar h2,
    digitVal_digitChar h1, digitVal_digitChar h2, not_true_eq_false, if_false]
  congr 2
  omega

theorem getYear_pad4 (n : Nat) (hn : n < 10000) (rest : Str) :
    getYear (padDigits 4 n ++ rest) = some (n, rest) := by
  have hv := natOfDigits_padDigits_of_lt (w := 4) (n := n) (by simpa using hn)
  rw [padDigits_four] at hv ⊢
  have h1 : n / 1000 % 10 < 10 := Nat.mod_lt _ (by omega)
  have h2 : n / 100 % 10 < 10 := Nat.mod_lt _ (by omega)
  have h3 : n / 10 % 10 < 10 := Nat.mod_lt _ (by omega)
  have h4 : n % 10 < 10 := Nat.mod_lt _ (by omega)
  simp only [List.cons_append, List.nil_append, getYear, isDigit_digitChar h1, isDigit_digitChar h2,
    isDigit_digitChar h3, isDigit_digitChar h4, and_self, if_true, hv]

theorem skipChar_cons (p : Char) (t : Str) : skipChar p (p :: t) = some t := by
  simp [skipChar]

theorem isDigit_Z : isDigit 'Z' = false := by decide

theorem nanosOfFrac_pad (w M : Nat) (hw : w ≤ 9) :
    nanosOfFrac (padDigits w M) = M % 10 ^ w * 10 ^ (9 - w) := by
  unfold nanosOfFrac
  have : (padDigits w M).take 9 = padDigits w M := by
    apply List.take_of_length_le; rw [length_padDigits]; exact hw
  rw [this, natOfDigits_padDigits, length_padDigits]

theorem getFrac_dot_digits (ds : Str) (h : allDigits ds) (hne : ds ≠ []) :
    getFrac ('.' :: (ds ++ ['Z'])) = (nanosOfFrac ds, ['Z']) := by
  cases ds with
  | nil => exact absurd rfl hne
  | cons d t =>
    have hd := (allDigits_cons.mp h).1
    have ht : takeDigits (d :: (t ++ ['Z'])) = (d :: t, ['Z']) := by
      have := takeDigits_append (ds := d :: t) (rest := ['Z']) h
        (by intro c t' e; injection e with e1 _; subst e1; exact isDigit_Z)
      simpa using this
    simp only [List.cons_append, getFrac, hd, true_or, and_self, if_true, ht]

/-- `getFrac` on what `trimFrac` leaves of the fraction -/
theorem getFrac_fracText (N : Nat) (hN : N < 1000000000) :
    getFrac (fracText N ++ ['Z']) = (N, ['Z']) := by
  unfold fracText
  have ne : ∀ w M, 0 < w → padDigits w M ≠ [] := by
    intro w M hw e
    have := congrArg List.length e
    rw [length_padDigits] at this
    simp at this; omega
  split
  · next h0 => subst h0; rfl
  · split
    · next h0 h6 =>
      rw [List.cons_append, getFrac_dot_digits _ (allDigits_padDigits _ _) (ne _ _ (by omega)),
        nanosOfFrac_pad _ _ (by omega)]
      congr 1
      simp only [show (9 : Nat) - 3 = 6 from rfl, show (10 : Nat) ^ 3 = 1000 from rfl, show (10 : Nat) ^ 6 = 1000000 from rfl]
      omega
    · split
      · next h0 h6 h3 =>
        rw [List.cons_append, getFrac_dot_digits _ (allDigits_padDigits _ _) (ne _ _ (by omega)),
          nanosOfFrac_pad _ _ (by omega)]
        congr 1
        simp only [show (9 : Nat) - 6 = 3 from rfl, show (10 : Nat) ^ 3 = 1000 from rfl, show (10 : Nat) ^ 6 = 1000000 from rfl]
        omega
      · rw [List.cons_append, getFrac_dot_digits _ (allDigits_padDigits _ _) (ne _ _ (by omega)),
          nanosOfFrac_pad _ _ (by omega)]
        congr 1
        simp only [show (9 : Nat) - 9 = 0 from rfl, show (10 : Nat) ^ 9 = 1000000000 from rfl, Nat.pow_zero]
        omega

/-- the date-time part of the formatted text -/
def dateTimeText (Y M D h mi s : Nat) : Str :=
  padDigits 4 Y ++ '-' :: (padDigits 2 M ++ '-' :: (padDigits 2 D ++ 'T' :: (padDigits 2 h ++ ':' ::
    (padDigits 2 mi ++ ':' :: padDigits 2 s))))

theorem parseTime_text (Y M D h mi s : Nat) (hY : Y < 10000) (hM : 1 ≤ M ∧ M ≤ 12)
    (hD : 1 ≤ D ∧ (D : Int) ≤ daysIn Y M) (hh : h < 24) (hmi : mi < 60) (hs : s < 60)
    (fr : Str) (N : Nat) (hfr : getFrac (fr ++ ['Z']) = (N, ['Z'])) :
    parseTime (dateTimeText Y M D h mi s ++ (fr ++ ['Z'])) =
      some (daysFromCivil Y M D * 86400 + ((h * 3600 + mi * 60 + s : Nat) : Int), N) := by
  have hD100 : D < 100 := by
    have : daysIn (Y : Int) (M : Int) ≤ 31 := by
      unfold daysIn
      split
      · split <;> omega
      · split <;> omega
    omega
  unfold parseTime dateTimeText
  simp only [List.append_assoc, List.cons_append]
  rw [getYear_pad4 Y hY]
  simp only [Option.bind_some, skipChar_cons]
  rw [getnum_pad2 true M (by omega)]
  simp only [Option.bind_some]
  rw [if_neg (by omega)]
  simp only [skipChar_cons, Option.bind_some]
  rw [getnum_pad2 true D hD100]
  simp only [Option.bind_some, skipChar_cons]
  rw [getnum_pad2 false h (by omega)]
  simp only [Option.bind_some]
  rw [if_neg (by omega)]
  simp only [skipChar_cons, Option.bind_some]
  rw [getnum_pad2 true mi (by omega)]
  simp only [Option.bind_some]
  rw [if_neg (by omega)]
  simp only [skipChar_cons, Option.bind_some]
  rw [getnum_pad2 true s (by omega)]
  simp only [Option.bind_some]
  rw [if_neg (by omega), hfr]
  simp only [getZone, if_true, Option.bind_some, ne_eq, not_true_eq_false, if_false]
  rw [if_neg (by omega)]
  simp

/-! ### `lastIndex` -/

theorem lastIndexAux_append (p : Char → Bool) (a b : Str) (i : Nat) (acc : Option Nat) :
    lastIndexAux p (a ++ b) i acc = lastIndexAux p b (i + a.length) (lastIndexAux p a i acc) := by
  induction a generalizing i acc with
  | nil => rfl
  | cons c t ih =>
    simp only [List.cons_append, lastIndexAux, List.length_cons]
    rw [ih]
    congr 1
    omega

theorem lastIndexAux_none (p : Char → Bool) (a : Str) (i : Nat) (acc : Option Nat)
    (h : ∀ c ∈ a, p c = false) : lastIndexAux p a i acc = acc := by
  induction a generalizing i acc with
  | nil => rfl
  | cons c t ih =>
    simp only [lastIndexAux]
    rw [ih _ _ (fun c hc => h c (List.mem_cons_of_mem _ hc)), h c List.mem_cons_self]
    simp

/-- last occurrence when the tail after it has none -/
theorem lastIndex_mid (p : Char → Bool) (a : Str) (c : Char) (b : Str) (hc : p c = true)
    (hb : ∀ x ∈ b, p x = false) : lastIndex p (a ++ c :: b) = some a.length := by
  unfold lastIndex
  rw [lastIndexAux_append]
  simp only [lastIndexAux, hc, if_true, Nat.zero_add]
  exact lastIndexAux_none _ _ _ _ hb

theorem lastIndex_none (p : Char → Bool) (a : Str) (h : ∀ c ∈ a, p c = false) : lastIndex p a = none :=
  lastIndexAux_none p a 0 none h

theorem digit_ne_dot {c : Char} (h : isDigit c = true) : c ≠ '.' := by
  intro e; subst e; simp [isDigit_dot] at h

theorem dateTimeText_no_dot (Y M D h mi s : Nat) : ∀ c ∈ dateTimeText Y M D h mi s, c ≠ '.' := by
  intro c hc
  simp only [dateTimeText, List.mem_append, List.mem_cons] at hc
  have hd : ∀ w n, c ∈ padDigits w n → c ≠ '.' := fun w n hm => digit_ne_dot (allDigits_padDigits w n c hm)
  rcases hc with hc | hc | hc | hc | hc | hc | hc | hc | hc | hc | hc
  · exact hd _ _ hc
  · subst hc; decide
  · exact hd _ _ hc
  · subst hc; decide
  · exact hd _ _ hc
  · subst hc; decide
  · exact hd _ _ hc
  · subst hc; decide
  · exact hd _ _ hc
  · subst hc; decide
  · exact hd _ _ hc

theorem digit_ne_comma {c : Char} (h : isDigit c = true) : c ≠ ',' := by
  intro e; subst e; revert h; decide

theorem dateTimeText_no_comma (Y M D h mi s : Nat) : ∀ c ∈ dateTimeText Y M D h mi s, c ≠ ',' := by
  intro c hc
  simp only [dateTimeText, List.mem_append, List.mem_cons] at hc
  have hd : ∀ w n, c ∈ padDigits w n → c ≠ ',' := fun w n hm => digit_ne_comma (allDigits_padDigits w n c hm)
  rcases hc with hc | hc | hc | hc | hc | hc | hc | hc | hc | hc | hc
  · exact hd _ _ hc
  · subst hc; decide
  · exact hd _ _ hc
  · subst hc; decide
  · exact hd _ _ hc
  · subst hc; decide
  · exact hd _ _ hc
  · subst hc; decide
  · exact hd _ _ hc
  · subst hc; decide
  · exact hd _ _ hc

theorem tooManyFracDigits_text (pre ds : Str) (hds : allDigits ds) (hl : ds.length ≤ 9) :
    tooManyFracDigits (pre ++ ('.' :: ds ++ ['Z'])) = false := by
  unfold tooManyFracDigits
  have hi : lastIndex (fun c => decide (c = '.')) (pre ++ ('.' :: ds ++ ['Z'])) = some pre.length := by
    have := lastIndex_mid (fun c => decide (c = '.')) pre '.' (ds ++ ['Z']) (by simp) (by
      intro x hx
      simp only [List.mem_append, List.mem_singleton] at hx
      rcases hx with hx | hx
      · simpa using digit_ne_dot (hds x hx)
      · subst hx; decide)
    simpa using this
  have hj : lastIndex (fun c => decide (c = 'Z' ∨ c = '-' ∨ c = '+')) (pre ++ ('.' :: ds ++ ['Z'])) =
      some (pre.length + (ds.length + 1)) := by
    have := lastIndex_mid (fun c => decide (c = 'Z' ∨ c = '-' ∨ c = '+')) (pre ++ '.' :: ds) 'Z' [] (by simp) (by
      intro x hx; cases hx)
    simpa [List.append_assoc, Nat.add_assoc] using this
  rw [hi, hj]
  simp
  omega

theorem tooManyFracDigits_nodot (s : Str) (h : ∀ c ∈ s, c ≠ '.') : tooManyFracDigits s = false := by
  unfold tooManyFracDigits
  rw [lastIndex_none (fun c => decide (c = '.')) s (by intro c hc; simpa using h c hc)]

theorem fracText_shape (N : Nat) :
    fracText N = [] ∨ ∃ ds, fracText N = '.' :: ds ∧ allDigits ds ∧ (ds.length = 3 ∨ ds.length = 6 ∨ ds.length = 9) := by
  unfold fracText
  split
  · left; rfl
  · right
    split
    · exact ⟨_, rfl, allDigits_padDigits _ _, by simp [length_padDigits]⟩
    · split
      · exact ⟨_, rfl, allDigits_padDigits _ _, by simp [length_padDigits]⟩
      · exact ⟨_, rfl, allDigits_padDigits _ _, by simp [length_padDigits]⟩

/-- the formatted text contains no ',' -/
theorem fmtText_no_comma (Y M D h mi s N : Nat) :
    ¬ ',' ∈ dateTimeText Y M D h mi s ++ (fracText N ++ ['Z']) := by
  intro hc
  simp only [List.mem_append, List.mem_singleton] at hc
  rcases hc with hc | hc | hc
  · exact dateTimeText_no_comma _ _ _ _ _ _ _ hc rfl
  · rcases fracText_shape N with h0 | ⟨ds, hds, hall, _⟩
    · rw [h0] at hc; cases hc
    · rw [hds] at hc
      rcases List.mem_cons.mp hc with e | e
      · revert e; decide
      · exact digit_ne_comma (hall _ e) rfl
  · revert hc; decide

/-! ### the year stays within 1..9999 on the Timestamp range -/

theorem civil_year_range (z : Int) (h0 : -719162 ≤ z) (h1 : z ≤ 2932896) :
    1 ≤ (civilFromDays z).1 ∧ (civilFromDays z).1 ≤ 9999 := by
  obtain ⟨era, b, q, k, doy, mp, hb, hq, hk, hd, hl, hz, hmp, hc⟩ := civil_core z
  rw [hc]
  have hcases := mp_cases hd
  simp only at hcases
  rw [← hmp] at hcases
  have hera : 0 ≤ era ∧ era ≤ 24 := by omega
  rcases hcases with h | h | h | h | h | h | h | h | h | h | h | h <;> subst h <;> simp <;> omega

end WktJson
