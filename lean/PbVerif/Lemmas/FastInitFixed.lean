import PbVerif.Lemmas.FastInit
/-
(a) the walk of the current code (/repo 78c9443 = fixes/needsinitcheck-cycle.diff) is exact on ALL schemas and after ANY
sequence of queries: every entry of the global map equals `Reaches`.  Core-only.
-/
namespace FastInit
open Pb

@[simp] theorem BCache.set_same (g : BCache) (i : Nat) (b : Bool) : g.set i b i = some b := by simp [BCache.set]
theorem BCache.set_other (g : BCache) {i j : Nat} (b : Bool) (h : j ≠ i) : g.set i b j = g j := by simp [BCache.set, h]

/-- invariant of the global map: every entry is exact -/
def Exact (S : Schema) (xr : Nat → Bool) (g : BCache) : Prop := ∀ j b, g j = some b → (b = true ↔ Reaches S xr j)

theorem Exact.set {S : Schema} {xr : Nat → Bool} {g : BCache} (h : Exact S xr g) (i : Nat) (b : Bool)
    (hb : b = true ↔ Reaches S xr i) : Exact S xr (g.set i b) := by
  intro j b' hj
  by_cases hji : j = i
  · subst hji; rw [BCache.set_same] at hj; cases hj; exact hb
  · rw [BCache.set_other _ _ hji] at hj; exact h j b' hj

theorem Exact.setAll {S : Schema} {xr : Nat → Bool} (b : Bool) : ∀ (l : List Nat) {g : BCache}, Exact S xr g →
    (∀ i ∈ l, (b = true ↔ Reaches S xr i)) → Exact S xr (g.setAll l b)
  | [], _, h, _ => h
  | i :: l, g, h, hl => by
    unfold BCache.setAll
    rw [List.foldl_cons]
    exact Exact.setAll b l (h.set i b (hl i (by simp))) (fun j hj => hl j (by simp [hj]))

theorem BCache.setAll_get (b : Bool) : ∀ (l : List Nat) (g : BCache) (j : Nat),
    (g.setAll l b) j = if j ∈ l then some b else g j
  | [], g, j => by simp [BCache.setAll]
  | i :: l, g, j => by
    unfold BCache.setAll
    rw [List.foldl_cons]
    have := BCache.setAll_get b l (g.set i b) j
    unfold BCache.setAll at this
    rw [this]
    by_cases hjl : j ∈ l
    · simp [hjl]
    · by_cases hji : j = i
      · subst hji; simp [hjl]
      · simp [hjl, hji, BCache.set_other]

/-- message `j` was explored completely without finding anything: it has no reason of its own and each
successor is visited or known not to reach anything -/
def Closed (S : Schema) (xr : Nat → Bool) (g : BCache) (V : List Nat) (j : Nat) : Prop :=
  own S xr j = false ∧ ∀ s ∈ succs S j, s ∈ V ∨ g s = some false

theorem Closed.mono {S : Schema} {xr : Nat → Bool} {g : BCache} {V V' : List Nat} {j : Nat}
    (h : Closed S xr g V j) (hV : ∀ x ∈ V, x ∈ V') : Closed S xr g V' j :=
  ⟨h.1, fun s hs => (h.2 s hs).imp (hV s) id⟩

/-- a set of visited messages that is closed reaches nothing -/
theorem not_reaches_of_closed {S : Schema} {xr : Nat → Bool} {g : BCache} {V : List Nat} (hg : Exact S xr g)
    (hV : ∀ j ∈ V, Closed S xr g V j) {i : Nat} (hr : Reaches S xr i) : i ∉ V := by
  induction hr with
  | here ho => intro hi; have := (hV _ hi).1; simp_all
  | step hj _ ih =>
    intro hi
    rcases (hV _ hi).2 _ hj with hs | hs
    · exact ih hs
    · have := (hg _ _ hs).2 ‹_›; cases this

/-- what one call of the walk guarantees -/
def WalkPost (S : Schema) (xr : Nat → Bool) (g : BCache) (vis : List Nat) (R : Prop) (inV : List Nat → Prop)
    (r : Bool) (g' : BCache) (vis' : List Nat) : Prop :=
  Exact S xr g' ∧ (∀ x ∈ vis, x ∈ vis') ∧ (r = true → R) ∧
  (r = false → g' = g ∧ inV vis' ∧ ∀ j ∈ vis', j ∉ vis → Closed S xr g vis' j)

theorem orRun_walk {S : Schema} {xr : Nat → Bool}
    {f : BCache × List Nat → Nat → Option (Bool × (BCache × List Nat))}
    (hf : ∀ g vis t r g' vis', Exact S xr g → f (g, vis) t = some (r, (g', vis')) →
      WalkPost S xr g vis (Reaches S xr t) (fun V => t ∈ V ∨ g t = some false) r g' vis')
    {st : BCache × List Nat} {ts : List Nat} {r : Bool} {st' : BCache × List Nat} (h : OrRun f st ts r st') :
    Exact S xr st.1 →
    WalkPost S xr st.1 st.2 (∃ t ∈ ts, Reaches S xr t) (fun V => ∀ t ∈ ts, t ∈ V ∨ st.1 t = some false) r st'.1 st'.2 := by
  induction h with
  | nil s => intro hg; exact ⟨hg, fun _ hx => hx, by simp, fun _ => ⟨rfl, by simp, fun j hj hn => absurd hj hn⟩⟩
  | @hit s t ts s' h1 =>
    intro hg
    obtain ⟨a, b, c, _⟩ := hf s.1 s.2 t true s'.1 s'.2 hg h1
    exact ⟨a, b, fun _ => ⟨t, by simp, c rfl⟩, by simp⟩
  | @miss s t ts s1 r s' h1 _ ih =>
    intro hg
    obtain ⟨a, b, _, d⟩ := hf s.1 s.2 t false s1.1 s1.2 hg h1
    obtain ⟨e1, e2, e3⟩ := d rfl
    obtain ⟨a', b', c', d'⟩ := ih a
    refine ⟨a', fun x hx => b' x (b x hx), fun hr => ?_, fun hr => ?_⟩
    · obtain ⟨t', ht', hrt⟩ := c' hr
      exact ⟨t', by simp [ht'], hrt⟩
    · obtain ⟨f1, f2, f3⟩ := d' hr
      rw [e1] at f1 f2 f3
      refine ⟨f1, fun t' ht' => ?_, fun j hj hn => ?_⟩
      · rcases List.mem_cons.1 ht' with rfl | ht'
        · exact e2.imp (b' _) id
        · exact f2 t' ht'
      · by_cases hj1 : j ∈ s1.2
        · exact (e3 j hj1 hn).mono b'
        · exact f3 j hj hj1

theorem walk_post (S : Schema) (xr : Nat → Bool) : ∀ (fuel : Nat) (g : BCache) (vis : List Nat) (i : Nat) (r : Bool)
    (g' : BCache) (vis' : List Nat), Exact S xr g → walk S xr fuel (g, vis) i = some (r, (g', vis')) →
    WalkPost S xr g vis (Reaches S xr i) (fun V => i ∈ V ∨ g i = some false) r g' vis'
  | 0, _, _, _, _, _, _, _, h => by simp [walk] at h
  | fuel + 1, g, vis, i, r, g', vis', hg, h => by
    rw [walk] at h
    split at h
    · rename_i b hb
      simp only [Option.some.injEq, Prod.mk.injEq] at h
      obtain ⟨rfl, rfl, rfl⟩ := h
      exact ⟨hg, fun _ hx => hx, fun hr => (hg i _ hb).1 hr,
        fun hr => ⟨rfl, Or.inr (by rw [hb, hr]), fun j hj hn => absurd hj hn⟩⟩
    · split at h
      · rename_i hvis
        simp only [Option.some.injEq, Prod.mk.injEq] at h
        obtain ⟨rfl, rfl, rfl⟩ := h
        exact ⟨hg, fun _ hx => hx, by simp, fun _ => ⟨rfl, Or.inl (by simpa using hvis), fun j hj hn => absurd hj hn⟩⟩
      · rename_i hvis
        have hvis' : i ∉ vis := by simpa using hvis
        split at h
        · rename_i ho
          simp only [Option.some.injEq, Prod.mk.injEq] at h
          obtain ⟨rfl, rfl, rfl⟩ := h
          have hr : Reaches S xr i := .here ho
          exact ⟨hg.set i true (by simp [hr]), fun x hx => by simp [hx], fun _ => hr, by simp⟩
        · rename_i ho
          split at h
          · cases h
          · rename_i g2 vis2 hor
            simp only [Option.some.injEq, Prod.mk.injEq] at h
            obtain ⟨rfl, rfl, rfl⟩ := h
            obtain ⟨a, b, c, _⟩ := orRun_walk (walk_post S xr fuel) (orList_run hor) hg
            have hr : Reaches S xr i := by
              obtain ⟨t, ht, hrt⟩ := c rfl
              exact .step ht hrt
            exact ⟨a.set i true (by simp [hr]), fun x hx => b x (by simp [hx]), fun _ => hr, by simp⟩
          · rename_i st hor
            simp only [Option.some.injEq, Prod.mk.injEq] at h
            obtain ⟨rfl, rfl⟩ := h
            obtain ⟨a, b, _, d⟩ := orRun_walk (walk_post S xr fuel) (orList_run hor) hg
            obtain ⟨d1, d2, d3⟩ := d rfl
            dsimp only at a b d1 d2 d3
            refine ⟨a, fun x hx => b x (by simp [hx]), by simp, fun _ => ⟨d1, Or.inl (b i (by simp)), fun j hj hn => ?_⟩⟩
            by_cases hji : j = i
            · subst hji
              exact ⟨by simpa using ho, d2⟩
            · exact d3 j hj (by simp [hji, hn])

/-- one query keeps the map exact and answers exactly -/
theorem queryFixed_exact (S : Schema) (xr : Nat → Bool) (g : BCache) (i : Nat) (r : Bool) (g' : BCache)
    (hg : Exact S xr g) (h : queryFixed S xr g i = some (r, g')) :
    Exact S xr g' ∧ (r = true ↔ Reaches S xr i) := by
  unfold queryFixed at h
  split at h
  · rename_i b hb
    simp only [Option.some.injEq, Prod.mk.injEq] at h
    obtain ⟨rfl, rfl⟩ := h
    exact ⟨hg, hg i _ hb⟩
  · rename_i hnone
    split at h
    · cases h
    · rename_i g2 vis2 hw
      simp only [Option.some.injEq, Prod.mk.injEq] at h
      obtain ⟨rfl, rfl⟩ := h
      obtain ⟨a, _, c, _⟩ := walk_post S xr _ g [] i true g2 vis2 hg hw
      exact ⟨a, by simp [c rfl]⟩
    · rename_i g2 vis2 hw
      simp only [Option.some.injEq, Prod.mk.injEq] at h
      obtain ⟨rfl, rfl⟩ := h
      obtain ⟨_, _, _, d⟩ := walk_post S xr _ g [] i false g2 vis2 hg hw
      obtain ⟨rfl, d2, d3⟩ := d rfl
      have hcl : ∀ j ∈ vis2, Closed S xr g2 vis2 j := fun j hj => d3 j hj (by simp)
      have hnr : ∀ j ∈ vis2, ¬ Reaches S xr j := fun j hj hr => not_reaches_of_closed hg hcl hr hj
      refine ⟨Exact.setAll false vis2 hg (fun j hj => by simp [hnr j hj]), ?_⟩
      rcases d2 with hi | hi
      · simp [hnr i hi]
      · rw [hnone] at hi; cases hi

theorem walk_true_stores (S : Schema) (xr : Nat → Bool) (fuel : Nat) (g : BCache) (vis : List Nat) (i : Nat)
    (g' : BCache) (vis' : List Nat) (hn : g i = none) (h : walk S xr fuel (g, vis) i = some (true, (g', vis'))) :
    g' i = some true := by
  cases fuel with
  | zero => simp [walk] at h
  | succ fuel =>
    rw [walk] at h
    split at h
    · rename_i b hb; rw [hn] at hb; cases hb
    · split at h
      · cases h
      · split at h
        · simp only [Option.some.injEq, Prod.mk.injEq, true_and] at h
          obtain ⟨rfl, rfl⟩ := h; simp
        · split at h
          · cases h
          · simp only [Option.some.injEq, Prod.mk.injEq, true_and] at h
            obtain ⟨rfl, rfl⟩ := h; simp
          · simp only [Option.some.injEq, Prod.mk.injEq, Bool.false_eq_true, false_and] at h

/-- the queried message is in the map afterwards, with the answer -/
theorem queryFixed_stores (S : Schema) (xr : Nat → Bool) (g : BCache) (i : Nat) (r : Bool) (g' : BCache)
    (hg : Exact S xr g) (h : queryFixed S xr g i = some (r, g')) : g' i = some r := by
  unfold queryFixed at h
  split at h
  · rename_i b hb
    simp only [Option.some.injEq, Prod.mk.injEq] at h
    obtain ⟨rfl, rfl⟩ := h
    exact hb
  · rename_i hnone
    split at h
    · cases h
    · rename_i g2 vis2 hw
      simp only [Option.some.injEq, Prod.mk.injEq] at h
      obtain ⟨rfl, rfl⟩ := h
      exact walk_true_stores S xr _ g [] i _ vis2 hnone hw
    · rename_i g2 vis2 hw
      simp only [Option.some.injEq, Prod.mk.injEq] at h
      obtain ⟨rfl, rfl⟩ := h
      obtain ⟨_, _, _, d⟩ := walk_post S xr _ g [] i false g2 vis2 hg hw
      obtain ⟨rfl, d2, _⟩ := d rfl
      rw [BCache.setAll_get]
      rcases d2 with hi | hi
      · simp [hi]
      · rw [hnone] at hi; cases hi

/-! ### the walk never runs out of fuel -/

def unseenV (S : Schema) (vis : List Nat) : Nat :=
  ((List.range S.msgs.length).filter fun j => !vis.contains j).length

theorem unseenV_mono {S : Schema} {vis vis' : List Nat} (h : ∀ x ∈ vis, x ∈ vis') : unseenV S vis' ≤ unseenV S vis := by
  apply filter_length_le
  intro j hj
  simp only [Bool.not_eq_true', List.contains_eq_mem, decide_eq_false_iff_not] at hj ⊢
  exact fun hm => hj (h j hm)

theorem walk_total (S : Schema) (xr : Nat → Bool) : ∀ (fuel : Nat) (g : BCache) (vis : List Nat) (i : Nat),
    unseenV S vis < fuel → ∃ r g' vis', walk S xr fuel (g, vis) i = some (r, (g', vis')) ∧ ∀ x ∈ vis, x ∈ vis'
  | 0, _, _, _, h => by omega
  | fuel + 1, g, vis, i, h => by
    rw [walk]
    split
    · exact ⟨_, _, _, rfl, fun _ hx => hx⟩
    · split
      · exact ⟨_, _, _, rfl, fun _ hx => hx⟩
      · rename_i hvis
        have hvis' : i ∉ vis := by simpa using hvis
        split
        · exact ⟨_, _, _, rfl, fun x hx => by simp [hx]⟩
        · by_cases hi : i < S.msgs.length
          · have hlt : unseenV S (i :: vis) < unseenV S vis := by
              apply filter_length_lt (i := i)
              · intro j hj
                simp only [Bool.not_eq_true', List.contains_eq_mem, decide_eq_false_iff_not, List.mem_cons, not_or] at hj ⊢
                exact hj.2
              · simp [hi]
              · simpa using hvis'
              · simp
            obtain ⟨r, st2, h2, g2⟩ := orList_some (f := walk S xr fuel) (fun s => ∀ x ∈ i :: vis, x ∈ s.2)
              (fun s t hs => by
                obtain ⟨r, g', vis', h1, hsub⟩ := walk_total S xr fuel s.1 s.2 t
                  (by have := unseenV_mono (S := S) hs; omega)
                exact ⟨r, (g', vis'), h1, fun x hx => hsub x (hs x hx)⟩)
              (succs S i) (g, i :: vis) (fun _ hx => hx)
            rw [h2]
            cases r with
            | true => exact ⟨_, _, _, rfl, fun x hx => g2 x (by simp [hx])⟩
            | false => exact ⟨_, _, _, rfl, fun x hx => g2 x (by simp [hx])⟩
          · rw [succs_out_of_range (by omega)]
            exact ⟨_, _, _, rfl, fun x hx => by simp [hx]⟩

theorem queryFixed_total (S : Schema) (xr : Nat → Bool) (g : BCache) (i : Nat) :
    ∃ r g', queryFixed S xr g i = some (r, g') := by
  unfold queryFixed
  split
  · exact ⟨_, _, rfl⟩
  · have : unseenV S [] < S.msgs.length + 1 := by
      have : unseenV S [] ≤ (List.range S.msgs.length).length := List.length_filter_le _ _
      simp at this; omega
    obtain ⟨r, g', vis', h, _⟩ := walk_total S xr _ g [] i this
    rw [h]
    cases r with
    | true => exact ⟨_, _, rfl⟩
    | false => exact ⟨_, _, rfl⟩

end FastInit
