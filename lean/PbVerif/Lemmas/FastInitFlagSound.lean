import PbVerif.Lemmas.FastInitFlag
/-
(c) soundness of the `initialized` flag: the induction over the decoder.  Core-only.
-/
namespace FastInit
open Pb
open Spec (Byte decTag decBytes)

section
variable (S : Schema) (xr : Nat → Bool) (nd : Nat → Bool) (rule : MapRule)
  (hS : schemaOK S = true) (hM : MapOK S xr) (hX : ExtOK S xr) (hR : ReqOK S)
  (hnd : ∀ i, nd i = false → ¬ Reaches S xr i)
  (hrule : rule = .andOcc ∨ NoMsgMap S)

/-- state of the entry loop of a message-valued map: the value read so far is a well-formed message;
if every occurrence so far was flagged, everything nested in it is initialized, and if there was an
occurrence, the value itself is -/
def ValJ (vf : Field) (v : Option Val) (seenV allI : Bool) : Prop :=
  (∃ x, v = some (.msg x)) ∧
  ∀ x, v = some (.msg x) → dwfMsg S vf.sub x = true ∧
    (allI = true → initFields S (S.msg vf.sub) x.fields = true) ∧
    (seenV = true → allI = true → initMsg S vf.sub x = true)

theorem fields_unknown (dis : Bool) (m : Msg) (x : List Byte) :
    (if dis = true then m else Msg.mk m.fields x).fields = m.fields := by
  cases dis <;> cases m <;> rfl

def FlagA (fuel : Nat) : Prop :=
  ∀ mi m init seen b depth dis m', dwfMsg S mi m = true →
    (init = true → initFields S (S.msg mi) m.fields = true) → SeenOK (S.msg mi) m.fields seen →
    decMsg fuel S mi m b depth dis = .ok m' → flagLoop S nd rule fuel mi init seen b = true →
    initMsg S mi m' = true

def FlagB (fuel : Nat) : Prop :=
  ∀ mi m f wt val depth dis, dwfMsg S mi m = true → (S.msg mi).find f.num = some f →
    (decField fuel S mi m f wt val depth dis = .unknown → flagField S nd rule fuel f wt val = none) ∧
    (∀ m', decField fuel S mi m f wt val depth dis = .ok m' →
      Persist (S.msg mi) m.fields m'.fields ∧ (f.card = .required → (m'.fields.get? f.num).isSome = true) ∧
      ∃ c, flagField S nd rule fuel f wt val = some c ∧
        (initFields S (S.msg mi) m.fields = true → (considered S nd f = false ∨ c = true) →
          initFields S (S.msg mi) m'.fields = true))

def FlagC (fuel : Nat) : Prop :=
  ∀ kf vf k v b depth dis k' v' anyI seenV allI, vf.kind.isMessage = true → rule = .andOcc →
    ValJ S vf v seenV allI → decEntry fuel S kf vf k v b depth dis = .ok (k', v') →
    flagEntry S nd rule fuel kf vf b anyI seenV allI = true →
    ∃ x, v' = some (.msg x) ∧ initMsg S vf.sub x = true

include hS in
theorem flagA_step (fuel : Nat) (ihA : FlagA S nd rule fuel) (ihB : FlagB S nd rule fuel) :
    FlagA S nd rule (fuel + 1) := by
  intro mi m init seen b depth dis m' hm hinit hseen h hfl
  unfold decMsg at h
  unfold flagLoop at hfl
  split at h
  · simp only [Except.ok.injEq] at h; subst h
    simp only [Bool.and_eq_true] at hfl
    cases m with
    | mk fs u =>
      rw [initMsg, Bool.and_eq_true]
      exact ⟨reqDone_present hfl.2 hseen, hinit hfl.1⟩
  · rename_i hb
    split at hfl
    · exact absurd rfl hb
    · split at h
      · simp at h
      · rename_i num wt tl ht
        simp only [ht] at hfl
        simp only at h
        by_cases hmax : num > maxValidNumber
        · simp [hmax] at h
        · simp only [hmax, if_false] at h
          have hnum1 : 1 ≤ num := decTag_num_pos ht
          cases hfind : (S.msg mi).find num with
          | none =>
            simp only [hfind] at h
            split at h
            · simp at h
            · rename_i n hcf
              simp only [hcf, hfind] at hfl
              refine ihA _ _ _ _ _ _ _ _ ?_ ?_ ?_ h hfl
              · cases m with
                | mk fs u =>
                  cases dis
                  · exact dwfMsg_unknown _ hm
                  · exact hm
              · rw [fields_unknown]; exact hinit
              · rw [fields_unknown]; exact hseen
          | some f =>
            simp only [hfind] at h
            have hfn := MsgD.find_num_eq hfind
            subst hfn
            obtain ⟨hBu, hBo⟩ := ihB mi m f wt (b.drop tl) depth dis hm hfind
            cases hstep : decField fuel S mi m f wt (b.drop tl) depth dis with
            | err e => simp [hstep] at h
            | ok m1 =>
              simp only [hstep] at h
              split at h
              · simp at h
              · rename_i n hcf
                obtain ⟨hp, hreq, c, hc, hini⟩ := hBo m1 hstep
                simp only [hcf, hfind, hc] at hfl
                have hm1 := (dec_inv S hS fuel).2.1 _ _ _ _ _ _ _ _ hm hfind hnum1 (by omega) hstep
                refine ihA _ _ _ _ _ _ _ _ hm1 ?_ ?_ h hfl
                · intro hi
                  simp only [Bool.and_eq_true, Bool.or_eq_true, Bool.not_eq_true'] at hi
                  exact hini (hinit hi.1) hi.2
                · intro k hk
                  split at hk
                  · rename_i hcr
                    rcases List.mem_cons.1 hk with rfl | hk
                    · exact ⟨hreq hcr, f, hfind, hcr⟩
                    · exact (hseen.persist hp) k hk
                  · exact (hseen.persist hp) k hk
            | unknown =>
              simp only [hstep] at h
              split at h
              · simp at h
              · rename_i n hcf
                simp only [hcf, hfind, hBu hstep] at hfl
                refine ihA _ _ _ _ _ _ _ _ ?_ ?_ ?_ h hfl
                · cases m with
                  | mk fs u =>
                    cases dis
                    · exact dwfMsg_unknown _ hm
                    · exact hm
                · rw [fields_unknown]; exact hinit
                · rw [fields_unknown]; exact hseen

include hS in
theorem flagC_step (fuel : Nat) (ihA : FlagA S nd rule fuel) (ihC : FlagC S nd rule fuel) :
    FlagC S nd rule (fuel + 1) := by
  intro kf vf k v b depth dis k' v' anyI seenV allI hvm hru hJ h hfl
  unfold decEntry at h
  unfold flagEntry at hfl
  split at h
  · simp only [ite_self, Except.ok.injEq, Prod.mk.injEq] at h
    obtain ⟨rfl, rfl⟩ := h
    subst hru
    simp only [Bool.and_eq_true] at hfl
    obtain ⟨⟨x, hx⟩, hall⟩ := hJ
    exact ⟨x, hx, (hall x hx).2.2 hfl.1 hfl.2⟩
  · rename_i hb
    split at hfl
    · exact absurd rfl hb
    · split at h
      · cases h
      · rename_i num wt tl ht
        simp only [ht] at hfl
        dsimp only at h
        by_cases hmax : num > maxValidNumber
        · simp [hmax] at h
        · simp only [hmax, if_false] at h
          cases hcf : Spec.consumeFieldValue num wt (b.drop tl) with
          | error e =>
            simp only [hcf] at h
            repeat' split at h
            all_goals first
              | (cases h; done)
              | (simp at h; done)
          | ok n =>
            simp only [hcf] at h hfl
            by_cases h2 : num = 2
            · subst h2
              simp only [show (2 : Nat) ≠ 1 by decide, if_false, if_true, hvm, decide_true, Bool.and_self] at h hfl
              cases hsb : decSubBytes vf wt (b.drop tl) with
              | none =>
                simp only [hsb] at h hfl
                exact ihC _ _ _ _ _ _ _ _ _ _ _ _ hvm hru hJ h hfl
              | some r =>
                cases r with
                | error e => simp only [hsb] at h; cases h
                | ok p =>
                  simp only [hsb] at h hfl
                  split at h
                  · cases h
                  · split at h
                    · cases h
                    · rename_i sub hsub
                      obtain ⟨⟨x, hx⟩, hall⟩ := hJ
                      obtain ⟨hxw, hxi, _⟩ := hall x hx
                      subst hx
                      simp only at hsub
                      have hsw : dwfMsg S vf.sub sub = true := (dec_inv S hS fuel).1 _ _ _ _ _ _ hxw hsub
                      refine ihC _ _ _ _ _ _ _ _ _ _ _ _ hvm hru ⟨⟨sub, rfl⟩, ?_⟩ h hfl
                      intro y hy
                      cases hy
                      have key : (allI && flagLoop S nd rule fuel vf.sub true [] p) = true → initMsg S vf.sub sub = true := by
                        intro hc
                        simp only [Bool.and_eq_true] at hc
                        exact ihA _ _ _ _ _ _ _ _ hxw (fun _ => hxi hc.1) (by intro n hn; cases hn) hsub hc.2
                      refine ⟨hsw, fun hc => ?_, fun _ hc => key hc⟩
                      have := key hc
                      cases sub with
                      | mk sf su =>
                        rw [initMsg, Bool.and_eq_true] at this
                        exact this.2
            · simp only [if_false, h2] at h hfl
              repeat' split at h
              all_goals first
                | (cases h; done)
                | exact ihC _ _ _ _ _ _ _ _ _ _ _ _ hvm hru hJ h hfl

include hS hM hX hR hnd hrule in
theorem flagB_step (fuel : Nat) (ihA : FlagA S nd rule fuel) (ihC : FlagC S nd rule fuel) :
    FlagB S nd rule (fuel + 1) := by
  intro mi m f wt val depth dis hm hf
  have hdecl := schemaOK_find hS hf
  have hfmem := find_mem hf
  cases m with
  | mk fs u =>
  have hquiet : ∀ sub, f.card ≠ .map → considered S nd f = false → f.kind.isMessage = true →
      dwfMsg S f.sub sub = true → initMsg S f.sub sub = true := by
    intro sub hc hcons hk hw
    have hn : nd f.sub = false := by
      unfold considered at hcons
      simp only [hc, if_false, hk] at hcons
      split at hcons
      · cases hcons
      · simpa using hcons
    exact quiet_msg S xr sub f.sub (fun hr => hnd _ hn (reaches_of_reachesM hM hX hr)) (ty_of_dwfMsg S xr hM sub f.sub hw)
  unfold decField flagField
  simp only [Msg.fields, Msg.unknown]
  split
  · -- repeated
    rename_i hc
    trace_state
    sorry
  · sorry
  · sorry

end

end FastInit
