import PbVerif.Lemmas.FastInitFlag
/-
(c) soundness of the `initialized` flag: the induction over the decoder.  Core-only.
-/
namespace FastInit
open Pb
open Spec (Byte decTag decBytes)

section
variable (S : Schema) (xr : Nat → Bool) (nd : Nat → Bool) (rule : MapRule)
  (hS : schemaOK S = true) (hM : MapOK S xr) (hX : ExtOK S xr) (hR : ReqOK S)
  (hnd : ∀ i, nd i = false → ¬ Reaches S xr i)
  (hrule : rule = .andOcc ∨ NoMsgMap S)

/-- state of the entry loop of a message-valued map: the value read so far is a well-formed message;
if every occurrence so far was flagged, everything nested in it is initialized, and if there was an
occurrence, the value itself is -/
def ValJ (vf : Field) (v : Option Val) (seenV allI : Bool) : Prop :=
  (∃ x, v = some (.msg x)) ∧
  ∀ x, v = some (.msg x) → dwfMsg S vf.sub x = true ∧
    (allI = true → initFields S (S.msg vf.sub) x.fields = true) ∧
    (seenV = true → allI = true → initMsg S vf.sub x = true)

theorem fields_unknown (dis : Bool) (m : Msg) (x : List Byte) :
    (if dis = true then m else Msg.mk m.fields x).fields = m.fields := by
  cases dis <;> cases m <;> rfl

def FlagA (fuel : Nat) : Prop :=
  ∀ mi m init seen b depth dis m', dwfMsg S mi m = true →
    (init = true → initFields S (S.msg mi) m.fields = true) → SeenOK (S.msg mi) m.fields seen →
    decMsg fuel S mi m b depth dis = .ok m' → flagLoop S nd rule fuel mi init seen b = true →
    initMsg S mi m' = true

def FlagB (fuel : Nat) : Prop :=
  ∀ mi m f wt val depth dis, dwfMsg S mi m = true → (S.msg mi).find f.num = some f →
    (decField fuel S mi m f wt val depth dis = .unknown → flagField S nd rule fuel f wt val = none) ∧
    (∀ m', decField fuel S mi m f wt val depth dis = .ok m' →
      Persist (S.msg mi) m.fields m'.fields ∧ (f.card = .required → (m'.fields.get? f.num).isSome = true) ∧
      ∃ c, flagField S nd rule fuel f wt val = some c ∧
        (initFields S (S.msg mi) m.fields = true → (considered S nd f = false ∨ c = true) →
          initFields S (S.msg mi) m'.fields = true))

def FlagC (fuel : Nat) : Prop :=
  ∀ kf vf k v b depth dis k' v' anyI seenV allI, vf.kind.isMessage = true → rule = .andOcc →
    ValJ S vf v seenV allI → decEntry fuel S kf vf k v b depth dis = .ok (k', v') →
    flagEntry S nd rule fuel kf vf b anyI seenV allI = true →
    ∃ x, v' = some (.msg x) ∧ initMsg S vf.sub x = true

include hS in
theorem flagA_step (fuel : Nat) (ihA : FlagA S nd rule fuel) (ihB : FlagB S nd rule fuel) :
    FlagA S nd rule (fuel + 1) := by
  intro mi m init seen b depth dis m' hm hinit hseen h hfl
  unfold decMsg at h
  unfold flagLoop at hfl
  split at h
  · simp only [Except.ok.injEq] at h; subst h
    simp only [Bool.and_eq_true] at hfl
    cases m with
    | mk fs u =>
      rw [initMsg, Bool.and_eq_true]
      exact ⟨reqDone_present hfl.2 hseen, hinit hfl.1⟩
  · rename_i hb
    split at hfl
    · exact absurd rfl hb
    · split at h
      · simp at h
      · rename_i num wt tl ht
        simp only [ht] at hfl
        simp only at h
        by_cases hmax : num > maxValidNumber
        · simp [hmax] at h
        · simp only [hmax, if_false] at h
          have hnum1 : 1 ≤ num := decTag_num_pos ht
          cases hfind : (S.msg mi).find num with
          | none =>
            simp only [hfind] at h
            split at h
            · simp at h
            · rename_i n hcf
              simp only [hcf, hfind] at hfl
              refine ihA _ _ _ _ _ _ _ _ ?_ ?_ ?_ h hfl
              · cases m with
                | mk fs u =>
                  cases dis
                  · exact dwfMsg_unknown _ hm
                  · exact hm
              · rw [fields_unknown]; exact hinit
              · rw [fields_unknown]; exact hseen
          | some f =>
            simp only [hfind] at h
            have hfn := MsgD.find_num_eq hfind
            subst hfn
            obtain ⟨hBu, hBo⟩ := ihB mi m f wt (b.drop tl) depth dis hm hfind
            cases hstep : decField fuel S mi m f wt (b.drop tl) depth dis with
            | err e => simp [hstep] at h
            | ok m1 =>
              simp only [hstep] at h
              split at h
              · simp at h
              · rename_i n hcf
                obtain ⟨hp, hreq, c, hc, hini⟩ := hBo m1 hstep
                simp only [hcf, hfind, hc] at hfl
                have hm1 := (dec_inv S hS fuel).2.1 _ _ _ _ _ _ _ _ hm hfind hnum1 (by omega) hstep
                refine ihA _ _ _ _ _ _ _ _ hm1 ?_ ?_ h hfl
                · intro hi
                  simp only [Bool.and_eq_true, Bool.or_eq_true, Bool.not_eq_true'] at hi
                  exact hini (hinit hi.1) hi.2
                · intro k hk
                  split at hk
                  · rename_i hcr
                    rcases List.mem_cons.1 hk with rfl | hk
                    · exact ⟨hreq hcr, f, hfind, hcr⟩
                    · exact (hseen.persist hp) k hk
                  · exact (hseen.persist hp) k hk
            | unknown =>
              simp only [hstep] at h
              split at h
              · simp at h
              · rename_i n hcf
                simp only [hcf, hfind, hBu hstep] at hfl
                refine ihA _ _ _ _ _ _ _ _ ?_ ?_ ?_ h hfl
                · cases m with
                  | mk fs u =>
                    cases dis
                    · exact dwfMsg_unknown _ hm
                    · exact hm
                · rw [fields_unknown]; exact hinit
                · rw [fields_unknown]; exact hseen

include hS in
theorem flagC_step (fuel : Nat) (ihA : FlagA S nd rule fuel) (ihC : FlagC S nd rule fuel) :
    FlagC S nd rule (fuel + 1) := by
  intro kf vf k v b depth dis k' v' anyI seenV allI hvm hru hJ h hfl
  unfold decEntry at h
  unfold flagEntry at hfl
  split at h
  · simp only [ite_self, Except.ok.injEq, Prod.mk.injEq] at h
    obtain ⟨rfl, rfl⟩ := h
    subst hru
    simp only [Bool.and_eq_true] at hfl
    obtain ⟨⟨x, hx⟩, hall⟩ := hJ
    exact ⟨x, hx, (hall x hx).2.2 hfl.1 hfl.2⟩
  · rename_i hb
    split at hfl
    · exact absurd rfl hb
    · split at h
      · cases h
      · rename_i num wt tl ht
        simp only [ht] at hfl
        dsimp only at h
        by_cases hmax : num > maxValidNumber
        · simp [hmax] at h
        · simp only [hmax, if_false] at h
          cases hcf : Spec.consumeFieldValue num wt (b.drop tl) with
          | error e =>
            simp only [hcf] at h
            repeat' split at h
            all_goals first
              | (cases h; done)
              | (simp at h; done)
          | ok n =>
            simp only [hcf] at h hfl
            by_cases h2 : num = 2
            · subst h2
              simp only [show (2 : Nat) ≠ 1 by decide, if_false, if_true, hvm, decide_true, Bool.and_self] at h hfl
              cases hsb : decSubBytes vf wt (b.drop tl) with
              | none =>
                simp only [hsb] at h hfl
                exact ihC _ _ _ _ _ _ _ _ _ _ _ _ hvm hru hJ h hfl
              | some r =>
                cases r with
                | error e => simp only [hsb] at h; cases h
                | ok p =>
                  simp only [hsb] at h hfl
                  split at h
                  · cases h
                  · split at h
                    · cases h
                    · rename_i sub hsub
                      obtain ⟨⟨x, hx⟩, hall⟩ := hJ
                      obtain ⟨hxw, hxi, _⟩ := hall x hx
                      subst hx
                      simp only at hsub
                      have hsw : dwfMsg S vf.sub sub = true := (dec_inv S hS fuel).1 _ _ _ _ _ _ hxw hsub
                      refine ihC _ _ _ _ _ _ _ _ _ _ _ _ hvm hru ⟨⟨sub, rfl⟩, ?_⟩ h hfl
                      intro y hy
                      cases hy
                      have key : (allI && flagLoop S nd rule fuel vf.sub true [] p) = true → initMsg S vf.sub sub = true := by
                        intro hc
                        simp only [Bool.and_eq_true] at hc
                        exact ihA _ _ _ _ _ _ _ _ hxw (fun _ => hxi hc.1) (by intro n hn; cases hn) hsub hc.2
                      refine ⟨hsw, fun hc => ?_, fun _ hc => key hc⟩
                      have := key hc
                      cases sub with
                      | mk sf su =>
                        rw [initMsg, Bool.and_eq_true] at this
                        exact this.2
            · simp only [if_false, h2] at h hfl
              repeat' split at h
              all_goals first
                | (cases h; done)
                | exact ihC _ _ _ _ _ _ _ _ _ _ _ _ hvm hru hJ h hfl

omit hS hM hX hR hnd hrule in
theorem flagField_repeated (fuel : Nat) {f : Field} (wt : Nat) (val : List Byte) (hc : f.card = .repeated) :
    flagField S nd rule (fuel + 1) f wt val =
      if f.kind.isMessage then
        match decSubBytes f wt val with
        | none => none
        | some (.error _) => some true
        | some (.ok p) => some (flagLoop S nd rule fuel f.sub true [] p)
      else if f.kind.isNumeric && wt = 2 then some true
      else
        match decScalar f wt val with
        | none => none
        | some _ => some true := by
  rw [flagField]; simp only [hc]; rfl

omit hS hM hX hR hnd hrule in
theorem flagField_map (fuel : Nat) {f : Field} (wt : Nat) (val : List Byte) (hc : f.card = .map) :
    flagField S nd rule (fuel + 1) f wt val =
      if wt ≠ 2 then none
      else match decBytes val with
        | .error _ => some true
        | .ok (p, _) =>
          match (S.msg f.sub).find 1, (S.msg f.sub).find 2 with
          | some kf, some vf => some (flagEntry S nd rule fuel kf vf p false false true)
          | _, _ => some true := by
  rw [flagField]; simp only [hc]; rfl

omit hS hM hX hR hnd hrule in
theorem flagField_singular (fuel : Nat) {f : Field} (wt : Nat) (val : List Byte) (h1 : f.card ≠ .repeated)
    (h2 : f.card ≠ .map) :
    flagField S nd rule (fuel + 1) f wt val =
      if f.kind.isMessage then
        match decSubBytes f wt val with
        | none => none
        | some (.error _) => some true
        | some (.ok p) => some (flagLoop S nd rule fuel f.sub true [] p)
      else
        match decScalar f wt val with
        | none => none
        | some _ => some true := by
  rw [flagField]
  cases hcard : f.card <;> first | (exact absurd hcard h1) | (exact absurd hcard h2) | rfl

include hS hM hX hR hnd hrule in
theorem flagB_step (fuel : Nat) (ihA : FlagA S nd rule fuel) (ihC : FlagC S nd rule fuel) :
    FlagB S nd rule (fuel + 1) := by
  intro mi m f wt val depth dis hm hf
  have hdecl := schemaOK_find hS hf
  have hfmem := find_mem hf
  cases m with
  | mk fs u =>
  constructor
  · -- errUnknown on both sides
    intro h
    unfold decField at h
    simp only [Msg.fields, Msg.unknown] at h
    split at h
    · rename_i hc
      rw [flagField_repeated S nd rule fuel wt val hc]
      split at h
      · rename_i hmsg
        split at h
        · rename_i hsb; simp [hmsg, hsb]
        · cases h
        · split at h
          · cases h
          · split at h <;> cases h
      · rename_i hmsg
        split at h
        · split at h
          · cases h
          · split at h <;> cases h
        · rename_i hpk
          split at h
          · rename_i hsc; simp [hmsg, hpk, hsc]
          · cases h
          · cases h
    · rename_i hc
      rw [flagField_map S nd rule fuel wt val hc]
      split at h
      · cases h
      · split at h
        · rename_i hwt; simp [hwt]
        · split at h
          · cases h
          · split at h
            · split at h <;> cases h
            · cases h
    · rename_i hc1 hc2
      rw [flagField_singular S nd rule fuel wt val (fun e => hc1 e) (fun e => hc2 e)]
      split at h
      · rename_i hmsg
        split at h
        · rename_i hsb; simp [hmsg, hsb]
        · cases h
        · try dsimp only at h
          split at h
          · cases h
          · split at h <;> cases h
      · rename_i hmsg
        split at h
        · rename_i hsc; simp [hmsg, hsc]
        · cases h
        · cases h
  · intro m' h
    have hRd : ∀ n g, (S.msg mi).find n = some g → g.card = .required → g.oneof = none := hR mi
    have hquiet : ∀ sub, f.card ≠ .map → considered S nd f = false → f.kind.isMessage = true →
        dwfMsg S f.sub sub = true → initMsg S f.sub sub = true := by
      intro sub hc hcons hk hw
      have hn : nd f.sub = false := by
        unfold considered at hcons
        simp only [hc, if_false, hk] at hcons
        split at hcons
        · cases hcons
        · simpa using hcons
      exact quiet_msg S xr sub f.sub (fun hr => hnd _ hn (reaches_of_reachesM hM hX hr))
        (ty_of_dwfMsg S xr hM sub f.sub hw)
    have hempty : initFields S (S.msg f.sub) Msg.empty.fields = true := by
      simp [Msg.empty, Msg.fields, initFields]
    unfold decField at h
    simp only [Msg.fields, Msg.unknown] at h
    split at h
    · -- repeated
      rename_i hc
      have hcr : f.card ≠ .required := by rw [hc]; decide
      have hcm : f.card ≠ .map := by rw [hc]; decide
      rw [flagField_repeated S nd rule fuel wt val hc]
      split at h
      · rename_i hmsg
        split at h
        · cases h
        · cases h
        · rename_i p hsb
          split at h
          · cases h
          · split at h
            · cases h
            · rename_i sub hsub
              simp only [Step.ok.injEq] at h; subst h
              have hsw : dwfMsg S f.sub sub = true := (dec_inv S hS fuel).1 _ _ _ _ _ _ (dwfMsg_empty S f.sub) hsub
              refine ⟨persist_appendList _ _ _ _, fun e => absurd e hcr,
                flagLoop S nd rule fuel f.sub true [] p, by simp [hmsg, hsb], fun hi hcc => ?_⟩
              have hsi : initMsg S f.sub sub = true := by
                rcases hcc with hcc | hcc
                · exact hquiet sub hcm hcc hmsg hsw
                · exact ihA _ _ _ _ _ _ _ _ (dwfMsg_empty S f.sub) (fun _ => hempty) (by intro n hn; cases hn) hsub hcc
              exact initFields_appendList hi hf (by simp [initVals, initVal, hsi])
      · rename_i hmsg
        split at h
        · rename_i hpk
          split at h
          · cases h
          · split at h
            · cases h
            · rename_i vs hvs
              simp only [Step.ok.injEq] at h; subst h
              refine ⟨persist_appendList _ _ _ _, fun e => absurd e hcr, true, by simp [hmsg, hpk], fun hi _ => ?_⟩
              exact initFields_appendList hi hf (decPacked_init _ _ _ _ hvs)
        · rename_i hpk
          split at h
          · cases h
          · cases h
          · rename_i v hv
            simp only [Step.ok.injEq] at h; subst h
            refine ⟨persist_appendList _ _ _ _, fun e => absurd e hcr, true, by simp [hmsg, hpk, hv], fun hi _ => ?_⟩
            exact initFields_appendList hi hf (by simp [initVals, initVal_of_not_msg (decScalar_not_msg hv)])
    · -- map
      rename_i hc
      have hcr : f.card ≠ .required := by rw [hc]; decide
      rw [flagField_map S nd rule fuel wt val hc]
      split at h
      · cases h
      · split at h
        · cases h
        · rename_i hwt
          split at h
          · cases h
          · rename_i p n hp
            try dsimp only at h
            split at h
            · rename_i kf vf hk hv
              have hent : entryDeclOK kf vf = true := by
                simp only [fieldDeclOK, hc, or_true, if_true, hk, hv, Bool.and_eq_true] at hdecl
                exact hdecl.2
              simp only [entryDeclOK, Bool.and_eq_true, Bool.or_eq_true, Bool.not_eq_true'] at hent
              obtain ⟨⟨hkm, hkd⟩, hvd⟩ := hent
              split at h
              · cases h
              · rename_i k v hkv
                have hinit : EntInv S kf vf none (if vf.kind.isMessage = true then some (.msg Msg.empty) else none) := by
                  refine ⟨(by intro kv hk'; cases hk'), ?_, ?_⟩
                  · intro vv hvv
                    split at hvv
                    · rename_i hvm
                      cases hvv
                      simp [dwfVal, hvm, dwfMsg_empty]
                    · cases hvv
                  · intro hvm; simp [hvm]
                obtain ⟨ek, ev, evs⟩ := (dec_inv S hS fuel).2.2 _ _ _ _ _ _ _ _ _ hkm hinit hkv
                have hkey : isMsgVal (k.getD (defaultScalar kf)) = false := by
                  cases k with
                  | none => exact isMsgVal_defaultScalar kf
                  | some kv => exact isMsgVal_of_wfScalar (ek kv rfl)
                try dsimp only at h
                -- the value of the entry is initialized whenever the flag is honoured and set
                have hval : (considered S nd f = false ∨
                    flagEntry S nd rule fuel kf vf p false false true = true) →
                    initVal S vf (v.getD (defaultScalar vf)) = true := by
                  intro hcc
                  by_cases hvmsg : vf.kind.isMessage = true
                  · have hcons : considered S nd f = true := by
                      unfold considered; simp [hc, hv, hvmsg]
                    rcases hcc with hcc | hcc
                    · rw [hcons] at hcc; cases hcc
                    · rcases hrule with hru | hno
                      · have hJ : ValJ S vf (some (.msg Msg.empty)) false true :=
                          ⟨⟨_, rfl⟩, fun x hx => by
                            cases hx
                            exact ⟨dwfMsg_empty S vf.sub, fun _ => by simp [Msg.empty, Msg.fields, initFields],
                              fun hs => by cases hs⟩⟩
                        simp only [hvmsg, if_true] at hkv
                        obtain ⟨x, hx, hxi⟩ := ihC _ _ _ _ _ _ _ _ _ _ _ _ hvmsg hru hJ hkv hcc
                        subst hx
                        simpa [initVal] using hxi
                      · have := hno mi f hfmem hc vf hv
                        rw [hvmsg] at this; cases this
                  · have hvm' : vf.kind.isMessage = false := by simpa using hvmsg
                    apply initVal_of_not_msg
                    cases v with
                    | none => exact isMsgVal_defaultScalar vf
                    | some vv =>
                      have := ev vv rfl
                      cases vv with
                      | msg x => simp [dwfVal, hvm'] at this
                      | num _ => rfl
                      | bytes _ => rfl
                have hentry : (considered S nd f = false ∨
                    flagEntry S nd rule fuel kf vf p false false true = true) →
                    initMsg S f.sub (.mk (.cons 1 (.one (k.getD (defaultScalar kf)))
                      (.cons 2 (.one (v.getD (defaultScalar vf))) .nil)) []) = true := by
                  intro hcc
                  rw [initMsg, Bool.and_eq_true]
                  refine ⟨required_all_of_not_hasRequired (hM mi f hfmem hc).1 _, ?_⟩
                  simp only [initFields, hk, hv, initFVal, hval hcc, initVal_of_not_msg hkey, Bool.and_self]
                have hflag : (if wt ≠ 2 then none
                    else match decBytes val with
                      | .error _ => some true
                      | .ok (p, _) =>
                        match (S.msg f.sub).find 1, (S.msg f.sub).find 2 with
                        | some kf, some vf => some (flagEntry S nd rule fuel kf vf p false false true)
                        | _, _ => some true) = some (flagEntry S nd rule fuel kf vf p false false true) := by
                  simp [hwt, hp, hk, hv]
                split at h
                · rename_i vs hvs
                  simp only [Step.ok.injEq] at h; subst h
                  refine ⟨persist_set _ _ _ _, fun e => absurd e hcr, _, hflag, fun hi hcc => ?_⟩
                  refine initFields_set hi _ _ (fun g hg => ?_)
                  rw [hf] at hg; cases hg
                  rw [initFVal]
                  have hold := initFields_get hi hvs hf
                  rw [initFVal] at hold
                  exact initVals_mapPut hold _ _ (hentry hcc)
                · simp only [Step.ok.injEq] at h; subst h
                  refine ⟨persist_set _ _ _ _, fun e => absurd e hcr, _, hflag, fun hi hcc => ?_⟩
                  refine initFields_set hi _ _ (fun g hg => ?_)
                  rw [hf] at hg; cases hg
                  rw [initFVal]
                  exact initVals_mapPut (by rw [initVals]) _ _ (hentry hcc)
            · cases h
    · -- singular
      rename_i hc1 hc2
      have hc1' : f.card ≠ .repeated := fun e => hc1 e
      have hc2' : f.card ≠ .map := fun e => hc2 e
      rw [flagField_singular S nd rule fuel wt val hc1' hc2']
      split at h
      · rename_i hmsg
        split at h
        · cases h
        · cases h
        · rename_i p hsb
          try dsimp only at h
          split at h
          · cases h
          · split at h
            · cases h
            · rename_i sub hsub
              simp only [Step.ok.injEq] at h; subst h
              have hcurw : dwfMsg S f.sub (match (match f.oneof with
                  | some o => Fields.clearOneof (S.msg mi) o f.num fs
                  | none => fs).get? f.num with
                | some (.one (.msg x)) => x
                | _ => Msg.empty) = true := by
                split
                · rename_i x hx; exact dwf_cur hm hf hx
                · exact dwfMsg_empty S f.sub
              have hsw : dwfMsg S f.sub sub = true := (dec_inv S hS fuel).1 _ _ _ _ _ _ hcurw hsub
              refine ⟨(persist_clearFor hRd f fs).trans (persist_set _ _ _ _),
                fun _ => by simp only [Msg.fields]; rw [Fields.get?_set]; simp, flagLoop S nd rule fuel f.sub true [] p, by simp [hmsg, hsb],
                fun hi hcc => ?_⟩
              have h0 : initFields S (S.msg mi) (match f.oneof with
                  | some o => Fields.clearOneof (S.msg mi) o f.num fs
                  | none => fs) = true := by
                cases f.oneof with
                | none => exact hi
                | some o => exact initFields_clearOneof hi _ _
              have hcuri : initFields S (S.msg f.sub) (match (match f.oneof with
                  | some o => Fields.clearOneof (S.msg mi) o f.num fs
                  | none => fs).get? f.num with
                | some (.one (.msg x)) => x
                | _ => Msg.empty).fields = true := by
                split
                · rename_i x hx
                  have := initFields_get h0 hx hf
                  rw [initFVal, initVal] at this
                  cases x with
                  | mk xs xu =>
                    rw [initMsg, Bool.and_eq_true] at this
                    exact this.2
                · exact hempty
              have hsi : initMsg S f.sub sub = true := by
                rcases hcc with hcc | hcc
                · exact hquiet sub hc2' hcc hmsg hsw
                · exact ihA _ _ _ _ _ _ _ _ hcurw (fun _ => hcuri) (by intro n hn; cases hn) hsub hcc
              refine initFields_set h0 _ _ (fun g hg => ?_)
              rw [hf] at hg; cases hg
              rw [initFVal, initVal]; exact hsi
      · rename_i hmsg
        split at h
        · cases h
        · cases h
        · rename_i v hv
          simp only [Step.ok.injEq] at h; subst h
          refine ⟨persist_setSingular hRd hf fs v, fun hcr => ?_, true, by simp [hmsg, hv], fun hi _ => ?_⟩
          · simp only [Msg.fields]; rw [get?_setSingular]; simp [hcr]
          · exact initFields_setSingular hi (decScalar_not_msg hv)

include hS hM hX hR hnd hrule in
theorem flag_inv : ∀ fuel : Nat, FlagA S nd rule fuel ∧ FlagB S nd rule fuel ∧ FlagC S nd rule fuel
  | 0 => by
    refine ⟨?_, ?_, ?_⟩
    · intro mi m init seen b depth dis m' _ _ _ h; simp [decMsg] at h
    · intro mi m f wt val depth dis _ _
      refine ⟨fun h => ?_, fun m' h => ?_⟩ <;> simp [decField] at h
    · intro kf vf k v b depth dis k' v' anyI seenV allI _ _ _ h; simp [decEntry] at h
  | fuel + 1 => by
    obtain ⟨ihA, ihB, ihC⟩ := flag_inv fuel
    exact ⟨flagA_step S nd rule hS fuel ihA ihB,
      flagB_step S xr nd rule hS hM hX hR hnd hrule fuel ihA ihC,
      flagC_step S nd rule hS fuel ihA ihC⟩

include hS hM hX hR hnd hrule in
/-- the flag of `decFlag` is sound -/
theorem decFlag_sound (mi : Nat) (b : List Byte) (m : Msg)
    (h : decFlag S nd rule mi b = .ok (m, true)) : initMsg S mi m = true := by
  unfold decFlag at h
  cases hu : unmarshal S mi b with
  | error e => rw [hu] at h; cases h
  | ok m0 =>
    rw [hu] at h
    simp only [Except.map, Except.ok.injEq, Prod.mk.injEq] at h
    obtain ⟨rfl, hfl⟩ := h
    unfold unmarshal unmarshalInto at hu
    split at hu
    · cases hu
    · exact (flag_inv S xr nd rule hS hM hX hR hnd hrule (fuelFor b)).1 mi Msg.empty true [] b _ false m0
        (dwfMsg_empty S mi) (fun _ => by simp [Msg.empty, Msg.fields, initFields])
        (by intro n hn; cases hn) hu hfl

include hS hM hX hR hnd hrule in
/-- merging into an existing message: the flag is sound when everything nested in the target was initialized -/
theorem decFlagInto_sound (mi : Nat) (m0 : Msg) (b : List Byte) (m : Msg) (hw : dwfMsg S mi m0 = true)
    (h0 : initFields S (S.msg mi) m0.fields = true)
    (h : decFlagInto S nd rule mi m0 b = .ok (m, true)) : initMsg S mi m = true := by
  unfold decFlagInto at h
  cases hu : unmarshalInto S mi m0 b 10000 false with
  | error e => rw [hu] at h; cases h
  | ok m1 =>
    rw [hu] at h
    simp only [Except.map, Except.ok.injEq, Prod.mk.injEq] at h
    obtain ⟨rfl, hfl⟩ := h
    unfold unmarshalInto at hu
    split at hu
    · cases hu
    · exact (flag_inv S xr nd rule hS hM hX hR hnd hrule (fuelFor b)).1 mi m0 true [] b _ false m1
        hw (fun _ => h0) (by intro n hn; cases hn) hu hfl

end

/-- **the verdict of a top-level Unmarshal (merging or not) is `initMsg` of the resulting message**, given
exact `needsInitCheck` results -/
theorem unmarshalTop_verdict (S : Schema) (xr nd : Nat → Bool) (hS : schemaOK S = true) (hM : MapOK S xr)
    (hX : ExtOK S xr) (hR : ReqOK S) (hnd : ∀ i, nd i = true ↔ Reaches S xr i)
    (mi : Nat) (merge : Bool) (m0 : Msg) (b : List Byte) (limit : Int) (dis : Bool) (m : Msg) (v : Bool)
    (hw : merge = true → dwfMsg S mi m0 = true)
    (h : unmarshalTop S nd mi merge m0 b limit dis = .ok (m, v)) : v = initMsg S mi m := by
  unfold unmarshalTop at h
  cases hu : unmarshalInto S mi (if merge = true then m0 else Msg.empty) b limit dis with
  | error e => rw [hu] at h; cases h
  | ok m1 =>
    rw [hu] at h
    simp only [Except.map, Except.ok.injEq, Prod.mk.injEq] at h
    obtain ⟨rfl, hv⟩ := h
    unfold unmarshalInto at hu
    split at hu
    · cases hu
    · have hstart : dwfMsg S mi (if merge = true then m0 else Msg.empty) = true := by
        cases merge with
        | true => simpa using hw rfl
        | false => simpa using dwfMsg_empty S mi
      have hm1 : dwfMsg S mi m1 = true := (dec_inv S hS _).1 _ _ _ _ _ _ hstart hu
      have hfast : initFastMsg S nd mi m1 = initMsg S mi m1 :=
        fast_msg S xr nd hM hX hnd m1 mi (ty_of_dwfMsg S xr hM m1 mi hm1)
      rw [hfast] at hv
      cases merge with
      | true => simpa using hv.symm
      | false =>
        simp only [Bool.not_false, Bool.true_and, Bool.false_eq_true, if_false] at hv hu
        cases hfl : flagLoop S nd .andOcc (fuelFor b) mi true [] b with
        | false => rw [hfl] at hv; simpa using hv.symm
        | true =>
          have hnd' : ∀ i, nd i = false → ¬ Reaches S xr i := fun i hi hr => by
            have := (hnd i).2 hr; rw [hi] at this; cases this
          have := (flag_inv S xr nd .andOcc hS hM hX hR hnd' (Or.inl rfl) (fuelFor b)).1 mi Msg.empty true [] b _ dis m1
            (dwfMsg_empty S mi) (fun _ => by simp [Msg.empty, Msg.fields, initFields])
            (by intro n hn; cases hn) hu hfl
          rw [hfl, this] at hv
          rw [this]; simpa using hv.symm

end FastInit
