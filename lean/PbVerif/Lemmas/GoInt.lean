/-
Lemmas relating Go `int` (two's complement `BitVec 64`) comparisons on slice lengths to `Nat`.
A Go slice never has 2^63 or more elements; theorems about translated code carry that as an
explicit hypothesis on the lists involved.
-/
namespace Go

theorem toInt_ofNat_small (n : Nat) (hn : n < 2^63) : (BitVec.ofNat 64 n).toInt = n := by
  rw [BitVec.toInt_eq_toNat_cond]
  simp only [BitVec.toNat_ofNat]
  have : n % 2^64 = n := Nat.mod_eq_of_lt (by omega)
  rw [this]; split <;> omega

theorem sle_ofNat (n k : Nat) (hn : n < 2^63) (hk : k < 2^63) :
    BitVec.sle (BitVec.ofNat 64 n) (BitVec.ofNat 64 k) = decide (n ≤ k) := by
  simp [BitVec.sle, toInt_ofNat_small, hn, hk]

theorem slt_ofNat (n k : Nat) (hn : n < 2^63) (hk : k < 2^63) :
    BitVec.slt (BitVec.ofNat 64 n) (BitVec.ofNat 64 k) = decide (n < k) := by
  simp [BitVec.slt, toInt_ofNat_small, hn, hk]

theorem ult_ofNat (n k : Nat) (hn : n < 2^64) (hk : k < 2^64) :
    BitVec.ult (BitVec.ofNat 64 n) (BitVec.ofNat 64 k) = decide (n < k) := by
  simp [BitVec.ult, BitVec.toNat_ofNat, Nat.mod_eq_of_lt hn, Nat.mod_eq_of_lt hk]

end Go
