import PbVerif.Model.StructTag
/-
Lemmas for the struct-tag round trip (C46): how `parseLoop` walks a comma-joined token list,
and what each token written by `marshalTag` does to the parser state.
-/
namespace Pb.Tag

def NoComma (s : Str) : Prop := ∀ c ∈ s, c ≠ ','

/-- a token that is consumed by one of the ordinary arms of the `switch` -/
structure Plain (s : Str) : Prop where
  ne : s ≠ []
  nc : NoComma s
  nd : DEF_EQ.isPrefixOf s = false

/-- effect of an ordinary token -/
def step (g : GoKind) (s : Str) (st : St) : St := (body g [] s st).1

theorem cut_append_comma {s : Str} (h : NoComma s) (r : Str) : cut (s ++ ',' :: r) = (s, some r) := by
  induction s with
  | nil => simp [cut]
  | cons c cs ih =>
    have hc : c ≠ ',' := h c (by simp)
    have ih' := ih (fun x hx => h x (by simp [hx]))
    simp [cut, hc, ih']

theorem cut_noComma {s : Str} (h : NoComma s) : cut s = (s, none) := by
  induction s with
  | nil => simp [cut]
  | cons c cs ih =>
    have hc : c ≠ ',' := h c (by simp)
    have ih' := ih (fun x hx => h x (by simp [hx]))
    simp [cut, hc, ih']

theorem ite_ne {α : Type} {c : Prop} [Decidable c] {a b x : α} (ha : a ≠ x) (hb : b ≠ x) :
    (if c then a else b) ≠ x := by
  split <;> assumption

theorem arm_ne_dflt {s : Str} (h : DEF_EQ.isPrefixOf s = false) : arm s ≠ .dflt := by
  unfold arm
  simp only [h]
  repeat (refine ite_ne (by decide) ?_)
  simp only [Bool.false_eq_true, if_false]
  repeat (refine ite_ne (by decide) ?_)
  decide

theorem body_of_not_def (g : GoKind) (tag s : Str) (st : St) (h : DEF_EQ.isPrefixOf s = false) :
    body g tag s st = (step g s st, false) := by
  have := arm_ne_dflt h
  unfold step body
  cases ha : arm s <;> simp_all [runArm]

theorem loop_cons (g : GoKind) (fuel : Nat) {s : Str} (hs : Plain s) (r : Str) (st : St) :
    parseLoop g (fuel + 1) (s ++ ',' :: r) st = parseLoop g fuel r (step g s st) := by
  have hne : s ++ ',' :: r ≠ [] := by simp
  simp [parseLoop, hne, cut_append_comma hs.nc, body_of_not_def g _ s st hs.nd]

theorem loop_last (g : GoKind) (fuel : Nat) {s : Str} (hs : Plain s) (st : St) :
    parseLoop g (fuel + 1) s st = step g s st := by
  simp [parseLoop, hs.ne, cut_noComma hs.nc, body_of_not_def g _ s st hs.nd]


theorem cut_def (d : Str) : (cut (DEF_EQ ++ d)).1 = DEF_EQ ++ (cut d).1 := by
  simp [DEF_EQ, cut]

theorem arm_def (x : Str) : arm (DEF_EQ ++ x) = .dflt := by
  simp [arm, DEF_EQ, NAME_EQ, OPT, REQ, REP, VARINT, ZIGZAG32, ZIGZAG64, FIXED32, FIXED64, BYTES, GROUP,
    ENUM_EQ, JSON_EQ, PACKED, List.isPrefixOf, Char.isDigit]

/-- the `def=` arm takes everything that is left, commas included -/
theorem loop_def (g : GoKind) (fuel : Nat) (d : Str) (st : St) :
    parseLoop g (fuel + 1) (DEF_EQ ++ d) st = { st with dflt := some d } := by
  have hne : DEF_EQ ++ d ≠ [] := by simp [DEF_EQ]
  simp [parseLoop, hne, body, cut_def, arm_def, runArm]
  simp [DEF_EQ]

/-- the text of the optional trailing `def=` token -/
def defText : Option Str → List Str
  | some d => [DEF_EQ ++ d]
  | none => []

def applyDef (st : St) : Option Str → St
  | some d => { st with dflt := some d }
  | none => st

theorem joinComma_cons_cons (t t' : Str) (ts : List Str) :
    joinComma (t :: t' :: ts) = t ++ ',' :: joinComma (t' :: ts) := rfl

/-- **the loop over a marshalled tag**: ordinary tokens are applied left to right, a trailing
`def=` token stores its text -/
theorem loop_tokens (g : GoKind) (ts : List Str) (hts : ∀ t ∈ ts, Plain t) (d : Option Str) :
    ∀ (fuel : Nat) (st : St), (joinComma (ts ++ defText d)).length < fuel →
      parseLoop g fuel (joinComma (ts ++ defText d)) st = applyDef (ts.foldl (fun st t => step g t st) st) d := by
  induction ts with
  | nil =>
    intro fuel st hf
    cases d with
    | none => cases fuel <;> simp [defText, joinComma, parseLoop, applyDef]
    | some x =>
      cases fuel with
      | zero => simp at hf
      | succ f => simp [defText, joinComma, applyDef, loop_def]
  | cons t ts ih =>
    intro fuel st hf
    have ht : Plain t := hts t (by simp)
    have hts' : ∀ x ∈ ts, Plain x := fun x hx => hts x (by simp [hx])
    cases fuel with
    | zero => simp at hf
    | succ f =>
      cases hrest : ts ++ defText d with
      | nil =>
        have h1 : ts = [] := (List.append_eq_nil_iff.mp hrest).1
        have h2 : defText d = [] := (List.append_eq_nil_iff.mp hrest).2
        have h3 : d = none := by cases d <;> simp_all [defText]
        subst h1; subst h3
        simp [defText, joinComma, loop_last g f ht, applyDef]
      | cons t' rest =>
        have e : joinComma (t :: ts ++ defText d) = t ++ ',' :: joinComma (ts ++ defText d) := by
          rw [List.cons_append, hrest]; rfl
        rw [e] at hf ⊢
        rw [loop_cons g f ht]
        have hf' : (joinComma (ts ++ defText d)).length < f := by
          simp at hf; omega
        simpa using ih hts' f (step g t st) hf'


/-! ### the tokens written by `marshalTag` are ordinary tokens -/

theorem not_def_of_not_mem {s : Str} (h : 'd' ∉ s) : DEF_EQ.isPrefixOf s = false := by
  cases s with
  | nil => simp [DEF_EQ]
  | cons c cs =>
    have : c ≠ 'd' := fun e => h (by simp [e])
    simp [DEF_EQ, List.isPrefixOf]
    intro e; exact absurd e.symm this

theorem plain_kindToken (k : Kind) : Plain (kindToken k) := by
  cases k <;> exact ⟨by decide, by unfold NoComma; decide, by decide⟩

theorem plain_labelToken (l : Label) : Plain (labelToken l) := by
  cases l <;> exact ⟨by decide, by unfold NoComma; decide, by decide⟩

theorem plain_lit_packed : Plain PACKED := ⟨by decide, by unfold NoComma; decide, by decide⟩
theorem plain_lit_proto3 : Plain PROTO3 := ⟨by decide, by unfold NoComma; decide, by decide⟩
theorem plain_lit_oneof : Plain ONEOF := ⟨by decide, by unfold NoComma; decide, by decide⟩

theorem isDigit_itoa (n : Nat) : ∀ c ∈ itoa n, c.isDigit = true :=
  fun _ hc => Nat.isDigit_of_mem_toDigits (by decide) (by decide) hc

theorem plain_itoa (n : Nat) : Plain (itoa n) := by
  refine ⟨Nat.toDigits_ne_nil, ?_, ?_⟩
  · intro c hc e
    have := isDigit_itoa n c hc
    subst e; simp [Char.isDigit] at this
  · apply not_def_of_not_mem
    intro hc
    have := isDigit_itoa n _ hc
    simp [Char.isDigit] at this

theorem noComma_append {a b : Str} (ha : NoComma a) (hb : NoComma b) : NoComma (a ++ b) := by
  intro c hc
  rcases List.mem_append.mp hc with h | h
  · exact ha c h
  · exact hb c h

theorem plain_name (x : Str) (hx : NoComma x) : Plain (NAME_EQ ++ x) :=
  ⟨by simp [NAME_EQ], noComma_append (by unfold NoComma; decide) hx, by simp [NAME_EQ, DEF_EQ, List.isPrefixOf]⟩

theorem plain_json (x : Str) (hx : NoComma x) : Plain (JSON_EQ ++ x) :=
  ⟨by simp [JSON_EQ], noComma_append (by unfold NoComma; decide) hx, by simp [JSON_EQ, DEF_EQ, List.isPrefixOf]⟩

theorem plain_enum (x : Str) (hx : NoComma x) : Plain (ENUM_EQ ++ x) :=
  ⟨by simp [ENUM_EQ], noComma_append (by unfold NoComma; decide) hx, by simp [ENUM_EQ, DEF_EQ, List.isPrefixOf]⟩

/-! ### what each token does -/

theorem step_kindToken (k : Kind) (st : St) :
    step (goKindOf k) (kindToken k) st = { st with kind := some (if k = .enum then .int32 else k) } := by
  cases k <;> rfl

theorem step_labelToken (l : Label) (g : GoKind) (st : St) :
    step g (labelToken l) st = { st with label := some l } := by
  cases l <;> rfl

theorem step_packed (g : GoKind) (st : St) : step g PACKED st = { st with packed := true } := rfl
theorem step_proto3 (g : GoKind) (st : St) : step g PROTO3 st = { st with proto3 := true } := rfl
theorem step_oneof (g : GoKind) (st : St) : step g ONEOF st = st := rfl

theorem arm_itoa (n : Nat) : arm (itoa n) = .number := by
  have hd : (itoa n).all Char.isDigit = true := List.all_eq_true.mpr (isDigit_itoa n)
  have hn : NAME_EQ.isPrefixOf (itoa n) = false := by
    cases h : itoa n with
    | nil => exact absurd h Nat.toDigits_ne_nil
    | cons c cs =>
      have := isDigit_itoa n c (by simp [h])
      simp [NAME_EQ, List.isPrefixOf]
      intro e; subst e; simp [Char.isDigit] at this
  simp [arm, hn, hd]

theorem step_itoa (g : GoKind) (n : Nat) (hn : n < 2 ^ 31) (st : St) :
    step g (itoa n) st = { st with number := (n : Int) } := by
  have h1 : parseUint32 (itoa n) = n := by
    unfold parseUint32 itoa
    rw [Nat.ofDigitChars_ten_toDigits]
    omega
  simp [step, body, arm_itoa, runArm, h1, toInt32, hn]

theorem step_name (g : GoKind) (x : Str) (st : St) : step g (NAME_EQ ++ x) st = { st with name := x } := by
  simp [step, body, arm, NAME_EQ, List.isPrefixOf, runArm]

theorem arm_enum (x : Str) : arm (ENUM_EQ ++ x) = .enum := by
  simp [arm, ENUM_EQ, NAME_EQ, OPT, REQ, REP, VARINT, ZIGZAG32, ZIGZAG64, FIXED32, FIXED64, BYTES, GROUP,
    List.isPrefixOf, Char.isDigit]

theorem step_enum (g : GoKind) (x : Str) (st : St) : step g (ENUM_EQ ++ x) st = { st with kind := some .enum } := by
  simp [step, body, arm_enum, runArm]

theorem arm_json (x : Str) : arm (JSON_EQ ++ x) = .json := by
  simp [arm, JSON_EQ, ENUM_EQ, NAME_EQ, OPT, REQ, REP, VARINT, ZIGZAG32, ZIGZAG64, FIXED32, FIXED64, BYTES, GROUP,
    List.isPrefixOf, Char.isDigit]

theorem step_json (g : GoKind) (x : Str) (st : St) :
    step g (JSON_EQ ++ x) st =
      if x ≠ jsonCamelCase (lastName st.name) then { st with json := some x } else st := by
  simp only [step, body, arm_json, runArm]
  simp [JSON_EQ]

end Pb.Tag
