import PbVerif.Lemmas.JsonTextLoop
/-
The prototext field loop as a fold (`tdStep`), and what one iteration does to `seenNums` /
`seenOneofs` (only non-repeated fields are recorded in the text decoder).
-/
namespace JT
open Pb

def TFields.toList : TFields → List (TName × Bool × TV)
  | .nil => []
  | .cons n s v tl => (n, s, v) :: tl.toList

theorem TFields.toList_ofList : ∀ l : List (TName × Bool × TV), (TFields.ofList l).toList = l
  | [] => rfl
  | (n, s, v) :: tl => by simp [TFields.ofList, TFields.toList, TFields.toList_ofList tl]

/-- one iteration of the prototext field loop -/
def tdStep (C : TCodec) (D : DOpts) (X : SchemaX) (mi : Nat) (limit : Int) (s : LoopSt) (a : TName × Bool × TV) : Except Err LoopSt :=
  match tdHead D X (X.msg mi) limit a.1 a.2.1 a.2.2 s.sn s.so with
  | .error e => .error e
  | .skip sn' => .ok { s with sn := sn' }
  | .value fx sn' so' =>
    match tdFieldVal C D X mi fx limit s.m a.2.2 with
    | .error e => .error e
    | .ok m' => .ok ⟨sn', so', m'⟩

/-- `tdFields` is the fold of `tdStep` -/
theorem tdFields_eq_fold (C : TCodec) (D : DOpts) (X : SchemaX) (mi : Nat) (limit : Int) :
    ∀ (fs : TFields) (sn so : Ints) (m : Msg),
      tdFields C D X mi limit fs sn so m =
        (foldE (tdStep C D X mi limit) fs.toList ⟨sn, so, m⟩).map (·.m)
  | .nil, sn, so, m => by simp [tdFields, TFields.toList, foldE, Except.map]
  | .cons name sep v tl, sn, so, m => by
    rw [tdFields]
    simp only [TFields.toList, foldE, tdStep]
    cases h : tdHead D X (X.msg mi) limit name sep v sn so with
    | error e => simp [Except.map]
    | skip sn' => simp only; exact tdFields_eq_fold C D X mi limit tl sn' so m
    | value fx sn' so' =>
      simp only
      change (match tdFieldVal C D X mi fx limit m v with
              | Except.error e => Except.error e
              | Except.ok m' => tdFields C D X mi limit tl sn' so' m') = _
      cases h2 : tdFieldVal C D X mi fx limit m v with
      | error e => simp [Except.map]
      | ok m' => simp only; exact tdFields_eq_fold C D X mi limit tl sn' so' m'

def isSingular (fx : FieldX) : Bool := !(fx.f.card = .repeated || fx.f.card = .map)

/-- the non-repeated field a text field names -/
def tNamed (X : SchemaX) (d : MsgX) (a : TName × Bool × TV) : Option Nat :=
  match resolveText X d a.1 with
  | .found fx => if isSingular fx then some fx.f.num else none
  | _ => none

/-- the oneof a text field sets -/
def tSetsOneof (X : SchemaX) (d : MsgX) (a : TName × Bool × TV) : Option Nat :=
  match resolveText X d a.1 with
  | .found fx => if isSingular fx then fx.oneofIdx else none
  | _ => none

/-- the shape of a successful head on a resolved field -/
theorem tdHead_found (D : DOpts) (X : SchemaX) (d : MsgX) (limit : Int) (name : TName) (sep : Bool) (v : TV)
    (sn so : Ints) (fx : FieldX) (hr : resolveText X d name = .found fx) :
    tdHead D X d limit name sep v sn so =
      match fx.f.card with
      | .repeated => if !fx.f.kind.isMessage && !sep then .error .noSep else .value fx sn so
      | .map => .value fx sn so
      | _ =>
        if !fx.f.kind.isMessage && !sep then .error .noSep else
        match fx.oneofIdx with
        | some o =>
          if so.has o then .error .dupOneof
          else if sn.has fx.f.num then .error .dup else .value fx (sn.set fx.f.num) (so.set o)
        | none => if sn.has fx.f.num then .error .dup else .value fx (sn.set fx.f.num) so := by
  unfold tdHead
  rw [hr]
  rfl

theorem tdHead_unknown_ok (D : DOpts) (X : SchemaX) (d : MsgX) (limit : Int) (name : TName) (sep : Bool) (v : TV)
    (sn so : Ints) (s0 : Str) (hr : resolveText X d name = .unknown s0) :
    (∀ fx sn' so', tdHead D X d limit name sep v sn so ≠ .value fx sn' so') ∧
    (∀ sn', tdHead D X d limit name sep v sn so = .skip sn' → sn' = sn) := by
  unfold tdHead
  rw [hr]
  simp only
  by_cases h1 : (D.discard || d.reserved.contains s0) = true
  · simp only [h1, if_true]
    cases skipT limit v with
    | error e => simp
    | ok _ =>
      refine ⟨by simp, ?_⟩
      intro sn' h
      cases h; rfl
  · have h1' : ¬(D.discard = true ∨ s0 ∈ d.reserved) := by simpa using h1
    simp [h1']

def soAfter (fx : FieldX) (so : Ints) : Ints :=
  match fx.oneofIdx with
  | some o => so.set o
  | none => so

/-- a resolved field: the head never skips, and when it hands over the value the state is known -/
theorem tdHead_found_cases (D : DOpts) (X : SchemaX) (d : MsgX) (limit : Int) (name : TName) (sep : Bool) (v : TV)
    (sn so : Ints) (fx : FieldX) (hr : resolveText X d name = .found fx) :
    (∃ e, tdHead D X d limit name sep v sn so = .error e) ∨
    (isSingular fx = false ∧ tdHead D X d limit name sep v sn so = .value fx sn so) ∨
    (isSingular fx = true ∧ tdHead D X d limit name sep v sn so = .value fx (sn.set fx.f.num) (soAfter fx so)) := by
  rw [tdHead_found D X d limit name sep v sn so fx hr]
  cases hc : fx.f.card <;> simp only [isSingular, hc, soAfter]
  case repeated => split <;> simp
  case map => simp
  all_goals
    (split
     · simp
     · cases ho : fx.oneofIdx with
       | none => simp only; split <;> simp
       | some o =>
         simp only
         split
         · simp
         · split <;> simp)

/-- what one successful iteration does to `seenNums` (text) -/
theorem tdStep_sn (C : TCodec) (D : DOpts) (X : SchemaX) (mi : Nat) (limit : Int) (s s' : LoopSt) (a : TName × Bool × TV)
    (h : tdStep C D X mi limit s a = .ok s') (n : Nat) :
    s'.sn.has n = true ↔ s.sn.has n = true ∨ tNamed X (X.msg mi) a = some n := by
  unfold tdStep at h
  cases hr : resolveText X (X.msg mi) a.1 with
  | badNum => unfold tdHead at h; simp [hr] at h
  | badExt => unfold tdHead at h; simp [hr] at h
  | byNumber => unfold tdHead at h; simp [hr] at h
  | unknown s0 =>
    have hj : tNamed X (X.msg mi) a = none := by unfold tNamed; rw [hr]
    rw [hj]
    have ⟨h1, h2⟩ := tdHead_unknown_ok D X (X.msg mi) limit a.1 a.2.1 a.2.2 s.sn s.so s0 hr
    cases hh : tdHead D X (X.msg mi) limit a.1 a.2.1 a.2.2 s.sn s.so with
    | error e => simp [hh] at h
    | skip sn' => simp [hh] at h; subst h; simp [h2 sn' hh]
    | value fx sn' so' => exact absurd hh (h1 fx sn' so')
  | found fx =>
    have hj : tNamed X (X.msg mi) a = if isSingular fx then some fx.f.num else none := by unfold tNamed; rw [hr]
    rw [hj]
    rcases tdHead_found_cases D X (X.msg mi) limit a.1 a.2.1 a.2.2 s.sn s.so fx hr with ⟨e, he⟩ | ⟨hs, hv⟩ | ⟨hs, hv⟩
    · simp [he] at h
    · rw [hv] at h
      simp only at h
      cases hx : tdFieldVal C D X mi fx limit s.m a.2.2 with
      | error e => simp [hx] at h
      | ok m' => simp [hx] at h; subst h; simp [hs]
    · rw [hv] at h
      simp only at h
      cases hx : tdFieldVal C D X mi fx limit s.m a.2.2 with
      | error e => simp [hx] at h
      | ok m' =>
        simp [hx] at h; subst h
        simp only [hs, if_true, Ints.has_set_iff, Option.some.injEq]
        constructor
        · rintro (h | h)
          · exact .inr h.symm
          · exact .inl h
        · rintro (h | h)
          · exact .inr h
          · exact .inl h.symm

/-- what one successful iteration does to `seenOneofs` (text) -/
theorem tdStep_so (C : TCodec) (D : DOpts) (X : SchemaX) (mi : Nat) (limit : Int) (s s' : LoopSt) (a : TName × Bool × TV)
    (h : tdStep C D X mi limit s a = .ok s') (o : Nat) :
    s'.so.has o = true ↔ s.so.has o = true ∨ tSetsOneof X (X.msg mi) a = some o := by
  unfold tdStep at h
  cases hr : resolveText X (X.msg mi) a.1 with
  | badNum => unfold tdHead at h; simp [hr] at h
  | badExt => unfold tdHead at h; simp [hr] at h
  | byNumber => unfold tdHead at h; simp [hr] at h
  | unknown s0 =>
    have hj : tSetsOneof X (X.msg mi) a = none := by unfold tSetsOneof; rw [hr]
    rw [hj]
    have ⟨h1, h2⟩ := tdHead_unknown_ok D X (X.msg mi) limit a.1 a.2.1 a.2.2 s.sn s.so s0 hr
    cases hh : tdHead D X (X.msg mi) limit a.1 a.2.1 a.2.2 s.sn s.so with
    | error e => simp [hh] at h
    | skip sn' => simp [hh] at h; subst h; simp
    | value fx sn' so' => exact absurd hh (h1 fx sn' so')
  | found fx =>
    have hj : tSetsOneof X (X.msg mi) a = if isSingular fx then fx.oneofIdx else none := by unfold tSetsOneof; rw [hr]
    rw [hj]
    rcases tdHead_found_cases D X (X.msg mi) limit a.1 a.2.1 a.2.2 s.sn s.so fx hr with ⟨e, he⟩ | ⟨hs, hv⟩ | ⟨hs, hv⟩
    · simp [he] at h
    · rw [hv] at h
      simp only at h
      cases hx : tdFieldVal C D X mi fx limit s.m a.2.2 with
      | error e => simp [hx] at h
      | ok m' => simp [hx] at h; subst h; simp [hs]
    · rw [hv] at h
      simp only at h
      cases hx : tdFieldVal C D X mi fx limit s.m a.2.2 with
      | error e => simp [hx] at h
      | ok m' =>
        simp [hx] at h; subst h
        simp only [hs, if_true, soAfter]
        cases ho : fx.oneofIdx with
        | none => simp
        | some o' =>
          simp only [Ints.has_set_iff, Option.some.injEq]
          constructor
          · rintro (h | h)
            · exact .inr h.symm
            · exact .inl h
          · rintro (h | h)
            · exact .inr h
            · exact .inl h.symm

/-! ### the head on a resolved field, in normal form -/

/-- the separator rule of a non-message field is satisfied -/
def sepOK (fx : FieldX) (sep : Bool) : Bool := fx.f.kind.isMessage || sep

theorem tdHead_found_eq (D : DOpts) (X : SchemaX) (d : MsgX) (limit : Int) (name : TName) (sep : Bool) (v : TV)
    (sn so : Ints) (fx : FieldX) (hr : resolveText X d name = .found fx) :
    tdHead D X d limit name sep v sn so =
      if isSingular fx then
        if sepOK fx sep then
          match fx.oneofIdx with
          | some o =>
            if so.has o then .error .dupOneof
            else if sn.has fx.f.num then .error .dup else .value fx (sn.set fx.f.num) (so.set o)
          | none => if sn.has fx.f.num then .error .dup else .value fx (sn.set fx.f.num) so
        else .error .noSep
      else if fx.f.card = .repeated && !sepOK fx sep then .error .noSep else .value fx sn so := by
  rw [tdHead_found D X d limit name sep v sn so fx hr]
  cases hc : fx.f.card <;> cases hk : fx.f.kind.isMessage <;> cases sep <;>
    simp [isSingular, sepOK, hc, hk] <;> rfl

mutual
theorem skipT_err (limit : Int) : ∀ (v : TV) (e : Err), skipT limit v = .error e → e = .depth
  | .scalar _, _, h => by simp [skipT] at h
  | .msg fs, e, h => by
    rw [skipT] at h
    split at h
    · cases h; rfl
    · exact skipTFields_err _ fs e h
  | .list es, e, h => by
    rw [skipT] at h
    exact skipTElems_err _ es e h
theorem skipTFields_err (limit : Int) : ∀ (fs : TFields) (e : Err), skipTFields limit fs = .error e → e = .depth
  | .nil, _, h => by simp [skipTFields] at h
  | .cons _ _ v tl, e, h => by
    rw [skipTFields] at h
    cases hv : skipT limit v with
    | error e' => rw [hv] at h; cases h; exact skipT_err limit v e hv
    | ok _ => rw [hv] at h; exact skipTFields_err limit tl e h
theorem skipTElems_err (limit : Int) : ∀ (es : TElems) (e : Err), skipTElems limit es = .error e → e = .depth
  | .nil, _, h => by simp [skipTElems] at h
  | .cons (.scalar t) tl, e, h => by
    simp only [skipTElems] at h
    exact skipTElems_err limit tl e h
  | .cons (.list es) tl, e, h => by
    simp only [skipTElems] at h
    exact skipTElems_err limit tl e h
  | .cons (.msg fs) tl, e, h => by
    simp only [skipTElems] at h
    split at h
    · cases h; rfl
    · cases hv : skipTFields (limit - 1) fs with
      | error e' => rw [hv] at h; cases h; exact skipTFields_err _ fs e hv
      | ok _ => rw [hv] at h; exact skipTElems_err limit tl e h
end

/-- an unknown (or reserved) name fails only with "unknown field" or the depth error of the skipped value -/
theorem tdHead_unknown_err (D : DOpts) (X : SchemaX) (d : MsgX) (limit : Int) (name : TName) (sep : Bool) (v : TV)
    (sn so : Ints) (s0 : Str) (hr : resolveText X d name = .unknown s0) (e : Err)
    (h : tdHead D X d limit name sep v sn so = .error e) : e = .unknown ∨ e = .depth := by
  unfold tdHead at h
  rw [hr] at h
  simp only at h
  split at h
  · cases hs : skipT limit v with
    | error e' =>
      rw [hs] at h
      cases h
      exact .inr (skipT_err limit v e hs)
    | ok _ => rw [hs] at h; cases h
  · cases h; exact .inl rfl

theorem tdHead_dup (D : DOpts) (X : SchemaX) (d : MsgX) (limit : Int) (name : TName) (sep : Bool) (v : TV) (sn so : Ints) :
    tdHead D X d limit name sep v sn so = .error .dup ↔
      ∃ fx, resolveText X d name = .found fx ∧ isSingular fx = true ∧ sepOK fx sep = true ∧
        (∀ o, fx.oneofIdx = some o → so.has o = false) ∧ sn.has fx.f.num = true := by
  cases hr : resolveText X d name with
  | badNum => unfold tdHead; simp [hr]
  | badExt => unfold tdHead; simp [hr]
  | byNumber => unfold tdHead; simp [hr]
  | unknown s0 =>
    constructor
    · intro h
      rcases tdHead_unknown_err D X d limit name sep v sn so s0 hr .dup h with h | h <;> cases h
    · rintro ⟨fx, h, _⟩; cases h
  | found fx =>
    rw [tdHead_found_eq D X d limit name sep v sn so fx hr]
    simp only [TRes.found.injEq, exists_eq_left']
    cases hs : isSingular fx
    · simp only [Bool.false_eq_true, if_false, false_and, iff_false]
      split <;> simp
    · cases hp : sepOK fx sep
      · simp
      · cases ho : fx.oneofIdx with
        | none => simp
        | some o => cases hso : so.has o <;> simp [hso]

theorem tdHead_dupOneof (D : DOpts) (X : SchemaX) (d : MsgX) (limit : Int) (name : TName) (sep : Bool) (v : TV) (sn so : Ints) :
    tdHead D X d limit name sep v sn so = .error .dupOneof ↔
      ∃ fx o, resolveText X d name = .found fx ∧ isSingular fx = true ∧ sepOK fx sep = true ∧
        fx.oneofIdx = some o ∧ so.has o = true := by
  cases hr : resolveText X d name with
  | badNum => unfold tdHead; simp [hr]
  | badExt => unfold tdHead; simp [hr]
  | byNumber => unfold tdHead; simp [hr]
  | unknown s0 =>
    constructor
    · intro h
      rcases tdHead_unknown_err D X d limit name sep v sn so s0 hr .dupOneof h with h | h <;> cases h
    · rintro ⟨fx, o, h, _⟩; cases h
  | found fx =>
    rw [tdHead_found_eq D X d limit name sep v sn so fx hr]
    have hx : (∃ fx' o, TRes.found fx = TRes.found fx' ∧ isSingular fx' = true ∧ sepOK fx' sep = true ∧
          fx'.oneofIdx = some o ∧ so.has o = true) ↔
        (isSingular fx = true ∧ sepOK fx sep = true ∧ ∃ o, fx.oneofIdx = some o ∧ so.has o = true) := by
      constructor
      · rintro ⟨fx', o, h, h1, h2, h3, h4⟩; cases h; exact ⟨h1, h2, o, h3, h4⟩
      · rintro ⟨h1, h2, o, h3, h4⟩; exact ⟨fx, o, rfl, h1, h2, h3, h4⟩
    rw [hx]
    cases hs : isSingular fx
    · simp only [Bool.false_eq_true, if_false, false_and, iff_false]
      split <;> simp
    · cases hp : sepOK fx sep
      · simp
      · cases ho : fx.oneofIdx with
        | none => simp only [if_true, true_and]; split <;> simp
        | some o =>
          cases hso : so.has o
          · simp [hso]; split <;> simp
          · simp [hso]

/-- a non-repeated field named again, or a second member of a oneof, makes the head fail -/
theorem tdHead_singular_seen (D : DOpts) (X : SchemaX) (d : MsgX) (limit : Int) (name : TName) (sep : Bool) (v : TV)
    (sn so : Ints) (fx : FieldX) (hr : resolveText X d name = .found fx) (hs : isSingular fx = true)
    (h : sn.has fx.f.num = true ∨ ∃ o, fx.oneofIdx = some o ∧ so.has o = true) :
    ∃ e, tdHead D X d limit name sep v sn so = .error e := by
  rw [tdHead_found_eq D X d limit name sep v sn so fx hr]
  simp only [hs, if_true]
  cases hp : sepOK fx sep
  · exact ⟨_, rfl⟩
  · simp only [if_true]
    cases ho : fx.oneofIdx with
    | none =>
      rcases h with h | ⟨o, h, _⟩
      · simp [h]
      · rw [ho] at h; cases h
    | some o =>
      simp only
      cases hso : so.has o
      · rcases h with h | ⟨o', h, h2⟩
        · simp [h]
        · rw [ho] at h; cases h; rw [hso] at h2; cases h2
      · simp

theorem tdFields_cons (C : TCodec) (D : DOpts) (X : SchemaX) (mi : Nat) (limit : Int) (name : TName) (sep : Bool) (v : TV)
    (tl : TFields) (sn so : Ints) (m : Msg) :
    tdFields C D X mi limit (.cons name sep v tl) sn so m =
      match tdHead D X (X.msg mi) limit name sep v sn so with
      | .error e => .error e
      | .skip sn' => tdFields C D X mi limit tl sn' so m
      | .value fx sn' so' =>
        match tdFieldVal C D X mi fx limit m v with
        | .error e => .error e
        | .ok m' => tdFields C D X mi limit tl sn' so' m' := by
  rw [tdFields]
  rfl

/-- a head that hands over the value belongs to a resolved field -/
theorem tdHead_value_found (D : DOpts) (X : SchemaX) (d : MsgX) (limit : Int) (name : TName) (sep : Bool) (v : TV)
    (sn so sn' so' : Ints) (fx : FieldX) (h : tdHead D X d limit name sep v sn so = .value fx sn' so') :
    resolveText X d name = .found fx := by
  cases hr : resolveText X d name with
  | badNum => unfold tdHead at h; simp [hr] at h
  | badExt => unfold tdHead at h; simp [hr] at h
  | byNumber => unfold tdHead at h; simp [hr] at h
  | unknown s0 => exact absurd h ((tdHead_unknown_ok D X d limit name sep v sn so s0 hr).1 fx sn' so')
  | found gx =>
    rcases tdHead_found_cases D X d limit name sep v sn so gx hr with ⟨e, he⟩ | ⟨_, hv⟩ | ⟨_, hv⟩
    · rw [he] at h; cases h
    · rw [hv] at h; cases h; rfl
    · rw [hv] at h; cases h; rfl

/-- a skipping head belongs to an unknown or reserved name, and the skipped value passed `skipValue` -/
theorem tdHead_skip_cases (D : DOpts) (X : SchemaX) (d : MsgX) (limit : Int) (name : TName) (sep : Bool) (v : TV)
    (sn so sn' : Ints) (h : tdHead D X d limit name sep v sn so = .skip sn') :
    ∃ s0, resolveText X d name = .unknown s0 ∧ sn' = sn ∧ skipT limit v = .ok () := by
  cases hr : resolveText X d name with
  | badNum => unfold tdHead at h; simp [hr] at h
  | badExt => unfold tdHead at h; simp [hr] at h
  | byNumber => unfold tdHead at h; simp [hr] at h
  | found gx =>
    rcases tdHead_found_cases D X d limit name sep v sn so gx hr with ⟨e, he⟩ | ⟨_, hv⟩ | ⟨_, hv⟩
    · rw [he] at h; cases h
    · rw [hv] at h; cases h
    · rw [hv] at h; cases h
  | unknown s0 =>
    refine ⟨s0, rfl, (tdHead_unknown_ok D X d limit name sep v sn so s0 hr).2 sn' h, ?_⟩
    unfold tdHead at h
    rw [hr] at h
    simp only at h
    split at h
    · cases hs : skipT limit v with
      | error e => rw [hs] at h; cases h
      | ok u => rfl
    · cases h
end JT
