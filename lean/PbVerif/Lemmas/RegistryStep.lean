import PbVerif.Lemmas.RegistryFind
import PbVerif.Lemmas.RegistryTypes
/-
C33 helper lemmas, part 5: every call of the `Files` API is a refinement step; histories.
-/
namespace Model.Registry

theorem findPath_refines {r : Files} {a : List FileD} (inv : FInv r a) (p : String) :
    r.findPath p = Spec.findPath a p := by
  unfold Files.findPath Spec.findPath
  rw [inv.byPath, alLookup_map (fun f : FileD => f.path) (fun f => [f])]
  cases a.find? (fun f => f.path = p) <;> rfl

theorem rangeFiles_refines {r : Files} {a : List FileD} (inv : FInv r a) : r.rangeFiles = a := by
  unfold Files.rangeFiles
  rw [inv.byPath, List.flatMap_map]
  simp

theorem rangeByPkg_refines {r : Files} {a : List FileD} (inv : FInv r a) (v : Spec.Valid a) (n : FullName) :
    r.rangeByPkg n = a.filter (fun f => f.pkg = n) := by
  unfold Files.rangeByPkg
  rcases inv.descs with ⟨e1, e2⟩ | hD
  · rw [e1, e2]; rfl
  · rw [hD]
    by_cases hn : n ∈ Spec.declNames a
    · -- a declaration name is not a package
      have hfil : a.filter (fun f => f.pkg = n) = [] := by
        rw [List.filter_eq_nil_iff]
        intro g hg hk
        simp only [decide_eq_true_eq] at hk
        exact v.disj n hn (Spec.mem_pkgNames.mpr ⟨g, hg, Spec.declNames_ne_nil hn, by rw [hk]; exact List.prefix_refl _⟩)
      rw [hfil]
      have := (Spec.entry_decl_iff a n).mpr hn
      cases he : Spec.entry a n with
      | none => rfl
      | some e =>
        rw [he] at this
        cases e <;> first | rfl | (simp [Entry.isDecl] at this)
    · rw [Spec.entry_of_not_decl hn]
      by_cases c : n = [] ∨ n ∈ Spec.pkgNames a
      · rw [if_pos c]
      · rw [if_neg c, filter_pkg_eq_nil c]

/-- every `Files` call answers as the abstract name table does, and keeps the invariants -/
theorem filesStep_refines {r : Files} {a : List FileD} (inv : FInv r a) (v : Spec.Valid a) (op : FOp)
    (wf : ∀ f, op = .register f → f.wf = true) :
    (r.step op).2 = (Spec.step a op).2 ∧ FInv (r.step op).1 (Spec.step a op).1 ∧
      Spec.Valid (Spec.step a op).1 := by
  cases op with
  | register f =>
    have hwf := wf f rfl
    obtain ⟨h1, h2⟩ := register_refines f inv hwf
    refine ⟨h1, h2, ?_⟩
    simp only [Spec.step]
    rcases Spec.register_cases a f with ⟨e1, e2⟩ | ⟨e1, _⟩
    · rw [e1]; exact Spec.valid_register v hwf ((Spec.register_ok_iff a f).mp e2)
    · rw [e1]; exact v
  | find n => simp only [Files.step, Spec.step, find_refines inv v n]; exact ⟨trivial, inv, v⟩
  | findPath p => simp only [Files.step, Spec.step, findPath_refines inv p]; exact ⟨trivial, inv, v⟩
  | numFiles => simp only [Files.step, Spec.step, inv.num]; exact ⟨trivial, inv, v⟩
  | rangeFiles => simp only [Files.step, Spec.step, rangeFiles_refines inv]; exact ⟨trivial, inv, v⟩
  | numByPkg n =>
    simp only [Files.step, Spec.step, Files.numByPkg, rangeByPkg_refines inv v n]; exact ⟨trivial, inv, v⟩
  | rangeByPkg n => simp only [Files.step, Spec.step, rangeByPkg_refines inv v n]; exact ⟨trivial, inv, v⟩

theorem filesRun_refines (ops : List FOp) : ∀ {r : Files} {a : List FileD}, FInv r a → Spec.Valid a →
    (∀ f, FOp.register f ∈ ops → f.wf = true) →
    (Files.run r ops).2 = (Spec.run a ops).2 ∧ FInv (Files.run r ops).1 (Spec.run a ops).1 ∧
      Spec.Valid (Spec.run a ops).1 := by
  induction ops with
  | nil => intro r a inv v _; exact ⟨rfl, inv, v⟩
  | cons op ops ih =>
    intro r a inv v wf
    obtain ⟨h1, h2, h3⟩ := filesStep_refines inv v op (fun f e => wf f (e ▸ List.mem_cons_self))
    obtain ⟨g1, g2, g3⟩ := ih h2 h3 (fun f hf => wf f (List.mem_cons_of_mem _ hf))
    simp only [Files.run, Spec.run]
    exact ⟨by rw [h1, g1], g2, g3⟩

theorem typesRun_refines (ops : List TOp) : ∀ {r : Types} {a : List TypeD}, TInv r a →
    (Types.run r ops).2 = (Spec.runT a ops).2 ∧ TInv (Types.run r ops).1 (Spec.runT a ops).1 := by
  induction ops with
  | nil => intro r a inv; exact ⟨rfl, inv⟩
  | cons op ops ih =>
    intro r a inv
    obtain ⟨h1, h2⟩ := typesStep_refines inv op
    obtain ⟨g1, g2⟩ := ih h2
    simp only [Types.run, Spec.runT]
    exact ⟨by rw [h1, g1], g2⟩

/-! ## facts used by the statements of Props/C33 -/

theorem register_ok_or_init (r : Files) (f : FileD) :
    (r.register f).2 = .regOk ∨ (r.register f).1 = { r with descs := initDescs r.descs } := by
  unfold Files.register
  simp only
  split
  · exact Or.inr rfl
  split
  · exact Or.inr rfl
  split
  · exact Or.inr rfl
  split
  · exact Or.inl rfl
  · exact Or.inr rfl

theorem register_fail_state (r : Files) (f : FileD) (h : (r.register f).2 ≠ .regOk) :
    (r.register f).1 = { r with descs := initDescs r.descs } :=
  (register_ok_or_init r f).resolve_left h

/-- consistency of the abstract type table: names are unique, and so are the numbers of the
extensions of each message -/
def TValid (a : List TypeD) : Prop :=
  (a.map (·.full)).Nodup ∧ ∀ m, ((Spec.extsOf a m).map (·.number)).Nodup

theorem tvalid_registerT (a : List TypeD) (t : TypeD) (v : TValid a) : TValid (Spec.registerT a t).1 := by
  unfold Spec.registerT
  split
  · exact v
  split
  · exact v
  · rename_i c1 c2
    refine ⟨?_, ?_⟩
    · simp only [List.map_append, List.map_cons, List.map_nil]
      rw [List.nodup_append]
      refine ⟨v.1, by simp, ?_⟩
      intro x hx y hy e
      simp at hy; subst hy; subst e; exact c2 hx
    · intro m
      by_cases hm : t.kind = .extension ∧ t.extendee = m
      · obtain ⟨hk, rfl⟩ := hm
        rw [extsOf_append_self a t hk]
        simp only [List.map_append, List.map_cons, List.map_nil]
        rw [List.nodup_append]
        refine ⟨v.2 _, by simp, ?_⟩
        intro x hx y hy e
        simp at hy; subst hy; subst e; exact c1 ⟨hk, hx⟩
      · rw [extsOf_append_other a t m hm]; exact v.2 m

end Model.Registry
