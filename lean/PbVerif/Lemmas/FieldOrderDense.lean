import PbVerif.Lemmas.FieldOrder
/-
The dense lookup table `mi.denseCoderFields`: built from the number-sorted coder table before the re-sort.
-/
namespace Pb.FieldOrder

/-- strictly ascending field numbers -/
def Asc (p : List CF) : Prop := p.Pairwise (fun a b => a.num < b.num)

theorem le_maxDenseLoop (A B : Nat) : ∀ (p : List CF) (m : Nat), Asc p → (∀ cf ∈ p, m ≤ cf.num) → m ≤ maxDenseLoop A B p m
  | [], m, _, _ => Nat.le_refl _
  | cf :: tl, m, ha, hm => by
    unfold maxDenseLoop; split
    · exact Nat.le_refl _
    · have h := List.pairwise_cons.mp ha
      have := le_maxDenseLoop A B tl cf.num h.2 (fun x hx => Nat.le_of_lt (h.1 x hx))
      have := hm cf (by simp)
      omega

theorem lookup_none_of_lt {p : List CF} {n : Nat} (h : ∀ cf ∈ p, n < cf.num) : lookup p n = none := by
  unfold lookup
  rw [List.find?_eq_none]
  intro cf hcf
  have := h cf hcf
  simp; omega

/-- the fill loop never indexes out of range, stops at the same place for `>` and `>=`, and afterwards the
table holds, at every index, the field with that number if there is one -/
theorem fillLoop_spec (strict : Bool) : ∀ (p : List CF) (m : Nat) (t : List (Option CF)), Asc p → (∀ cf ∈ p, m ≤ cf.num) →
    t.length = maxDenseLoop 16 2 p m + 1 →
    ∃ t', fillLoop strict p t = some t' ∧ t'.length = t.length ∧
      ∀ n, n < t.length → t'.getD n none = (lookup p n).or (t.getD n none)
  | [], m, t, _, _, _ => ⟨t, rfl, rfl, by intro n _; simp [lookup]⟩
  | cf :: tl, m, t, ha, hm, hl => by
    have hp := List.pairwise_cons.mp ha
    unfold maxDenseLoop at hl
    by_cases hb : cf.num ≥ 16 ∧ cf.num ≥ 2 * m
    · -- the maxDense loop broke here: the table has m+1 entries and this field lies beyond it, for either guard
      rw [if_pos hb] at hl
      have hgt : cf.num > t.length := by omega
      refine ⟨t, ?_, rfl, ?_⟩
      · unfold fillLoop; cases strict <;> simp <;> omega
      · intro n hn
        have : lookup (cf :: tl) n = none := by
          apply lookup_none_of_lt
          intro x hx
          rcases List.mem_cons.mp hx with rfl | hx
          · omega
          · have := hp.1 x hx; omega
        simp [this]
    · rw [if_neg hb] at hl
      have hge := le_maxDenseLoop 16 2 tl cf.num hp.2 (fun x hx => Nat.le_of_lt (hp.1 x hx))
      have hlt : cf.num < t.length := by omega
      have hl' : (t.set cf.num (some cf)).length = maxDenseLoop 16 2 tl cf.num + 1 := by simpa using hl
      obtain ⟨t', h1, h2, h3⟩ := fillLoop_spec strict tl cf.num (t.set cf.num (some cf)) hp.2
        (fun x hx => Nat.le_of_lt (hp.1 x hx)) hl'
      refine ⟨t', ?_, by simpa using h2, ?_⟩
      · unfold fillLoop
        have hg : (if strict = true then decide (cf.num > t.length) else decide (cf.num ≥ t.length)) = false := by
          cases strict <;> simp <;> omega
        simp [hg, hlt, h1]
      · intro n hn
        have h3' := h3 n (by simpa using hn)
        rw [h3']
        by_cases hn' : n = cf.num
        · subst hn'
          have : lookup tl cf.num = none := lookup_none_of_lt (fun x hx => hp.1 x hx)
          have this' : List.find? (fun x => x.num == cf.num) tl = none := this
          simp [lookup, hlt, this']
        · have hne : ¬ (cf.num = n) := fun e => hn' e.symm
          simp [lookup, hne]


theorem eq_of_num_eq : ∀ (l : List CF), (l.map (·.num)).Nodup → ∀ x ∈ l, ∀ y ∈ l, x.num = y.num → x = y
  | [], _, x, hx, _, _, _ => by simp at hx
  | a :: tl, hn, x, hx, y, hy, e => by
    have hn' : a.num ∉ tl.map (·.num) ∧ (tl.map (·.num)).Nodup := List.nodup_cons.mp hn
    rcases List.mem_cons.mp hx with hxa | hx' <;> rcases List.mem_cons.mp hy with hya | hy'
    · rw [hxa, hya]
    · subst hxa
      exact absurd (e ▸ List.mem_map_of_mem (f := fun c : CF => c.num) hy') hn'.1
    · subst hya
      exact absurd (e ▸ List.mem_map_of_mem (f := fun c : CF => c.num) hx') hn'.1
    · exact eq_of_num_eq tl hn'.2 x hx' y hy' e

/-- with distinct numbers the lookup by number does not depend on the order of the table -/
theorem lookup_perm {l₁ l₂ : List CF} (hp : l₁.Perm l₂) (hn : (l₁.map (·.num)).Nodup) (n : Nat) :
    lookup l₁ n = lookup l₂ n := by
  cases h2 : lookup l₂ n with
  | none =>
    unfold lookup at h2 ⊢
    rw [List.find?_eq_none] at h2 ⊢
    exact fun x hx => h2 x (hp.subset hx)
  | some y =>
    have hy : y ∈ l₂ := List.mem_of_find?_eq_some h2
    have hyn : y.num = n := by simpa using List.find?_some h2
    cases h1 : lookup l₁ n with
    | none =>
      unfold lookup at h1
      rw [List.find?_eq_none] at h1
      exact absurd (by simpa using hyn) (h1 y (hp.symm.subset hy))
    | some x =>
      have hx : x ∈ l₁ := List.mem_of_find?_eq_some h1
      have hxn : x.num = n := by simpa using List.find?_some h1
      rw [eq_of_num_eq l₁ hn x hx y (hp.symm.subset hy) (hxn.trans hyn.symm)]

theorem asc_of_sorted_nodup {p : List CF} (hs : p.Pairwise (fun a b => notAfter numLt a b = true))
    (hn : (p.map (·.num)).Nodup) : Asc p := by
  have hne : p.Pairwise (fun a b => a.num ≠ b.num) := by
    have := List.nodup_iff_pairwise_ne.mp hn
    rwa [List.pairwise_map] at this
  refine (hs.and hne).imp ?_
  intro a b h
  have h1 : ¬ (b.num < a.num) := by
    have := h.1; simp only [notAfter, numLt, Bool.not_eq_true'] at this
    rw [Bool.eq_false_iff] at this; simpa using this
  have := h.2
  omega

end Pb.FieldOrder
