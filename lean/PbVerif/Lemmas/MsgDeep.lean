import PbVerif.Lemmas.MsgRound
import PbVerif.Lemmas.MsgGroup
/-
Exceeding RecursionLimit: decoding the encoding of a well-formed message that nests deeper than the
limit allows fails with errRecursionDepth (the converse of the round trip's depth hypothesis).
-/
namespace Pb
open Spec

/-! ### exceeding the recursion limit -/

theorem decField_singular_msg_err {S : Schema} {mi : Nat} {m : Msg} {f : Field} {wt : Nat} {val p : List Byte}
    {depth : Int} {dis : Bool} (fuel : Nat)
    (hc1 : f.card ≠ .repeated) (hc2 : f.card ≠ .map) (hmsg : f.kind.isMessage = true)
    (hs : decSubBytes f wt val = some (.ok p))
    (hfree : ∀ o, f.oneof = some o → oneofFree (S.msg mi) o m.fields = true)
    (hget : m.fields.get? f.num = none)
    (hd : depth - 1 < 0 ∨ decMsg fuel S f.sub Msg.empty p (depth - 1) dis = .error .depth) :
    decField (fuel + 1) S mi m f wt val depth dis = .err .depth := by
  unfold decField
  cases hc : f.card <;> simp only [hc] at hc1 hc2 ⊢ <;> first
    | contradiction
    | (simp only [hmsg, hs, if_true]
       cases ho : f.oneof with
       | none =>
         simp only [hget]
         rcases hd with hd | hd
         · simp only [hd, if_true]
         · by_cases hd0 : depth - 1 < 0
           · simp only [hd0, if_true]
           · simp only [hd0, if_false, hd]
       | some o =>
         simp only [clearOneof_of_free _ _ _ (hfree o ho), hget]
         rcases hd with hd | hd
         · simp only [hd, if_true]
         · by_cases hd0 : depth - 1 < 0
           · simp only [hd0, if_true]
           · simp only [hd0, if_false, hd])

theorem decField_repeated_msg_err {S : Schema} {mi : Nat} {m : Msg} {f : Field} {wt : Nat} {val p : List Byte}
    {depth : Int} {dis : Bool} (fuel : Nat)
    (hc : f.card = .repeated) (hmsg : f.kind.isMessage = true)
    (hs : decSubBytes f wt val = some (.ok p))
    (hd : depth - 1 < 0 ∨ decMsg fuel S f.sub Msg.empty p (depth - 1) dis = .error .depth) :
    decField (fuel + 1) S mi m f wt val depth dis = .err .depth := by
  unfold decField
  simp only [hc, hmsg, if_true, hs]
  rcases hd with hd | hd
  · simp only [hd, if_true]
  · by_cases hd0 : depth - 1 < 0
    · simp only [hd0, if_true]
    · simp only [hd0, if_false, hd]

theorem decField_map_err {S : Schema} {mi : Nat} {m : Msg} {f kf vf : Field} {val body : List Byte}
    {depth : Int} {dis : Bool} {n : Nat} (fuel : Nat)
    (hc : f.card = .map) (hb : decBytes val = .ok (body, n))
    (hk : (S.msg f.sub).find 1 = some kf) (hv : (S.msg f.sub).find 2 = some vf)
    (he : depth - 1 < 0 ∨
      decEntry fuel S kf vf none (if vf.kind.isMessage then some (.msg Msg.empty) else none) body
        (depth - 1) dis = .error .depth) :
    decField (fuel + 1) S mi m f 2 val depth dis = .err .depth := by
  unfold decField
  simp only [hc]
  rcases he with he | he
  · simp only [he, if_true]
  · by_cases hd0 : depth - 1 < 0
    · simp only [hd0, if_true]
    · simp only [hd0, if_false, ne_eq, not_true_eq_false, hb, hk, hv, he]

/-- the value record of a map entry whose message value nests too deep -/
theorem EntOK_val_msg_err {S : Schema} {kf vf : Field} {depth : Int} {dis : Bool} {k : Option Val}
    {wt : Nat} {payload body rest : List Byte}
    (hwt : wt < 8) (hm : vf.kind.isMessage = true)
    (hsub : decSubBytes vf wt (payload ++ rest) = some (.ok body))
    (hdec : depth - 1 < 0 ∨ DecTo S vf.sub (depth - 1) dis Msg.empty body (.error .depth))
    (hlen : body.length + 1 ≤ payload.length) :
    EntOK S kf vf depth dis k (some (.msg Msg.empty)) (tagBytes 2 wt ++ (payload ++ rest)) (.error .depth) := by
  intro fuel hf
  cases fuel with
  | zero => omega
  | succ fu =>
    have htag := decTag_enc (num := 2) (typ := wt) (by omega) (by omega) hwt (payload ++ rest)
    have hpos := tagBytes_pos 2 wt
    simp only [List.length_append] at hf
    conv => lhs; unfold decEntry
    split
    · rename_i heq; exact absurd heq (tagBytes_ne_nil _ _ _)
    · unfold tagBytes
      rw [htag]
      have : ¬ 2 > maxValidNumber := by unfold maxValidNumber; omega
      have h21 : ¬ (2 = 1) := by omega
      simp only [this, if_false, h21, if_true, hm, List.drop_left, hsub]
      rcases hdec with hd | hd
      · simp only [hd, if_true]
      · by_cases hd0 : depth - 1 < 0
        · simp only [hd0, if_true]
        · simp only [hd0, if_false, hd fu (by omega)]

/-- shape of the record of a sub-message value (no depth information) -/
theorem val_msg_shape {S : Schema} (hG : GroupScanOK S) {mi : Nat} {f : Field} {g : Int}
    {sub : Msg} (hfind : (S.msg mi).find f.num = some f) (h1 : 1 ≤ f.num) (h2 : f.num ≤ maxValidNumber)
    (hg : g ≤ defaultRecursionLimit) (hwf : cwfVal S g f (.msg sub) = true) :
    ∃ (wt : Nat) (payload : List Byte) (g' : Int), wt < 8 ∧ f.kind.isMessage = true ∧ g' ≤ defaultRecursionLimit ∧
      cwfMsg S f.sub g' sub = true ∧
      encVal S f (.msg sub) = tagBytes f.num wt ++ payload ∧
      (∀ rest, decSubBytes f wt (payload ++ rest) = some (.ok (encMsg S f.sub sub))) ∧
      (∀ rest, consumeFieldValue f.num wt (payload ++ rest) = .ok payload.length) ∧
      (encMsg S f.sub sub).length + 1 ≤ payload.length := by
  have hwf' := hwf
  simp only [cwfVal, Bool.and_eq_true] at hwf
  obtain ⟨hmsg, hwf2⟩ := hwf
  by_cases hgrp : f.kind = .group
  · simp only [hgrp, if_true, Bool.and_eq_true, decide_eq_true_eq] at hwf2
    refine ⟨3, encMsg S f.sub sub ++ tagBytes f.num 4, g - 1, by omega, hmsg, by omega, hwf2.2, ?_, ?_, ?_, ?_⟩
    · simp only [encVal, hgrp, if_true, List.append_assoc]
    · intro rest; exact (hG mi f g sub rest hfind hgrp hg h1 h2 hwf').1
    · intro rest; exact (hG mi f g sub rest hfind hgrp hg h1 h2 hwf').2
    · have := tagBytes_pos f.num 4; simp only [List.length_append]; omega
  · simp only [hgrp, if_false, Bool.and_eq_true, decide_eq_true_eq] at hwf2
    have hlen : (encMsg S f.sub sub).length < 2 ^ 64 := by rw [← C04.size_eq_length]; exact hwf2.2
    refine ⟨2, encVarint (encMsg S f.sub sub).length ++ encMsg S f.sub sub, defaultRecursionLimit, by omega, hmsg,
      Int.le_refl _, hwf2.1, ?_, ?_, ?_, ?_⟩
    · simp only [encVal, hgrp, if_false, List.append_assoc]
    · intro rest; rw [List.append_assoc]; exact decSubBytes_message hgrp hlen rest
    · intro rest
      rw [List.append_assoc, consumeFieldValue_bytes, decBytes_enc' hlen]; simp [Except.map]
    · have := encVarint_length_pos (encMsg S f.sub sub).length; simp only [List.length_append]; omega

/-- decoding the encoding of a well-formed message that nests deeper than the limit allows fails
with `errRecursionDepth` -/
def DeepMsg (S : Schema) (m : Msg) : Prop :=
  ∀ (mi : Nat) (g depth : Int) (dis : Bool), g ≤ defaultRecursionLimit → cwfMsg S mi g m = true → 0 ≤ depth →
    (depthMsg m : Int) > depth + 1 →
    DecTo S mi depth dis Msg.empty (encMsg S mi m) (.error .depth)

/-- the record of a too-deep sub-message value: the nested decode is refused or fails -/
theorem val_msg_deep {S : Schema} {mi : Nat} {f : Field} {g depth : Int} {dis : Bool}
    {sub : Msg} (hfind : (S.msg mi).find f.num = some f) (h1 : 1 ≤ f.num) (h2 : f.num ≤ maxValidNumber)
    (hg : g ≤ defaultRecursionLimit) (hwf : cwfVal S g f (.msg sub) = true) (ih : DeepMsg S sub)
    (hdeep : (depthMsg sub : Int) > depth) :
    ∃ (wt : Nat) (payload body : List Byte), wt < 8 ∧ f.kind.isMessage = true ∧
      encVal S f (.msg sub) = tagBytes f.num wt ++ payload ∧
      (∀ rest, decSubBytes f wt (payload ++ rest) = some (.ok body)) ∧
      (depth - 1 < 0 ∨ DecTo S f.sub (depth - 1) dis Msg.empty body (.error .depth)) ∧
      body.length + 1 ≤ payload.length := by
  obtain ⟨wt, payload, g', hwt, hmsg, hg', hsubwf, henc, hsub, _, hlen⟩ :=
    val_msg_shape (groupScanOK S) hfind h1 h2 hg hwf
  refine ⟨wt, payload, _, hwt, hmsg, henc, hsub, ?_, hlen⟩
  by_cases hd : depth - 1 < 0
  · exact Or.inl hd
  · exact Or.inr (ih f.sub g' (depth - 1) dis hg' hsubwf (by omega) (by omega))

theorem one_err {S : Schema} {mi : Nat} {f : Field} {g depth : Int} {dis : Bool} {v : Val}
    (hfind : (S.msg mi).find f.num = some f) (h1 : 1 ≤ f.num) (h2 : f.num ≤ maxValidNumber)
    (hg : g ≤ defaultRecursionLimit)
    (hc1 : f.card ≠ .repeated) (hc2 : f.card ≠ .map) (hwf : cwfVal S g f v = true)
    {acc : Fields} {u rest : List Byte}
    (hacc : acc.allLt f.num) (hfree : ∀ o, f.oneof = some o → oneofFree (S.msg mi) o acc = true)
    (hd0 : 0 ≤ depth) (hdeep : (depthVal v : Int) > depth)
    (IH : ∀ sub, v = .msg sub → DeepMsg S sub) :
    DecTo S mi depth dis (.mk acc u) (encVal S f v ++ rest) (.error .depth) := by
  cases v with
  | num n => simp [depthVal] at hdeep; omega
  | bytes b => simp [depthVal] at hdeep; omega
  | msg sub =>
    simp only [depthVal] at hdeep
    obtain ⟨wt, payload, body, hwt, hmsg, henc, hsub, hdec, hlen⟩ :=
      val_msg_deep (dis := dis) hfind h1 h2 hg hwf (IH sub rfl) hdeep
    rw [henc, List.append_assoc]
    refine DecTo_known_err h1 h2 hwt hfind ?_
    intro fuel hf
    cases fuel with
    | zero => omega
    | succ fu =>
      have htag := tagBytes_pos f.num wt
      simp only [List.length_append] at hf
      refine decField_singular_msg_err (m := .mk acc u) (mi := mi) fu hc1 hc2 hmsg (hsub rest) hfree
        (Fields.get?_of_allLt hacc) ?_
      rcases hdec with hd | hd
      · exact Or.inl hd
      · exact Or.inr (hd fu (by omega))

theorem elem_err {S : Schema} {mi : Nat} {f : Field} {g depth : Int} {dis : Bool} {v : Val}
    (hfind : (S.msg mi).find f.num = some f) (h1 : 1 ≤ f.num) (h2 : f.num ≤ maxValidNumber)
    (hg : g ≤ defaultRecursionLimit) (hc : f.card = .repeated) (hwf : cwfVal S g f v = true)
    {fs : Fields} {u rest : List Byte}
    (hd0 : 0 ≤ depth) (hdeep : (depthVal v : Int) > depth)
    (IH : ∀ sub, v = .msg sub → DeepMsg S sub) :
    DecTo S mi depth dis (.mk fs u) (encVal S f v ++ rest) (.error .depth) := by
  cases v with
  | num n => simp [depthVal] at hdeep; omega
  | bytes b => simp [depthVal] at hdeep; omega
  | msg sub =>
    simp only [depthVal] at hdeep
    obtain ⟨wt, payload, body, hwt, hmsg, henc, hsub, hdec, hlen⟩ :=
      val_msg_deep (dis := dis) hfind h1 h2 hg hwf (IH sub rfl) hdeep
    rw [henc, List.append_assoc]
    refine DecTo_known_err h1 h2 hwt hfind ?_
    intro fuel hf
    cases fuel with
    | zero => omega
    | succ fu =>
      have htag := tagBytes_pos f.num wt
      simp only [List.length_append] at hf
      refine decField_repeated_msg_err fu hc hmsg (hsub rest) ?_
      rcases hdec with hd | hd
      · exact Or.inl hd
      · exact Or.inr (hd fu (by omega))

theorem vals_err {S : Schema} {mi : Nat} {f : Field} {g depth : Int} {dis : Bool}
    (hfind : (S.msg mi).find f.num = some f) (h1 : 1 ≤ f.num) (h2 : f.num ≤ maxValidNumber)
    (hg : g ≤ defaultRecursionLimit) (hc : f.card = .repeated)
    {acc : Fields} {u rest : List Byte} (hacc : acc.allLt f.num) (hd0 : 0 ≤ depth) :
    ∀ (vs pre : Vals), cwfVals S g f vs = true → (depthVals vs : Int) > depth →
      (∀ sub, sizeOf sub < sizeOf vs → DeepMsg S sub) →
      DecTo S mi depth dis (.mk (accWith acc f.num pre) u) (encVals S f vs ++ rest) (.error .depth)
  | .nil, pre, _, hd, _ => by simp [depthVals] at hd; omega
  | .cons v tl, pre, hwf, hd, IH => by
    simp only [cwfVals, Bool.and_eq_true] at hwf
    simp only [depthVals] at hd
    simp only [encVals, List.append_assoc]
    by_cases hv : (depthVal v : Int) > depth
    · apply elem_err hfind h1 h2 hg hc hwf.1 hd0 hv
      intro sub hs; subst hs; apply IH; simp; omega
    · apply elem_ok (groupScanOK S) hfind h1 h2 hg hc hwf.1 pre hacc (by omega)
      · intro sub _; exact roundMsg (groupScanOK S) sub
      · apply vals_err hfind h1 h2 hg hc hacc hd0 tl _ hwf.2 (by omega)
        intro sub hs; apply IH; simp; omega

theorem wfScalar_depth {f : Field} {v : Val} (h : wfScalar f v = true) : depthVal v = 0 := by
  cases v <;> simp [wfScalar, depthVal] at h ⊢

theorem entry_err {S : Schema} {mi : Nat} {f kf vf : Field} {depth : Int} {dis : Bool}
    (hfind : (S.msg mi).find f.num = some f) (h1 : 1 ≤ f.num) (h2 : f.num ≤ maxValidNumber)
    (hc : f.card = .map) (hkg : f.kind ≠ .group)
    (hk : (S.msg f.sub).find 1 = some kf) (hv : (S.msg f.sub).find 2 = some vf)
    {fs : Fields} {u rest : List Byte} {v : Val}
    (hwf : cwfEntry S f kf vf v = true)
    (hd0 : 0 ≤ depth) (hdeep : (depthVal v : Int) > depth)
    (IH : ∀ sub, sizeOf sub < sizeOf v → DeepMsg S sub) :
    DecTo S mi depth dis (.mk fs u) (encVal S f v ++ rest) (.error .depth) := by
  obtain ⟨key, value, rfl, hks, hvs, hsz⟩ := cwfEntry_inv hwf
  have hkn := MsgD.find_num_eq hk
  have hvn := MsgD.find_num_eq hv
  have hbody : encMsg S f.sub (.mk (.cons 1 (.one key) (.cons 2 (.one value) .nil)) []) =
      encVal S kf key ++ encVal S vf value := by
    simp only [encMsg, encFields, hk, hv, encFVal, List.append_nil]
  have hlenb : (encVal S kf key ++ encVal S vf value).length < 2 ^ 64 := by
    rw [← hbody, ← C04.size_eq_length]; exact hsz
  simp only [depthVal, depthMsg, depthFields, depthFVal, wfScalar_depth hks] at hdeep
  have hent : depth - 1 < 0 ∨ ∀ fuel, (encVal S kf key ++ encVal S vf value).length + 2 ≤ fuel →
      decEntry fuel S kf vf none (if vf.kind.isMessage then some (.msg Msg.empty) else none)
        (encVal S kf key ++ encVal S vf value) (depth - 1) dis = .error .depth := by
    by_cases hd : depth - 1 < 0
    · exact Or.inl hd
    · right
      cases value with
      | num n => simp [depthVal] at hdeep; omega
      | bytes b => simp [depthVal] at hdeep; omega
      | msg sub =>
        simp only [depthVal] at hdeep
        have hm : vf.kind.isMessage = true := by
          simp only [cwfVal, Bool.and_eq_true] at hvs; exact hvs.1
        obtain ⟨wt, payload, body, hwt, hmsg, henc, hsub, hdec, hlen⟩ :=
          val_msg_deep (dis := dis) (depth := depth - 1) (mi := f.sub) (by rw [hvn]; exact hv) (by omega)
            (by unfold maxValidNumber; omega) (by unfold defaultRecursionLimit; omega) hvs
            (IH sub (by simp; omega)) (by omega)
        rw [encVal_scalar S kf hks, hkn, List.append_assoc]
        apply EntOK_key hks
        simp only [hm, if_true]
        rw [henc, hvn]
        have := EntOK_val_msg_err (S := S) (kf := kf) (dis := dis) (k := some key) (rest := []) hwt hm (hsub []) hdec hlen
        simpa only [List.append_nil] using this
  generalize encVal S kf key ++ encVal S vf value = B at hent hlenb hbody
  have henc : encVal S f (.msg (.mk (.cons 1 (.one key) (.cons 2 (.one value) .nil)) [])) =
      tagBytes f.num 2 ++ (encVarint B.length ++ B) := by
    simp only [encVal, hkg, if_false, hbody, List.append_assoc]
  rw [henc, List.append_assoc]
  refine DecTo_known_err h1 h2 (by omega) hfind ?_
  intro fuel hf
  cases fuel with
  | zero => omega
  | succ fu =>
    have htag := tagBytes_pos f.num 2
    have hvl := encVarint_length_pos B.length
    simp only [List.length_append] at hf
    rw [List.append_assoc]
    refine decField_map_err fu hc (decBytes_enc' hlenb rest) hk hv ?_
    rcases hent with hd | he
    · exact Or.inl hd
    · exact Or.inr (he fu (by omega))

theorem entries_err {S : Schema} {mi : Nat} {f kf vf : Field} {depth : Int} {dis : Bool}
    (hfind : (S.msg mi).find f.num = some f) (h1 : 1 ≤ f.num) (h2 : f.num ≤ maxValidNumber)
    (hc : f.card = .map) (hkg : f.kind ≠ .group)
    (hk : (S.msg f.sub).find 1 = some kf) (hv : (S.msg f.sub).find 2 = some vf)
    {acc : Fields} {u rest : List Byte} (hacc : acc.allLt f.num) (hd0 : 0 ≤ depth) :
    ∀ (vs pre : Vals), cwfEntries S f kf vf vs = true →
      (∀ k, keyFree k pre = true ∨ keyFree k vs = true) →
      (depthVals vs : Int) > depth →
      (∀ sub, sizeOf sub < sizeOf vs → DeepMsg S sub) →
      DecTo S mi depth dis (.mk (accWith acc f.num pre) u) (encVals S f vs ++ rest) (.error .depth)
  | .nil, pre, _, _, hd, _ => by simp [depthVals] at hd; omega
  | .cons v tl, pre, hwf, hK, hd, IH => by
    simp only [cwfEntries, Bool.and_eq_true] at hwf
    obtain ⟨⟨hwe, hkt⟩, hwt⟩ := hwf
    simp only [depthVals] at hd
    simp only [encVals, List.append_assoc]
    by_cases hvd : (depthVal v : Int) > depth
    · apply entry_err hfind h1 h2 hc hkg hk hv hwe hd0 hvd
      intro sub hs; apply IH; simp at hs ⊢; omega
    · obtain ⟨key, value, hveq, hks, hvs, hsz⟩ := cwfEntry_inv hwe
      subst hveq
      have hek : entryKey (.mk (.cons 1 (.one key) (.cons 2 (.one value) .nil)) []) = some key := by
        simp [entryKey, Fields.get?]
      simp only [hek] at hkt
      have hself := valBEq_self_of_scalar hks
      apply entry_ok (groupScanOK S) hfind h1 h2 hc hkg hk hv pre hacc hwe _ (by omega)
      · intro sub _; exact roundMsg (groupScanOK S) sub
      · apply entries_err hfind h1 h2 hc hkg hk hv hacc hd0 tl _ hwt _ (by omega)
        · intro sub hs; apply IH; simp; omega
        · intro k
          rw [keyFree_append]
          by_cases hkk : valBEq k key = true
          · have := valBEq_to_eq hkk; subst this; right; exact hkt
          · rcases hK k with hl | hr
            · left
              simp only [hl, Bool.true_and]
              simp [keyFree, stripVal, stripMsg, stripFields, stripFVal, entryKey, Fields.get?, wfScalar_strip hks, hkk]
            · right
              simp only [keyFree, Bool.and_eq_true] at hr; exact hr.2
      · intro e k he hke
        cases he
        rw [hek] at hke; cases hke
        rcases hK key with hl | hr
        · exact hl
        · simp [keyFree, hek, hself] at hr

theorem cwfVals_scalar_depth {S : Schema} {g : Int} {f : Field} (hm : f.kind.isMessage = false) :
    ∀ vs : Vals, cwfVals S g f vs = true → depthVals vs = 0
  | .nil, _ => rfl
  | .cons v tl, h => by
    simp only [cwfVals, Bool.and_eq_true] at h
    simp [depthVals, wfScalar_depth (cwfVal_scalar hm h.1), cwfVals_scalar_depth hm tl h.2]

theorem fval_err {S : Schema} {mi : Nat} {f : Field} {g depth : Int} {dis : Bool}
    (hfind : (S.msg mi).find f.num = some f) (h1 : 1 ≤ f.num) (h2 : f.num ≤ maxValidNumber)
    (hg : g ≤ defaultRecursionLimit)
    {acc : Fields} {u rest : List Byte} (hacc : acc.allLt f.num)
    (hfree : ∀ o, f.oneof = some o → oneofFree (S.msg mi) o acc = true)
    {fv : FVal} (hwf : cwfFVal S g f fv = true) (hd0 : 0 ≤ depth) (hdeep : (depthFVal fv : Int) > depth)
    (IH : ∀ sub, sizeOf sub < sizeOf fv → DeepMsg S sub) :
    DecTo S mi depth dis (.mk acc u) (encFVal S f fv ++ rest) (.error .depth) := by
  cases fv with
  | one v =>
    simp only [cwfFVal, Bool.and_eq_true, bne_iff_ne, ne_eq, Bool.not_eq_true'] at hwf
    obtain ⟨⟨⟨hc1, hc2⟩, hv⟩, hz⟩ := hwf
    simp only [encFVal]
    simp only [depthFVal] at hdeep
    apply one_err hfind h1 h2 hg hc1 hc2 hv hacc hfree hd0 hdeep
    intro sub hs; subst hs; apply IH; simp; omega
  | many vs =>
    simp only [cwfFVal, Bool.and_eq_true, Bool.not_eq_true'] at hwf
    obtain ⟨hne, hwf⟩ := hwf
    simp only [depthFVal] at hdeep
    have hIH : ∀ sub, sizeOf sub < sizeOf vs → DeepMsg S sub := by
      intro sub hs; apply IH; simp; omega
    cases hc : f.card with
    | optional => simp [hc] at hwf
    | implicit => simp [hc] at hwf
    | required => simp [hc] at hwf
    | repeated =>
      simp only [hc, Bool.and_eq_true] at hwf
      obtain ⟨hvs, hpk⟩ := hwf
      simp only [encFVal, hne, Bool.not_false, Bool.and_true]
      by_cases hp : (f.packed && f.kind.isNumeric) = true
      · simp only [Bool.and_eq_true] at hp
        have hm := isMessage_false_of_numeric hp.2
        rw [cwfVals_scalar_depth hm vs hvs] at hdeep
        simp at hdeep; omega
      · simp only [hp]
        have := vals_err hfind h1 h2 hg hc hacc hd0 (u := u) (rest := rest) (dis := dis) vs .nil hvs hdeep hIH
        rwa [accWith_nil] at this
    | map =>
      simp only [hc, Bool.and_eq_true, beq_iff_eq] at hwf
      obtain ⟨hkm, hwf⟩ := hwf
      have hkg : f.kind ≠ .group := by rw [hkm]; decide
      split at hwf
      · rename_i kf vf hk hv
        have hpk : (f.packed && f.kind.isNumeric && !vs.isNil) = false := by
          simp [hkm, Kind.isNumeric]
        simp only [encFVal, hpk, Bool.false_eq_true, if_false]
        have := entries_err hfind h1 h2 hc hkg hk hv hacc hd0 (u := u) (rest := rest) (dis := dis)
          vs .nil hwf (fun k => Or.inl (by simp [keyFree])) hdeep hIH
        rwa [accWith_nil] at this
      · simp at hwf

theorem fields_err {S : Schema} {mi : Nat} {g depth : Int} {dis : Bool}
    (hg : g ≤ defaultRecursionLimit) {u rest : List Byte} (hd0 : 0 ≤ depth) :
    ∀ (fs : Fields) (lb : Nat) (acc : Fields), 1 ≤ lb → cwfFields S (S.msg mi) g lb fs = true →
      acc.allLt lb →
      (∀ o, oneofFree (S.msg mi) o acc = true ∨ oneofFree (S.msg mi) o fs = true) →
      (depthFields fs : Int) > depth →
      (∀ sub, sizeOf sub < sizeOf fs → DeepMsg S sub) →
      DecTo S mi depth dis (.mk acc u) (encFields S (S.msg mi) fs ++ rest) (.error .depth)
  | .nil, _, _, _, _, _, _, hd, _ => by simp [depthFields] at hd; omega
  | .cons num fv tl, lb, acc, hlb, hwf, hacc, hO, hd, IH => by
    simp only [cwfFields, Bool.and_eq_true, decide_eq_true_eq] at hwf
    obtain ⟨⟨⟨hl, hmax⟩, hf⟩, htl⟩ := hwf
    cases hfind : (S.msg mi).find num with
    | none => simp [hfind] at hf
    | some f =>
      simp only [hfind, Bool.and_eq_true] at hf
      obtain ⟨hfv, hone⟩ := hf
      have hn := MsgD.find_num_eq hfind
      subst hn
      simp only [depthFields] at hd
      simp only [encFields, hfind, List.append_assoc]
      have hacc' : acc.allLt f.num := Fields.allLt_mono hl hacc
      have hfree : ∀ o, f.oneof = some o → oneofFree (S.msg mi) o acc = true := by
        intro o ho
        rcases hO o with h | h
        · exact h
        · simp [oneofFree, hfind, ho] at h
      by_cases hfd : (depthFVal fv : Int) > depth
      · apply fval_err hfind (by omega) hmax hg hacc' hfree hfv hd0 hfd
        intro sub hs; apply IH; simp; omega
      · apply fval_ok (groupScanOK S) hfind (by omega) hmax hg hacc' hfree hfv (by omega)
        · intro sub _; exact roundMsg (groupScanOK S) sub
        · apply fields_err hg hd0 tl (f.num + 1) _ (by omega) htl (Fields.allLt_snoc (by omega) _ hacc') _ (by omega)
          · intro sub hs; apply IH; simp; omega
          · intro o
            rw [oneofFree_snoc]
            by_cases ho : f.oneof = some o
            · right; simpa [ho] using hone
            · rcases hO o with h | h
              · left; simp [h, oneofFree, hfind, ho]
              · right; simp only [oneofFree, Bool.and_eq_true] at h; exact h.2

theorem deepMsg_all {S : Schema} : ∀ (n : Nat) (m : Msg), sizeOf m ≤ n → DeepMsg S m
  | 0, m, h => by cases m; simp at h
  | n + 1, .mk fs unk, h => by
    intro mi g depth dis hg hwf hd0 hd
    simp only [cwfMsg, Bool.and_eq_true] at hwf
    simp only [depthMsg] at hd
    simp only [encMsg]
    apply fields_err hg hd0 fs 1 .nil (Nat.le_refl _) hwf.1 trivial (fun o => Or.inl rfl) (by omega)
    intro sub hs; apply deepMsg_all n; simp at h; omega

/-- decoding the encoding of a well-formed message nested deeper than the limit: `errRecursionDepth` -/
theorem deepMsg (S : Schema) (m : Msg) : DeepMsg S m := deepMsg_all (sizeOf m) m (Nat.le_refl _)

end Pb
