import PbVerif.Lemmas.JsonTextTotal
/-
Totality at tree level, text format: prototext `unmarshalScalar` has `panic("invalid scalar kind")` for
message kinds; every call site either tests the kind first or passes a map key descriptor (`MapKeysOK`).
-/
namespace JT
open Pb

theorem resolveText_mem (X : SchemaX) (d : MsgX) (name : TName) (fx : FieldX) (h : resolveText X d name = .found fx) :
    fx ∈ d.fields := by
  unfold resolveText at h
  cases name with
  | ident s =>
    simp only at h
    split at h
    · rename_i hf
      cases h
      exact List.mem_of_find?_eq_some hf
    · cases h
  | type s =>
    simp only at h
    split at h
    · rename_i hf
      cases h
      exact List.mem_of_find?_eq_some hf
    · split at h <;> cases h
  | number n =>
    simp only at h
    split at h
    · cases h
    · split at h <;> cases h

/-- `unmarshalScalar` (text) panics only for message kinds -/
theorem tdTok_np (C : TCodec) (fx : FieldX) (t : TTok) (hk : fx.f.kind.isMessage = false) :
    tdTok C fx t ≠ .error .panic := by
  unfold tdTok
  cases hkk : fx.f.kind <;> simp only [hkk, Kind.isMessage] at hk ⊢
  all_goals first
    | (cases hk; done)
    | (cases t <;> (repeat' split) <;> simp)

theorem tdScalar_np (C : TCodec) (fx : FieldX) (v : TV) (hk : fx.f.kind.isMessage = false) :
    tdScalar C fx v ≠ .error .panic := by
  cases v with
  | scalar t => simp only [tdScalar]; exact tdTok_np C fx t hk
  | msg _ => simp [tdScalar]
  | list _ => simp [tdScalar]

theorem keyKind_notMessage {k : Kind} (h : keyKindOK k = true) : k.isMessage = false := by
  cases k <;> simp [keyKindOK, Kind.isMessage] at h ⊢

theorem tdHead_np (D : DOpts) (X : SchemaX) (d : MsgX) (limit : Int) (name : TName) (sep : Bool) (v : TV) (sn so : Ints) :
    tdHead D X d limit name sep v sn so ≠ .error .panic := by
  cases hr : resolveText X d name with
  | badNum => unfold tdHead; simp [hr]
  | badExt => unfold tdHead; simp [hr]
  | byNumber => unfold tdHead; simp [hr]
  | unknown s0 =>
    intro h
    rcases tdHead_unknown_err D X d limit name sep v sn so s0 hr .panic h with h | h <;> cases h
  | found fx =>
    rw [tdHead_found_eq D X d limit name sep v sn so fx hr]
    (repeat' split) <;> simp

theorem entryUnknown_np (D : DOpts) (limit : Int) (v : TV) : entryUnknown D limit v ≠ .error .panic := by
  unfold entryUnknown
  split
  · simp
  · cases hs : skipT limit v with
    | error e =>
      have := skipT_err limit v e hs
      subst this
      simp
    | ok u => simp

theorem tdEntryHead_np (D : DOpts) (ed : MsgX) (limit : Int) (name : TName) (sep : Bool) (v : TV) (st : EntrySt) :
    tdEntryHead D ed limit name sep v st ≠ .error .panic := by
  unfold tdEntryHead
  cases ed.find 1 with
  | none => simp
  | some kf =>
    cases ed.find 2 with
    | none => simp
    | some vf =>
      simp only
      cases name with
      | type s => exact entryUnknown_np D limit v
      | number n => exact entryUnknown_np D limit v
      | ident s =>
        simp only
        split
        · (repeat' split) <;> simp
        · split
          · (repeat' split) <;> simp
          · exact entryUnknown_np D limit v

/-- what the entry head hands over -/
theorem tdEntryHead_key (D : DOpts) (ed : MsgX) (limit : Int) (name : TName) (sep : Bool) (v : TV) (st : EntrySt) (kf : FieldX)
    (h : tdEntryHead D ed limit name sep v st = .key kf) : ed.find 1 = some kf := by
  unfold tdEntryHead at h
  cases h1 : ed.find 1 with
  | none => simp [h1] at h
  | some kf' =>
    cases h2 : ed.find 2 with
    | none => simp [h1, h2] at h
    | some vf =>
      simp only [h1, h2] at h
      cases name with
      | type s => simp only at h; unfold entryUnknown at h; (repeat' split at h) <;> cases h
      | number n => simp only at h; unfold entryUnknown at h; (repeat' split at h) <;> cases h
      | ident s =>
        simp only at h
        split at h
        · (repeat' split at h) <;> first | (cases h; done) | (cases h; rfl)
        · split at h
          · (repeat' split at h) <;> cases h
          · unfold entryUnknown at h; (repeat' split at h) <;> cases h

theorem tdEntryHead_valScalar (D : DOpts) (ed : MsgX) (limit : Int) (name : TName) (sep : Bool) (v : TV) (st : EntrySt)
    (vf : FieldX) (h : tdEntryHead D ed limit name sep v st = .valScalar vf) : vf.f.kind.isMessage = false := by
  rcases tdEntryHead_cases D ed limit name sep v st with
    ⟨e, he⟩ | ⟨he, _⟩ | ⟨kf, he, _⟩ | ⟨vf', he, _⟩ | ⟨vf', he, _, _, hm⟩
  · rw [he] at h; cases h
  · rw [he] at h; cases h
  · rw [he] at h; cases h
  · rw [he] at h; cases h
  · rw [he] at h; cases h; exact hm

mutual
theorem tdMsgV_np (C : TCodec) (D : DOpts) (X : SchemaX) (hK : MapKeysOK X) : ∀ (v : TV) (mi : Nat) (limit : Int),
    tdMsgV C D X mi limit v ≠ .error .panic
  | .msg fs, mi, limit => by
    rw [tdMsgV]
    split
    · simp
    · split
      · simp
      · exact tdFields_np C D X hK fs mi (limit - 1) {} {} Msg.empty
  | .scalar _, mi, limit | .list _, mi, limit => by
    simp only [tdMsgV]
    split
    · simp
    · split <;> simp
theorem tdFields_np (C : TCodec) (D : DOpts) (X : SchemaX) (hK : MapKeysOK X) : ∀ (fs : TFields) (mi : Nat) (limit : Int)
    (sn so : Ints) (m0 : Msg), tdFields C D X mi limit fs sn so m0 ≠ .error .panic
  | .nil, _, _, _, _, _ => by simp [tdFields]
  | .cons name sep v tl, mi, limit, sn, so, m0 => by
    rw [tdFields_cons]
    cases hd : tdHead D X (X.msg mi) limit name sep v sn so with
    | error e =>
      simp only
      intro he
      cases he
      exact tdHead_np D X (X.msg mi) limit name sep v sn so hd
    | skip sn' => exact tdFields_np C D X hK tl mi limit sn' so m0
    | value fx sn' so' =>
      simp only
      have hmem : fx ∈ (X.msg mi).fields :=
        resolveText_mem X (X.msg mi) name fx (tdHead_value_found D X (X.msg mi) limit name sep v sn so sn' so' fx hd)
      have hv : tdFieldVal C D X mi fx limit m0 v ≠ .error .panic := by
        unfold tdFieldVal
        cases hc : fx.f.card <;> simp only
        case repeated => exact storeList_np (tdList_np C D X hK v fx limit)
        case map => exact storeMap_np (tdMap_np C D X hK v fx limit _ (hK mi fx hmem hc))
        all_goals
          (split
           · exact storeMsg_np (tdMsgV_np C D X hK v fx.f.sub limit)
           · rename_i hk
             apply storeScalar_np
             have := tdScalar_np C fx v (by simpa using hk)
             cases hs : tdScalar C fx v with
             | error e => simp [Except.map]; intro he; exact this (by rw [hs, he])
             | ok x => simp [Except.map])
      cases hx : tdFieldVal C D X mi fx limit m0 v with
      | error e =>
        simp only
        intro he
        cases he
        exact hv hx
      | ok m' => exact tdFields_np C D X hK tl mi limit sn' so' m'
theorem tdList_np (C : TCodec) (D : DOpts) (X : SchemaX) (hK : MapKeysOK X) : ∀ (v : TV) (fx : FieldX) (limit : Int),
    tdList C D X fx limit v ≠ .error .panic
  | .list es, fx, limit => by rw [tdList]; exact tdElems_np C D X hK es fx limit
  | .msg fs, fx, limit => by
    rw [tdList]
    split
    · split
      · simp
      · split
        · simp
        · have := tdFields_np C D X hK fs fx.f.sub (limit - 1) {} {} Msg.empty
          cases hf : tdFields C D X fx.f.sub (limit - 1) fs {} {} Msg.empty with
          | error e => simp [Except.map]; intro he; exact this (by rw [hf, he])
          | ok sub => simp [Except.map]
    · simp
  | .scalar t, fx, limit => by
    rw [tdList]
    split
    · simp
    · rename_i hk
      have := tdTok_np C fx t (by simpa using hk)
      cases ht : tdTok C fx t with
      | error e => simp [Except.map]; intro he; exact this (by rw [ht, he])
      | ok x => simp [Except.map]
theorem tdElems_np (C : TCodec) (D : DOpts) (X : SchemaX) (hK : MapKeysOK X) : ∀ (es : TElems) (fx : FieldX) (limit : Int),
    tdElems C D X fx limit es ≠ .error .panic
  | .nil, _, _ => by simp [tdElems]
  | .cons (.msg fs) tl, fx, limit => by
    rw [tdElems]
    have ht := tdElems_np C D X hK tl fx limit
    split
    · split
      · simp
      · split
        · simp
        · cases hf : tdFields C D X fx.f.sub (limit - 1) fs {} {} Msg.empty with
          | error e =>
            simp only
            intro he
            cases he
            exact tdFields_np C D X hK fs fx.f.sub (limit - 1) {} {} Msg.empty hf
          | ok sub =>
            simp only
            cases h2 : tdElems C D X fx limit tl with
            | error e => simp [Except.map]; intro he; exact ht (by rw [h2, he])
            | ok vs => simp [Except.map]
    · simp
  | .cons (.scalar t) tl, fx, limit => by
    rw [tdElems]
    have ht := tdElems_np C D X hK tl fx limit
    split
    · simp
    · rename_i hk
      cases hv : tdTok C fx t with
      | error e =>
        simp only
        intro he
        cases he
        exact tdTok_np C fx t (by simpa using hk) hv
      | ok x =>
        simp only
        cases h2 : tdElems C D X fx limit tl with
        | error e => simp [Except.map]; intro he; exact ht (by rw [h2, he])
        | ok vs => simp [Except.map]
  | .cons (.list _) tl, fx, limit => by
    rw [tdElems]
    split <;> simp
theorem tdMap_np (C : TCodec) (D : DOpts) (X : SchemaX) (hK : MapKeysOK X) : ∀ (v : TV) (fx : FieldX) (limit : Int) (cur : Vals),
    (∀ kf, (X.msg fx.f.sub).find 1 = some kf → keyKindOK kf.f.kind = true) →
      tdMap C D X fx limit cur v ≠ .error .panic
  | .msg fs, fx, limit, cur, hk => by
    rw [tdMap]
    split
    · simp
    · cases he : tdEntry C D X fx (limit - 1) fs {} with
      | error e =>
        simp only
        intro h
        cases h
        exact tdEntry_np C D X hK fs fx (limit - 1) {} hk he
      | ok kv => simp
  | .list es, fx, limit, cur, hk => by
    rw [tdMap]
    split
    · simp
    · exact tdEntryList_np C D X hK es fx (limit - 1) cur hk
  | .scalar _, fx, limit, cur, hk => by
    rw [tdMap]
    split <;> simp
theorem tdEntryList_np (C : TCodec) (D : DOpts) (X : SchemaX) (hK : MapKeysOK X) : ∀ (es : TElems) (fx : FieldX) (limit : Int)
    (cur : Vals), (∀ kf, (X.msg fx.f.sub).find 1 = some kf → keyKindOK kf.f.kind = true) →
      tdEntryList C D X fx limit es cur ≠ .error .panic
  | .nil, _, _, _, _ => by simp [tdEntryList]
  | .cons (.msg fs) tl, fx, limit, cur, hk => by
    rw [tdEntryList]
    cases he : tdEntry C D X fx limit fs {} with
    | error e =>
      simp only
      intro h
      cases h
      exact tdEntry_np C D X hK fs fx limit {} hk he
    | ok kv => exact tdEntryList_np C D X hK tl fx limit _ hk
  | .cons (.scalar _) tl, fx, limit, cur, hk => by simp [tdEntryList]
  | .cons (.list _) tl, fx, limit, cur, hk => by simp [tdEntryList]
theorem tdEntry_np (C : TCodec) (D : DOpts) (X : SchemaX) (hK : MapKeysOK X) : ∀ (fs : TFields) (fx : FieldX) (limit : Int)
    (st : EntrySt), (∀ kf, (X.msg fx.f.sub).find 1 = some kf → keyKindOK kf.f.kind = true) →
      tdEntry C D X fx limit fs st ≠ .error .panic
  | .nil, fx, limit, st, hk => by
    rw [tdEntry]
    (repeat' split) <;> simp
  | .cons name sep v tl, fx, limit, st, hk => by
    rw [tdEntry]
    cases hh : tdEntryHead D (X.msg fx.f.sub) limit name sep v st with
    | error e =>
      simp only
      intro he
      cases he
      exact tdEntryHead_np D (X.msg fx.f.sub) limit name sep v st hh
    | skip => exact tdEntry_np C D X hK tl fx limit st hk
    | key kf =>
      simp only
      have hkind := keyKind_notMessage (hk kf (tdEntryHead_key D (X.msg fx.f.sub) limit name sep v st kf hh))
      cases hs : tdScalar C kf v with
      | error e =>
        simp only
        intro he
        cases he
        exact tdScalar_np C kf v hkind hs
      | ok k => exact tdEntry_np C D X hK tl fx limit _ hk
    | valMsg vf =>
      simp only
      cases hs : tdMsgV C D X vf.f.sub limit v with
      | error e =>
        simp only
        intro he
        cases he
        exact tdMsgV_np C D X hK v vf.f.sub limit hs
      | ok sub => exact tdEntry_np C D X hK tl fx limit _ hk
    | valScalar vf =>
      simp only
      have hkind := tdEntryHead_valScalar D (X.msg fx.f.sub) limit name sep v st vf hh
      cases hs : tdScalar C vf v with
      | error e =>
        simp only
        intro he
        cases he
        exact tdScalar_np C vf v hkind hs
      | ok x => exact tdEntry_np C D X hK tl fx limit _ hk
end

end JT
