import PbVerif.Model.JsonText
/-
Laws of `internal/set.Ints` (Model/JsonText.lean `JT.Ints`): Has/Set/Clear/Len over the 64-bit mask
(n < 64) and the map part (n ≥ 64).  Kernel-only proofs (no bv_decide).
-/
namespace JT

/-! ### the mask part -/

theorem one_shl_getLsbD (n i : Nat) (hn : n < 64) : (1#64 <<< n).getLsbD i = decide (i = n) := by
  rw [BitVec.getLsbD_shiftLeft]
  by_cases h : i = n
  · subst h; simp [hn]
  · by_cases hlt : i < n
    · simp [hlt, h]
    · have : i - n ≠ 0 := by omega
      simp [hlt, h, BitVec.getLsbD_one, this]

theorem loHas_eq (lo : BitVec 64) (n : Nat) (hn : n < 64) : loHas lo n = lo.getLsbD n := by
  unfold loHas
  by_cases h : lo.getLsbD n = true
  · rw [h]
    have : (lo &&& (1#64 <<< n)) ≠ 0#64 := by
      intro hz
      have := congrArg (fun x => x.getLsbD n) hz
      simp [one_shl_getLsbD n n hn, h] at this
    simpa [bne_iff_ne] using this
  · have h' : lo.getLsbD n = false := by simpa using h
    rw [h']
    have : (lo &&& (1#64 <<< n)) = 0#64 := by
      apply BitVec.eq_of_getLsbD_eq
      intro i hi
      simp only [BitVec.getLsbD_and, one_shl_getLsbD n i hn, BitVec.getLsbD_zero]
      by_cases hin : i = n
      · subst hin; simp [h']
      · simp [hin]
    simp [this]

theorem getLsbD_loSet (lo : BitVec 64) (n i : Nat) (hn : n < 64) :
    (loSet lo n).getLsbD i = (lo.getLsbD i || decide (i = n)) := by
  simp [loSet, one_shl_getLsbD n i hn]

theorem getLsbD_loClear (lo : BitVec 64) (n i : Nat) (hn : n < 64) (hi : i < 64) :
    (loClear lo n).getLsbD i = (lo.getLsbD i && !decide (i = n)) := by
  unfold loClear
  rw [BitVec.getLsbD_and, BitVec.getLsbD_not, one_shl_getLsbD n i hn]
  simp [hi]

/-! ### counting -/

theorem countP_range_flip (p q : Nat → Bool) (N n : Nat) (hn : n < N)
    (hq : q n = true) (hp : p n = false) (hother : ∀ i, i ≠ n → q i = p i) :
    (List.range N).countP q = (List.range N).countP p + 1 := by
  induction N with
  | zero => omega
  | succ N ih =>
    rw [List.range_succ, List.countP_append, List.countP_append]
    by_cases h : n = N
    · subst h
      have : (List.range n).countP q = (List.range n).countP p := by
        apply List.countP_congr
        intro i hi
        have : i ≠ n := by
          have := List.mem_range.mp hi
          omega
        rw [hother i this]
      simp [this, hq, hp]
    · have hlt : n < N := by omega
      rw [ih hlt]
      have : q N = p N := hother N (by omega)
      simp [this]
      omega

theorem popcount_loSet (lo : BitVec 64) (n : Nat) (hn : n < 64) :
    popcount (loSet lo n) = if lo.getLsbD n then popcount lo else popcount lo + 1 := by
  unfold popcount
  split
  · rename_i h
    apply List.countP_congr
    intro i _
    rw [getLsbD_loSet lo n i hn]
    by_cases hi : i = n
    · subst hi; simp [h]
    · simp [hi]
  · rename_i h
    apply countP_range_flip _ _ 64 n hn
    · simp [getLsbD_loSet lo n n hn]
    · simpa using h
    · intro i hi
      simp [getLsbD_loSet lo n i hn, hi]

theorem popcount_loClear (lo : BitVec 64) (n : Nat) (hn : n < 64) :
    popcount (loClear lo n) = if lo.getLsbD n then popcount lo - 1 else popcount lo := by
  unfold popcount
  split
  · rename_i h
    have := countP_range_flip (fun i => (loClear lo n).getLsbD i) (fun i => lo.getLsbD i) 64 n hn h
      (by simp [getLsbD_loClear lo n n hn hn])
      (by
        intro i hi
        by_cases h64 : i < 64
        · simp [getLsbD_loClear lo n i hn h64, hi]
        · have h1 : lo.getLsbD i = false := BitVec.getLsbD_of_ge _ _ (by omega)
          have h2 : (loClear lo n).getLsbD i = false := BitVec.getLsbD_of_ge _ _ (by omega)
          simp [h1, h2])
    omega
  · rename_i h
    apply List.countP_congr
    intro i hi
    have h64 : i < 64 := List.mem_range.mp hi
    rw [getLsbD_loClear lo n i hn h64]
    by_cases hin : i = n
    · subst hin; simp [h]
    · simp [hin]

/-! ### `Ints` -/

/-- the invariant of the Go map: keys are distinct (and, by construction of `Set`, ≥ 64) -/
def Ints.WF (s : Ints) : Prop := s.hi.Nodup

theorem Ints.wf_empty : Ints.WF {} := List.nodup_nil

theorem Ints.wf_set (s : Ints) (n : Nat) (h : s.WF) : (s.set n).WF := by
  unfold Ints.set
  split
  · exact h
  · split
    · exact h
    · rename_i hc
      simp only [Ints.WF]
      exact List.nodup_cons.mpr ⟨by simpa using hc, h⟩

theorem Ints.wf_clear (s : Ints) (n : Nat) (h : s.WF) : (s.clear n).WF := by
  unfold Ints.clear
  split
  · exact h
  · exact List.Nodup.sublist List.filter_sublist h

theorem Ints.has_empty (n : Nat) : Ints.has {} n = false := by
  unfold Ints.has
  split
  · rename_i h; rw [loHas_eq _ _ h]; simp
  · simp

/-- `Has` after `Set` of the same number -/
theorem Ints.has_set (s : Ints) (n : Nat) : (s.set n).has n = true := by
  unfold Ints.set Ints.has
  by_cases h : n < 64
  · simp only [h, if_true]
    rw [loHas_eq _ _ h, getLsbD_loSet _ _ _ h]
    simp
  · simp only [h, if_false]
    split <;> simp_all

/-- `Set` does not change `Has` of any other number -/
theorem Ints.has_set_other (s : Ints) (n k : Nat) (hk : k ≠ n) : (s.set n).has k = s.has k := by
  unfold Ints.set
  by_cases h : n < 64
  · simp only [h, if_true]
    unfold Ints.has
    by_cases hk64 : k < 64
    · simp only [hk64, if_true]
      rw [loHas_eq _ _ hk64, loHas_eq _ _ hk64, getLsbD_loSet _ _ _ h]
      simp [hk]
    · simp [hk64]
  · simp only [h, if_false]
    by_cases hc : n ∈ s.hi
    · simp [hc]
    · simp only [List.contains_iff_mem, hc, if_false]
      unfold Ints.has
      by_cases hk64 : k < 64
      · simp [hk64]
      · simp [hk64, hk]

theorem Ints.has_set_iff (s : Ints) (n k : Nat) : (s.set n).has k = true ↔ k = n ∨ s.has k = true := by
  by_cases h : k = n
  · subst h; simp [Ints.has_set]
  · rw [Ints.has_set_other s n k h]; simp [h]

theorem Ints.has_clear (s : Ints) (n : Nat) : (s.clear n).has n = false := by
  unfold Ints.clear Ints.has
  by_cases h : n < 64
  · simp only [h, if_true]
    rw [loHas_eq _ _ h, getLsbD_loClear _ _ _ h h]
    simp
  · simp [h]

theorem Ints.has_clear_other (s : Ints) (n k : Nat) (hk : k ≠ n) : (s.clear n).has k = s.has k := by
  unfold Ints.clear Ints.has
  by_cases h : n < 64
  · simp only [h, if_true]
    by_cases hk64 : k < 64
    · simp only [hk64, if_true]
      rw [loHas_eq _ _ hk64, loHas_eq _ _ hk64, getLsbD_loClear _ _ _ h hk64]
      simp [hk]
    · simp [hk64]
  · simp only [h, if_false]
    by_cases hk64 : k < 64
    · simp [hk64]
    · simp only [hk64, if_false]
      rw [Bool.eq_iff_iff]
      simp [List.mem_filter, hk]

/-- `Len` after `Set`: one more exactly when the number was not a member -/
theorem Ints.len_set (s : Ints) (n : Nat) : (s.set n).len = if s.has n then s.len else s.len + 1 := by
  unfold Ints.set Ints.has Ints.len
  by_cases h : n < 64
  · simp only [h, if_true]
    rw [popcount_loSet _ _ h, loHas_eq _ _ h]
    split <;> omega
  · simp only [h, if_false]
    split <;> simp_all <;> omega

theorem filter_ne_length (n : Nat) : ∀ (l : List Nat), l.Nodup →
    (l.filter (· != n)).length = if l.contains n then l.length - 1 else l.length
  | [], _ => by simp
  | a :: tl, hnd => by
    have ⟨ha, htl⟩ := List.nodup_cons.mp hnd
    have ih := filter_ne_length n tl htl
    by_cases han : a = n
    · subst han
      have hself : tl.filter (· != a) = tl := by
        apply List.filter_eq_self.mpr
        intro x hx
        have : x ≠ a := fun e => ha (e ▸ hx)
        simpa using this
      have h1 : (a != a) = false := by simp
      rw [List.filter_cons, h1]
      simp [hself]
    · have hne : (a != n) = true := by simpa using han
      rw [List.filter_cons, hne]
      simp only [if_true, List.length_cons, ih]
      have hcc : (a :: tl).contains n = tl.contains n := by
        rw [List.contains_cons]
        have : (n == a) = false := by
          simp only [beq_eq_false_iff_ne, ne_eq]
          exact fun e => han e.symm
        simp [this]
      rw [hcc]
      by_cases hc : tl.contains n = true
      · have hpos : 0 < tl.length := by
          cases tl with
          | nil => simp at hc
          | cons _ _ => simp
        simp only [hc, if_true]
        omega
      · have hm : n ∉ tl := by simpa using hc
        simp [hm]

/-- `Len` after `Clear`: one less exactly when the number was a member (map keys distinct) -/
theorem Ints.len_clear (s : Ints) (n : Nat) (hwf : s.WF) :
    (s.clear n).len = if s.has n then s.len - 1 else s.len := by
  unfold Ints.clear Ints.has Ints.len
  by_cases h : n < 64
  · simp only [h, if_true]
    rw [popcount_loClear _ _ h, loHas_eq _ _ h]
    split
    · rename_i hb
      have : 0 < popcount s.lo := by
        unfold popcount
        apply List.countP_pos_iff.mpr
        exact ⟨n, List.mem_range.mpr h, hb⟩
      omega
    · rfl
  · simp only [h, if_false]
    rw [filter_ne_length n s.hi hwf]
    by_cases hc : s.hi.contains n = true
    · have hpos : 0 < s.hi.length := by
        cases hh : s.hi with
        | nil => rw [hh] at hc; simp at hc
        | cons _ _ => simp
      simp only [hc, if_true]
      omega
    · have hm : n ∉ s.hi := by simpa using hc
      simp [hm]

theorem Ints.len_empty : Ints.len {} = 0 := by
  decide

end JT
