import PbVerif.Model.WktJson
/-! Helper lemmas for C23: correctness of the civil-date arithmetic (`daysFromCivil`, `civilFromDays`)
for ALL integers.  `omega` alone does not get through the nested divisions of Hinnant's year-of-era
formula; the proof goes through the explicit decomposition of the day-of-era into centuries (`b`),
four-year cycles (`q`), years (`k`) and the day of the (March-based) year (`doy`). -/
namespace WktJson

/-- the year-of-era formula on a decomposed day-of-era -/
theorem yoe_formula (b q k doy : Int) (hb : 0 ≤ b ∧ b ≤ 3) (hq : 0 ≤ q ∧ q ≤ 24) (hk : 0 ≤ k ∧ k ≤ 3)
    (hd : 0 ≤ doy ∧ doy ≤ 365) (hleap : doy = 365 → k = 3 ∧ (q < 24 ∨ b = 3)) :
    ((36524 * b + 1461 * q + 365 * k + doy) - (36524 * b + 1461 * q + 365 * k + doy) / 1460 +
        (36524 * b + 1461 * q + 365 * k + doy) / 36524 - (36524 * b + 1461 * q + 365 * k + doy) / 146096) / 365 =
      100 * b + 4 * q + k := by
  generalize hdoe : 36524 * b + 1461 * q + 365 * k + doy = doe
  by_cases hlast : b = 3 ∧ q = 24 ∧ k = 3 ∧ doy = 365
  · obtain ⟨rfl, rfl, rfl, rfl⟩ := hlast; subst hdoe; decide
  · have h1 : doe / 36524 = b := by omega
    have h2 : doe / 146096 = 0 := by omega
    have h3 : doe / 1460 = 25 * b + q + (24 * b + q + 365 * k + doy) / 1460 := by omega
    have h4 : (24 * b + q + 365 * k + doy) / 1460 = 0 ∨ (24 * b + q + 365 * k + doy) / 1460 = 1 := by omega
    rw [h1, h2, h3]
    rcases h4 with h4 | h4 <;> rw [h4] <;> omega

/-- every day-of-era decomposes -/
theorem doe_decomp (doe : Int) (h0 : 0 ≤ doe) (h1 : doe < 146097) :
    ∃ b q k doy : Int, (0 ≤ b ∧ b ≤ 3) ∧ (0 ≤ q ∧ q ≤ 24) ∧ (0 ≤ k ∧ k ≤ 3) ∧ (0 ≤ doy ∧ doy ≤ 365) ∧
      (doy = 365 → k = 3 ∧ (q < 24 ∨ b = 3)) ∧ doe = 36524 * b + 1461 * q + 365 * k + doy := by
  obtain ⟨b, hb, hr0, hr1⟩ : ∃ b : Int, (0 ≤ b ∧ b ≤ 3) ∧ 0 ≤ doe - 36524 * b ∧
      (doe - 36524 * b < 36524 ∨ (b = 3 ∧ doe - 36524 * b = 36524)) := by
    by_cases h : doe < 146096
    · exact ⟨doe / 36524, by omega, by omega, by omega⟩
    · exact ⟨3, by omega, by omega, by omega⟩
  generalize hr : doe - 36524 * b = r at hr0 hr1
  have hq : 0 ≤ r / 1461 ∧ r / 1461 ≤ 24 := by omega
  generalize hq' : r / 1461 = q at hq
  have hr4 : 0 ≤ r - 1461 * q ∧ r - 1461 * q ≤ 1460 := by omega
  by_cases h4 : r - 1461 * q = 1460
  · exact ⟨b, q, 3, 365, hb, hq, by omega, by omega, by omega, by omega⟩
  · exact ⟨b, q, (r - 1461 * q) / 365, (r - 1461 * q) % 365, hb, hq, by omega, by omega, by omega, by omega⟩

/-- Hinnant's year-of-era formula -/
def yoeOf (doe : Int) : Int := (doe - doe / 1460 + doe / 36524 - doe / 146096) / 365

/-- the last steps of `civilFromDays`: month and day from the day of the March-based year -/
def civilOf (era yoe doy : Int) : Int × Int × Int :=
  (if (if (5 * doy + 2) / 153 < 10 then (5 * doy + 2) / 153 + 3 else (5 * doy + 2) / 153 - 9) ≤ 2
     then yoe + era * 400 + 1 else yoe + era * 400,
   if (5 * doy + 2) / 153 < 10 then (5 * doy + 2) / 153 + 3 else (5 * doy + 2) / 153 - 9,
   doy - (153 * ((5 * doy + 2) / 153) + 2) / 5 + 1)

theorem civilFromDays_eq (z : Int) :
    civilFromDays z =
      civilOf ((z + 719468) / 146097) (yoeOf (z + 719468 - (z + 719468) / 146097 * 146097))
        (z + 719468 - (z + 719468) / 146097 * 146097 -
          (365 * yoeOf (z + 719468 - (z + 719468) / 146097 * 146097) +
            yoeOf (z + 719468 - (z + 719468) / 146097 * 146097) / 4 -
            yoeOf (z + 719468 - (z + 719468) / 146097 * 146097) / 100)) := rfl

/-- the shape of `civilFromDays z` in terms of the decomposition -/
theorem civil_core (z : Int) :
    ∃ era b q k doy mp : Int, (0 ≤ b ∧ b ≤ 3) ∧ (0 ≤ q ∧ q ≤ 24) ∧ (0 ≤ k ∧ k ≤ 3) ∧ (0 ≤ doy ∧ doy ≤ 365) ∧
      (doy = 365 → k = 3 ∧ (q < 24 ∨ b = 3)) ∧
      z + 719468 = era * 146097 + (36524 * b + 1461 * q + 365 * k + doy) ∧
      mp = (5 * doy + 2) / 153 ∧
      civilFromDays z =
        (if (if mp < 10 then mp + 3 else mp - 9) ≤ 2 then (100 * b + 4 * q + k) + era * 400 + 1
          else (100 * b + 4 * q + k) + era * 400,
         if mp < 10 then mp + 3 else mp - 9,
         doy - (153 * mp + 2) / 5 + 1) := by
  have hd0 : 0 ≤ (z + 719468) - (z + 719468) / 146097 * 146097 := by omega
  have hd1 : (z + 719468) - (z + 719468) / 146097 * 146097 < 146097 := by omega
  obtain ⟨b, q, k, doy, hb, hq, hk, hd, hl, he⟩ := doe_decomp _ hd0 hd1
  refine ⟨(z + 719468) / 146097, b, q, k, doy, (5 * doy + 2) / 153, hb, hq, hk, hd, hl, by omega, rfl, ?_⟩
  have hy : yoeOf (36524 * b + 1461 * q + 365 * k + doy) = 100 * b + 4 * q + k :=
    yoe_formula b q k doy hb hq hk hd hl
  rw [civilFromDays_eq, he, hy]
  have hY4 : (100 * b + 4 * q + k) / 4 = 25 * b + q := by omega
  have hY100 : (100 * b + 4 * q + k) / 100 = b := by omega
  have hdoy : 36524 * b + 1461 * q + 365 * k + doy -
      (365 * (100 * b + 4 * q + k) + (100 * b + 4 * q + k) / 4 - (100 * b + 4 * q + k) / 100) = doy := by
    rw [hY4, hY100]; omega
  rw [hdoy]
  rfl

theorem mp_cases {doy : Int} (h : 0 ≤ doy ∧ doy ≤ 365) :
    let mp := (5 * doy + 2) / 153
    mp = 0 ∨ mp = 1 ∨ mp = 2 ∨ mp = 3 ∨ mp = 4 ∨ mp = 5 ∨ mp = 6 ∨ mp = 7 ∨ mp = 8 ∨ mp = 9 ∨ mp = 10 ∨ mp = 11 := by
  intro mp; omega

/-- `daysFromCivil (civilFromDays z) = z` for every integer -/
theorem days_civil (z : Int) :
    daysFromCivil (civilFromDays z).1 (civilFromDays z).2.1 (civilFromDays z).2.2 = z := by
  obtain ⟨era, b, q, k, doy, mp, hb, hq, hk, hd, hl, hz, hmp, hc⟩ := civil_core z
  rw [hc]
  have hcases := mp_cases hd
  simp only at hcases
  rw [← hmp] at hcases
  unfold daysFromCivil
  simp only
  rcases hcases with h | h | h | h | h | h | h | h | h | h | h | h <;> subst h <;> simp <;> omega

/-- the leap-year test in terms of the decomposition of the *March-based* year `100b+4q+k (+ 400 era)`:
the civil year containing its January/February is that year + 1 -/
theorem isLeap_succ_iff (era b q k : Int) (hb : 0 ≤ b ∧ b ≤ 3) (hq : 0 ≤ q ∧ q ≤ 24) (hk : 0 ≤ k ∧ k ≤ 3) :
    isLeap (100 * b + 4 * q + k + era * 400 + 1) = true ↔ (k = 3 ∧ (q < 24 ∨ b = 3)) := by
  simp only [isLeap, decide_eq_true_eq]
  omega

/-- `civilFromDays` always yields a valid calendar date -/
theorem civil_valid (z : Int) :
    ValidDate (civilFromDays z).1 (civilFromDays z).2.1 (civilFromDays z).2.2 := by
  obtain ⟨era, b, q, k, doy, mp, hb, hq, hk, hd, hl, hz, hmp, hc⟩ := civil_core z
  rw [hc]
  have hcases := mp_cases hd
  simp only at hcases
  rw [← hmp] at hcases
  have hleap := isLeap_succ_iff era b q k hb hq hk
  unfold ValidDate daysIn
  simp only
  by_cases hL : k = 3 ∧ (q < 24 ∨ b = 3)
  · have hl1 := hleap.mpr hL
    rcases hcases with h | h | h | h | h | h | h | h | h | h | h | h <;> subst h <;> simp [hl1] <;> omega
  · have hl1 : isLeap (100 * b + 4 * q + k + era * 400 + 1) = false := by
      cases hh : isLeap (100 * b + 4 * q + k + era * 400 + 1) with
      | false => rfl
      | true => exact absurd (hleap.mp hh) hL
    rcases hcases with h | h | h | h | h | h | h | h | h | h | h | h <;> subst h <;> simp [hl1] <;> omega

/-- `civilFromDays (daysFromCivil y m d) = (y, m, d)` for every valid calendar date -/
theorem civil_days (y m d : Int) (h : ValidDate y m d) : civilFromDays (daysFromCivil y m d) = (y, m, d) := by
  obtain ⟨hm1, hm12, hd1, hdn⟩ := h
  have hmv : m = 1 ∨ m = 2 ∨ m = 3 ∨ m = 4 ∨ m = 5 ∨ m = 6 ∨ m = 7 ∨ m = 8 ∨ m = 9 ∨ m = 10 ∨ m = 11 ∨ m = 12 := by
    omega
  -- March-based year, its era and year of era, decomposed
  obtain ⟨y', hy'⟩ : ∃ y', y' = if m ≤ 2 then y - 1 else y := ⟨_, rfl⟩
  obtain ⟨era, hera⟩ : ∃ era, era = y' / 400 := ⟨_, rfl⟩
  obtain ⟨b, q, k, hb, hq, hk, hyd⟩ : ∃ b q k : Int, (0 ≤ b ∧ b ≤ 3) ∧ (0 ≤ q ∧ q ≤ 24) ∧ (0 ≤ k ∧ k ≤ 3) ∧
      y' - era * 400 = 100 * b + 4 * q + k :=
    ⟨(y' - era * 400) / 100, (y' - era * 400) % 100 / 4, (y' - era * 400) % 4,
      by omega, by omega, by omega, by omega⟩
  have hleap := isLeap_succ_iff era b q k hb hq hk
  obtain ⟨mp, hmp⟩ : ∃ mp, mp = (m + 9) % 12 := ⟨_, rfl⟩
  obtain ⟨doy, hdoy⟩ : ∃ doy, doy = (153 * mp + 2) / 5 + d - 1 := ⟨_, rfl⟩
  -- bounds on doy from the validity of the day
  have hA : (0 ≤ doy ∧ doy ≤ 365) ∧ (doy = 365 → k = 3 ∧ (q < 24 ∨ b = 3)) ∧ (5 * doy + 2) / 153 = mp := by
    by_cases hm2 : m = 2
    · subst hm2
      have hyy : y = 100 * b + 4 * q + k + era * 400 + 1 := by omega
      unfold daysIn at hdn
      rw [if_pos rfl, hyy] at hdn
      by_cases hL : k = 3 ∧ (q < 24 ∨ b = 3)
      · rw [hleap.mpr hL] at hdn
        simp only [if_true] at hdn
        omega
      · have hl1 : isLeap (100 * b + 4 * q + k + era * 400 + 1) = false := by
          cases hh : isLeap (100 * b + 4 * q + k + era * 400 + 1) with
          | false => rfl
          | true => exact absurd (hleap.mp hh) hL
        rw [hl1] at hdn
        simp only [Bool.false_eq_true, if_false] at hdn
        omega
    · have hdn' : d ≤ (if m = 4 ∨ m = 6 ∨ m = 9 ∨ m = 11 then 30 else 31) := by
        unfold daysIn at hdn; rw [if_neg hm2] at hdn; exact hdn
      rcases hmv with h | h | h | h | h | h | h | h | h | h | h | h <;> subst h <;> simp at hdn' <;> omega
  obtain ⟨hdb, hdl, hmpe⟩ := hA
  have hdays : daysFromCivil y m d = era * 146097 + (36524 * b + 1461 * q + 365 * k + doy) - 719468 := by
    unfold daysFromCivil
    simp only [← hy', ← hera, ← hmp, ← hdoy]
    have hY4 : (100 * b + 4 * q + k) / 4 = 25 * b + q := by omega
    have hY100 : (100 * b + 4 * q + k) / 100 = b := by omega
    rw [hyd, hY4, hY100]
    omega
  have hyf : yoeOf (36524 * b + 1461 * q + 365 * k + doy) = 100 * b + 4 * q + k :=
    yoe_formula b q k doy hb hq hk hdb hdl
  have e1 : (era * 146097 + (36524 * b + 1461 * q + 365 * k + doy) - 719468 + 719468) / 146097 = era := by omega
  have e2 : era * 146097 + (36524 * b + 1461 * q + 365 * k + doy) - 719468 + 719468 - era * 146097 =
      36524 * b + 1461 * q + 365 * k + doy := by omega
  have hY4 : (100 * b + 4 * q + k) / 4 = 25 * b + q := by omega
  have hY100 : (100 * b + 4 * q + k) / 100 = b := by omega
  have e3 : 36524 * b + 1461 * q + 365 * k + doy -
      (365 * (100 * b + 4 * q + k) + (100 * b + 4 * q + k) / 4 - (100 * b + 4 * q + k) / 100) = doy := by
    rw [hY4, hY100]; omega
  rw [hdays, civilFromDays_eq, e1, e2, hyf, e3]
  unfold civilOf
  rw [hmpe]
  rcases hmv with h | h | h | h | h | h | h | h | h | h | h | h <;> subst h <;> simp at hy' hmp ⊢ <;> omega

end WktJson
