import PbVerif.Lemmas.MsgTotal
import PbVerif.Lemmas.MsgAlg
/-
Unknown fields: which records the decoder keeps, what it keeps of them (raw bytes, input order),
and DiscardUnknown.  Used by Props/C09.
-/
namespace Pb
open Spec

/-! ### which records the decoder keeps as unknown -/

/-- a record of declared field `f` arriving with wire type `wt` is not interpreted (errUnknown):
the wire type fits neither the field's kind nor (for repeated numerics) the packed form -/
def wtUnknown (f : Field) (wt : Nat) : Bool :=
  match f.card with
  | .map => wt != 2
  | .repeated =>
    if f.kind.isMessage then (if f.kind = .group then wt != 3 else wt != 2)
    else if f.kind.isNumeric && wt == 2 then false
    else wt != f.kind.wireType
  | _ =>
    if f.kind.isMessage then (if f.kind = .group then wt != 3 else wt != 2)
    else wt != f.kind.wireType

/-- record `(num, wt)` goes to the unknown fields of a message of descriptor `d` -/
def isUnknownRec (d : MsgD) (num wt : Nat) : Bool :=
  match d.find num with
  | none => true
  | some f => wtUnknown f wt

theorem decSubBytes_none_iff (f : Field) (wt : Nat) (val : List Byte) :
    decSubBytes f wt val = none ↔ (if f.kind = .group then wt != 3 else wt != 2) = true := by
  unfold decSubBytes
  by_cases hg : f.kind = .group
  · simp only [hg, if_true]
    by_cases hw : wt = 3
    · subst hw; simp; split <;> simp
    · simp [hw]
  · simp only [hg, if_false]
    by_cases hw : wt = 2
    · subst hw; simp; split <;> simp
    · simp [hw]

theorem decScalar_none_iff {f : Field} (hm : f.kind.isMessage = false) (wt : Nat) (val : List Byte) :
    decScalar f wt val = none ↔ (wt != f.kind.wireType) = true := by
  unfold decScalar
  by_cases hw : wt = f.kind.wireType
  · subst hw
    simp only [ne_eq, not_true_eq_false, if_false, bne_self_eq_false, Bool.false_eq_true, iff_false]
    cases hk : f.kind <;> simp only [hk, Kind.wireType, Kind.isMessage] at hm ⊢
    all_goals first
      | (cases hm; done)
      | (repeat' split
         all_goals simp)
  · simp [hw]

theorem decSubBytes_some_wt {f : Field} {wt : Nat} {val : List Byte} {r : Except DErr (List Byte)}
    (h : decSubBytes f wt val = some r) : (if f.kind = .group then wt = 3 else wt = 2) := by
  have : ¬ decSubBytes f wt val = none := by rw [h]; simp
  rw [decSubBytes_none_iff] at this
  split <;> simp_all

theorem decScalar_some_wt {f : Field} (hm : f.kind.isMessage = false) {wt : Nat} {val : List Byte}
    {r : Except DErr Val} (h : decScalar f wt val = some r) : wt = f.kind.wireType := by
  have : ¬ decScalar f wt val = none := by rw [h]; simp
  rw [decScalar_none_iff hm] at this
  simpa using this

/-- `decField` answers `unknown` exactly on `wtUnknown` (when it does not fail) -/
theorem decField_unknown_iff {S : Schema} {mi : Nat} {m : Msg} {f : Field} {wt : Nat} {val : List Byte}
    {depth : Int} {dis : Bool} (fuel : Nat) :
    (decField (fuel + 1) S mi m f wt val depth dis = .unknown → wtUnknown f wt = true) ∧
    (∀ m', decField (fuel + 1) S mi m f wt val depth dis = .ok m' → wtUnknown f wt = false) := by
  constructor
  · intro h
    unfold decField at h
    repeat' (first | split at h | (dsimp only at h; split at h))
    all_goals (first | (cases h; done) | skip)
    all_goals (try have hsb := (decSubBytes_none_iff _ _ _).mp ‹decSubBytes _ _ _ = none›)
    all_goals (try have hsc := (decScalar_none_iff (by simpa using ‹¬ f.kind.isMessage = true›) _ _).mp ‹decScalar _ _ _ = none›)
    all_goals (simp_all [wtUnknown])
    all_goals (cases hn : f.kind.isNumeric <;> simp_all)
  · intro m' h
    unfold decField at h
    repeat' (first | split at h | (dsimp only at h; split at h))
    all_goals (first | (cases h; done) | skip)
    all_goals (try have hsb := decSubBytes_some_wt ‹decSubBytes _ _ _ = some _›)
    all_goals (try have hsc := decScalar_some_wt (by simpa using ‹¬ f.kind.isMessage = true›) ‹decScalar _ _ _ = some _›)
    all_goals (simp_all [wtUnknown])

/-- the raw records of `b`, in input order, that a message of descriptor `d` does not interpret:
undeclared numbers, and declared numbers arriving with a wire type that fits neither the kind nor
the packed form -/
def unkScan (d : MsgD) : Nat → List Byte → List Byte
  | 0, _ => []
  | fuel + 1, b =>
    match b with
    | [] => []
    | _ =>
      match consumeField b with
      | .error _ => []
      | .ok (num, wt, n) =>
        (if isUnknownRec d num wt then b.take n else []) ++ unkScan d fuel (b.drop n)

def unknownOfInput (d : MsgD) (b : List Byte) : List Byte := unkScan d (Pb.fuelFor b) b

theorem decField_ok_unknown {S : Schema} {mi : Nat} {m m' : Msg} {f : Field} {wt : Nat} {val : List Byte}
    {depth : Int} {dis : Bool} (fuel : Nat) (h : decField fuel S mi m f wt val depth dis = .ok m') :
    m'.unknown = m.unknown := by
  cases fuel with
  | zero => simp [decField] at h
  | succ fu =>
    unfold decField at h
    repeat' (first | split at h | (dsimp only at h; split at h))
    all_goals first
      | (cases h; done)
      | (simp only [Step.ok.injEq] at h; subst h; rfl)

/-- the unknown fields after a successful decode: what was there, followed by the uninterpreted
records of the input, raw and in input order (top level) -/
theorem decMsg_unknown_eq : ∀ (fuel : Nat) (S : Schema) (mi : Nat) (m : Msg) (b : List Byte) (depth : Int) (r : Msg),
    decMsg fuel S mi m b depth false = .ok r → r.unknown = m.unknown ++ unkScan (S.msg mi) fuel b
  | 0, _, _, _, _, _, _, h => by simp [decMsg] at h
  | fuel + 1, S, mi, m, b, depth, r, h => by
    unfold decMsg at h
    unfold unkScan
    split at h
    · simp only [Except.ok.injEq] at h; subst h; simp
    · rename_i hb
      split at h
      · cases h
      · rename_i num wt tl ht
        simp only at h
        by_cases hmax : num > maxValidNumber
        · simp [hmax] at h
        · simp only [hmax, if_false] at h
          have hcf : ∀ n, consumeFieldValue num wt (b.drop tl) = .ok n → consumeField b = .ok (num, wt, tl + n) := by
            intro n hn; unfold consumeField; rw [ht]; simp only [hn]
          have hbm : (match b with
              | [] => ([] : List Byte)
              | _ => match consumeField b with
                | .error _ => []
                | .ok (num, wt, n) =>
                  (if isUnknownRec (S.msg mi) num wt then b.take n else []) ++ unkScan (S.msg mi) fuel (b.drop n)) =
              match consumeField b with
                | .error _ => []
                | .ok (num, wt, n) =>
                  (if isUnknownRec (S.msg mi) num wt then b.take n else []) ++ unkScan (S.msg mi) fuel (b.drop n) := by
            cases b with
            | nil => exact absurd rfl hb
            | cons x r => rfl
          rw [hbm]
          cases hfind : (S.msg mi).find num with
          | none =>
            simp only [hfind] at h
            split at h
            · cases h
            · rename_i n hn
              have ih := decMsg_unknown_eq fuel S mi _ _ depth r h
              rw [ih, hcf n hn]
              simp only [isUnknownRec, hfind, if_true, Bool.false_eq_true, if_false, Msg.unknown, List.drop_drop,
                List.append_assoc]
          | some f =>
            simp only [hfind] at h
            cases hstep : decField fuel S mi m f wt (b.drop tl) depth false with
            | err e => simp [hstep] at h
            | ok m' =>
              simp only [hstep] at h
              split at h
              · cases h
              · rename_i n hn
                have ih := decMsg_unknown_eq fuel S mi _ _ depth r h
                have hu := decField_ok_unknown fuel hstep
                have hw : wtUnknown f wt = false := by
                  cases fuel with
                  | zero => simp [decField] at hstep
                  | succ fu => exact (decField_unknown_iff fu).2 _ hstep
                rw [ih, hcf n hn, hu]
                simp only [isUnknownRec, hfind, hw, Bool.false_eq_true, if_false, List.nil_append, List.drop_drop]
            | unknown =>
              simp only [hstep] at h
              split at h
              · cases h
              · rename_i n hn
                have ih := decMsg_unknown_eq fuel S mi _ _ depth r h
                have hw : wtUnknown f wt = true := by
                  cases fuel with
                  | zero => simp [decField] at hstep
                  | succ fu => exact (decField_unknown_iff fu).1 hstep
                rw [ih, hcf n hn]
                simp only [isUnknownRec, hfind, hw, if_true, Bool.false_eq_true, if_false, Msg.unknown, List.drop_drop,
                  List.append_assoc]

/-! ### DiscardUnknown -/

mutual
/-- no message in the tree retains unknown fields -/
def noUnkMsg : Msg → Bool
  | .mk fs u => u.isEmpty && noUnkFields fs
def noUnkFields : Fields → Bool
  | .nil => true
  | .cons _ fv tl => noUnkFVal fv && noUnkFields tl
def noUnkFVal : FVal → Bool
  | .one v => noUnkVal v
  | .many vs => noUnkVals vs
def noUnkVal : Val → Bool
  | .msg m => noUnkMsg m
  | _ => true
def noUnkVals : Vals → Bool
  | .nil => true
  | .cons v tl => noUnkVal v && noUnkVals tl
end

theorem noUnkFields_set (k : Nat) {fv : FVal} (hv : noUnkFVal fv = true) : ∀ {fs : Fields},
    noUnkFields fs = true → noUnkFields (fs.set k fv) = true := by
  intro fs
  induction fs using Fields.ind with
  | nil => intro _; simp [Fields.set, noUnkFields, hv]
  | cons n x tl ih =>
    intro h
    simp only [noUnkFields, Bool.and_eq_true] at h
    simp only [Fields.set]
    split
    · simp [noUnkFields, hv, h.1, h.2]
    · split
      · simp [noUnkFields, hv, h.2]
      · simp [noUnkFields, h.1, ih h.2]

theorem noUnkFields_erase (k : Nat) : ∀ {fs : Fields}, noUnkFields fs = true → noUnkFields (fs.erase k) = true := by
  intro fs
  induction fs using Fields.ind with
  | nil => intro _; simp [Fields.erase, noUnkFields]
  | cons n x tl ih =>
    intro h
    simp only [noUnkFields, Bool.and_eq_true] at h
    simp only [Fields.erase]
    split
    · exact ih h.2
    · simp [noUnkFields, h.1, ih h.2]

theorem noUnkFields_clearOneof (d : MsgD) (o keep : Nat) : ∀ {fs : Fields}, noUnkFields fs = true →
    noUnkFields (Fields.clearOneof d o keep fs) = true := by
  intro fs
  induction fs using Fields.ind with
  | nil => intro _; simp [Fields.clearOneof, noUnkFields]
  | cons n x tl ih =>
    intro h
    simp only [noUnkFields, Bool.and_eq_true] at h
    rw [Fields.clearOneof_cons]
    split
    · exact ih h.2
    · simp [noUnkFields, h.1, ih h.2]

theorem noUnkFields_get {k : Nat} {fv : FVal} : ∀ {fs : Fields}, noUnkFields fs = true → fs.get? k = some fv →
    noUnkFVal fv = true := by
  intro fs
  induction fs using Fields.ind with
  | nil => intro _ h; simp [Fields.get?] at h
  | cons n x tl ih =>
    intro h hg
    simp only [noUnkFields, Bool.and_eq_true] at h
    rw [Fields.get?_cons] at hg
    split at hg
    · cases hg; exact h.1
    · exact ih h.2 hg

theorem noUnkVals_append : ∀ (a b : Vals), noUnkVals a = true → noUnkVals b = true → noUnkVals (a.append b) = true
  | .nil, b, _, hb => hb
  | .cons v tl, b, ha, hb => by
    simp only [noUnkVals, Bool.and_eq_true] at ha
    simp [Vals.append, noUnkVals, ha.1, noUnkVals_append tl b ha.2 hb]

theorem noUnkVals_mapPut (k : Val) {e : Msg} (he : noUnkMsg e = true) : ∀ (vs : Vals), noUnkVals vs = true →
    noUnkVals (mapPut vs k e) = true
  | .nil, _ => by simp [mapPut, noUnkVals, noUnkVal, he]
  | .cons (.msg old) tl, h => by
    simp only [noUnkVals, Bool.and_eq_true] at h
    simp only [mapPut]
    split
    · split
      · simp [noUnkVals, noUnkVal, he, h.2]
      · simp [noUnkVals, h.1, noUnkVals_mapPut k he tl h.2]
    · simp [noUnkVals, h.1, noUnkVals_mapPut k he tl h.2]
  | .cons (.num n) tl, h => by
    simp only [noUnkVals, Bool.and_eq_true] at h
    simp [mapPut, noUnkVals, noUnkVal, noUnkVals_mapPut k he tl h.2]
  | .cons (.bytes b) tl, h => by
    simp only [noUnkVals, Bool.and_eq_true] at h
    simp [mapPut, noUnkVals, noUnkVal, noUnkVals_mapPut k he tl h.2]

theorem noUnkVals_listAt {fs : Fields} (h : noUnkFields fs = true) (k : Nat) : noUnkVals (fs.listAt k) = true := by
  unfold Fields.listAt
  split
  · rename_i o ho; have := noUnkFields_get h ho; simpa [noUnkFVal] using this
  · rfl

theorem noUnkFields_appendList {fs : Fields} (h : noUnkFields fs = true) (k : Nat) {vs : Vals}
    (hv : noUnkVals vs = true) : noUnkFields (appendList fs k vs) = true := by
  rw [appendList_eq]; split
  · exact h
  · exact noUnkFields_set k (by simp [noUnkFVal, noUnkVals_append _ _ (noUnkVals_listAt h k) hv]) h

theorem noUnkFields_setSingular (d : MsgD) (f : Field) {fs : Fields} (h : noUnkFields fs = true) {v : Val}
    (hv : noUnkVal v = true) : noUnkFields (setSingular d f fs v) = true := by
  unfold setSingular
  cases f.oneof with
  | none =>
    simp only; split
    · exact noUnkFields_erase _ h
    · exact noUnkFields_set _ (by simpa [noUnkFVal] using hv) h
  | some o =>
    simp only; split
    · exact noUnkFields_erase _ (noUnkFields_clearOneof d o _ h)
    · exact noUnkFields_set _ (by simpa [noUnkFVal] using hv) (noUnkFields_clearOneof d o _ h)

theorem decScalar_noUnk {f : Field} {wt : Nat} {val : List Byte} {v : Val} (h : decScalar f wt val = some (.ok v)) :
    noUnkVal v = true := by
  unfold decScalar at h
  repeat' split at h
  all_goals first
    | (cases h; done)
    | (simp only [Option.some.injEq, Except.ok.injEq] at h; subst h; rfl)

theorem decPacked_noUnk (k : Kind) : ∀ (fuel : Nat) (b : List Byte) (vs : Vals), decPacked k fuel b = .ok vs →
    noUnkVals vs = true
  | 0, _, _, h => by simp [decPacked] at h
  | fuel + 1, [], vs, h => by simp only [decPacked, Except.ok.injEq] at h; subst h; rfl
  | fuel + 1, x :: r, vs, h => by
    rw [decPacked_succ k fuel (by simp)] at h
    have step : ∀ (n v : Nat), Except.map (Vals.cons (.num v)) (decPacked k fuel ((x :: r).drop n)) = .ok vs →
        noUnkVals vs = true := by
      intro n v hr
      cases hd : decPacked k fuel ((x :: r).drop n) with
      | error e => simp [hd, Except.map] at hr
      | ok tl =>
        simp only [hd, Except.map, Except.ok.injEq] at hr; subst hr
        simp [noUnkVals, noUnkVal, decPacked_noUnk k fuel _ tl hd]
    repeat' split at h
    all_goals first
      | (cases h; done)
      | exact step _ _ h

mutual
theorem stripMsg_noUnk : ∀ m : Msg, noUnkMsg (stripMsg true m) = true
  | .mk fs unk => by simp [stripMsg, noUnkMsg, stripFields_noUnk fs]
theorem stripFields_noUnk : ∀ fs : Fields, noUnkFields (stripFields true fs) = true
  | .nil => by simp [stripFields, noUnkFields]
  | .cons n fv tl => by simp [stripFields, noUnkFields, stripFVal_noUnk fv, stripFields_noUnk tl]
theorem stripFVal_noUnk : ∀ fv : FVal, noUnkFVal (stripFVal true fv) = true
  | .one v => by simp [stripFVal, noUnkFVal, stripVal_noUnk v]
  | .many vs => by simp [stripFVal, noUnkFVal, stripVals_noUnk vs]
theorem stripVal_noUnk : ∀ v : Val, noUnkVal (stripVal true v) = true
  | .msg m => by simp [stripVal, noUnkVal, stripMsg_noUnk m]
  | .num n => by simp [stripVal, noUnkVal]
  | .bytes b => by simp [stripVal, noUnkVal]
theorem stripVals_noUnk : ∀ vs : Vals, noUnkVals (stripVals true vs) = true
  | .nil => by simp [stripVals, noUnkVals]
  | .cons v tl => by simp [stripVals, noUnkVals, stripVal_noUnk v, stripVals_noUnk tl]
end

theorem noUnkMsg_empty : noUnkMsg Msg.empty = true := by simp [Msg.empty, noUnkMsg, noUnkFields]

/-- **with DiscardUnknown the decoder never stores unknown fields**, at any level, on any input -/
theorem dec_noUnk : ∀ (fuel : Nat),
    (∀ S mi m b depth r, noUnkMsg m = true → decMsg fuel S mi m b depth true = .ok r → noUnkMsg r = true) ∧
    (∀ S mi m f wt val depth m', noUnkMsg m = true → decField fuel S mi m f wt val depth true = .ok m' →
      noUnkMsg m' = true) ∧
    (∀ S kf vf k v b depth k' v', (∀ kv, k = some kv → noUnkVal kv = true) → (∀ vv, v = some vv → noUnkVal vv = true) →
      decEntry fuel S kf vf k v b depth true = .ok (k', v') →
      (∀ kv, k' = some kv → noUnkVal kv = true) ∧ (∀ vv, v' = some vv → noUnkVal vv = true))
  | 0 => by refine ⟨?_, ?_, ?_⟩ <;> intros <;> simp_all [decMsg, decField, decEntry]
  | fuel + 1 => by
    obtain ⟨ihA, ihB, ihC⟩ := dec_noUnk fuel
    refine ⟨?_, ?_, ?_⟩
    · intro S mi m b depth r hm h
      unfold decMsg at h
      split at h
      · simp only [Except.ok.injEq] at h; subst h; exact hm
      · split at h
        · cases h
        · rename_i num wt tl ht
          simp only at h
          by_cases hmax : num > maxValidNumber
          · simp [hmax] at h
          · simp only [hmax, if_false] at h
            cases hfind : (S.msg mi).find num with
            | none =>
              simp only [hfind] at h
              split at h
              · cases h
              · exact ihA _ _ _ _ _ _ hm h
            | some f =>
              simp only [hfind] at h
              cases hstep : decField fuel S mi m f wt (b.drop tl) depth true with
              | err e => simp [hstep] at h
              | ok m' =>
                simp only [hstep] at h
                split at h
                · cases h
                · exact ihA _ _ _ _ _ _ (ihB _ _ _ _ _ _ _ _ hm hstep) h
              | unknown =>
                simp only [hstep] at h
                split at h
                · cases h
                · exact ihA _ _ _ _ _ _ hm h
    · intro S mi m f wt val depth m' hm h
      cases m with
      | mk fs u =>
      simp only [noUnkMsg, Bool.and_eq_true] at hm
      obtain ⟨hu, hfs⟩ := hm
      unfold decField at h
      simp only [Msg.fields, Msg.unknown] at h
      split at h
      · -- repeated
        split at h
        · repeat' split at h
          all_goals first
            | (cases h; done)
            | (simp only [Step.ok.injEq] at h; subst h
               have hs := ihA _ _ _ _ _ _ noUnkMsg_empty ‹decMsg _ _ _ Msg.empty _ _ _ = .ok _›
               simp only [noUnkMsg, hu, Bool.true_and]
               exact noUnkFields_appendList hfs _ (by simp [noUnkVals, noUnkVal, hs]))
        · repeat' split at h
          all_goals first
            | (cases h; done)
            | (simp only [Step.ok.injEq] at h; subst h
               simp only [noUnkMsg, hu, Bool.true_and]
               first
                 | exact noUnkFields_appendList hfs _ (decPacked_noUnk _ _ _ _ ‹_›)
                 | (have hs := decScalar_noUnk ‹decScalar _ _ _ = some (.ok _)›
                    exact noUnkFields_appendList hfs _ (by simp [noUnkVals, hs])))
      · -- map
        split at h
        · cases h
        · split at h
          · cases h
          · split at h
            · cases h
            · try dsimp only at h
              split at h
              · rename_i kf vf hk hv
                split at h
                · cases h
                · rename_i k v hkv
                  have hkvn := ihC _ _ _ _ _ _ _ _ _ (by intro kv hk'; cases hk')
                    (by intro vv hvv; split at hvv <;> cases hvv; simp [noUnkVal, noUnkMsg_empty]) hkv
                  have hdef : ∀ g : Field, noUnkVal (defaultScalar g) = true := by
                    intro g; unfold defaultScalar; split <;> rfl
                  have hkey : noUnkVal (k.getD (defaultScalar kf)) = true := by
                    cases k with
                    | none => exact hdef kf
                    | some kv => exact hkvn.1 kv rfl
                  have hval : noUnkVal (v.getD (defaultScalar vf)) = true := by
                    cases v with
                    | none => exact hdef vf
                    | some vv => exact hkvn.2 vv rfl
                  have hent : noUnkMsg (.mk (.cons 1 (.one (k.getD (defaultScalar kf)))
                      (.cons 2 (.one (v.getD (defaultScalar vf))) .nil)) []) = true := by
                    simp [noUnkMsg, noUnkFields, noUnkFVal, hkey, hval]
                  try dsimp only at h
                  split at h
                  · rename_i vs hvs
                    simp only [Step.ok.injEq] at h; subst h
                    have hold : noUnkVals vs = true := by
                      have := noUnkFields_get hfs hvs; simpa [noUnkFVal] using this
                    simp only [noUnkMsg, hu, Bool.true_and]
                    exact noUnkFields_set _ (by simpa [noUnkFVal] using noUnkVals_mapPut _ hent vs hold) hfs
                  · simp only [Step.ok.injEq] at h; subst h
                    simp only [noUnkMsg, hu, Bool.true_and]
                    exact noUnkFields_set _ (by simpa [noUnkFVal] using noUnkVals_mapPut _ hent .nil rfl) hfs
              · cases h
      · -- singular
        split at h
        · split at h
          · cases h
          · cases h
          · try dsimp only at h
            split at h
            · cases h
            · split at h
              · cases h
              · rename_i sub hsub
                simp only [Step.ok.injEq] at h; subst h
                have hfs0 : noUnkFields (match f.oneof with
                    | some o => Fields.clearOneof (S.msg mi) o f.num fs
                    | none => fs) = true := by
                  cases f.oneof with
                  | none => exact hfs
                  | some o => exact noUnkFields_clearOneof _ o _ hfs
                have hcur : noUnkMsg (match (match f.oneof with
                    | some o => Fields.clearOneof (S.msg mi) o f.num fs
                    | none => fs).get? f.num with
                  | some (.one (.msg x)) => x
                  | _ => Msg.empty) = true := by
                  split
                  · rename_i x hx
                    have := noUnkFields_get hfs0 hx
                    simpa [noUnkFVal, noUnkVal] using this
                  · exact noUnkMsg_empty
                have hw := ihA _ _ _ _ _ _ hcur hsub
                simp only [noUnkMsg, hu, Bool.true_and]
                exact noUnkFields_set _ (by simpa [noUnkFVal, noUnkVal] using hw) hfs0
        · split at h
          · cases h
          · cases h
          · rename_i v hv
            simp only [Step.ok.injEq] at h; subst h
            simp only [noUnkMsg, hu, Bool.true_and]
            exact noUnkFields_setSingular _ _ hfs (decScalar_noUnk hv)
    · intro S kf vf k v b depth k' v' ek ev h
      unfold decEntry at h
      split at h
      · simp only [ite_self, Except.ok.injEq, Prod.mk.injEq] at h
        obtain ⟨rfl, rfl⟩ := h
        exact ⟨ek, ev⟩
      · split at h
        · cases h
        · dsimp only at h
          repeat' split at h
          all_goals first
            | (cases h; done)
            | exact ihC _ _ _ _ _ _ _ _ _ ek ev h
            | (refine ihC _ _ _ _ _ _ _ _ _ ?_ ev h
               intro kv hkv; cases hkv
               exact decScalar_noUnk ‹decScalar kf _ _ = some (.ok _)›)
            | (refine ihC _ _ _ _ _ _ _ _ _ ek ?_ h
               intro vv hvv; cases hvv
               first
                 | exact decScalar_noUnk ‹decScalar vf _ _ = some (.ok _)›
                 | (simp only [noUnkVal]
                    refine ihA _ _ _ _ _ _ ?_ ‹decMsg _ _ _ _ _ _ _ = .ok _›
                    split
                    · have := ev _ rfl; simpa [noUnkVal] using this
                    · exact noUnkMsg_empty))

end Pb
